(* Facts about ONE connection's bounded outgoing queue (Model/ConnQueue.v), for ALL histories, capacities and numbers
   of subscriptions: every function of the model is shown to preserve the invariant `Inv` and to extend the frame
   sequence (popped ++ queued) by a `Good` increment; `run_spec` chains that over any list of steps from `init`.

   The model interprets a LIST of accept steps.  What the proofs need of that list is the boolean `head_ok`:
       ATableInsert* ; ASendToSink ; (no further ASendToSink, at most one ANotifyCall) ... ABuildSink
   i.e. the accepting response is handed to the queue BEFORE the subscribe call is notified and before the handler gets
   its sink, and once it is in the queue nothing in accept can wait or fail any more.  The general lemmas take
   `head_ok steps = true` as a hypothesis; the lemmas of the last section instantiate them with the constant
   Gen/AcceptOrderGen.accept_steps and discharge the hypothesis BY COMPUTATION (`eq_refl`): they stop compiling when the
   order read from the source changes to one with ANotifyCall before ASendToSink. *)
From JV Require Import Base.Bytes Base.Dec Model.Wire Model.AcceptSteps Gen.AcceptOrderGen Model.ConnQueue.
Local Arguments N.eqb : simpl never.
Local Arguments N.add : simpl never.
Local Arguments N.of_nat : simpl never.

(* ---------- subscription ids announced by a frame sequence ---------- *)
Fixpoint ann (l : list frame) : list N :=
  match l with
  | [] => []
  | FSubOk _ sd :: l' => sd :: ann l'
  | _ :: l' => ann l'
  end.

Lemma ann_app l1 l2 : ann (l1 ++ l2) = ann l1 ++ ann l2.
Proof. induction l1 as [|f l1 IH]; [reflexivity|]. destruct f; cbn; rewrite ?IH; reflexivity. Qed.

Lemma in_ann l sd : In sd (ann l) <-> exists c, In (FSubOk c sd) l.
Proof.
  induction l as [|f l IH]; cbn.
  - split; [tauto | intros [c []]].
  - split.
    + intro H. assert (H' : (exists c, f = FSubOk c sd) \/ In sd (ann l)).
      { destruct f; cbn in H; auto. destruct H as [-> | H]; [left; eexists; reflexivity | auto]. }
      destruct H' as [[c ->] | H']; [exists c; left; reflexivity|].
      apply IH in H'. destruct H' as [c Hc]. exists c; right; exact Hc.
    + intros [c [-> | H]]; [cbn; left; reflexivity|].
      assert (In sd (ann l)) by (apply IH; exists c; exact H). destruct f; cbn; auto.
Qed.

(* every notification of the increment d is announced by what precedes it; a = announced before d *)
Fixpoint nbl (a : list N) (d : list frame) : Prop :=
  match d with
  | [] => True
  | f :: d' => (forall sd, notif_sid f = Some sd -> In sd a) /\ nbl (ann [f] ++ a) d'
  end.

Lemma nbl_incl d : forall a a', incl a a' -> nbl a d -> nbl a' d.
Proof.
  induction d as [|f d IH]; cbn; [tauto|]. intros a a' Hi [H1 H2]. split.
  - intros sd Hs. apply Hi, H1, Hs.
  - eapply IH; [|exact H2]. apply incl_app; [apply incl_appl, incl_refl | apply incl_appr, Hi].
Qed.

Lemma nbl_app d1 : forall a d2, nbl a d1 -> nbl (ann d1 ++ a) d2 -> nbl a (d1 ++ d2).
Proof.
  induction d1 as [|f d1 IH]; intros a d2 H1 H2; [exact H2|].
  cbn [app nbl] in *. destruct H1 as [Hf H1]. split; [exact Hf|].
  apply IH; [exact H1|]. eapply nbl_incl; [|exact H2].
  change (f :: d1) with ([f] ++ d1). rewrite ann_app.
  intros x Hx. apply in_app_or in Hx. destruct Hx as [Hx | Hx].
  - apply in_app_or in Hx. destruct Hx as [Hx | Hx]; apply in_or_app; [right; apply in_or_app; left | left]; exact Hx.
  - apply in_or_app; right; apply in_or_app; right; exact Hx.
Qed.

Lemma nbl_split d : forall a pre f post sd,
  nbl a d -> d = pre ++ f :: post -> notif_sid f = Some sd -> In sd (ann pre ++ a).
Proof.
  induction d as [|g d IH]; intros a pre f post sd H E Hs.
  - destruct pre; discriminate.
  - destruct pre as [|p pre]; cbn in E; inversion E; subst.
    + cbn. apply (proj1 H), Hs.
    + destruct H as [_ H]. specialize (IH _ _ _ _ _ H eq_refl Hs).
      change (p :: pre) with ([p] ++ pre). rewrite ann_app.
      apply in_app_or in IH. destruct IH as [IH | IH]; [apply in_or_app; left; apply in_or_app; right; exact IH|].
      apply in_app_or in IH. destruct IH as [IH | IH]; apply in_or_app; [left; apply in_or_app; left | right]; exact IH.
Qed.

Lemma filter_map_app {A B} (f : A -> option B) l1 l2 : filter_map f (l1 ++ l2) = filter_map f l1 ++ filter_map f l2.
Proof. induction l1 as [|a l1 IH]; cbn; [reflexivity|]. destruct (f a); cbn; rewrite IH; reflexivity. Qed.

(* ---------- lists ---------- *)
Lemma nth_error_upd {A} (l : list A) g : forall h h',
  nth_error (upd l h g) h' = if Nat.eqb h' h then option_map g (nth_error l h) else nth_error l h'.
Proof.
  induction l as [|a l IH]; intros h h'.
  - destruct h, h'; cbn; try reflexivity. destruct (Nat.eqb h' h); reflexivity.
  - destruct h, h'; cbn; try reflexivity. apply IH.
Qed.

(* ---------- what the list of accept steps has to look like ---------- *)
Fixpoint tail_ok (l : list accept_step) (notified : bool) : bool :=
  match l with
  | [] => false
  | ABuildSink :: _ => true
  | ASendToSink :: _ => false
  | ANotifyCall :: l' => negb notified && tail_ok l' true
  | ATableInsert :: l' => tail_ok l' notified
  end.
Fixpoint head_ok (l : list accept_step) : bool :=
  match l with
  | ATableInsert :: l' => head_ok l'
  | ASendToSink :: l' => tail_ok l' false
  | _ => false
  end.

Definition active (x : hstate) : bool := match x with HActive | HSendParked _ => true | _ => false end.
Definition needs (b : sub) : bool := s_armed b || active (s_h b).
Definition quiet (outs : list out) : Prop := forall h, filter_map (ok_item h) outs = [].

Section Facts.
Variables (cap : nat) (base : N).

Notation sid := (ConnQueue.sid base).
Notation room := (ConnQueue.room cap).
Notation wframe := (ConnQueue.wframe base).
Notation post := (ConnQueue.post cap base).
Notation forward := (ConnQueue.forward cap base).
Notation fire := (ConnQueue.fire cap base).
Notation call_answered := (ConnQueue.call_answered cap base).
Notation call_dropped := (ConnQueue.call_dropped cap base).
Notation do_return := (ConnQueue.do_return cap base).
Notation accept_fail := (ConnQueue.accept_fail cap base).
Notation accept_run := (ConnQueue.accept_run cap base).
Notation rej_finish := (ConnQueue.rej_finish cap base).
Notation resume := (ConnQueue.resume cap base).
Notation wake := (ConnQueue.wake cap base).
Notation fail_all := (ConnQueue.fail_all cap base).
Notation step_with := (ConnQueue.step_with cap base).
Notation run_with := (ConnQueue.run_with cap base).

Lemma sid_inj h h' : sid h = sid h' -> h = h'.
Proof. unfold ConnQueue.sid. intro H. apply Nat2N.inj. lia. Qed.

Lemma sid_eqb h h' : N.eqb (sid h) (sid h') = Nat.eqb h h'.
Proof.
  destruct (Nat.eqb h h') eqn:E.
  - apply Nat.eqb_eq in E. subst. apply N.eqb_refl.
  - apply N.eqb_neq. intro H. apply sid_inj in H. apply Nat.eqb_neq in E. contradiction.
Qed.

(* a waiter is harmless: its frame, should it get into the queue, is announced already; a parked accept has only
   steps left that cannot wait or fail *)
Definition wgood (a : list N) (k : wkind) : Prop :=
  match k with
  | KAcc _ _ tx rest => tail_ok rest (negb tx) = true
  | KRej _ _ _ => True
  | KSend h _ => In (sid h) a
  | KPlain f => match f with FSubOk _ _ | FNotif _ _ => False | FClosing sd _ _ => In sd a | _ => True end
  end.

Lemma wgood_mono a a' k : incl a a' -> wgood a k -> wgood a' k.
Proof. intros Hi. destruct k as [| | |f]; cbn; auto. destruct f; auto. Qed.

Record Inv (s : st) : Prop := mkInv {
  inv_len : length (q s) <= cap;
  inv_sub : forall h b, get s h = Some b -> needs b = true -> In (sid h) (ann (frames s));
  inv_w : forall k, In k (waiters s) -> wgood (ann (frames s)) k
}.

(* s' extends the frame sequence of s by d, reporting outs *)
Record Good (s s' : st) (outs : list out) (d : list frame) : Prop := mkGood {
  g_frames : frames s' = frames s ++ d;
  g_nb : nbl (ann (frames s)) d;
  g_fifo : forall h, filter_map (plain_item (sid h)) d = filter_map (ok_item h) outs;
  g_acc : forall h, In (sid h) (ann d) -> In (OAcc h ROk) outs
}.

Definition Spec (s : st) (r : st * list out) : Prop := Inv (fst r) /\ exists d, Good s (fst r) (snd r) d.

Lemma ann_grow s d : incl (ann (frames s)) (ann (frames s ++ d)).
Proof. rewrite ann_app. apply incl_appl, incl_refl. Qed.

Lemma Good_grow s s' o d : Good s s' o d -> incl (ann (frames s)) (ann (frames s')).
Proof. intros [E _ _ _]. rewrite E. apply ann_grow. Qed.

Lemma Good_refl s s' outs : frames s' = frames s -> quiet outs -> Good s s' outs [].
Proof.
  intros E Q. constructor.
  - rewrite app_nil_r. exact E.
  - exact Logic.I.
  - intro h. symmetry. apply Q.
  - intros h [].
Qed.

Lemma Good_trans s s1 s2 o1 o2 d1 d2 : Good s s1 o1 d1 -> Good s1 s2 o2 d2 -> Good s s2 (o1 ++ o2) (d1 ++ d2).
Proof.
  intros [E1 N1 F1 A1] [E2 N2 F2 A2]. constructor.
  - rewrite E2, E1, app_assoc. reflexivity.
  - apply nbl_app; [exact N1|]. eapply nbl_incl; [|exact N2]. rewrite E1, ann_app.
    intros x Hx. apply in_app_or in Hx. apply in_or_app. tauto.
  - intro h. rewrite !filter_map_app, F1, F2. reflexivity.
  - intros h Hh. rewrite ann_app in Hh. apply in_app_or in Hh. apply in_or_app.
    destruct Hh as [Hh | Hh]; [left; apply A1 | right; apply A2]; exact Hh.
Qed.

Lemma Good_src s0 s s' o d : frames s0 = frames s -> Good s0 s' o d -> Good s s' o d.
Proof. intros E [E1 N1 F1 A1]. constructor; auto; rewrite <- E; auto. Qed.

Lemma Good_tgt s s' s'' o d : frames s'' = frames s' -> Good s s' o d -> Good s s'' o d.
Proof. intros E [E1 N1 F1 A1]. constructor; auto. rewrite E. exact E1. Qed.

Lemma frames_enq f s : frames (enq f s) = frames s ++ [f].
Proof. unfold frames, enq. cbn. apply app_assoc. Qed.

Lemma Good_enq s f outs :
  (forall sd, notif_sid f = Some sd -> In sd (ann (frames s))) ->
  (forall h, filter_map (plain_item (sid h)) [f] = filter_map (ok_item h) outs) ->
  (forall h, In (sid h) (ann [f]) -> In (OAcc h ROk) outs) ->
  Good s (enq f s) outs [f].
Proof. intros H1 H2 H3. constructor; auto; [apply frames_enq | cbn; auto]. Qed.

(* the accepting response of h followed by an increment in which accept reported Ok *)
Lemma Good_cons_subok s s' c h outs d :
  Good (enq (FSubOk c (sid h)) s) s' outs d -> In (OAcc h ROk) outs -> Good s s' outs (FSubOk c (sid h) :: d).
Proof.
  intros [E N F A] Hin. rewrite frames_enq in E, N. constructor.
  - rewrite E, <- app_assoc. reflexivity.
  - cbn. split; [discriminate|]. eapply nbl_incl; [|exact N]. rewrite ann_app. cbn.
    intros x Hx. apply in_app_or in Hx. cbn in Hx. cbn. tauto.
  - intro h'. cbn. apply F.
  - intros h' Hh. cbn in Hh. destruct Hh as [Hh | Hh]; [apply sid_inj in Hh; subst; exact Hin | apply A, Hh].
Qed.

Lemma quiet_nil : quiet [].
Proof. intro h. reflexivity. Qed.

Lemma Spec_refl s outs : Inv s -> quiet outs -> Spec s (s, outs).
Proof. intros I Q. split; [exact I|]. exists []. apply Good_refl; auto. Qed.

Lemma Spec_bind s r1 r2 : Spec s r1 -> Spec (fst r1) r2 -> Spec s (fst r2, snd r1 ++ snd r2).
Proof.
  intros [_ [d1 G1]] [I2 [d2 G2]]. split; [exact I2|]. exists (d1 ++ d2). eapply Good_trans; eauto.
Qed.

Lemma Spec_then s s1 r2 : Spec s (s1, []) -> Spec s1 r2 -> Spec s r2.
Proof. intros S1 S2. pose proof (Spec_bind _ _ _ S1 S2) as H. destruct r2. exact H. Qed.

Lemma Spec_cons s r o : Spec s r -> quiet [o] -> Spec s (fst r, o :: snd r).
Proof.
  intros [I [d G]] Q. split; [exact I|]. exists d. cbn [fst snd].
  change (o :: snd r) with ([o] ++ snd r). change d with ([] ++ d).
  eapply Good_trans; [|exact G]. apply Good_refl; auto.
Qed.

Lemma Spec_src s0 s r : frames s0 = frames s -> Spec s0 r -> Spec s r.
Proof. intros E [I [d G]]. split; [exact I|]. exists d. eapply Good_src; eauto. Qed.

(* ---------- the invariant under the elementary changes of the state ---------- *)
Lemma Inv_same s s' :
  frames s' = frames s -> length (q s') <= cap -> subs s' = subs s -> incl (waiters s') (waiters s) -> Inv s -> Inv s'.
Proof.
  intros Ef Hl Es Hw [I1 I2 I3]. constructor; [exact Hl | |].
  - intros h b Hg. unfold get in *. rewrite Es in Hg. rewrite Ef. eauto.
  - intros k Hk. rewrite Ef. auto.
Qed.

Lemma room_len s : room s = true -> S (length (q s)) <= cap.
Proof. unfold ConnQueue.room. intro H. apply Nat.ltb_lt in H. lia. Qed.

Lemma Inv_enq f s : Inv s -> room s = true -> Inv (enq f s).
Proof.
  intros [I1 I2 I3] Hr. constructor.
  - cbn. rewrite app_length. cbn. apply room_len in Hr. lia.
  - intros h b Hg Hn. rewrite frames_enq. apply ann_grow. eapply I2; eauto.
  - intros k Hk. rewrite frames_enq. eapply wgood_mono; [apply ann_grow|]. apply I3, Hk.
Qed.

Lemma Inv_park k s : Inv s -> wgood (ann (frames s)) k -> Inv (park k s).
Proof.
  intros [I1 I2 I3] Hk. constructor; auto.
  intros k' Hin. cbn in Hin. apply in_app_or in Hin. destruct Hin as [Hin | [<- | []]]; [apply I3, Hin | exact Hk].
Qed.

Lemma get_with_sub h g s h' :
  get (with_sub h g s) h' = if Nat.eqb h' h then option_map g (get s h) else get s h'.
Proof. unfold get, with_sub. cbn. apply nth_error_upd. Qed.

Lemma Inv_with_sub h g s :
  Inv s -> (forall b, get s h = Some b -> needs (g b) = true -> needs b = true \/ In (sid h) (ann (frames s))) ->
  Inv (with_sub h g s).
Proof.
  intros [I1 I2 I3] Hg. constructor; auto.
  intros h' b' Hget Hn. change (frames (with_sub h g s)) with (frames s).
  rewrite get_with_sub in Hget. destruct (Nat.eqb h' h) eqn:E.
  - apply Nat.eqb_eq in E. subst h'. destruct (get s h) as [b|] eqn:Eb; [|discriminate].
    cbn in Hget. inversion Hget; subst b'. destruct (Hg b eq_refl Hn) as [H | H]; [eapply I2; eauto | exact H].
  - eapply I2; eauto.
Qed.

Lemma Inv_set_h_inactive h x s : active x = false -> Inv s -> Inv (with_sub h (set_h x) s).
Proof.
  intros Hx I. apply Inv_with_sub; [exact I|]. intros b _ Hn. left.
  unfold needs in *. cbn in Hn. rewrite Hx, orb_false_r in Hn. rewrite Hn. reflexivity.
Qed.

Lemma Inv_set_h_announced h x s : In (sid h) (ann (frames s)) -> Inv s -> Inv (with_sub h (set_h x) s).
Proof. intros Ha I. apply Inv_with_sub; auto. Qed.

(* ---------- the helpers ---------- *)
Lemma plain_good_frame s f outs :
  Inv s -> room s = true -> wgood (ann (frames s)) (KPlain f) -> quiet outs -> Spec s (enq f s, outs).
Proof.
  intros I Hr Hw Q. split; [apply Inv_enq; auto|]. exists [f]. apply Good_enq.
  - intros sd Hs. destruct f; cbn in *; try discriminate; try contradiction. inversion Hs; subst. exact Hw.
  - intro h. rewrite Q. destruct f; cbn in *; try reflexivity; contradiction.
  - intros h Hh. destruct f; cbn in *; contradiction.
Qed.

Lemma forward_spec s f outs :
  Inv s -> wgood (ann (frames s)) (KPlain f) -> quiet outs -> Spec s (forward f s, outs).
Proof.
  intros I Hw Q. unfold ConnQueue.forward, ConnQueue.post.
  destruct (closed s); [apply Spec_refl; auto|].
  destruct (room s) eqn:Hr; cbn [fst].
  - apply plain_good_frame; auto.
  - split; [apply Inv_park; auto|]. exists []. apply Good_refl; auto.
Qed.

Lemma fire_spec s h cv outs :
  Inv s -> In (sid h) (ann (frames s)) -> quiet outs -> Spec s (fire h cv s, outs).
Proof.
  intros I Ha Q. unfold ConnQueue.fire. destruct cv; cbn [closing_frame]; [apply Spec_refl; auto | |];
    apply forward_spec; auto.
Qed.

Lemma quiet_call c k f : quiet [OCall c k f].
Proof. intro h. reflexivity. Qed.

Lemma call_answered_spec s h success f :
  Inv s -> (success = true -> In (sid h) (ann (frames s))) -> Spec s (call_answered h success f s).
Proof.
  intros I Hs. unfold ConnQueue.call_answered. destruct (get s h) as [b|] eqn:Eb; [|apply Spec_refl; auto using quiet_nil].
  destruct success.
  - specialize (Hs eq_refl).
    assert (I0 : Inv (with_sub h set_armed s)) by (apply Inv_with_sub; auto).
    destruct (s_ret b) as [cv|].
    + eapply Spec_src; [|apply fire_spec; [exact I0 | exact Hs | apply quiet_call]]. reflexivity.
    + eapply Spec_src; [|apply Spec_refl; [exact I0 | apply quiet_call]]. reflexivity.
  - eapply Spec_src; [|apply Spec_refl; [apply Inv_set_h_inactive; [reflexivity | exact I] | apply quiet_call]]. reflexivity.
Qed.

Lemma call_dropped_spec s h : Inv s -> Spec s (call_dropped h s).
Proof.
  intro I. unfold ConnQueue.call_dropped. destruct (get s h) as [b|]; [|apply Spec_refl; auto using quiet_nil].
  eapply Spec_src; [|apply forward_spec; [apply Inv_set_h_inactive; [reflexivity | exact I] | exact Logic.I | apply quiet_call]].
  reflexivity.
Qed.

Lemma do_return_spec s h cv : Inv s -> Spec s (do_return h cv s).
Proof.
  intro I. unfold ConnQueue.do_return. destruct (get s h) as [b|] eqn:Eb; [|apply Spec_refl; auto using quiet_nil].
  set (s1 := with_sub h (set_ret cv) s).
  assert (I1 : Inv s1).
  { apply Inv_with_sub; [exact I|]. intros b' _ Hn. left. unfold needs in *. cbn in Hn. rewrite orb_false_r in Hn. rewrite Hn. reflexivity. }
  set (s2 := match s_h b with HActive => with_table (rm h (table s1)) s1 | _ => s1 end).
  assert (E2 : frames s2 = frames s) by (unfold s2; destruct (s_h b); reflexivity).
  assert (I2 : Inv s2).
  { unfold s2. destruct (s_h b); try exact I1. eapply Inv_same; [| | | |exact I1]; try reflexivity; [apply I1 | apply incl_refl]. }
  assert (S3 : Spec s (if s_armed b then fire h cv s2 else s2, [])).
  { eapply Spec_src; [exact E2|]. destruct (s_armed b) eqn:Ea.
    - apply fire_spec; [exact I2 | | apply quiet_nil]. rewrite E2. eapply inv_sub; [exact I | exact Eb |].
      unfold needs. rewrite Ea. reflexivity.
    - apply Spec_refl; [exact I2 | apply quiet_nil]. }
  destruct (s_h b); try exact S3.
  apply (Spec_bind _ _ _ S3). apply call_dropped_spec. apply S3.
Qed.

Lemma quiet_acc h r : quiet [OAcc h r].
Proof. intro h'. reflexivity. Qed.

Lemma accept_fail_spec s h tx : Inv s -> Spec s (accept_fail h tx s).
Proof.
  intro I. unfold ConnQueue.accept_fail.
  assert (I1 : Inv (with_sub h (set_h HIdle) s)) by (apply Inv_set_h_inactive; auto).
  apply Spec_cons; [|apply quiet_acc]. destruct tx.
  - eapply Spec_src; [|apply call_dropped_spec; exact I1]. reflexivity.
  - eapply Spec_src; [|apply Spec_refl; [exact I1 | apply quiet_nil]]. reflexivity.
Qed.

Lemma rej_finish_spec s h c code : Inv s -> Spec s (rej_finish h c code s).
Proof.
  intro I. unfold ConnQueue.rej_finish. apply Spec_cons; [|intro; reflexivity].
  eapply Spec_src; [|apply call_answered_spec; [apply Inv_set_h_inactive; [reflexivity | exact I] | discriminate]]. reflexivity.
Qed.

(* accept once its answer is in the queue: it runs to the end and reports Ok *)
Lemma accept_run_tail h c l : forall tx s,
  Inv s -> In (sid h) (ann (frames s)) -> tail_ok l (negb tx) = true ->
  Spec s (accept_run l h c tx s) /\ In (OAcc h ROk) (snd (accept_run l h c tx s)).
Proof.
  induction l as [|a l IH]; intros tx s I Ha Ht; [discriminate|].
  destruct a; cbn [tail_ok] in Ht; cbn [ConnQueue.accept_run].
  - discriminate.
  - destruct tx; [|discriminate]. cbn in Ht.
    pose proof (call_answered_spec s h true (FSubOk c (sid h)) I (fun _ => Ha)) as S1.
    destruct (IH false (fst (call_answered h true (FSubOk c (sid h)) s))) as [S2 Hin]; [apply S1 | | exact Ht |].
    { destruct S1 as [_ [d G]]. eapply Good_grow; eauto. }
    split; [apply (Spec_bind _ _ _ S1 S2) | cbn [snd]; apply in_or_app; right; exact Hin].
  - destruct (IH tx (with_table (h :: rm h (table s)) s)) as [S2 Hin]; auto.
    { eapply Inv_same; [| | | |exact I]; try reflexivity; [apply I | apply incl_refl]. }
    split; [|exact Hin]. eapply Spec_src; [|exact S2]. reflexivity.
  - split; [|left; reflexivity]. eapply Spec_src; [|apply Spec_refl; [apply Inv_set_h_announced; eauto | apply quiet_acc]]. reflexivity.
Qed.

Lemma ann_enq_subok s c sd : In sd (ann (frames (enq (FSubOk c sd) s))).
Proof. rewrite frames_enq, ann_app. apply in_or_app. right. left. reflexivity. Qed.

(* a waiter of kind KAcc takes its place *)
Lemma accept_resume s h c tx rest :
  Inv s -> room s = true -> tail_ok rest (negb tx) = true ->
  Spec s (accept_run rest h c tx (enq (FSubOk c (sid h)) s)).
Proof.
  intros I Hr Ht.
  destruct (accept_run_tail h c rest tx (enq (FSubOk c (sid h)) s)) as [[I2 [d G]] Hin]; auto.
  - apply Inv_enq; auto.
  - apply ann_enq_subok.
  - split; [exact I2|]. exists (FSubOk c (sid h) :: d). apply Good_cons_subok; auto.
Qed.

(* accept from its first step *)
Lemma accept_run_head h c l : forall s, Inv s -> head_ok l = true -> Spec s (accept_run l h c true s).
Proof.
  induction l as [|a l IH]; intros s I Hh; [discriminate|].
  destruct a; cbn [head_ok] in Hh; try discriminate; cbn [ConnQueue.accept_run].
  - unfold ConnQueue.post. destruct (closed s); [apply accept_fail_spec; exact I|].
    destruct (room s) eqn:Hr.
    + apply accept_resume; auto.
    + eapply Spec_src; [|apply Spec_refl; [apply Inv_set_h_inactive; [reflexivity | apply Inv_park; [exact I | exact Hh]] | apply quiet_acc]].
      reflexivity.
  - eapply Spec_src; [|apply IH; [|exact Hh]]; [reflexivity|].
    eapply Inv_same; [| | | |exact I]; try reflexivity; [apply I | apply incl_refl].
Qed.

Lemma sendlike_fifo h x o :
  (o = OSend h x ROk \/ o = OTry h x ROk) ->
  forall h', filter_map (plain_item (sid h')) [FNotif (sid h) x] = filter_map (ok_item h') [o].
Proof.
  intros Ho h'. cbn. rewrite sid_eqb. destruct Ho as [-> | ->]; cbn; destruct (Nat.eqb h h'); reflexivity.
Qed.

Lemma notif_enq_spec s h x o :
  Inv s -> room s = true -> In (sid h) (ann (frames s)) -> (o = OSend h x ROk \/ o = OTry h x ROk) ->
  Spec s (enq (FNotif (sid h) x) s, [o]).
Proof.
  intros I Hr Ha Ho. split; [apply Inv_enq; auto|]. exists [FNotif (sid h) x]. apply Good_enq.
  - intros sd Hs. inversion Hs; subst. exact Ha.
  - apply sendlike_fifo, Ho.
  - intros h' [].
Qed.

Lemma wake_spec s : Inv s -> Spec s (wake s).
Proof.
  intro I. unfold ConnQueue.wake. destruct (waiters s) as [|k ws] eqn:Ew; [apply Spec_refl; auto using quiet_nil|].
  destruct (negb (closed s) && room s) eqn:Hc; [|apply Spec_refl; auto using quiet_nil].
  apply andb_true_iff in Hc. destruct Hc as [_ Hr].
  set (s0 := with_waiters ws s).
  assert (I0 : Inv s0).
  { eapply Inv_same; [| | | |exact I]; try reflexivity; [apply I|]. cbn. rewrite Ew. apply incl_tl, incl_refl. }
  assert (Hk : wgood (ann (frames s0)) k) by (apply (inv_w _ I); rewrite Ew; left; reflexivity).
  apply (Spec_src s0); [reflexivity|]. change (room s) with (room s0) in Hr.
  destruct k as [h c tx rest | h c code | h x | f]; cbn [ConnQueue.resume ConnQueue.wframe].
  - apply accept_resume; auto.
  - assert (S1 : Spec s0 (enq (FRejected c code) s0, [])) by (apply plain_good_frame; auto using quiet_nil; exact Logic.I).
    apply (Spec_then _ _ _ S1). apply rej_finish_spec. apply S1.
  - cbn in Hk. destruct (notif_enq_spec s0 h x (OSend h x ROk) I0 Hr Hk (or_introl eq_refl)) as [I1 [d G]].
    split.
    + cbn [fst]. apply Inv_set_h_announced; [|exact I1]. rewrite frames_enq. apply ann_grow. exact Hk.
    + exists d. eapply Good_tgt; [|exact G]. reflexivity.
  - apply plain_good_frame; auto using quiet_nil.
Qed.

Lemma quiet_send h x r : r <> ROk -> quiet [OSend h x r].
Proof. intros Hr h'. destruct r; try reflexivity. contradiction. Qed.

Lemma fail_all_spec ws : forall s, Inv s -> (forall k, In k ws -> wgood (ann (frames s)) k) -> Spec s (fail_all ws s).
Proof.
  induction ws as [|k ws IH]; intros s I Hw; [apply Spec_refl; auto using quiet_nil|].
  cbn [ConnQueue.fail_all].
  assert (S1 : Spec s (resume k false s)).
  { pose proof (Hw k (or_introl eq_refl)) as Hk.
    destruct k as [h c tx rest | h c code | h x | f]; cbn [ConnQueue.resume].
    - apply accept_fail_spec; auto.
    - apply rej_finish_spec; auto.
    - eapply Spec_src; [|apply Spec_refl; [apply Inv_set_h_announced; [exact Hk | exact I] | apply quiet_send; discriminate]]. reflexivity.
    - apply Spec_refl; auto using quiet_nil. }
  apply (Spec_bind _ _ _ S1). apply IH; [apply S1|].
  intros k' Hk'. destruct S1 as [_ [d G]]. eapply wgood_mono; [eapply Good_grow; eauto|]. apply Hw. right. exact Hk'.
Qed.

(* ---------- one step ---------- *)
Lemma get_app_new s x h b :
  nth_error (subs s ++ [x]) h = Some b -> get s h = Some b \/ b = x.
Proof.
  unfold get. intro H. destruct (Nat.lt_ge_cases h (length (subs s))) as [Hl | Hl].
  - rewrite nth_error_app1 in H; auto.
  - rewrite nth_error_app2 in H; auto. destruct (h - length (subs s)); cbn in H; [inversion H; auto | destruct n; discriminate].
Qed.

Lemma Inv_leave h s : Inv s -> Inv (leave h s).
Proof.
  intro I. eapply Inv_same; [| | | |exact I]; try reflexivity; [apply I|].
  cbn. intros k Hk. apply filter_In in Hk. apply Hk.
Qed.

Ltac quiet_tac := let h := fresh in intro h; reflexivity.

Lemma step_spec steps s o : head_ok steps = true -> Inv s -> Spec s (step_with steps s o).
Proof.
  intros Hs I. destruct o as [c | h | h code | h x | h x | h ret | h cv | c h | c | |]; cbn [ConnQueue.step_with].
  - (* Subscribe *)
    split; [|exists []; apply Good_refl; [reflexivity | apply quiet_nil]].
    destruct I as [I1 I2 I3]. constructor; auto. cbn [fst].
    intros h b Hg Hn. unfold get in Hg. cbn in Hg. apply get_app_new in Hg. destruct Hg as [Hg | ->]; [eapply I2; eauto | discriminate].
  - (* Acc *)
    destruct (get s h) as [b|] eqn:Eb; [|apply Spec_refl; [exact I | quiet_tac]].
    destruct (s_h b); try (apply Spec_refl; [exact I | quiet_tac]).
    apply accept_run_head; auto.
  - (* Rej *)
    destruct (get s h) as [b|] eqn:Eb; [|apply Spec_refl; [exact I | quiet_tac]].
    destruct (s_h b); try (apply Spec_refl; [exact I | quiet_tac]).
    unfold ConnQueue.post. destruct (closed s); [apply rej_finish_spec; exact I|].
    destruct (room s) eqn:Hr.
    + assert (S1 : Spec s (enq (FRejected (s_call b) code) s, [])) by (apply plain_good_frame; auto using quiet_nil; exact Logic.I).
      apply (Spec_then _ _ _ S1). apply rej_finish_spec. apply S1.
    + eapply Spec_src; [|apply Spec_refl; [apply Inv_set_h_inactive; [reflexivity | apply Inv_park; [exact I | exact Logic.I]] | quiet_tac]].
      reflexivity.
  - (* Send *)
    destruct (get s h) as [b|] eqn:Eb; [|apply Spec_refl; [exact I | quiet_tac]].
    destruct (s_h b) eqn:Eh; try (apply Spec_refl; [exact I | quiet_tac]).
    assert (Ha : In (sid h) (ann (frames s))).
    { eapply inv_sub; [exact I | exact Eb |]. unfold needs. rewrite Eh. apply orb_true_r. }
    destruct (closed s || negb (in_table h s)); [apply Spec_refl; [exact I | quiet_tac]|].
    unfold ConnQueue.post. destruct (closed s); [apply Spec_refl; [exact I | quiet_tac]|].
    destruct (room s) eqn:Hr.
    + apply notif_enq_spec; auto.
    + eapply Spec_src; [|apply Spec_refl; [apply Inv_set_h_announced; [|apply Inv_park; [exact I | exact Ha]] | quiet_tac]];
        [reflexivity | exact Ha].
  - (* Try *)
    destruct (get s h) as [b|] eqn:Eb; [|apply Spec_refl; [exact I | quiet_tac]].
    destruct (s_h b) eqn:Eh; try (apply Spec_refl; [exact I | quiet_tac]).
    assert (Ha : In (sid h) (ann (frames s))).
    { eapply inv_sub; [exact I | exact Eb |]. unfold needs. rewrite Eh. apply orb_true_r. }
    destruct (closed s || negb (in_table h s)); [apply Spec_refl; [exact I | quiet_tac]|].
    destruct (room s) eqn:Hr; [apply notif_enq_spec; auto | apply Spec_refl; [exact I | quiet_tac]].
  - (* Cancel *)
    destruct (get s h) as [b|] eqn:Eb; [|apply Spec_refl; [exact I | quiet_tac]].
    assert (Hpend : forall tx', s_h b = HAccParked tx' \/ s_h b = HRejParked ->
      let s1 := with_sub h (set_h HIdle) (leave h s) in
      let r1 := match ret with Some cv => do_return h cv s1 | None => (s1, []) end in
      let r2 := match s_h b with HAccParked false => (fst r1, []) | _ => call_dropped h (fst r1) end in
      Spec s (fst r2, OCancel h RDone :: snd r1 ++ snd r2)).
    { intros tx' _ s1 r1 r2.
      assert (I1 : Inv s1) by (apply Inv_set_h_inactive; [reflexivity | apply Inv_leave, I]).
      assert (S1 : Spec s r1).
      { apply (Spec_src s1); [reflexivity|]. unfold r1. destruct ret; [apply do_return_spec; exact I1 | apply Spec_refl; [exact I1 | apply quiet_nil]]. }
      assert (S2 : Spec (fst r1) r2).
      { unfold r2. destruct (s_h b) as [|[|]| | | | |]; try (apply call_dropped_spec; apply S1). apply Spec_refl; [apply S1 | apply quiet_nil]. }
      apply (Spec_cons s (fst r2, snd r1 ++ snd r2)); [apply (Spec_bind _ _ _ S1 S2) | quiet_tac]. }
    destruct (s_h b) eqn:Eh; try (apply Spec_refl; [exact I | quiet_tac]).
    + apply (Hpend tx). left. reflexivity.
    + apply (Hpend true). right. reflexivity.
    + (* parked in send *)
      set (s1 := with_sub h (set_h HActive) (leave h s)).
      assert (Ha : In (sid h) (ann (frames s))).
      { eapply inv_sub; [exact I | exact Eb |]. unfold needs. rewrite Eh. apply orb_true_r. }
      assert (I1 : Inv s1) by (apply Inv_set_h_announced; [exact Ha | apply Inv_leave, I]).
      apply (Spec_cons s (fst (match ret with Some cv => do_return h cv s1 | None => (s1, []) end),
                          snd (match ret with Some cv => do_return h cv s1 | None => (s1, []) end))); [|quiet_tac].
      apply (Spec_src s1); [reflexivity|].
      destruct ret; [apply do_return_spec; exact I1 | apply Spec_refl; [exact I1 | apply quiet_nil]].
  - (* Ret *)
    destruct (get s h) as [b|] eqn:Eb; [|apply Spec_refl; [exact I | quiet_tac]].
    destruct (s_h b); cbn [parked_state]; try (apply Spec_refl; [exact I | quiet_tac]);
      (apply (Spec_cons s (do_return h cv s)); [apply do_return_spec; exact I | quiet_tac]).
  - (* Unsub *)
    eapply Spec_src; [|apply forward_spec; [|exact Logic.I | quiet_tac]]; [reflexivity|].
    eapply Inv_same; [| | | |exact I]; try reflexivity; [apply I | apply incl_refl].
  - (* Call *)
    apply forward_spec; [exact I | exact Logic.I | quiet_tac].
  - (* W *)
    destruct (closed s); [apply Spec_refl; [exact I | quiet_tac]|].
    destruct (q s) as [|f q'] eqn:Eq; [apply Spec_refl; [exact I | quiet_tac]|].
    set (s0 := mkSt q' (popped s ++ [f]) false (waiters s) (subs s) (table s)).
    assert (E0 : frames s0 = frames s).
    { unfold frames, s0. cbn. rewrite Eq, <- app_assoc. reflexivity. }
    assert (I0 : Inv s0).
    { eapply Inv_same; [exact E0 | | | |exact I]; try reflexivity; [|apply incl_refl].
      cbn. pose proof (inv_len _ I) as Hl. rewrite Eq in Hl. cbn in Hl. lia. }
    apply (Spec_cons s (wake s0)); [|quiet_tac]. apply (Spec_src s0); [exact E0 | apply wake_spec; exact I0].
  - (* Close *)
    set (s0 := mkSt (q s) (popped s) true [] (subs s) (table s)).
    assert (I0 : Inv s0).
    { eapply Inv_same; [| | | |exact I]; try reflexivity; [apply I|]. intros k []. }
    apply (Spec_cons s (fail_all (waiters s) s0)); [|quiet_tac].
    apply (Spec_src s0); [reflexivity|]. apply fail_all_spec; [exact I0|]. intros k Hk. apply (inv_w _ I), Hk.
Qed.

(* ---------- histories ---------- *)
Lemma run_spec steps : head_ok steps = true -> forall ops s, Inv s ->
  Inv (fst (run_with steps s ops)) /\ exists d, Good s (fst (run_with steps s ops)) (concat (snd (run_with steps s ops))) d.
Proof.
  intros Hs. induction ops as [|o ops IH]; intros s I.
  - cbn. split; [exact I|]. exists []. apply Good_refl; [reflexivity | apply quiet_nil].
  - cbn [ConnQueue.run_with]. cbv zeta. cbn [fst snd concat].
    destruct (step_spec steps s o Hs I) as [I1 [d1 G1]]. destruct (IH _ I1) as [I2 [d2 G2]].
    split; [exact I2|]. exists (d1 ++ d2). eapply Good_trans; eauto.
Qed.

Lemma Inv_init : Inv init.
Proof. constructor; cbn; [lia | | tauto]. intros h b Hg. unfold get in Hg. cbn in Hg. destruct h; discriminate. Qed.

Lemma run_init steps ops : head_ok steps = true ->
  let r := run_with steps init ops in
  length (q (fst r)) <= cap /\ Good init (fst r) (concat (snd r)) (frames (fst r)).
Proof.
  intros Hs r. destruct (run_spec steps Hs ops init Inv_init) as [I [d G]]. fold r in I, G.
  split; [apply I|]. pose proof (g_frames _ _ _ _ G) as E. cbn in E. rewrite E. exact G.
Qed.

Lemma nothing_before_gen steps ops : head_ok steps = true ->
  forall pre f post sd, frames (fst (run_with steps init ops)) = pre ++ f :: post -> notif_sid f = Some sd ->
  exists c, In (FSubOk c sd) pre.
Proof.
  intros Hs pre f post sd E Hn. destruct (run_init steps ops Hs) as [_ G].
  pose proof (nbl_split _ _ _ _ _ _ (g_nb _ _ _ _ G) E Hn) as H. cbn in H. rewrite app_nil_r in H.
  apply in_ann. exact H.
Qed.

Lemma never_accepted_gen steps ops h : head_ok steps = true ->
  ~ In (OAcc h ROk) (concat (snd (run_with steps init ops))) ->
  forall f, In f (frames (fst (run_with steps init ops))) -> frame_sid f <> Some (sid h).
Proof.
  intros Hs Hno f Hin Hf. destruct (run_init steps ops Hs) as [_ G].
  assert (Hann : In (sid h) (ann (frames (fst (run_with steps init ops))))).
  { destruct f; cbn in Hf; try discriminate; inversion Hf; subst.
    - apply in_ann. exists c. exact Hin.
    - apply in_split in Hin. destruct Hin as [pre [post E]].
      destruct (nothing_before_gen steps ops Hs pre _ post (sid h) E eq_refl) as [c Hc].
      apply in_ann. exists c. rewrite E. apply in_or_app. left. exact Hc.
    - apply in_split in Hin. destruct Hin as [pre [post E]].
      destruct (nothing_before_gen steps ops Hs pre _ post (sid h) E eq_refl) as [c Hc].
      apply in_ann. exists c. rewrite E. apply in_or_app. left. exact Hc. }
  apply Hno. apply (g_acc _ _ _ _ G). exact Hann.
Qed.

Lemma fifo_gen steps ops h : head_ok steps = true ->
  filter_map (plain_item (sid h)) (frames (fst (run_with steps init ops))) = oklog h (snd (run_with steps init ops)).
Proof. intros Hs. destruct (run_init steps ops Hs) as [_ G]. apply (g_fifo _ _ _ _ G). Qed.

Lemma bounded_gen steps ops : head_ok steps = true -> length (q (fst (run_with steps init ops))) <= cap.
Proof. intros Hs. apply (run_init steps ops Hs). Qed.

(* ---------- the line of waiting sends: somebody waits only while the channel is open and FULL ----------
   (so one W wakes exactly the first of the line, and nobody is left waiting next to a free place); holds for every
   list of accept steps *)
Definition Line (s : st) : Prop :=
  length (q s) <= cap /\ (waiters s <> [] -> closed s = false /\ length (q s) = cap).

Lemma Line_same s s' : q s' = q s -> closed s' = closed s -> waiters s' = waiters s -> Line s -> Line s'.
Proof. unfold Line. intros -> -> ->. tauto. Qed.

Lemma Line_post k s : Line s -> Line (fst (post k s)).
Proof.
  intros L. unfold ConnQueue.post. destruct (closed s) eqn:Ec; [exact L|]. destruct L as [L1 L2].
  destruct (room s) eqn:Er; cbn [fst].
  - apply room_len in Er. split; cbn; rewrite app_length; cbn; [lia|]. intro Hw. destruct (L2 Hw) as [_ Hl]. lia.
  - unfold ConnQueue.room in Er. apply Nat.ltb_ge in Er. split; cbn; [exact L1|]. intros _. split; [exact Ec | lia].
Qed.

Lemma Line_forward f s : Line s -> Line (forward f s).
Proof. apply Line_post. Qed.

Lemma Line_fire h cv s : Line s -> Line (fire h cv s).
Proof. intro L. unfold ConnQueue.fire. destruct (closing_frame (sid h) cv); [apply Line_forward|]; exact L. Qed.

Lemma Line_with_sub h g s : Line s -> Line (with_sub h g s).
Proof. apply Line_same; reflexivity. Qed.

Lemma Line_with_table t s : Line s -> Line (with_table t s).
Proof. apply Line_same; reflexivity. Qed.

Lemma Line_call_answered h ok f s : Line s -> Line (fst (call_answered h ok f s)).
Proof.
  intro L. unfold ConnQueue.call_answered. destruct (get s h) as [b|]; [|exact L]. cbn [fst].
  destruct ok; [|apply Line_with_sub, L]. destruct (s_ret b); [apply Line_fire|]; apply Line_with_sub, L.
Qed.

Lemma Line_call_dropped h s : Line s -> Line (fst (call_dropped h s)).
Proof.
  intro L. unfold ConnQueue.call_dropped. destruct (get s h) as [b|]; [|exact L]. cbn [fst].
  apply Line_forward, Line_with_sub, L.
Qed.

Lemma Line_do_return h cv s : Line s -> Line (fst (do_return h cv s)).
Proof.
  intro L. unfold ConnQueue.do_return. destruct (get s h) as [b|]; [|exact L].
  set (s1 := with_sub h (set_ret cv) s).
  assert (L1 : Line s1) by apply Line_with_sub, L.
  set (s2 := match s_h b with HActive => with_table (rm h (table s1)) s1 | _ => s1 end).
  assert (L2 : Line s2) by (unfold s2; destruct (s_h b); try exact L1; apply Line_with_table, L1).
  assert (L3 : Line (if s_armed b then fire h cv s2 else s2)) by (destruct (s_armed b); [apply Line_fire|]; exact L2).
  destruct (s_h b); try exact L3. apply Line_call_dropped, L3.
Qed.

Lemma Line_accept_fail h tx s : Line s -> Line (fst (accept_fail h tx s)).
Proof.
  intro L. unfold ConnQueue.accept_fail. cbn [fst]. destruct tx; [apply Line_call_dropped|]; apply Line_with_sub, L.
Qed.

Lemma Line_rej_finish h c code s : Line s -> Line (fst (rej_finish h c code s)).
Proof. intro L. unfold ConnQueue.rej_finish. cbn [fst]. apply Line_call_answered, Line_with_sub, L. Qed.

Lemma Line_accept_run h c l : forall tx s, Line s -> Line (fst (accept_run l h c tx s)).
Proof.
  induction l as [|a l IH]; intros tx s L; cbn [ConnQueue.accept_run]; [apply Line_accept_fail, L|].
  destruct a.
  - pose proof (Line_post (KAcc h c tx l) s L) as Lp. destruct (post (KAcc h c tx l) s) as [s1 [| |]]; cbn [fst] in *.
    + apply Line_accept_fail, Lp.
    + apply IH, Lp.
    + apply Line_with_sub, Lp.
  - destruct tx; [|apply Line_accept_fail, L]. cbn [fst]. apply IH, Line_call_answered, L.
  - apply IH, Line_with_table, L.
  - apply Line_with_sub, L.
Qed.

Lemma Line_resume k ok s : Line s -> Line (fst (resume k ok s)).
Proof.
  intro L. destruct k; cbn [ConnQueue.resume].
  - destruct ok; [apply Line_accept_run | apply Line_accept_fail]; exact L.
  - apply Line_rej_finish, L.
  - apply Line_with_sub, L.
  - exact L.
Qed.

Lemma Line_fail_all ws : forall s, Line s -> Line (fst (fail_all ws s)).
Proof. induction ws as [|k ws IH]; intros s L; cbn [ConnQueue.fail_all fst]; [exact L|]. apply IH, Line_resume, L. Qed.

Lemma Line_leave h s : Line s -> Line (leave h s).
Proof.
  intros [L1 L2]. split; [exact L1|]. cbn. intro Hw. apply L2. intro E. rewrite E in Hw. apply Hw. reflexivity.
Qed.

Lemma Line_step steps s o : Line s -> Line (fst (step_with steps s o)).
Proof.
  intro L. destruct o as [c | h | h code | h x | h x | h ret | h cv | c h | c | |]; cbn [ConnQueue.step_with].
  - revert L. apply Line_same; reflexivity.
  - destruct (get s h) as [b|]; [|exact L]. destruct (s_h b); try exact L. apply Line_accept_run, L.
  - destruct (get s h) as [b|]; [|exact L]. destruct (s_h b); try exact L.
    pose proof (Line_post (KRej h (s_call b) code) s L) as Lp.
    destruct (post (KRej h (s_call b) code) s) as [s1 [| |]]; cbn [fst] in *;
      [apply Line_rej_finish, Lp | apply Line_rej_finish, Lp | apply Line_with_sub, Lp].
  - destruct (get s h) as [b|]; [|exact L]. destruct (s_h b); try exact L.
    destruct (closed s || negb (in_table h s)); [exact L|].
    pose proof (Line_post (KSend h x) s L) as Lp.
    destruct (post (KSend h x) s) as [s1 [| |]]; cbn [fst] in *; [exact Lp | exact Lp | apply Line_with_sub, Lp].
  - destruct (get s h) as [b|]; [|exact L]. destruct (s_h b); try exact L.
    destruct (closed s || negb (in_table h s)) eqn:Ec; [exact L|]. destruct (room s) eqn:Er; [|exact L].
    apply orb_false_iff in Ec. destruct Ec as [Ec _].
    pose proof (Line_post (KSend h x) s L) as Lp. unfold ConnQueue.post in Lp. rewrite Ec, Er in Lp. exact Lp.
  - destruct (get s h) as [b|]; [|exact L].
    assert (L1 : forall y, Line (with_sub h (set_h y) (leave h s))) by (intro y; apply Line_with_sub, Line_leave, L).
    assert (L2 : forall y, Line (fst (match ret with Some cv => do_return h cv (with_sub h (set_h y) (leave h s))
                                                | None => (with_sub h (set_h y) (leave h s), []) end))).
    { intro y. destruct ret; [apply Line_do_return|]; apply L1. }
    destruct (s_h b) as [|[|]| | | | |]; cbn [fst]; try exact L; try apply Line_call_dropped; apply L2.
  - destruct (get s h) as [b|]; [|exact L].
    destruct (s_h b); cbn [parked_state fst]; try exact L; apply Line_do_return, L.
  - cbn [fst]. apply Line_forward, Line_with_table, L.
  - cbn [fst]. apply Line_forward, L.
  - destruct (closed s) eqn:Ec; [exact L|]. destruct (q s) as [|f q'] eqn:Eq; [exact L|]. cbn [fst].
    destruct L as [L1 L2]. unfold ConnQueue.wake. cbn [waiters closed].
    destruct (waiters s) as [|k ws] eqn:Ew.
    + cbn [fst]. split; cbn; [rewrite Eq in L1; cbn in L1; lia | intro H; contradiction H; reflexivity].
    + destruct L2 as [_ Hl]; [discriminate|]. rewrite Eq in Hl. cbn in Hl.
      assert (Er : room (mkSt q' (popped s ++ [f]) false (k :: ws) (subs s) (table s)) = true).
      { unfold ConnQueue.room. cbn. apply Nat.ltb_lt. lia. }
      rewrite Er. cbn [negb andb]. apply Line_resume. split; cbn; rewrite app_length; cbn; [lia|].
      intros _. split; [reflexivity | lia].
  - cbn [fst]. apply Line_fail_all. destruct L as [L1 _]. split; cbn; [exact L1 | intro H; contradiction H; reflexivity].
Qed.

Lemma Line_run steps ops : forall s, Line s -> Line (fst (run_with steps s ops)).
Proof.
  induction ops as [|o ops IH]; intros s L; cbn [ConnQueue.run_with]; cbv zeta; cbn [fst]; [exact L|].
  apply IH, Line_step, L.
Qed.

Lemma Line_init : Line init.
Proof. split; cbn; [lia | intro H; contradiction H; reflexivity]. Qed.

End Facts.

(* ---------- the order of accept()'s steps that Gen/AcceptOrderGen.accept_steps has NOW ----------
   `head_ok accept_steps = true` is checked by computation on the generated constant. *)
Lemma accept_steps_head_ok : head_ok accept_steps = true.
Proof. reflexivity. Qed.

Lemma nothing_before_accept_response : forall cap base ops pre f post sd,
  frames (fst (run cap base init ops)) = pre ++ f :: post -> notif_sid f = Some sd -> exists c, In (FSubOk c sd) pre.
Proof. intros cap base ops. exact (nothing_before_gen cap base accept_steps ops accept_steps_head_ok). Qed.

Lemma never_accepted_is_silent : forall cap base ops h,
  ~ In (OAcc h ROk) (concat (snd (run cap base init ops))) ->
  forall f, In f (frames (fst (run cap base init ops))) -> frame_sid f <> Some (sid base h).
Proof. intros cap base ops h. exact (never_accepted_gen cap base accept_steps ops h accept_steps_head_ok). Qed.

Lemma fifo_per_subscription : forall cap base ops h,
  filter_map (plain_item (sid base h)) (frames (fst (run cap base init ops))) = oklog h (snd (run cap base init ops)).
Proof. intros cap base ops h. exact (fifo_gen cap base accept_steps ops h accept_steps_head_ok). Qed.

Lemma bounded : forall cap base ops, length (q (fst (run cap base init ops))) <= cap.
Proof. intros cap base ops. exact (bounded_gen cap base accept_steps ops accept_steps_head_ok). Qed.

Lemma waits_only_when_full : forall cap base ops,
  let s := fst (run cap base init ops) in waiters s <> [] -> closed s = false /\ length (q s) = cap.
Proof. intros cap base ops s. exact (proj2 (Line_run cap base accept_steps ops init (Line_init cap))). Qed.
