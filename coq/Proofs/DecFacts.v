(* Decimal printing: print_N produces a canonical digit string and digits_val reads it back. *)
From JV Require Import Base.Bytes Base.Dec Proofs.BytesFacts.
From Coq Require Import DecimalN DecimalPos DecimalFacts Decimal.

Lemma bytes_to_uint_to_bytes u : bytes_to_uint (uint_to_bytes u) = u.
Proof. induction u; cbn; congruence. Qed.

Lemma uint_to_bytes_digits u : forallb is_digit (uint_to_bytes u) = true.
Proof. induction u; cbn [uint_to_bytes forallb]; try rewrite IHu; reflexivity. Qed.

Lemma to_uint_unorm n : N.to_uint n = unorm (N.to_uint n).
Proof.
  rewrite <- DecimalN.Unsigned.to_of. rewrite DecimalN.Unsigned.of_to. reflexivity.
Qed.

Lemma digits_val_print_N n : digits_val (print_N n) = n.
Proof.
  unfold digits_val, print_N. rewrite bytes_to_uint_to_bytes. apply DecimalN.Unsigned.of_to.
Qed.

Lemma print_N_shape n :
  print_N n = [x30] \/
  exists c ds, print_N n = c :: ds /\ in_range 49 57 c = true /\ forallb is_digit ds = true.
Proof.
  unfold print_N. rewrite to_uint_unorm. set (u := N.to_uint n). unfold unorm.
  pose proof (nzhead_nonzero u) as NZ.
  destruct (nzhead u) as [|u'|u'|u'|u'|u'|u'|u'|u'|u'|u'] eqn:E.
  1: left; reflexivity.
  1: exfalso; apply (NZ u'); reflexivity.
  all: right; eexists; exists (uint_to_bytes u'); split; [reflexivity|]; split;
       [reflexivity | apply uint_to_bytes_digits].
Qed.

Lemma print_N_digits n : forallb is_digit (print_N n) = true.
Proof. apply uint_to_bytes_digits. Qed.

Lemma print_N_nonempty n : print_N n <> [].
Proof.
  destruct (print_N_shape n) as [E | (c & ds & E & _)]; rewrite E; discriminate.
Qed.
