(* Links between the client-side and server-side models at the level of bytes on the wire. *)
From JV Require Import Base.Bytes Base.Utf8 Json.Json Json.JsonSer Json.JsonParse Model.Wire Model.Server Proofs.WireFacts.

(* parse_request also reads the sequence form of a Request; the server's classifier is only ever applied to texts
   that start with '{' (Model/Server.v), where both take the map form *)
Lemma parse_request_classify t s1 r : skip_ws t = x7b :: s1 -> parse_request t = Some r -> classify t = Call r.
Proof.
  intros E H. destruct (de_struct_some_object _ _ _ _ _ E H) as (m & Hm & Hr).
  unfold classify. rewrite Hm, Hr. reflexivity.
Qed.

(* what a jsonrpsee client puts on the wire for a call is, for the server, a call with the same id, method and params *)
Theorem client_request_is_a_call r :
  wf_id (rq_id r) -> utf8_valid (rq_method r) = true ->
  match rq_params r with Some p => raw_payload p /\ nonnull p | None => True end ->
  classify (ser_request r) = Call r.
Proof.
  intros Hi Hm Hp. apply (parse_request_classify _ (ser_mems (request_members r))).
  - rewrite ser_request_eq. reflexivity.
  - apply request_roundtrip; assumption.
Qed.

Lemma parse_notification_classify t s1 me p :
  skip_ws t = x7b :: s1 -> parse_request t = None -> parse_notification t = Some (me, p) -> classify t = Notif.
Proof.
  intros E Hr Hn. destruct (de_struct_some_object _ _ _ _ _ E Hn) as (m & Hm & Hn').
  unfold parse_request in Hr. rewrite (de_struct_object _ _ _ _ Hm) in Hr.
  unfold classify. rewrite Hm, Hr, Hn'. reflexivity.
Qed.

(* a client notification (no id member) is, for the server, a notification: it is never answered *)
Theorem client_notification_is_a_notification me p :
  utf8_valid me = true -> match p with Some p' => raw_payload p' /\ nonnull p' | None => True end ->
  classify (ser_notification me p) = Notif.
Proof.
  intros Hm Hp. apply (parse_notification_classify _ (ser_mems (notification_members me p)) me p).
  - rewrite ser_notification_eq. reflexivity.
  - unfold parse_request. rewrite ser_notification_eq, de_struct_ser_object.
    + unfold notification_members, as_request. reflexivity.
    + unfold notification_members.
      constructor; [split; [reflexivity | apply span_ok_two]|].
      constructor; [split; [reflexivity | apply span_ok_str, Hm]|].
      constructor; [|constructor]. split; [reflexivity|]. cbn [snd].
      destruct p as [p|]; cbn [notif_param_text]; [apply raw_payload_span, Hp | apply (span_ok_ser JNull); reflexivity].
  - apply notification_roundtrip; assumption.
Qed.
