(* C15: error code <-> kind, over the table regenerated from types/src/error.rs on every run. *)
From Coq Require Import ZArith List Lia.
From JV Require Import Gen.ErrorCodesGen.
Import ListNotations.
Local Open Scope Z_scope.

(* a kind is canonical when it is one of the named kinds, or ServerError(c) for a code that has no named kind
   (ServerError(-32700) is a value the type admits but the library never produces from a code) *)
Definition canonical (k : kind) : Prop :=
  match k with
  | KServerError c => ~ In c (map code_of_kind named_kinds)
  | _ => In k named_kinds
  end.

Lemma code_kind_code : forall c, code_of_kind (kind_of_code c) = c.
Proof.
  intro c. unfold kind_of_code.
  repeat match goal with |- context [Z.eqb ?a ?b] => destruct (Z.eqb_spec a b) end; subst; reflexivity.
Qed.

Lemma kind_code_kind_named : forall k, In k named_kinds -> kind_of_code (code_of_kind k) = k.
Proof.
  intros k H. unfold named_kinds in H.
  repeat (destruct H as [<- | H]; [vm_compute; reflexivity |]). destruct H.
Qed.

Lemma kind_code_kind : forall k, canonical k -> kind_of_code (code_of_kind k) = k.
Proof.
  intros k Hk. destruct k; try (apply kind_code_kind_named; exact Hk).
  cbn [code_of_kind]. unfold kind_of_code. cbn in Hk.
  repeat match goal with |- context [Z.eqb ?a ?b] => destruct (Z.eqb_spec a b) end; try reflexivity;
    exfalso; apply Hk; subst; cbn; tauto.
Qed.

(* every variant the enum declares is listed in named_kinds (so nothing escapes the round-trip theorem) *)
Lemma named_kinds_complete : forall k, match k with KServerError _ => True | _ => canonical k end.
Proof. intro k; destruct k; cbn; tauto. Qed.

Lemma named_codes_distinct : NoDup (map code_of_kind named_kinds).
Proof.
  cbn. repeat (constructor; [cbn; intro H; repeat (destruct H as [H | H]; [discriminate H |]); exact H |]). constructor.
Qed.
