(* C14: host filter -- declarative specification and the proofs about Model/HostFilter.v. *)
From JV Require Import Base.Bytes Base.Dec Base.Utf8 Gen.PortsGen Model.HostFilter Proofs.BytesFacts.
Local Open Scope N_scope.
Arguments N.add : simpl never.
Arguments N.sub : simpl never.
Arguments N.mul : simpl never.
Arguments N.ltb : simpl never.
Arguments N.leb : simpl never.
Arguments N.eqb : simpl never.

(* ================================================================== specification *)
(* What an allow-list host pattern means, stated without any reference to routes, NFA states, threads or ranking.
   A pattern is cut into tokens: every '.' and '/' is a token of its own, every maximal run of other bytes is a
   token.  A token starting with '*' stands for one or more arbitrary bytes, a token starting with ':' for one or
   more bytes other than '/', any other token (the separators included) for itself.  A host matches when it is the
   concatenation of one word per token. *)
Definition sep_byte (c : byte) : bool := beqb c x2e || beqb c x2f.

Fixpoint tokens (s : bytes) : list bytes :=
  match s with
  | [] => []
  | c :: s' =>
    if sep_byte c then [c] :: tokens s'
    else match s' with
         | [] => [[c]]
         | d :: _ => if sep_byte d then [c] :: tokens s'
                     else match tokens s' with
                          | t :: ts => (c :: t) :: ts
                          | [] => [[c]]
                          end
         end
  end.

Inductive tokkind := TLit | TStar | TDyn.
Definition tok_kind (t : bytes) : tokkind :=
  match t with
  | c :: _ => if beqb c x2a then TStar else if beqb c x3a then TDyn else TLit
  | [] => TLit
  end.

Definition tok_matches (t w : bytes) : Prop :=
  match tok_kind t with
  | TStar => w <> []
  | TDyn => w <> [] /\ ~ In x2f w
  | TLit => w = t
  end.

Definition host_matches (pat h : bytes) : Prop :=
  exists ws, Forall2 tok_matches (tokens pat) ws /\ concat ws = h.

(* ports are compared after normalisation (default-port elimination happened while parsing) *)
Definition port_matches (entry req : port) : Prop := entry = PAny \/ entry = req.

Definition entry_matches (e a : authority) : Prop :=
  host_matches (a_host e) (a_host a) /\ port_matches (a_port e) (a_port a).

(* the choice among several accepting routes: any function that picks one of them *)
Definition valid_sel (sel : list route -> option route) : Prop := forall l r, sel l = Some r -> In r l.
Definition total_sel (sel : list route -> option route) : Prop := forall l, l <> [] -> sel l <> None.

(* ================================================================== small facts *)
Lemma cls_eqb_eq a b : cls_eqb a b = true <-> a = b.
Proof.
  destruct a, b; cbn; split; intro H; try discriminate; try reflexivity.
  - apply beqb_true in H. congruence.
  - inversion H. apply beqb_refl.
Qed.

Lemma cls_eqb_refl a : cls_eqb a a = true.
Proof. apply cls_eqb_eq. reflexivity. Qed.

Lemma bN_inj a b : bN a = bN b -> a = b.
Proof.
  unfold bN. intro H. pose proof (Byte.of_to_N a) as Ha. pose proof (Byte.of_to_N b) as Hb.
  rewrite H in Ha. congruence.
Qed.

Lemma bytes_cmp_eq a : forall b, bytes_cmp a b = Eq -> a = b.
Proof.
  induction a as [|x a IH]; intros [|y b]; cbn; intro H; try discriminate; [reflexivity|].
  destruct (N.compare (bN x) (bN y)) eqn:E; try discriminate.
  apply N.compare_eq in E. apply bN_inj in E. subst. f_equal. apply IH. exact H.
Qed.

Lemma port_eqb_eq a b : port_eqb a b = true <-> a = b.
Proof.
  destruct a, b; cbn; split; intro H; try discriminate; try reflexivity.
  - apply N.eqb_eq in H. congruence.
  - inversion H. apply N.eqb_refl.
Qed.

Lemma authority_eqb_eq a b : authority_eqb a b = true <-> a = b.
Proof.
  destruct a as [h1 p1], b as [h2 p2]. unfold authority_eqb. cbn [a_host a_port]. rewrite andb_true_iff, bytes_eqb_eq, port_eqb_eq.
  split; [intros [-> ->]; reflexivity | intro H; inversion H; split; reflexivity].
Qed.

Lemma port_allows_spec e r : port_allows e r = true <-> port_matches e r.
Proof.
  unfold port_matches. destruct e, r; cbn; split; intro H; try discriminate; try (left; reflexivity); try (right; reflexivity);
    try (destruct H as [H|H]; discriminate); try reflexivity.
  - apply N.eqb_eq in H. right. congruence.
  - destruct H as [H|H]; [discriminate|]. inversion H. apply N.eqb_refl.
Qed.

(* ================================================================== class sequences as a language *)
(* cm p w: the word w is read along the class sequence p; a loop class (any / not-slash) reads one or more bytes *)
Inductive cm : list cls -> bytes -> Prop :=
| cm_nil : cm [] []
| cm_lit c p w : cm p w -> cm (CLit c :: p) (c :: w)
| cm_loop k u p w : is_loop k = true -> u <> [] -> Forall (fun c => cls_matches k c = true) u -> cm p w -> cm (k :: p) (u ++ w).

Lemma cm_nil_inv w : cm [] w -> w = [].
Proof. intro H. inversion H. reflexivity. Qed.

Lemma cm_empty_word p : cm p [] -> p = [].
Proof.
  intro H. remember [] as e eqn:Ee. destruct H as [|c p w H|k u p w Hk Hu Hf H]; [reflexivity | discriminate |].
  destruct u; [contradiction Hu; reflexivity | discriminate].
Qed.

Fixpoint last_opt (p : list cls) : option cls :=
  match p with
  | [] => None
  | k :: p' => match p' with [] => Some k | _ => last_opt p' end
  end.

Lemma last_opt_snoc p k : last_opt (p ++ [k]) = Some k.
Proof.
  induction p as [|x p IH]; [reflexivity|].
  cbn [app last_opt]. destruct (p ++ [k]) eqn:E; [destruct p; discriminate | exact IH].
Qed.

Lemma cm_snoc_enter p w : cm p w -> forall k c, cls_matches k c = true -> cm (p ++ [k]) (w ++ [c]).
Proof.
  induction 1 as [|c0 p w H IH|k0 u p w Hk Hu Hf H IH]; intros k c Hm.
  - cbn [app]. destruct k as [d| |].
    + cbn in Hm. apply beqb_true in Hm. subst. apply cm_lit, cm_nil.
    + apply (cm_loop CAny [c] [] []); [reflexivity | discriminate | repeat constructor | apply cm_nil].
    + apply (cm_loop CNotSlash [c] [] []); [reflexivity | discriminate | constructor; [exact Hm | constructor] | apply cm_nil].
  - cbn [app]. apply cm_lit. apply IH. exact Hm.
  - cbn [app]. rewrite <- app_assoc. apply cm_loop; try assumption. apply IH. exact Hm.
Qed.

Lemma cm_snoc_loop p w : cm p w -> forall k c, last_opt p = Some k -> is_loop k = true -> cls_matches k c = true -> cm p (w ++ [c]).
Proof.
  induction 1 as [|c0 p w H IH|k0 u p w Hk Hu Hf H IH]; intros k c Hl Hlo Hm.
  - discriminate.
  - cbn [app]. apply cm_lit. destruct p as [|x p].
    + cbn in Hl. inversion Hl; subst. discriminate.
    + apply (IH k c); try assumption.
  - destruct p as [|x p].
    + cbn in Hl. inversion Hl; subst k0. apply cm_nil_inv in H. subst w.
      rewrite app_nil_r. replace (u ++ [c]) with ((u ++ [c]) ++ []) by apply app_nil_r.
      apply cm_loop; try assumption; [destruct u; discriminate | | apply cm_nil].
      apply Forall_app. split; [exact Hf | constructor; [exact Hm | constructor]].
    + rewrite <- app_assoc. apply cm_loop; try assumption. apply (IH k c); assumption.
Qed.

(* ================================================================== the thread machine *)
Lemma in_advance k items r rest : In (r, rest) (advance k items) <-> In (r, k :: rest) items.
Proof.
  induction items as [|[r0 [|k0 rest0]] items IH]; cbn [advance].
  - tauto.
  - rewrite IH. cbn [In]. split; [tauto | intros [H|H]; [discriminate | exact H]].
  - destruct (cls_eqb k0 k) eqn:E.
    + apply cls_eqb_eq in E. subst k0. cbn [In]. rewrite IH. split; intros [H|H]; try (right; exact H); left; congruence.
    + cbn [In]. rewrite IH. split; [tauto|]. intros [H|H]; [|exact H].
      inversion H; subst. rewrite cls_eqb_refl in E. discriminate.
Qed.

Lemma cls_mem_false_cons k x seen : cls_mem k (x :: seen) = false <-> k <> x /\ cls_mem k seen = false.
Proof.
  cbn [cls_mem]. rewrite orb_false_iff. split; intros [H1 H2]; split; try assumption.
  - intro E. subst. rewrite cls_eqb_refl in H1. discriminate.
  - destruct (cls_eqb k x) eqn:E; [apply cls_eqb_eq in E; contradiction | reflexivity].
Qed.

Lemma in_heads k items : forall seen r rest, In (r, k :: rest) items -> cls_mem k seen = false -> In k (heads items seen).
Proof.
  induction items as [|[r0 [|k0 rest0]] items IH]; intros seen r rest Hin Hs; cbn [heads].
  - destruct Hin.
  - destruct Hin as [H|H]; [discriminate|]. eapply IH; eassumption.
  - destruct (cls_mem k0 seen) eqn:E.
    + destruct Hin as [H|H]; [inversion H; subst; congruence|]. eapply IH; eassumption.
    + destruct (cls_eqb k k0) eqn:Ek.
      * apply cls_eqb_eq in Ek. subst. left. reflexivity.
      * right. destruct Hin as [H|H]; [inversion H; subst; rewrite cls_eqb_refl in Ek; discriminate|].
        eapply IH; [eassumption|]. apply cls_mem_false_cons. split; [|exact Hs].
        intro E2. subst. rewrite cls_eqb_refl in Ek. discriminate.
Qed.

(* soundness invariant: every route a thread still carries has really read the consumed input *)
Definition tinv (rt : router) (w : bytes) (t : thread) : Prop :=
  forall r rest, In (r, rest) (t_items t) ->
    In r rt /\ exists p, r_cls r = p ++ rest /\ cm p w /\ last_opt p = t_cur t.

Lemma tinv_root rt : tinv rt [] (root_thread rt).
Proof.
  intros r rest H. unfold root_thread in H. cbn [t_items] in H. apply in_map_iff in H as [r0 [E Hin]].
  inversion E; subst. split; [exact Hin|]. exists []. repeat split. apply cm_nil.
Qed.

Lemma step_thread_tinv rt w c t t' : tinv rt w t -> In t' (step_thread c t) -> tinv rt (w ++ [c]) t'.
Proof.
  intros Hinv Hin. unfold step_thread in Hin. apply in_app_or in Hin as [Hin|Hin].
  - destruct (t_cur t) as [k|] eqn:Ec; [|destruct Hin].
    destruct (is_loop k && cls_matches k c) eqn:E; [|destruct Hin].
    destruct Hin as [<-|[]]. apply andb_true_iff in E as [El Em].
    intros r rest H. destruct (Hinv r rest H) as [Hr [p [Hp [Hcm Hlast]]]].
    split; [exact Hr|]. exists p. repeat split; try assumption.
    apply (cm_snoc_loop p w Hcm k c); congruence.
  - apply in_map_iff in Hin as [k [<- Hk]]. apply filter_In in Hk as [_ Hm].
    intros r rest H. cbn [t_items t_cur] in *. apply in_advance in H.
    destruct (Hinv r (k :: rest) H) as [Hr [p [Hp [Hcm Hlast]]]].
    split; [exact Hr|]. exists (p ++ [k]). repeat split.
    + rewrite Hp, <- app_assoc. reflexivity.
    + apply cm_snoc_enter; assumption.
    + apply last_opt_snoc.
Qed.

Lemma run_tinv rt path : forall ts w, Forall (tinv rt w) ts ->
  Forall (tinv rt (w ++ path)) (fold_left (fun ts c => step c ts) path ts).
Proof.
  induction path as [|c path IH]; intros ts w H; cbn [fold_left].
  - rewrite app_nil_r. exact H.
  - replace (w ++ c :: path) with ((w ++ [c]) ++ path) by (rewrite <- app_assoc; reflexivity).
    apply IH. apply Forall_forall. intros t' Ht'. unfold step in Ht'. apply in_flat_map in Ht' as [t [Ht Hin]].
    rewrite Forall_forall in H. eapply step_thread_tinv; [apply H; exact Ht | exact Hin].
Qed.

Lemma ends_here_in items : forall r, ends_here items = Some r -> In (r, []) items.
Proof.
  induction items as [|[r0 rest0] items IH]; intros r H; cbn [ends_here] in H; [discriminate|].
  destruct (ends_here items) as [r'|] eqn:E.
  - inversion H; subst. right. apply IH. reflexivity.
  - destruct rest0; [|discriminate]. inversion H; subst. left. reflexivity.
Qed.

Lemma in_ends_here items r : In (r, []) items -> exists r', ends_here items = Some r'.
Proof.
  induction items as [|[r0 rest0] items IH]; intro H; [destruct H|]. cbn [ends_here].
  destruct (ends_here items) as [r'|] eqn:E; [exists r'; reflexivity|].
  destruct H as [H|H]; [inversion H; subst; exists r; reflexivity|].
  destruct (IH H) as [r' Hr']. discriminate.
Qed.

Lemma candidates_sound rt h r : In r (candidates (run_threads rt h)) -> In r rt /\ cm (r_cls r) h.
Proof.
  unfold candidates, run_threads. intro H. apply in_flat_map in H as [t [Ht Hr]].
  pose proof (run_tinv rt h [root_thread rt] [] (Forall_cons _ (tinv_root rt) (Forall_nil _))) as Hall.
  cbn [app] in Hall. rewrite Forall_forall in Hall. specialize (Hall t Ht).
  destruct (ends_here (t_items t)) as [r'|] eqn:E; [|destruct Hr]. destruct Hr as [<-|[]].
  apply ends_here_in in E. destruct (Hall r' [] E) as [Hin [p [Hp [Hcm _]]]].
  split; [exact Hin|]. rewrite Hp, app_nil_r. exact Hcm.
Qed.

(* ================================================================== completeness of the thread machine *)
(* what is still to be read: the rest of the route, possibly after some more bytes of the loop we are in *)
Definition tail_ok (cur : option cls) (rest : list cls) (w : bytes) : Prop :=
  cm rest w \/
  exists k u w', cur = Some k /\ is_loop k = true /\ u <> [] /\ Forall (fun c => cls_matches k c = true) u /\ w = u ++ w' /\ cm rest w'.

Lemma tail_ok_after cur k u w' rest :
  cur = Some k -> is_loop k = true -> Forall (fun c => cls_matches k c = true) u -> cm rest w' -> tail_ok cur rest (u ++ w').
Proof.
  intros Hc Hk Hf Hcm. destruct u as [|x u]; [left; exact Hcm|].
  right. exists k, (x :: u), w'. repeat split; try assumption. discriminate.
Qed.

Lemma step_enter c t k r rest :
  In (r, k :: rest) (t_items t) -> cls_matches k c = true ->
  In {| t_cur := Some k; t_items := advance k (t_items t) |} (step_thread c t) /\ In (r, rest) (advance k (t_items t)).
Proof.
  intros Hin Hm. split; [|apply in_advance; exact Hin].
  unfold step_thread. apply in_or_app. right. apply in_map_iff. exists k. split; [reflexivity|].
  apply filter_In. split; [|exact Hm]. eapply in_heads; [exact Hin | reflexivity].
Qed.

Lemma step_complete c t r rest w :
  In (r, rest) (t_items t) -> tail_ok (t_cur t) rest (c :: w) ->
  exists t', In t' (step_thread c t) /\ exists rest', In (r, rest') (t_items t') /\ tail_ok (t_cur t') rest' w.
Proof.
  intros Hin [Hcm | [k [u [w' [Hc [Hk [Hu [Hf [Hw Hcm]]]]]]]]].
  - remember (c :: w) as h eqn:Eh. destruct Hcm as [|c0 p w0 Hcm|k u p w0 Hk Hu Hf Hcm]; [discriminate | |].
    + inversion Eh; subst c0 w0.
      destruct (step_enter c t (CLit c) r p Hin (beqb_refl c)) as [H1 H2].
      eexists. split; [exact H1|]. exists p. split; [exact H2|]. left. exact Hcm.
    + destruct u as [|x u]; [contradiction Hu; reflexivity|]. cbn [app] in Eh. inversion Eh; subst x w.
      inversion Hf as [|? ? Hx Hf']; subst.
      destruct (step_enter c t k r p Hin Hx) as [H1 H2].
      eexists. split; [exact H1|]. exists p. split; [exact H2|]. cbn [t_cur].
      apply (tail_ok_after (Some k) k); [reflexivity | exact Hk | exact Hf' | exact Hcm].
  - destruct u as [|x u]; [contradiction Hu; reflexivity|]. cbn [app] in Hw. inversion Hw; subst x w.
    inversion Hf as [|? ? Hx Hf']; subst.
    exists t. split.
    + unfold step_thread. apply in_or_app. left. rewrite Hc, Hk, Hx. left. reflexivity.
    + exists rest. split; [exact Hin|]. apply (tail_ok_after (t_cur t) k); assumption.
Qed.

Lemma run_complete r : forall w ts,
  (exists t, In t ts /\ exists rest, In (r, rest) (t_items t) /\ tail_ok (t_cur t) rest w) ->
  exists t, In t (fold_left (fun ts c => step c ts) w ts) /\ In (r, []) (t_items t).
Proof.
  induction w as [|c w IH]; intros ts [t [Ht [rest [Hin Htail]]]]; cbn [fold_left].
  - exists t. split; [exact Ht|]. destruct Htail as [Hcm | [k [u [w' [_ [_ [Hu [_ [Hw _]]]]]]]]].
    + apply cm_empty_word in Hcm. subst. exact Hin.
    + destruct u; [contradiction Hu; reflexivity | discriminate].
  - apply IH. destruct (step_complete c t r rest w Hin Htail) as [t' [Ht' H]].
    exists t'. split; [|exact H]. unfold step. apply in_flat_map. exists t. split; assumption.
Qed.

Lemma candidates_complete rt r h : In r rt -> cm (r_cls r) h -> exists r', In r' (candidates (run_threads rt h)).
Proof.
  intros Hin Hcm. unfold run_threads.
  destruct (run_complete r h [root_thread rt]) as [t [Ht Hdone]].
  { exists (root_thread rt). split; [left; reflexivity|]. exists (r_cls r). split; [|left; exact Hcm].
    unfold root_thread. cbn [t_items]. apply in_map_iff. exists r. split; [reflexivity | exact Hin]. }
  destruct (in_ends_here _ _ Hdone) as [r' Hr']. exists r'. unfold candidates. apply in_flat_map.
  exists t. split; [exact Ht|]. rewrite Hr'. left. reflexivity.
Qed.

(* ================================================================== patterns: segments vs tokens *)
Definition seg_flat (p : option byte * bytes) : list bytes :=
  match fst p with Some c => [[c]] | None => [] end ++ match snd p with [] => [] | seg => [seg] end.

Lemma segments_head s :
  match s with
  | [] => segments s = []
  | d :: _ => if is_sep d then exists seg r, segments s = (Some d, seg) :: r
              else exists seg r, segments s = (None, d :: seg) :: r
  end.
Proof.
  destruct s as [|d s']; [reflexivity|]. cbn [segments].
  destruct (is_sep d); destruct (segments s') as [|[[x|] seg] r]; eauto.
Qed.

Lemma tokens_segments s : tokens s = flat_map seg_flat (segments s).
Proof.
  induction s as [|c s' IH]; [reflexivity|].
  cbn [tokens segments]. change (sep_byte c) with (is_sep c).
  destruct (is_sep c) eqn:Ec.
  - rewrite IH. destruct (segments s') as [|[[x|] seg] r]; reflexivity.
  - pose proof (segments_head s') as Hh. destruct s' as [|d s''].
    + rewrite Hh. reflexivity.
    + change (sep_byte d) with (is_sep d). destruct (is_sep d) eqn:Ed.
      * destruct Hh as [seg [r Hs]]. rewrite IH, Hs. reflexivity.
      * destruct Hh as [seg [r Hs]]. rewrite IH, Hs. reflexivity.
Qed.

Lemma sep_not_special c : is_sep c = true -> beqb c x3a = false /\ beqb c x2a = false.
Proof.
  unfold is_sep. intro H. apply orb_true_iff in H as [H|H]; apply beqb_true in H; subst; split; reflexivity.
Qed.

Lemma segments_sep_is_sep s : forall c seg, In (Some c, seg) (segments s) -> is_sep c = true.
Proof.
  induction s as [|d s' IH]; intros c seg H; [destruct H|]. cbn [segments] in H.
  destruct (is_sep d) eqn:Ed; destruct (segments s') as [|[[x|] seg0] r]; cbn [In] in H;
    repeat match goal with
           | H : _ \/ _ |- _ => destruct H as [H|H]
           | H : (_, _) = (_, _) |- _ => inversion H; subst; clear H
           | H : False |- _ => destruct H
           end; try assumption; try (eapply IH; cbn [In]; eauto; fail).
Qed.

Lemma compile_tokens s : compile s = flat_map seg_cls (tokens s).
Proof.
  rewrite tokens_segments. unfold compile.
  pose proof (segments_sep_is_sep s) as Hsep. induction (segments s) as [|[sep seg] l IH]; [reflexivity|].
  cbn [flat_map fst snd]. rewrite IH by (intros c sg H; apply (Hsep c sg); right; exact H).
  rewrite flat_map_app. f_equal. unfold seg_flat. cbn [fst snd].
  assert (Hseg : seg_cls seg = flat_map seg_cls match seg with [] => [] | b :: l0 => [b :: l0] end).
  { destruct seg; [reflexivity|]. cbn [flat_map]. rewrite app_nil_r. reflexivity. }
  destruct sep as [c|]; [|exact Hseg].
  assert (Hc : seg_cls [c] = [CLit c]).
  { destruct (sep_not_special c (Hsep c seg (or_introl eq_refl))) as [H1 H2].
    unfold seg_cls, seg_kind. rewrite H1, H2. reflexivity. }
  destruct seg as [|b l0]; cbn [app flat_map]; rewrite Hc, ?app_nil_r; reflexivity.
Qed.

(* ---- reading a class sequence token by token ---- *)
Lemma cm_lits t rest h : cm (map CLit t ++ rest) h <-> exists w, h = t ++ w /\ cm rest w.
Proof.
  revert h. induction t as [|c t IH]; intro h; cbn [map app].
  - split; [intro H; exists h; split; [reflexivity | exact H] | intros [w [-> H]]; exact H].
  - split.
    + intro H. remember (CLit c :: map CLit t ++ rest) as p eqn:Ep.
      destruct H as [|c0 p0 w0 H|k u p0 w0 Hk Hu Hf H]; [discriminate | |].
      * inversion Ep; subst. apply IH in H as [w [-> Hw]]. exists w. split; [reflexivity | exact Hw].
      * inversion Ep; subst. discriminate.
    + intros [w [-> Hw]]. cbn [app]. apply cm_lit. apply IH. exists w. split; [reflexivity | exact Hw].
Qed.

Lemma cm_loop_inv k rest h : is_loop k = true ->
  (cm (k :: rest) h <-> exists u w, u <> [] /\ Forall (fun c => cls_matches k c = true) u /\ cm rest w /\ h = u ++ w).
Proof.
  intro Hk. split.
  - intro H. remember (k :: rest) as p eqn:Ep. destruct H as [|c0 p0 w0 H|k0 u p0 w0 Hk0 Hu Hf H]; [discriminate | |].
    + inversion Ep; subst. discriminate.
    + inversion Ep; subst. exists u, w0. repeat split; assumption.
  - intros [u [w [Hu [Hf [Hcm ->]]]]]. apply cm_loop; assumption.
Qed.

Lemma forall_not_slash u : Forall (fun c => cls_matches CNotSlash c = true) u <-> ~ In x2f u.
Proof.
  induction u as [|c u IH]; cbn [In].
  - split; [intros _ [] | constructor].
  - split.
    + intro H. inversion H as [|? ? Hc Hu]; subst. intros [E|E].
      * subst. discriminate.
      * apply IH in Hu. contradiction.
    + intro H. constructor.
      * cbn. destruct (beqb c x2f) eqn:E; [|reflexivity]. apply beqb_true in E. exfalso. apply H. left. congruence.
      * apply IH. intro E. apply H. right. exact E.
Qed.

Lemma forall2_cons_l {A B} (R : A -> B -> Prop) a l ws :
  Forall2 R (a :: l) ws <-> exists w ws', ws = w :: ws' /\ R a w /\ Forall2 R l ws'.
Proof.
  split.
  - intro H. inversion H; subst. eauto.
  - intros [w [ws' [-> [H1 H2]]]]. constructor; assumption.
Qed.

Lemma cm_tokens toks : forall h,
  cm (flat_map seg_cls toks) h <-> exists ws, Forall2 tok_matches toks ws /\ concat ws = h.
Proof.
  induction toks as [|t toks IH]; intro h; cbn [flat_map].
  - split.
    + intro H. apply cm_nil_inv in H. subst. exists []. split; [constructor | reflexivity].
    + intros [ws [H <-]]. inversion H; subst. apply cm_nil.
  - assert (Hk : (tok_kind t = TStar /\ seg_cls t = [CAny]) \/ (tok_kind t = TDyn /\ seg_cls t = [CNotSlash])
                 \/ (tok_kind t = TLit /\ seg_cls t = map CLit t)).
    { unfold tok_kind, seg_cls, seg_kind. destruct t as [|c t']; [right; right; split; reflexivity|].
      destruct (beqb c x3a) eqn:E1; destruct (beqb c x2a) eqn:E2; auto.
      apply beqb_true in E1. apply beqb_true in E2. subst. discriminate. }
    destruct Hk as [[Hk Hs] | [[Hk Hs] | [Hk Hs]]]; rewrite Hs; unfold tok_matches at 1.
    + cbn [app]. rewrite cm_loop_inv by reflexivity. split.
      * intros [u [w [Hu [_ [Hcm ->]]]]]. apply IH in Hcm as [ws [Hws <-]].
        exists (u :: ws). split; [|reflexivity]. constructor; [|exact Hws]. unfold tok_matches. rewrite Hk. exact Hu.
      * intros [ws [Hws <-]]. apply forall2_cons_l in Hws as [u [ws' [-> [Hu Hws']]]].
        unfold tok_matches in Hu. rewrite Hk in Hu. exists u, (concat ws'). repeat split; try assumption.
        -- apply Forall_forall. intros; reflexivity.
        -- apply IH. exists ws'. split; [exact Hws' | reflexivity].
    + cbn [app]. rewrite cm_loop_inv by reflexivity. split.
      * intros [u [w [Hu [Hf [Hcm ->]]]]]. apply IH in Hcm as [ws [Hws <-]].
        exists (u :: ws). split; [|reflexivity]. constructor; [|exact Hws]. unfold tok_matches. rewrite Hk.
        split; [exact Hu | apply forall_not_slash; exact Hf].
      * intros [ws [Hws <-]]. apply forall2_cons_l in Hws as [u [ws' [-> [Hu Hws']]]].
        unfold tok_matches in Hu. rewrite Hk in Hu. destruct Hu as [Hu Hns].
        exists u, (concat ws'). repeat split; try assumption.
        -- apply forall_not_slash. exact Hns.
        -- apply IH. exists ws'. split; [exact Hws' | reflexivity].
    + rewrite cm_lits. split.
      * intros [w [-> Hcm]]. apply IH in Hcm as [ws [Hws <-]].
        exists (t :: ws). split; [|reflexivity]. constructor; [|exact Hws]. unfold tok_matches. rewrite Hk. reflexivity.
      * intros [ws [Hws <-]]. apply forall2_cons_l in Hws as [u [ws' [-> [Hu Hws']]]].
        unfold tok_matches in Hu. rewrite Hk in Hu. subst u. exists (concat ws'). split; [reflexivity|].
        apply IH. exists ws'. split; [exact Hws' | reflexivity].
Qed.

Lemma cm_compile pat h : cm (compile pat) h <-> host_matches pat h.
Proof. rewrite compile_tokens. apply cm_tokens. Qed.

(* ================================================================== allow-list grouping (the BTreeMap) *)
Lemma group_insert_in h p m h' ps' p' :
  In (h', ps') (group_insert h p m) -> In p' ps' ->
  (h' = h /\ p' = p) \/ exists ps, In (h', ps) m /\ In p' ps.
Proof.
  induction m as [|[k ps] m IH]; cbn [group_insert]; intros Hin Hp.
  - destruct Hin as [E|[]]. inversion E; subst. destruct Hp as [<-|[]]. left. split; reflexivity.
  - destruct (bytes_cmp h k) eqn:E.
    + apply bytes_cmp_eq in E. subst k. destruct Hin as [E|Hin].
      * inversion E; subst. apply in_app_or in Hp as [Hp|[<-|[]]].
        -- right. exists ps. split; [left; reflexivity | exact Hp].
        -- left. split; reflexivity.
      * right. exists ps'. split; [right; exact Hin | exact Hp].
    + destruct Hin as [E1|Hin].
      * inversion E1; subst. destruct Hp as [<-|[]]. left. split; reflexivity.
      * right. exists ps'. split; [exact Hin | exact Hp].
    + destruct Hin as [E1|Hin].
      * inversion E1; subst. right. exists ps'. split; [left; reflexivity | exact Hp].
      * destruct (IH Hin Hp) as [H|[ps0 [H1 H2]]]; [left; exact H|].
        right. exists ps0. split; [right; exact H1 | exact H2].
Qed.

Lemma group_fold_in al : forall m h ps p,
  In (h, ps) (fold_left (fun m a => group_insert (a_host a) (a_port a) m) al m) -> In p ps ->
  (exists ps0, In (h, ps0) m /\ In p ps0) \/ In {| a_host := h; a_port := p |} al.
Proof.
  induction al as [|a al IH]; intros m h ps p Hin Hp; cbn [fold_left] in Hin.
  - left. exists ps. split; assumption.
  - destruct (IH _ h ps p Hin Hp) as [[ps0 [H1 H2]]|H]; [|right; right; exact H].
    destruct (group_insert_in _ _ _ _ _ _ H1 H2) as [[-> ->]|H]; [|left; exact H].
    right. left. destruct a; reflexivity.
Qed.

Lemma group_sound al h ps p : In (h, ps) (group al) -> In p ps -> In {| a_host := h; a_port := p |} al.
Proof.
  intros Hin Hp. destruct (group_fold_in al [] h ps p Hin Hp) as [[ps0 [[] _]]|H]. exact H.
Qed.

(* ================================================================== the library's selection *)
Definition sel_step (best : option route) (y : route) : option route :=
  match best with
  | None => Some y
  | Some x => if meta_ltb (r_meta x) (r_meta y) then Some y else Some x
  end.

Lemma lib_select_fold_in l : forall acc r, fold_left sel_step l acc = Some r -> In r l \/ acc = Some r.
Proof.
  induction l as [|y l IH]; intros acc r H; cbn [fold_left] in H; [right; exact H|].
  destruct (IH _ _ H) as [Hin|Hacc]; [left; right; exact Hin|].
  unfold sel_step in Hacc. destruct acc as [x|].
  - destruct (meta_ltb (r_meta x) (r_meta y)); inversion Hacc; subst; [left; left; reflexivity | right; reflexivity].
  - inversion Hacc; subst. left; left; reflexivity.
Qed.

Lemma lib_select_valid : valid_sel lib_select.
Proof.
  intros l r H. unfold lib_select in H. change (fold_left sel_step l None = Some r) in H.
  destruct (lib_select_fold_in l None r H) as [Hin|E]; [exact Hin | discriminate].
Qed.

Lemma lib_select_fold_some l : forall x, exists y, fold_left sel_step l (Some x) = Some y.
Proof.
  induction l as [|z l IH]; intro x; cbn [fold_left]; [exists x; reflexivity|].
  unfold sel_step at 2. destruct (meta_ltb (r_meta x) (r_meta z)); apply IH.
Qed.

Lemma lib_select_total : total_sel lib_select.
Proof.
  intros l Hl. unfold lib_select. change (fold_left sel_step l None <> None).
  destruct l as [|y l]; [contradiction Hl; reflexivity|]. cbn [fold_left sel_step].
  destruct (lib_select_fold_some l y) as [r ->]. discriminate.
Qed.

(* ================================================================== soundness *)
Lemma wl_recognize_sound sel al a :
  valid_sel sel -> wl_recognize_with sel (mk_router al) a = true -> exists e, In e al /\ entry_matches e a.
Proof.
  intros Hsel H. unfold wl_recognize_with, recognize_with in H.
  destruct (sel (candidates (run_threads (mk_router al) (a_host a)))) as [r|] eqn:Es; [|discriminate].
  apply Hsel in Es. apply candidates_sound in Es as [Hin Hcm].
  unfold mk_router in Hin. apply in_map_iff in Hin as [[h ps] [<- Hg]].
  cbn [mk_route fst snd r_cls r_ports] in *.
  apply existsb_exists in H as [p [Hp Hallow]].
  exists {| a_host := h; a_port := p |}. split; [eapply group_sound; eassumption|].
  split; cbn [a_host a_port]; [apply cm_compile; exact Hcm | apply port_allows_spec; exact Hallow].
Qed.

Lemma decide_sound sel al q :
  valid_sel sel -> decide_with sel (Some al) q = Forward ->
  exists a e, authority_of q = Some a /\ In e al /\ entry_matches e a.
Proof.
  intros Hsel H. unfold decide_with in H. destruct (authority_of q) as [a|]; [|discriminate].
  destruct (wl_recognize_with sel (mk_router al) a) eqn:E; [|discriminate].
  destruct (wl_recognize_sound sel al a Hsel E) as [e [He Hm]]. exists a, e. repeat split; try assumption; apply Hm.
Qed.

(* the composite statement: the inner service is only ever called with an allow-listed authority *)
Lemma call_sound (inner : request -> N) sel al q :
  valid_sel sel -> snd (call_with inner sel (Some al) q) <> [] ->
  exists a e, authority_of q = Some a /\ In e al /\ entry_matches e a.
Proof.
  intros Hsel H. unfold call_with in H. destruct (decide_with sel (Some al) q) eqn:E; cbn [snd] in H;
    try (contradiction H; reflexivity). eapply decide_sound; eassumption.
Qed.

(* ================================================================== 400 exactly when there is no single authority *)
Lemma decide_400_iff sel filter q : decide_with sel filter q = Reject400 <-> authority_of q = None.
Proof.
  unfold decide_with. destruct (authority_of q) as [a|]; [|split; reflexivity].
  split; [|discriminate]. destruct filter as [al|]; [|discriminate].
  destruct (wl_recognize_with sel (mk_router al) a); discriminate.
Qed.

(* the authority the filter works with is the single one the request names: every source that parses gives it *)
Lemma authority_of_single q a :
  authority_of q = Some a ->
  (host_source q = Some (Some a) \/ uri_source q = Some (Some a))
  /\ (forall b, host_source q = Some (Some b) -> b = a)
  /\ (forall b, uri_source q = Some (Some b) -> b = a).
Proof.
  unfold authority_of. intro H.
  destruct (host_source q) as [[a1|]|]; destruct (uri_source q) as [[a2|]|];
    try discriminate;
    try (destruct (authority_eqb a1 a2) eqn:E; [apply authority_eqb_eq in E; subst a2 | discriminate]);
    inversion H; subst;
    (split; [auto|]); split; intros b Hb; congruence.
Qed.

(* disagreeing sources: no authority *)
Lemma authority_of_disagree q a1 a2 :
  host_source q = Some (Some a1) -> uri_source q = Some (Some a2) -> a1 <> a2 -> authority_of q = None.
Proof.
  intros H1 H2 Hne. unfold authority_of. rewrite H1, H2.
  destruct (authority_eqb a1 a2) eqn:E; [apply authority_eqb_eq in E; contradiction | reflexivity].
Qed.

(* ================================================================== a refusal runs nothing *)
Lemma reject_runs_nothing (inner : request -> N) sel filter q :
  (decide_with sel filter q = Reject403 -> call_with inner sel filter q = (403, []))
  /\ (decide_with sel filter q = Reject400 -> call_with inner sel filter q = (400, []))
  /\ (snd (call_with inner sel filter q) = [] <-> decide_with sel filter q <> Forward).
Proof.
  unfold call_with. destruct (decide_with sel filter q); cbn [snd];
    (split; [intro; try discriminate; reflexivity |
     split; [intro; try discriminate; reflexivity |
     split; intro H; try discriminate; try reflexivity; try (contradiction H; reflexivity)]]).
Qed.

(* ================================================================== completeness for a single entry *)
Lemma single_entry_complete sel e q a :
  valid_sel sel -> total_sel sel ->
  authority_of q = Some a -> entry_matches e a -> decide_with sel (Some [e]) q = Forward.
Proof.
  intros Hv Ht Ha [Hh Hp]. unfold decide_with. rewrite Ha.
  set (r0 := mk_route (a_host e, [a_port e])).
  assert (Hrt : mk_router [e] = [r0]) by reflexivity. rewrite Hrt.
  unfold wl_recognize_with, recognize_with.
  destruct (candidates_complete [r0] r0 (a_host a)) as [r' Hr'].
  { left. reflexivity. }
  { unfold r0. cbn [mk_route r_cls fst]. apply cm_compile. exact Hh. }
  destruct (sel (candidates (run_threads [r0] (a_host a)))) as [r|] eqn:Es.
  - apply Hv in Es. apply candidates_sound in Es as [[<-|[]] _].
    unfold r0. cbn [mk_route r_ports snd existsb]. apply port_allows_spec in Hp. rewrite Hp. reflexivity.
  - exfalso. apply (Ht (candidates (run_threads [r0] (a_host a)))); [|exact Es].
    intro E. rewrite E in Hr'. destruct Hr'.
Qed.

(* ================================================================== default ports read from the code *)
Lemma default_ports_wellknown :
  default_port (Some b#"http") = Some 80 /\ default_port (Some b#"ws") = Some 80 /\
  default_port (Some b#"https") = Some 443 /\ default_port (Some b#"wss") = Some 443 /\
  default_port None = None.
Proof. repeat split; reflexivity. Qed.

(* ================================================================== hosts never contain '/' *)
(* justifies leaving the leading-'/' strip of Router::add / Router::recognize out of the model *)
Lemma vloop_no_slash s : forall i st e st',
  vloop s i st = Some (e, st') -> (i <= e)%nat /\ ~ In x2f (firstn (e - i) s).
Proof.
  induction s as [|b s IH]; intros i st e st' H; cbn [vloop] in H.
  - inversion H; subst. rewrite Nat.sub_diag. split; [apply Nat.le_refl | intros []].
  - destruct (beqb b x2f || beqb b x3f || beqb b x23) eqn:Eend.
    { inversion H; subst. rewrite Nat.sub_diag. split; [apply Nat.le_refl | intros []]. }
    assert (Hb : b <> x2f).
    { intro E. subst. discriminate. }
    assert (Hstep : forall st0, vloop s (S i) st0 = Some (e, st') -> (i <= e)%nat /\ ~ In x2f (firstn (e - i) (b :: s))).
    { intros st0 H0. destruct (IH _ _ _ _ H0) as [Hle Hno]. split; [apply Nat.lt_le_incl; exact Hle|].
      replace (e - i)%nat with (S (e - S i)) by (clear - Hle; lia). cbn [firstn In].
      intros [E|E]; [apply Hb; exact E | exact (Hno E)]. }
    repeat match type of H with
           | (if ?c then _ else _) = _ => destruct c
           | None = Some _ => discriminate H
           end; eapply Hstep; exact H.
Qed.

Lemma validate_authority_no_slash s e : validate_authority s = Some e -> ~ In x2f (firstn e s).
Proof.
  unfold validate_authority. destruct s as [|b s]; [discriminate|].
  destruct (vloop (b :: s) 0 _) as [[e0 st]|] eqn:E; [|discriminate].
  intro H. apply vloop_no_slash in E as [_ Hno]. rewrite Nat.sub_0_r in Hno.
  repeat match type of H with
         | (if ?c then _ else _) = _ => destruct c
         | None = Some _ => discriminate H
         end. inversion H; subst. exact Hno.
Qed.

Lemma parse_full_no_slash s u : parse_full s = Some u -> ~ In x2f (u_auth u).
Proof.
  unfold parse_full. destruct (scheme_parse s) as [sc|]; [|discriminate].
  destruct (match sc with ScNone => _ | ScHttp => _ | ScHttps => _ | ScOther n => _ end) as [scheme rest].
  destruct (validate_authority rest) as [e|] eqn:Ev; [|discriminate].
  apply validate_authority_no_slash in Ev. destruct scheme as [sn|].
  - destruct (Nat.eqb e 0); [discriminate|].
    destruct (match skipn e rest with [] => true | _ => _ end); [|discriminate].
    intro H. inversion H; subst. exact Ev.
  - destruct (Nat.eqb e (length rest)) eqn:El; [|discriminate]. apply Nat.eqb_eq in El. subst e.
    rewrite firstn_all in Ev. intro H. inversion H; subst. exact Ev.
Qed.

Lemma uri_parse_no_slash s u : uri_parse s = Some u -> ~ In x2f (u_auth u).
Proof.
  unfold uri_parse. destruct (max_uri_len <? blen s); [discriminate|].
  destruct s as [|b [|c s]]; [discriminate | |].
  - destruct (beqb b x2f || beqb b x2a); [intro H; inversion H; subst; intros []|].
    destruct (validate_authority [b]) as [e|] eqn:Ev; [|discriminate].
    destruct (Nat.eqb e 1) eqn:E1; [|discriminate]. apply Nat.eqb_eq in E1. subst e.
    apply validate_authority_no_slash in Ev. intro H. inversion H; subst. exact Ev.
  - destruct (beqb b x2f).
    + destruct (path_and_query_ok (b :: c :: s)); [|discriminate]. intro H. inversion H; subst. intros [].
    + apply parse_full_no_slash.
Qed.

Lemma last_at_in s : forall r x, last_at s = Some r -> In x r -> In x s.
Proof.
  induction s as [|c s IH]; intros r x H Hx; cbn [last_at] in H; [discriminate|].
  destruct (last_at s) as [r'|].
  - inversion H; subst. right. eapply IH; [reflexivity | exact Hx].
  - destruct (beqb c x40); [|discriminate]. inversion H; subst. right. exact Hx.
Qed.

Lemma through_bracket_in s x : In x (through_bracket s) -> In x s.
Proof.
  induction s as [|c s IH]; cbn [through_bracket]; [tauto|].
  destruct (beqb c x5d); cbn [In]; [tauto|]. intros [H|H]; [left; exact H | right; apply IH; exact H].
Qed.

Lemma take_while_in p s x : In x (take_while p s) -> In x s.
Proof.
  induction s as [|c s IH]; cbn [take_while]; [tauto|].
  destruct (p c); cbn [In]; [|tauto]. intros [H|H]; [left; exact H | right; apply IH; exact H].
Qed.

Lemma host_of_in auth x : In x (host_of auth) -> In x auth.
Proof.
  unfold host_of. intro H.
  assert (Hhp : forall hp, In x (match hp with
                                 | c :: _ => if beqb c x5b then through_bracket hp
                                             else take_while (fun b => negb (beqb b x3a)) hp
                                 | [] => [] end) -> In x hp).
  { intros [|c hp] H0; [destruct H0|]. destruct (beqb c x5b); [apply through_bracket_in | eapply take_while_in]; exact H0. }
  destruct (last_at auth) as [r|] eqn:E; [eapply last_at_in; [exact E | apply Hhp; exact H] | apply Hhp; exact H].
Qed.

Lemma parse_authority_host_no_slash s a : parse_authority s = Some a -> ~ In x2f (a_host a).
Proof.
  unfold parse_authority. destruct (uri_parse s) as [u|] eqn:Eu; [|discriminate].
  apply uri_parse_no_slash in Eu. destruct (u_auth u) as [|b auth] eqn:Ea; [discriminate|].
  intros H Hin. apply Eu.
  assert (Hh : a_host a = host_of (b :: auth)).
  { repeat match type of H with
           | match ?c with _ => _ end = _ => destruct c
           | None = Some _ => discriminate H
           | Some _ = Some _ => inversion H; subst; clear H
           end; reflexivity. }
  rewrite Hh in Hin. apply host_of_in in Hin. exact Hin.
Qed.

(* ================================================================== the specification is decidable by the model *)
(* used for the non-vacuity witnesses in Props/C14.v *)
Lemma host_matches_run pat h :
  host_matches pat h <-> candidates (run_threads [mk_route (pat, [])] h) <> [].
Proof.
  set (r0 := mk_route (pat, [])). split.
  - intro H. destruct (candidates_complete [r0] r0 h) as [r' Hr'].
    + left. reflexivity.
    + unfold r0. cbn [mk_route r_cls fst]. apply cm_compile. exact H.
    + intro E. rewrite E in Hr'. destruct Hr'.
  - intro H. destruct (candidates (run_threads [r0] h)) as [|r l] eqn:E; [contradiction H; reflexivity|].
    assert (Hin : In r (candidates (run_threads [r0] h))) by (rewrite E; left; reflexivity).
    apply candidates_sound in Hin as [[<-|[]] Hcm]. apply cm_compile. exact Hcm.
Qed.

(* ================================================================== "every other request is answered 403" *)
(* with the filter on, a request whose single authority matches no configured entry is refused with 403 *)
Lemma decide_no_match_403 sel al q a :
  valid_sel sel -> authority_of q = Some a ->
  (forall e, In e al -> ~ entry_matches e a) ->
  decide_with sel (Some al) q = Reject403.
Proof.
  intros Hsel Ha Hno. destruct (decide_with sel (Some al) q) eqn:E; [|reflexivity|].
  - destruct (decide_sound sel al q Hsel E) as [a' [e [Ha' [He Hm]]]].
    rewrite Ha in Ha'. inversion Ha'; subst a'. exfalso. exact (Hno e He Hm).
  - apply decide_400_iff in E. rewrite Ha in E. discriminate E.
Qed.

(* the three answers partition the requests: filter on, the decision is a function of (authority, recognised) only *)
Lemma decide_trichotomy sel al q :
  valid_sel sel ->
  (decide_with sel (Some al) q = Reject400 /\ authority_of q = None)
  \/ (decide_with sel (Some al) q = Reject403 /\ exists a, authority_of q = Some a)
  \/ (decide_with sel (Some al) q = Forward /\ exists a e, authority_of q = Some a /\ In e al /\ entry_matches e a).
Proof.
  intro Hsel. destruct (decide_with sel (Some al) q) eqn:E.
  - right. right. split; [reflexivity|]. exact (decide_sound sel al q Hsel E).
  - right. left. split; [reflexivity|]. destruct (authority_of q) as [a|] eqn:Ha; [exists a; reflexivity|].
    rewrite (proj2 (decide_400_iff sel (Some al) q) Ha) in E. discriminate E.
  - left. split; [reflexivity|]. apply decide_400_iff in E. exact E.
Qed.

(* filter switched off (HostFilterLayer::disable): everything with a single authority is passed on *)
Lemma decide_disabled sel q : decide_with sel None q = Forward <-> authority_of q <> None.
Proof.
  unfold decide_with. destruct (authority_of q) as [a|]; split; intro H; try reflexivity; try discriminate.
  contradiction H; reflexivity.
Qed.
