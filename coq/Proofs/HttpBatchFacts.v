(* C12, HTTP client: the fill loop of Model/HttpBatch.v either fails the whole call or returns exactly n entries,
   entry j being the last reply that carries id lo+j (else the placeholder error).  Shares `fill`, `entry_of`,
   `filled_of`, `ids_of_range` with the WebSocket side (Proofs/ClientMgrC12.v). *)
From Coq Require Import List NArith ZArith Bool Lia Permutation.
From JV Require Import Base.Bytes Base.Dec Model.Wire Model.ClientMgr Model.HttpBatch Proofs.ClientMgrC12.
Import ListNotations.
Local Open Scope N_scope.
Local Arguments N.add : simpl never.
Local Arguments N.sub : simpl never.
Local Arguments N.ltb : simpl never.
Local Arguments N.leb : simpl never.

Definition id_in_range (lo n : N) (r : response) : Prop :=
  exists k, id_as_number (rs_id r) = Some k /\ lo <= k < lo + n.

Lemma range_test lo n k : ((lo <=? k) && (k - lo <? n))%bool = true <-> lo <= k < lo + n.
Proof.
  rewrite andb_true_iff, N.leb_le, N.ltb_lt. lia.
Qed.

Lemma http_fill_ok lo n : forall rs acc out,
  http_fill lo n rs acc = HOk out -> out = fill lo rs acc /\ Forall (id_in_range lo n) rs.
Proof.
  induction rs as [|r rs IH]; intros acc out H; simpl in H.
  - injection H as <-. split; [reflexivity|constructor].
  - destruct (id_as_number (rs_id r)) as [k|] eqn:Ek; [|discriminate].
    destruct ((lo <=? k) && (k - lo <? n))%bool eqn:Et; [|discriminate].
    apply IH in H as [-> HF]. split.
    + unfold fill. simpl. rewrite Ek. reflexivity.
    + constructor; [|exact HF]. exists k. split; [exact Ek|]. now apply range_test.
Qed.

Lemma http_fill_all_in_range lo n : forall rs acc,
  Forall (id_in_range lo n) rs -> http_fill lo n rs acc = HOk (fill lo rs acc).
Proof.
  induction rs as [|r rs IH]; intros acc HF; [reflexivity|].
  apply Forall_cons_iff in HF as [[k [Ek Hk]] HF']. cbn [http_fill]. rewrite Ek.
  apply range_test in Hk. rewrite Hk, IH by exact HF'.
  unfold fill. cbn [fold_left]. rewrite Ek. reflexivity.
Qed.

(* the error is that of the first reply (in the server's order) that has no slot *)
Lemma http_fill_err lo n : forall rs acc e,
  http_fill lo n rs acc = HErr e ->
  exists pre r post, rs = pre ++ r :: post /\ Forall (id_in_range lo n) pre /\
    ((e = HBadId /\ id_as_number (rs_id r) = None) \/
     (e = HNotPending /\ exists k, id_as_number (rs_id r) = Some k /\ ~ (lo <= k < lo + n))).
Proof.
  induction rs as [|r rs IH]; intros acc e H; simpl in H; [discriminate|].
  destruct (id_as_number (rs_id r)) as [k|] eqn:Ek.
  - destruct ((lo <=? k) && (k - lo <? n))%bool eqn:Et.
    + apply IH in H as [pre [r' [post [-> [HF Hc]]]]]. exists (r :: pre), r', post.
      split; [reflexivity|]. split; [|exact Hc]. constructor; [|exact HF].
      exists k. split; [exact Ek|]. now apply range_test.
    + injection H as <-. exists [], r, rs. split; [reflexivity|]. split; [constructor|].
      right. split; [reflexivity|]. exists k. split; [exact Ek|]. intro Hk. apply range_test in Hk. congruence.
  - injection H as <-. exists [], r, rs. split; [reflexivity|]. split; [constructor|]. left. auto.
Qed.

Lemma http_batch_some lo n rs filled :
  http_batch lo n rs = Some filled <->
  (forall r, In r rs -> id_in_range lo n r) /\ filled = filled_of lo (N.to_nat n) rs.
Proof.
  unfold http_batch, http_batch_r. split.
  - destruct (http_fill lo n rs (repeat placeholder (N.to_nat n))) as [out|e] eqn:E; [|discriminate].
    intro H. injection H as <-. apply http_fill_ok in E as [-> HF]. split; [|reflexivity].
    now apply Forall_forall.
  - intros [HF ->]. apply Forall_forall in HF. rewrite (http_fill_all_in_range lo n rs _ HF). reflexivity.
Qed.

Theorem http_positional : forall lo n rs filled,
  http_batch lo n rs = Some filled ->
  length filled = N.to_nat n /\
  (forall r, In r rs -> exists k, id_as_number (rs_id r) = Some k /\ lo <= k < lo + n) /\
  forall j, (j < N.to_nat n)%nat ->
    nth j filled placeholder = entry_of lo rs j /\
    ((nth j filled placeholder = placeholder /\
        forall r, In r rs -> id_as_number (rs_id r) <> Some (lo + N.of_nat j)) \/
     (exists r, In r rs /\ id_as_number (rs_id r) = Some (lo + N.of_nat j) /\ nth j filled placeholder = r)).
Proof.
  intros lo n rs filled H. apply http_batch_some in H as [HF ->].
  split; [apply filled_length|]. split; [exact HF|]. intros j Hj.
  assert (E : nth j (filled_of lo (N.to_nat n) rs) placeholder = entry_of lo rs j).
  { apply filled_entry; [|exact Hj]. intros r k Hin Ek. destruct (HF r Hin) as [k' [Ek' Hk']].
    unfold rid_num in Ek. rewrite Ek in Ek'. injection Ek' as <-. lia. }
  split; [exact E|]. rewrite E. apply entry_cases.
Qed.

Theorem http_never_shorter : forall lo n rs filled,
  http_batch lo n rs = Some filled -> length filled = N.to_nat n.
Proof. intros lo n rs filled H. now apply http_positional in H. Qed.

(* the whole call fails exactly when some reply has no slot in lo .. lo+n; nothing else makes it fail *)
Theorem http_fails_iff : forall lo n rs,
  http_batch lo n rs = None <->
  exists r, In r rs /\
    (id_as_number (rs_id r) = None \/ exists k, id_as_number (rs_id r) = Some k /\ ~ (lo <= k < lo + n)).
Proof.
  intros lo n rs. split.
  - unfold http_batch, http_batch_r.
    destruct (http_fill lo n rs (repeat placeholder (N.to_nat n))) as [out|e] eqn:E; [discriminate|]. intros _.
    apply http_fill_err in E as [pre [r [post [-> [_ Hc]]]]]. exists r.
    split; [apply in_or_app; right; now left|]. destruct Hc as [[_ H]|[_ H]]; auto.
  - intros [r [Hin Hc]]. destruct (http_batch lo n rs) as [filled|] eqn:E; [|reflexivity]. exfalso.
    apply http_batch_some in E as [HF _]. destruct (HF r Hin) as [k [Ek Hk]].
    destruct Hc as [Hn|[k' [Ek' Hk']]]; [congruence|]. rewrite Ek in Ek'. injection Ek' as <-. auto.
Qed.

Theorem http_complete_reply : forall lo n rs,
  Permutation (map (fun r => id_as_number (rs_id r)) rs) (ids_of_range lo (N.to_nat n)) ->
  exists filled,
    http_batch lo n rs = Some filled /\ length filled = N.to_nat n /\
    (forall j r, (j < N.to_nat n)%nat -> In r rs -> id_as_number (rs_id r) = Some (lo + N.of_nat j) ->
       nth j filled placeholder = r) /\
    (forall j, (j < N.to_nat n)%nat ->
       exists r, In r rs /\ id_as_number (rs_id r) = Some (lo + N.of_nat j) /\ nth j filled placeholder = r) /\
    Permutation filled rs.
Proof.
  intros lo n rs Hp. destruct (filled_complete lo _ rs Hp) as [Hin [H1 [H2 H3]]].
  exists (filled_of lo (N.to_nat n) rs). split; [|split; [apply filled_length|split; [exact H1|split; [exact H2|exact H3]]]].
  apply http_batch_some. split; [|reflexivity]. intros r Hr.
  assert (Hi : In (rid_num r) (ids_of_range lo (N.to_nat n))).
  { apply (Permutation_in _ Hp). now apply (in_map rid_num). }
  apply in_ids_of_range in Hi as [j [Hj Ej]]. exists (lo + N.of_nat j). split; [exact Ej|lia].
Qed.

Theorem http_counts : forall lo n rs filled,
  http_batch lo n rs = Some filled ->
  (count_ok filled + count_err filled = N.to_nat n)%nat /\
  count_ok filled = length (filter is_success filled) /\
  count_err filled = length (filter (fun r => negb (is_success r)) filled).
Proof.
  intros lo n rs filled H. apply http_never_shorter in H.
  rewrite counts_match, H. split; [reflexivity|]. split; [reflexivity|apply count_err_spec].
Qed.

(* from the bytes of the body: a successful call went through http_batch on the parsed replies *)
Theorem http_reply_ok : forall lo n body filled,
  http_reply lo n body = HOk filled ->
  exists text single ts rs,
    HttpGate.read_body [] [HttpGate.FData body] http_max_response = HttpGate.RbOk text single /\
    raw_array text = Some ts /\ parse_all ts = Some rs /\ http_batch lo n rs = Some filled.
Proof.
  intros lo n body filled H. unfold http_reply in H.
  destruct (HttpGate.read_body [] [HttpGate.FData body] http_max_response) as [text single| | |] eqn:Eb; try discriminate.
  unfold http_parse in H.
  destruct (raw_array text) as [ts|] eqn:Ea; [|discriminate].
  destruct (parse_all ts) as [rs|] eqn:Ep; [|discriminate].
  exists text, single, ts, rs. repeat split; auto. unfold http_batch. now rewrite H.
Qed.

Lemma parse_all_spec : forall ts rs, parse_all ts = Some rs -> map parse_response ts = map Some rs.
Proof.
  induction ts as [|t ts IH]; intros rs H; simpl in H.
  - injection H as <-. reflexivity.
  - destruct (parse_response t) as [r|] eqn:E; [|discriminate].
    destruct (parse_all ts) as [rs'|]; [|discriminate]. injection H as <-. simpl. rewrite E, (IH rs' eq_refl). reflexivity.
Qed.

(* ---------- C03, HTTP client: the single call ---------- *)
Lemma id_eqb_iff a b : id_eqb a b = true <-> a = b.
Proof.
  destruct a as [|x|x], b as [|y|y]; simpl; split; intro H; try discriminate; try reflexivity.
  - apply N.eqb_eq in H. now subst.
  - injection H as ->. apply N.eqb_refl.
  - apply bytes_eqb_eq in H. now subst.
  - injection H as ->. apply bytes_eqb_refl.
Qed.

Definition outcome_of (r : response) : sres :=
  match rs_payload r with PResult raw => SOk raw | PError e => SCall e end.

(* a reply bearing the call's id yields exactly that reply's result / error object *)
Theorem http_single_own_id : forall (i : id) (r : response),
  rs_id r = i -> http_single_resp i r = outcome_of r.
Proof.
  intros i r H. unfold http_single_resp, outcome_of. destruct (rs_payload r); [|reflexivity].
  apply id_eqb_iff in H. now rewrite H.
Qed.

(* a reply bearing any other id (another number, a string where a number was sent or the reverse, null) never yields
   Ok: a result is refused as not pending; an error object is still reported as the call's error (the code turns the
   reply into ResponseSuccess before it looks at the id) *)
Theorem http_single_foreign_id : forall (i : id) (r : response),
  rs_id r <> i ->
  http_single_resp i r = match rs_payload r with PResult _ => SErr HNotPending | PError e => SCall e end /\
  forall raw, http_single_resp i r <> SOk raw.
Proof.
  intros i r H. unfold http_single_resp. destruct (rs_payload r) as [raw0|e].
  - destruct (id_eqb (rs_id r) i) eqn:E; [apply id_eqb_iff in E; contradiction|]. split; [reflexivity|discriminate].
  - split; [reflexivity|discriminate].
Qed.

(* from the bytes of the body: Ok only through a parsed reply with the call's own id, and then its result *)
Theorem http_single_ok : forall (i : id) (body raw : bytes),
  http_single i body = SOk raw <->
  exists text single r,
    HttpGate.read_body [] [HttpGate.FData body] http_max_response = HttpGate.RbOk text single /\
    parse_response text = Some r /\ rs_id r = i /\ rs_payload r = PResult raw.
Proof.
  intros i body raw. unfold http_single. split.
  - destruct (HttpGate.read_body [] [HttpGate.FData body] http_max_response) as [text single| | |] eqn:Eb; try discriminate.
    destruct (parse_response text) as [r|] eqn:Ep; [|discriminate].
    unfold http_single_resp. destruct (rs_payload r) as [raw0|e] eqn:Epl; [|discriminate].
    destruct (id_eqb (rs_id r) i) eqn:E; [|discriminate]. intro H. injection H as ->.
    apply id_eqb_iff in E. exists text, single, r. auto.
  - intros [text [single [r [Eb [Ep [Ei Epl]]]]]]. rewrite Eb, Ep. unfold http_single_resp. rewrite Epl.
    apply id_eqb_iff in Ei. now rewrite Ei.
Qed.
