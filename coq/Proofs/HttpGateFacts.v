(* C19: facts about the HTTP gate and read_body (Model/HttpGate.v over Gen/HttpGateGen.v, Gen/SniffGen.v).
   Nothing here depends on the concrete window size or on which spellings the generated list contains, except
   the lemmas marked "table": those are re-checked by computation against the regenerated tables. *)
From JV Require Import Base.Bytes Base.Dec Proofs.BytesFacts Proofs.DecFacts Gen.HttpGateGen Gen.SniffGen Model.HttpGate.
Arguments N.add : simpl never.
Arguments N.sub : simpl never.
Arguments N.mul : simpl never.
Arguments N.ltb : simpl never.
Arguments N.leb : simpl never.
Arguments N.eqb : simpl never.

(* ------------------------------------------------------------------ the gate *)

Definition POST : bytes := b#"POST".

(* the first Content-Type value equals one of the generated spellings, ASCII case ignored *)
Definition ct_accepted (cts : list bytes) : Prop :=
  exists v s, hd_error cts = Some v /\ In s accepted_content_types /\ map ascii_lower v = map ascii_lower s.

Lemma lower_visible b : is_visible_ascii (ascii_lower b) = is_visible_ascii b.
Proof. destruct b; vm_compute; reflexivity. Qed.

Lemma to_str_ok_lower v : to_str_ok (map ascii_lower v) = to_str_ok v.
Proof.
  unfold to_str_ok. induction v as [|b v IH]; cbn [map forallb]; [reflexivity|].
  rewrite lower_visible, IH. reflexivity.
Qed.

Lemma eq_ignore_ascii_case_spec a b : eq_ignore_ascii_case a b = true <-> map ascii_lower a = map ascii_lower b.
Proof. unfold eq_ignore_ascii_case. apply bytes_eqb_eq. Qed.

(* table: every generated spelling is a str (visible ASCII) *)
Lemma accepted_visible : forallb to_str_ok accepted_content_types = true.
Proof. vm_compute. reflexivity. Qed.

(* table: the gate method *)
Lemma gate_method_is_POST : gate_method = POST.
Proof. vm_compute. reflexivity. Qed.

Lemma is_json_spec ct :
  is_json ct = true <->
  exists v s, ct = Some v /\ In s accepted_content_types /\ map ascii_lower v = map ascii_lower s.
Proof.
  unfold is_json. split.
  - destruct ct as [v|]; [|discriminate]. intro H. apply andb_true_iff in H as [_ H].
    apply existsb_exists in H as (s & Hin & He). apply eq_ignore_ascii_case_spec in He.
    exists v, s. auto.
  - intros (v & s & -> & Hin & He). apply andb_true_iff. split.
    + rewrite <- to_str_ok_lower, He, to_str_ok_lower.
      pose proof accepted_visible as Hv. rewrite forallb_forall in Hv. apply Hv. exact Hin.
    + apply existsb_exists. exists s. split; [exact Hin|]. apply eq_ignore_ascii_case_spec. exact He.
Qed.

Lemma content_type_is_json_spec cts : content_type_is_json cts = true <-> ct_accepted cts.
Proof. unfold content_type_is_json, ct_accepted. apply is_json_spec. Qed.

Lemma gate_spec m cts :
  (gate m cts = GRpc <-> m = POST /\ ct_accepted cts) /\
  (gate m cts = GBadContentType <-> m = POST /\ ~ ct_accepted cts) /\
  (gate m cts = GBadMethod <-> m <> POST).
Proof.
  unfold gate. rewrite gate_method_is_POST.
  destruct (bytes_eqb m POST) eqn:Em.
  - apply bytes_eqb_eq in Em.
    destruct (content_type_is_json cts) eqn:Ec.
    + apply content_type_is_json_spec in Ec.
      repeat split; try tauto; try discriminate; intros; tauto.
    + assert (~ ct_accepted cts) by (intro Hc; apply content_type_is_json_spec in Hc; congruence).
      repeat split; try tauto; try discriminate; intros; tauto.
  - assert (m <> POST) by (intro Hc; apply bytes_eqb_eq in Hc; congruence).
    repeat split; try tauto; try discriminate; intros; tauto.
Qed.

Lemma gate_outcome A (rpc : bytes -> bool -> A) m cts cls fs max :
  call_with_service A rpc m cts cls fs max =
  match gate m cts with
  | GRpc => after_read_body A rpc (read_body cls fs max)
  | GBadContentType => Refused 415
  | GBadMethod => Refused 405
  end.
Proof. unfold call_with_service, call_with_service_with. destruct (gate m cts); reflexivity. Qed.

(* table: the statuses of the read_body outcomes *)
Lemma after_read_body_status A (rpc : bytes -> bool -> A) r :
  after_read_body A rpc r =
  match r with
  | RbOk body single => Answered 200 (rpc body single)
  | RbTooLarge => Refused 413
  | RbMalformed => Refused 400
  | RbStream => Refused 500
  end.
Proof. destruct r; reflexivity. Qed.

(* whatever is not a JSON POST is refused with 405 / 415 and the answer does not depend on the RPC layer *)
Lemma no_handler_unless_json_post A (rpc1 rpc2 : bytes -> bool -> A) m cts cls fs max :
  ~ (m = POST /\ ct_accepted cts) ->
  call_with_service A rpc1 m cts cls fs max = call_with_service A rpc2 m cts cls fs max /\
  ((m <> POST /\ call_with_service A rpc1 m cts cls fs max = Refused 405) \/
   (m = POST /\ call_with_service A rpc1 m cts cls fs max = Refused 415)).
Proof.
  intro Hn. rewrite !gate_outcome. destruct (gate_spec m cts) as (H1 & H2 & H3).
  destruct (gate m cts) eqn:Eg.
  - exfalso. apply Hn. apply H1. reflexivity.
  - split; [reflexivity|]. right. split; [apply H2; reflexivity | reflexivity].
  - split; [reflexivity|]. left. split; [apply H3; reflexivity | reflexivity].
Qed.

Lemma rpc_reached_iff A (rpc : bytes -> bool -> A) m cts cls fs max :
  (exists st a, call_with_service A rpc m cts cls fs max = Answered st a) <->
  (m = POST /\ ct_accepted cts /\ exists body single, read_body cls fs max = RbOk body single).
Proof.
  rewrite gate_outcome. destruct (gate_spec m cts) as (H1 & H2 & H3). split.
  - intros (st & a & H). destruct (gate m cts) eqn:Eg; try discriminate.
    destruct H1 as [H1 _]. destruct (H1 eq_refl) as [Hm Hc]. split; [exact Hm|]. split; [exact Hc|].
    destruct (read_body cls fs max) as [body single| | |]; try discriminate. eauto.
  - intros (Hm & Hc & body & single & Hr).
    destruct H1 as [_ H1]. rewrite (H1 (conj Hm Hc)), Hr. cbn. eauto.
Qed.

Lemma rpc_reached_answer A (rpc : bytes -> bool -> A) m cts cls fs max st a :
  call_with_service A rpc m cts cls fs max = Answered st a ->
  st = 200%N /\ exists body single, read_body cls fs max = RbOk body single /\ a = rpc body single.
Proof.
  rewrite gate_outcome. destruct (gate m cts); try discriminate.
  rewrite after_read_body_status. destruct (read_body cls fs max) as [body single| | |]; try discriminate.
  intro H. inversion H; subst. eauto.
Qed.

(* ------------------------------------------------------------------ read_body as a function of the payload *)

Lemma blen_app a b : blen (a ++ b) = (blen a + blen b)%N.
Proof. unfold blen. rewrite app_length. lia. Qed.

(* first non-whitespace byte within the first w bytes, with the suffix that starts at it *)
Fixpoint sniff (w : nat) (body : bytes) : option (byte * bytes) :=
  match w, body with
  | S w', c :: r => if http_sniff_ws c then sniff w' r else Some (c, body)
  | _, _ => None
  end.

Lemma find_nonws_sniff w : forall d i,
  match find_nonws w d i with
  | Some (idx, c) => exists k, idx = (i + k)%nat /\ sniff w d = Some (c, skipn k d)
  | None => sniff w d = None
  end.
Proof.
  induction w as [|w IH]; intros [|c d] i; cbn [find_nonws sniff]; auto.
  destruct (http_sniff_ws c).
  - specialize (IH d (S i)). destruct (find_nonws w d (S i)) as [[idx c']|]; auto.
    destruct IH as (k & -> & H). exists (S k). split; [lia | exact H].
  - exists 0%nat. split; [lia | reflexivity].
Qed.

Lemma sniff_app_some w : forall d c suf r, sniff w d = Some (c, suf) -> sniff w (d ++ r) = Some (c, suf ++ r).
Proof.
  induction w as [|w IH]; intros [|x d] c suf r H; cbn [sniff app] in *; try discriminate.
  destruct (http_sniff_ws x).
  - apply IH. exact H.
  - inversion H; subst. reflexivity.
Qed.

Lemma sniff_app_none w : forall d r, sniff w d = None -> (length d < w)%nat -> sniff w (d ++ r) = sniff (w - length d) r.
Proof.
  induction w as [|w IH]; intros [|x d] r H L; cbn [length] in L; try lia.
  - reflexivity.
  - cbn [sniff app length Nat.sub] in *. destruct (http_sniff_ws x); [|discriminate]. apply IH; [exact H | lia].
Qed.

Lemma sniff_none_long w : forall d r, sniff w d = None -> (w <= length d)%nat -> sniff w (d ++ r) = None.
Proof.
  induction w as [|w IH]; intros [|x d] r H L; cbn [length] in L; try lia; try reflexivity.
  cbn [sniff app] in *. destruct (http_sniff_ws x); [|discriminate]. apply IH; [exact H | lia].
Qed.

Lemma sniff_suffix_nonempty w : forall d c suf, sniff w d = Some (c, suf) -> exists t, suf = c :: t.
Proof.
  induction w as [|w IH]; intros [|x d] c suf H; cbn [sniff] in H; try discriminate.
  destruct (http_sniff_ws x); [eapply IH; exact H|]. inversion H; subst. eauto.
Qed.

Definition ok_or_malformed (body : bytes) (single : bool) : rb_result :=
  match body with [] => RbMalformed | _ :: _ => RbOk body single end.

Definition classify (c : byte) (suffix : bytes) : rb_result :=
  if Byte.eqb c http_single_byte then ok_or_malformed suffix true
  else if Byte.eqb c http_batch_byte then ok_or_malformed suffix false
  else RbMalformed.

(* what read_body makes of a whole body whose first w bytes are inspected *)
Definition whole (w : nat) (body : bytes) : rb_result :=
  match sniff w body with
  | Some (c, suffix) => classify c suffix
  | None => RbMalformed
  end.

Lemma read_frames_sniffed : forall fs s rem b,
  is_single s = Some b -> (blen (payload fs) <= rem)%N ->
  read_frames on_data s rem fs = ok_or_malformed (received s ++ payload fs) b.
Proof.
  induction fs as [|[d|] fs IH]; intros s rem b Hs Hl; cbn [read_frames payload] in *.
  - unfold rb_finish. rewrite Hs, app_nil_r. reflexivity.
  - rewrite blen_app in Hl.
    destruct (N.ltb_spec rem (blen d)); [lia|].
    unfold on_data. rewrite Hs.
    rewrite (IH _ _ b); cbn [is_single received]; [rewrite app_assoc; reflexivity | first [exact Hs | reflexivity] | lia].
  - apply IH; assumption.
Qed.

Lemma read_frames_sniffing : forall fs s rem,
  is_single s = None -> received s = [] -> (blen (payload fs) <= rem)%N ->
  read_frames on_data s rem fs = whole (http_sniff_window - sniffed s) (payload fs).
Proof.
  induction fs as [|[d|] fs IH]; intros s rem Hs Hr Hl; cbn [read_frames payload] in *.
  - unfold rb_finish, whole. rewrite Hs. destruct (http_sniff_window - sniffed s)%nat; reflexivity.
  - rewrite blen_app in Hl.
    destruct (N.ltb_spec rem (blen d)); [lia|].
    unfold on_data. rewrite Hs, Hr.
    pose proof (find_nonws_sniff (http_sniff_window - sniffed s) d 0) as Hf.
    destruct (find_nonws (http_sniff_window - sniffed s) d 0) as [[idx c]|].
    + destruct Hf as (k & -> & Hk). cbn [Nat.add app].
      unfold whole. rewrite (sniff_app_some _ _ _ _ (payload fs) Hk). unfold classify.
      destruct (Byte.eqb c http_single_byte).
      * rewrite (read_frames_sniffed fs _ _ true); [reflexivity | reflexivity | lia].
      * destruct (Byte.eqb c http_batch_byte); [|reflexivity].
        rewrite (read_frames_sniffed fs _ _ false); [reflexivity | reflexivity | lia].
    + destruct (Nat.ltb_spec (sniffed s + length d) http_sniff_window) as [Hlt|Hge].
      * rewrite IH; cbn [is_single received sniffed]; [| reflexivity | first [exact Hr | reflexivity] | lia].
        unfold whole. rewrite (sniff_app_none _ d (payload fs) Hf) by lia.
        replace (http_sniff_window - sniffed s - length d)%nat with (http_sniff_window - (sniffed s + length d))%nat by lia.
        reflexivity.
      * unfold whole. rewrite (sniff_none_long _ d (payload fs) Hf) by lia. reflexivity.
  - apply IH; assumption.
Qed.

Definition content_length_or_zero (cls : list bytes) : N :=
  match read_header_content_length cls with Some n => n | None => 0%N end.

(* within the limit, read_body is a function of the Content-Length pre-check and of the payload alone *)
Lemma read_body_whole cls fs max :
  (blen (payload fs) <= max)%N ->
  read_body cls fs max =
  if (max <? content_length_or_zero cls)%N then RbTooLarge else whole http_sniff_window (payload fs).
Proof.
  intro Hl. unfold read_body, read_body_with, content_length_or_zero.
  destruct (max <? _)%N; [reflexivity|].
  rewrite read_frames_sniffing; [| reflexivity | reflexivity | exact Hl].
  cbn [sniffed rb_init]. rewrite Nat.sub_0_r. reflexivity.
Qed.

Lemma chunking_irrelevant cls fs max :
  (blen (payload fs) <= max)%N ->
  read_body cls fs max = read_body cls [FData (payload fs)] max.
Proof.
  intro Hl. rewrite (read_body_whole cls fs max Hl).
  assert (Hp : payload [FData (payload fs)] = payload fs) by (cbn [payload]; apply app_nil_r).
  rewrite (read_body_whole cls [FData (payload fs)] max) by (rewrite Hp; exact Hl).
  rewrite Hp. reflexivity.
Qed.

(* two framings of the same bytes *)
Lemma same_payload_same_result cls fs1 fs2 max :
  payload fs1 = payload fs2 -> (blen (payload fs1) <= max)%N ->
  read_body cls fs1 max = read_body cls fs2 max.
Proof.
  intros He Hl. rewrite (read_body_whole cls fs1 max Hl), (read_body_whole cls fs2 max) by (rewrite <- He; exact Hl).
  rewrite He. reflexivity.
Qed.

(* ------------------------------------------------------------------ Content-Length *)

Lemma digit_visible b : is_digit b = true -> is_visible_ascii b = true.
Proof. destruct b; vm_compute; intro H; try reflexivity; discriminate H. Qed.

Lemma digit_not_plus b : is_digit b = true -> Byte.eqb b x2b = false.
Proof. destruct b; vm_compute; intro H; try reflexivity; discriminate H. Qed.

Lemma digits_visible s : forallb is_digit s = true -> to_str_ok s = true.
Proof.
  unfold to_str_ok. induction s as [|b s IH]; cbn [forallb]; [reflexivity|].
  intro H. apply andb_true_iff in H as [Hb Hs]. rewrite (digit_visible _ Hb), (IH Hs). reflexivity.
Qed.

(* a Content-Length header that states the decimal length n *)
Lemma content_length_of_print n :
  read_header_content_length [print_N n] = if (n <=? u32_max)%N then Some n else None.
Proof.
  unfold read_header_content_length, read_header_value.
  pose proof (print_N_digits n) as Hd. rewrite (digits_visible _ Hd).
  unfold parse_u32. destruct (print_N n) as [|c r] eqn:Ep; [exfalso; exact (print_N_nonempty n Ep)|].
  assert (Hc : is_digit c = true) by (cbn [forallb] in Hd; apply andb_true_iff in Hd; tauto).
  rewrite (digit_not_plus _ Hc), Hd, <- Ep, digits_val_print_N. reflexivity.
Qed.

Lemma content_length_irrelevant cls fs max :
  (blen (payload fs) <= max)%N ->
  cls = [] \/ cls = [print_N (blen (payload fs))] ->
  read_body cls fs max = read_body [] fs max.
Proof.
  intros Hl Hc. rewrite !(read_body_whole _ fs max Hl).
  assert (H0 : (max <? content_length_or_zero [])%N = false) by (apply N.ltb_ge; cbn; lia).
  rewrite H0. destruct Hc as [-> | ->]; [rewrite H0; reflexivity|].
  unfold content_length_or_zero. rewrite content_length_of_print.
  destruct (blen (payload fs) <=? u32_max)%N.
  - destruct (N.ltb_spec max (blen (payload fs))); [lia | reflexivity].
  - destruct (N.ltb_spec max 0); [lia | reflexivity].
Qed.

(* more generally: any Content-Length that does not exceed the limit (or is not a single u32) changes nothing *)
Lemma content_length_within_limit_irrelevant cls fs max :
  (content_length_or_zero cls <= max)%N ->
  read_body cls fs max = read_body [] fs max.
Proof.
  intro Hc. unfold read_body, read_body_with. fold (content_length_or_zero cls). fold (content_length_or_zero []).
  destruct (N.ltb_spec max (content_length_or_zero cls)); [lia|].
  destruct (N.ltb_spec max (content_length_or_zero [])) as [H0|H0]; [cbn in H0; lia | reflexivity].
Qed.

(* ------------------------------------------------------------------ spellings *)

Lemma spelling_irrelevant A (rpc : bytes -> bool -> A) m cts1 cts2 cls fs max :
  ct_accepted cts1 -> ct_accepted cts2 ->
  call_with_service A rpc m cts1 cls fs max = call_with_service A rpc m cts2 cls fs max.
Proof.
  intros H1 H2. unfold call_with_service, call_with_service_with, gate.
  apply content_type_is_json_spec in H1, H2. rewrite H1, H2. reflexivity.
Qed.

(* the three spellings named by the property text, in any letter case, first of duplicates *)
Definition property_spellings : list bytes :=
  [ b#"application/json"; b#"application/json; charset=utf-8"; b#"application/json;charset=utf-8" ].

(* table *)
Lemma property_spellings_accepted v rest :
  In (map ascii_lower v) property_spellings -> content_type_is_json (v :: rest) = true.
Proof.
  intro H. apply content_type_is_json_spec. unfold ct_accepted. cbn [hd_error].
  unfold property_spellings in H.
  repeat (destruct H as [H | H];
          [ exists v, (map ascii_lower v); split; [reflexivity|]; rewrite <- H; split;
            [ vm_compute; auto 10 | vm_compute; reflexivity ] | ]).
  destruct H.
Qed.

(* the whole claim in one statement: for JSON POSTs within the limit the outcome is a function of the body bytes *)
Lemma answer_depends_only_on_body A (rpc : bytes -> bool -> A) cts1 cts2 cls1 cls2 fs1 fs2 max :
  payload fs1 = payload fs2 -> (blen (payload fs1) <= max)%N ->
  ct_accepted cts1 -> ct_accepted cts2 ->
  (cls1 = [] \/ cls1 = [print_N (blen (payload fs1))]) ->
  (cls2 = [] \/ cls2 = [print_N (blen (payload fs2))]) ->
  call_with_service A rpc POST cts1 cls1 fs1 max = call_with_service A rpc POST cts2 cls2 fs2 max.
Proof.
  intros Hp Hl Hc1 Hc2 Hl1 Hl2.
  rewrite (spelling_irrelevant A rpc POST cts1 cts2 cls1 fs1 max Hc1 Hc2).
  unfold call_with_service, call_with_service_with. destruct (gate POST cts2); try reflexivity.
  rewrite (content_length_irrelevant cls1 fs1 max Hl Hl1).
  assert (Hl' : (blen (payload fs2) <= max)%N) by (rewrite <- Hp; exact Hl).
  rewrite (content_length_irrelevant cls2 fs2 max Hl' Hl2).
  rewrite (same_payload_same_result [] fs1 fs2 max Hp Hl). reflexivity.
Qed.

(* ------------------------------------------------------------------ the repair is conservative *)

Lemma read_frames_old_new_after_sniff : forall fs s rem b,
  is_single s = Some b -> received s <> [] ->
  read_frames on_data_old s rem fs = read_frames on_data s rem fs.
Proof.
  induction fs as [|[d|] fs IH]; intros s rem b Hs Hr; cbn [read_frames]; [reflexivity | | eapply IH; eassumption].
  destruct (rem <? blen d)%N; [reflexivity|].
  unfold on_data, on_data_old. rewrite Hs. destruct (received s) as [|x r] eqn:Er; [congruence|].
  eapply IH; cbn [is_single received]; [reflexivity | discriminate].
Qed.

(* a body whose first frame already contains the first non-whitespace byte (or exhausts the window) is read
   exactly as before the repair *)
Lemma repair_conservative cls d fs max :
  find_nonws http_sniff_window d 0 <> None \/ (http_sniff_window <= length d)%nat ->
  read_body cls (FData d :: fs) max = read_body_old cls (FData d :: fs) max.
Proof.
  intro H. unfold read_body, read_body_old, read_body_with.
  destruct (max <? _)%N; [reflexivity|]. cbn [read_frames].
  destruct (max <? blen d)%N; [reflexivity|].
  unfold on_data, on_data_old. cbn [is_single received sniffed rb_init]. rewrite Nat.sub_0_r.
  pose proof (find_nonws_sniff http_sniff_window d 0) as Hf.
  destruct (find_nonws http_sniff_window d 0) as [[idx c]|].
  - destruct Hf as (k & -> & Hk). cbn [Nat.add app].
    destruct (sniff_suffix_nonempty _ _ _ _ Hk) as (t & Ht).
    destruct (Byte.eqb c http_single_byte).
    + symmetry. eapply read_frames_old_new_after_sniff; cbn [is_single received]; [reflexivity | rewrite Ht; discriminate].
    + destruct (Byte.eqb c http_batch_byte); [|reflexivity].
      symmetry. eapply read_frames_old_new_after_sniff; cbn [is_single received]; [reflexivity | rewrite Ht; discriminate].
  - destruct H as [H|H]; [congruence|].
    destruct (Nat.ltb_spec (0 + length d) http_sniff_window); [lia | reflexivity].
Qed.

(* ------------------------------------------------------------------ the unrepaired function is not chunking-invariant *)

Definition refuted_body : bytes := b#"{""jsonrpc"":""2.0"",""method"":""say_hello"",""id"":1}".

Lemma chunking_refuted_old :
  exists cls fs max,
    (blen (payload fs) <= max)%N /\ read_body_old cls fs max <> read_body_old cls [FData (payload fs)] max.
Proof.
  exists [], [FData []; FData refuted_body], 1000%N. split; [vm_compute; discriminate|].
  vm_compute. discriminate.
Qed.

Lemma chunking_refuted_old_whitespace :
  read_body_old [] [FData (b#" "); FData refuted_body] 1000 = RbMalformed /\
  read_body_old [] [FData (b#" " ++ refuted_body)] 1000 = RbOk refuted_body true /\
  read_body [] [FData (b#" "); FData refuted_body] 1000 = RbOk refuted_body true.
Proof. vm_compute. repeat split; reflexivity. Qed.
