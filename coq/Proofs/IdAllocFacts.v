(* C12 / C03: REAL threads on the client's request-id allocator -- the lemmas behind
   C12_id_ranges_disjoint_under_interleaving, C12_load_then_store_refuted and C12_sequential_allocation_is_an_interleaving.
   They depend on HOW the source touches the shared counter (Gen/IdAllocGen.id_alloc_gen, read from
   core/src/client/mod.rs on every check): with a load-then-store path this file stops building.

   Specification part (used by the statements in Props/C12.v):
     all_atomic a        both id-taking paths of a are RAtomicRmw
     seq_handed c sc     closed form of what an all-atomic allocator hands out along schedule sc from counter c
     ev_reqs s e         the reservations the front-end call behind event e of Model/ClientMgr.v performs in state s
                         (read from the generated front_takes_gen: FCall/FNotify one id, FBatch one range of its length,
                         FSubscribe two single ids; none when the client is dead / the batch is empty / the names clash)
     hist_reqs s es      ... along a whole history
     apply_with s e ids  `ClientMgr.apply` with the ids of the event taken from the list `ids` (ranges [lo,hi)) instead of
                         from `next_id s` arithmetic; events that take no ids are `apply`
     fed_step / fed_run  `ClientMgr.step` / `run` in which every event takes its ids from the FRONT of a supply list
                         (None when the supply runs short); the supply that is left is returned *)
From Coq Require Import List NArith Bool Arith Lia.
From JV Require Import Base.Bytes Base.Dec Model.Wire Model.ClientMgr Model.IdAlloc Gen.IdAllocGen.
Import ListNotations.
Local Open Scope N_scope.
Arguments N.add : simpl never.
Arguments N.sub : simpl never.
Arguments N.pow : simpl never.
Arguments N.modulo : simpl never.
Arguments N.ltb : simpl never.

(* ================================================================== the allocator as a transition system *)
Definition all_atomic (a : id_alloc) : Prop := single_path a = RAtomicRmw /\ batch_path a = RAtomicRmw.

Fixpoint seq_handed (c : N) (sc : sched) : list (thread * (N * N)) :=
  match sc with
  | [] => []
  | (t, SReserve r) :: sc' => (t, (c, c + req_len r)) :: seq_handed (c + req_len r) sc'
  | (_, SFinish) :: sc' => seq_handed c sc'
  end.

Lemma path_atomic a r : all_atomic a -> path_of a r = RAtomicRmw.
Proof. intros [H1 H2]. destruct r; assumption. Qed.

Lemma bump_small a c n : c + n < modulus a -> bump a c n = Some (c + n).
Proof.
  intros H. unfold bump, wrap. destruct (counter_ovf a).
  - rewrite N.mod_small; auto.
  - apply N.ltb_lt in H. rewrite H. reflexivity.
Qed.

Lemma range_small a v r : v + req_len r < modulus a -> range_of a v r = Some (v, v + req_len r).
Proof.
  intros H. destruct r as [|n]; cbn [range_of req_len] in *; [reflexivity|].
  destruct (range_end_ovf a).
  - unfold wrap. rewrite N.mod_small; auto.
  - apply N.ltb_lt in H. rewrite H. reflexivity.
Qed.

Lemma step_reserve_atomic a st t r : all_atomic a -> pend st = [] -> counter st + req_len r < modulus a ->
  alloc_step1 a st (t, SReserve r) =
  mkAst (counter st + req_len r) [] (handed st ++ [(t, (counter st, counter st + req_len r))]) (failed st).
Proof.
  intros A P H. unfold alloc_step1. cbn [fst snd]. rewrite P. cbn [pend_of].
  rewrite (path_atomic a r A), (bump_small _ _ _ H). unfold deliver. rewrite (range_small _ _ _ H), P. reflexivity.
Qed.

Lemma step_finish_idle a st t : pend st = [] -> alloc_step1 a st (t, SFinish) = st.
Proof. intros P. unfold alloc_step1. cbn [fst snd]. rewrite P. reflexivity. Qed.

(* THE invariant: an all-atomic allocator never has a thread between two steps, and what it has handed out is the
   closed form *)
Lemma atomic_run a : all_atomic a -> forall sc st, pend st = [] -> counter st + total sc < modulus a ->
  alloc_run a st sc = mkAst (counter st + total sc) [] (handed st ++ seq_handed (counter st) sc) (failed st).
Proof.
  intros A. induction sc as [|[t x] sc IH]; intros st P H.
  - cbn [alloc_run fold_left total seq_handed]. rewrite N.add_0_r, app_nil_r. destruct st; cbn in *; subst; reflexivity.
  - unfold alloc_run. cbn [fold_left]. fold (alloc_run a (alloc_step1 a st (t, x)) sc). destruct x as [r|].
    + cbn [total] in H. rewrite (step_reserve_atomic a st t r A P) by lia.
      rewrite IH; cbn [pend counter handed failed]; [|reflexivity|lia].
      cbn [total seq_handed]. rewrite <- app_assoc. cbn [app]. f_equal. lia.
    + cbn [total] in H. rewrite (step_finish_idle a st t P). rewrite IH; auto.
Qed.

Lemma seq_handed_bounds : forall sc c t lo hi, In (t, (lo, hi)) (seq_handed c sc) -> c <= lo /\ lo <= hi /\ hi <= c + total sc.
Proof.
  induction sc as [|[t' x] sc IH]; intros c t lo hi H; [destruct H|].
  destruct x as [r|]; cbn [seq_handed total] in *.
  - destruct H as [E | H].
    + inversion E; subst. lia.
    + apply IH in H. lia.
  - apply IH in H. lia.
Qed.

Lemma seq_handed_ordered : forall sc c i j t1 lo1 hi1 t2 lo2 hi2, (i < j)%nat ->
  nth_error (seq_handed c sc) i = Some (t1, (lo1, hi1)) -> nth_error (seq_handed c sc) j = Some (t2, (lo2, hi2)) ->
  hi1 <= lo2.
Proof.
  induction sc as [|[t' x] sc IH]; intros c i j t1 lo1 hi1 t2 lo2 hi2 L H1 H2.
  - destruct i; discriminate.
  - destruct x as [r|]; cbn [seq_handed] in *; [|eapply IH; eauto].
    destruct j as [|j]; [lia|]. cbn [nth_error] in H2. destruct i as [|i].
    + cbn [nth_error] in H1. inversion H1; subst. apply nth_error_In in H2. apply seq_handed_bounds in H2. lia.
    + cbn [nth_error] in H1. eapply (IH _ i j); eauto. lia.
Qed.

Lemma seq_handed_disjoint sc c i j t1 lo1 hi1 t2 lo2 hi2 k : i <> j ->
  nth_error (seq_handed c sc) i = Some (t1, (lo1, hi1)) -> nth_error (seq_handed c sc) j = Some (t2, (lo2, hi2)) ->
  ~ (lo1 <= k < hi1 /\ lo2 <= k < hi2).
Proof.
  intros NE H1 H2 [K1 K2]. destruct (Nat.lt_ge_cases i j) as [L | L].
  - pose proof (seq_handed_ordered sc c i j _ _ _ _ _ _ L H1 H2). lia.
  - assert (L' : (j < i)%nat) by lia. pose proof (seq_handed_ordered sc c j i _ _ _ _ _ _ L' H2 H1). lia.
Qed.

Lemma seq_handed_lens : forall sc c,
  map (fun x : thread * (N * N) => (fst x, snd (snd x) - fst (snd x))) (seq_handed c sc) = reservations sc.
Proof.
  induction sc as [|[t x] sc IH]; intro c; [reflexivity|]. destruct x as [r|]; cbn [seq_handed reservations map fst snd].
  - rewrite IH. f_equal. f_equal. lia.
  - apply IH.
Qed.

Lemma total_on_one_thread sc : total (on_one_thread sc) = total sc.
Proof. unfold on_one_thread. induction sc as [|[t x] sc IH]; [reflexivity|]. destruct x; cbn [map snd total]; rewrite IH; reflexivity. Qed.

Lemma seq_handed_erase : forall sc c, map snd (seq_handed c sc) = map snd (seq_handed c (on_one_thread sc)).
Proof.
  unfold on_one_thread. induction sc as [|[t x] sc IH]; intro c; [reflexivity|].
  destruct x; cbn [map snd seq_handed]; [rewrite IH; reflexivity | apply IH].
Qed.

(* the general statement, for ANY allocator whose two paths are one atomic RMW each *)
Lemma atomic_ranges_disjoint a : all_atomic a -> forall start sc, start + total sc < 2 ^ counter_bits a ->
  let st := alloc_run a (alloc_init start) sc in
  (forall i j t1 lo1 hi1 t2 lo2 hi2 k, i <> j ->
     nth_error (handed st) i = Some (t1, (lo1, hi1)) -> nth_error (handed st) j = Some (t2, (lo2, hi2)) ->
     ~ (lo1 <= k < hi1 /\ lo2 <= k < hi2)) /\
  counter st = start + total sc /\ pend st = [] /\ failed st = [] /\
  map (fun x : thread * (N * N) => (fst x, snd (snd x) - fst (snd x))) (handed st) = reservations sc /\
  (forall t lo hi, In (t, (lo, hi)) (handed st) -> start <= lo /\ lo <= hi /\ hi <= start + total sc) /\
  map snd (handed st) = map snd (handed (alloc_run a (alloc_init start) (on_one_thread sc))).
Proof.
  intros A start sc H. cbv zeta.
  rewrite (atomic_run a A sc (alloc_init start) eq_refl H).
  rewrite (atomic_run a A (on_one_thread sc) (alloc_init start) eq_refl) by (rewrite total_on_one_thread; exact H).
  cbn [alloc_init counter pend handed failed app].
  split; [intros; eapply seq_handed_disjoint; eauto|].
  split; [reflexivity|]. split; [reflexivity|]. split; [reflexivity|].
  split; [apply seq_handed_lens|]. split; [intros; eapply seq_handed_bounds; eauto | apply seq_handed_erase].
Qed.

(* the generated record, COMPUTED: this is where the proofs depend on what the source does now *)
Lemma id_alloc_gen_atomic : all_atomic id_alloc_gen.
Proof. split; reflexivity. Qed.

Lemma id_ranges_disjoint_under_interleaving :
  (single_path id_alloc_gen = RAtomicRmw /\ batch_path id_alloc_gen = RAtomicRmw) /\
  forall (start : N) (sc : list (thread * alloc_step)), start + total sc < 2 ^ counter_bits id_alloc_gen ->
    let st := alloc_run id_alloc_gen (alloc_init start) sc in
    (forall i j t1 lo1 hi1 t2 lo2 hi2 k, i <> j ->
       nth_error (handed st) i = Some (t1, (lo1, hi1)) -> nth_error (handed st) j = Some (t2, (lo2, hi2)) ->
       ~ (lo1 <= k < hi1 /\ lo2 <= k < hi2)) /\
    counter st = start + total sc /\ pend st = [] /\ failed st = [] /\
    map (fun x : thread * (N * N) => (fst x, snd (snd x) - fst (snd x))) (handed st) = reservations sc /\
    (forall t lo hi, In (t, (lo, hi)) (handed st) -> start <= lo /\ lo <= hi /\ hi <= start + total sc) /\
    map snd (handed st) = map snd (handed (alloc_run id_alloc_gen (alloc_init start) (on_one_thread sc))).
Proof. split; [exact id_alloc_gen_atomic | exact (atomic_ranges_disjoint id_alloc_gen id_alloc_gen_atomic)]. Qed.

(* ------------------------------------------------------------------ the two-step allocator *)
(* thread 0 and thread 1 each reserve a batch; both load before either advances *)
Definition race_witness : sched :=
  [(0%nat, SReserve (QBatch 3)); (1%nat, SReserve (QBatch 2)); (0%nat, SFinish); (1%nat, SFinish)].

Lemma load_then_store_refuted :
  exists sc : list (thread * alloc_step),
    (forall x, In x sc -> fst x = 0%nat \/ fst x = 1%nat) /\
    reservations sc = [(0%nat, 3); (1%nat, 2)] /\
    (forall adv, let st := alloc_run (id_alloc_load_then_store adv) (alloc_init 0) sc in
       pend st = [] /\ failed st = [] /\ handed st = [(0%nat, (0, 3)); (1%nat, (0, 2))] /\
       exists k, 0 <= k < 3 /\ 0 <= k < 2) /\
    counter (alloc_run (id_alloc_load_then_store AdvFetchAdd) (alloc_init 0) sc) = 5 /\
    counter (alloc_run (id_alloc_load_then_store AdvStore) (alloc_init 0) sc) = 2 /\
    handed (alloc_run id_alloc_gen (alloc_init 0) sc) = [(0%nat, (0, 3)); (1%nat, (3, 5))] /\
    (* ... and invisible on one thread: the same two reservations one after the other *)
    (forall adv, handed (alloc_run (id_alloc_load_then_store adv) (alloc_init 0)
                   [(0%nat, SReserve (QBatch 3)); (0%nat, SFinish); (0%nat, SReserve (QBatch 2)); (0%nat, SFinish)])
                 = [(0%nat, (0, 3)); (0%nat, (3, 5))]).
Proof.
  exists race_witness. split.
  - intros x H. cbn in H. repeat (destruct H as [<- | H]; [cbn; auto|]). destruct H.
  - split; [reflexivity|]. split.
    + intros adv. destruct adv; vm_compute; (repeat split; try reflexivity); exists 0; vm_compute; repeat split; discriminate.
    + split; [vm_compute; reflexivity|]. split; [vm_compute; reflexivity|]. split; [vm_compute; reflexivity|].
      intros adv; destruct adv; vm_compute; reflexivity.
Qed.

(* ================================================================== the client model takes its ids from this allocator *)
From JV Require Import Model.ClientDispatch Gen.ClientDispatchGen Proofs.ClientMgrInv.

Definition ev_reqs (s : st) (e : ev) : list req :=
  if dead s then [] else
  match e with
  | FCall _ _ _ => reqs_of_takes 1 (fe_request front_takes_gen)
  | FNotify _ _ => reqs_of_takes 1 (fe_notification front_takes_gen)
  | FBatch _ es => match es with [] => [] | _ => reqs_of_takes (N.of_nat (length es)) (fe_batch front_takes_gen) end
  | FSubscribe _ sm um _ => if bytes_eqb sm um then [] else reqs_of_takes 1 (fe_subscribe front_takes_gen)
  | _ => []
  end.

Fixpoint hist_reqs (s : st) (es : list ev) : list req :=
  match es with
  | [] => []
  | e :: es' => ev_reqs s e ++ hist_reqs (fst (fst (step s e))) es'
  end.

(* `apply` with the ids handed in *)
Definition apply_with (s : st) (e : ev) (ids : list (N * N)) : st * list out * option nextres :=
  match e, ids with
  | FCall h me p, [(i, i')] =>
    let raw := ser_request {| rq_id := mk_id s i; rq_method := me; rq_params := p |} in
    (enqueue (upd_next s i') (MRequest (mk_id s i) (Some h) raw), [], None)
  | FNotify me p, [(_, i')] => (enqueue (upd_next s i') (MNotif (ser_notification me p)), [], None)
  | FBatch h es, [(lo, hi)] => (enqueue (upd_next s hi) (MBatch lo hi h (batch_raw s lo es)), [], None)
  | FSubscribe h sm um p, [(i, _); (j, j')] =>
    let raw := ser_request {| rq_id := mk_id s i; rq_method := sm; rq_params := p |} in
    (enqueue (upd_next s j') (MSubscribe (mk_id s i) (mk_id s j) um h raw), [], None)
  | _, _ => apply s e
  end.

Definition fed_step (s : st) (e : ev) (supply : list (N * N))
  : option ((st * list out * option nextres) * list (N * N)) :=
  let k := length (ev_reqs s e) in
  if Nat.leb k (length supply) then
    let '(s1, o1, r) := apply_with s e (firstn k supply) in
    let '(s2, o2) := settle s1 in
    Some ((s2, o1 ++ o2, r), skipn k supply)
  else None.

Fixpoint fed_run (s : st) (es : list ev) (supply : list (N * N))
  : option ((st * list (list out * option nextres)) * list (N * N)) :=
  match es with
  | [] => Some ((s, []), supply)
  | e :: es' =>
    match fed_step s e supply with
    | None => None
    | Some ((s1, o, r), supply1) =>
      match fed_run s1 es' supply1 with
      | None => None
      | Some ((s2, rest), supply2) => Some ((s2, (o, r) :: rest), supply2)
      end
    end
  end.

(* ---------- the event's own arithmetic on next_id is the one-thread schedule ---------- *)
Lemma apply_is_apply_with s e : apply s e = apply_with s e (seq_ranges (next_id s) (ev_reqs s e)).
Proof.
  unfold ev_reqs, apply. destruct (dead s) eqn:D.
  - destruct e; cbn [seq_ranges apply_with]; unfold apply; rewrite D; reflexivity.
  - destruct e; try (cbn [seq_ranges apply_with]; unfold apply; rewrite D; reflexivity).
    + (* FBatch *) destruct entries as [|x entries]; [cbn [seq_ranges apply_with]; unfold apply; rewrite D; reflexivity|].
      reflexivity.
    + (* FSubscribe *) destruct (bytes_eqb sub unsub) eqn:E.
      * cbn [seq_ranges apply_with]. unfold apply. rewrite D, E. reflexivity.
      * cbn [front_takes_gen fe_subscribe reqs_of_takes map seq_ranges req_len apply_with].
        replace (next_id s + 1 + 1) with (next_id s + 2) by lia. reflexivity.
Qed.

(* ---------- nothing but the id-taking arms of `apply` moves next_id ---------- *)
Ltac nx_cases :=
  repeat match goal with
         | |- context [match ?x with _ => _ end] => destruct x eqn:?
         end.

Lemma nx_drop_sink s h : next_id (drop_sink s h) = next_id s.
Proof. exact (sc_next _ _ (drop_sink_same s h)). Qed.
Lemma nx_wire s raw : next_id (fst (wire s raw)) = next_id s.
Proof. exact (sc_next _ _ (wire_same s raw)). Qed.
Lemma nx_enqueue_tagged s msg tag : next_id (enqueue_tagged s msg tag) = next_id s.
Proof. exact (sq_next _ _ (enqueue_tagged_sameq s msg tag)). Qed.
Lemma nx_enqueue s msg : next_id (enqueue s msg) = next_id s.
Proof. apply nx_enqueue_tagged. Qed.
Lemma nx_try_enqueue s msg : next_id (try_enqueue s msg) = next_id s.
Proof. exact (sq_next _ _ (try_enqueue_sameq s msg)). Qed.
Lemma nx_admit_waiting f s : next_id (admit_waiting f s) = next_id s.
Proof. exact (sq_next _ _ (admit_waiting_sameq f s)). Qed.

Lemma nx_do_unsubscribe s sid : next_id (fst (do_unsubscribe s sid)) = next_id s.
Proof.
  unfold do_unsubscribe. destruct (alookup subid_eqb sid (subs (m s))) as [rid|]; [|reflexivity].
  destruct (req_lookup rid (m s)) as [[w|u w um|u ch um|sub]|]; try reflexivity.
  rewrite nx_wire. cbn [upd_unacked next_id]. rewrite nx_drop_sink. reflexivity.
Qed.

Lemma nx_handle_front s msg : next_id (fst (handle_front s msg)) = next_id s.
Proof.
  destruct msg as [lo hi h raw|raw|i w raw|si ui um h raw|me h|me|sid]; cbn [handle_front].
  - destruct (ahas range_eqb (lo, hi) (batches (m s))); [reflexivity|]. rewrite nx_wire. reflexivity.
  - apply nx_wire.
  - destruct (ahas id_eqb i (requests (m s))); [reflexivity|]. rewrite nx_wire. reflexivity.
  - destruct (negb _ && negb _ && negb _); [|reflexivity]. rewrite nx_wire. reflexivity.
  - destruct (ahas bytes_eqb me (nhandlers (m s))); [reflexivity|]. destruct (alive s h); reflexivity.
  - destruct (alookup bytes_eqb me (nhandlers (m s))); [|reflexivity]. cbn [fst]. rewrite nx_drop_sink. reflexivity.
  - apply nx_do_unsubscribe.
Qed.

Lemma nx_finish_unsubs s : next_id (fst (finish_unsubs s)) = next_id s.
Proof.
  unfold finish_unsubs. cbn [fst upd_unsubw next_id].
  destruct (fold_drop_rx_same (filter (unsub_done s) (unsubw s)) s) as (A & _). cbv zeta in A. exact (sc_next _ _ A).
Qed.

Lemma nx_drain f : forall s, next_id (fst (drain f s)) = next_id s.
Proof.
  induction f as [|f IH]; intro s; [reflexivity|]. cbn [drain].
  set (s0 := admit_waiting (length (waiting s)) s).
  assert (E0 : next_id s0 = next_id s) by apply nx_admit_waiting.
  destruct (busy s0 || dead s0 || match dying s0 with Some _ => true | None => false end); [exact E0|].
  destruct (queue s0) as [|msg q]; [exact E0|].
  pose proof (nx_handle_front (upd_queue s0 q (waiting s0)) msg) as E1.
  destruct (handle_front (upd_queue s0 q (waiting s0)) msg) as [s1 o1]. cbn [fst] in E1.
  pose proof (IH s1) as E2. destruct (drain f s1) as [s2 o2]. cbn [fst] in *. rewrite E2, E1. exact E0.
Qed.

Lemma nx_kill s f : next_id (fst (kill s f)) = next_id s.
Proof. reflexivity. Qed.

Lemma nx_try_kill s : next_id (fst (try_kill s)) = next_id s.
Proof. unfold try_kill. destruct (dying s); [|reflexivity]. destruct (busy s || dead s); [reflexivity | apply nx_kill]. Qed.

Lemma nx_settle s : next_id (fst (settle s)) = next_id s.
Proof.
  unfold settle.
  pose proof (nx_try_kill s) as E1. destruct (try_kill s) as [s1 o1]. cbn [fst] in E1.
  pose proof (nx_drain (S (length (queue s1) + length (waiting s1))) s1) as E2. destruct (drain _ s1) as [s2 o2]. cbn [fst] in E2.
  pose proof (nx_try_kill s2) as E3. destruct (try_kill s2) as [s3 o3]. cbn [fst] in E3.
  pose proof (nx_finish_unsubs s3) as E4. destruct (finish_unsubs s3) as [s4 o4]. cbn [fst] in *. congruence.
Qed.

(* the read task *)
Lemma nx_sub_deliver s sid p : next_id (sub_deliver s sid p) = next_id s.
Proof.
  unfold sub_deliver. destruct (alookup subid_eqb sid (subs (m s))) as [rid|]; [|reflexivity].
  destruct (req_lookup rid (m s)) as [[w|u w um|u ch um|sub]|]; try reflexivity.
  destruct (chan_of s ch) as [c|]; [|reflexivity]. destruct (chan_send c p) as [c' r].
  destruct r; try reflexivity; unfold forward; rewrite nx_enqueue; reflexivity.
Qed.

Lemma nx_sub_close s sid : next_id (sub_close s sid) = next_id s.
Proof.
  unfold sub_close. destruct (alookup subid_eqb sid (subs (m s))) as [rid|]; [|reflexivity].
  destruct (req_lookup rid (m s)) as [[w|u w um|u ch um|sub]|]; try reflexivity. rewrite nx_drop_sink. reflexivity.
Qed.

Lemma nx_notif_deliver s me p : next_id (notif_deliver s me p) = next_id s.
Proof.
  unfold notif_deliver. destruct (alookup bytes_eqb me (nhandlers (m s))) as [ch|]; [|reflexivity].
  destruct (chan_of s ch) as [c|]; [|reflexivity]. destruct (chan_send c _) as [c' r].
  destruct r; try reflexivity; rewrite nx_drop_sink; reflexivity.
Qed.

Lemma nx_single_response s r : next_id (rres_st (single_response s r)) = next_id s.
Proof.
  unfold single_response. destruct (req_lookup (rs_id r) (m s)) as [[w|u w um|u ch um|sub]|]; try reflexivity.
  destruct (rs_payload r) as [raw|e]; [|reflexivity].
  destruct (parse_subid raw) as [sid|]; [|reflexivity].
  destruct (ahas subid_eqb sid _); [reflexivity|]. destruct (alive s w); [reflexivity|].
  cbn [rres_st]. unfold forward. rewrite nx_enqueue. reflexivity.
Qed.

Lemma nx_batch_response s rs lo hi : next_id (rres_st (batch_response s rs lo hi)) = next_id s.
Proof. unfold batch_response. destruct (alookup range_eqb (lo, hi) (batches (m s))); reflexivity. Qed.

Lemma nx_run_single_action a s x : next_id (rres_st (run_single_action a s x)) = next_id s.
Proof.
  destruct a, x; cbn [run_single_action rres_st ill_typed]; try reflexivity;
    auto using nx_single_response, nx_sub_deliver, nx_sub_close, nx_notif_deliver.
Qed.

Lemma nx_handle_single_with d s x : next_id (rres_st (handle_single_with d s x)) = next_id s.
Proof.
  unfold handle_single_with. destruct (reader_of x) as [r|].
  - destruct (single_action r (d_single d)); [apply nx_run_single_action | reflexivity].
  - destruct (d_single_no_reader d); reflexivity.
Qed.

Definition nx_loop (s : st) (r : loop_acc + rres) : Prop :=
  match r with
  | inl (s1, _, _, _) => next_id s1 = next_id s
  | inr r => next_id (rres_st r) = next_id s
  end.

Lemma nx_run_elem_action a mark s x acc rng got : nx_loop s (run_elem_action a mark s x acc rng got).
Proof.
  destruct a as [cm|chk|cm| |], x as [r|me sid payload|me sid payload|me params|];
    cbn [run_elem_action nx_loop rres_st ill_typed]; try reflexivity.
  - destruct (id_as_number (rs_id r)); [reflexivity|]. destruct chk; reflexivity.
  - destruct cm.
    + destruct (sub_closes s sid payload); cbn [nx_loop rres_st]; apply nx_sub_deliver.
    + cbn [nx_loop]. apply nx_sub_deliver.
  - apply nx_sub_close.
  - apply nx_notif_deliver.
Qed.

Lemma nx_elem_step d s x acc rng got : nx_loop s (elem_step d s x acc rng got).
Proof.
  unfold elem_step. destruct (reader_of x) as [r|].
  - destruct (elem_action r (d_elem d)) as [[a mark]|]; [apply nx_run_elem_action | reflexivity].
  - destruct (d_elem_no_reader d); reflexivity.
Qed.

Lemma nx_array_run_with d : forall ms s acc rng got, nx_loop s (array_run_with d s ms acc rng got).
Proof.
  induction ms as [|x ms IH]; intros s acc rng got; cbn [array_run_with]; [reflexivity|].
  pose proof (nx_elem_step d s x acc rng got) as E. destruct (elem_step d s x acc rng got) as [[[[s1 acc1] rng1] got1]|r]; [|exact E].
  cbn [nx_loop] in E. pose proof (IH s1 acc1 rng1 got1) as E2.
  destruct (array_run_with d s1 ms acc1 rng1 got1) as [[[[s2 ?] ?] ?]|r]; cbn [nx_loop] in *; congruence.
Qed.

Lemma nx_run_post : forall rules s rs rng got, next_id (rres_st (run_post rules s rs rng got)) = next_id s.
Proof.
  induction rules as [|p rules IH]; intros s rs rng got; cbn [run_post]; [reflexivity|]. destruct p.
  - destruct rng as [[lo hi]|]; [|apply IH]. destruct (hi =? u64_max); [reflexivity | apply nx_batch_response].
  - destruct got; [apply IH | reflexivity].
Qed.

Lemma nx_handle_back_with d s fr : next_id (rres_st (handle_back_with d s fr)) = next_id s.
Proof.
  destruct fr; cbn [handle_back_with]; [apply nx_handle_single_with | | reflexivity].
  pose proof (nx_array_run_with d ms s [] None false) as E.
  destruct (array_run_with d s ms [] None false) as [[[[s1 rs] rng] got]|r]; cbn [nx_loop] in E; [|exact E].
  rewrite nx_run_post. exact E.
Qed.

Lemma nx_poll_next s sh : next_id (fst (poll_next s sh)) = next_id s.
Proof. exact (sc_next _ _ (poll_next_same s sh)). Qed.

Lemma nx_apply s e : next_id (fst (fst (apply s e))) = next_id s + total_reqs (ev_reqs s e).
Proof.
  unfold apply, ev_reqs. destruct (dead s) eqn:D.
  - cbn [total_reqs]. rewrite N.add_0_r. destruct e; try reflexivity.
    + pose proof (nx_poll_next s sh) as E. destruct (poll_next s sh). exact E.
    + destruct (close_msg_of s sh); [|reflexivity]. destruct (chan_of s sh); reflexivity.
    + destruct (close_msg_of s sh); [|reflexivity]. destruct (chan_of s sh); reflexivity.
  - destruct e; cbn [total_reqs]; rewrite ?N.add_0_r.
    + cbn [fst]. rewrite nx_enqueue. cbn. lia.
    + cbn [fst]. rewrite nx_enqueue. cbn. lia.
    + destruct entries as [|x entries]; [cbn [total_reqs fst]; lia|]. cbn [fst]. rewrite nx_enqueue. cbn. lia.
    + destruct (bytes_eqb sub unsub); [cbn [total_reqs fst]; lia|]. cbn [fst]. rewrite nx_enqueue. cbn. lia.
    + cbn [fst]. apply nx_enqueue.
    + pose proof (nx_poll_next s sh) as E. destruct (poll_next s sh). exact E.
    + destruct (close_msg_of s sh); [|reflexivity]. cbn [fst]. rewrite nx_enqueue_tagged. reflexivity.
    + destruct (close_msg_of s sh); [|reflexivity]. destruct (chan_of s sh); [|reflexivity]. cbn [fst]. rewrite nx_try_enqueue. reflexivity.
    + reflexivity.
    + reflexivity.
    + destruct (dying s); [reflexivity|]. pose proof (nx_handle_back_with client_dispatch s (classify_frame raw)) as E.
      unfold handle_back. destruct (handle_back_with client_dispatch s (classify_frame raw)); cbn [rres_st fst] in *; exact E.
    + reflexivity.
    + reflexivity.
Qed.

Lemma nx_step s e : next_id (fst (fst (step s e))) = next_id s + total_reqs (ev_reqs s e).
Proof.
  unfold step. pose proof (nx_apply s e) as E1. destruct (apply s e) as [[s1 o1] r]. cbn [fst] in E1.
  pose proof (nx_settle s1) as E2. destruct (settle s1) as [s2 o2]. cbn [fst] in *. congruence.
Qed.

(* ---------- one thread's schedule hands out consecutive ranges ---------- *)
Lemma seq_ranges_length : forall rs c, length (seq_ranges c rs) = length rs.
Proof. induction rs as [|r rs IH]; intro c; cbn [seq_ranges length]; [reflexivity | rewrite IH; reflexivity]. Qed.

Lemma seq_ranges_app : forall r1 r2 c, seq_ranges c (r1 ++ r2) = seq_ranges c r1 ++ seq_ranges (c + total_reqs r1) r2.
Proof.
  induction r1 as [|r r1 IH]; intros r2 c; cbn [app seq_ranges total_reqs]; [rewrite N.add_0_r; reflexivity|].
  rewrite IH. f_equal. f_equal. f_equal. lia.
Qed.

Lemma total_seq_sched t rs : total (seq_sched t rs) = total_reqs rs.
Proof. unfold seq_sched. induction rs as [|r rs IH]; cbn [map total total_reqs]; [reflexivity | rewrite IH; reflexivity]. Qed.

Lemma seq_handed_seq_sched t : forall rs c, map snd (seq_handed c (seq_sched t rs)) = seq_ranges c rs.
Proof. unfold seq_sched. induction rs as [|r rs IH]; intro c; cbn [map seq_handed seq_ranges snd]; [reflexivity | rewrite IH; reflexivity]. Qed.

Lemma alloc_seq_sched a t c rs : all_atomic a -> c + total_reqs rs < modulus a ->
  map snd (handed (alloc_run a (alloc_init c) (seq_sched t rs))) = seq_ranges c rs /\
  counter (alloc_run a (alloc_init c) (seq_sched t rs)) = c + total_reqs rs.
Proof.
  intros A H. rewrite (atomic_run a A (seq_sched t rs) (alloc_init c) eq_refl) by (rewrite total_seq_sched; exact H).
  cbn [alloc_init counter handed app]. rewrite total_seq_sched. split; [apply seq_handed_seq_sched | reflexivity].
Qed.

(* ---------- ClientMgr's step / run is the run fed by that supply ---------- *)
Lemma fed_step_seq s e rest :
  fed_step s e (seq_ranges (next_id s) (ev_reqs s e) ++ rest) = Some (step s e, rest).
Proof.
  unfold fed_step, step.
  assert (L : length (ev_reqs s e) = length (seq_ranges (next_id s) (ev_reqs s e))) by (symmetry; apply seq_ranges_length).
  cbv zeta. rewrite L. rewrite app_length.
  replace (Nat.leb _ _) with true by (symmetry; apply Nat.leb_le; lia).
  rewrite firstn_app, Nat.sub_diag, firstn_all, skipn_app, Nat.sub_diag, skipn_all. cbn [firstn skipn app]. rewrite app_nil_r.
  rewrite <- apply_is_apply_with. destruct (apply s e) as [[s1 o1] r]. destruct (settle s1) as [s2 o2]. reflexivity.
Qed.

Lemma fed_run_seq : forall es s rest,
  fed_run s es (seq_ranges (next_id s) (hist_reqs s es) ++ rest) = Some (run s es, rest).
Proof.
  induction es as [|e es IH]; intros s rest; [reflexivity|].
  cbn [fed_run hist_reqs]. rewrite seq_ranges_app, <- app_assoc, fed_step_seq.
  rewrite run_cons. pose proof (nx_step s e) as NX.
  destruct (step s e) as [[s1 o] r]. cbn [fst snd] in *. rewrite <- NX, IH. destruct (run s1 es) as [s2 outs]. reflexivity.
Qed.

Lemma nx_run : forall es s, next_id (fst (run s es)) = next_id s + total_reqs (hist_reqs s es).
Proof.
  induction es as [|e es IH]; intro s; cbn [hist_reqs total_reqs]; [cbn; lia|].
  rewrite run_cons. cbn [fst]. rewrite IH, nx_step.
  assert (T : forall r1 r2, total_reqs (r1 ++ r2) = total_reqs r1 + total_reqs r2).
  { induction r1 as [|r r1 IH1]; intro r2; cbn [app total_reqs]; [reflexivity | rewrite IH1; lia]. }
  rewrite T. lia.
Qed.

Lemma sequential_allocation_is_an_interleaving : forall (s : st) (es : list ev),
  let sc := seq_sched 0%nat (hist_reqs s es) in
  next_id s + total sc < 2 ^ counter_bits id_alloc_gen ->
  let a := alloc_run id_alloc_gen (alloc_init (next_id s)) sc in
  fed_run s es (map snd (handed a)) = Some (run s es, []) /\
  next_id (fst (run s es)) = counter a /\
  (forall e, apply s e = apply_with s e (map snd (handed (alloc_run id_alloc_gen (alloc_init (next_id s)) (seq_sched 0%nat (ev_reqs s e)))))
             \/ 2 ^ counter_bits id_alloc_gen <= next_id s + total_reqs (ev_reqs s e)).
Proof.
  intros s es sc H a.
  assert (H' : next_id s + total_reqs (hist_reqs s es) < modulus id_alloc_gen) by (unfold sc in H; rewrite total_seq_sched in H; exact H).
  destruct (alloc_seq_sched id_alloc_gen 0%nat (next_id s) (hist_reqs s es) id_alloc_gen_atomic H') as [E1 E2].
  fold sc in E1, E2. fold a in E1, E2. split; [|split].
  - rewrite E1. rewrite <- (app_nil_r (seq_ranges _ _)). apply fed_run_seq.
  - rewrite E2. apply nx_run.
  - intro e. destruct (N.lt_ge_cases (next_id s + total_reqs (ev_reqs s e)) (2 ^ counter_bits id_alloc_gen)) as [L | L]; [left | right; exact L].
    destruct (alloc_seq_sched id_alloc_gen 0%nat (next_id s) (ev_reqs s e) id_alloc_gen_atomic L) as [E _].
    rewrite E. apply apply_is_apply_with.
Qed.
