(* Facts about the JSON model: round trip through the serialiser (B), image of the strict parser (C),
   assembly of arrays from raw element texts (D).  Group A / C3 live in Proofs/JsonScan.v (re-exported). *)
From JV Require Import Base.Bytes Base.Dec Base.Utf8 Json.Json Json.JsonSer Json.JsonParse Json.JsonWf.
From JV Require Export Proofs.JsonScan.
Local Open Scope N_scope.
Arguments N.ltb : simpl never.
Arguments N.leb : simpl never.
Arguments N.eqb : simpl never.

(* ---------- induction principle and named serialiser loops ---------- *)

Lemma json_ind' (P : json -> Prop) :
  P JNull -> (forall b, P (JBool b)) -> (forall x, P (JNum x)) -> (forall s, P (JStr s)) ->
  (forall l, Forall P l -> P (JArr l)) ->
  (forall m, Forall (fun kv => P (snd kv)) m -> P (JObj m)) ->
  forall v, P v.
Proof.
  intros Hn Hb Hx Hs Ha Ho. fix F 1. intros [| b | x | s | l | m].
  - exact Hn.
  - apply Hb.
  - apply Hx.
  - apply Hs.
  - apply Ha. induction l as [|v l IH]; constructor; [apply F | exact IH].
  - apply Ho. induction m as [|[k v] m IH]; constructor; [apply F | exact IH].
Qed.

Fixpoint ser_elems (l : list json) : bytes :=
  match l with
  | [] => [x5d]
  | [x] => ser x ++ [x5d]
  | x :: l' => ser x ++ x2c :: ser_elems l'
  end.

Fixpoint ser_members (m : list (bytes * json)) : bytes :=
  match m with
  | [] => [x7d]
  | [(k, x)] => ser_str k ++ x3a :: ser x ++ [x7d]
  | (k, x) :: m' => ser_str k ++ x3a :: ser x ++ x2c :: ser_members m'
  end.

Lemma ser_arr l : ser (JArr l) = x5b :: ser_elems l.
Proof.
  reflexivity.
Qed.

Lemma ser_obj m : ser (JObj m) = x7b :: ser_members m.
Proof.
  reflexivity.
Qed.

Lemma ser_elems_one x : ser_elems [x] = ser x ++ [x5d].
Proof. reflexivity. Qed.
Lemma ser_elems_cons x y l : ser_elems (x :: y :: l) = ser x ++ x2c :: ser_elems (y :: l).
Proof. reflexivity. Qed.
Lemma ser_members_one k x : ser_members [(k, x)] = ser_str k ++ x3a :: ser x ++ [x7d].
Proof. reflexivity. Qed.
Lemma ser_members_cons k x kv m : ser_members ((k, x) :: kv :: m) = ser_str k ++ x3a :: ser x ++ x2c :: ser_members (kv :: m).
Proof. destruct kv. reflexivity. Qed.

Lemma ser_str_app k X : ser_str k ++ X = x22 :: escape_body k ++ x22 :: X.
Proof. unfold ser_str. cbn [app]. rewrite <- app_assoc. reflexivity. Qed.

Definition max_depth (l : list json) : nat := fold_right (fun x acc => Nat.max (jdepth x) acc) 0%nat l.
Definition max_depth_m (m : list (bytes * json)) : nat :=
  fold_right (fun kv acc => Nat.max (jdepth (snd kv)) acc) 0%nat m.
Lemma jdepth_arr l : jdepth (JArr l) = S (max_depth l).
Proof. reflexivity. Qed.
Lemma jdepth_obj m : jdepth (JObj m) = S (max_depth_m m).
Proof. reflexivity. Qed.

(* ---------- first byte of a serialised value ---------- *)

Definition vstart (c : byte) : bool :=
  beqb c x6e || beqb c x74 || beqb c x66 || beqb c x22 || is_num_start c || beqb c x5b || beqb c x7b.

Lemma vstart_facts c : vstart c = true ->
  is_json_ws c = false /\ beqb c x5d = false /\ beqb c x7d = false.
Proof. intro H. destruct c; try (repeat split; reflexivity); vm_compute in H; discriminate H. Qed.

Lemma vstart_nws c : vstart c = true -> is_json_ws c = false.
Proof. intro H. apply (vstart_facts c H). Qed.
Lemma vstart_not_rbracket c : vstart c = true -> beqb c x5d = false.
Proof. intro H. apply (vstart_facts c H). Qed.
Lemma vstart_not_rbrace c : vstart c = true -> beqb c x7d = false.
Proof. intro H. apply (vstart_facts c H). Qed.

Lemma num_start_vstart c : is_num_start c = true -> vstart c = true.
Proof. intro H; byte_fact c H. Qed.

Lemma num_eqb_eq a b : num_eqb a b = true -> a = b.
Proof.
  destruct a, b; cbn; intro H; try discriminate.
  - apply N.eqb_eq in H. congruence.
  - apply N.eqb_eq in H. congruence.
  - apply bytes_eqb_eq in H. congruence.
Qed.

Lemma wf_float_inv l : wf_num (NFloat l) = true ->
  exists nl, scan_number l = Some (nl, []) /\ numlex_bytes nl = l /\ classify_num nl = NFloat l.
Proof.
  cbn [wf_num]. intro H. repeat step H. apply andb_true_iff in H as [H1 H2].
  apply bytes_eqb_eq in H1. apply num_eqb_eq in H2. eexists; repeat split; eassumption.
Qed.

Lemma ser_head v : wf v = true -> exists c tl, ser v = c :: tl /\ vstart c = true.
Proof.
  destruct v as [| [|] | [n|n|l] | s | l | m]; intro W; try (do 2 eexists; split; reflexivity).
  - cbn [ser ser_num]. destruct (print_N_shape n) as [E | (c & ds & E & Hc & _)]; rewrite E.
    + do 2 eexists; split; reflexivity.
    + do 2 eexists; split; [reflexivity|]. apply num_start_vstart, is_digit_num_start, nz_is_digit, Hc.
  - cbn [ser ser_num]. apply wf_float_inv in W as (nl & H & _ & _).
    apply scan_number_head in H as (c & s1 & -> & Hc). do 2 eexists; split; [reflexivity|].
    apply num_start_vstart, Hc.
Qed.

Lemma ser_nonempty v : wf v = true -> (1 <= length (ser v))%nat.
Proof. intro W. destruct (ser_head v W) as (c & tl & -> & _). cbn. lia. Qed.

Lemma ser_elems_head x l : wf x = true -> exists c tl, ser_elems (x :: l) = c :: tl /\ vstart c = true.
Proof.
  intro W. destruct (ser_head x W) as (c & tl & E & Hc).
  destruct l as [|y l]; [rewrite ser_elems_one | rewrite ser_elems_cons]; rewrite E;
    do 2 eexists; (split; [reflexivity | exact Hc]).
Qed.

(* ---------- one-step lemmas for the strict parser ---------- *)

Lemma parse_value_num_start f d c s1 : is_num_start c = true ->
  parse_value (S f) d (c :: s1) =
    match scan_number (c :: s1) with Some (l, r) => Some (JNum (classify_num l), r) | None => None end.
Proof. intro H. destruct c; try reflexivity; vm_compute in H; discriminate H. Qed.

Lemma parse_value_number f d s l r :
  scan_number s = Some (l, r) -> parse_value (S f) d s = Some (JNum (classify_num l), r).
Proof.
  intro H. destruct (scan_number_head _ _ H) as (c & s1 & -> & Hc).
  rewrite (parse_value_num_start f d c s1 Hc), H. reflexivity.
Qed.

Lemma parse_value_str f d X :
  parse_value (S f) d (x22 :: X) =
    match scan_str_valid X with Some (t, r) => Some (JStr t, r) | None => None end.
Proof. reflexivity. Qed.

Lemma scan_str_valid_escape k X : utf8_valid k = true -> scan_str_valid (escape_body k ++ x22 :: X) = Some (k, X).
Proof. intro H. unfold scan_str_valid. rewrite scan_str_escape, H. reflexivity. Qed.

Lemma parse_value_arr f d s1 c2 r vs r' :
  skip_ws s1 = c2 :: r -> beqb c2 x5d = false -> parse_elems f (S d) s1 = Some (vs, r') ->
  parse_value (S f) (S (S d)) (x5b :: s1) = Some (JArr vs, r').
Proof.
  intros H1 H2 H3. rewrite parse_value_S, (skip_ws_cons_nws x5b) by reflexivity.
  cbv beta iota. rewrite H1, H2, H3. reflexivity.
Qed.

Lemma parse_value_obj f d s1 c2 r ms r' :
  skip_ws s1 = c2 :: r -> beqb c2 x7d = false -> parse_members f (S d) s1 = Some (ms, r') ->
  parse_value (S f) (S (S d)) (x7b :: s1) = Some (JObj ms, r').
Proof.
  intros H1 H2 H3. rewrite parse_value_S, (skip_ws_cons_nws x7b) by reflexivity.
  cbv beta iota. rewrite H1, H2, H3. reflexivity.
Qed.

Lemma parse_elems_last f d s v rest :
  parse_value f d s = Some (v, x5d :: rest) -> parse_elems (S f) d s = Some ([v], rest).
Proof. intro H. rewrite parse_elems_S, H. reflexivity. Qed.

Lemma parse_elems_more f d s v r1 vs r2 :
  parse_value f d s = Some (v, x2c :: r1) -> parse_elems f d r1 = Some (vs, r2) ->
  parse_elems (S f) d s = Some (v :: vs, r2).
Proof.
  intros H1 H2. rewrite parse_elems_S, H1, (skip_ws_cons_nws x2c) by reflexivity.
  cbv beta iota. rewrite (beqb_refl x2c), H2. reflexivity.
Qed.

Lemma parse_members_last f d k s1 v rest : utf8_valid k = true ->
  parse_value f d s1 = Some (v, x7d :: rest) ->
  parse_members (S f) d (ser_str k ++ x3a :: s1) = Some ([(k, v)], rest).
Proof.
  intros U H. rewrite parse_members_S, ser_str_app, (skip_ws_cons_nws x22) by reflexivity.
  cbv beta iota. rewrite (beqb_refl x22), (scan_str_valid_escape k _ U).
  rewrite (skip_ws_cons_nws x3a) by reflexivity. cbv beta iota.
  rewrite (beqb_refl x3a), H. reflexivity.
Qed.

Lemma parse_members_more f d k s1 v r1 ms r2 : utf8_valid k = true ->
  parse_value f d s1 = Some (v, x2c :: r1) -> parse_members f d r1 = Some (ms, r2) ->
  parse_members (S f) d (ser_str k ++ x3a :: s1) = Some ((k, v) :: ms, r2).
Proof.
  intros U H1 H2. rewrite parse_members_S, ser_str_app, (skip_ws_cons_nws x22) by reflexivity.
  cbv beta iota. rewrite (beqb_refl x22), (scan_str_valid_escape k _ U).
  rewrite (skip_ws_cons_nws x3a) by reflexivity. cbv beta iota.
  rewrite (beqb_refl x3a), H1, (skip_ws_cons_nws x2c) by reflexivity.
  cbv beta iota. rewrite (beqb_refl x2c), H2. reflexivity.
Qed.

Lemma scan_number_neg s l r : scan_number s = Some (l, r) -> nl_neg l = false ->
  scan_number (x2d :: s) =
    Some ({| nl_neg := true; nl_int := nl_int l; nl_frac := nl_frac l; nl_exp := nl_exp l |}, r).
Proof.
  unfold scan_number. rewrite (beqb_refl x2d). destruct s as [|c t].
  - cbn. intro H. discriminate H.
  - destruct (beqb c x2d).
    + intros H Hn. repeat step H. inv_some H. cbn in Hn. discriminate Hn.
    + intros H Hn. repeat step H. inv_some H. reflexivity.
Qed.

Lemma ser_members_head k x m : exists tl, ser_members ((k, x) :: m) = x22 :: tl.
Proof.
  destruct m as [|y m]; [rewrite ser_members_one | rewrite ser_members_cons];
    rewrite ser_str_app; eexists; reflexivity.
Qed.

(* ---------- B1: parse (ser v ++ rest) = v ---------- *)

Definition parse_ok (v : json) : Prop :=
  forall rest f d, wf v = true -> ok_follow rest = true ->
    (length (ser v) <= f)%nat -> (jdepth v < d)%nat ->
    parse_value f d (ser v ++ rest) = Some (v, rest).

Lemma parse_elems_ser l : Forall parse_ok l -> l <> [] ->
  forall rest f d, forallb wf l = true -> (length (ser_elems l) <= f)%nat -> (max_depth l < d)%nat ->
    parse_elems f d (ser_elems l ++ rest) = Some (l, rest).
Proof.
  induction 1 as [|x l Hx Hl IH]; [congruence|]. intros _ rest f d W Hf Hd.
  cbn [forallb] in W. apply andb_true_iff in W as [Wx Wl].
  cbn [max_depth fold_right] in Hd. fold (max_depth l) in Hd.
  destruct f as [|f]; [destruct l as [|y l]; [rewrite ser_elems_one in Hf | rewrite ser_elems_cons in Hf]; len_solve|].
  destruct l as [|y l].
  - rewrite ser_elems_one in Hf |- *. rewrite <- app_assoc. cbn [app].
    apply parse_elems_last. apply Hx; [exact Wx | reflexivity | len_solve | lia].
  - rewrite ser_elems_cons in Hf |- *. rewrite <- app_assoc. cbn [app].
    eapply parse_elems_more.
    + apply Hx; [exact Wx | reflexivity | len_solve | lia].
    + apply IH; [discriminate | exact Wl | len_solve | lia].
Qed.

Lemma parse_members_ser m : Forall (fun kv => parse_ok (snd kv)) m -> m <> [] ->
  forall rest f d, forallb (fun kv => utf8_valid (fst kv) && wf (snd kv)) m = true ->
    (length (ser_members m) <= f)%nat -> (max_depth_m m < d)%nat ->
    parse_members f d (ser_members m ++ rest) = Some (m, rest).
Proof.
  induction 1 as [|[k x] m Hx Hm IH]; [congruence|]. intros _ rest f d W Hf Hd.
  cbn [forallb fst snd] in W. apply andb_true_iff in W as [Wx Wm]. apply andb_true_iff in Wx as [Uk Wx].
  cbn [max_depth_m fold_right snd] in Hd. fold (max_depth_m m) in Hd. cbn [snd] in Hx.
  destruct f as [|f]; [destruct m as [|y m]; [rewrite ser_members_one in Hf | rewrite ser_members_cons in Hf]; len_solve|].
  destruct m as [|y m].
  - rewrite ser_members_one in Hf |- *. rewrite <- app_assoc. cbn [app]. rewrite <- app_assoc. cbn [app].
    apply parse_members_last; [exact Uk|]. apply Hx; [exact Wx | reflexivity | len_solve | lia].
  - rewrite ser_members_cons in Hf |- *. rewrite <- app_assoc. cbn [app]. rewrite <- app_assoc. cbn [app].
    eapply parse_members_more; [exact Uk | |].
    + apply Hx; [exact Wx | reflexivity | len_solve | lia].
    + apply IH; [discriminate | exact Wm | len_solve | lia].
Qed.

Lemma parse_ser_gen v : parse_ok v.
Proof.
  induction v as [| b | x | s | l IHl | m IHm] using json_ind'; intros rest f d W Hr Hf Hd.
  - destruct f as [|f]; [cbn in Hf; lia | reflexivity].
  - destruct f as [|f]; [destruct b; cbn in Hf; lia | destruct b; reflexivity].
  - assert (L := ser_nonempty _ W). destruct f as [|f]; [lia|]. cbn [ser wf] in *.
    destruct x as [n|n|lx]; cbn [ser_num wf_num] in *.
    + rewrite (parse_value_number f d _ _ _ (scan_number_print_N n rest Hr)).
      unfold classify_num. cbn [nl_neg nl_int nl_frac nl_exp]. rewrite digits_val_print_N, W. reflexivity.
    + cbn [app]. rewrite (parse_value_number f d _ _ _ (scan_number_neg _ _ _ (scan_number_print_N n rest Hr) eq_refl)).
      unfold classify_num. cbn [nl_neg nl_int nl_frac nl_exp]. rewrite digits_val_print_N, W. reflexivity.
    + apply wf_float_inv in W as (nl & Hs & Hb & Hc).
      rewrite (parse_value_number f d _ _ _ (scan_number_extend _ _ _ rest Hs (or_intror Hr))), Hc. reflexivity.
  - assert (L := ser_nonempty _ W). destruct f as [|f]; [lia|]. cbn [ser wf] in *.
    rewrite ser_str_app, parse_value_str, (scan_str_valid_escape s rest W). reflexivity.
  - rewrite jdepth_arr in Hd. rewrite ser_arr in Hf |- *. cbn [wf] in W.
    destruct f as [|f]; [cbn in Hf; lia|]. destruct d as [|[|d]]; [lia | lia |].
    destruct l as [|x l]; [reflexivity|].
    assert (Wx : wf x = true) by (cbn in W; apply andb_true_iff in W; tauto).
    destruct (ser_elems_head x l Wx) as (c & tl & E & Hc). cbn [app].
    eapply parse_value_arr.
    + rewrite E. cbn [app]. apply skip_ws_cons_nws, vstart_nws, Hc.
    + apply vstart_not_rbracket, Hc.
    + apply parse_elems_ser; [exact IHl | discriminate | exact W | cbn [length] in Hf; lia | lia].
  - rewrite jdepth_obj in Hd. rewrite ser_obj in Hf |- *. cbn [wf] in W.
    destruct f as [|f]; [cbn in Hf; lia|]. destruct d as [|[|d]]; [lia | lia |].
    destruct m as [|[k x] m]; [reflexivity|]. cbn [app].
    destruct (ser_members_head k x m) as [tl E].
    eapply parse_value_obj.
    + rewrite E. cbn [app]. apply skip_ws_cons_nws. reflexivity.
    + reflexivity.
    + apply parse_members_ser; [exact IHm | discriminate | exact W | cbn [length] in Hf; lia | lia].
Qed.

Theorem parse_ser v rest : wf v = true -> (jdepth v < depth_limit)%nat -> ok_follow rest = true ->
  forall f d, (length (ser v) < f)%nat -> (jdepth v < d)%nat ->
    parse_value f d (ser v ++ rest) = Some (v, rest).
Proof. intros W _ Hr f d Hf Hd. apply parse_ser_gen; [exact W | exact Hr | lia | exact Hd]. Qed.

Theorem parse_text_ser v : wf v = true -> (jdepth v < depth_limit)%nat -> parse_text (ser v) = Some v.
Proof.
  intros W D. unfold parse_text.
  pose proof (parse_ser_gen v [] (S (length (ser v))) depth_limit W eq_refl) as H.
  rewrite app_nil_r in H. rewrite H by (lia || exact D). reflexivity.
Qed.

(* ---------- B3: the lenient scanner on serialised values ---------- *)

Lemma skip_ser_le v rest : wf v = true -> ok_follow rest = true ->
  forall f, (length (ser v) <= f)%nat -> skip_value f (ser v ++ rest) = Some (ser v, rest).
Proof.
  intros W Hr f Hf.
  pose proof (parse_ser_gen v rest f (S (jdepth v)) W Hr Hf (Nat.lt_succ_diag_r _)) as H.
  apply strict_is_lenient in H as [t H].
  pose proof (skip_value_split _ _ _ _ H) as E. apply app_inv_tail in E. subst t. exact H.
Qed.

Theorem skip_ser v rest : wf v = true -> ok_follow rest = true ->
  forall f, (length (ser v) < f)%nat -> skip_value f (ser v ++ rest) = Some (ser v, rest).
Proof. intros W Hr f Hf. apply skip_ser_le; [exact W | exact Hr | lia]. Qed.

(* ---------- B4: serialised values are UTF-8 ---------- *)

Lemma ser_num_utf8 x : wf_num x = true -> utf8_valid (ser_num x) = true.
Proof.
  destruct x as [n|n|l]; intro W; cbn [ser_num].
  - apply utf8_valid_ascii, digits_ascii, print_N_digits.
  - rewrite utf8_valid_ascii_cons by reflexivity. apply utf8_valid_ascii, digits_ascii, print_N_digits.
  - apply wf_float_inv in W as (nl & Hs & Hb & _). apply scan_number_inv in Hs as (_ & _ & A & _).
    rewrite Hb in A. apply utf8_valid_ascii, A.
Qed.

Lemma ser_elems_utf8 l : Forall (fun x => wf x = true -> utf8_valid (ser x) = true) l ->
  forallb wf l = true -> utf8_valid (ser_elems l) = true.
Proof.
  induction 1 as [|x l Hx Hl IH]; intro W; [reflexivity|].
  cbn [forallb] in W. apply andb_true_iff in W as [Wx Wl].
  destruct l as [|y l].
  - rewrite ser_elems_one. apply utf8_valid_app; [apply Hx, Wx | reflexivity].
  - rewrite ser_elems_cons. apply utf8_valid_app; [apply Hx, Wx|].
    rewrite utf8_valid_ascii_cons by reflexivity. apply IH, Wl.
Qed.

Lemma ser_members_utf8 m : Forall (fun kv => wf (snd kv) = true -> utf8_valid (ser (snd kv)) = true) m ->
  forallb (fun kv => utf8_valid (fst kv) && wf (snd kv)) m = true -> utf8_valid (ser_members m) = true.
Proof.
  induction 1 as [|[k x] m Hx Hm IH]; intro W; [reflexivity|].
  cbn [forallb fst snd] in W. apply andb_true_iff in W as [Wx Wm]. apply andb_true_iff in Wx as [Uk Wx].
  cbn [snd] in Hx.
  destruct m as [|y m].
  - rewrite ser_members_one. apply utf8_valid_app; [apply ser_str_utf8, Uk|].
    rewrite utf8_valid_ascii_cons by reflexivity. apply utf8_valid_app; [apply Hx, Wx | reflexivity].
  - rewrite ser_members_cons. apply utf8_valid_app; [apply ser_str_utf8, Uk|].
    rewrite utf8_valid_ascii_cons by reflexivity. apply utf8_valid_app; [apply Hx, Wx|].
    rewrite utf8_valid_ascii_cons by reflexivity. apply IH, Wm.
Qed.

Theorem ser_utf8 v : wf v = true -> utf8_valid (ser v) = true.
Proof.
  induction v as [| b | x | s | l IHl | m IHm] using json_ind'; intro W.
  - reflexivity.
  - destruct b; reflexivity.
  - apply ser_num_utf8, W.
  - apply ser_str_utf8, W.
  - rewrite ser_arr, utf8_valid_ascii_cons by reflexivity. apply ser_elems_utf8; [exact IHl | exact W].
  - rewrite ser_obj, utf8_valid_ascii_cons by reflexivity. apply ser_members_utf8; [exact IHm | exact W].
Qed.

Theorem raw_value_ser v rest : wf v = true -> ok_follow rest = true ->
  raw_value (ser v ++ rest) = Some (ser v, rest).
Proof.
  intros W Hr. unfold raw_value.
  assert (E : skip_ws (ser v ++ rest) = ser v ++ rest).
  { destruct (ser_head v W) as (c & tl & E & Hc). rewrite E. cbn [app].
    apply skip_ws_cons_nws, vstart_nws, Hc. }
  rewrite E. rewrite (skip_ser v rest W Hr) by (rewrite app_length; lia).
  rewrite (ser_utf8 v W). reflexivity.
Qed.

(* ---------- C1: the image of the strict parser ---------- *)

Lemma classify_wf s l r : scan_number s = Some (l, r) -> wf_num (classify_num l) = true.
Proof.
  intro H.
  assert (F : classify_num l = NFloat (numlex_bytes l) -> wf_num (classify_num l) = true).
  { intro Ec. rewrite Ec. cbn [wf_num]. rewrite (scan_number_trunc _ _ _ H), bytes_eqb_refl, Ec.
    cbn. apply bytes_eqb_refl. }
  revert F. unfold classify_num.
  destruct (nl_frac l); [destruct (nl_exp l)|]; try (intro F; apply F; reflexivity).
  destruct (nl_neg l).
  - destruct ((0 <? digits_val (nl_int l)) && (digits_val (nl_int l) <=? i64_min_abs)) eqn:E; intro F;
      [cbn [wf_num]; exact E | apply F; reflexivity].
  - destruct (digits_val (nl_int l) <=? u64_max) eqn:E; intro F;
      [cbn [wf_num]; exact E | apply F; reflexivity].
Qed.

Lemma parse_wf_all f :
  (forall d s v r, parse_value f d s = Some (v, r) -> wf v = true /\ (jdepth v <= pred d)%nat) /\
  (forall d s vs r, parse_elems f d s = Some (vs, r) -> forallb wf vs = true /\ (max_depth vs <= pred d)%nat) /\
  (forall d s ms r, parse_members f d s = Some (ms, r) ->
      forallb (fun kv => utf8_valid (fst kv) && wf (snd kv)) ms = true /\ (max_depth_m ms <= pred d)%nat).
Proof.
  induction f as [|f (IHv & IHe & IHm)]; [repeat split; intros; discriminate|].
  repeat apply conj; intros d s v r H.
  - rewrite parse_value_S in H. repeat step H; inv_some H.
    all: try (split; [reflexivity | cbn; lia]).
    all: try match goal with E : scan_str_valid _ = Some _ |- _ =>
           apply scan_str_valid_inv in E as [_ U]; split; [exact U | cbn; lia] end.
    all: try match goal with E : scan_number _ = Some _ |- _ =>
           split; [apply (classify_wf _ _ _ E) | cbn; lia] end.
    all: try match goal with E : parse_elems _ _ _ = Some _ |- _ =>
           apply IHe in E as [W D]; split; [exact W | rewrite jdepth_arr; cbn [pred] in *; lia] end.
    all: try match goal with E : parse_members _ _ _ = Some _ |- _ =>
           apply IHm in E as [W D]; split; [exact W | rewrite jdepth_obj; cbn [pred] in *; lia] end.
  - rewrite parse_elems_S in H. repeat step H; inv_some H.
    all: match goal with E : parse_value _ _ _ = Some _ |- _ => apply IHv in E as [Wv Dv] end.
    all: try match goal with E : parse_elems _ _ _ = Some _ |- _ => apply IHe in E as [We De] end.
    all: cbn [forallb max_depth fold_right]; fold max_depth; rewrite Wv; split; [try assumption; reflexivity | try fold (max_depth l); lia].
  - rewrite parse_members_S in H. repeat step H; inv_some H.
    all: match goal with E : parse_value _ _ _ = Some _ |- _ => apply IHv in E as [Wv Dv] end.
    all: match goal with E : scan_str_valid _ = Some _ |- _ => apply scan_str_valid_inv in E as [_ U] end.
    all: try match goal with E : parse_members _ _ _ = Some _ |- _ => apply IHm in E as [We De] end.
    all: cbn [forallb max_depth_m fold_right fst snd]; rewrite Wv, U; split; [try assumption; reflexivity | try fold (max_depth_m l); lia].
Qed.

(* NOTE: for d = 0 the literal statement `jdepth v < d` is false (scalars parse at any depth), hence 0 < d. *)
Theorem parse_value_wf f d s v r : (0 < d)%nat -> parse_value f d s = Some (v, r) ->
  wf v = true /\ (jdepth v < d)%nat.
Proof. intros Hd H. apply (proj1 (parse_wf_all f)) in H as [W D]. split; [exact W | lia]. Qed.

Lemma parse_value_wf' f d s v r : parse_value f d s = Some (v, r) -> wf v = true /\ (jdepth v <= pred d)%nat.
Proof. apply parse_wf_all. Qed.

Theorem parse_text_idem s v : parse_text s = Some v -> parse_text (ser v) = Some v.
Proof.
  unfold parse_text at 1. intro H. repeat step H. inv_some H.
  apply parse_value_wf in E as [W D]; [|unfold depth_limit; lia].
  apply parse_text_ser; assumption.
Qed.

(* ---------- D: arrays assembled from raw element texts ---------- *)

(* t is a complete raw value text: followed by anything that cannot continue a number,
   the lenient scanner consumes exactly t *)
Definition raw_ok (t : bytes) : Prop :=
  forall rest, ok_follow rest = true ->
    skip_value (S (length (t ++ rest))) (t ++ rest) = Some (t, rest).

(* iterate "skip one value, expect , or ]" after the opening bracket;
   every span has its leading whitespace trimmed (as Vec<&RawValue> sees the elements) *)
Fixpoint split_elems_from (fuel : nat) (s : bytes) : option (list bytes * bytes) :=
  match fuel with
  | O => None
  | S f =>
    let s' := skip_ws s in
    match skip_value (S (length s')) s' with
    | Some (t, r) =>
      match skip_ws r with
      | c :: r1 =>
        if beqb c x2c then
          match split_elems_from f r1 with Some (ts, r2) => Some (t :: ts, r2) | None => None end
        else if beqb c x5d then Some ([t], r1)
        else None
      | [] => None
      end
    | None => None
    end
  end.

(* whole text  ws* [ elems ] ws*  ->  the element spans;  fuel = number of elements is enough *)
Definition split_elems (fuel : nat) (s : bytes) : option (list bytes) :=
  match skip_ws s with
  | c :: s1 =>
    if beqb c x5b then
      match skip_ws s1 with
      | c2 :: r =>
        if beqb c2 x5d then match skip_ws r with [] => Some [] | _ :: _ => None end
        else match split_elems_from fuel s1 with
             | Some (ts, r') => match skip_ws r' with [] => Some ts | _ :: _ => None end
             | None => None
             end
      | [] => None
      end
    else None
  | [] => None
  end.

Lemma split_elems_from_S f s : split_elems_from (S f) s =
    let s' := skip_ws s in
    match skip_value (S (length s')) s' with
    | Some (t, r) =>
      match skip_ws r with
      | c :: r1 =>
        if beqb c x2c then
          match split_elems_from f r1 with Some (ts, r2) => Some (t :: ts, r2) | None => None end
        else if beqb c x5d then Some ([t], r1)
        else None
      | [] => None
      end
    | None => None
    end.
Proof. reflexivity. Qed.

(* one-step lemmas for the scanner *)
Lemma skip_elems_last f s t rest :
  skip_value f s = Some (t, x5d :: rest) -> skip_elems (S f) s = Some (t ++ [x5d], rest).
Proof. intro H. rewrite skip_elems_S, H. reflexivity. Qed.

Lemma skip_elems_more f s t r1 t2 r2 :
  skip_value f s = Some (t, x2c :: r1) -> skip_elems f r1 = Some (t2, r2) ->
  skip_elems (S f) s = Some (t ++ x2c :: t2, r2).
Proof.
  intros H1 H2. rewrite skip_elems_S, H1, (skip_ws_cons_nws x2c) by reflexivity.
  cbv beta iota. rewrite (beqb_refl x2c), H2. reflexivity.
Qed.

Lemma skip_value_arr f s1 c2 r t r' :
  skip_ws s1 = c2 :: r -> beqb c2 x5d = false -> skip_elems f s1 = Some (t, r') ->
  skip_value (S f) (x5b :: s1) = Some (x5b :: t, r').
Proof.
  intros H1 H2 H3. rewrite skip_value_S. cbv zeta. rewrite (skip_ws_cons_nws x5b) by reflexivity.
  cbv beta iota. rewrite H1, H2, H3. reflexivity.
Qed.

Lemma skip_value_head f s t r : skip_value f s = Some (t, r) ->
  exists c s1, skip_ws s = c :: s1 /\ beqb c x5d = false /\ beqb c x2c = false.
Proof.
  destruct f as [|f]; [discriminate|]. rewrite skip_value_S. cbv zeta.
  destruct (skip_ws s) as [|c s1]; [discriminate|]. intro H. exists c, s1. split; [reflexivity|].
  split.
  - destruct (beqb c x5d) eqn:E; [|reflexivity]. apply beqb_true in E. subst c. cbn in H. discriminate H.
  - destruct (beqb c x2c) eqn:E; [|reflexivity]. apply beqb_true in E. subst c. cbn in H. discriminate H.
Qed.

Lemma ws_prefix_skip_ws s : ws_prefix (skip_ws s) = [].
Proof. apply take_while_drop_while. Qed.

Lemma ws_prefix_all s : forallb is_json_ws (ws_prefix s) = true.
Proof. apply take_while_all. Qed.

(* leading whitespace is transparent for the scanner *)
Lemma skip_value_ws f s :
  skip_value f s =
    match skip_value f (skip_ws s) with Some (t, r) => Some (ws_prefix s ++ t, r) | None => None end.
Proof.
  destruct f as [|f]; [reflexivity|]. rewrite !skip_value_S. cbv zeta.
  rewrite skip_ws_idem, ws_prefix_skip_ws. destruct (skip_ws s) as [|c s1]; [reflexivity|].
  repeat match goal with
  | |- context [if ?b then _ else _] => destruct b
  | |- context [match ?x with _ => _ end] => destruct x
  end; reflexivity.
Qed.

Lemma raw_ok_skip t rest f : raw_ok t -> ok_follow rest = true -> (length t <= f)%nat ->
  skip_value f (t ++ rest) = Some (t, rest).
Proof. intros R Hr Hf. apply (skip_value_fuel_len _ _ _ _ (R rest Hr)). exact Hf. Qed.

Lemma raw_ok_nonempty t : raw_ok t -> (1 <= length t)%nat.
Proof. intro R. apply (skip_value_nonempty _ _ _ _ (R [] eq_refl)). Qed.

Lemma raw_ok_head t X : raw_ok t -> ok_follow X = true ->
  exists c s1, skip_ws (t ++ X) = c :: s1 /\ beqb c x5d = false /\ beqb c x2c = false.
Proof. intros R HX. apply (skip_value_head _ _ _ _ (R X HX)). Qed.

(* trimming the leading whitespace of a raw text *)
Lemma raw_ok_trim t X : raw_ok t -> ok_follow X = true ->
  skip_ws (t ++ X) = skip_ws t ++ X /\
  forall f, (length (skip_ws t) <= f)%nat -> skip_value f (skip_ws t ++ X) = Some (skip_ws t, X).
Proof.
  intros R HX. pose proof (R X HX) as H. rewrite skip_value_ws in H.
  destruct (skip_value (S (length (t ++ X))) (skip_ws (t ++ X))) as [[t1 r]|] eqn:E; [|discriminate].
  injection H as Ht Hr. subst r.
  pose proof (skip_value_split _ _ _ _ E) as Sp.
  pose proof (skip_value_nonempty _ _ _ _ E) as Ne.
  destruct t1 as [|c tl]; [cbn in Ne; lia|].
  assert (Hc : is_json_ws c = false) by (apply (skip_ws_hd (t ++ X) c (tl ++ X)); exact Sp).
  assert (Et : skip_ws t = c :: tl).
  { rewrite <- Ht. unfold skip_ws. apply drop_while_app_stop; [apply ws_prefix_all | cbn; rewrite Hc; reflexivity]. }
  rewrite Et. split; [exact Sp|].
  intros f Hf. rewrite <- Sp. apply (skip_value_fuel_len _ _ _ _ E). exact Hf.
Qed.

Lemma join_cons_app sep t ts :
  exists Y, join sep (t :: ts) = t ++ Y /\ (Y = [] \/ exists Y', Y = sep ++ Y').
Proof.
  destruct ts as [|t2 ts].
  - exists []. cbn. rewrite app_nil_r. split; [reflexivity | left; reflexivity].
  - eexists. split; [reflexivity | right; eexists; reflexivity].
Qed.

Lemma skip_elems_join ts : ts <> [] -> Forall raw_ok ts ->
  forall rest f, (length (join [x2c] ts) + 1 <= f)%nat ->
    skip_elems f (join [x2c] ts ++ x5d :: rest) = Some (join [x2c] ts ++ [x5d], rest).
Proof.
  intros Hne HF. induction HF as [|t ts Rt Rts IH]; [congruence|]. intros rest f Hf.
  destruct f as [|f]; [lia|].
  destruct ts as [|t2 ts].
  - cbn [join] in *. apply skip_elems_last. apply raw_ok_skip; [exact Rt | reflexivity | lia].
  - rewrite join_cons2 in Hf |- *. rewrite <- !app_assoc. cbn [app].
    replace (t ++ x2c :: join [x2c] (t2 :: ts) ++ [x5d]) with (t ++ x2c :: (join [x2c] (t2 :: ts) ++ [x5d])) by reflexivity.
    eapply skip_elems_more.
    + apply raw_ok_skip; [exact Rt | reflexivity | len_solve].
    + apply IH; [discriminate | len_solve].
Qed.

Lemma split_from_join ts : ts <> [] -> Forall raw_ok ts ->
  forall rest f, (length ts <= f)%nat ->
    split_elems_from f (join [x2c] ts ++ x5d :: rest) = Some (map skip_ws ts, rest).
Proof.
  intros Hne HF. induction HF as [|t ts Rt Rts IH]; [congruence|]. intros rest f Hf.
  destruct f as [|f]; [cbn in Hf; lia|]. rewrite split_elems_from_S. cbv zeta.
  destruct ts as [|t2 ts].
  - cbn [join map].
    destruct (raw_ok_trim t (x5d :: rest) Rt eq_refl) as [E1 E2].
    rewrite E1, E2 by (rewrite app_length; lia). reflexivity.
  - rewrite join_cons2. rewrite <- !app_assoc. cbn [app].
    destruct (raw_ok_trim t (x2c :: join [x2c] (t2 :: ts) ++ x5d :: rest) Rt eq_refl) as [E1 E2].
    rewrite E1, E2 by (rewrite app_length; lia).
    rewrite (skip_ws_cons_nws x2c) by reflexivity. cbv beta iota. rewrite (beqb_refl x2c).
    rewrite IH by (discriminate || (cbn [length] in Hf |- *; lia)). reflexivity.
Qed.

Theorem skip_array_join ts : ts <> [] -> Forall raw_ok ts ->
  let s := x5b :: join [x2c] ts ++ [x5d] in
  (forall rest f, (length s <= f)%nat -> skip_value f (s ++ rest) = Some (s, rest)) /\
  (forall f, (length ts <= f)%nat -> split_elems f s = Some (map skip_ws ts)).
Proof.
  intros Hne HF s. subst s.
  assert (HD : forall X, exists c s1, skip_ws (join [x2c] ts ++ x5d :: X) = c :: s1 /\ beqb c x5d = false).
  { intro X. destruct ts as [|t ts]; [congruence|]. destruct (join_cons_app [x2c] t ts) as (Y & EY & HY). rewrite EY.
    rewrite <- app_assoc.
    assert (OK : ok_follow (Y ++ x5d :: X) = true).
    { destruct HY as [-> | [Y' ->]]; reflexivity. }
    inversion HF as [|? ? Rt _]; subst.
    destruct (raw_ok_head t _ Rt OK) as (c & s1 & E & Hc & _). exists c, s1. split; assumption. }
  split.
  - intros rest f Hf. destruct f as [|f]; [cbn in Hf; lia|].
    cbn [app]. rewrite <- app_assoc. cbn [app].
    destruct (HD rest) as (c & s1 & E & Hc).
    eapply skip_value_arr; [exact E | exact Hc |].
    apply skip_elems_join; [exact Hne | exact HF | cbn [length] in Hf; rewrite app_length in Hf; cbn [length] in Hf; lia].
  - intros f Hf. unfold split_elems. rewrite (skip_ws_cons_nws x5b) by reflexivity.
    cbv beta iota. rewrite (beqb_refl x5b).
    destruct (HD []) as (c & s1 & E & Hc). rewrite E, Hc.
    rewrite (split_from_join ts Hne HF [] f Hf). reflexivity.
Qed.

(* an array of raw texts is again a raw text *)
Corollary raw_ok_array ts : ts <> [] -> Forall raw_ok ts -> raw_ok (x5b :: join [x2c] ts ++ [x5d]).
Proof.
  intros Hne HF rest _. apply (proj1 (skip_array_join ts Hne HF)). rewrite app_length. lia.
Qed.

Lemma raw_ok_ser v : wf v = true -> raw_ok (ser v).
Proof. intros W rest Hr. apply skip_ser; [exact W | exact Hr | rewrite app_length; lia]. Qed.

Lemma skip_ws_ser v : wf v = true -> skip_ws (ser v) = ser v.
Proof.
  intro W. destruct (ser_head v W) as (c & tl & -> & Hc). apply skip_ws_cons_nws, vstart_nws, Hc.
Qed.

(* the batch case: elements are serialised values *)
Corollary split_elems_ser_join vs : vs <> [] -> forallb wf vs = true ->
  split_elems (length vs) (x5b :: join [x2c] (map ser vs) ++ [x5d]) = Some (map ser vs).
Proof.
  intros Hne W.
  assert (HF : Forall raw_ok (map ser vs)).
  { apply Forall_forall. intros t Ht. apply in_map_iff in Ht as (v & <- & Hv).
    apply raw_ok_ser. rewrite forallb_forall in W. apply W, Hv. }
  assert (Hne' : map ser vs <> []) by (destruct vs; [congruence | discriminate]).
  rewrite (proj2 (skip_array_join _ Hne' HF)) by (rewrite map_length; lia).
  f_equal. rewrite map_map. apply map_ext_in. intros v Hv. apply skip_ws_ser.
  rewrite forallb_forall in W. apply W, Hv.
Qed.

(* ---------- E: truncation (cutting the input at the end of the consumed span) ---------- *)

Lemma ex_cons (P : bytes -> Prop) c s r :
  (exists u, s = u ++ r /\ P (c :: u)) -> exists u, c :: s = u ++ r /\ P u.
Proof. intros (u & -> & H). exists (c :: u). split; [reflexivity | exact H]. Qed.

Lemma scan_str_trunc s : forall k r, scan_str s = Some (k, r) ->
  exists u, s = u ++ r /\ scan_str u = Some (k, []).
Proof.
  induction s as [s IH] using bytes_len_ind. intros k r H.
  destruct s as [|c s1]; [discriminate|]. rewrite scan_str_cons in H.
  repeat step H; inv_some H.
  all: repeat match goal with
       | E : scan_str ?s' = Some (_, _) |- _ =>
           apply IH in E; [destruct E as (? & -> & E) | cbn [length]; lia]
       end.
  all: repeat apply ex_cons.
  all: first [ exists []; split; [reflexivity|] | eexists; split; [reflexivity|] ].
  all: rewrite scan_str_cons; repeat (rw_eqs; cbv beta iota); reflexivity.
Qed.

Lemma scan_str_valid_trunc s k r : scan_str_valid s = Some (k, r) ->
  exists u, s = u ++ r /\ scan_str_valid u = Some (k, []).
Proof.
  intro H. apply scan_str_valid_inv in H as [H U]. apply scan_str_trunc in H as (u & -> & H).
  exists u. split; [reflexivity|]. unfold scan_str_valid. rewrite H, U. reflexivity.
Qed.

Lemma scan_number_trunc_cons c s1 l r : scan_number (c :: s1) = Some (l, r) ->
  exists u, s1 = u ++ r /\ scan_number (c :: u) = Some (l, []).
Proof.
  intro H. pose proof (scan_number_trunc _ _ _ H) as T.
  apply scan_number_inv in H as (S & _ & _ & (c0 & t0 & E & _) & _).
  rewrite E in S, T. cbn [app] in S. injection S as -> ->. exists t0. split; [reflexivity | exact T].
Qed.

Lemma skip_ws_pre w c u : forallb is_json_ws w = true -> is_json_ws c = false ->
  skip_ws (w ++ c :: u) = c :: u.
Proof.
  intros Hw Hc. unfold skip_ws. apply drop_while_app_stop; [exact Hw | cbn; rewrite Hc; reflexivity].
Qed.

Lemma ws_not_num_cont b : is_json_ws b = true -> num_cont b = false.
Proof. intro H; byte_fact b H. Qed.

Lemma ok_follow_pre w c X : forallb is_json_ws w = true -> num_cont c = false ->
  ok_follow (w ++ c :: X) = true.
Proof.
  intros Hw Hc. destruct w as [|b w]; cbn.
  - rewrite Hc. reflexivity.
  - cbn in Hw. apply andb_true_iff in Hw as [Hb _]. rewrite (ws_not_num_cont b Hb). reflexivity.
Qed.

Lemma parse_value_ws_ne f d u x : parse_value f d u = Some x -> skip_ws u <> [].
Proof.
  destruct f as [|f]; [discriminate|]. rewrite parse_value_S.
  destruct (skip_ws u); [discriminate | intros _; discriminate].
Qed.
Lemma parse_elems_ws_ne f d u x : parse_elems f d u = Some x -> skip_ws u <> [].
Proof.
  destruct f as [|f]; [discriminate|]. rewrite parse_elems_S.
  destruct (parse_value f d u) eqn:E; [|discriminate]. intros _. apply (parse_value_ws_ne _ _ _ _ E).
Qed.
Lemma parse_members_ws_ne f d u x : parse_members f d u = Some x -> skip_ws u <> [].
Proof.
  destruct f as [|f]; [discriminate|]. rewrite parse_members_S.
  destruct (skip_ws u); [discriminate | intros _; discriminate].
Qed.

Lemma skip_ws_trunc_head u r c s1 : skip_ws (u ++ r) = c :: s1 -> skip_ws u <> [] ->
  exists u1, skip_ws u = c :: u1.
Proof.
  intros H Hne. destruct (skip_ws u) as [|c' u1] eqn:E; [congruence|].
  rewrite (skip_ws_app_cons _ _ _ r E) in H. injection H as -> _. exists u1. reflexivity.
Qed.

(* skip_ws s = c :: s1  (s a variable)  ~~>  s := w ++ c :: s1  with w whitespace, c not *)
Ltac ws_norm' :=
  repeat match goal with
  | E : skip_ws ?s = ?c :: ?s1 |- _ =>
      is_var s;
      let Hw := fresh "Hw" in pose proof (ws_eq _ _ _ E) as Hw;
      let Hc := fresh "Hc" in pose proof (skip_ws_hd _ _ _ E) as Hc;
      let Ha := fresh "Ha" in pose proof (ws_prefix_all s) as Ha;
      clear E;
      let w := fresh "w" in set (w := ws_prefix s) in *; clearbody w; subst s
  end.

Ltac wit := match goal with |- exists t, ?w ++ ?c :: ?u ++ ?r = t ++ ?r /\ _ => exists (w ++ c :: u) end.

Lemma parse_trunc_all f :
  (forall d s v r, parse_value f d s = Some (v, r) ->
      exists t, s = t ++ r /\ parse_value f d t = Some (v, [])) /\
  (forall d s v r, parse_elems f d s = Some (v, r) ->
      exists t, s = t ++ r /\ parse_elems f d t = Some (v, [])) /\
  (forall d s v r, parse_members f d s = Some (v, r) ->
      exists t, s = t ++ r /\ parse_members f d t = Some (v, [])).
Proof.
  induction f as [|f (IHv & IHe & IHm)]; [repeat split; intros; discriminate|].
  repeat apply conj; intros d s v r H.
  - rewrite parse_value_S in H. repeat step H; inv_some H.
    (* literals *)
    all: try match goal with E : starts_with ?p _ = Some _ |- _ =>
           apply starts_with_split in E; subst; ws_norm'; wit;
           (split; [list_solve|]); rewrite parse_value_S, skip_ws_pre by assumption;
           cbv beta iota; rw_eqs; rewrite ?skip_ws_pre by assumption; rw_eqs; reflexivity end.
    (* strings *)
    all: try match goal with E : scan_str_valid _ = Some _ |- _ =>
           apply scan_str_valid_trunc in E as (? & -> & E); ws_norm'; wit;
           (split; [list_solve|]); rewrite parse_value_S, skip_ws_pre by assumption;
           cbv beta iota; rw_eqs; rewrite ?skip_ws_pre by assumption; rw_eqs; reflexivity end.
    (* numbers *)
    all: try match goal with E : scan_number _ = Some _ |- _ =>
           apply scan_number_trunc_cons in E as (? & -> & E); ws_norm'; wit;
           (split; [list_solve|]); rewrite parse_value_S, skip_ws_pre by assumption;
           cbv beta iota; rw_eqs; rewrite ?skip_ws_pre by assumption; rw_eqs; reflexivity end.
    (* non-empty containers *)
    all: try match goal with E : parse_elems _ _ _ = Some _, E' : skip_ws _ = _ :: _ |- _ =>
           apply IHe in E as (? & -> & E);
           destruct (skip_ws_trunc_head _ _ _ _ E' (parse_elems_ws_ne _ _ _ _ E)) as [u1 Eu];
           clear E'; ws_norm'; wit;
           (split; [list_solve|]); rewrite parse_value_S, skip_ws_pre by assumption;
           cbv beta iota; rw_eqs; rewrite ?skip_ws_pre by assumption; rw_eqs; reflexivity end.
    all: try match goal with E : parse_members _ _ _ = Some _, E' : skip_ws _ = _ :: _ |- _ =>
           apply IHm in E as (? & -> & E);
           destruct (skip_ws_trunc_head _ _ _ _ E' (parse_members_ws_ne _ _ _ _ E)) as [u1 Eu];
           clear E'; ws_norm'; wit;
           (split; [list_solve|]); rewrite parse_value_S, skip_ws_pre by assumption;
           cbv beta iota; rw_eqs; rewrite ?skip_ws_pre by assumption; rw_eqs; reflexivity end.
    (* empty containers *)
    all: ws_norm'.
    all: match goal with |- exists t, ?w ++ ?c :: ?w1 ++ ?c2 :: _ = _ /\ _ => exists (w ++ c :: w1 ++ [c2]) end.
    all: (split; [list_solve|]); rewrite parse_value_S, skip_ws_pre by assumption.
    all: cbv beta iota; rw_eqs; rewrite skip_ws_pre by assumption; rw_eqs; reflexivity.
  - rewrite parse_elems_S in H. repeat step H; inv_some H.
    all: match goal with E : parse_value _ _ _ = Some _ |- _ => apply IHv in E as (u & -> & Eu) end.
    all: try match goal with E : parse_elems _ _ _ = Some _ |- _ => apply IHe in E as (u1 & -> & Eu1) end.
    all: ws_norm'; beqb_norm.
    + exists (u ++ w ++ x2c :: u1). split; [list_solve|].
      rewrite parse_elems_S.
      rewrite (parse_value_extend _ _ _ _ _ (w ++ x2c :: u1) Eu)
        by (right; apply ok_follow_pre; [assumption | reflexivity]).
      cbn [app]. rewrite skip_ws_pre by assumption. cbv beta iota. rewrite Eu1. reflexivity.
    + exists (u ++ w ++ [x5d]). split; [list_solve|].
      rewrite parse_elems_S.
      rewrite (parse_value_extend _ _ _ _ _ (w ++ [x5d]) Eu)
        by (right; apply ok_follow_pre; [assumption | reflexivity]).
      cbn [app]. rewrite skip_ws_pre by assumption. reflexivity.
  - rewrite parse_members_S in H. repeat step H; inv_some H.
    all: match goal with E : parse_value _ _ _ = Some _ |- _ => apply IHv in E as (uv & -> & Euv) end.
    all: match goal with E : scan_str_valid _ = Some _ |- _ =>
           apply scan_str_valid_trunc in E as (uk & -> & Euk) end.
    all: try match goal with E : parse_members _ _ _ = Some _ |- _ => apply IHm in E as (um & -> & Eum) end.
    all: ws_norm'; beqb_norm.
    + exists (w1 ++ x22 :: uk ++ w0 ++ x3a :: uv ++ w ++ x2c :: um). split; [list_solve|].
      rewrite parse_members_S. rewrite skip_ws_pre by assumption. cbv beta iota.
      rewrite (beqb_refl x22).
      rewrite (scan_str_valid_extend _ _ _ (w0 ++ x3a :: uv ++ w ++ x2c :: um) Euk). cbn [app].
      rewrite skip_ws_pre by assumption. cbv beta iota. rewrite (beqb_refl x3a).
      rewrite (parse_value_extend _ _ _ _ _ (w ++ x2c :: um) Euv)
        by (right; apply ok_follow_pre; [assumption | reflexivity]).
      cbn [app]. rewrite skip_ws_pre by assumption. cbv beta iota. rewrite Eum. reflexivity.
    + exists (w1 ++ x22 :: uk ++ w0 ++ x3a :: uv ++ w ++ [x7d]). split; [list_solve|].
      rewrite parse_members_S. rewrite skip_ws_pre by assumption. cbv beta iota.
      rewrite (beqb_refl x22).
      rewrite (scan_str_valid_extend _ _ _ (w0 ++ x3a :: uv ++ w ++ [x7d]) Euk). cbn [app].
      rewrite skip_ws_pre by assumption. cbv beta iota. rewrite (beqb_refl x3a).
      rewrite (parse_value_extend _ _ _ _ _ (w ++ [x7d]) Euv)
        by (right; apply ok_follow_pre; [assumption | reflexivity]).
      cbn [app]. rewrite skip_ws_pre by assumption. reflexivity.
Qed.

Lemma parse_value_trunc f d s v r : parse_value f d s = Some (v, r) ->
  forall t, s = t ++ r -> parse_value f d t = Some (v, []).
Proof.
  intros H t Ht. apply (proj1 (parse_trunc_all f)) in H as (u & Hu & H).
  rewrite Ht in Hu. apply app_inv_tail in Hu. subst u. exact H.
Qed.
Lemma parse_elems_trunc f d s v r : parse_elems f d s = Some (v, r) ->
  forall t, s = t ++ r -> parse_elems f d t = Some (v, []).
Proof.
  intros H t Ht. apply (proj1 (proj2 (parse_trunc_all f))) in H as (u & Hu & H).
  rewrite Ht in Hu. apply app_inv_tail in Hu. subst u. exact H.
Qed.
Lemma parse_members_trunc f d s v r : parse_members f d s = Some (v, r) ->
  forall t, s = t ++ r -> parse_members f d t = Some (v, []).
Proof.
  intros H t Ht. apply (proj2 (proj2 (parse_trunc_all f))) in H as (u & Hu & H).
  rewrite Ht in Hu. apply app_inv_tail in Hu. subst u. exact H.
Qed.

(* ---------- a consumed span never ends in whitespace ---------- *)

Definition numch (c : byte) : bool := is_digit c || is_dot c || is_e c || is_sign c.

Lemma numch_nws c : numch c = true -> is_json_ws c = false.
Proof. intro H; byte_fact c H. Qed.
Lemma digit_numch c : is_digit c = true -> numch c = true.
Proof. intro H. unfold numch. rewrite H. reflexivity. Qed.

Lemma forallb_impl (p q : byte -> bool) l :
  (forall x, p x = true -> q x = true) -> forallb p l = true -> forallb q l = true.
Proof.
  intro I. induction l as [|x l IH]; cbn; [reflexivity|]. intro H.
  apply andb_true_iff in H as [H1 H2]. rewrite (I x H1), (IH H2). reflexivity.
Qed.

Lemma scan_frac_chars s a r : scan_frac s = Some (a, r) -> forallb numch a = true.
Proof.
  unfold scan_frac. destruct s as [|c s']; [intro H; inv_some H; reflexivity|].
  destruct (beqb c x2e) eqn:E; [|intro H; inv_some H; reflexivity].
  apply beqb_true in E. subst c.
  destruct (take_while is_digit s') as [|b l] eqn:Et; [discriminate|]. intro H; inv_some H.
  pose proof (take_while_all is_digit s') as TA. rewrite Et in TA.
  change (forallb numch (x2e :: b :: l)) with (forallb numch (b :: l)).
  apply (forallb_impl is_digit numch _ digit_numch TA).
Qed.

Lemma scan_exp_chars s a r : scan_exp s = Some (a, r) -> forallb numch a = true.
Proof.
  unfold scan_exp. destruct s as [|c s']; [intro H; inv_some H; reflexivity|].
  destruct (beqb c x65 || beqb c x45) eqn:E; [|intro H; inv_some H; reflexivity].
  assert (Hc : numch c = true).
  { unfold numch. fold (is_e c) in E. rewrite E. destruct (is_digit c), (is_dot c); reflexivity. }
  destruct s' as [|g t]; [discriminate|].
  destruct (beqb g x2b || beqb g x2d) eqn:Eg.
  - destruct (take_while is_digit t) as [|b l] eqn:Et; [discriminate|]. intro H; inv_some H.
    pose proof (take_while_all is_digit t) as TA. rewrite Et in TA.
    assert (Hg : numch g = true).
    { unfold numch. fold (is_sign g) in Eg. rewrite Eg. destruct (is_digit g), (is_dot g), (is_e g); reflexivity. }
    cbn [app forallb]. rewrite Hc, Hg. cbn [andb].
    exact (forallb_impl is_digit numch (b :: l) digit_numch TA).
  - destruct (take_while is_digit (g :: t)) as [|b l] eqn:Et; [discriminate|]. intro H; inv_some H.
    pose proof (take_while_all is_digit (g :: t)) as TA. rewrite Et in TA.
    cbn [app forallb]. rewrite Hc. cbn [andb].
    exact (forallb_impl is_digit numch (b :: l) digit_numch TA).
Qed.

Lemma scan_number_chars s l r : scan_number s = Some (l, r) -> forallb numch (numlex_bytes l) = true.
Proof.
  unfold scan_number. intro H.
  assert (G : forall neg s0, match scan_int s0 with
            | None => None
            | Some (ip, s1) => match scan_frac s1 with
               | None => None
               | Some (fp, s2) => match scan_exp s2 with
                  | None => None
                  | Some (ep, s3) => Some ({| nl_neg := neg; nl_int := ip; nl_frac := fp; nl_exp := ep |}, s3)
                  end end end = Some (l, r) -> forallb numch (numlex_bytes l) = true).
  { intros neg s0 G. repeat step G. inv_some G.
    match goal with E : scan_int _ = Some _ |- _ => apply scan_int_inv in E as (_ & _ & Ai & _) end.
    match goal with E : scan_frac _ = Some _ |- _ => apply scan_frac_chars in E end.
    match goal with E : scan_exp _ = Some _ |- _ => apply scan_exp_chars in E end.
    unfold numlex_bytes. cbn [nl_neg nl_int nl_frac nl_exp]. rewrite !forallb_app.
    rewrite (forallb_impl is_digit numch _ digit_numch Ai).
    repeat match goal with E : forallb numch _ = true |- _ => rewrite E; clear E end.
    destruct neg; reflexivity. }
  destruct s as [|c t]; [apply (G false [] H)|].
  destruct (beqb c x2d); [apply (G true t H) | apply (G false (c :: t) H)].
Qed.

Definition ends_nws (t : bytes) : Prop := t <> [] /\ is_json_ws (last t x20) = false.

Lemma last_cons_ne (c : byte) t d : t <> [] -> last (c :: t) d = last t d.
Proof. destruct t; [congruence | reflexivity]. Qed.

Lemma ends_nws_single c : is_json_ws c = false -> ends_nws [c].
Proof. intro H. split; [discriminate | exact H]. Qed.
Lemma ends_nws_cons c t : ends_nws t -> ends_nws (c :: t).
Proof. intros [N L]. split; [discriminate | rewrite last_cons_ne by exact N; exact L]. Qed.
Lemma ends_nws_app a t : ends_nws t -> ends_nws (a ++ t).
Proof. intro H. induction a as [|c a IH]; [exact H | cbn [app]; apply ends_nws_cons, IH]. Qed.

Lemma forallb_last (p : byte -> bool) l d : l <> [] -> forallb p l = true -> p (last l d) = true.
Proof.
  induction l as [|x l IH]; [congruence|]. intros _ H. cbn [forallb] in H.
  apply andb_true_iff in H as [H1 H2]. destruct l as [|y l]; [exact H1|].
  rewrite last_cons_ne by discriminate. apply IH; [discriminate | exact H2].
Qed.

Lemma numlex_ends_nws s l r : scan_number s = Some (l, r) -> ends_nws (numlex_bytes l).
Proof.
  intro H. pose proof (scan_number_nonempty _ _ _ H) as N. apply scan_number_chars in H.
  split; [exact N|]. apply numch_nws. apply forallb_last; assumption.
Qed.

Lemma skip_str_ends s : forall t r, skip_str s = Some (t, r) -> ends_nws t.
Proof.
  induction s as [s IH] using bytes_len_ind. intros t r H.
  destruct s as [|c s1]; [discriminate|]. rewrite skip_str_cons in H.
  repeat step H; inv_some H.
  all: repeat match goal with
       | E : skip_str ?s' = Some (_, _) |- _ => apply IH in E; [| cbn [length]; lia]
       end.
  all: try (repeat apply ends_nws_cons; assumption).
  apply beqb_true in E. subst c. apply ends_nws_single. reflexivity.
Qed.

Ltac ends_tac :=
  cbn [unBS];
  repeat first [ assumption
               | apply ends_nws_single; reflexivity
               | apply ends_nws_cons
               | apply ends_nws_app ].

Lemma skip_ends_all f :
  (forall s t r, skip_value f s = Some (t, r) -> ends_nws t) /\
  (forall s t r, skip_elems f s = Some (t, r) -> ends_nws t) /\
  (forall s t r, skip_members f s = Some (t, r) -> ends_nws t).
Proof.
  induction f as [|f (IHv & IHe & IHm)]; [repeat split; intros; discriminate|].
  repeat apply conj; intros s t r H.
  - rewrite skip_value_S in H. cbv zeta in H. repeat step H; inv_some H.
    all: repeat match goal with
         | E : skip_str _ = Some _ |- _ => apply skip_str_ends in E
         | E : scan_number _ = Some _ |- _ => apply numlex_ends_nws in E
         | E : skip_elems _ _ = Some _ |- _ => apply IHe in E
         | E : skip_members _ _ = Some _ |- _ => apply IHm in E
         end.
    all: beqb_norm; ends_tac.
  - rewrite skip_elems_S in H. repeat step H; inv_some H.
    all: repeat match goal with
         | E : skip_elems _ _ = Some _ |- _ => apply IHe in E
         end.
    all: beqb_norm; ends_tac.
  - rewrite skip_members_S in H. cbv zeta in H. repeat step H; inv_some H.
    all: repeat match goal with
         | E : skip_members _ _ = Some _ |- _ => apply IHm in E
         end.
    all: beqb_norm; ends_tac.
Qed.

Lemma skip_value_ends_nws f s t r : skip_value f s = Some (t, r) -> ends_nws t.
Proof. apply skip_ends_all. Qed.

Lemma parse_value_ends_nws f d s v : parse_value f d s = Some (v, []) -> ends_nws s.
Proof.
  intro H. apply strict_is_lenient in H as [t H]. pose proof (skip_value_split _ _ _ _ H) as E.
  rewrite app_nil_r in E. subst t. apply (skip_value_ends_nws _ _ _ _ H).
Qed.

(* ---------- trailing whitespace may be trimmed before parsing ---------- *)

Lemma skip_ws_nil_all r : skip_ws r = [] -> forallb is_json_ws r = true.
Proof.
  intro H. pose proof (ws_split r) as E. rewrite H, app_nil_r in E. rewrite <- E. apply ws_prefix_all.
Qed.

Lemma all_ws_skip r : forallb is_json_ws r = true -> skip_ws r = [].
Proof.
  intro H. pose proof (drop_while_app_stop is_json_ws r [] H eq_refl) as D.
  rewrite app_nil_r in D. exact D.
Qed.

Lemma all_ws_ok_follow r : forallb is_json_ws r = true -> ok_follow r = true.
Proof.
  destruct r as [|b r]; [reflexivity|]. cbn. intro H. apply andb_true_iff in H as [H _].
  rewrite (ws_not_num_cont b H). reflexivity.
Qed.

Lemma trim_suffix t : ends_nws t -> forall core w r,
  forallb is_json_ws w = true -> forallb is_json_ws r = true -> core ++ w = t ++ r ->
  exists r', core = t ++ r' /\ forallb is_json_ws r' = true.
Proof.
  induction t as [|x t IH]; intros [N L]; [congruence|]. intros core w r Hw Hr E.
  destruct core as [|y core].
  - exfalso. cbn [app] in E. subst w. change (x :: t ++ r) with ((x :: t) ++ r) in Hw. rewrite forallb_app in Hw. apply andb_true_iff in Hw as [Hw _].
    pose proof (forallb_last is_json_ws (x :: t) x20 N Hw) as C. congruence.
  - cbn [app] in E. injection E as -> E. destruct t as [|x' t].
    + cbn [app] in E. exists core. split; [reflexivity|]. subst r.
      rewrite forallb_app in Hr. apply andb_true_iff in Hr. tauto.
    + assert (Ends' : ends_nws (x' :: t))
        by (split; [discriminate | rewrite last_cons_ne in L by discriminate; exact L]).
      destruct (IH Ends' core w r Hw Hr E) as (r' & -> & Hr').
      exists r'. split; [reflexivity | exact Hr'].
Qed.

Theorem parse_text_trim raw core w j :
  parse_text raw = Some j -> forallb is_json_ws w = true -> raw = core ++ w -> parse_text core = Some j.
Proof.
  unfold parse_text at 1. intros H Hw E.
  destruct (parse_value (S (length raw)) depth_limit raw) as [[v rr]|] eqn:P; [|discriminate].
  destruct (skip_ws rr) eqn:Wr; [|discriminate]. inv_some H.
  apply skip_ws_nil_all in Wr.
  destruct (parse_value_split _ _ _ _ _ P) as (t & Et & _).
  pose proof (parse_value_trunc _ _ _ _ _ P t Et) as Pt.
  pose proof (parse_value_ends_nws _ _ _ _ Pt) as Ends.
  destruct (trim_suffix t Ends core w rr Hw Wr Et) as (r' & -> & Hr').
  unfold parse_text.
  pose proof (parse_value_fuel_len _ _ _ _ _ Pt (S (length (t ++ r')))) as Pt'.
  rewrite (parse_value_extend _ _ _ _ _ r' (Pt' ltac:(rewrite app_length; cbn; lia))
             (or_intror (all_ws_ok_follow r' Hr'))).
  cbn [app]. rewrite (all_ws_skip r' Hr'). reflexivity.
Qed.

(* ---------- the last byte of a consumed span, explicitly ---------- *)

(* digits, dot, e, E, plus, minus, double quote, closing bracket, closing brace, l  (e also closes true/false) *)
Definition vend (c : byte) : bool :=
  numch c || beqb c x22 || beqb c x5d || beqb c x7d || beqb c x6c.

Definition ends_in (q : byte -> bool) (t : bytes) : Prop := t <> [] /\ q (last t x20) = true.

Lemma ends_in_single q c : q c = true -> ends_in q [c].
Proof. intro H. split; [discriminate | exact H]. Qed.
Lemma ends_in_cons q c t : ends_in q t -> ends_in q (c :: t).
Proof. intros [N L]. split; [discriminate | rewrite last_cons_ne by exact N; exact L]. Qed.
Lemma ends_in_app q a t : ends_in q t -> ends_in q (a ++ t).
Proof. intro H. induction a as [|c a IH]; [exact H | cbn [app]; apply ends_in_cons, IH]. Qed.

Lemma vend_nws c : vend c = true -> is_json_ws c = false.
Proof. intro H; byte_fact c H. Qed.
Lemma vend_ascii c : vend c = true -> ascii c = true.
Proof. intro H; byte_fact c H. Qed.
Lemma numch_vend c : numch c = true -> vend c = true.
Proof. intro H. unfold vend. rewrite H. reflexivity. Qed.

Lemma ends_in_vend_nws t : ends_in vend t -> ends_nws t.
Proof. intros [N L]. split; [exact N | apply vend_nws, L]. Qed.

Lemma numlex_ends_vend s l r : scan_number s = Some (l, r) -> ends_in vend (numlex_bytes l).
Proof.
  intro H. pose proof (scan_number_nonempty _ _ _ H) as N. apply scan_number_chars in H.
  split; [exact N|]. apply numch_vend. apply forallb_last; assumption.
Qed.

Lemma skip_str_ends_vend s : forall t r, skip_str s = Some (t, r) -> ends_in vend t.
Proof.
  induction s as [s IH] using bytes_len_ind. intros t r H.
  destruct s as [|c s1]; [discriminate|]. rewrite skip_str_cons in H.
  repeat step H; inv_some H.
  all: repeat match goal with
       | E : skip_str ?s' = Some (_, _) |- _ => apply IH in E; [| cbn [length]; lia]
       end.
  all: try (repeat apply ends_in_cons; assumption).
  apply beqb_true in E. subst c. apply ends_in_single. reflexivity.
Qed.

Ltac ends_in_tac :=
  cbn [unBS];
  repeat first [ assumption
               | apply ends_in_single; reflexivity
               | apply ends_in_cons
               | apply ends_in_app ].

Lemma skip_ends_vend_all f :
  (forall s t r, skip_value f s = Some (t, r) -> ends_in vend t) /\
  (forall s t r, skip_elems f s = Some (t, r) -> ends_in vend t) /\
  (forall s t r, skip_members f s = Some (t, r) -> ends_in vend t).
Proof.
  induction f as [|f (IHv & IHe & IHm)]; [repeat split; intros; discriminate|].
  repeat apply conj; intros s t r H.
  - rewrite skip_value_S in H. cbv zeta in H. repeat step H; inv_some H.
    all: repeat match goal with
         | E : skip_str _ = Some _ |- _ => apply skip_str_ends_vend in E
         | E : scan_number _ = Some _ |- _ => apply numlex_ends_vend in E
         | E : skip_elems _ _ = Some _ |- _ => apply IHe in E
         | E : skip_members _ _ = Some _ |- _ => apply IHm in E
         end.
    all: beqb_norm; ends_in_tac.
  - rewrite skip_elems_S in H. repeat step H; inv_some H.
    all: repeat match goal with
         | E : skip_elems _ _ = Some _ |- _ => apply IHe in E
         end.
    all: beqb_norm; ends_in_tac.
  - rewrite skip_members_S in H. cbv zeta in H. repeat step H; inv_some H.
    all: repeat match goal with
         | E : skip_members _ _ = Some _ |- _ => apply IHm in E
         end.
    all: beqb_norm; ends_in_tac.
Qed.

Lemma skip_value_ends_vend f s t r : skip_value f s = Some (t, r) -> t <> [] /\ vend (last t x20) = true.
Proof. apply skip_ends_vend_all. Qed.

Lemma parse_value_ends_vend f d s v : parse_value f d s = Some (v, []) -> s <> [] /\ vend (last s x20) = true.
Proof.
  intro H. apply strict_is_lenient in H as [t H]. pose proof (skip_value_split _ _ _ _ H) as E.
  rewrite app_nil_r in E. subst t. apply (skip_value_ends_vend _ _ _ _ H).
Qed.

