(* Structure of the lenient scanner and of the strict parser (groups A and C3):
   split, fuel/depth monotonicity, sufficient fuel, extension by trailing bytes, strict => lenient. *)
From JV Require Import Base.Bytes Base.Dec Base.Utf8 Json.Json Json.JsonSer Json.JsonParse Json.JsonWf.
From JV Require Export Proofs.BytesFacts Proofs.DecFacts Proofs.Utf8Facts Proofs.LexFacts.
Local Open Scope N_scope.
Arguments N.ltb : simpl never.
Arguments N.leb : simpl never.
Arguments N.eqb : simpl never.

(* ---------- unfolding equations ---------- *)

Lemma skip_value_S f s : skip_value (S f) s =
    let w := ws_prefix s in
    match skip_ws s with
    | [] => None
    | c :: s1 =>
      if beqb c x6e then match starts_with b#"ull" s1 with Some r => Some (w ++ b#"null", r) | None => None end
      else if beqb c x74 then match starts_with b#"rue" s1 with Some r => Some (w ++ b#"true", r) | None => None end
      else if beqb c x66 then match starts_with b#"alse" s1 with Some r => Some (w ++ b#"false", r) | None => None end
      else if beqb c x22 then match skip_str s1 with Some (t, r) => Some (w ++ c :: t, r) | None => None end
      else if is_num_start c then
        match scan_number (c :: s1) with Some (l, r) => Some (w ++ numlex_bytes l, r) | None => None end
      else if beqb c x5b then
        match skip_ws s1 with
        | c2 :: r => if beqb c2 x5d then Some (w ++ c :: ws_prefix s1 ++ [c2], r)
                     else match skip_elems f s1 with Some (t, r') => Some (w ++ c :: t, r') | None => None end
        | [] => None
        end
      else if beqb c x7b then
        match skip_ws s1 with
        | c2 :: r => if beqb c2 x7d then Some (w ++ c :: ws_prefix s1 ++ [c2], r)
                     else match skip_members f s1 with Some (t, r') => Some (w ++ c :: t, r') | None => None end
        | [] => None
        end
      else None
    end.
Proof. reflexivity. Qed.

Lemma skip_elems_S f s : skip_elems (S f) s =
    match skip_value f s with
    | Some (t, r) =>
      match skip_ws r with
      | c :: r1 =>
        if beqb c x2c then
          match skip_elems f r1 with Some (t2, r2) => Some (t ++ ws_prefix r ++ c :: t2, r2) | None => None end
        else if beqb c x5d then Some (t ++ ws_prefix r ++ [c], r1)
        else None
      | [] => None
      end
    | None => None
    end.
Proof. reflexivity. Qed.

Lemma skip_members_S f s : skip_members (S f) s =
    match skip_ws s with
    | q :: s1 =>
      if beqb q x22 then
        match skip_str s1 with
        | Some (k, r0) =>
          match skip_ws r0 with
          | col :: r1 =>
            if beqb col x3a then
              match skip_value f r1 with
              | Some (t, r) =>
                match skip_ws r with
                | c :: r2 =>
                  let pre := ws_prefix s ++ q :: k ++ ws_prefix r0 ++ col :: t ++ ws_prefix r in
                  if beqb c x2c then
                    match skip_members f r2 with Some (t3, r3) => Some (pre ++ c :: t3, r3) | None => None end
                  else if beqb c x7d then Some (pre ++ [c], r2)
                  else None
                | [] => None
                end
              | None => None
              end
            else None
          | [] => None
          end
        | None => None
        end
      else None
    | [] => None
    end.
Proof. reflexivity. Qed.

Lemma parse_value_S f depth s : parse_value (S f) depth s =
    match skip_ws s with
    | [] => None
    | c :: s1 =>
      if beqb c x6e then match starts_with b#"ull" s1 with Some r => Some (JNull, r) | None => None end
      else if beqb c x74 then match starts_with b#"rue" s1 with Some r => Some (JBool true, r) | None => None end
      else if beqb c x66 then match starts_with b#"alse" s1 with Some r => Some (JBool false, r) | None => None end
      else if beqb c x22 then match scan_str_valid s1 with Some (t, r) => Some (JStr t, r) | None => None end
      else if is_num_start c then
        match scan_number (c :: s1) with Some (l, r) => Some (JNum (classify_num l), r) | None => None end
      else if beqb c x5b then
        match depth with
        | S (S d) =>
          match skip_ws s1 with
          | c2 :: r => if beqb c2 x5d then Some (JArr [], r)
                       else match parse_elems f (S d) s1 with Some (vs, r') => Some (JArr vs, r') | None => None end
          | [] => None
          end
        | _ => None
        end
      else if beqb c x7b then
        match depth with
        | S (S d) =>
          match skip_ws s1 with
          | c2 :: r => if beqb c2 x7d then Some (JObj [], r)
                       else match parse_members f (S d) s1 with Some (ms, r') => Some (JObj ms, r') | None => None end
          | [] => None
          end
        | _ => None
        end
      else None
    end.
Proof. reflexivity. Qed.

Lemma parse_elems_S f depth s : parse_elems (S f) depth s =
    match parse_value f depth s with
    | Some (v, r) =>
      match skip_ws r with
      | c :: r1 =>
        if beqb c x2c then match parse_elems f depth r1 with Some (vs, r2) => Some (v :: vs, r2) | None => None end
        else if beqb c x5d then Some ([v], r1)
        else None
      | [] => None
      end
    | None => None
    end.
Proof. reflexivity. Qed.

Lemma parse_members_S f depth s : parse_members (S f) depth s =
    match skip_ws s with
    | q :: s1 =>
      if beqb q x22 then
        match scan_str_valid s1 with
        | Some (k, r0) =>
          match skip_ws r0 with
          | col :: r1 =>
            if beqb col x3a then
              match parse_value f depth r1 with
              | Some (v, r) =>
                match skip_ws r with
                | c :: r2 =>
                  if beqb c x2c then
                    match parse_members f depth r2 with Some (ms, r3) => Some ((k, v) :: ms, r3) | None => None end
                  else if beqb c x7d then Some ([(k, v)], r2)
                  else None
                | [] => None
                end
              | None => None
              end
            else None
          | [] => None
          end
        | None => None
        end
      else None
    | [] => None
    end.
Proof. reflexivity. Qed.

Lemma ws_split s : ws_prefix s ++ skip_ws s = s.
Proof. apply take_drop_while. Qed.

Lemma ws_eq s c s1 : skip_ws s = c :: s1 -> s = ws_prefix s ++ c :: s1.
Proof. intro H. rewrite <- H. symmetry. apply ws_split. Qed.

(* turn   skip_ws s = c :: s1   (s a variable) into   s := w ++ c :: s1 *)
Ltac ws_norm :=
  repeat match goal with
  | E : skip_ws ?s = ?c :: ?s1 |- _ =>
      is_var s;
      let Hw := fresh "Hw" in pose proof (ws_eq _ _ _ E) as Hw; clear E;
      let w := fresh "w" in set (w := ws_prefix s) in *; clearbody w; subst s
  end.

Ltac beqb_norm :=
  repeat match goal with
  | E : beqb ?c _ = true |- _ => apply beqb_true in E; subst c
  end.

Ltac list_solve := repeat (first [rewrite <- app_assoc | progress (cbn [app unBS])]); reflexivity.

(* ---------- A1: the scanner splits its input ---------- *)

Lemma skip_split_all f :
  (forall s t r, skip_value f s = Some (t, r) -> s = t ++ r) /\
  (forall s t r, skip_elems f s = Some (t, r) -> s = t ++ r) /\
  (forall s t r, skip_members f s = Some (t, r) -> s = t ++ r).
Proof.
  induction f as [|f (IHv & IHe & IHm)]; [repeat split; intros; discriminate|].
  repeat split; intros s t r H.
  - rewrite skip_value_S in H. cbv zeta in H. repeat step H; inv_some H.
    all: repeat match goal with
         | E : starts_with _ _ = Some _ |- _ => apply starts_with_split in E
         | E : skip_str _ = Some _ |- _ => apply skip_str_split in E
         | E : skip_elems _ _ = Some _ |- _ => apply IHe in E
         | E : skip_members _ _ = Some _ |- _ => apply IHm in E
         end.
    all: try (match goal with E : scan_number _ = Some _ |- _ => apply scan_number_split in E end).
    all: ws_norm; beqb_norm; subst.
    all: try (match goal with E : _ :: _ = numlex_bytes _ ++ _ |- _ => rewrite E end).
    all: list_solve.
  - rewrite skip_elems_S in H. repeat step H; inv_some H.
    all: repeat match goal with
         | E : skip_value _ _ = Some _ |- _ => apply IHv in E
         | E : skip_elems _ _ = Some _ |- _ => apply IHe in E
         end.
    all: ws_norm; beqb_norm; subst.
    all: list_solve.
  - rewrite skip_members_S in H. cbv zeta in H. repeat step H; inv_some H.
    all: repeat match goal with
         | E : skip_str _ = Some _ |- _ => apply skip_str_split in E
         | E : skip_value _ _ = Some _ |- _ => apply IHv in E
         | E : skip_members _ _ = Some _ |- _ => apply IHm in E
         end.
    all: ws_norm; beqb_norm; subst.
    all: list_solve.
Qed.

Lemma skip_value_split f s t r : skip_value f s = Some (t, r) -> s = t ++ r.
Proof. apply skip_split_all. Qed.
Lemma skip_elems_split f s t r : skip_elems f s = Some (t, r) -> s = t ++ r.
Proof. apply skip_split_all. Qed.
Lemma skip_members_split f s t r : skip_members f s = Some (t, r) -> s = t ++ r.
Proof. apply skip_split_all. Qed.

(* ---------- A2: monotonicity in fuel and depth ---------- *)

Lemma skip_fuel_mono_all f :
  (forall f' s x, (f <= f')%nat -> skip_value f s = Some x -> skip_value f' s = Some x) /\
  (forall f' s x, (f <= f')%nat -> skip_elems f s = Some x -> skip_elems f' s = Some x) /\
  (forall f' s x, (f <= f')%nat -> skip_members f s = Some x -> skip_members f' s = Some x).
Proof.
  induction f as [|f (IHv & IHe & IHm)]; [repeat split; intros; discriminate|].
  repeat split; intros f' s x Hle H; (destruct f' as [|f']; [lia|]);
    assert (Hle' : (f <= f')%nat) by lia.
  - rewrite skip_value_S in H |- *. cbv zeta in *.
    repeat (step H;
      try match goal with
      | E : skip_elems _ ?s = Some ?p |- _ => rewrite (IHe _ s p Hle' E)
      | E : skip_members _ ?s = Some ?p |- _ => rewrite (IHm _ s p Hle' E)
      end).
    all: exact H.
  - rewrite skip_elems_S in H |- *.
    repeat (step H;
      try match goal with
      | E : skip_value _ ?s = Some ?p |- _ => rewrite (IHv _ s p Hle' E)
      | E : skip_elems _ ?s = Some ?p |- _ => rewrite (IHe _ s p Hle' E)
      end).
    all: exact H.
  - rewrite skip_members_S in H |- *. cbv zeta in *.
    repeat (step H;
      try match goal with
      | E : skip_value _ ?s = Some ?p |- _ => rewrite (IHv _ s p Hle' E)
      | E : skip_members _ ?s = Some ?p |- _ => rewrite (IHm _ s p Hle' E)
      end).
    all: exact H.
Qed.

Lemma skip_value_fuel_mono f f' s x : skip_value f s = Some x -> (f <= f')%nat -> skip_value f' s = Some x.
Proof. intros H L. exact (proj1 (skip_fuel_mono_all f) f' s x L H). Qed.
Lemma skip_elems_fuel_mono f f' s x : skip_elems f s = Some x -> (f <= f')%nat -> skip_elems f' s = Some x.
Proof. intros H L. exact (proj1 (proj2 (skip_fuel_mono_all f)) f' s x L H). Qed.
Lemma skip_members_fuel_mono f f' s x : skip_members f s = Some x -> (f <= f')%nat -> skip_members f' s = Some x.
Proof. intros H L. exact (proj2 (proj2 (skip_fuel_mono_all f)) f' s x L H). Qed.

Lemma parse_mono_all f :
  (forall f' d d' s x, (f <= f')%nat -> (d <= d')%nat -> parse_value f d s = Some x -> parse_value f' d' s = Some x) /\
  (forall f' d d' s x, (f <= f')%nat -> (d <= d')%nat -> parse_elems f d s = Some x -> parse_elems f' d' s = Some x) /\
  (forall f' d d' s x, (f <= f')%nat -> (d <= d')%nat -> parse_members f d s = Some x -> parse_members f' d' s = Some x).
Proof.
  induction f as [|f (IHv & IHe & IHm)]; [repeat split; intros; discriminate|].
  repeat split; intros f' d d' s x Hle Hd H; (destruct f' as [|f']; [lia|]);
    assert (Hle' : (f <= f')%nat) by lia.
  - rewrite parse_value_S in H |- *.
    repeat (step H;
      try match goal with
      | |- context [match d' with O => _ | S _ => _ end] => destruct d' as [|[|d']]; [lia | lia |]
      end;
      try match goal with
      | E : parse_elems _ (S ?n) ?s = Some ?p |- context [parse_elems _ (S ?n') ?s] =>
          rewrite (IHe f' (S n) (S n') s p Hle' ltac:(lia) E)
      | E : parse_members _ (S ?n) ?s = Some ?p |- context [parse_members _ (S ?n') ?s] =>
          rewrite (IHm f' (S n) (S n') s p Hle' ltac:(lia) E)
      end).
    all: exact H.
  - rewrite parse_elems_S in H |- *.
    repeat (step H;
      try match goal with
      | E : parse_value _ _ ?s = Some ?p |- _ => rewrite (IHv f' d d' s p Hle' Hd E)
      | E : parse_elems _ _ ?s = Some ?p |- _ => rewrite (IHe f' d d' s p Hle' Hd E)
      end).
    all: exact H.
  - rewrite parse_members_S in H |- *.
    repeat (step H;
      try match goal with
      | E : parse_value _ _ ?s = Some ?p |- _ => rewrite (IHv f' d d' s p Hle' Hd E)
      | E : parse_members _ _ ?s = Some ?p |- _ => rewrite (IHm f' d d' s p Hle' Hd E)
      end).
    all: exact H.
Qed.

Lemma parse_value_fuel_mono f f' d s x : parse_value f d s = Some x -> (f <= f')%nat -> parse_value f' d s = Some x.
Proof. intros H L. exact (proj1 (parse_mono_all f) f' d d s x L (le_n _) H). Qed.
Lemma parse_value_depth_mono f d d' s x : parse_value f d s = Some x -> (d <= d')%nat -> parse_value f d' s = Some x.
Proof. intros H L. exact (proj1 (parse_mono_all f) f d d' s x (le_n _) L H). Qed.
Lemma parse_elems_fuel_mono f f' d s x : parse_elems f d s = Some x -> (f <= f')%nat -> parse_elems f' d s = Some x.
Proof. intros H L. exact (proj1 (proj2 (parse_mono_all f)) f' d d s x L (le_n _) H). Qed.
Lemma parse_elems_depth_mono f d d' s x : parse_elems f d s = Some x -> (d <= d')%nat -> parse_elems f d' s = Some x.
Proof. intros H L. exact (proj1 (proj2 (parse_mono_all f)) f d d' s x (le_n _) L H). Qed.
Lemma parse_members_fuel_mono f f' d s x : parse_members f d s = Some x -> (f <= f')%nat -> parse_members f' d s = Some x.
Proof. intros H L. exact (proj2 (proj2 (parse_mono_all f)) f' d d s x L (le_n _) H). Qed.
Lemma parse_members_depth_mono f d d' s x : parse_members f d s = Some x -> (d <= d')%nat -> parse_members f d' s = Some x.
Proof. intros H L. exact (proj2 (proj2 (parse_mono_all f)) f d d' s x (le_n _) L H). Qed.

(* ---------- A3: fuel = length of the consumed span is enough ---------- *)

Ltac len_solve := repeat (first [rewrite app_length in * | progress (cbn [length unBS] in * )]); lia.

Lemma skip_fuel_len_all f :
  (forall s t r, skip_value f s = Some (t, r) ->
      (1 <= length t)%nat /\ forall f', (length t <= f')%nat -> skip_value f' s = Some (t, r)) /\
  (forall s t r, skip_elems f s = Some (t, r) ->
      (1 <= length t)%nat /\ forall f', (length t <= f')%nat -> skip_elems f' s = Some (t, r)) /\
  (forall s t r, skip_members f s = Some (t, r) ->
      (1 <= length t)%nat /\ forall f', (length t <= f')%nat -> skip_members f' s = Some (t, r)).
Proof.
  induction f as [|f (IHv & IHe & IHm)]; [repeat split; intros; discriminate|].
  assert (NL : forall s l r, scan_number s = Some (l, r) -> (1 <= length (numlex_bytes l))%nat).
  { intros s l r H. apply scan_number_nonempty in H. destruct (numlex_bytes l); [congruence | cbn; lia]. }
  repeat apply conj; intros s t r H.
  - rewrite skip_value_S in H. cbv zeta in H. repeat step H; inv_some H.
    all: try match goal with E : scan_number _ = Some _ |- _ => pose proof (NL _ _ _ E) end.
    all: try match goal with E : skip_elems _ _ = Some _ |- _ => destruct (IHe _ _ _ E) as [L R] end.
    all: try match goal with E : skip_members _ _ = Some _ |- _ => destruct (IHm _ _ _ E) as [L R] end.
    all: (split; [len_solve|]); intros f' Hlen; (destruct f' as [|f']; [exfalso; len_solve|]).
    all: rewrite skip_value_S; cbv zeta; rw_eqs; try (rewrite (R f') by len_solve); reflexivity.
  - rewrite skip_elems_S in H. repeat step H; inv_some H.
    all: match goal with E : skip_value _ _ = Some _ |- _ => destruct (IHv _ _ _ E) as [Lv Rv] end.
    all: try match goal with E : skip_elems _ _ = Some _ |- _ => destruct (IHe _ _ _ E) as [L R] end.
    all: (split; [len_solve|]); intros f' Hlen; (destruct f' as [|f']; [exfalso; len_solve|]).
    all: rewrite skip_elems_S; rewrite (Rv f') by len_solve; rw_eqs; try (rewrite (R f') by len_solve); reflexivity.
  - rewrite skip_members_S in H. cbv zeta in H. repeat step H; inv_some H.
    all: match goal with E : skip_value _ _ = Some _ |- _ => destruct (IHv _ _ _ E) as [Lv Rv] end.
    all: try match goal with E : skip_members _ _ = Some _ |- _ => destruct (IHm _ _ _ E) as [L R] end.
    all: (split; [len_solve|]); intros f' Hlen; (destruct f' as [|f']; [exfalso; len_solve|]).
    all: rewrite skip_members_S; cbv zeta; rw_eqs; rewrite (Rv f') by len_solve; rw_eqs;
         try (rewrite (R f') by len_solve); reflexivity.
Qed.

Lemma skip_value_fuel_len f s t r : skip_value f s = Some (t, r) ->
  forall f', (length t <= f')%nat -> skip_value f' s = Some (t, r).
Proof. intro H. apply (proj1 (skip_fuel_len_all f) s t r H). Qed.
Lemma skip_elems_fuel_len f s t r : skip_elems f s = Some (t, r) ->
  forall f', (length t <= f')%nat -> skip_elems f' s = Some (t, r).
Proof. intro H. apply (proj1 (proj2 (skip_fuel_len_all f)) s t r H). Qed.
Lemma skip_members_fuel_len f s t r : skip_members f s = Some (t, r) ->
  forall f', (length t <= f')%nat -> skip_members f' s = Some (t, r).
Proof. intro H. apply (proj2 (proj2 (skip_fuel_len_all f)) s t r H). Qed.
Lemma skip_value_nonempty f s t r : skip_value f s = Some (t, r) -> (1 <= length t)%nat.
Proof. intro H. apply (proj1 (skip_fuel_len_all f) s t r H). Qed.

Lemma skip_value_enough_fuel f s x : skip_value f s = Some x -> skip_value (S (length s)) s = Some x.
Proof.
  destruct x as [t r]. intro H. apply (skip_value_fuel_len _ _ _ _ H).
  apply skip_value_split in H. subst s. rewrite app_length. lia.
Qed.

(* ---------- A4: appending bytes after a complete value ---------- *)

Lemma ws_prefix_app_cons s c s1 rest : skip_ws s = c :: s1 -> ws_prefix (s ++ rest) = ws_prefix s.
Proof.
  intro H. unfold ws_prefix. apply take_while_app_ne. unfold skip_ws in H. rewrite H. discriminate.
Qed.

Ltac ext_rw rest :=
  repeat first
  [ match goal with
    | E : skip_ws ?s = ?c :: ?s1 |- context [skip_ws (?s ++ rest)] =>
        rewrite (skip_ws_app_cons s c s1 rest E)
    | E : skip_ws ?s = ?c :: ?s1 |- context [ws_prefix (?s ++ rest)] =>
        rewrite (ws_prefix_app_cons s c s1 rest E)
    | E : starts_with ?p ?s = Some ?r |- context [starts_with ?p (?s ++ rest)] =>
        rewrite (starts_with_app p s r rest E)
    | E : skip_str ?s = Some (?t, ?r) |- context [skip_str (?s ++ rest)] =>
        rewrite (skip_str_extend s t r rest E)
    | E : scan_str ?s = Some (?t, ?r) |- context [scan_str (?s ++ rest)] =>
        rewrite (scan_str_extend s t r rest E)
    end
  | progress rw_eqs
  | progress (cbn [app]) ].

Lemma skip_extend_all f :
  (forall s t r rest, skip_value f s = Some (t, r) -> (r <> [] \/ ok_follow rest = true) ->
      skip_value f (s ++ rest) = Some (t, r ++ rest)) /\
  (forall s t r rest, skip_elems f s = Some (t, r) -> skip_elems f (s ++ rest) = Some (t, r ++ rest)) /\
  (forall s t r rest, skip_members f s = Some (t, r) -> skip_members f (s ++ rest) = Some (t, r ++ rest)).
Proof.
  induction f as [|f (IHv & IHe & IHm)]; [repeat split; intros; discriminate|].
  repeat apply conj.
  - intros s t r rest H Hr. rewrite skip_value_S in H |- *. cbv zeta in H |- *.
    repeat step H; inv_some H; ext_rw rest.
    all: try match goal with
         | E : scan_number (?c :: ?s1) = Some (?l, ?r) |- _ =>
             change (c :: s1 ++ rest) with ((c :: s1) ++ rest); rewrite (scan_number_extend _ _ _ rest E Hr)
         | E : skip_elems _ ?s1 = Some (?t, ?r) |- _ => rewrite (IHe s1 t r rest E)
         | E : skip_members _ ?s1 = Some (?t, ?r) |- _ => rewrite (IHm s1 t r rest E)
         end.
    all: reflexivity.
  - intros s t r rest H. rewrite skip_elems_S in H |- *.
    repeat step H; inv_some H.
    all: match goal with
         | E : skip_value _ ?s1 = Some (?t, ?r), E' : skip_ws ?r = _ :: _ |- _ =>
             rewrite (IHv s1 t r rest E) by (left; intros ->; discriminate E')
         end.
    all: ext_rw rest.
    all: try match goal with
         | E : skip_elems _ ?s1 = Some (?t, ?r) |- _ => rewrite (IHe s1 t r rest E)
         end.
    all: reflexivity.
  - intros s t r rest H. rewrite skip_members_S in H |- *. cbv zeta in H |- *.
    repeat step H; inv_some H; ext_rw rest.
    all: match goal with
         | E : skip_value _ ?s1 = Some (?t, ?r), E' : skip_ws ?r = _ :: _ |- _ =>
             rewrite (IHv s1 t r rest E) by (left; intros ->; discriminate E')
         end.
    all: ext_rw rest.
    all: try match goal with
         | E : skip_members _ ?s1 = Some (?t, ?r) |- _ => rewrite (IHm s1 t r rest E)
         end.
    all: reflexivity.
Qed.

Lemma skip_value_extend f s t r rest :
  skip_value f s = Some (t, r) -> (r <> [] \/ ok_follow rest = true) ->
  skip_value f (s ++ rest) = Some (t, r ++ rest).
Proof. apply skip_extend_all. Qed.
Lemma skip_elems_extend f s t r rest :
  skip_elems f s = Some (t, r) -> skip_elems f (s ++ rest) = Some (t, r ++ rest).
Proof. apply skip_extend_all. Qed.
Lemma skip_members_extend f s t r rest :
  skip_members f s = Some (t, r) -> skip_members f (s ++ rest) = Some (t, r ++ rest).
Proof. apply skip_extend_all. Qed.

(* ---------- C3: whatever the strict parser accepts, the lenient scanner accepts ---------- *)

Lemma scan_str_valid_inv s t r : scan_str_valid s = Some (t, r) -> scan_str s = Some (t, r) /\ utf8_valid t = true.
Proof.
  unfold scan_str_valid. intro H. repeat step H. inv_some H. split; [reflexivity | assumption].
Qed.

Lemma strict_lenient_all f :
  (forall d s v r, parse_value f d s = Some (v, r) -> exists t, skip_value f s = Some (t, r)) /\
  (forall d s v r, parse_elems f d s = Some (v, r) -> exists t, skip_elems f s = Some (t, r)) /\
  (forall d s v r, parse_members f d s = Some (v, r) -> exists t, skip_members f s = Some (t, r)).
Proof.
  induction f as [|f (IHv & IHe & IHm)]; [repeat split; intros; discriminate|].
  repeat apply conj; intros d s v r H.
  - rewrite parse_value_S in H. rewrite skip_value_S. cbv zeta.
    repeat step H; inv_some H.
    all: try match goal with E : scan_str_valid _ = Some _ |- _ =>
           apply scan_str_valid_inv in E as [E _]; apply scan_str_skip_str in E as [? E] end.
    all: try match goal with E : parse_elems _ _ _ = Some _ |- _ => apply IHe in E as [? E] end.
    all: try match goal with E : parse_members _ _ _ = Some _ |- _ => apply IHm in E as [? E] end.
    all: rw_eqs; eexists; reflexivity.
  - rewrite parse_elems_S in H. rewrite skip_elems_S.
    repeat step H; inv_some H.
    all: match goal with E : parse_value _ _ _ = Some _ |- _ => apply IHv in E as [? E] end.
    all: try match goal with E : parse_elems _ _ _ = Some _ |- _ => apply IHe in E as [? E] end.
    all: rw_eqs; eexists; reflexivity.
  - rewrite parse_members_S in H. rewrite skip_members_S. cbv zeta.
    repeat step H; inv_some H.
    all: match goal with E : scan_str_valid _ = Some _ |- _ =>
           apply scan_str_valid_inv in E as [E _]; apply scan_str_skip_str in E as [? E] end.
    all: match goal with E : parse_value _ _ _ = Some _ |- _ => apply IHv in E as [? E] end.
    all: try match goal with E : parse_members _ _ _ = Some _ |- _ => apply IHm in E as [? E] end.
    all: rw_eqs; eexists; reflexivity.
Qed.

Lemma strict_is_lenient f d s v r : parse_value f d s = Some (v, r) -> exists t, skip_value f s = Some (t, r).
Proof. apply strict_lenient_all. Qed.
Lemma strict_is_lenient_elems f d s v r : parse_elems f d s = Some (v, r) -> exists t, skip_elems f s = Some (t, r).
Proof. apply strict_lenient_all. Qed.
Lemma strict_is_lenient_members f d s v r : parse_members f d s = Some (v, r) -> exists t, skip_members f s = Some (t, r).
Proof. apply strict_lenient_all. Qed.

(* the strict parser consumes a non-empty prefix *)
Lemma parse_value_split f d s v r : parse_value f d s = Some (v, r) -> exists t, s = t ++ r /\ (1 <= length t)%nat.
Proof.
  intro H. apply strict_is_lenient in H as [t H]. exists t. split.
  - apply (skip_value_split _ _ _ _ H).
  - apply (skip_value_nonempty _ _ _ _ H).
Qed.
Lemma parse_value_len f d s v r : parse_value f d s = Some (v, r) -> (length r < length s)%nat.
Proof. intro H. apply parse_value_split in H as (t & -> & L). rewrite app_length. lia. Qed.
Lemma parse_elems_len f d s v r : parse_elems f d s = Some (v, r) -> (length r < length s)%nat.
Proof.
  intro H. apply strict_is_lenient_elems in H as [t H].
  pose proof (proj1 (proj1 (proj2 (skip_fuel_len_all f)) _ _ _ H)) as L.
  apply skip_elems_split in H. subst s. rewrite app_length. lia.
Qed.
Lemma parse_members_len f d s v r : parse_members f d s = Some (v, r) -> (length r < length s)%nat.
Proof.
  intro H. apply strict_is_lenient_members in H as [t H].
  pose proof (proj1 (proj2 (proj2 (skip_fuel_len_all f)) _ _ _ H)) as L.
  apply skip_members_split in H. subst s. rewrite app_length. lia.
Qed.

(* ---------- A3 for the strict parser ---------- *)

Lemma skip_ws_cons_len s c s1 : skip_ws s = c :: s1 -> (length s1 < length s)%nat.
Proof. intro H. pose proof (skip_ws_length s) as L. rewrite H in L. cbn in L. lia. Qed.

Lemma scan_str_valid_len s t r : scan_str_valid s = Some (t, r) -> (length r < length s)%nat.
Proof.
  intro H. apply scan_str_valid_inv in H as [H _]. apply scan_str_skip_str in H as [k H].
  pose proof (skip_str_nonempty _ _ _ H) as NE. apply skip_str_split in H. subst s.
  rewrite app_length. destruct k; [congruence | cbn; lia].
Qed.

Ltac len_facts :=
  repeat match goal with
  | E : skip_ws ?s = _ :: ?s1 |- _ =>
      lazymatch goal with
      | _ : (length s1 < length s)%nat |- _ => fail
      | _ => pose proof (skip_ws_cons_len _ _ _ E)
      end
  | E : parse_value _ _ ?s = Some (_, ?r) |- _ =>
      lazymatch goal with
      | _ : (length r < length s)%nat |- _ => fail
      | _ => pose proof (parse_value_len _ _ _ _ _ E)
      end
  | E : parse_elems _ _ ?s = Some (_, ?r) |- _ =>
      lazymatch goal with
      | _ : (length r < length s)%nat |- _ => fail
      | _ => pose proof (parse_elems_len _ _ _ _ _ E)
      end
  | E : parse_members _ _ ?s = Some (_, ?r) |- _ =>
      lazymatch goal with
      | _ : (length r < length s)%nat |- _ => fail
      | _ => pose proof (parse_members_len _ _ _ _ _ E)
      end
  | E : scan_str_valid ?s = Some (_, ?r) |- _ =>
      lazymatch goal with
      | _ : (length r < length s)%nat |- _ => fail
      | _ => pose proof (scan_str_valid_len _ _ _ E)
      end
  end.

Lemma parse_fuel_len_all f :
  (forall d s v r, parse_value f d s = Some (v, r) ->
      forall f', (length s - length r <= f')%nat -> parse_value f' d s = Some (v, r)) /\
  (forall d s v r, parse_elems f d s = Some (v, r) ->
      forall f', (length s - length r <= f')%nat -> parse_elems f' d s = Some (v, r)) /\
  (forall d s v r, parse_members f d s = Some (v, r) ->
      forall f', (length s - length r <= f')%nat -> parse_members f' d s = Some (v, r)).
Proof.
  induction f as [|f (IHv & IHe & IHm)]; [repeat split; intros; discriminate|].
  repeat apply conj; intros d s v r H f' Hlen.
  - pose proof (parse_value_len _ _ _ _ _ H) as HL.
    destruct f' as [|f']; [lia|].
    rewrite parse_value_S in H. repeat step H; inv_some H; len_facts.
    all: rewrite parse_value_S; rw_eqs.
    all: try match goal with E : parse_elems _ _ _ = Some _ |- _ => rewrite (IHe _ _ _ _ E f') by lia end.
    all: try match goal with E : parse_members _ _ _ = Some _ |- _ => rewrite (IHm _ _ _ _ E f') by lia end.
    all: reflexivity.
  - pose proof (parse_elems_len _ _ _ _ _ H) as HL.
    destruct f' as [|f']; [lia|].
    rewrite parse_elems_S in H. repeat step H; inv_some H; len_facts.
    all: rewrite parse_elems_S.
    all: match goal with E : parse_value _ _ _ = Some _ |- _ => rewrite (IHv _ _ _ _ E f') by lia end.
    all: rw_eqs.
    all: try match goal with E : parse_elems _ _ _ = Some _ |- _ => rewrite (IHe _ _ _ _ E f') by lia end.
    all: reflexivity.
  - pose proof (parse_members_len _ _ _ _ _ H) as HL.
    destruct f' as [|f']; [lia|].
    rewrite parse_members_S in H. repeat step H; inv_some H; len_facts.
    all: rewrite parse_members_S; rw_eqs.
    all: match goal with E : parse_value _ _ _ = Some _ |- _ => rewrite (IHv _ _ _ _ E f') by lia end.
    all: rw_eqs.
    all: try match goal with E : parse_members _ _ _ = Some _ |- _ => rewrite (IHm _ _ _ _ E f') by lia end.
    all: reflexivity.
Qed.

Lemma parse_value_fuel_len f d s v r : parse_value f d s = Some (v, r) ->
  forall f', (length s - length r <= f')%nat -> parse_value f' d s = Some (v, r).
Proof. apply parse_fuel_len_all. Qed.
Lemma parse_elems_fuel_len f d s v r : parse_elems f d s = Some (v, r) ->
  forall f', (length s - length r <= f')%nat -> parse_elems f' d s = Some (v, r).
Proof. apply parse_fuel_len_all. Qed.
Lemma parse_members_fuel_len f d s v r : parse_members f d s = Some (v, r) ->
  forall f', (length s - length r <= f')%nat -> parse_members f' d s = Some (v, r).
Proof. apply parse_fuel_len_all. Qed.

Lemma parse_value_enough_fuel f d s x : parse_value f d s = Some x -> parse_value (S (length s)) d s = Some x.
Proof. destruct x as [v r]. intro H. apply (parse_value_fuel_len _ _ _ _ _ H). lia. Qed.

(* ---------- A4 for the strict parser ---------- *)

Lemma scan_str_valid_extend s t r rest :
  scan_str_valid s = Some (t, r) -> scan_str_valid (s ++ rest) = Some (t, r ++ rest).
Proof.
  intro H. apply scan_str_valid_inv in H as [H U]. unfold scan_str_valid.
  rewrite (scan_str_extend _ _ _ rest H), U. reflexivity.
Qed.

Ltac ext_rw' rest :=
  repeat first
  [ match goal with
    | E : scan_str_valid ?s = Some (?t, ?r) |- context [scan_str_valid (?s ++ rest)] =>
        rewrite (scan_str_valid_extend s t r rest E)
    end
  | progress (ext_rw rest) ].

Lemma parse_extend_all f :
  (forall d s v r rest, parse_value f d s = Some (v, r) -> (r <> [] \/ ok_follow rest = true) ->
      parse_value f d (s ++ rest) = Some (v, r ++ rest)) /\
  (forall d s v r rest, parse_elems f d s = Some (v, r) -> parse_elems f d (s ++ rest) = Some (v, r ++ rest)) /\
  (forall d s v r rest, parse_members f d s = Some (v, r) -> parse_members f d (s ++ rest) = Some (v, r ++ rest)).
Proof.
  induction f as [|f (IHv & IHe & IHm)]; [repeat split; intros; discriminate|].
  repeat apply conj.
  - intros d s v r rest H Hr. rewrite parse_value_S in H |- *.
    repeat step H; inv_some H; ext_rw' rest.
    all: try match goal with
         | E : scan_number (?c :: ?s1) = Some (?l, ?r) |- _ =>
             change (c :: s1 ++ rest) with ((c :: s1) ++ rest); rewrite (scan_number_extend _ _ _ rest E Hr)
         | E : parse_elems _ _ ?s1 = Some (?t, ?r) |- _ => rewrite (IHe _ s1 t r rest E)
         | E : parse_members _ _ ?s1 = Some (?t, ?r) |- _ => rewrite (IHm _ s1 t r rest E)
         end.
    all: reflexivity.
  - intros d s v r rest H. rewrite parse_elems_S in H |- *.
    repeat step H; inv_some H.
    all: match goal with
         | E : parse_value _ _ ?s1 = Some (?t, ?r), E' : skip_ws ?r = _ :: _ |- _ =>
             rewrite (IHv _ s1 t r rest E) by (left; intros ->; discriminate E')
         end.
    all: ext_rw' rest.
    all: try match goal with
         | E : parse_elems _ _ ?s1 = Some (?t, ?r) |- _ => rewrite (IHe _ s1 t r rest E)
         end.
    all: reflexivity.
  - intros d s v r rest H. rewrite parse_members_S in H |- *.
    repeat step H; inv_some H; ext_rw' rest.
    all: match goal with
         | E : parse_value _ _ ?s1 = Some (?t, ?r), E' : skip_ws ?r = _ :: _ |- _ =>
             rewrite (IHv _ s1 t r rest E) by (left; intros ->; discriminate E')
         end.
    all: ext_rw' rest.
    all: try match goal with
         | E : parse_members _ _ ?s1 = Some (?t, ?r) |- _ => rewrite (IHm _ s1 t r rest E)
         end.
    all: reflexivity.
Qed.

Lemma parse_value_extend f d s v r rest :
  parse_value f d s = Some (v, r) -> (r <> [] \/ ok_follow rest = true) ->
  parse_value f d (s ++ rest) = Some (v, r ++ rest).
Proof. apply parse_extend_all. Qed.
Lemma parse_elems_extend f d s v r rest :
  parse_elems f d s = Some (v, r) -> parse_elems f d (s ++ rest) = Some (v, r ++ rest).
Proof. apply parse_extend_all. Qed.
Lemma parse_members_extend f d s v r rest :
  parse_members f d s = Some (v, r) -> parse_members f d (s ++ rest) = Some (v, r ++ rest).
Proof. apply parse_extend_all. Qed.

