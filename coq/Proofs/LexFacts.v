(* Lexical level: strings (scan_str / skip_str / escape_body) and numbers (scan_number / print_N). *)
From JV Require Import Base.Bytes Base.Dec Base.Utf8 Json.Json Json.JsonSer Json.JsonParse Json.JsonWf.
From JV Require Import Proofs.BytesFacts Proofs.DecFacts Proofs.Utf8Facts.
Local Open Scope N_scope.
Arguments N.ltb : simpl never.
Arguments N.leb : simpl never.
Arguments N.eqb : simpl never.

(* ---------- skip_str: unfolding, split ---------- *)
Lemma skip_str_cons c s1 : skip_str (c :: s1) =
    if beqb c x22 then Some ([c], s1)
    else if beqb c x5c then
      match s1 with
      | [] => None
      | e :: s2 =>
        match simple_escape e with
        | Some _ => match skip_str s2 with Some (t, r) => Some (c :: e :: t, r) | None => None end
        | None =>
          if beqb e x75 then
            match s2 with
            | h1 :: h2 :: h3 :: h4 :: s3 =>
              match hex4 h1 h2 h3 h4 with
              | Some _ => match skip_str s3 with
                          | Some (t, r) => Some (c :: e :: h1 :: h2 :: h3 :: h4 :: t, r)
                          | None => None end
              | None => None
              end
            | _ => None
            end
          else None
        end
      end
    else if bN c <? 32 then None
    else match skip_str s1 with Some (t, r) => Some (c :: t, r) | None => None end.
Proof. reflexivity. Qed.

Lemma skip_str_split s : forall t r, skip_str s = Some (t, r) -> s = t ++ r.
Proof.
  induction s as [s IH] using bytes_len_ind. intros t r H.
  destruct s as [|c s1]; [discriminate|]. rewrite skip_str_cons in H.
  repeat step H; inv_some H;
  repeat match goal with
  | E : skip_str ?s' = Some (_, _) |- _ => apply IH in E; [rewrite E | cbn [length]; lia]
  end; reflexivity.
Qed.

(* ---------- scan_str vs skip_str, extension, escape_body round trip ---------- *)
Lemma scan_str_cons c s1 : scan_str (c :: s1) =
    if beqb c x22 then Some ([], s1)
    else if beqb c x5c then
      match s1 with
      | [] => None
      | e :: s2 =>
        match simple_escape e with
        | Some d => match scan_str s2 with Some (t, r) => Some (d :: t, r) | None => None end
        | None =>
          if beqb e x75 then
            match s2 with
            | h1 :: h2 :: h3 :: h4 :: s3 =>
              match hex4 h1 h2 h3 h4 with
              | None => None
              | Some n =>
                if is_low_sur n then None
                else if is_high_sur n then
                  match s3 with
                  | q1 :: q2 :: g1 :: g2 :: g3 :: g4 :: s4 =>
                    if beqb q1 x5c && beqb q2 x75 then
                      match hex4 g1 g2 g3 g4 with
                      | Some n2 =>
                        if is_low_sur n2 then
                          match scan_str s4 with
                          | Some (t, r) => Some (utf8_encode ((n - 55296) * 1024 + (n2 - 56320) + 65536) ++ t, r)
                          | None => None
                          end
                        else None
                      | None => None
                      end
                    else None
                  | _ => None
                  end
                else
                  match scan_str s3 with
                  | Some (t, r) => Some (utf8_encode n ++ t, r)
                  | None => None
                  end
              end
            | _ => None
            end
          else None
        end
      end
    else if bN c <? 32 then None
    else match scan_str s1 with Some (t, r) => Some (c :: t, r) | None => None end.
Proof. reflexivity. Qed.

Lemma skip_str_extend s : forall t r rest, skip_str s = Some (t, r) -> skip_str (s ++ rest) = Some (t, r ++ rest).
Proof.
  induction s as [s IH] using bytes_len_ind. intros t r rest H.
  destruct s as [|c s1]; [discriminate|]. cbn [app]. rewrite skip_str_cons in H |- *.
  repeat step H; inv_some H; cbn [app];
  repeat match goal with
  | E : skip_str ?s' = Some (_, _) |- _ => apply (fun pf => IH s' pf _ _ rest) in E; [| cbn [length]; lia]
  end; repeat (rw_eqs; cbn [app]); reflexivity.
Qed.

Lemma scan_str_extend s : forall t r rest, scan_str s = Some (t, r) -> scan_str (s ++ rest) = Some (t, r ++ rest).
Proof.
  induction s as [s IH] using bytes_len_ind. intros t r rest H.
  destruct s as [|c s1]; [discriminate|]. cbn [app]. rewrite scan_str_cons in H |- *.
  repeat step H; inv_some H; cbn [app];
  repeat match goal with
  | E : scan_str ?s' = Some (_, _) |- _ => apply (fun pf => IH s' pf _ _ rest) in E; [| cbn [length]; lia]
  end; repeat (rw_eqs; cbn [app]); reflexivity.
Qed.

Lemma scan_str_skip_str s : forall t r, scan_str s = Some (t, r) -> exists k, skip_str s = Some (k, r).
Proof.
  induction s as [s IH] using bytes_len_ind. intros t r H.
  destruct s as [|c s1]; [discriminate|]. rewrite scan_str_cons in H. rewrite skip_str_cons.
  repeat step H; inv_some H;
  repeat match goal with
  | E : scan_str ?s' = Some (_, _) |- _ => apply IH in E; [destruct E as [? E] | cbn [length]; lia]
  end.
  all: try (rw_eqs; eexists; reflexivity).
  apply andb_true_iff in E17 as [Q1 Q2]. apply beqb_true in Q1, Q2. subst b4 b5.
  rewrite skip_str_cons. cbn. rewrite E18, E20. eexists; reflexivity.
Qed.

Lemma skip_str_nonempty s t r : skip_str s = Some (t, r) -> t <> [].
Proof.
  destruct s as [|c s1]; [discriminate|]. rewrite skip_str_cons. intro H.
  repeat step H; inv_some H; discriminate.
Qed.

Lemma scan_str_escape_byte c tl :
  scan_str (escape_byte c ++ tl) = match scan_str tl with Some (t, r) => Some (c :: t, r) | None => None end.
Proof. destruct c; reflexivity. Qed.

Lemma skip_str_escape_byte c tl :
  skip_str (escape_byte c ++ tl) = match skip_str tl with Some (t, r) => Some (escape_byte c ++ t, r) | None => None end.
Proof. destruct c; reflexivity. Qed.

Lemma scan_str_escape s rest : scan_str (escape_body s ++ x22 :: rest) = Some (s, rest).
Proof.
  induction s as [|c s IH]; [reflexivity|].
  cbn [escape_body]. rewrite <- app_assoc, scan_str_escape_byte, IH. reflexivity.
Qed.

Lemma skip_str_escape s rest : skip_str (escape_body s ++ x22 :: rest) = Some (escape_body s ++ [x22], rest).
Proof.
  induction s as [|c s IH]; [reflexivity|].
  cbn [escape_body]. rewrite <- !app_assoc, skip_str_escape_byte, IH. reflexivity.
Qed.

(* ---------- escape_body preserves UTF-8 ---------- *)
Lemma escape_byte_ascii c : ascii c = true -> forallb ascii (escape_byte c) = true.
Proof. intro H; destruct c; try reflexivity; vm_compute in H; discriminate H. Qed.

Lemma escape_byte_hi c : ascii c = false -> escape_byte c = [c].
Proof. intro H; destruct c; try reflexivity; vm_compute in H; discriminate H. Qed.

Lemma in_range_hi lo hi y : in_range lo hi y = true -> 128 <= lo -> ascii y = false.
Proof.
  unfold in_range, ascii. intros H Hlo. apply andb_true_iff in H as [H1 _].
  apply N.leb_le in H1. apply N.ltb_ge. lia.
Qed.

Lemma is_cont_hi y : is_cont y = true -> ascii y = false.
Proof. intro H. apply (in_range_hi _ _ _ H). lia. Qed.

Ltac esc_case Ha IH Ex :=
  try (match type of Ha with match ?a with _ => _ end = true => destruct a as [|? ?]; [discriminate Ha|] end);
  try (match type of Ha with match ?a with _ => _ end = true => destruct a as [|? ?]; [discriminate Ha|] end);
  try (match type of Ha with match ?a with _ => _ end = true => destruct a as [|? ?]; [discriminate Ha|] end);
  let HP := fresh "HP" in let HV := fresh "HV" in
  apply andb_true_iff in Ha as [HP HV];
  pose proof HP as HP'; revert HP;
  repeat match type of HP' with
  | _ && _ = true => let A := fresh "A" in apply andb_true_iff in HP' as [HP' A]
  end;
  repeat match goal with
  | A : is_cont ?y = true |- _ => apply is_cont_hi in A
  | A : in_range _ _ ?y = true |- _ => apply in_range_hi in A; [|lia]
  end;
  cbn [escape_body];
  repeat match goal with
  | A : ascii ?y = false |- _ => rewrite (escape_byte_hi y A); clear A
  end;
  intro HP; cbn [app]; rewrite utf8_valid_cons; cbv zeta; rw_eqs; try rewrite HP; cbn [andb];
  apply IH; [cbn [length]; lia | exact HV].

Lemma escape_body_utf8 s : utf8_valid s = true -> utf8_valid (escape_body s) = true.
Proof.
  induction s as [s IH] using bytes_len_ind. intros Ha.
  destruct s as [|x s]; [reflexivity|].
  rewrite utf8_valid_cons in Ha. cbv zeta in Ha.
  destruct (bN x <? 128) eqn:E0.
  { cbn [escape_body]. rewrite utf8_valid_ascii_app by (apply escape_byte_ascii, E0).
    apply IH; [cbn [length]; lia | exact Ha]. }
  assert (Ex : ascii x = false) by exact E0.
  destruct ((194 <=? bN x) && (bN x <=? 223)) eqn:E1. { esc_case Ha IH Ex. }
  destruct (bN x =? 224) eqn:E2. { esc_case Ha IH Ex. }
  destruct ((225 <=? bN x) && (bN x <=? 236) || (bN x =? 238) || (bN x =? 239)) eqn:E3. { esc_case Ha IH Ex. }
  destruct (bN x =? 237) eqn:E4. { esc_case Ha IH Ex. }
  destruct (bN x =? 240) eqn:E5. { esc_case Ha IH Ex. }
  destruct ((241 <=? bN x) && (bN x <=? 243)) eqn:E6. { esc_case Ha IH Ex. }
  destruct (bN x =? 244) eqn:E7. { esc_case Ha IH Ex. }
  discriminate Ha.
Qed.

Lemma ser_str_utf8 s : utf8_valid s = true -> utf8_valid (ser_str s) = true.
Proof.
  intro H. unfold ser_str. rewrite utf8_valid_ascii_cons by reflexivity.
  apply utf8_valid_app; [apply escape_body_utf8, H | reflexivity].
Qed.

(* ---------- numbers: scan_int, scan_frac ---------- *)
Definition is_dot (c : byte) : bool := beqb c x2e.
Definition is_e (c : byte) : bool := beqb c x65 || beqb c x45.
Definition is_sign (c : byte) : bool := beqb c x2b || beqb c x2d.

Ltac byte_fact c H := destruct c; try reflexivity; vm_compute in H; discriminate H.

Lemma is_digit_ascii c : is_digit c = true -> ascii c = true.
Proof. intro H; byte_fact c H. Qed.
Lemma is_digit_not_minus c : is_digit c = true -> beqb c x2d = false.
Proof. intro H; byte_fact c H. Qed.
Lemma is_digit_not_sign c : is_digit c = true -> is_sign c = false.
Proof. intro H; byte_fact c H. Qed.
Lemma is_digit_num_start c : is_digit c = true -> is_num_start c = true.
Proof. intro H; byte_fact c H. Qed.
Lemma is_e_ascii c : is_e c = true -> ascii c = true.
Proof. intro H; byte_fact c H. Qed.
Lemma is_e_not_dot c : is_e c = true -> is_dot c = false.
Proof. intro H; byte_fact c H. Qed.
Lemma is_e_not_digit c : is_e c = true -> is_digit c = false.
Proof. intro H; byte_fact c H. Qed.
Lemma is_sign_ascii c : is_sign c = true -> ascii c = true.
Proof. intro H; byte_fact c H. Qed.
Lemma nz_is_digit c : in_range 49 57 c = true -> is_digit c = true.
Proof. intro H; byte_fact c H. Qed.

Lemma digits_ascii a : forallb is_digit a = true -> forallb ascii a = true.
Proof.
  induction a as [|c a IH]; cbn; [reflexivity|]. intro H. apply andb_true_iff in H as [H1 H2].
  rewrite (is_digit_ascii _ H1), (IH H2). reflexivity.
Qed.

Definition fstop (a X : bytes) : bool := match a with [] => hd_not is_dot X | _ => hd_not is_digit X end.
Definition estop (a X : bytes) : bool := match a with [] => hd_not is_e X | _ => hd_not is_digit X end.

Lemma scan_int_inv s a r : scan_int s = Some (a, r) ->
  s = a ++ r /\ hd_not is_digit r = true /\ forallb is_digit a = true /\ a <> [] /\
  (forall X, hd_not is_digit X = true -> scan_int (a ++ X) = Some (a, X)).
Proof.
  unfold scan_int. destruct s as [|c s']; [discriminate|].
  destruct (beqb c x30) eqn:E0.
  - apply beqb_true in E0. subst c. destruct s' as [|d s''].
    + intro H; inv_some H. repeat split; try reflexivity; try discriminate.
      intros X HX. cbn. destruct X as [|x X]; [reflexivity|]. cbn in HX.
      destruct (is_digit x); [discriminate | reflexivity].
    + destruct (is_digit d) eqn:Ed; [discriminate|]. intro H; inv_some H.
      repeat split; try reflexivity; try discriminate.
      * cbn. rewrite Ed. reflexivity.
      * intros X HX. cbn. destruct X as [|x X]; [reflexivity|]. cbn in HX.
        destruct (is_digit x); [discriminate | reflexivity].
  - destruct (in_range 49 57 c) eqn:E1; [|discriminate]. intro H; inv_some H.
    pose proof (take_while_all is_digit s') as TA.
    repeat split; try discriminate.
    + cbn. rewrite take_drop_while. reflexivity.
    + apply drop_while_stop.
    + cbn. rewrite (nz_is_digit _ E1), TA. reflexivity.
    + intros X HX. cbn [app]. rewrite E0, E1.
      rewrite take_while_app_stop, drop_while_app_stop by assumption. reflexivity.
Qed.

Lemma scan_frac_inv s a r : scan_frac s = Some (a, r) ->
  s = a ++ r /\ fstop a r = true /\ forallb ascii a = true /\ (a = [] \/ exists a', a = x2e :: a') /\
  (forall X, fstop a X = true -> scan_frac (a ++ X) = Some (a, X)).
Proof.
  assert (NIL : forall X, fstop [] X = true -> scan_frac ([] ++ X) = Some ([], X)).
  { intros X HX. destruct X as [|x X]; [reflexivity|]. cbn in *. unfold is_dot in HX.
    destruct (beqb x x2e); [discriminate | reflexivity]. }
  unfold scan_frac at 1. destruct s as [|c s'].
  - intro H; inv_some H. repeat split; try reflexivity; auto.
  - destruct (beqb c x2e) eqn:E.
    + apply beqb_true in E. subst c.
      destruct (take_while is_digit s') as [|b l] eqn:Et; [discriminate|].
      intro H; inv_some H.
      pose proof (take_while_all is_digit s') as TA. rewrite Et in TA.
      repeat split.
      * rewrite <- Et. cbn [app]. rewrite take_drop_while. reflexivity.
      * apply drop_while_stop.
      * change (forallb ascii (x2e :: b :: l)) with (forallb ascii (b :: l)). apply digits_ascii, TA.
      * right. eexists; reflexivity.
      * intros X HX. cbn [fstop] in HX. cbn [app]. unfold scan_frac. rewrite (beqb_refl x2e).
        change (b :: l ++ X) with ((b :: l) ++ X).
        rewrite take_while_app_stop, drop_while_app_stop by assumption. reflexivity.
    + intro H; inv_some H. repeat split; try reflexivity; auto.
      cbn. unfold is_dot. rewrite E. reflexivity.
Qed.

(* ---------- numbers: scan_exp, scan_number inversion ---------- *)
Lemma scan_exp_inv s a r : scan_exp s = Some (a, r) ->
  s = a ++ r /\ estop a r = true /\ forallb ascii a = true /\
  (a = [] \/ exists c a', a = c :: a' /\ is_e c = true) /\
  (forall X, estop a X = true -> scan_exp (a ++ X) = Some (a, X)).
Proof.
  assert (NIL : forall X, estop [] X = true -> scan_exp ([] ++ X) = Some ([], X)).
  { intros X HX. destruct X as [|x X]; [reflexivity|]. cbn in *. unfold is_e in HX.
    destruct (beqb x x65 || beqb x x45); [discriminate | reflexivity]. }
  unfold scan_exp at 1. destruct s as [|c s'].
  - intro H; inv_some H. repeat split; try reflexivity; auto.
  - destruct (beqb c x65 || beqb c x45) eqn:E.
    2:{ intro H; inv_some H. repeat split; try reflexivity; auto.
        cbn. unfold is_e. rewrite E. reflexivity. }
    destruct s' as [|g t]; [discriminate|].
    destruct (beqb g x2b || beqb g x2d) eqn:Eg.
    + destruct (take_while is_digit t) as [|b l] eqn:Et; [discriminate|].
      intro H; inv_some H.
      pose proof (take_while_all is_digit t) as TA. rewrite Et in TA.
      repeat split.
      * rewrite <- Et. cbn [app]. rewrite take_drop_while. reflexivity.
      * apply drop_while_stop.
      * cbn [app forallb]. rewrite (is_e_ascii c E), (is_sign_ascii g Eg). cbn [andb]. exact (digits_ascii (b :: l) TA).
      * right. do 2 eexists; split; [reflexivity | exact E].
      * intros X HX. cbn [app estop] in HX |- *. unfold scan_exp. rewrite E, Eg.
        change (b :: l ++ X) with ((b :: l) ++ X).
        rewrite take_while_app_stop, drop_while_app_stop by assumption. reflexivity.
    + destruct (take_while is_digit (g :: t)) as [|b l] eqn:Et; [discriminate|].
      intro H; inv_some H.
      pose proof (take_while_all is_digit (g :: t)) as TA. rewrite Et in TA.
      repeat split.
      * rewrite <- Et. cbn [app]. f_equal. symmetry. exact (take_drop_while is_digit (g :: t)).
      * exact (drop_while_stop is_digit (g :: t)).
      * cbn [app forallb]. rewrite (is_e_ascii c E). cbn [andb]. exact (digits_ascii (b :: l) TA).
      * right. do 2 eexists; split; [reflexivity | exact E].
      * intros X HX. cbn [app estop] in HX |- *. unfold scan_exp. rewrite E.
        assert (Hb : is_digit b = true) by (cbn in TA; apply andb_true_iff in TA; tauto).
        apply is_digit_not_sign in Hb. unfold is_sign in Hb. rewrite Hb.
        change (b :: l ++ X) with ((b :: l) ++ X).
        rewrite take_while_app_stop, drop_while_app_stop by assumption. reflexivity.
Qed.

Definition stop' (fp ep X : bytes) : bool :=
  hd_not is_digit X
  && match fp, ep with [], [] => hd_not is_dot X | _, _ => true end
  && match ep with [] => hd_not is_e X | _ => true end.
Definition stop (l : numlex) (X : bytes) : bool := stop' (nl_frac l) (nl_exp l) X.

Lemma ok_follow_stop l X : ok_follow X = true -> stop l X = true.
Proof.
  unfold ok_follow, stop, stop'. destruct X as [|c X]; intro H.
  - cbn. destruct (nl_frac l), (nl_exp l); reflexivity.
  - unfold num_cont in H. cbn [hd_not]. unfold is_dot, is_e.
    destruct (is_digit c); [discriminate|]. destruct (beqb c x2e); [discriminate|].
    destruct (beqb c x65); [discriminate|]. destruct (beqb c x45); [discriminate|].
    destruct (nl_frac l), (nl_exp l); reflexivity.
Qed.

Lemma stop_nil l : stop l [] = true.
Proof. apply ok_follow_stop. reflexivity. Qed.

Lemma stop_app l r rest : r <> [] -> stop l r = true -> stop l (r ++ rest) = true.
Proof. destruct r; [congruence|]. intros _ H. exact H. Qed.

Lemma scan3_inv s0 ip s1 fp s2 ep r :
  scan_int s0 = Some (ip, s1) -> scan_frac s1 = Some (fp, s2) -> scan_exp s2 = Some (ep, r) ->
  s0 = ip ++ fp ++ ep ++ r /\ stop' fp ep r = true /\ forallb ascii (ip ++ fp ++ ep) = true /\
  (exists c t, ip = c :: t /\ is_digit c = true) /\
  (forall X, stop' fp ep X = true ->
     scan_int (ip ++ fp ++ ep ++ X) = Some (ip, fp ++ ep ++ X) /\
     scan_frac (fp ++ ep ++ X) = Some (fp, ep ++ X) /\
     scan_exp (ep ++ X) = Some (ep, X)).
Proof.
  intros Hi Hf He.
  apply scan_int_inv in Hi as (Si & Ti & Ai & Ni & Ri).
  apply scan_frac_inv in Hf as (Sf & Tf & Af & Nf & Rf).
  apply scan_exp_inv in He as (Se & Te & Ae & Ne & Re).
  subst s0 s1 s2.
  assert (HD : forall X, stop' fp ep X = true ->
     estop ep X = true /\ fstop fp (ep ++ X) = true /\ hd_not is_digit (fp ++ ep ++ X) = true).
  { intros X HX. unfold stop' in HX.
    apply andb_true_iff in HX as [HX H3]. apply andb_true_iff in HX as [H1 H2].
    destruct Nf as [-> | [fp' ->]]; destruct Ne as [-> | (c & ep' & -> & Hc)]; cbn [app fstop estop hd_not];
      repeat split; try assumption; try reflexivity.
    all: try (rewrite ?(is_e_not_dot c Hc), ?(is_e_not_digit c Hc); reflexivity). }
  repeat split.
  - unfold stop'.
    destruct Nf as [-> | [fp' ->]]; destruct Ne as [-> | (c & ep' & -> & Hc)];
      cbn [app fstop estop] in *; rewrite ?Te, ?Tf, ?Ti; reflexivity.
  - rewrite !forallb_app. rewrite (digits_ascii _ Ai), Af, Ae. reflexivity.
  - destruct ip as [|c t]; [congruence|]. exists c, t. split; [reflexivity|].
    cbn in Ai. apply andb_true_iff in Ai. tauto.
  - apply Ri. apply (HD X H).
  - apply Rf. apply (HD X H).
  - apply Re. apply (HD X H).
Qed.

Lemma scan_number_inv s l r : scan_number s = Some (l, r) ->
  s = numlex_bytes l ++ r /\ stop l r = true /\ forallb ascii (numlex_bytes l) = true /\
  (exists c t, numlex_bytes l = c :: t /\ is_num_start c = true) /\
  (forall X, stop l X = true -> scan_number (numlex_bytes l ++ X) = Some (l, X)).
Proof.
  unfold scan_number at 1. destruct s as [|c t]; [discriminate|].
  destruct (beqb c x2d) eqn:Ec.
  - destruct (scan_int t) as [[ip s1]|] eqn:Ei; [|discriminate].
    destruct (scan_frac s1) as [[fp s2]|] eqn:Ef; [|discriminate].
    destruct (scan_exp s2) as [[ep s3]|] eqn:Ee; [|discriminate].
    intro H; inv_some H. apply beqb_true in Ec. subst c.
    destruct (scan3_inv _ _ _ _ _ _ _ Ei Ef Ee) as (S3 & T3 & A3 & _ & R3).
    unfold numlex_bytes, stop. cbn [nl_neg nl_int nl_frac nl_exp app].
    repeat split.
    + rewrite S3, <- !app_assoc. reflexivity.
    + exact T3.
    + cbn [forallb]. rewrite A3. reflexivity.
    + do 2 eexists; split; reflexivity.
    + intros X HX. destruct (R3 X HX) as (Ri & Rf & Re).
      unfold scan_number. rewrite (beqb_refl x2d). rewrite <- !app_assoc. rewrite Ri, Rf, Re. reflexivity.
  - destruct (scan_int (c :: t)) as [[ip s1]|] eqn:Ei; [|discriminate].
    destruct (scan_frac s1) as [[fp s2]|] eqn:Ef; [|discriminate].
    destruct (scan_exp s2) as [[ep s3]|] eqn:Ee; [|discriminate].
    intro H; inv_some H.
    destruct (scan3_inv _ _ _ _ _ _ _ Ei Ef Ee) as (S3 & T3 & A3 & (c0 & t0 & -> & Hc0) & R3).
    unfold numlex_bytes, stop. cbn [nl_neg nl_int nl_frac nl_exp app].
    repeat split.
    + rewrite S3, <- !app_assoc. reflexivity.
    + exact T3.
    + exact A3.
    + do 2 eexists; split; [reflexivity | apply is_digit_num_start, Hc0].
    + intros X HX. destruct (R3 X HX) as (Ri & Rf & Re).
      unfold scan_number. rewrite (is_digit_not_minus c0 Hc0).
      cbn [app] in Ri. rewrite <- !app_assoc. cbn [app]. rewrite Ri, Rf, Re. reflexivity.
Qed.

(* ---------- numbers: corollaries, print_N ---------- *)
Lemma scan_number_split s l r : scan_number s = Some (l, r) -> s = numlex_bytes l ++ r.
Proof. intro H. apply scan_number_inv in H. tauto. Qed.

Lemma scan_number_extend s l r rest :
  scan_number s = Some (l, r) -> (r <> [] \/ ok_follow rest = true) ->
  scan_number (s ++ rest) = Some (l, r ++ rest).
Proof.
  intros H Hr. apply scan_number_inv in H as (S & T & _ & _ & R).
  rewrite S, <- app_assoc. apply R.
  destruct r as [|c r].
  - destruct Hr as [Hr | Hr]; [congruence|]. apply ok_follow_stop, Hr.
  - exact T.
Qed.

Lemma scan_number_trunc s l r : scan_number s = Some (l, r) -> scan_number (numlex_bytes l) = Some (l, []).
Proof.
  intro H. apply scan_number_inv in H as (_ & _ & _ & _ & R).
  rewrite <- (app_nil_r (numlex_bytes l)). apply R, stop_nil.
Qed.

Lemma scan_number_head s x : scan_number s = Some x ->
  exists c s1, s = c :: s1 /\ is_num_start c = true.
Proof.
  destruct x as [l r]. intro H. apply scan_number_inv in H as (S & _ & _ & (c & t & E & Hc) & _).
  rewrite S, E. exists c, (t ++ r). split; [reflexivity | exact Hc].
Qed.

Lemma scan_number_nonempty s l r : scan_number s = Some (l, r) -> numlex_bytes l <> [].
Proof.
  intro H. apply scan_number_inv in H as (_ & _ & _ & (c & t & E & _) & _). rewrite E. discriminate.
Qed.

Lemma nz_not_zero c : in_range 49 57 c = true -> beqb c x30 = false.
Proof. intro H; byte_fact c H. Qed.

Lemma scan_number_print_N_nil n :
  scan_number (print_N n) = Some ({| nl_neg := false; nl_int := print_N n; nl_frac := []; nl_exp := [] |}, []).
Proof.
  destruct (print_N_shape n) as [E | (c & ds & E & Hc & Hds)]; rewrite E; [reflexivity|].
  unfold scan_number. rewrite (is_digit_not_minus c (nz_is_digit c Hc)).
  unfold scan_int. rewrite (nz_not_zero c Hc), Hc.
  pose proof (take_while_app_stop is_digit ds [] Hds eq_refl) as T.
  pose proof (drop_while_app_stop is_digit ds [] Hds eq_refl) as D.
  rewrite app_nil_r in T, D. rewrite T, D. reflexivity.
Qed.

Lemma scan_number_print_N n rest : ok_follow rest = true ->
  scan_number (print_N n ++ rest) =
    Some ({| nl_neg := false; nl_int := print_N n; nl_frac := []; nl_exp := [] |}, rest).
Proof.
  intro H. apply (scan_number_extend _ _ _ rest (scan_number_print_N_nil n)). right. exact H.
Qed.
