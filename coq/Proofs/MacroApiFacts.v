(* C17: facts about Model/MacroApi.v -- the code emitted by the rpc proc-macro, composed with the proved facts about
   the builders (BuilderFacts, C20), the wire types (WireFacts, C15), the registry (RegistryFacts, C13) and the params
   reader (ParamsFacts, C16). *)
From JV Require Import Base.Bytes Base.Dec Base.Utf8 Json.Json Json.JsonSer Json.JsonParse Json.JsonWf.
From JV Require Import Proofs.BytesFacts Proofs.Utf8Facts Proofs.LexFacts Proofs.JsonScan Proofs.JsonFacts.
From JV Require Model.Params Model.Builder Model.Wire Model.Registry.
From JV Require Proofs.ParamsFacts Proofs.BuilderFacts Proofs.WireFacts Proofs.RegistryFacts.
From JV Require Import Model.MacroApi.
Local Open Scope N_scope.
Local Arguments ser_str : simpl never.
Arguments N.add : simpl never.
Arguments N.sub : simpl never.
Arguments N.mul : simpl never.
Arguments N.ltb : simpl never.
Arguments N.leb : simpl never.
Arguments N.eqb : simpl never.

(* ====================================================================== *)
(* 1. texts: what the builders assemble is the compact serialisation      *)
(* ====================================================================== *)

Lemma join_ser_elems x l : join [x2c] (map ser (x :: l)) ++ [x5d] = ser_elems (x :: l).
Proof.
  revert x. induction l as [|y l IH]; intro x.
  - reflexivity.
  - rewrite ser_elems_cons. cbn [map]. rewrite join_cons2. rewrite <- !app_assoc. cbn [app].
    f_equal. f_equal. apply (IH y).
Qed.

Lemma array_text js : js <> [] -> x5b :: join [x2c] (map ser js) ++ [x5d] = ser (JArr js).
Proof. destruct js as [|x l]; [congruence|]. intros _. rewrite ser_arr, join_ser_elems. reflexivity. Qed.

Definition member_piece (kv : bytes * json) : bytes := BuilderFacts.piece (fst kv) (ser (snd kv)).

Lemma join_ser_members kv m : join [x2c] (map member_piece (kv :: m)) ++ [x7d] = ser_members (kv :: m).
Proof.
  revert kv. induction m as [|kv2 m IH]; intros [k v].
  - cbn [map join]. unfold member_piece, BuilderFacts.piece. cbn [fst snd]. rewrite ser_members_one.
    rewrite <- !app_assoc. cbn [app]. reflexivity.
  - rewrite ser_members_cons. cbn [map]. rewrite join_cons2. unfold member_piece at 1, BuilderFacts.piece. cbn [fst snd].
    rewrite <- !app_assoc. cbn [app]. do 4 f_equal. apply (IH kv2).
Qed.

Lemma object_text m : m <> [] -> x7b :: join [x2c] (map member_piece m) ++ [x7d] = ser (JObj m).
Proof. destruct m as [|kv m]; [congruence|]. intros _. rewrite ser_obj, join_ser_members. reflexivity. Qed.

Lemma raw_text_ser v : wf v = true -> raw_text (ser v) = Some (ser v).
Proof.
  intro W. unfold raw_text. pose proof (raw_value_ser v [] W eq_refl) as H. rewrite app_nil_r in H. rewrite H. reflexivity.
Qed.

Lemma snoc_cases {A} (l : list A) : l <> [] -> exists qs p, l = qs ++ [p].
Proof. intro N. destruct (BuilderFacts.snoc_cases l) as [E | E]; [contradiction | exact E]. Qed.

(* ArrayParams: insert the texts of wf values, build *)
Lemma build_positional js : js <> [] -> forallb wf js = true ->
  Builder.build (fst (Builder.inserts Builder.positional (map (fun j => Builder.SOk (ser j)) js))) = Builder.BSome (ser (JArr js)).
Proof.
  intros N W. rewrite BuilderFacts.positional_state, BuilderFacts.inserts_state. cbn [fst app].
  assert (T : BuilderFacts.ok_texts (map (fun j => Builder.SOk (ser j)) js) = map ser js).
  { clear. induction js as [|j js IH]; [reflexivity|]. cbn [map BuilderFacts.ok_texts]. rewrite IH. reflexivity. }
  rewrite T.
  destruct (snoc_cases (map ser js)) as (qs & p & E); [destruct js; [congruence | discriminate]|].
  rewrite E, BuilderFacts.build_state, <- E, (array_text js N), raw_text_ser; [reflexivity|exact W].
Qed.

(* ObjectParams: insert (key, text) pairs, build *)
Lemma build_named m : m <> [] -> forallb (fun kv => utf8_valid (fst kv) && wf (snd kv)) m = true ->
  Builder.build (fst (Builder.inserts_named Builder.named (map (fun kv => (fst kv, Builder.SOk (ser (snd kv)))) m))) =
  Builder.BSome (ser (JObj m)).
Proof.
  intros N W. rewrite BuilderFacts.named_state, BuilderFacts.inserts_named_state. cbn [fst app].
  assert (T : map BuilderFacts.piece_of (BuilderFacts.ok_pieces (map (fun kv => (fst kv, Builder.SOk (ser (snd kv)))) m)) =
              map member_piece m).
  { clear. induction m as [|[k v] m IH]; [reflexivity|]. cbn [map BuilderFacts.ok_pieces fst snd]. rewrite IH. reflexivity. }
  rewrite T.
  destruct (snoc_cases (map member_piece m)) as (qs & p & E); [destruct m; [congruence | discriminate]|].
  rewrite E, BuilderFacts.build_state, <- E, (object_text m N), raw_text_ser; [reflexivity|exact W].
Qed.

(* ---------- the first byte decides is_object ---------- *)

Lemma is_object_of_parse s v : skip_ws s = s -> parse_text s = Some v ->
  Params.is_object (Some s) = match v with JObj _ => true | _ => false end.
Proof.
  intros Hw H. unfold parse_text in H.
  destruct (parse_value (S (length s)) depth_limit s) as [[v' r]|] eqn:E; [|discriminate].
  destruct (skip_ws r); [|discriminate]. inv_some H.
  rewrite parse_value_S, Hw in E. destruct s as [|c s1]; [discriminate|]. cbn [Params.is_object].
  repeat step E; inv_some E.
  all: try (match goal with H : beqb ?x _ = true |- _ => apply beqb_true in H; subst x end; reflexivity).
  all: try assumption.
  all: destruct c; try discriminate; reflexivity.
Qed.

Lemma is_object_new raw v : parse_text raw = Some v ->
  Params.is_object (Params.params_new (Some raw)) = match v with JObj _ => true | _ => false end.
Proof.
  intro H. cbn [Params.params_new]. apply is_object_of_parse; [apply ParamsFacts.trim_no_lead | apply ParamsFacts.new_keeps_json, H].
Qed.

(* ====================================================================== *)
(* 2. arguments: encode, then decode                                      *)
(* ====================================================================== *)

Section Codec.
Variable ty : Type.
Variable val : Type.
Variable enc : ty -> val -> json.
Variable dec : ty -> json -> option val.

Notation arg_json := (arg_json ty val enc).
Notation arg_ok := (arg_ok ty val enc dec).
Notation args_ok := (args_ok ty val enc dec).
Notation args_json := (args_json ty val enc).
Notation args_members := (args_members ty val enc).
Notation typed := (typed ty val dec).
Notation collect := (collect ty val dec).
Notation client_params := (client_params ty val enc).
Notation server_decode := (server_decode ty val dec).
Notation decode_members := (decode_members ty val dec).
Notation presents := (presents ty val enc).
Notation read_op := (MacroApi.read_op ty).

Lemma arg_json_wf p a : arg_ok p a -> wf (arg_json p a) = true /\ (jdepth (arg_json p a) < 127)%nat.
Proof.
  destruct a as [v|]; cbn [MacroApi.arg_ok MacroApi.arg_json].
  - intros [(W & D & _) _]. split; assumption.
  - intros _. split; [reflexivity | cbn; lia].
Qed.

Lemma typed_arg_json p a : arg_ok p a -> typed p (arg_json p a) = Some a.
Proof.
  unfold MacroApi.typed. destruct a as [v|]; cbn [MacroApi.arg_ok MacroApi.arg_json].
  - intros [(_ & _ & R) N]. destruct (p_opt p).
    + specialize (N eq_refl). rewrite R. destruct (enc (p_ty p) v); try reflexivity. congruence.
    + rewrite R. reflexivity.
  - intros ->. reflexivity.
Qed.

Lemma args_ok_length ps args : args_ok ps args -> length args = length ps.
Proof. induction 1 as [|p a ps args _ _ IH]; [reflexivity | cbn [length]; rewrite IH; reflexivity]. Qed.

Lemma args_json_cons p ps a args : args_json (p :: ps) (a :: args) = arg_json p a :: args_json ps args.
Proof. reflexivity. Qed.

Lemma args_json_wf ps args : args_ok ps args -> forallb wf (args_json ps args) = true.
Proof.
  induction 1 as [|p a ps args Ha _ IH]; [reflexivity|]. rewrite args_json_cons. cbn [forallb].
  rewrite (proj1 (arg_json_wf p a Ha)), IH. reflexivity.
Qed.

Lemma args_json_depth ps args : args_ok ps args ->
  (fold_right (fun x acc => Nat.max (jdepth x) acc) 0%nat (args_json ps args) < 127)%nat.
Proof.
  induction 1 as [|p a ps args Ha _ IH]; [cbn; lia|]. rewrite args_json_cons. cbn [fold_right].
  pose proof (proj2 (arg_json_wf p a Ha)). lia.
Qed.

(* ---------- what the stub builds ---------- *)

Theorem client_params_none k args : client_params k [] args = Builder.TOk None.
Proof. reflexivity. Qed.

Theorem client_params_array ps args : ps <> [] -> args_ok ps args ->
  client_params PArray ps args = Builder.TOk (Some (ser (JArr (args_json ps args)))).
Proof.
  intros N H. unfold MacroApi.client_params. destruct ps as [|p ps]; [congruence|].
  replace (map (fun pa => arg_text ty val enc (fst pa) (snd pa)) (combine (p :: ps) args))
    with (map (fun j => Builder.SOk (ser j)) (args_json (p :: ps) args))
    by (unfold MacroApi.args_json; rewrite map_map; reflexivity).
  unfold Builder.builder_to_rpc_params. rewrite build_positional; [reflexivity| |apply args_json_wf, H].
  inversion H; subst. rewrite args_json_cons. discriminate.
Qed.

Definition names_utf8 (ps : list (param ty)) : Prop := Forall (fun p => utf8_valid (p_name p) = true) ps.

Lemma args_members_cons p ps a args :
  args_members (p :: ps) (a :: args) = (p_name p, arg_json p a) :: args_members ps args.
Proof. reflexivity. Qed.

Lemma args_members_wf ps args : names_utf8 ps -> args_ok ps args ->
  forallb (fun kv => utf8_valid (fst kv) && wf (snd kv)) (args_members ps args) = true.
Proof.
  intros U H. induction H as [|p a ps args Ha _ IH]; [reflexivity|]. inversion U; subst.
  rewrite args_members_cons. cbn [forallb fst snd].
  rewrite (proj1 (arg_json_wf p a Ha)), IH by assumption. rewrite H1. reflexivity.
Qed.

Theorem client_params_map ps args : ps <> [] -> names_utf8 ps -> args_ok ps args ->
  client_params PMap ps args = Builder.TOk (Some (ser (JObj (args_members ps args)))).
Proof.
  intros N U H. unfold MacroApi.client_params. destruct ps as [|p ps]; [congruence|].
  replace (map (fun pa => (p_name (fst pa), arg_text ty val enc (fst pa) (snd pa))) (combine (p :: ps) args))
    with (map (fun kv => (fst kv, Builder.SOk (ser (snd kv)))) (args_members (p :: ps) args))
    by (unfold MacroApi.args_members; rewrite map_map; reflexivity).
  unfold Builder.builder_to_rpc_params. rewrite build_named; [reflexivity| |apply args_members_wf; assumption].
  inversion H; subst. rewrite args_members_cons. discriminate.
Qed.

(* ---------- the texts parse back ---------- *)

Lemma array_parses ps args : args_ok ps args ->
  wf (JArr (args_json ps args)) = true /\ (jdepth (JArr (args_json ps args)) < depth_limit)%nat.
Proof.
  intro H. split; [cbn [wf]; apply args_json_wf, H|].
  cbn [jdepth]. pose proof (args_json_depth ps args H). unfold depth_limit. lia.
Qed.

Lemma members_depth ps args : args_ok ps args ->
  (fold_right (fun kv acc => Nat.max (jdepth (snd kv)) acc) 0%nat (args_members ps args) < 127)%nat.
Proof.
  induction 1 as [|p a ps args Ha _ IH]; [cbn; lia|]. rewrite args_members_cons. cbn [fold_right snd].
  pose proof (proj2 (arg_json_wf p a Ha)). lia.
Qed.

Lemma object_parses ps args : names_utf8 ps -> args_ok ps args ->
  wf (JObj (args_members ps args)) = true /\ (jdepth (JObj (args_members ps args)) < depth_limit)%nat.
Proof.
  intros U H. split; [cbn [wf]; apply args_members_wf; assumption|].
  cbn [jdepth]. pose proof (members_depth ps args H). unfold depth_limit. lia.
Qed.

(* ---------- the generated decoder on a text that is a JSON array / object / absent ---------- *)

Theorem server_decode_array ps raw vs : ps <> [] -> parse_text raw = Some (JArr vs) ->
  server_decode ps (Params.params_new (Some raw)) = collect ps (Params.spec (map read_op ps) vs).
Proof.
  intros N H. unfold MacroApi.server_decode. destruct ps as [|p ps]; [congruence|].
  rewrite (is_object_new raw _ H). unfold decode_array. rewrite (ParamsFacts.typed_agrees raw vs _ H). reflexivity.
Qed.

Theorem server_decode_object ps raw ms : ps <> [] -> parse_text raw = Some (JObj ms) ->
  server_decode ps (Params.params_new (Some raw)) = decode_members ps ms.
Proof.
  intros N H. unfold MacroApi.server_decode. destruct ps as [|p ps]; [congruence|].
  rewrite (is_object_new raw _ H). unfold decode_map. cbn [Params.params_new Params.params_text].
  rewrite (ParamsFacts.new_keeps_json raw _ H). reflexivity.
Qed.

Theorem server_decode_absent ps : ps <> [] ->
  server_decode ps (Params.params_new None) = collect ps (Params.spec (map read_op ps) []).
Proof.
  intros N. unfold MacroApi.server_decode. destruct ps as [|p ps]; [congruence|].
  cbn [Params.params_new Params.is_object]. unfold decode_array.
  destruct (ParamsFacts.absent_params Params.TValue (map read_op (p :: ps))) as (_ & _ & E).
  cbn [Params.params_new] in E. rewrite E. reflexivity.
Qed.

(* ---------- positional: reads against the element list ---------- *)

Lemma spec_step_plain p v vs ops : p_opt p = false ->
  Params.spec (read_op p :: ops) (v :: vs) = Params.OVal (Params.VValue v) :: Params.spec ops vs.
Proof. intro E. unfold MacroApi.read_op. rewrite E. reflexivity. Qed.

Lemma spec_step_opt_null p vs ops : p_opt p = true ->
  Params.spec (read_op p :: ops) (JNull :: vs) = Params.OAbsent :: Params.spec ops vs.
Proof. intro E. unfold MacroApi.read_op. rewrite E. reflexivity. Qed.

Lemma spec_step_opt_val p v vs ops : p_opt p = true -> v <> JNull ->
  Params.spec (read_op p :: ops) (v :: vs) = Params.OVal (Params.VValue v) :: Params.spec ops vs.
Proof. intros E N. unfold MacroApi.read_op. rewrite E. destruct v; try reflexivity. congruence. Qed.

Lemma spec_step_end p ops : p_opt p = true ->
  Params.spec (read_op p :: ops) [] = Params.OAbsent :: Params.spec ops [].
Proof. intro E. unfold MacroApi.read_op. rewrite E. reflexivity. Qed.

(* one read at the element that encodes the argument *)
Lemma collect_cons p a ps vs ops : arg_ok p a ->
  collect (p :: ps) (Params.spec (read_op p :: ops) (arg_json p a :: vs)) =
  match collect ps (Params.spec ops vs) with DOk l => DOk (a :: l) | DErr c => DErr c end.
Proof.
  intro Ha. pose proof (typed_arg_json p a Ha) as T.
  destruct (p_opt p) eqn:Eo.
  - destruct a as [v|].
    + destruct Ha as [_ Nn]. specialize (Nn Eo). cbn [MacroApi.arg_json] in *.
      rewrite (spec_step_opt_val p _ vs ops Eo Nn). cbn [MacroApi.collect]. rewrite T. reflexivity.
    + cbn [MacroApi.arg_json]. rewrite (spec_step_opt_null p vs ops Eo). reflexivity.
  - rewrite (spec_step_plain p _ vs ops Eo). cbn [MacroApi.collect]. rewrite T. reflexivity.
Qed.

(* all arguments present (surplus elements are never read) *)
Lemma collect_spec ps args extra : args_ok ps args ->
  collect ps (Params.spec (map read_op ps) (args_json ps args ++ extra)) = DOk args.
Proof.
  induction 1 as [|p a ps args Ha _ IH]; [reflexivity|].
  rewrite args_json_cons. cbn [map app]. rewrite (collect_cons p a ps _ _ Ha), IH. reflexivity.
Qed.

(* once the elements are used up, the remaining Option parameters are absent *)
Lemma collect_exhausted pt : Forall (fun p => p_opt p = true) pt ->
  collect pt (Params.spec (map read_op pt) []) = DOk (repeat None (length pt)).
Proof.
  induction 1 as [|p pt Hp _ IH]; [reflexivity|]. cbn [map].
  rewrite (spec_step_end p _ Hp). cbn [MacroApi.collect length repeat]. rewrite IH. reflexivity.
Qed.

(* a trailing run of Option parameters left out of the array *)
Lemma collect_spec_omitted pf af pt : args_ok pf af -> Forall (fun p => p_opt p = true) pt ->
  collect (pf ++ pt) (Params.spec (map read_op (pf ++ pt)) (args_json pf af)) = DOk (af ++ repeat None (length pt)).
Proof.
  intros H Hp. induction H as [|p a pf af Ha _ IH].
  - cbn [app]. apply collect_exhausted, Hp.
  - rewrite args_json_cons. cbn [map app]. rewrite (collect_cons p a _ _ _ Ha), IH. reflexivity.
Qed.

(* ---------- by name: the derived ParamsObject ---------- *)

Notation assign := (@MacroApi.assign ty).
Notation finish := (MacroApi.finish ty val dec).
Notation finish_param := (MacroApi.finish_param ty val dec).
Notation owner_is := (@MacroApi.owner_is ty).
Notation owned := (@MacroApi.owned ty).

Lemma key_owner_lt (ps : list (param ty)) k i : key_owner ps k = Some i -> (i < length ps)%nat.
Proof.
  revert i. induction ps as [|p ps IH]; intros i H; [discriminate|]. cbn [key_owner] in H.
  destruct (has_key k p).
  - inv_some H. cbn [length]. lia.
  - destruct (key_owner ps k) as [j|]; [|discriminate]. inv_some H. specialize (IH j eq_refl). cbn [length]. lia.
Qed.

Lemma nth_set_nth_eq {A} i (x : A) l d : (i < length l)%nat -> nth i (set_nth i x l) d = x.
Proof. revert i. induction l as [|y l IH]; intros [|i] H; cbn in *; try lia; [reflexivity | apply IH; lia]. Qed.

Lemma nth_set_nth_neq {A} i j (x : A) l d : i <> j -> nth j (set_nth i x l) d = nth j l d.
Proof.
  revert i j. induction l as [|y l IH]; intros [|i] [|j] H; cbn; try reflexivity; try congruence.
  apply IH. congruence.
Qed.

Lemma length_set_nth {A} i (x : A) l : length (set_nth i x l) = length l.
Proof. revert i. induction l as [|y l IH]; intros [|i]; cbn; try reflexivity. rewrite IH. reflexivity. Qed.

Definition slot_of (ps : list (param ty)) (ms : list (bytes * json)) (i : nat) : option json :=
  match owned ps i ms with [] => None | v :: _ => Some v end.

(* the visit_map loop: every field receives the value of the one member it owns *)
Lemma assign_spec ps : forall ms slots,
  length slots = length ps ->
  (forall i, (length (owned ps i ms) <= 1)%nat /\ (nth i slots None <> None -> owned ps i ms = [])) ->
  exists res, assign ps ms slots = Some res /\ length res = length ps /\
    forall i, nth i res None = match nth i slots None with Some x => Some x | None => slot_of ps ms i end.
Proof.
  induction ms as [|[k v] ms IH]; intros slots L H.
  - exists slots. split; [reflexivity|]. split; [exact L|]. intro i. unfold slot_of, MacroApi.owned. cbn.
    destruct (nth i slots None); reflexivity.
  - cbn [MacroApi.assign]. destruct (key_owner ps k) as [o|] eqn:Eo.
    + assert (Ho : owner_is ps o (k, v) = true) by (unfold MacroApi.owner_is; cbn [fst]; rewrite Eo; apply Nat.eqb_refl).
      assert (Hne : forall j, j <> o -> owner_is ps j (k, v) = false).
      { intros j Hj. unfold MacroApi.owner_is. cbn [fst]. rewrite Eo. apply Nat.eqb_neq. exact Hj. }
      destruct (H o) as [Hlen Hfull]. unfold MacroApi.owned in Hlen, Hfull. cbn [filter] in Hlen, Hfull. rewrite Ho in Hlen, Hfull.
      cbn [map length] in Hlen.
      assert (Hrest : owned ps o ms = []).
      { unfold MacroApi.owned. destruct (map snd (filter (owner_is ps o) ms)); [reflexivity | cbn [length] in Hlen; lia]. }
      destruct (nth o slots None) as [x|] eqn:Es.
      { assert (C : Some x <> None) by discriminate. specialize (Hfull C). discriminate Hfull. }
      pose proof (key_owner_lt ps k o Eo) as Hlt.
      destruct (IH (set_nth o (Some v) slots)) as (res & R1 & R2 & R3).
      * rewrite length_set_nth. exact L.
      * intro j. destruct (Nat.eq_dec j o) as [->|Hj].
        -- rewrite Hrest. split; [cbn; lia | reflexivity].
        -- destruct (H j) as [Hl Hf]. unfold MacroApi.owned in Hl, Hf. cbn [filter] in Hl, Hf. rewrite (Hne j Hj) in Hl, Hf.
           rewrite (nth_set_nth_neq o j) by congruence. split; assumption.
      * exists res. split; [exact R1|]. split; [exact R2|]. intro j. rewrite R3.
        destruct (Nat.eq_dec j o) as [->|Hj].
        -- rewrite nth_set_nth_eq by lia. rewrite Es. unfold slot_of, MacroApi.owned. cbn [filter]. rewrite Ho. reflexivity.
        -- rewrite (nth_set_nth_neq o j) by congruence. unfold slot_of, MacroApi.owned. cbn [filter]. rewrite (Hne j Hj). reflexivity.
    + assert (Hne : forall j, owner_is ps j (k, v) = false) by (intro j; unfold MacroApi.owner_is; cbn [fst]; rewrite Eo; reflexivity).
      destruct (IH slots L) as (res & R1 & R2 & R3).
      * intro j. destruct (H j) as [Hl Hf]. unfold MacroApi.owned in Hl, Hf. cbn [filter] in Hl, Hf. rewrite (Hne j) in Hl, Hf. split; assumption.
      * exists res. split; [exact R1|]. split; [exact R2|]. intro j. rewrite R3.
        unfold slot_of, MacroApi.owned. cbn [filter]. rewrite (Hne j). reflexivity.
Qed.

Lemma nth_repeat_none {A} n i : nth i (repeat (@None A) n) None = None.
Proof. revert i. induction n as [|n IH]; intros [|i]; cbn; try reflexivity. apply IH. Qed.

Lemma finish_nth ps : forall slots args,
  length slots = length ps -> length args = length ps ->
  (forall i p, nth_error ps i = Some p -> finish_param p (nth i slots None) = Some (nth i args None)) ->
  finish ps slots = DOk args.
Proof.
  induction ps as [|p ps IH]; intros slots args Ls La H.
  - destruct args; [reflexivity | discriminate].
  - destruct slots as [|s slots]; [discriminate|]. destruct args as [|a args]; [discriminate|].
    cbn [MacroApi.finish hd tl]. pose proof (H 0%nat p eq_refl) as H0. cbn [nth] in H0. rewrite H0.
    rewrite (IH slots args); [reflexivity | cbn in Ls; lia | cbn in La; lia |].
    intros i q Hq. apply (H (S i) q Hq).
Qed.

Theorem decode_members_presents ps args ms : args_ok ps args -> presents ps args ms ->
  decode_members ps ms = DOk args.
Proof.
  intros Hok Hp. unfold MacroApi.decode_members.
  assert (Hone : forall i, (length (owned ps i ms) <= 1)%nat).
  { intro i. destruct (nth_error ps i) as [p|] eqn:Ep.
    - assert (Hl : (i < length args)%nat) by (rewrite (args_ok_length _ _ Hok); apply nth_error_Some; congruence).
      destruct (nth_error args i) as [a|] eqn:Ea; [|apply nth_error_None in Ea; lia].
      specialize (Hp i p a Ep Ea). destruct a; [rewrite Hp; cbn; lia|]. destruct Hp as [-> | ->]; cbn; lia.
    - unfold MacroApi.owned.
      assert (E : filter (owner_is ps i) ms = []).
      { clear -Ep. induction ms as [|[k v] ms IH]; [reflexivity|]. cbn [filter]. unfold MacroApi.owner_is at 1. cbn [fst].
        destruct (key_owner ps k) as [j|] eqn:Ej; [|exact IH].
        pose proof (key_owner_lt ps k j Ej). apply nth_error_None in Ep.
        replace (Nat.eqb i j) with false by (symmetry; apply Nat.eqb_neq; lia). exact IH. }
      rewrite E. cbn. lia. }
  destruct (assign_spec ps ms (repeat None (length ps))) as (res & R1 & R2 & R3).
  - apply repeat_length.
  - intro i. split; [apply Hone|]. rewrite nth_repeat_none. congruence.
  - rewrite R1. apply finish_nth; [exact R2 | apply (args_ok_length _ _ Hok)|].
    intros i p Ep. rewrite R3, nth_repeat_none.
    assert (Hl : (i < length args)%nat) by (rewrite (args_ok_length _ _ Hok); apply nth_error_Some; congruence).
    destruct (nth_error args i) as [a|] eqn:Ea; [|apply nth_error_None in Ea; lia].
    rewrite (nth_error_nth _ _ None Ea).
    assert (Ha : arg_ok p a).
    { clear -Hok Ep Ea. revert i Ep Ea. induction Hok as [|p0 a0 ps args H0 _ IH]; intros [|i] Ep Ea; try discriminate.
      - cbn in Ep, Ea. inv_some Ep. inv_some Ea. exact H0.
      - apply (IH i Ep Ea). }
    specialize (Hp i p a Ep Ea). unfold slot_of. destruct a as [v|].
    + rewrite Hp. cbn [MacroApi.finish_param]. apply (typed_arg_json p (Some v) Ha).
    + cbn [MacroApi.arg_ok] in Ha. destruct Hp as [-> | ->]; cbn [MacroApi.finish_param].
      * rewrite Ha. reflexivity.
      * unfold MacroApi.typed. rewrite Ha. reflexivity.
Qed.

(* ---------- the stub's own object presents its arguments (distinct keys) ---------- *)

Lemma has_key_name (p : param ty) : has_key (p_name p) p = true.
Proof. unfold has_key, keys_of. cbn [existsb]. rewrite bytes_eqb_refl. reflexivity. Qed.

Lemma has_key_in k (p : param ty) : has_key k p = true <-> In k (keys_of p).
Proof.
  unfold has_key. rewrite existsb_exists. split.
  - intros (x & Hx & E). apply bytes_eqb_eq in E. subst. exact Hx.
  - intro H. exists k. split; [exact H | apply bytes_eqb_refl].
Qed.

(* in a list with distinct keys, the name of a parameter is owned by no earlier parameter *)
Lemma distinct_not_earlier (pre : list (param ty)) p post q :
  params_distinct (pre ++ p :: post) = true -> In q pre -> has_key (p_name p) q = false.
Proof.
  induction pre as [|q0 pre IH]; intros D Hin; [destruct Hin|].
  cbn [app params_distinct] in D. apply andb_true_iff in D as [D0 D1].
  destruct Hin as [->|Hin]; [|apply IH; assumption].
  destruct (has_key (p_name p) q) eqn:E; [|reflexivity]. exfalso.
  apply has_key_in in E. rewrite forallb_forall in D0. specialize (D0 _ E).
  rewrite forallb_forall in D0. specialize (D0 p). rewrite has_key_name in D0.
  assert (Hp : In p (pre ++ p :: post)) by (apply in_or_app; right; left; reflexivity).
  specialize (D0 Hp). discriminate D0.
Qed.

Lemma key_owner_app_skip (pre : list (param ty)) rest k :
  (forall q, In q pre -> has_key k q = false) ->
  key_owner (pre ++ rest) k = match key_owner rest k with Some i => Some (length pre + i)%nat | None => None end.
Proof.
  induction pre as [|q pre IH]; intro H; cbn [app length].
  - destruct (key_owner rest k); reflexivity.
  - cbn [key_owner]. rewrite (H q (or_introl eq_refl)). rewrite IH by (intros q' Hq'; apply H; right; exact Hq').
    destruct (key_owner rest k); reflexivity.
Qed.

Lemma key_owner_own (pre : list (param ty)) p post :
  params_distinct (pre ++ p :: post) = true -> key_owner (pre ++ p :: post) (p_name p) = Some (length pre).
Proof.
  intro D. rewrite key_owner_app_skip by (intros q Hq; apply (distinct_not_earlier pre p post q D Hq)).
  cbn [key_owner]. rewrite has_key_name. f_equal. lia.
Qed.

Lemma owned_canonical (rest : list (param ty)) : forall pre arest i,
  params_distinct (pre ++ rest) = true -> length arest = length rest ->
  owned (pre ++ rest) i (args_members rest arest) =
    if (i <? length pre)%nat then []
    else match nth_error rest (i - length pre), nth_error arest (i - length pre) with
         | Some p, Some a => [arg_json p a]
         | _, _ => []
         end.
Proof.
  induction rest as [|p rest IH]; intros pre arest i D L.
  - destruct arest; [|discriminate]. unfold MacroApi.owned, MacroApi.args_members. cbn [combine map filter].
    destruct (i <? length pre)%nat; [reflexivity|]. destruct (i - length pre)%nat; reflexivity.
  - destruct arest as [|a arest]; [discriminate|]. rewrite args_members_cons.
    unfold MacroApi.owned. cbn [filter]. unfold MacroApi.owner_is at 1. cbn [fst].
    rewrite (key_owner_own pre p rest D).
    assert (D' : params_distinct ((pre ++ [p]) ++ rest) = true) by (rewrite <- app_assoc; exact D).
    assert (L' : length arest = length rest) by (cbn in L; lia).
    pose proof (IH (pre ++ [p]) arest i D' L') as Hi. rewrite <- app_assoc in Hi. cbn [app] in Hi.
    unfold MacroApi.owned in Hi. rewrite app_length in Hi. cbn [length] in Hi.
    destruct (Nat.eqb i (length pre)) eqn:Ei.
    + apply Nat.eqb_eq in Ei. subst i. cbn [map snd]. rewrite Hi.
      replace (length pre <? length pre + 1)%nat with true by (symmetry; apply Nat.ltb_lt; lia).
      replace (length pre <? length pre)%nat with false by (symmetry; apply Nat.ltb_ge; lia).
      rewrite Nat.sub_diag. reflexivity.
    + apply Nat.eqb_neq in Ei. rewrite Hi.
      destruct (i <? length pre)%nat eqn:E1.
      * apply Nat.ltb_lt in E1. replace (i <? length pre + 1)%nat with true by (symmetry; apply Nat.ltb_lt; lia). reflexivity.
      * apply Nat.ltb_ge in E1. replace (i <? length pre + 1)%nat with false by (symmetry; apply Nat.ltb_ge; lia).
        replace (i - length pre)%nat with (S (i - (length pre + 1)))%nat by lia. reflexivity.
Qed.

Theorem canonical_presents ps args : params_distinct ps = true -> args_ok ps args ->
  presents ps args (args_members ps args).
Proof.
  intros D H i p a Ep Ea. pose proof (owned_canonical ps [] args i D (args_ok_length _ _ H)) as E.
  cbn [app length] in E. rewrite Nat.sub_0_r in E. change (i <? 0)%nat with false in E. cbv iota in E.
  rewrite Ep, Ea in E. rewrite E. destruct a; [reflexivity | right].
  reflexivity.
Qed.

End Codec.
