(* C17: facts about Model/MacroApi.v -- the code emitted by the rpc proc-macro, composed with the proved facts about
   the builders (BuilderFacts, C20), the wire types (WireFacts, C15), the registry (RegistryFacts, C13) and the params
   reader (ParamsFacts, C16). *)
From JV Require Import Base.Bytes Base.Dec Base.Utf8 Json.Json Json.JsonSer Json.JsonParse Json.JsonWf.
From JV Require Import Proofs.BytesFacts Proofs.Utf8Facts Proofs.LexFacts Proofs.JsonScan Proofs.JsonFacts.
From JV Require Model.Params Model.Builder Model.Wire Model.Registry.
From JV Require Proofs.ParamsFacts Proofs.BuilderFacts Proofs.WireFacts Proofs.RegistryFacts.
From JV Require Import Model.MacroApi.
Local Open Scope N_scope.
Local Arguments ser_str : simpl never.
Arguments N.add : simpl never.
Arguments N.sub : simpl never.
Arguments N.mul : simpl never.
Arguments N.ltb : simpl never.
Arguments N.leb : simpl never.
Arguments N.eqb : simpl never.

(* ====================================================================== *)
(* 1. texts: what the builders assemble is the compact serialisation      *)
(* ====================================================================== *)

Lemma join_ser_elems x l : join [x2c] (map ser (x :: l)) ++ [x5d] = ser_elems (x :: l).
Proof.
  revert x. induction l as [|y l IH]; intro x.
  - reflexivity.
  - rewrite ser_elems_cons. cbn [map]. rewrite join_cons2. rewrite <- !app_assoc. cbn [app].
    f_equal. f_equal. apply (IH y).
Qed.

Lemma array_text js : js <> [] -> x5b :: join [x2c] (map ser js) ++ [x5d] = ser (JArr js).
Proof. destruct js as [|x l]; [congruence|]. intros _. rewrite ser_arr, join_ser_elems. reflexivity. Qed.

Definition member_piece (kv : bytes * json) : bytes := BuilderFacts.piece (fst kv) (ser (snd kv)).

Lemma join_ser_members kv m : join [x2c] (map member_piece (kv :: m)) ++ [x7d] = ser_members (kv :: m).
Proof.
  revert kv. induction m as [|kv2 m IH]; intros [k v].
  - cbn [map join]. unfold member_piece, BuilderFacts.piece. cbn [fst snd]. rewrite ser_members_one.
    rewrite <- !app_assoc. cbn [app]. reflexivity.
  - rewrite ser_members_cons. cbn [map]. rewrite join_cons2. unfold member_piece at 1, BuilderFacts.piece. cbn [fst snd].
    rewrite <- !app_assoc. cbn [app]. do 4 f_equal. apply (IH kv2).
Qed.

Lemma object_text m : m <> [] -> x7b :: join [x2c] (map member_piece m) ++ [x7d] = ser (JObj m).
Proof. destruct m as [|kv m]; [congruence|]. intros _. rewrite ser_obj, join_ser_members. reflexivity. Qed.

Lemma raw_text_ser v : wf v = true -> raw_text (ser v) = Some (ser v).
Proof.
  intro W. unfold raw_text. pose proof (raw_value_ser v [] W eq_refl) as H. rewrite app_nil_r in H. rewrite H. reflexivity.
Qed.

Lemma snoc_cases {A} (l : list A) : l <> [] -> exists qs p, l = qs ++ [p].
Proof. intro N. destruct (BuilderFacts.snoc_cases l) as [E | E]; [contradiction | exact E]. Qed.

(* ArrayParams: insert the texts of wf values, build *)
Lemma build_positional js : js <> [] -> forallb wf js = true ->
  Builder.build (fst (Builder.inserts Builder.positional (map (fun j => Builder.SOk (ser j)) js))) = Builder.BSome (ser (JArr js)).
Proof.
  intros N W. rewrite BuilderFacts.positional_state, BuilderFacts.inserts_state. cbn [fst app].
  assert (T : BuilderFacts.ok_texts (map (fun j => Builder.SOk (ser j)) js) = map ser js).
  { clear. induction js as [|j js IH]; [reflexivity|]. cbn [map BuilderFacts.ok_texts]. rewrite IH. reflexivity. }
  rewrite T.
  destruct (snoc_cases (map ser js)) as (qs & p & E); [destruct js; [congruence | discriminate]|].
  rewrite E, BuilderFacts.build_state, <- E, (array_text js N), raw_text_ser; [reflexivity|exact W].
Qed.

(* ObjectParams: insert (key, text) pairs, build *)
Lemma build_named m : m <> [] -> forallb (fun kv => utf8_valid (fst kv) && wf (snd kv)) m = true ->
  Builder.build (fst (Builder.inserts_named Builder.named (map (fun kv => (fst kv, Builder.SOk (ser (snd kv)))) m))) =
  Builder.BSome (ser (JObj m)).
Proof.
  intros N W. rewrite BuilderFacts.named_state, BuilderFacts.inserts_named_state. cbn [fst app].
  assert (T : map BuilderFacts.piece_of (BuilderFacts.ok_pieces (map (fun kv => (fst kv, Builder.SOk (ser (snd kv)))) m)) =
              map member_piece m).
  { clear. induction m as [|[k v] m IH]; [reflexivity|]. cbn [map BuilderFacts.ok_pieces fst snd]. rewrite IH. reflexivity. }
  rewrite T.
  destruct (snoc_cases (map member_piece m)) as (qs & p & E); [destruct m; [congruence | discriminate]|].
  rewrite E, BuilderFacts.build_state, <- E, (object_text m N), raw_text_ser; [reflexivity|exact W].
Qed.

(* ---------- the first byte decides is_object ---------- *)

Lemma is_object_of_parse s v : skip_ws s = s -> parse_text s = Some v ->
  Params.is_object (Some s) = match v with JObj _ => true | _ => false end.
Proof.
  intros Hw H. unfold parse_text in H.
  destruct (parse_value (S (length s)) depth_limit s) as [[v' r]|] eqn:E; [|discriminate].
  destruct (skip_ws r); [|discriminate]. inv_some H.
  rewrite parse_value_S, Hw in E. destruct s as [|c s1]; [discriminate|]. cbn [Params.is_object].
  repeat step E; inv_some E.
  all: try (match goal with H : beqb ?x _ = true |- _ => apply beqb_true in H; subst x end; reflexivity).
  all: try assumption.
  all: destruct c; try discriminate; reflexivity.
Qed.

Lemma is_object_new raw v : parse_text raw = Some v ->
  Params.is_object (Params.params_new (Some raw)) = match v with JObj _ => true | _ => false end.
Proof.
  intro H. cbn [Params.params_new]. apply is_object_of_parse; [apply ParamsFacts.trim_no_lead | apply ParamsFacts.new_keeps_json, H].
Qed.

(* ====================================================================== *)
(* 2. arguments: encode, then decode                                      *)
(* ====================================================================== *)

Section Codec.
Variable ty : Type.
Variable val : Type.
Variable enc : ty -> val -> json.
Variable dec : ty -> json -> option val.

Notation arg_json := (arg_json ty val enc).
Notation arg_ok := (arg_ok ty val enc dec).
Notation args_ok := (args_ok ty val enc dec).
Notation args_json := (args_json ty val enc).
Notation args_members := (args_members ty val enc).
Notation typed := (typed ty val dec).
Notation collect := (collect ty val dec).
Notation client_params := (client_params ty val enc).
Notation server_decode := (server_decode ty val dec).
Notation decode_members := (decode_members ty val dec).
Notation presents := (presents ty val enc).
Notation read_op := (MacroApi.read_op ty).

Lemma arg_json_wf p a : arg_ok p a -> wf (arg_json p a) = true /\ (jdepth (arg_json p a) < 127)%nat.
Proof.
  destruct a as [v|]; cbn [MacroApi.arg_ok MacroApi.arg_json].
  - intros [(W & D & _) _]. split; assumption.
  - intros _. split; [reflexivity | cbn; lia].
Qed.

Lemma typed_arg_json p a : arg_ok p a -> typed p (arg_json p a) = Some a.
Proof.
  unfold MacroApi.typed. destruct a as [v|]; cbn [MacroApi.arg_ok MacroApi.arg_json].
  - intros [(_ & _ & R) N]. destruct (p_opt p).
    + specialize (N eq_refl). rewrite R. destruct (enc (p_ty p) v); try reflexivity. congruence.
    + rewrite R. reflexivity.
  - intros ->. reflexivity.
Qed.

Lemma args_ok_length ps args : args_ok ps args -> length args = length ps.
Proof. induction 1 as [|p a ps args _ _ IH]; [reflexivity | cbn [length]; rewrite IH; reflexivity]. Qed.

Lemma args_json_cons p ps a args : args_json (p :: ps) (a :: args) = arg_json p a :: args_json ps args.
Proof. reflexivity. Qed.

Lemma args_json_wf ps args : args_ok ps args -> forallb wf (args_json ps args) = true.
Proof.
  induction 1 as [|p a ps args Ha _ IH]; [reflexivity|]. rewrite args_json_cons. cbn [forallb].
  rewrite (proj1 (arg_json_wf p a Ha)), IH. reflexivity.
Qed.

Lemma args_json_depth ps args : args_ok ps args ->
  (fold_right (fun x acc => Nat.max (jdepth x) acc) 0%nat (args_json ps args) < 127)%nat.
Proof.
  induction 1 as [|p a ps args Ha _ IH]; [cbn; lia|]. rewrite args_json_cons. cbn [fold_right].
  pose proof (proj2 (arg_json_wf p a Ha)). lia.
Qed.

(* ---------- what the stub builds ---------- *)

Theorem client_params_none k args : client_params k [] args = Builder.TOk None.
Proof. reflexivity. Qed.

Theorem client_params_array ps args : ps <> [] -> args_ok ps args ->
  client_params PArray ps args = Builder.TOk (Some (ser (JArr (args_json ps args)))).
Proof.
  intros N H. unfold MacroApi.client_params. destruct ps as [|p ps]; [congruence|].
  replace (map (fun pa => arg_text ty val enc (fst pa) (snd pa)) (combine (p :: ps) args))
    with (map (fun j => Builder.SOk (ser j)) (args_json (p :: ps) args))
    by (unfold MacroApi.args_json; rewrite map_map; reflexivity).
  unfold Builder.builder_to_rpc_params. rewrite build_positional; [reflexivity| |apply args_json_wf, H].
  inversion H; subst. rewrite args_json_cons. discriminate.
Qed.

Definition names_utf8 (ps : list (param ty)) : Prop := Forall (fun p => utf8_valid (p_name p) = true) ps.

Lemma args_members_cons p ps a args :
  args_members (p :: ps) (a :: args) = (p_name p, arg_json p a) :: args_members ps args.
Proof. reflexivity. Qed.

Lemma args_members_wf ps args : names_utf8 ps -> args_ok ps args ->
  forallb (fun kv => utf8_valid (fst kv) && wf (snd kv)) (args_members ps args) = true.
Proof.
  intros U H. induction H as [|p a ps args Ha _ IH]; [reflexivity|]. inversion U; subst.
  rewrite args_members_cons. cbn [forallb fst snd].
  rewrite (proj1 (arg_json_wf p a Ha)), IH by assumption. rewrite H1. reflexivity.
Qed.

Theorem client_params_map ps args : ps <> [] -> names_utf8 ps -> args_ok ps args ->
  client_params PMap ps args = Builder.TOk (Some (ser (JObj (args_members ps args)))).
Proof.
  intros N U H. unfold MacroApi.client_params. destruct ps as [|p ps]; [congruence|].
  replace (map (fun pa => (p_name (fst pa), arg_text ty val enc (fst pa) (snd pa))) (combine (p :: ps) args))
    with (map (fun kv => (fst kv, Builder.SOk (ser (snd kv)))) (args_members (p :: ps) args))
    by (unfold MacroApi.args_members; rewrite map_map; reflexivity).
  unfold Builder.builder_to_rpc_params. rewrite build_named; [reflexivity| |apply args_members_wf; assumption].
  inversion H; subst. rewrite args_members_cons. discriminate.
Qed.

(* ---------- the texts parse back ---------- *)

Lemma array_parses ps args : args_ok ps args ->
  wf (JArr (args_json ps args)) = true /\ (jdepth (JArr (args_json ps args)) < depth_limit)%nat.
Proof.
  intro H. split; [cbn [wf]; apply args_json_wf, H|].
  cbn [jdepth]. pose proof (args_json_depth ps args H). unfold depth_limit. lia.
Qed.

Lemma members_depth ps args : args_ok ps args ->
  (fold_right (fun kv acc => Nat.max (jdepth (snd kv)) acc) 0%nat (args_members ps args) < 127)%nat.
Proof.
  induction 1 as [|p a ps args Ha _ IH]; [cbn; lia|]. rewrite args_members_cons. cbn [fold_right snd].
  pose proof (proj2 (arg_json_wf p a Ha)). lia.
Qed.

Lemma object_parses ps args : names_utf8 ps -> args_ok ps args ->
  wf (JObj (args_members ps args)) = true /\ (jdepth (JObj (args_members ps args)) < depth_limit)%nat.
Proof.
  intros U H. split; [cbn [wf]; apply args_members_wf; assumption|].
  cbn [jdepth]. pose proof (members_depth ps args H). unfold depth_limit. lia.
Qed.

(* ---------- the generated decoder on a text that is a JSON array / object / absent ---------- *)

Theorem server_decode_array ps raw vs : ps <> [] -> parse_text raw = Some (JArr vs) ->
  server_decode ps (Params.params_new (Some raw)) = collect ps (Params.spec (map read_op ps) vs).
Proof.
  intros N H. unfold MacroApi.server_decode. destruct ps as [|p ps]; [congruence|].
  rewrite (is_object_new raw _ H). unfold decode_array. rewrite (ParamsFacts.typed_agrees raw vs _ H). reflexivity.
Qed.

Theorem server_decode_object ps raw ms : ps <> [] -> parse_text raw = Some (JObj ms) ->
  server_decode ps (Params.params_new (Some raw)) = decode_members ps ms.
Proof.
  intros N H. unfold MacroApi.server_decode. destruct ps as [|p ps]; [congruence|].
  rewrite (is_object_new raw _ H). unfold decode_map. cbn [Params.params_new Params.params_text].
  rewrite (ParamsFacts.new_keeps_json raw _ H). reflexivity.
Qed.

Theorem server_decode_absent ps : ps <> [] ->
  server_decode ps (Params.params_new None) = collect ps (Params.spec (map read_op ps) []).
Proof.
  intros N. unfold MacroApi.server_decode. destruct ps as [|p ps]; [congruence|].
  cbn [Params.params_new Params.is_object]. unfold decode_array.
  destruct (ParamsFacts.absent_params Params.TValue (map read_op (p :: ps))) as (_ & _ & E).
  cbn [Params.params_new] in E. rewrite E. reflexivity.
Qed.

(* ---------- positional: reads against the element list ---------- *)

Lemma spec_step_plain p v vs ops : p_opt p = false ->
  Params.spec (read_op p :: ops) (v :: vs) = Params.OVal (Params.VValue v) :: Params.spec ops vs.
Proof. intro E. unfold MacroApi.read_op. rewrite E. reflexivity. Qed.

Lemma spec_step_opt_null p vs ops : p_opt p = true ->
  Params.spec (read_op p :: ops) (JNull :: vs) = Params.OAbsent :: Params.spec ops vs.
Proof. intro E. unfold MacroApi.read_op. rewrite E. reflexivity. Qed.

Lemma spec_step_opt_val p v vs ops : p_opt p = true -> v <> JNull ->
  Params.spec (read_op p :: ops) (v :: vs) = Params.OVal (Params.VValue v) :: Params.spec ops vs.
Proof. intros E N. unfold MacroApi.read_op. rewrite E. destruct v; try reflexivity. congruence. Qed.

Lemma spec_step_end p ops : p_opt p = true ->
  Params.spec (read_op p :: ops) [] = Params.OAbsent :: Params.spec ops [].
Proof. intro E. unfold MacroApi.read_op. rewrite E. reflexivity. Qed.

(* one read at the element that encodes the argument *)
Lemma collect_cons p a ps vs ops : arg_ok p a ->
  collect (p :: ps) (Params.spec (read_op p :: ops) (arg_json p a :: vs)) =
  match collect ps (Params.spec ops vs) with DOk l => DOk (a :: l) | DErr c => DErr c end.
Proof.
  intro Ha. pose proof (typed_arg_json p a Ha) as T.
  destruct (p_opt p) eqn:Eo.
  - destruct a as [v|].
    + destruct Ha as [_ Nn]. specialize (Nn Eo). cbn [MacroApi.arg_json] in *.
      rewrite (spec_step_opt_val p _ vs ops Eo Nn). cbn [MacroApi.collect]. rewrite T. reflexivity.
    + cbn [MacroApi.arg_json]. rewrite (spec_step_opt_null p vs ops Eo). reflexivity.
  - rewrite (spec_step_plain p _ vs ops Eo). cbn [MacroApi.collect]. rewrite T. reflexivity.
Qed.

(* all arguments present (surplus elements are never read) *)
Lemma collect_spec ps args extra : args_ok ps args ->
  collect ps (Params.spec (map read_op ps) (args_json ps args ++ extra)) = DOk args.
Proof.
  induction 1 as [|p a ps args Ha _ IH]; [reflexivity|].
  rewrite args_json_cons. cbn [map app]. rewrite (collect_cons p a ps _ _ Ha), IH. reflexivity.
Qed.

(* once the elements are used up, the remaining Option parameters are absent *)
Lemma collect_exhausted pt : Forall (fun p => p_opt p = true) pt ->
  collect pt (Params.spec (map read_op pt) []) = DOk (repeat None (length pt)).
Proof.
  induction 1 as [|p pt Hp _ IH]; [reflexivity|]. cbn [map].
  rewrite (spec_step_end p _ Hp). cbn [MacroApi.collect length repeat]. rewrite IH. reflexivity.
Qed.

(* a trailing run of Option parameters left out of the array *)
Lemma collect_spec_omitted pf af pt : args_ok pf af -> Forall (fun p => p_opt p = true) pt ->
  collect (pf ++ pt) (Params.spec (map read_op (pf ++ pt)) (args_json pf af)) = DOk (af ++ repeat None (length pt)).
Proof.
  intros H Hp. induction H as [|p a pf af Ha _ IH].
  - cbn [app]. apply collect_exhausted, Hp.
  - rewrite args_json_cons. cbn [map app]. rewrite (collect_cons p a _ _ _ Ha), IH. reflexivity.
Qed.

(* ---------- by name: the derived ParamsObject ---------- *)

Notation assign := (@MacroApi.assign ty).
Notation finish := (MacroApi.finish ty val dec).
Notation finish_param := (MacroApi.finish_param ty val dec).
Notation owner_is := (@MacroApi.owner_is ty).
Notation owned := (@MacroApi.owned ty).

Lemma key_owner_lt (ps : list (param ty)) k i : key_owner ps k = Some i -> (i < length ps)%nat.
Proof.
  revert i. induction ps as [|p ps IH]; intros i H; [discriminate|]. cbn [key_owner] in H.
  destruct (has_key k p).
  - inv_some H. cbn [length]. lia.
  - destruct (key_owner ps k) as [j|]; [|discriminate]. inv_some H. specialize (IH j eq_refl). cbn [length]. lia.
Qed.

Lemma nth_set_nth_eq {A} i (x : A) l d : (i < length l)%nat -> nth i (set_nth i x l) d = x.
Proof. revert i. induction l as [|y l IH]; intros [|i] H; cbn in *; try lia; [reflexivity | apply IH; lia]. Qed.

Lemma nth_set_nth_neq {A} i j (x : A) l d : i <> j -> nth j (set_nth i x l) d = nth j l d.
Proof.
  revert i j. induction l as [|y l IH]; intros [|i] [|j] H; cbn; try reflexivity; try congruence.
  apply IH. congruence.
Qed.

Lemma length_set_nth {A} i (x : A) l : length (set_nth i x l) = length l.
Proof. revert i. induction l as [|y l IH]; intros [|i]; cbn; try reflexivity. rewrite IH. reflexivity. Qed.

Definition slot_of (ps : list (param ty)) (ms : list (bytes * json)) (i : nat) : option json :=
  match owned ps i ms with [] => None | v :: _ => Some v end.

(* the visit_map loop: every field receives the value of the one member it owns *)
Lemma assign_spec ps : forall ms slots,
  length slots = length ps ->
  (forall i, (length (owned ps i ms) <= 1)%nat /\ (nth i slots None <> None -> owned ps i ms = [])) ->
  exists res, assign ps ms slots = Some res /\ length res = length ps /\
    forall i, nth i res None = match nth i slots None with Some x => Some x | None => slot_of ps ms i end.
Proof.
  induction ms as [|[k v] ms IH]; intros slots L H.
  - exists slots. split; [reflexivity|]. split; [exact L|]. intro i. unfold slot_of, MacroApi.owned. cbn.
    destruct (nth i slots None); reflexivity.
  - cbn [MacroApi.assign]. destruct (key_owner ps k) as [o|] eqn:Eo.
    + assert (Ho : owner_is ps o (k, v) = true) by (unfold MacroApi.owner_is; cbn [fst]; rewrite Eo; apply Nat.eqb_refl).
      assert (Hne : forall j, j <> o -> owner_is ps j (k, v) = false).
      { intros j Hj. unfold MacroApi.owner_is. cbn [fst]. rewrite Eo. apply Nat.eqb_neq. exact Hj. }
      destruct (H o) as [Hlen Hfull]. unfold MacroApi.owned in Hlen, Hfull. cbn [filter] in Hlen, Hfull. rewrite Ho in Hlen, Hfull.
      cbn [map length] in Hlen.
      assert (Hrest : owned ps o ms = []).
      { unfold MacroApi.owned. destruct (map snd (filter (owner_is ps o) ms)); [reflexivity | cbn [length] in Hlen; lia]. }
      destruct (nth o slots None) as [x|] eqn:Es.
      { assert (C : Some x <> None) by discriminate. specialize (Hfull C). discriminate Hfull. }
      pose proof (key_owner_lt ps k o Eo) as Hlt.
      destruct (IH (set_nth o (Some v) slots)) as (res & R1 & R2 & R3).
      * rewrite length_set_nth. exact L.
      * intro j. destruct (Nat.eq_dec j o) as [->|Hj].
        -- rewrite Hrest. split; [cbn; lia | reflexivity].
        -- destruct (H j) as [Hl Hf]. unfold MacroApi.owned in Hl, Hf. cbn [filter] in Hl, Hf. rewrite (Hne j Hj) in Hl, Hf.
           rewrite (nth_set_nth_neq o j) by congruence. split; assumption.
      * exists res. split; [exact R1|]. split; [exact R2|]. intro j. rewrite R3.
        destruct (Nat.eq_dec j o) as [->|Hj].
        -- rewrite nth_set_nth_eq by lia. rewrite Es. unfold slot_of, MacroApi.owned. cbn [filter]. rewrite Ho. reflexivity.
        -- rewrite (nth_set_nth_neq o j) by congruence. unfold slot_of, MacroApi.owned. cbn [filter]. rewrite (Hne j Hj). reflexivity.
    + assert (Hne : forall j, owner_is ps j (k, v) = false) by (intro j; unfold MacroApi.owner_is; cbn [fst]; rewrite Eo; reflexivity).
      destruct (IH slots L) as (res & R1 & R2 & R3).
      * intro j. destruct (H j) as [Hl Hf]. unfold MacroApi.owned in Hl, Hf. cbn [filter] in Hl, Hf. rewrite (Hne j) in Hl, Hf. split; assumption.
      * exists res. split; [exact R1|]. split; [exact R2|]. intro j. rewrite R3.
        unfold slot_of, MacroApi.owned. cbn [filter]. rewrite (Hne j). reflexivity.
Qed.

Lemma nth_repeat_none {A} n i : nth i (repeat (@None A) n) None = None.
Proof. revert i. induction n as [|n IH]; intros [|i]; cbn; try reflexivity. apply IH. Qed.

Lemma finish_nth ps : forall slots args,
  length slots = length ps -> length args = length ps ->
  (forall i p, nth_error ps i = Some p -> finish_param p (nth i slots None) = Some (nth i args None)) ->
  finish ps slots = DOk args.
Proof.
  induction ps as [|p ps IH]; intros slots args Ls La H.
  - destruct args; [reflexivity | discriminate].
  - destruct slots as [|s slots]; [discriminate|]. destruct args as [|a args]; [discriminate|].
    cbn [MacroApi.finish hd tl]. pose proof (H 0%nat p eq_refl) as H0. cbn [nth] in H0. rewrite H0.
    rewrite (IH slots args); [reflexivity | cbn in Ls; lia | cbn in La; lia |].
    intros i q Hq. apply (H (S i) q Hq).
Qed.

Theorem decode_members_presents ps args ms : args_ok ps args -> presents ps args ms ->
  decode_members ps ms = DOk args.
Proof.
  intros Hok Hp. unfold MacroApi.decode_members.
  assert (Hone : forall i, (length (owned ps i ms) <= 1)%nat).
  { intro i. destruct (nth_error ps i) as [p|] eqn:Ep.
    - assert (Hl : (i < length args)%nat) by (rewrite (args_ok_length _ _ Hok); apply nth_error_Some; congruence).
      destruct (nth_error args i) as [a|] eqn:Ea; [|apply nth_error_None in Ea; lia].
      specialize (Hp i p a Ep Ea). destruct a; [rewrite Hp; cbn; lia|]. destruct Hp as [-> | ->]; cbn; lia.
    - unfold MacroApi.owned.
      assert (E : filter (owner_is ps i) ms = []).
      { clear -Ep. induction ms as [|[k v] ms IH]; [reflexivity|]. cbn [filter]. unfold MacroApi.owner_is at 1. cbn [fst].
        destruct (key_owner ps k) as [j|] eqn:Ej; [|exact IH].
        pose proof (key_owner_lt ps k j Ej). apply nth_error_None in Ep.
        replace (Nat.eqb i j) with false by (symmetry; apply Nat.eqb_neq; lia). exact IH. }
      rewrite E. cbn. lia. }
  destruct (assign_spec ps ms (repeat None (length ps))) as (res & R1 & R2 & R3).
  - apply repeat_length.
  - intro i. split; [apply Hone|]. rewrite nth_repeat_none. congruence.
  - rewrite R1. apply finish_nth; [exact R2 | apply (args_ok_length _ _ Hok)|].
    intros i p Ep. rewrite R3, nth_repeat_none.
    assert (Hl : (i < length args)%nat) by (rewrite (args_ok_length _ _ Hok); apply nth_error_Some; congruence).
    destruct (nth_error args i) as [a|] eqn:Ea; [|apply nth_error_None in Ea; lia].
    rewrite (nth_error_nth _ _ None Ea).
    assert (Ha : arg_ok p a).
    { clear -Hok Ep Ea. revert i Ep Ea. induction Hok as [|p0 a0 ps args H0 _ IH]; intros [|i] Ep Ea; try discriminate.
      - cbn in Ep, Ea. inv_some Ep. inv_some Ea. exact H0.
      - apply (IH i Ep Ea). }
    specialize (Hp i p a Ep Ea). unfold slot_of. destruct a as [v|].
    + rewrite Hp. cbn [MacroApi.finish_param]. apply (typed_arg_json p (Some v) Ha).
    + cbn [MacroApi.arg_ok] in Ha. destruct Hp as [-> | ->]; cbn [MacroApi.finish_param].
      * rewrite Ha. reflexivity.
      * unfold MacroApi.typed. rewrite Ha. reflexivity.
Qed.

(* ---------- the stub's own object presents its arguments (distinct keys) ---------- *)

Lemma has_key_name (p : param ty) : has_key (p_name p) p = true.
Proof. unfold has_key, keys_of. cbn [existsb]. rewrite bytes_eqb_refl. reflexivity. Qed.

Lemma has_key_in k (p : param ty) : has_key k p = true <-> In k (keys_of p).
Proof.
  unfold has_key. rewrite existsb_exists. split.
  - intros (x & Hx & E). apply bytes_eqb_eq in E. subst. exact Hx.
  - intro H. exists k. split; [exact H | apply bytes_eqb_refl].
Qed.

(* in a list with distinct keys, the name of a parameter is owned by no earlier parameter *)
Lemma distinct_not_earlier (pre : list (param ty)) p post q :
  params_distinct (pre ++ p :: post) = true -> In q pre -> has_key (p_name p) q = false.
Proof.
  induction pre as [|q0 pre IH]; intros D Hin; [destruct Hin|].
  cbn [app params_distinct] in D. apply andb_true_iff in D as [D0 D1].
  destruct Hin as [->|Hin]; [|apply IH; assumption].
  destruct (has_key (p_name p) q) eqn:E; [|reflexivity]. exfalso.
  apply has_key_in in E. rewrite forallb_forall in D0. specialize (D0 _ E).
  rewrite forallb_forall in D0. specialize (D0 p). rewrite has_key_name in D0.
  assert (Hp : In p (pre ++ p :: post)) by (apply in_or_app; right; left; reflexivity).
  specialize (D0 Hp). discriminate D0.
Qed.

Lemma key_owner_app_skip (pre : list (param ty)) rest k :
  (forall q, In q pre -> has_key k q = false) ->
  key_owner (pre ++ rest) k = match key_owner rest k with Some i => Some (length pre + i)%nat | None => None end.
Proof.
  induction pre as [|q pre IH]; intro H; cbn [app length].
  - destruct (key_owner rest k); reflexivity.
  - cbn [key_owner]. rewrite (H q (or_introl eq_refl)). rewrite IH by (intros q' Hq'; apply H; right; exact Hq').
    destruct (key_owner rest k); reflexivity.
Qed.

Lemma key_owner_own (pre : list (param ty)) p post :
  params_distinct (pre ++ p :: post) = true -> key_owner (pre ++ p :: post) (p_name p) = Some (length pre).
Proof.
  intro D. rewrite key_owner_app_skip by (intros q Hq; apply (distinct_not_earlier pre p post q D Hq)).
  cbn [key_owner]. rewrite has_key_name. f_equal. lia.
Qed.

Lemma owned_canonical (rest : list (param ty)) : forall pre arest i,
  params_distinct (pre ++ rest) = true -> length arest = length rest ->
  owned (pre ++ rest) i (args_members rest arest) =
    if (i <? length pre)%nat then []
    else match nth_error rest (i - length pre), nth_error arest (i - length pre) with
         | Some p, Some a => [arg_json p a]
         | _, _ => []
         end.
Proof.
  induction rest as [|p rest IH]; intros pre arest i D L.
  - destruct arest; [|discriminate]. unfold MacroApi.owned, MacroApi.args_members. cbn [combine map filter].
    destruct (i <? length pre)%nat; [reflexivity|]. destruct (i - length pre)%nat; reflexivity.
  - destruct arest as [|a arest]; [discriminate|]. rewrite args_members_cons.
    unfold MacroApi.owned. cbn [filter]. unfold MacroApi.owner_is at 1. cbn [fst].
    rewrite (key_owner_own pre p rest D).
    assert (D' : params_distinct ((pre ++ [p]) ++ rest) = true) by (rewrite <- app_assoc; exact D).
    assert (L' : length arest = length rest) by (cbn in L; lia).
    pose proof (IH (pre ++ [p]) arest i D' L') as Hi. rewrite <- app_assoc in Hi. cbn [app] in Hi.
    unfold MacroApi.owned in Hi. rewrite app_length in Hi. cbn [length] in Hi.
    destruct (Nat.eqb i (length pre)) eqn:Ei.
    + apply Nat.eqb_eq in Ei. subst i. cbn [map snd]. rewrite Hi.
      replace (length pre <? length pre + 1)%nat with true by (symmetry; apply Nat.ltb_lt; lia).
      replace (length pre <? length pre)%nat with false by (symmetry; apply Nat.ltb_ge; lia).
      rewrite Nat.sub_diag. reflexivity.
    + apply Nat.eqb_neq in Ei. rewrite Hi.
      destruct (i <? length pre)%nat eqn:E1.
      * apply Nat.ltb_lt in E1. replace (i <? length pre + 1)%nat with true by (symmetry; apply Nat.ltb_lt; lia). reflexivity.
      * apply Nat.ltb_ge in E1. replace (i <? length pre + 1)%nat with false by (symmetry; apply Nat.ltb_ge; lia).
        replace (i - length pre)%nat with (S (i - (length pre + 1)))%nat by lia. reflexivity.
Qed.

Theorem canonical_presents ps args : params_distinct ps = true -> args_ok ps args ->
  presents ps args (args_members ps args).
Proof.
  intros D H i p a Ep Ea. pose proof (owned_canonical ps [] args i D (args_ok_length _ _ H)) as E.
  cbn [app length] in E. rewrite Nat.sub_0_r in E. change (i <? 0)%nat with false in E. cbv iota in E.
  rewrite Ep, Ea in E. rewrite E. destruct a; [reflexivity | right].
  reflexivity.
Qed.

End Codec.

(* ====================================================================== *)
(* 3. names: what into_rpc registers                                       *)
(* ====================================================================== *)

Section NamesFacts.
Variable ty : Type.
Import Registry RegistryFacts.

(* the registrations on the single fresh module, value level *)
Definition apply_op (ms : methods) (o : op) : methods :=
  match o with
  | Reg O r => fst (v_register ms r)
  | Alias O al e => fst (v_alias ms al e)
  | _ => ms
  end.
Definition apply_ops (ms : methods) (os : list op) : methods := fold_left apply_op os ms.

Definition on_zero (o : op) : Prop :=
  match o with Reg O _ | Alias O _ _ => True | _ => False end.

Lemma vexec_single os : forall ms, Forall on_zero os -> vexec [ms] os = [apply_ops ms os].
Proof.
  induction os as [|o os IH]; intros ms H; [reflexivity|]. inversion H as [|? ? Ho Hos]; subst.
  unfold vexec, apply_ops. cbn [fold_left]. fold (vexec (fst (vstep [ms] o)) os). fold (apply_ops (apply_op ms o) os).
  assert (E : fst (vstep [ms] o) = [apply_op ms o]).
  { destruct o as [m r|m al e| | | | | |]; try destruct Ho; destruct m as [|m]; try destruct Ho; cbn [vstep length apply_op].
    - change (0 <? 1)%nat with true. cbv iota. cbn [nth]. destruct (v_register ms r). reflexivity.
    - change (0 <? 1)%nat with true. cbv iota. cbn [nth]. destruct (v_alias ms al e). reflexivity. }
  rewrite E. apply IH, Hos.
Qed.

Lemma into_rpc_on_zero (a : api ty) : Forall on_zero (into_rpc_ops a).
Proof.
  unfold into_rpc_ops. repeat (apply Forall_app; split).
  - unfold mapi. generalize 0%nat. induction (a_methods a) as [|m l IH]; intro i; [constructor|].
    cbn [mapi_from]. constructor; [exact I | apply IH].
  - unfold mapi. generalize 0%nat. induction (a_subs a) as [|m l IH]; intro i; [constructor|].
    cbn [mapi_from]. constructor; [exact I | apply IH].
  - induction (a_methods a) as [|m l IH]; [constructor|]. cbn [flat_map]. apply Forall_app. split; [|exact IH].
    unfold method_alias_regs. induction (m_aliases m); constructor; [exact I | assumption].
  - induction (a_subs a) as [|m l IH]; [constructor|]. cbn [flat_map]. apply Forall_app. split; [|exact IH].
    unfold sub_alias_regs. apply Forall_app. split.
    + induction (s_aliases m); constructor; [exact I | assumption].
    + induction (s_unsub_aliases m); constructor; [exact I | assumption].
Qed.

Theorem registry_value (a : api ty) : registry a = apply_ops [] (into_rpc_ops a).
Proof.
  unfold registry. rewrite get_view. destruct (exec_refines init (into_rpc_ops a) wf_init) as [_ V]. rewrite V.
  change (view init) with [@nil (name * binding)]. rewrite vexec_single by apply into_rpc_on_zero. reflexivity.
Qed.

(* an operation that succeeds adds entries at the end *)
Inductive good_op (ms : methods) : op -> methods -> Prop :=
| good_method n h : good_op ms (Reg 0 (RMethod n h)) [(n, Bind h KSync)]
| good_async n h : good_op ms (Reg 0 (RAsync n h)) [(n, Bind h KAsync)]
| good_blocking n h : good_op ms (Reg 0 (RBlocking n h)) [(n, Bind h KBlocking)]
| good_sub raw sn un h : good_op ms (Reg 0 (RSub raw sn un h)) [(un, Bind h KUnsub); (sn, Bind h KSub)]
| good_alias al e b : lookup e ms = Some b -> good_op ms (Alias 0 al e) [(al, b)].

Lemma NoDup_app_remove_r {A} (l r : list A) : NoDup (l ++ r) -> NoDup l.
Proof.
  induction l as [|x l IH]; intro H; [constructor|]. cbn [app] in H. inversion H as [|? ? Hx H']; subst.
  constructor; [intro Hin; apply Hx, in_or_app; left; exact Hin | apply IH, H'].
Qed.
Lemma NoDup_app_remove_l {A} (l r : list A) : NoDup (l ++ r) -> NoDup r.
Proof. induction l as [|x l IH]; intro H; [exact H|]. cbn [app] in H. inversion H; subst. apply IH. assumption. Qed.

Lemma not_in_app_l {A} (x : A) l r : NoDup (l ++ r) -> In x r -> ~ In x l.
Proof.
  induction l as [|y l IH]; intros ND Hr; [tauto|]. cbn [app] in ND. inversion ND as [|? ? Hy ND']; subst.
  intros [->|Hl]; [apply Hy, in_or_app; right; exact Hr | exact (IH ND' Hr Hl)].
Qed.

Lemma v_insert_fresh ms n b : ~ In n (map fst ms) -> fst (v_insert ms n b) = ms ++ [(n, b)].
Proof.
  intro H. apply lookup_none_iff in H. unfold v_insert. rewrite H. cbn [fst]. apply hm_insert_fresh, H.
Qed.

Lemma apply_good ms o es : good_op ms o es -> NoDup (map fst ms ++ map fst es) -> apply_op ms o = ms ++ es.
Proof.
  intros G ND. destruct G as [n h|n h|n h|raw sn un h|al e b Hl]; cbn [apply_op v_register map fst] in *.
  1-3: apply v_insert_fresh; apply (not_in_app_l n _ _ ND); left; reflexivity.
  - assert (Hun : ~ In un (map fst ms)) by (apply (not_in_app_l un _ _ ND); left; reflexivity).
    assert (Hsn : ~ In sn (map fst ms)) by (apply (not_in_app_l sn _ _ ND); right; left; reflexivity).
    assert (Hne : sn <> un).
    { apply NoDup_app_remove_l in ND. inversion ND as [|? ? Hx _]; subst. intro E. apply Hx. left. exact E. }
    apply beq_false in Hne. rewrite Hne.
    apply lookup_none_iff in Hun, Hsn.
    rewrite (proj2 (contains_key_false sn ms) Hsn), (proj2 (contains_key_false un ms) Hun).
    unfold v_insert. rewrite lookup_hm_insert, Hne, Hsn. cbn [fst].
    rewrite (hm_insert_fresh un _ ms Hun). rewrite hm_insert_fresh.
    + rewrite <- app_assoc. reflexivity.
    + rewrite lookup_app, Hsn. cbn [lookup]. rewrite Hne. reflexivity.
  - assert (Hal : ~ In al (map fst ms)) by (apply (not_in_app_l al _ _ ND); left; reflexivity).
    apply lookup_none_iff in Hal. unfold v_alias.
    rewrite (proj2 (contains_key_false al ms) Hal), Hl. cbn [fst]. apply hm_insert_fresh, Hal.
Qed.

Inductive good_ops : methods -> list op -> methods -> Prop :=
| good_nil ms : good_ops ms [] []
| good_cons ms o es os ess : good_op ms o es -> good_ops (ms ++ es) os ess -> good_ops ms (o :: os) (es ++ ess).

Lemma apply_good_ops ms os ess : good_ops ms os ess -> NoDup (map fst ms ++ map fst ess) -> apply_ops ms os = ms ++ ess.
Proof.
  induction 1 as [ms|ms o es os ess Go _ IH]; intro ND; [rewrite app_nil_r; reflexivity|].
  unfold apply_ops. cbn [fold_left]. fold (apply_ops (apply_op ms o) os).
  rewrite map_app, app_assoc in ND.
  rewrite (apply_good ms o es Go) by (apply NoDup_app_remove_r in ND; exact ND).
  rewrite IH by (rewrite map_app; exact ND). rewrite <- app_assoc. reflexivity.
Qed.

Lemma good_ops_app ms o1 e1 o2 e2 : good_ops ms o1 e1 -> good_ops (ms ++ e1) o2 e2 -> good_ops ms (o1 ++ o2) (e1 ++ e2).
Proof.
  induction 1 as [ms|ms o es os ess Go _ IH]; intro H2; cbn [app].
  - rewrite app_nil_r in H2. exact H2.
  - rewrite <- app_assoc. constructor; [exact Go|]. apply IH. rewrite <- app_assoc. exact H2.
Qed.

(* ---------- the four groups of registrations ---------- *)

Lemma good_methods (a : api ty) l : forall i ms, good_ops ms (mapi_from (method_reg a) i l) (mapi_from (method_entry a) i l).
Proof.
  induction l as [|m l IH]; intros i ms; [constructor|]. cbn [mapi_from].
  change (method_entry a i m :: mapi_from (method_entry a) (S i) l) with ([method_entry a i m] ++ mapi_from (method_entry a) (S i) l).
  constructor; [|apply IH].
  unfold method_reg, method_entry, method_binding. destruct (m_kind m); constructor.
Qed.

Lemma good_subs (a : api ty) l : forall j ms, good_ops ms (mapi_from (sub_reg a) j l) (concat (mapi_from (sub_entries a) j l)).
Proof.
  induction l as [|s l IH]; intros j ms; [constructor|]. cbn [mapi_from concat].
  constructor; [|apply IH]. unfold sub_reg, sub_entries, sub_binding, unsub_binding. constructor.
Qed.

Lemma lookup_keep n b ms es : lookup n ms = Some b -> lookup n (ms ++ es) = Some b.
Proof. intro H. rewrite lookup_app, H. reflexivity. Qed.

Lemma good_aliases tgt b als : forall ms, lookup tgt ms = Some b ->
  good_ops ms (map (fun al => Alias 0 al tgt) als) (map (fun al => (al, b)) als).
Proof.
  induction als as [|al als IH]; intros ms H; [constructor|]. cbn [map].
  change ((al, b) :: map (fun al0 => (al0, b)) als) with ([(al, b)] ++ map (fun al0 => (al0, b)) als).
  constructor; [constructor; exact H|]. apply IH, lookup_keep, H.
Qed.

Lemma good_method_aliases (a : api ty) l : forall i ms,
  (forall k m, nth_error l k = Some m -> lookup (rpc_identifier a (m_name m)) ms = Some (method_binding (i + k) m)) ->
  good_ops ms (flat_map (method_alias_regs a) l) (concat (mapi_from method_alias_entries i l)).
Proof.
  induction l as [|m l IH]; intros i ms H; [constructor|]. cbn [flat_map mapi_from concat].
  apply good_ops_app.
  - unfold method_alias_regs, method_alias_entries. apply good_aliases.
    specialize (H 0%nat m eq_refl). rewrite Nat.add_0_r in H. exact H.
  - apply IH. intros k m' Hk. apply lookup_keep. specialize (H (S k) m' Hk).
    replace (S i + k)%nat with (i + S k)%nat by lia. exact H.
Qed.

Lemma good_sub_aliases (a : api ty) l : forall j ms,
  (forall k s, nth_error l k = Some s ->
     lookup (rpc_identifier a (s_name s)) ms = Some (sub_binding a (j + k)) /\
     lookup (rpc_identifier a (unsub_name s)) ms = Some (unsub_binding a (j + k))) ->
  good_ops ms (flat_map (sub_alias_regs a) l) (concat (mapi_from (sub_alias_entries a) j l)).
Proof.
  induction l as [|s l IH]; intros j ms H; [constructor|]. cbn [flat_map mapi_from concat].
  apply good_ops_app.
  - unfold sub_alias_regs, sub_alias_entries. destruct (H 0%nat s eq_refl) as [H1 H2]. rewrite Nat.add_0_r in H1, H2.
    apply good_ops_app; [apply good_aliases, H1 | apply good_aliases, lookup_keep, H2].
  - apply IH. intros k s' Hk. destruct (H (S k) s' Hk) as [H1 H2].
    replace (S j + k)%nat with (j + S k)%nat by lia. split; apply lookup_keep; assumption.
Qed.

Lemma mapi_from_in {A B} (f : nat -> A -> B) l : forall i k x, nth_error l k = Some x -> In (f (i + k)%nat x) (mapi_from f i l).
Proof.
  induction l as [|y l IH]; intros i [|k] x H; try discriminate; cbn [mapi_from].
  - cbn in H. inv_some H. rewrite Nat.add_0_r. left. reflexivity.
  - right. replace (i + S k)%nat with (S i + k)%nat by lia. apply IH, H.
Qed.

Lemma in_concat_mapi {A B} (f : nat -> A -> list B) l : forall i k x y, nth_error l k = Some x -> In y (f (i + k)%nat x) ->
  In y (concat (mapi_from f i l)).
Proof.
  induction l as [|z l IH]; intros i [|k] x y H Hy; try discriminate; cbn [mapi_from concat]; apply in_or_app.
  - cbn in H. inv_some H. rewrite Nat.add_0_r in Hy. left. exact Hy.
  - right. replace (i + S k)%nat with (S i + k)%nat in Hy by lia. apply (IH (S i) k x y H Hy).
Qed.

Theorem registry_expected (a : api ty) : NoDup (registered_names a) -> registry a = expected_table a.
Proof.
  intro ND. rewrite registry_value. unfold registered_names in ND.
  change (expected_table a) with ([] ++ expected_table a). apply apply_good_ops; [|exact ND].
  unfold into_rpc_ops, expected_table, mapi in *.
  set (E1 := mapi_from (method_entry a) 0 (a_methods a)) in *.
  set (E2 := concat (mapi_from (sub_entries a) 0 (a_subs a))) in *.
  assert (ND12 : NoDup (map fst (E1 ++ E2))).
  { rewrite !map_app in ND. rewrite app_assoc in ND. apply NoDup_app_remove_r in ND. rewrite map_app. exact ND. }
  apply good_ops_app; [apply good_methods|]. cbn [app].
  apply good_ops_app; [apply good_subs|].
  apply good_ops_app.
  - apply good_method_aliases. intros k m Hk. cbn [Nat.add]. apply in_lookup_nodup; [exact ND12|].
    apply in_or_app. left. apply (mapi_from_in (method_entry a) _ 0 k m Hk).
  - apply good_sub_aliases. intros k s Hk. cbn [Nat.add].
    split; apply lookup_keep; (apply in_lookup_nodup; [exact ND12|]); apply in_or_app; right;
      apply (in_concat_mapi (sub_entries a) _ 0 k s _ Hk); cbn [Nat.add sub_entries]; [right; left | left]; reflexivity.
Qed.

(* every declared name resolves to its own handler, nothing else resolves *)
Theorem names_resolve (a : api ty) : NoDup (registered_names a) ->
  (forall i m, nth_error (a_methods a) i = Some m ->
     resolve a (rpc_identifier a (m_name m)) = Some (method_binding i m) /\
     (forall al, In al (m_aliases m) -> resolve a al = Some (method_binding i m))) /\
  (forall j s, nth_error (a_subs a) j = Some s ->
     resolve a (rpc_identifier a (s_name s)) = Some (sub_binding a j) /\
     resolve a (rpc_identifier a (unsub_name s)) = Some (unsub_binding a j) /\
     (forall al, In al (s_aliases s) -> resolve a al = Some (sub_binding a j)) /\
     (forall al, In al (s_unsub_aliases s) -> resolve a al = Some (unsub_binding a j))) /\
  (forall n, ~ In n (registered_names a) -> resolve a n = None).
Proof.
  intro ND. unfold resolve. rewrite (registry_expected a ND).
  assert (L : forall n b, In (n, b) (expected_table a) -> lookup n (expected_table a) = Some b)
    by (intros n b; apply in_lookup_nodup; exact ND).
  unfold expected_table, mapi in L.
  repeat split.
  - apply L. apply in_or_app. left. apply (mapi_from_in (method_entry a) _ 0 i m H).
  - intros al Hal. apply L. apply in_or_app. right. apply in_or_app. right. apply in_or_app. left.
    apply (in_concat_mapi method_alias_entries _ 0 i m _ H). unfold method_alias_entries. cbn [Nat.add].
    apply in_map_iff. exists al. split; [reflexivity | exact Hal].
  - apply L. apply in_or_app. right. apply in_or_app. left.
    apply (in_concat_mapi (sub_entries a) _ 0 j s _ H). right. left. reflexivity.
  - apply L. apply in_or_app. right. apply in_or_app. left.
    apply (in_concat_mapi (sub_entries a) _ 0 j s _ H). left. reflexivity.
  - intros al Hal. apply L. do 3 (apply in_or_app; right).
    apply (in_concat_mapi (sub_alias_entries a) _ 0 j s _ H). unfold sub_alias_entries. cbn [Nat.add].
    apply in_or_app. left. apply in_map_iff. exists al. split; [reflexivity | exact Hal].
  - intros al Hal. apply L. do 3 (apply in_or_app; right).
    apply (in_concat_mapi (sub_alias_entries a) _ 0 j s _ H). unfold sub_alias_entries. cbn [Nat.add].
    apply in_or_app. right. apply in_map_iff. exists al. split; [reflexivity | exact Hal].
  - intros n Hn. apply lookup_none_iff. exact Hn.
Qed.

End NamesFacts.

(* ====================================================================== *)
(* 4. the composed statements                                             *)
(* ====================================================================== *)

Section Composition.
Variable ty : Type.
Variable val : Type.
Variable enc : ty -> val -> json.
Variable dec : ty -> json -> option val.

Notation arg_ok := (arg_ok ty val enc dec).
Notation args_ok := (args_ok ty val enc dec).
Notation val_ok := (val_ok ty val enc dec).
Notation args_json := (args_json ty val enc).
Notation args_members := (args_members ty val enc).
Notation client_params := (client_params ty val enc).
Notation server_decode := (server_decode ty val dec).
Notation presents := (presents ty val enc).
Notation names_utf8 := (names_utf8 ty).
Notation stub_request := (stub_request ty val enc).
Notation server_receive := (server_receive ty val dec).
Notation server_response := (server_response ty val enc).
Notation client_result := (client_result ty val dec).
Notation item_notification := (item_notification ty val enc).
Notation client_item := (client_item ty val dec).

Lemma parse_args_array ps args : args_ok ps args ->
  parse_text (ser (JArr (args_json ps args))) = Some (JArr (args_json ps args)).
Proof. intro H. destruct (array_parses ty val enc dec ps args H) as [W D]. apply parse_text_ser; assumption. Qed.

Lemma parse_args_object ps args : names_utf8 ps -> args_ok ps args ->
  parse_text (ser (JObj (args_members ps args))) = Some (JObj (args_members ps args)).
Proof. intros U H. destruct (object_parses ty val enc dec ps args U H) as [W D]. apply parse_text_ser; assumption. Qed.

(* what the stub encodes, the generated server closure decodes to the same tuple *)
Theorem args_roundtrip k ps args :
  args_ok ps args -> (k = PMap -> params_distinct ps = true /\ names_utf8 ps) ->
  exists p, client_params k ps args = Builder.TOk p /\ server_decode ps (Params.params_new p) = DOk args.
Proof.
  intros H Hk. destruct ps as [|p0 ps0] eqn:Eps.
  - inversion H; subst. exists None. split; reflexivity.
  - rewrite <- Eps in *. assert (N : ps <> []) by (rewrite Eps; discriminate). destruct k.
    + exists (Some (ser (JArr (args_json ps args)))). split; [apply (client_params_array ty val enc dec); assumption|].
      rewrite (server_decode_array ty val dec ps _ (args_json ps args) N (parse_args_array ps args H)).
      rewrite <- (app_nil_r (args_json ps args)). apply (collect_spec ty val enc dec), H.
    + destruct (Hk eq_refl) as [D U].
      exists (Some (ser (JObj (args_members ps args)))). split; [apply (client_params_map ty val enc dec); assumption|].
      rewrite (server_decode_object ty val dec ps _ (args_members ps args) N (parse_args_object ps args U H)).
      apply (decode_members_presents ty val enc dec); [exact H | apply (canonical_presents ty val enc dec); assumption].
Qed.

Theorem client_params_text ps args : ps <> [] -> args_ok ps args ->
  client_params PArray ps args = Builder.TOk (Some (ser (JArr (args_json ps args)))) /\
  (names_utf8 ps -> client_params PMap ps args = Builder.TOk (Some (ser (JObj (args_members ps args))))).
Proof.
  intros N H. split; [exact (client_params_array ty val enc dec ps args N H) | intro U; exact (client_params_map ty val enc dec ps args N U H)].
Qed.

(* any array text whose elements are the arguments (any whitespace, surplus elements) *)
Theorem positional_any_text ps args raw extra : args_ok ps args ->
  parse_text raw = Some (JArr (args_json ps args ++ extra)) ->
  server_decode ps (Params.params_new (Some raw)) = DOk args.
Proof.
  intros H P. destruct ps as [|p0 ps0] eqn:Eps; [inversion H; reflexivity|]. rewrite <- Eps in *.
  rewrite (server_decode_array ty val dec ps raw _ ltac:(rewrite Eps; discriminate) P). apply (collect_spec ty val enc dec), H.
Qed.

(* trailing Option parameters: given (Some v / None as null), or left out of the array, or no params at all *)
Theorem optional_tail pf af pt raw_full raw_short :
  args_ok pf af -> Forall (fun p => p_opt p = true) pt ->
  parse_text raw_full = Some (JArr (args_json (pf ++ pt) (af ++ repeat None (length pt)))) ->
  parse_text raw_short = Some (JArr (args_json pf af)) ->
  server_decode (pf ++ pt) (Params.params_new (Some raw_full)) = DOk (af ++ repeat None (length pt)) /\
  server_decode (pf ++ pt) (Params.params_new (Some raw_short)) = DOk (af ++ repeat None (length pt)) /\
  (pf = [] -> server_decode (pf ++ pt) (Params.params_new None) = DOk (af ++ repeat None (length pt))).
Proof.
  intros H Hp P1 P2.
  assert (Hall : args_ok (pf ++ pt) (af ++ repeat None (length pt))).
  { apply Forall2_app; [exact H|]. clear -Hp. induction Hp as [|p pt Hp _ IH]; [constructor|].
    cbn [length repeat]. constructor; [exact Hp | exact IH]. }
  split; [|split].
  - rewrite <- (app_nil_r (args_json _ _)) in P1. apply (positional_any_text _ _ _ [] Hall P1).
  - destruct (pf ++ pt) as [|q0 qs] eqn:Eq.
    + apply app_eq_nil in Eq as [-> ->]. inversion H; subst. reflexivity.
    + assert (N : q0 :: qs <> []) by discriminate. rewrite <- Eq in *.
      rewrite (server_decode_array ty val dec (pf ++ pt) raw_short _ N P2).
      apply (collect_spec_omitted ty val enc dec); assumption.
  - intros ->. inversion H; subst. cbn [app]. destruct pt as [|q0 qs] eqn:Eq; [reflexivity|].
    assert (N : q0 :: qs <> []) by discriminate. rewrite <- Eq in *.
    rewrite (server_decode_absent ty val dec pt N). apply (collect_exhausted ty val dec), Hp.
Qed.

(* by name: any keys, any order, unknown members, absent optionals left out or null *)
Theorem named_any_presentation ps args raw ms : args_ok ps args ->
  parse_text raw = Some (JObj ms) -> presents ps args ms ->
  server_decode ps (Params.params_new (Some raw)) = DOk args.
Proof.
  intros H P Hp. destruct ps as [|p0 ps0] eqn:Eps; [inversion H; reflexivity|]. rewrite <- Eps in *.
  rewrite (server_decode_object ty val dec ps raw ms ltac:(rewrite Eps; discriminate) P).
  apply (decode_members_presents ty val enc dec); assumption.
Qed.

(* ---------- the answer ---------- *)

Theorem result_passthrough i rt v : WireFacts.wf_id i -> val_ok rt v ->
  client_result rt (server_response i rt (HOk v)) = Some (i, COk v).
Proof.
  intros Wi (W & D & R). unfold MacroApi.client_result, MacroApi.server_response.
  rewrite WireFacts.response_roundtrip; cbn [Wire.rs_id Wire.rs_payload]; [|exact Wi | apply WireFacts.raw_payload_ser, W].
  rewrite parse_text_ser, R; [reflexivity | exact W | unfold depth_limit; lia].
Qed.

Theorem error_passthrough i rt e : WireFacts.wf_id i -> WireFacts.wf_errobj e ->
  client_result rt (server_response i rt (HErr e)) = Some (i, CErr e).
Proof.
  intros Wi We. unfold MacroApi.client_result, MacroApi.server_response.
  rewrite WireFacts.response_roundtrip; cbn [Wire.rs_id Wire.rs_payload]; [reflexivity | exact Wi | exact We].
Qed.

Theorem item_passthrough name sid it v : utf8_valid name = true -> WireFacts.wf_subid sid -> val_ok it v ->
  client_item it (item_notification name sid it v) = Some (name, sid, Some v).
Proof.
  intros Un Ws (W & D & R). unfold MacroApi.client_item, MacroApi.item_notification.
  rewrite (WireFacts.sub_notif_roundtrip name sid false _ Un Ws (WireFacts.raw_payload_ser _ W)).
  rewrite parse_text_ser, R; [reflexivity | exact W | unfold depth_limit; lia].
Qed.

(* ---------- from the stub to the trait method ---------- *)

Lemma nonnull_container v : match v with JArr _ | JObj _ => True | _ => False end -> WireFacts.nonnull (ser v).
Proof. destruct v; try contradiction; intros _; reflexivity. Qed.

Lemma request_reaches (a : api ty) (id : Wire.id) name k ps args b :
  WireFacts.wf_id id -> utf8_valid name = true ->
  args_ok ps args -> (k = PMap -> params_distinct ps = true /\ names_utf8 ps) ->
  resolve a name = Some b -> params_of a b = Some ps ->
  exists text, stub_request id name k ps args = Some text /\ server_receive a text = RCall b args.
Proof.
  intros Wi Un H Hk Hr Hp.
  assert (Hshape : exists p, client_params k ps args = Builder.TOk p /\
            server_decode ps (Params.params_new p) = DOk args /\
            match p with Some t => WireFacts.raw_payload t /\ WireFacts.nonnull t | None => True end).
  { destruct ps as [|p0 ps0] eqn:Eps.
    - inversion H; subst. exists None. repeat split.
    - rewrite <- Eps in *. assert (N : ps <> []) by (rewrite Eps; discriminate). destruct k.
      + exists (Some (ser (JArr (args_json ps args)))). split; [apply (client_params_array ty val enc dec); assumption|]. split.
        * rewrite (server_decode_array ty val dec ps _ (args_json ps args) N (parse_args_array ps args H)).
          rewrite <- (app_nil_r (args_json ps args)). apply (collect_spec ty val enc dec), H.
        * split; [apply WireFacts.raw_payload_ser, (array_parses ty val enc dec ps args H) | apply nonnull_container; exact I].
      + destruct (Hk eq_refl) as [D U].
        exists (Some (ser (JObj (args_members ps args)))). split; [apply (client_params_map ty val enc dec); assumption|]. split.
        * rewrite (server_decode_object ty val dec ps _ (args_members ps args) N (parse_args_object ps args U H)).
          apply (decode_members_presents ty val enc dec); [exact H | apply (canonical_presents ty val enc dec); assumption].
        * split; [apply WireFacts.raw_payload_ser, (object_parses ty val enc dec ps args U H) | apply nonnull_container; exact I]. }
  destruct Hshape as (p & Hc & Hd & Hw).
  unfold MacroApi.stub_request. rewrite Hc. eexists. split; [reflexivity|].
  unfold MacroApi.server_receive. rewrite WireFacts.request_roundtrip; cbn [Wire.rq_id Wire.rq_method Wire.rq_params]; try assumption.
  rewrite Hr, Hp, Hd. reflexivity.
Qed.

Lemma params_of_method (a : api ty) i m : nth_error (a_methods a) i = Some m ->
  params_of a (method_binding i m) = Some (m_params m).
Proof.
  intro H. unfold params_of, method_binding, nth_method, method_tag. cbn [Registry.b_kind Registry.b_tag].
  rewrite Nat2N.id, H. destruct (m_kind m); reflexivity.
Qed.

Lemma params_of_sub (a : api ty) j s : nth_error (a_subs a) j = Some s ->
  params_of a (sub_binding a j) = Some (s_params s).
Proof.
  intro H. unfold params_of, sub_binding, nth_sub, sub_tag. cbn [Registry.b_kind Registry.b_tag].
  rewrite Nat2N.id. replace (length (a_methods a) + j <? length (a_methods a))%nat with false by (symmetry; apply Nat.ltb_ge; lia).
  replace (length (a_methods a) + j - length (a_methods a))%nat with j by lia. rewrite H. reflexivity.
Qed.

(* the generated client method, called with any well-typed arguments, makes the trait method of that name run with them *)
Theorem stub_call_reaches_method (a : api ty) i m (id : Wire.id) args :
  NoDup (registered_names a) -> nth_error (a_methods a) i = Some m ->
  WireFacts.wf_id id -> utf8_valid (rpc_identifier a (m_name m)) = true ->
  args_ok (m_params m) args ->
  (m_pkind m = PMap -> params_distinct (m_params m) = true /\ names_utf8 (m_params m)) ->
  exists text, stub_request id (rpc_identifier a (m_name m)) (m_pkind m) (m_params m) args = Some text /\
               server_receive a text = RCall (method_binding i m) args.
Proof.
  intros ND Hm Wi Un H Hk. destruct (names_resolve ty a ND) as (R1 & _ & _).
  apply (request_reaches a id _ _ _ _ (method_binding i m)); try assumption.
  - apply (proj1 (R1 i m Hm)).
  - apply params_of_method, Hm.
Qed.

Theorem stub_call_reaches_subscription (a : api ty) j s (id : Wire.id) args :
  NoDup (registered_names a) -> nth_error (a_subs a) j = Some s ->
  WireFacts.wf_id id -> utf8_valid (rpc_identifier a (s_name s)) = true ->
  args_ok (s_params s) args ->
  (s_pkind s = PMap -> params_distinct (s_params s) = true /\ names_utf8 (s_params s)) ->
  exists text, stub_request id (rpc_identifier a (s_name s)) (s_pkind s) (s_params s) args = Some text /\
               server_receive a text = RCall (sub_binding a j) args.
Proof.
  intros ND Hs Wi Un H Hk. destruct (names_resolve ty a ND) as (_ & R2 & _).
  apply (request_reaches a id _ _ _ _ (sub_binding a j)); try assumption.
  - apply (proj1 (R2 j s Hs)).
  - apply params_of_sub, Hs.
Qed.

End Composition.

(* ====================================================================== *)
(* 5. the hypotheses are needed; decidable side conditions                *)
(* ====================================================================== *)

Fixpoint distinctb (l : list bytes) : bool :=
  match l with [] => true | x :: r => negb (existsb (bytes_eqb x) r) && distinctb r end.

Lemma distinctb_nodup l : distinctb l = true -> NoDup l.
Proof.
  induction l as [|x r IH]; intro H; [constructor|]. cbn [distinctb] in H. apply andb_true_iff in H as [H1 H2].
  constructor; [|apply IH, H2]. intro Hin. apply negb_true_iff in H1.
  assert (E : existsb (bytes_eqb x) r = true) by (apply existsb_exists; exists x; split; [exact Hin | apply bytes_eqb_refl]).
  congruence.
Qed.

(* collide(a_b: u8, aB: u8) with param_kind = map: snake_case(aB) = a_b and lowerCamelCase(a_b) = aB, every key is owned by
   the first field; the stub's own object is rejected (duplicate field) *)
Definition collide_params : list (param jty) :=
  [Param b#"a_b" None false (TyUInt 255); Param b#"aB" None false (TyUInt 255)].

Theorem collision_refuted :
  exists (ps : list (param jty)) (args : list (option json)) (t : bytes),
    args_ok jty json jenc jdec ps args /\ names_utf8 jty ps /\ params_distinct ps = false /\
    client_params jty json jenc PMap ps args = Builder.TOk (Some t) /\
    server_decode jty json jdec ps (Params.params_new (Some t)) = DErr (-32602)%Z.
Proof.
  exists collide_params, [Some (JNum (NPos 1)); Some (JNum (NPos 2))]. eexists.
  split; [|split; [|split; [|split]]].
  - repeat constructor; try (cbn; lia); discriminate.
  - repeat constructor.
  - vm_compute. reflexivity.
  - vm_compute. reflexivity.
  - vm_compute. reflexivity.
Qed.

(* optopt(a: Option<Option<u8>>): the payload Some(None) is a value of the type Option<u8> that serialises to null *)
Theorem null_payload_refuted :
  exists (ps : list (param jty)) (v : json) (t : bytes),
    ps = [Param b#"a" None true (TyOption (TyUInt 255))] /\
    val_ok jty json jenc jdec (TyOption (TyUInt 255)) v /\
    client_params jty json jenc PArray ps [Some v] = Builder.TOk (Some t) /\
    server_decode jty json jdec ps (Params.params_new (Some t)) = DOk [None].
Proof.
  eexists. exists JNull. eexists. split; [reflexivity|]. split; [|split].
  - split; [reflexivity|]. split; [cbn; lia | reflexivity].
  - vm_compute. reflexivity.
  - vm_compute. reflexivity.
Qed.
