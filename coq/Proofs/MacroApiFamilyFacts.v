(* C17: the by-name member keys of the COMPILED family.  Gen/MacroApiGen.v carries, next to the API descriptions, the
   constant `family_keys`: per parameter the key the generated client writes and the keys the generated server accepts,
   computed by tools/translators/macroapi.py with the rules it reads from the proc-macro sources on every run
   (RpcFnArg::name, render_client.rs ParamKind::Map, render_server.rs ParamsObject).  Here: a decision procedure for
   "client and server agree on every parameter of every method, these are the keys the model uses, and no key is
   accepted for two parameters of one method", its soundness (general lemmas), and its value on the generated constants
   (computation).  A macro change on one side only, or a family member with clashing names, makes the computation false
   and this file stops compiling. *)
From Coq Require Import List Bool Lia.
From JV Require Import Base.Bytes Model.MacroApi Proofs.MacroApiFacts Gen.MacroApiGen.
Import ListNotations.

(* ---------- general lemmas ---------- *)

Fixpoint forall2b {A B : Type} (f : A -> B -> bool) (l : list A) (r : list B) : bool :=
  match l, r with
  | [], [] => true
  | x :: l', y :: r' => f x y && forall2b f l' r'
  | _, _ => false
  end.

Lemma forall2b_sound {A B : Type} (f : A -> B -> bool) (P : A -> B -> Prop) :
  forall l r, (forall x y, In x l -> f x y = true -> P x y) -> forall2b f l r = true -> Forall2 P l r.
Proof.
  induction l as [|x l IH]; intros [|y r] Hf H; cbn [forall2b] in H; try discriminate; [constructor|].
  apply andb_true_iff in H as [H1 H2]. constructor.
  - apply Hf; [left; reflexivity | exact H1].
  - apply IH; [|exact H2]. intros x' y' Hin. apply Hf. right. exact Hin.
Qed.

Fixpoint keys_eqb (a b : list bytes) : bool :=
  match a, b with
  | [], [] => true
  | x :: a', y :: b' => bytes_eqb x y && keys_eqb a' b'
  | _, _ => false
  end.

Lemma Forall2_weaken {A B : Type} (P Q : A -> B -> Prop) (H : forall x y, P x y -> Q x y) :
  forall l r, Forall2 P l r -> Forall2 Q l r.
Proof. induction 1; constructor; auto. Qed.

Lemma keys_eqb_eq a : forall b, keys_eqb a b = true -> a = b.
Proof.
  induction a as [|x a IH]; intros [|y b] H; cbn [keys_eqb] in H; try discriminate; [reflexivity|].
  apply andb_true_iff in H as [H1 H2]. apply bytes_eqb_eq in H1. subst. f_equal. apply IH, H2.
Qed.

(* params_distinct (the hypothesis of the round-trip theorems) says exactly that the key lists are disjoint *)
Lemma params_distinct_disjoint {ty : Type} (ps : list (param ty)) :
  params_distinct ps = true -> keys_disjoint (map keys_of ps).
Proof.
  induction ps as [|p r IH]; intros D i j ki kj k Hi Hj Ki Kj.
  - destruct i; discriminate Hi.
  - cbn [params_distinct] in D. apply andb_true_iff in D as [D0 D1]. rewrite forallb_forall in D0.
    assert (X : forall q k', In q r -> In k' (keys_of p) -> In k' (keys_of q) -> False).
    { intros q k' Hq Hp Hk. specialize (D0 _ Hp). rewrite forallb_forall in D0. specialize (D0 _ Hq).
      apply (has_key_in ty) in Hk. rewrite Hk in D0. discriminate D0. }
    destruct i as [|i], j as [|j]; cbn [map nth_error] in Hi, Hj.
    + reflexivity.
    + exfalso. injection Hi as <-. apply nth_error_In in Hj. apply in_map_iff in Hj as (q & <- & Hq). exact (X q k Hq Ki Kj).
    + exfalso. injection Hj as <-. apply nth_error_In in Hi. apply in_map_iff in Hi as (q & <- & Hq). exact (X q k Hq Kj Ki).
    + f_equal. exact (IH D1 i j ki kj k Hi Hj Ki Kj).
Qed.

(* ---------- the decision procedure ---------- *)

(* one parameter against its generated row: the client's key is the model's p_name, the server's keys are the model's
   keys_of, and the client's key is among the server's *)
Definition key_row_ok (p : param jty) (kp : bytes * list bytes) : bool :=
  bytes_eqb (fst kp) (p_name p) && keys_eqb (snd kp) (keys_of p) && existsb (bytes_eqb (fst kp)) (snd kp).

(* one trait function: every row, and distinct keys unless it is the labelled negative example collide(a_b, aB) *)
Definition key_rows_ok (ps : list (param jty)) (kps : list (bytes * list bytes)) : bool :=
  forall2b key_row_ok ps kps && (params_distinct ps || keys_eqb (map p_name ps) [b#"a_b"; b#"aB"]).

Definition family_keys_ok (fam : list japi) (keys : list (list (list (bytes * list bytes)))) : bool :=
  forall2b (fun a ks => forall2b key_rows_ok (item_params a) ks) fam keys.

Definition row_agrees (p : param jty) (kp : bytes * list bytes) : Prop :=
  fst kp = p_name p /\ snd kp = keys_of p /\ In (fst kp) (snd kp).

Lemma key_row_ok_sound p kp : key_row_ok p kp = true -> row_agrees p kp.
Proof.
  unfold key_row_ok. intro H. apply andb_true_iff in H as [H H3]. apply andb_true_iff in H as [H1 H2].
  apply bytes_eqb_eq in H1. apply keys_eqb_eq in H2. apply existsb_exists in H3 as (k & Hk & E).
  apply bytes_eqb_eq in E. subst k. repeat split; assumption.
Qed.

Lemma rows_snd ps : forall kps, Forall2 row_agrees ps kps -> map snd kps = map keys_of ps.
Proof.
  induction ps as [|p ps IH]; intros kps H; inversion H; subst; [reflexivity|].
  cbn [map]. f_equal; [apply H2 | apply IH; assumption].
Qed.

Lemma key_rows_ok_sound ps kps : key_rows_ok ps kps = true ->
  Forall2 row_agrees ps kps /\ (map p_name ps = [b#"a_b"; b#"aB"] \/ keys_disjoint (map snd kps)).
Proof.
  unfold key_rows_ok. intro H. apply andb_true_iff in H as [H1 H2].
  assert (R : Forall2 row_agrees ps kps).
  { apply (forall2b_sound key_row_ok); [|exact H1]. intros x y _. apply key_row_ok_sound. }
  split; [exact R|]. apply orb_true_iff in H2 as [D|N].
  - right. rewrite (rows_snd _ _ R). apply params_distinct_disjoint, D.
  - left. apply keys_eqb_eq, N.
Qed.

Lemma family_keys_ok_sound fam keys : family_keys_ok fam keys = true ->
  Forall2 (fun (a : japi) (ks : list (list (bytes * list bytes))) =>
    Forall2 (fun (ps : list (param jty)) (kps : list (bytes * list bytes)) =>
      Forall2 (fun (p : param jty) (kp : bytes * list bytes) => fst kp = p_name p /\ snd kp = keys_of p /\ In (fst kp) (snd kp)) ps kps /\
      (map p_name ps = [b#"a_b"; b#"aB"] \/ keys_disjoint (map snd kps)))
    (item_params a) ks) fam keys.
Proof.
  intro H. apply (forall2b_sound _ _ _ _ (fun a ks _ E => E)) in H. revert H. apply Forall2_weaken.
  intros a ks E. apply (forall2b_sound key_rows_ok); [|exact E]. intros ps kps _. apply key_rows_ok_sound.
Qed.

(* ---------- the compiled family ---------- *)

Theorem by_name_keys_agree :
  Forall2 (fun (a : japi) (ks : list (list (bytes * list bytes))) =>
    Forall2 (fun (ps : list (param jty)) (kps : list (bytes * list bytes)) =>
      Forall2 (fun (p : param jty) (kp : bytes * list bytes) => fst kp = p_name p /\ snd kp = keys_of p /\ In (fst kp) (snd kp)) ps kps /\
      (map p_name ps = [b#"a_b"; b#"aB"] \/ keys_disjoint (map snd kps)))
    (item_params a) ks) family family_keys.
Proof. apply family_keys_ok_sound. vm_compute. reflexivity. Qed.

(* ---------- which parameters the macro takes for optional (helpers::is_option, read by the translator) ---------- *)

(* Gen.MacroApiGen.family_options: per parameter (path segments of the declared type as spelled, the decision of the rule
   the translator read from helpers.rs).  One row: the decision is the p_opt of the description (so it is what the model's
   positional decoder uses), and a standard spelling of Option is decided optional. *)
Definition opt_row_ok (p : param jty) (r : list bytes * bool) : bool :=
  Bool.eqb (snd r) (p_opt p) && implb (is_std_option (fst r)) (p_opt p).

Definition family_options_ok (fam : list japi) (rows : list (list (list (list bytes * bool)))) : bool :=
  forall2b (fun a rs => forall2b (forall2b opt_row_ok) (item_params a) rs) fam rows.

Lemma opt_row_ok_sound p r : opt_row_ok p r = true -> snd r = p_opt p /\ (is_std_option (fst r) = true -> p_opt p = true).
Proof.
  unfold opt_row_ok. intro H. apply andb_true_iff in H as [H1 H2]. apply Bool.eqb_prop in H1. split; [exact H1|].
  intro E. rewrite E in H2. exact H2.
Qed.

Lemma family_options_ok_sound fam rows : family_options_ok fam rows = true ->
  Forall2 (fun (a : japi) (rs : list (list (list bytes * bool))) =>
    Forall2 (fun (ps : list (param jty)) (r : list (list bytes * bool)) =>
      Forall2 (fun (p : param jty) (x : list bytes * bool) => snd x = p_opt p /\ (is_std_option (fst x) = true -> p_opt p = true)) ps r)
    (item_params a) rs) fam rows.
Proof.
  intro H. apply (forall2b_sound _ _ _ _ (fun a rs _ E => E)) in H. revert H. apply Forall2_weaken.
  intros a rs E. apply (forall2b_sound _ _ _ _ (fun ps r _ E' => E')) in E. revert E. apply Forall2_weaken.
  intros ps r E. apply (forall2b_sound opt_row_ok); [|exact E]. intros p x _. apply opt_row_ok_sound.
Qed.

(* by computation on the generated constants: a rule in helpers.rs that forgets one of the spellings used in the family
   (e.g. a whitelist without `core::option::Option`) makes family_options_ok false and this stops compiling *)
Theorem option_spellings_are_optional :
  Forall2 (fun (a : japi) (rs : list (list (list bytes * bool))) =>
    Forall2 (fun (ps : list (param jty)) (r : list (list bytes * bool)) =>
      Forall2 (fun (p : param jty) (x : list bytes * bool) => snd x = p_opt p /\ (is_std_option (fst x) = true -> p_opt p = true)) ps r)
    (item_params a) rs) family family_options.
Proof. apply family_options_ok_sound. vm_compute. reflexivity. Qed.
