(* C16: facts about Model/Params.v. *)
From JV Require Import Base.Bytes Base.Dec Base.Utf8 Json.Json Json.JsonSer Json.JsonParse Json.JsonWf
  Gen.ErrorCodesGen Model.Params.
From JV Require Import Proofs.JsonFacts.
Local Open Scope N_scope.
Arguments N.ltb : simpl never.
Arguments N.leb : simpl never.
Arguments N.eqb : simpl never.

(* ---------- Unicode trimming ---------- *)

Lemma json_ws_uws1 c : is_json_ws c = true -> is_uws1 c = true.
Proof. destruct c; try discriminate; reflexivity. Qed.

(* a byte at which trim_start stops whatever follows *)
Definition stops (c : byte) : Prop :=
  is_uws1 c = false /\ (forall d, is_uws2 c d = false) /\ (forall d e, is_uws3 c d e = false).

Lemma ascii_stops c : is_uws1 c = false -> bN c <? 128 = true -> stops c.
Proof.
  intros H A. split; [exact H|]. split; intros; destruct c; try reflexivity; vm_compute in A; discriminate A.
Qed.

Lemma trim_start_stop c s : stops c -> rust_trim_start (c :: s) = c :: s.
Proof.
  intros (H1 & H2 & H3). cbn [rust_trim_start]. rewrite H1.
  destruct s as [|d s]; [reflexivity|]. rewrite H2. destruct s as [|e s]; [reflexivity|]. rewrite H3. reflexivity.
Qed.

Lemma trim_start_skip r c r2 : skip_ws r = c :: r2 -> stops c -> rust_trim_start r = c :: r2.
Proof.
  induction r as [|a r IH]; intros H S; [discriminate|].
  unfold skip_ws in H. cbn [drop_while] in H. destruct (is_json_ws a) eqn:W.
  - cbn [rust_trim_start]. rewrite (json_ws_uws1 a W). apply IH; assumption.
  - injection H as -> ->. apply trim_start_stop, S.
Qed.

Lemma comma_stops : stops x2c.
Proof. apply ascii_stops; reflexivity. Qed.
Lemma rbracket_stops : stops x5d.
Proof. apply ascii_stops; reflexivity. Qed.

(* ---------- the value reader ---------- *)

(* a successfully parsed value starts, after whitespace, at a byte that is neither ']' nor ',' *)
Lemma parse_value_head f d s v r : parse_value f d s = Some (v, r) ->
  exists c s1, skip_ws s = c :: s1 /\ beqb c x5d = false.
Proof.
  destruct f as [|f]; [discriminate|]. rewrite parse_value_S.
  destruct (skip_ws s) as [|c s1]; [discriminate|]. intro H. exists c, s1. split; [reflexivity|].
  destruct (beqb c x5d) eqn:E; [|reflexivity]. apply beqb_true in E. subst c. discriminate H.
Qed.

Lemma peek_ok_of_skip r c r2 : skip_ws r = c :: r2 -> (c = x2c \/ c = x5d) -> peek_end_ok r = true.
Proof.
  intros H Hc. destruct r as [|a r]; [discriminate|]. cbn [peek_end_ok].
  unfold skip_ws in H. cbn [drop_while] in H. destruct (is_json_ws a) eqn:W; [reflexivity|].
  injection H as -> _. destruct Hc as [-> | ->]; reflexivity.
Qed.

Lemma stream_next_value t f d s v r c r2 :
  parse_value f d s = Some (v, r) -> (d <= depth_limit)%nat ->
  skip_ws r = c :: r2 -> (c = x2c \/ c = x5d) ->
  stream_next t s = match decode t v with Some x => SVal x r | None => SErr end.
Proof.
  intros H D Hr Hc. unfold stream_next.
  destruct (parse_value_head _ _ _ _ _ H) as (ch & s1 & E & _). rewrite E.
  rewrite (parse_value_depth_mono _ _ _ _ _ (parse_value_enough_fuel _ _ _ _ H) D).
  rewrite (peek_ok_of_skip _ _ _ Hr Hc), orb_true_r. reflexivity.
Qed.

Definition is_delim (c : byte) : Prop := c = x5b \/ c = x2c.

(* one read at an element: the state is a delimiter followed by text that starts with the element *)
Lemma after_delim_value t s0 f d s v r c r2 :
  parse_value f d s = Some (v, r) -> (d <= depth_limit)%nat ->
  skip_ws r = c :: r2 -> (c = x2c \/ c = x5d) ->
  after_delim t s0 s = match decode t v with Some x => (IOk x, c :: r2) | None => (IErr, []) end.
Proof.
  intros H D Hr Hc. unfold after_delim. rewrite (stream_next_value t _ _ _ _ _ _ _ H D Hr Hc).
  destruct (decode t v); [|reflexivity].
  rewrite (trim_start_skip _ _ _ Hr); [reflexivity|]. destruct Hc as [-> | ->]; [apply comma_stops | apply rbracket_stops].
Qed.

Lemma next_inner_value t b f d s v r c r2 :
  is_delim b -> parse_value f d s = Some (v, r) -> (d <= depth_limit)%nat ->
  skip_ws r = c :: r2 -> (c = x2c \/ c = x5d) ->
  next_inner t (b :: s) = match decode t v with Some x => (IOk x, c :: r2) | None => (IErr, []) end.
Proof.
  intros Hb H D Hr Hc. destruct (parse_value_head _ _ _ _ _ H) as (ch & s1 & E & N).
  destruct Hb as [-> | ->]; cbn [next_inner]; cbv beta iota.
  - change (beqb x5b x5d) with false. change (beqb x5b x5b) with true. cbv iota.
    rewrite E, N. apply (after_delim_value _ _ _ _ _ _ _ _ _ H D Hr Hc).
  - change (beqb x2c x5d) with false. change (beqb x2c x5b) with false. change (beqb x2c x2c) with true. cbv iota.
    apply (after_delim_value _ _ _ _ _ _ _ _ _ H D Hr Hc).
Qed.

Lemma step_value o b f d s v r c r2 :
  is_delim b -> parse_value f d s = Some (v, r) -> (d <= depth_limit)%nat ->
  skip_ws r = c :: r2 -> (c = x2c \/ c = x5d) ->
  step o (b :: s) = match read_elem o v with Some res => (res, c :: r2) | None => (OErr invalid_params, []) end.
Proof.
  intros Hb H D Hr Hc. destruct o as [t | t]; unfold step, next, optional_next, read_elem.
  - rewrite (next_inner_value t _ _ _ _ _ _ _ _ Hb H D Hr Hc). destruct (decode t v); reflexivity.
  - rewrite (next_inner_value (TOpt t) _ _ _ _ _ _ _ _ Hb H D Hr Hc). cbn [decode].
    destruct v; try reflexivity; destruct (decode t _); reflexivity.
Qed.

(* ---------- exhausted / dead states ---------- *)

Lemma spec_nil ops : spec ops [] = map exhausted ops.
Proof. induction ops as [|o ops IH]; [reflexivity|]. cbn [spec map]. rewrite IH. reflexivity. Qed.

Lemma step_nil o : step o [] = (exhausted o, []).
Proof. destruct o; reflexivity. Qed.

Lemma run_nil ops : run ops [] = map exhausted ops.
Proof. induction ops as [|o ops IH]; [reflexivity|]. cbn [run map]. rewrite step_nil, IH. reflexivity. Qed.

Lemma step_closed o r : step o (x5d :: r) = (exhausted o, []).
Proof. destruct o; reflexivity. Qed.

Lemma run_closed ops r : run ops (x5d :: r) = map exhausted ops.
Proof. destruct ops as [|o ops]; [reflexivity|]. cbn [run map]. rewrite step_closed, run_nil. reflexivity. Qed.

Lemma step_empty_array o s1 r : skip_ws s1 = x5d :: r -> step o (x5b :: s1) = (exhausted o, []).
Proof. intro H. destruct o; unfold step, next, optional_next; cbn [next_inner]; rewrite H; reflexivity. Qed.

Lemma run_empty_array ops s1 r : skip_ws s1 = x5d :: r -> run ops (x5b :: s1) = map exhausted ops.
Proof.
  intro H. destruct ops as [|o ops]; [reflexivity|]. cbn [run map].
  rewrite (step_empty_array o s1 r H), run_nil. reflexivity.
Qed.

(* ---------- the element loop (F2): reads walk the parser's own element list ---------- *)

Lemma run_elems f : forall d s vs r b ops,
  parse_elems f d s = Some (vs, r) -> (d <= depth_limit)%nat -> is_delim b ->
  run ops (b :: s) = spec ops vs.
Proof.
  induction f as [|f IH]; intros d s vs r b ops H D Hb; [discriminate|].
  rewrite parse_elems_S in H.
  destruct (parse_value f d s) as [[v r1]|] eqn:Ev; [|discriminate].
  destruct (skip_ws r1) as [|c r2] eqn:Er; [discriminate|].
  destruct ops as [|o ops]; [reflexivity|].
  destruct (beqb c x2c) eqn:Ec.
  - apply beqb_true in Ec. subst c.
    destruct (parse_elems f d r2) as [[vs' r3]|] eqn:Ee; [|discriminate]. inv_some H.
    cbn [run spec]. rewrite (step_value o b _ _ _ _ _ _ _ Hb Ev D Er (or_introl eq_refl)).
    destruct (read_elem o v) as [res|].
    + f_equal. apply (IH d r2 vs' r x2c ops Ee D). right; reflexivity.
    + rewrite run_nil, spec_nil. reflexivity.
  - destruct (beqb c x5d) eqn:Ec2; [|discriminate]. apply beqb_true in Ec2. subst c. inv_some H.
    cbn [run spec]. rewrite (step_value o b _ _ _ _ _ _ _ Hb Ev D Er (or_intror eq_refl)).
    destruct (read_elem o v) as [res|].
    + rewrite run_closed, spec_nil. reflexivity.
    + rewrite run_nil, spec_nil. reflexivity.
Qed.

(* ---------- what Params::new stores ---------- *)

Lemma trim_start_head s : match rust_trim_start s with c :: _ => is_uws1 c = false | [] => True end.
Proof.
  induction s as [s IH] using bytes_len_ind.
  destruct s as [|c s1]; [exact I|]. cbn [rust_trim_start].
  destruct (is_uws1 c) eqn:E1; [apply IH; cbn; lia|].
  destruct s1 as [|d s2]; [exact E1|].
  destruct (is_uws2 c d); [apply IH; cbn; lia|].
  destruct s2 as [|e s3]; [exact E1|].
  destruct (is_uws3 c d e); [apply IH; cbn; lia | exact E1].
Qed.

Lemma rev_trim_suffix z : exists p, z = p ++ rev_trim z.
Proof.
  induction z as [z IH] using bytes_len_ind.
  destruct z as [|c s1]; [exists []; reflexivity|]. cbn [rev_trim].
  destruct (is_uws1 c).
  { destruct (IH s1 ltac:(cbn; lia)) as [p Hp]. exists (c :: p). cbn [app]. f_equal. exact Hp. }
  destruct s1 as [|d s2]; [exists []; reflexivity|].
  destruct (is_uws2 d c).
  { destruct (IH s2 ltac:(cbn; lia)) as [p Hp]. exists (c :: d :: p). cbn [app]. do 2 f_equal. exact Hp. }
  destruct s2 as [|e s3]; [exists []; reflexivity|].
  destruct (is_uws3 e d c).
  { destruct (IH s3 ltac:(cbn; lia)) as [p Hp]. exists (c :: d :: e :: p). cbn [app]. do 3 f_equal. exact Hp. }
  exists []; reflexivity.
Qed.

Lemma trim_end_prefix y : exists q, y = rust_trim_end y ++ q.
Proof.
  unfold rust_trim_end. destruct (rev_trim_suffix (rev y)) as [p Hp].
  exists (rev p). rewrite <- rev_app_distr, <- Hp, rev_involutive. reflexivity.
Qed.

(* the stored text never starts with (JSON) whitespace *)
Lemma trim_no_lead raw : skip_ws (rust_trim raw) = rust_trim raw.
Proof.
  unfold rust_trim. pose proof (trim_start_head raw) as H.
  destruct (trim_end_prefix (rust_trim_start raw)) as [q Hq].
  destruct (rust_trim_end (rust_trim_start raw)) as [|c t] eqn:E; [reflexivity|].
  rewrite Hq in H. cbn [app] in H. apply skip_ws_cons_nws.
  destruct (is_json_ws c) eqn:W; [|reflexivity]. apply json_ws_uws1 in W. congruence.
Qed.

(* ---------- shape of an array text ---------- *)

Lemma parse_array_inv f d s vs r : parse_value f d s = Some (JArr vs, r) ->
  exists f' d' s1, f = S f' /\ d = S (S d') /\ skip_ws s = x5b :: s1 /\
    ((vs = [] /\ skip_ws s1 = x5d :: r) \/
     (parse_elems f' (S d') s1 = Some (vs, r) /\ exists c2 r0, skip_ws s1 = c2 :: r0 /\ beqb c2 x5d = false)).
Proof.
  destruct f as [|f]; [discriminate|]. rewrite parse_value_S. intro H.
  destruct (skip_ws s) as [|c s1] eqn:Es; [discriminate|].
  repeat step H; inv_some H; beqb_norm.
  - exists f, n0, s1. repeat split. left. split; [reflexivity | assumption].
  - exists f, n0, s1. repeat split. right. split; [assumption|]. eauto.
Qed.

Lemma bytes_eqb_false a b : a <> b -> bytes_eqb a b = false.
Proof. intro N. destruct (bytes_eqb a b) eqn:E; [|reflexivity]. apply bytes_eqb_eq in E. contradiction. Qed.

(* reading the stored text of an array *)
Lemma read_seq_array text vs ops :
  skip_ws text = text -> parse_text text = Some (JArr vs) -> read_seq (Some text) ops = spec ops vs.
Proof.
  intros Hw H. unfold parse_text in H.
  destruct (parse_value (S (length text)) depth_limit text) as [[v r]|] eqn:E; [|discriminate].
  destruct (skip_ws r) eqn:Er; [|discriminate]. inv_some H.
  apply parse_array_inv in E as (f' & d' & s1 & Hf & Hd & Hs & [[-> Hc] | [He (c2 & r0 & Hc & Hn)]]).
  - rewrite Hw in Hs. subst text. unfold read_seq, sequence. rewrite spec_nil.
    destruct (bytes_eqb (x5b :: s1) b#"[]"); [apply run_nil | apply (run_empty_array ops s1 r Hc)].
  - rewrite Hw in Hs. subst text. unfold read_seq, sequence.
    rewrite bytes_eqb_false.
    + apply (run_elems f' (S d') s1 vs r x5b ops He); [unfold depth_limit in *; lia | left; reflexivity].
    + intro Q. injection Q as ->. cbn in Hc. injection Hc as <- _. discriminate Hn.
Qed.

(* ---------- theorems on the stored text ---------- *)

Lemma typed_agrees_stored raw vs ops :
  parse_text (rust_trim raw) = Some (JArr vs) -> read_seq (params_new (Some raw)) ops = spec ops vs.
Proof. intro H. cbn [params_new]. apply read_seq_array; [apply trim_no_lead | exact H]. Qed.

Definition values (vs : list json) : list out := map (fun v => OVal (VValue v)) vs.

Lemma spec_values_prefix n : forall vs ops, (n <= length vs)%nat ->
  spec (repeat (ONext TValue) n ++ ops) vs = values (firstn n vs) ++ spec ops (skipn n vs).
Proof.
  induction n as [|n IH]; intros vs ops L; [reflexivity|].
  destruct vs as [|v vs]; [cbn in L; lia|].
  cbn [repeat app spec read_elem decode firstn skipn values map]. f_equal. apply IH. cbn in L. lia.
Qed.

Lemma spec_all_values vs tail :
  spec (repeat (ONext TValue) (length vs) ++ tail) vs = values vs ++ map exhausted tail.
Proof.
  rewrite spec_values_prefix by lia. rewrite firstn_all, skipn_all, spec_nil. reflexivity.
Qed.

Lemma spec_null_at i : forall vs t rest, nth_error vs i = Some JNull ->
  spec (repeat (ONext TValue) i ++ OOpt t :: rest) vs = values (firstn i vs) ++ OAbsent :: spec rest (skipn (S i) vs).
Proof.
  intros vs t rest H.
  assert (L : (i < length vs)%nat) by (apply nth_error_Some; congruence).
  rewrite spec_values_prefix by lia. f_equal.
  assert (E : skipn i vs = JNull :: skipn (S i) vs).
  { clear L. revert vs H. induction i as [|i IH]; intros [|v vs] H; try discriminate.
    - cbn in H. injection H as ->. reflexivity.
    - cbn [nth_error] in H. cbn [skipn]. apply IH, H. }
  rewrite E. reflexivity.
Qed.

(* ---------- only -32602 ---------- *)

Lemma invalid_params_value : invalid_params = (-32602)%Z.
Proof. reflexivity. Qed.

Definition code_ok (o : out) : Prop := match o with OErr c => c = (-32602)%Z | _ => True end.

Lemma step_code_ok o s : code_ok (fst (step o s)).
Proof.
  destruct o as [t|t]; unfold step, next, optional_next.
  - destruct (next_inner t s) as [[| |v] s']; cbn; auto using invalid_params_value.
  - destruct (next_inner (TOpt t) s) as [[| |v] s']; cbn; auto using invalid_params_value.
    destruct v; cbn; exact I.
Qed.

Lemma run_code_ok ops : forall s, Forall code_ok (run ops s).
Proof.
  induction ops as [|o ops IH]; intro s; [constructor|]. cbn [run].
  pose proof (step_code_ok o s) as H. destruct (step o s) as [r s']. constructor; [exact H | apply IH].
Qed.

Lemma result_code_ok x : code_ok (result_of x).
Proof. destruct x; cbn; auto using invalid_params_value. Qed.

Lemma parse_code_ok t p : code_ok (parse t p).
Proof. unfold parse. destruct (parse_text (params_text p)); [apply result_code_ok | reflexivity]. Qed.

Lemma one_code_ok t p : code_ok (one t p).
Proof.
  unfold one. destruct (parse_text (params_text p)) as [[| | | |[|x [|y l]]|]|]; try reflexivity. apply result_code_ok.
Qed.

(* ---------- stickiness ---------- *)

Definition dead (s : bytes) : Prop :=
  s = [] \/
  (exists c s1, s = c :: s1 /\ beqb c x5d = false /\ beqb c x5b = false /\ beqb c x2c = false) \/
  (exists c s1, s = c :: s1 /\ is_delim c /\ skip_ws s1 = []).

Lemma after_delim_cases t b s1 :
  (exists v s', after_delim t (b :: s1) s1 = (IOk v, s')) \/
  after_delim t (b :: s1) s1 = (IErr, []) \/
  (after_delim t (b :: s1) s1 = (INone, b :: s1) /\ skip_ws s1 = []).
Proof.
  unfold after_delim, stream_next. destruct (skip_ws s1) as [|c r] eqn:E; [right; right; split; reflexivity|].
  destruct (parse_value _ _ s1) as [[j r']|]; [|right; left; reflexivity].
  destruct (decode t j); [|right; left; reflexivity].
  destruct (self_delineated c || peek_end_ok r'); [left; eauto | right; left; reflexivity].
Qed.

Lemma next_inner_cases t s :
  (exists v s', next_inner t s = (IOk v, s')) \/ (exists r s', next_inner t s = (r, s') /\ r <> INone /\ r = IErr /\ dead s') \/
  (exists s', next_inner t s = (INone, s') /\ dead s').
Proof.
  destruct s as [|c s1]; [right; right; exists []; split; [reflexivity | left; reflexivity]|].
  cbn [next_inner]. destruct (beqb c x5d) eqn:E1.
  { right; right. exists []. split; [reflexivity | left; reflexivity]. }
  assert (AD : is_delim c ->
    (exists v s', after_delim t (c :: s1) s1 = (IOk v, s')) \/
    (exists r s', after_delim t (c :: s1) s1 = (r, s') /\ r <> INone /\ r = IErr /\ dead s') \/
    (exists s', after_delim t (c :: s1) s1 = (INone, s') /\ dead s')).
  { intro Hd. destruct (after_delim_cases t c s1) as [H | [H | [H W]]].
    - left. exact H.
    - right; left. exists IErr, []. repeat split; [exact H | discriminate | left; reflexivity].
    - right; right. exists (c :: s1). split; [exact H|]. right; right. exists c, s1. repeat split; assumption. }
  destruct (beqb c x5b) eqn:E2.
  { apply beqb_true in E2. subst c. destruct (skip_ws s1) as [|c2 r] eqn:Ew.
    - apply AD. left; reflexivity.
    - destruct (beqb c2 x5d).
      + right; right. exists []. split; [reflexivity | left; reflexivity].
      + apply AD. left; reflexivity. }
  destruct (beqb c x2c) eqn:E3.
  { apply beqb_true in E3. subst c. apply AD. right; reflexivity. }
  right; left. exists IErr, (c :: s1). repeat split; [discriminate|]. right; left. exists c, s1. repeat split; assumption.
Qed.

Lemma step_err_dead o s : is_error (fst (step o s)) = true -> dead (snd (step o s)).
Proof.
  destruct o as [t|t]; unfold step, next, optional_next.
  - destruct (next_inner_cases t s) as [(v & s' & E) | [(r & s' & E & _ & -> & D) | (s' & E & D)]]; rewrite E; cbn; [discriminate | auto | auto].
  - destruct (next_inner_cases (TOpt t) s) as [(v & s' & E) | [(r & s' & E & _ & -> & D) | (s' & E & D)]]; rewrite E; cbn.
    + destruct v; cbn; discriminate.
    + auto.
    + discriminate.
Qed.

Lemma dead_next_inner t s : dead s -> exists r, next_inner t s = (r, s) /\ (r = INone \/ r = IErr) \/ next_inner t s = (INone, []).
Proof.
  intros [-> | [(c & s1 & -> & E1 & E2 & E3) | (c & s1 & -> & Hd & W)]].
  - exists INone. left. split; [reflexivity | left; reflexivity].
  - exists IErr. left. cbn [next_inner]. rewrite E1, E2, E3. split; [reflexivity | right; reflexivity].
  - exists INone. left. split; [|left; reflexivity].
    destruct Hd as [-> | ->]; cbn [next_inner]; cbv beta iota.
    + change (beqb x5b x5d) with false. change (beqb x5b x5b) with true. cbv iota. rewrite W.
      unfold after_delim, stream_next. rewrite W. reflexivity.
    + change (beqb x2c x5d) with false. change (beqb x2c x5b) with false. change (beqb x2c x2c) with true. cbv iota.
      unfold after_delim, stream_next. rewrite W. reflexivity.
Qed.

Lemma dead_step o s : dead s -> is_value (fst (step o s)) = false /\ dead (snd (step o s)).
Proof.
  intro D. destruct o as [t|t]; unfold step, next, optional_next.
  - destruct (dead_next_inner t s D) as [r [[E [-> | ->]] | E]]; rewrite E; cbn; split; auto; left; reflexivity.
  - destruct (dead_next_inner (TOpt t) s D) as [r [[E [-> | ->]] | E]]; rewrite E; cbn; split; auto; left; reflexivity.
Qed.

Lemma dead_run ops : forall s, dead s -> Forall (fun r => is_value r = false) (run ops s).
Proof.
  induction ops as [|o ops IH]; intros s D; [constructor|]. cbn [run].
  destruct (dead_step o s D) as [H1 H2]. destruct (step o s) as [r s']. constructor; [exact H1 | apply IH, H2].
Qed.

Lemma error_sticky o s ops :
  is_error (fst (step o s)) = true -> Forall (fun r => is_value r = false) (run ops (snd (step o s))).
Proof. intro H. apply dead_run, step_err_dead, H. Qed.

(* ---------- Params::new keeps a JSON text a JSON text (same value) ---------- *)

Lemma parse_value_vstart f d s v r : parse_value f d s = Some (v, r) ->
  exists c s1, skip_ws s = c :: s1 /\ vstart c = true.
Proof.
  destruct f as [|f]; [discriminate|]. rewrite parse_value_S.
  destruct (skip_ws s) as [|c s1]; [discriminate|]. intro H. exists c, s1. split; [reflexivity|].
  destruct (vstart c) eqn:V; [reflexivity|]. unfold vstart in V.
  repeat match type of V with _ || _ = false => apply orb_false_iff in V as [V ?] end.
  repeat match goal with E : _ = false |- _ => rewrite E in H; clear E end. discriminate H.
Qed.

Lemma parse_value_skip f d s : parse_value f d (skip_ws s) = parse_value f d s.
Proof. destruct f as [|f]; [reflexivity|]. rewrite !parse_value_S, skip_ws_idem. reflexivity. Qed.

Lemma vstart_stops c : vstart c = true -> stops c.
Proof.
  intro H. apply ascii_stops; destruct c; try reflexivity; vm_compute in H; discriminate H.
Qed.

(* a byte at which trim_end stops whatever precedes *)
Definition rstops (l : byte) : Prop :=
  is_uws1 l = false /\ (forall d, is_uws2 d l = false) /\ (forall d e, is_uws3 e d l = false).

Lemma uws2_last d l : is_uws2 d l = true -> ascii l = false.
Proof.
  unfold is_uws2. intro H. apply andb_true_iff in H as [_ H].
  destruct l; try reflexivity; vm_compute in H; discriminate H.
Qed.

Lemma uws3_last e d l : is_uws3 e d l = true -> ascii l = false.
Proof.
  unfold is_uws3. intro H.
  apply orb_true_iff in H as [H|H]; [apply orb_true_iff in H as [H|H]; [apply orb_true_iff in H as [H|H]|]|].
  all: apply andb_true_iff in H as [_ H]; destruct l; try reflexivity; vm_compute in H; discriminate H.
Qed.

Lemma ascii_rstops l : is_uws1 l = false -> ascii l = true -> rstops l.
Proof.
  intros H A. split; [exact H|]. split.
  - intro d. destruct (is_uws2 d l) eqn:E; [|reflexivity]. apply uws2_last in E. congruence.
  - intros d e. destruct (is_uws3 e d l) eqn:E; [|reflexivity]. apply uws3_last in E. congruence.
Qed.

Lemma vend_rstops l : vend l = true -> rstops l.
Proof.
  intro H. apply ascii_rstops; [|apply vend_ascii, H].
  destruct l; try reflexivity; vm_compute in H; discriminate H.
Qed.

Lemma rev_trim_stop l z : rstops l -> rev_trim (l :: z) = l :: z.
Proof.
  intros (H1 & H2 & H3). cbn [rev_trim]. rewrite H1.
  destruct z as [|d z]; [reflexivity|]. rewrite H2. destruct z as [|e z]; [reflexivity|]. rewrite H3. reflexivity.
Qed.

Lemma rev_trim_ws w z : forallb is_json_ws w = true -> rev_trim (w ++ z) = rev_trim z.
Proof.
  induction w as [|a w IH]; intro H; [reflexivity|]. cbn [forallb] in H. apply andb_true_iff in H as [H1 H2].
  cbn [app rev_trim]. rewrite (json_ws_uws1 a H1). apply IH, H2.
Qed.

Lemma forallb_rev (p : byte -> bool) l : forallb p l = true -> forallb p (rev l) = true.
Proof.
  rewrite !forallb_forall. intros H x Hx. apply H. apply in_rev. exact Hx.
Qed.

Lemma trim_end_core t r : t <> [] -> rstops (last t x20) -> forallb is_json_ws r = true ->
  rust_trim_end (t ++ r) = t.
Proof.
  intros N S W. unfold rust_trim_end. rewrite rev_app_distr, (rev_trim_ws _ _ (forallb_rev _ _ W)).
  rewrite (app_removelast_last x20 N) at 1. rewrite rev_unit, (rev_trim_stop _ _ S).
  cbn [rev]. rewrite rev_involutive. symmetry. apply app_removelast_last. exact N.
Qed.

Lemma new_keeps_json raw j : parse_text raw = Some j -> parse_text (rust_trim raw) = Some j.
Proof.
  unfold parse_text at 1. intro H.
  destruct (parse_value (S (length raw)) depth_limit raw) as [[j' r]|] eqn:E; [|discriminate].
  destruct (skip_ws r) eqn:Er; [|discriminate]. inv_some H.
  destruct (parse_value_vstart _ _ _ _ _ E) as (c & s1 & Es & V).
  rewrite <- parse_value_skip, Es in E.
  destruct (parse_value_split _ _ _ _ _ E) as (t & Ht & _).
  pose proof (parse_value_trunc _ _ _ _ _ E t Ht) as T.
  destruct (parse_value_ends_vend _ _ _ _ T) as [Ne Vd].
  unfold rust_trim. rewrite (trim_start_skip _ _ _ Es (vstart_stops c V)), Ht.
  rewrite (trim_end_core t r Ne (vend_rstops _ Vd) (skip_ws_nil_all r Er)).
  unfold parse_text. rewrite (parse_value_enough_fuel _ _ _ _ T). reflexivity.
Qed.

(* ---------- theorems on the raw text ---------- *)

Lemma typed_agrees raw vs ops :
  parse_text raw = Some (JArr vs) -> read_seq (params_new (Some raw)) ops = spec ops vs.
Proof. intro H. apply typed_agrees_stored, new_keeps_json, H. Qed.

Lemma sequence_agrees raw vs tail :
  parse_text raw = Some (JArr vs) ->
  read_seq (params_new (Some raw)) (repeat (ONext TValue) (length vs) ++ tail) = values vs ++ map exhausted tail.
Proof. intro H. rewrite (typed_agrees raw vs _ H). apply spec_all_values. Qed.

Lemma optional_absent_at_null raw vs i t rest :
  parse_text raw = Some (JArr vs) -> nth_error vs i = Some JNull ->
  read_seq (params_new (Some raw)) (repeat (ONext TValue) i ++ OOpt t :: rest) =
    values (firstn i vs) ++ OAbsent :: spec rest (skipn (S i) vs).
Proof. intros H N. rewrite (typed_agrees raw vs _ H). apply spec_null_at, N. Qed.

Definition not_array (j : json) : Prop := match j with JArr _ => False | _ => True end.

Lemma parse_value_head_kind f d s v r : parse_value f d s = Some (v, r) -> not_array v ->
  exists c s1, skip_ws s = c :: s1 /\ beqb c x5d = false /\ beqb c x5b = false /\ beqb c x2c = false.
Proof.
  destruct f as [|f]; [discriminate|]. rewrite parse_value_S.
  destruct (skip_ws s) as [|c s1]; [discriminate|]. intros H NA. exists c, s1. split; [reflexivity|].
  repeat split.
  - destruct (beqb c x5d) eqn:E; [|reflexivity]. apply beqb_true in E. subst c. discriminate H.
  - destruct (beqb c x5b) eqn:E; [|reflexivity]. apply beqb_true in E. subst c.
    change (beqb x5b x6e) with false in H. change (beqb x5b x74) with false in H. change (beqb x5b x66) with false in H.
    change (beqb x5b x22) with false in H. change (is_num_start x5b) with false in H. change (beqb x5b x5b) with true in H.
    cbv iota in H. repeat step H; inv_some H; destruct NA.
  - destruct (beqb c x2c) eqn:E; [|reflexivity]. apply beqb_true in E. subst c. discriminate H.
Qed.

Lemma run_bad_head ops c s1 : beqb c x5d = false -> beqb c x5b = false -> beqb c x2c = false ->
  run ops (c :: s1) = map (fun _ => OErr invalid_params) ops.
Proof.
  intros E1 E2 E3. induction ops as [|o ops IH]; [reflexivity|]. cbn [run map].
  assert (S : step o (c :: s1) = (OErr invalid_params, c :: s1)).
  { destruct o; unfold step, next, optional_next; cbn [next_inner]; rewrite E1, E2, E3; reflexivity. }
  rewrite S, IH. reflexivity.
Qed.

Lemma non_array_stored text j ops : skip_ws text = text -> parse_text text = Some j -> not_array j ->
  read_seq (Some text) ops = map (fun _ => OErr invalid_params) ops.
Proof.
  intros Hw H NA. unfold parse_text in H.
  destruct (parse_value (S (length text)) depth_limit text) as [[v r]|] eqn:E; [|discriminate].
  destruct (skip_ws r); [|discriminate]. inv_some H.
  destruct (parse_value_head_kind _ _ _ _ _ E NA) as (c & s1 & Es & E1 & E2 & E3).
  rewrite Hw in Es. subst text. unfold read_seq, sequence.
  rewrite bytes_eqb_false; [apply run_bad_head; assumption|].
  intro Q. injection Q as -> _. discriminate E2.
Qed.

Lemma non_array raw j ops : parse_text raw = Some j -> not_array j ->
  read_seq (params_new (Some raw)) ops = map (fun _ => OErr invalid_params) ops.
Proof.
  intros H NA. cbn [params_new]. apply (non_array_stored _ j); [apply trim_no_lead | apply new_keeps_json, H | exact NA].
Qed.

Lemma parse_agrees raw j t : parse_text raw = Some j -> parse t (params_new (Some raw)) = result_of (decode t j).
Proof. intro H. unfold parse. cbn [params_new params_text]. rewrite (new_keeps_json raw j H). reflexivity. Qed.

Lemma one_agrees raw j t : parse_text raw = Some j ->
  one t (params_new (Some raw)) = match j with JArr [x] => result_of (decode t x) | _ => OErr invalid_params end.
Proof. intro H. unfold one. cbn [params_new params_text]. rewrite (new_keeps_json raw j H). reflexivity. Qed.

Lemma parse_rejects raw t : parse_text (rust_trim raw) = None ->
  parse t (params_new (Some raw)) = OErr invalid_params /\ one t (params_new (Some raw)) = OErr invalid_params.
Proof. intro H. unfold parse, one. cbn [params_new params_text]. rewrite H. split; reflexivity. Qed.

Lemma absent_params t ops :
  parse t (params_new None) = result_of (decode t JNull) /\
  one t (params_new None) = OErr invalid_params /\
  read_seq (params_new None) ops = spec ops [].
Proof.
  split; [reflexivity|]. split; [reflexivity|].
  unfold read_seq. cbn [params_new sequence]. rewrite run_nil, spec_nil. reflexivity.
Qed.

Lemma empty_array_params ops : read_seq (params_new (Some b#"[]")) ops = read_seq (params_new None) ops.
Proof. reflexivity. Qed.

Lemma only_invalid_params p ops s t :
  Forall code_ok (read_seq p ops) /\ Forall code_ok (run ops s) /\ code_ok (parse t p) /\ code_ok (one t p).
Proof. repeat split; [apply run_code_ok | apply run_code_ok | apply parse_code_ok | apply one_code_ok]. Qed.

(* ---------- stickiness, stated on the result list ---------- *)

Lemma run_app a : forall b s, run (a ++ b) s = run a s ++ run b (run_state a s).
Proof.
  induction a as [|o a IH]; intros b s; [reflexivity|]. cbn [app run run_state].
  destruct (step o s) as [r s'] eqn:E. cbn [snd app]. f_equal. apply IH.
Qed.

Lemma run_length ops : forall s, length (run ops s) = length ops.
Proof.
  induction ops as [|o ops IH]; intro s; [reflexivity|]. cbn [run]. destruct (step o s). cbn [length]. f_equal. apply IH.
Qed.

Lemma error_sticky_list p pre o post :
  is_error (nth (length pre) (read_seq p (pre ++ o :: post)) OAbsent) = true ->
  Forall (fun r => is_value r = false) (skipn (S (length pre)) (read_seq p (pre ++ o :: post))).
Proof.
  unfold read_seq. set (s := sequence p). rewrite run_app. cbn [run].
  destruct (step o (run_state pre s)) as [r s'] eqn:E.
  pose proof (run_length pre s) as L.
  rewrite app_nth2 by lia. rewrite L, Nat.sub_diag. cbn [nth]. intro H.
  replace (S (length pre)) with (length (run pre s ++ [r])) by (rewrite app_length, L; cbn; lia).
  replace (run pre s ++ r :: run post s') with ((run pre s ++ [r]) ++ run post s') by (rewrite <- app_assoc; reflexivity).
  rewrite skipn_app, skipn_all, Nat.sub_diag. cbn [skipn app].
  pose proof (error_sticky o (run_state pre s) post) as ES. rewrite E in ES. apply ES, H.
Qed.
