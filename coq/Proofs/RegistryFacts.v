(* C13 -- facts about Model/Registry.v.
   Layers: (A) association lists as hash maps, (B) the Arc heap and make_mut, (C) a value-level semantics `vstep`
   on `list methods` that the heap-level `step` refines through `view`, (D) the abstract finite-map specification
   (names -> handler) and the property lemmas, all for arbitrary op sequences from `init`. *)
From Coq Require Import List NArith Bool Lia Arith PeanoNat Permutation.
From JV Require Import Base.Bytes Model.Registry.
Import ListNotations.

(* ================================================================ A. names and association lists *)
Lemma beq_false a b : bytes_eqb a b = false <-> a <> b.
Proof.
  split; intro H.
  - intro E. apply bytes_eqb_eq in E. congruence.
  - destruct (bytes_eqb a b) eqn:E; [apply bytes_eqb_eq in E; contradiction | reflexivity].
Qed.

Ltac beq a b :=
  let E := fresh "E" in
  destruct (bytes_eqb a b) eqn:E; [apply bytes_eqb_eq in E | apply beq_false in E].

Notation keys ms := (map fst ms) (only parsing).

Lemma lookup_none_iff n ms : lookup n ms = None <-> ~ In n (keys ms).
Proof.
  induction ms as [|[k v] r IH]; cbn; [tauto|].
  beq n k.
  - split; [discriminate | intro H; exfalso; apply H; left; congruence].
  - rewrite IH. split; intro H; [intros [H1|H1]; [congruence | tauto] | tauto].
Qed.

Lemma lookup_some_in n b ms : lookup n ms = Some b -> In (n, b) ms.
Proof.
  induction ms as [|[k v] r IH]; cbn; [discriminate|].
  beq n k; intro H; [inversion H; subst; left; reflexivity | right; apply IH, H].
Qed.

Lemma in_lookup_nodup n b ms : NoDup (keys ms) -> In (n, b) ms -> lookup n ms = Some b.
Proof.
  induction ms as [|[k v] r IH]; cbn; intros ND H; [tauto|].
  inversion ND as [|? ? Hk ND']; subst.
  destruct H as [H|H].
  - inversion H; subst. rewrite bytes_eqb_refl. reflexivity.
  - beq n k; [subst; exfalso; apply Hk; apply (in_map fst) in H; exact H | apply IH; assumption].
Qed.

Lemma contains_key_true n ms : contains_key n ms = true <-> lookup n ms <> None.
Proof. unfold contains_key. destruct (lookup n ms); split; congruence. Qed.

Lemma contains_key_false n ms : contains_key n ms = false <-> lookup n ms = None.
Proof. unfold contains_key. destruct (lookup n ms); split; congruence. Qed.

Lemma lookup_app n a b : lookup n (a ++ b) = match lookup n a with Some x => Some x | None => lookup n b end.
Proof.
  induction a as [|[k v] r IH]; cbn; [reflexivity|].
  beq n k; [reflexivity | exact IH].
Qed.

Lemma lookup_hm_insert k n b ms : lookup k (hm_insert n b ms) = if bytes_eqb k n then Some b else lookup k ms.
Proof.
  induction ms as [|[k0 v] r IH]; cbn.
  - beq k n; reflexivity.
  - beq n k0; cbn.
    + subst k0. beq k n; reflexivity.
    + rewrite IH. beq k k0; [subst; beq k0 n; [congruence | reflexivity] | reflexivity].
Qed.

Lemma hm_insert_fresh n b ms : lookup n ms = None -> hm_insert n b ms = ms ++ [(n, b)].
Proof.
  induction ms as [|[k v] r IH]; cbn; [reflexivity|].
  beq n k; [discriminate | intro H; rewrite IH by exact H; reflexivity].
Qed.

Lemma keys_hm_insert n b ms : keys (hm_insert n b ms) = if contains_key n ms then keys ms else keys ms ++ [n].
Proof.
  unfold contains_key. induction ms as [|[k v] r IH]; cbn; [reflexivity|].
  beq n k; cbn; [reflexivity|].
  rewrite IH. destruct (lookup n r); reflexivity.
Qed.

Lemma nodup_hm_insert n b ms : NoDup (keys ms) -> NoDup (keys (hm_insert n b ms)).
Proof.
  intro ND. rewrite keys_hm_insert. destruct (contains_key n ms) eqn:E; [exact ND|].
  apply contains_key_false, lookup_none_iff in E.
  apply Permutation_NoDup with (l := n :: keys ms); [apply Permutation_cons_append | constructor; assumption].
Qed.

Lemma lookup_hm_remove k n ms : lookup k (hm_remove n ms) = if bytes_eqb k n then None else lookup k ms.
Proof.
  induction ms as [|[k0 v] r IH]; cbn.
  - destruct (bytes_eqb k n); reflexivity.
  - beq n k0; cbn.
    + subst k0. rewrite IH. beq k n; reflexivity.
    + rewrite IH. beq k k0; [subst; beq k0 n; [congruence | reflexivity] | reflexivity].
Qed.

Lemma keys_hm_remove_incl n ms k : In k (keys (hm_remove n ms)) -> In k (keys ms).
Proof.
  induction ms as [|[k0 v] r IH]; cbn; [tauto|].
  beq n k0; cbn; [tauto | intros [H|H]; [left; exact H | right; apply IH, H]].
Qed.

Lemma nodup_hm_remove n ms : NoDup (keys ms) -> NoDup (keys (hm_remove n ms)).
Proof.
  induction ms as [|[k v] r IH]; cbn; intro ND; [constructor|].
  inversion ND as [|? ? Hk ND']; subst.
  beq n k; cbn; [apply IH, ND'|].
  constructor; [intro H; apply Hk, (keys_hm_remove_incl n), H | apply IH, ND'].
Qed.

Lemma hm_remove_absent n ms : lookup n ms = None -> hm_remove n ms = ms.
Proof.
  induction ms as [|[k v] r IH]; cbn; [reflexivity|].
  beq n k; [discriminate | intro H; rewrite IH by exact H; reflexivity].
Qed.

Lemma first_clash_none ms names : first_clash ms names = None <-> (forall n, In n names -> lookup n ms = None).
Proof.
  induction names as [|n r IH]; cbn; [tauto|].
  destruct (contains_key n ms) eqn:E.
  - apply contains_key_true in E. split; [discriminate | intro H; exfalso; apply E, H; left; reflexivity].
  - apply contains_key_false in E. rewrite IH. split; intros H k; [intros [<-|Hk]; auto | intro Hk; apply H; right; exact Hk].
Qed.

Lemma first_clash_some ms names n : first_clash ms names = Some n -> In n names /\ lookup n ms <> None.
Proof.
  induction names as [|k r IH]; cbn; [discriminate|].
  destruct (contains_key k ms) eqn:E.
  - intro H; inversion H; subst. split; [left; reflexivity | apply contains_key_true, E].
  - intro H. destruct (IH H). split; [right|]; assumption.
Qed.

Lemma hm_extend_disjoint other : forall ms,
  (forall n, In n (keys other) -> lookup n ms = None) -> NoDup (keys other) -> hm_extend ms other = ms ++ other.
Proof.
  unfold hm_extend. induction other as [|[k v] r IH]; intros ms Hd ND; cbn.
  - rewrite app_nil_r. reflexivity.
  - inversion ND as [|? ? Hk ND']; subst.
    rewrite hm_insert_fresh by (apply Hd; left; reflexivity).
    rewrite IH; [rewrite <- app_assoc; reflexivity | | exact ND'].
    intros n Hn. rewrite lookup_app, Hd by (right; exact Hn). cbn.
    beq n k; [subst; contradiction | reflexivity].
Qed.

Lemma nodup_hm_extend other : forall ms, NoDup (keys ms) -> NoDup (keys (hm_extend ms other)).
Proof.
  unfold hm_extend. induction other as [|[k v] r IH]; intros ms ND; cbn; [exact ND|].
  apply IH, nodup_hm_insert, ND.
Qed.

Lemma lookup_hm_extend k other : forall ms,
  lookup k (hm_extend ms other) = match lookup k (rev other) with Some b => Some b | None => lookup k ms end.
Proof.
  unfold hm_extend. induction other as [|[k0 v] r IH]; intro ms; cbn; [reflexivity|].
  rewrite IH, lookup_app, lookup_hm_insert. cbn.
  destruct (lookup k (rev r)); [reflexivity|]. beq k k0; reflexivity.
Qed.

Lemma lookup_rev_nodup k ms : NoDup (keys ms) -> lookup k (rev ms) = lookup k ms.
Proof.
  intro ND. destruct (lookup k ms) eqn:E.
  - apply in_lookup_nodup.
    + rewrite map_rev. apply NoDup_rev, ND.
    + apply in_rev. rewrite rev_involutive. apply lookup_some_in, E.
  - apply lookup_none_iff. apply lookup_none_iff in E. rewrite map_rev, <- in_rev. exact E.
Qed.

(* ---------- sorting (what the drivers print) ---------- *)
Lemma ins_sorted_perm e l : Permutation (ins_sorted e l) (e :: l).
Proof.
  induction l as [|x r IH]; cbn; [reflexivity|].
  destruct (bytes_leb (fst e) (fst x)); [reflexivity|].
  rewrite IH. apply perm_swap.
Qed.

Lemma sort_methods_perm ms : Permutation (sort_methods ms) ms.
Proof.
  induction ms as [|e r IH]; cbn; [reflexivity|].
  rewrite ins_sorted_perm, IH. reflexivity.
Qed.

(* ================================================================ B. the Arc heap *)
Definition wf (s : state) : Prop := Forall (fun c => c < length (heap s)) (mods s).

Lemma length_upd {A} i (f : A -> A) l : length (upd i f l) = length l.
Proof. revert i; induction l as [|x r IH]; intros [|i]; cbn; auto. Qed.

Lemma nth_upd_eq {A} i (f : A -> A) l d : i < length l -> nth i (upd i f l) d = f (nth i l d).
Proof. revert i; induction l as [|x r IH]; intros [|i]; cbn; intro H; try lia; auto. apply IH; lia. Qed.

Lemma nth_upd_neq {A} i k (f : A -> A) l d : k <> i -> nth k (upd i f l) d = nth k l d.
Proof. revert i k; induction l as [|x r IH]; intros [|i] [|k]; cbn; intro H; try congruence; auto. Qed.

Lemma upd_upd_const {A} i (x y : A) l : upd i (fun _ => y) (upd i (fun _ => x) l) = upd i (fun _ => y) l.
Proof. revert i; induction l as [|z r IH]; intros [|i]; cbn; auto. rewrite IH; reflexivity. Qed.

Lemma upd_same {A} i (x : A) l d : nth i l d = x -> i < length l -> upd i (fun _ => x) l = l.
Proof.
  revert i; induction l as [|z r IH]; intros [|i]; cbn; intros H L; try lia; try congruence.
  rewrite IH; [reflexivity | exact H | lia].
Qed.

Lemma upd_out {A} i (f : A -> A) l : length l <= i -> upd i f l = l.
Proof. revert i; induction l as [|z r IH]; intros [|i]; cbn; intro H; try lia; auto. rewrite IH; [reflexivity | lia]. Qed.

Lemma nth_view s k : k < nmods s -> nth k (view s) [] = cell s (cell_of s k).
Proof.
  intro H. unfold view, cell_of.
  rewrite (nth_indep _ [] (cell s 0)) by (rewrite map_length; exact H).
  apply map_nth.
Qed.

Lemma length_view s : length (view s) = nmods s.
Proof. apply map_length. Qed.

Lemma get_view s m : get s m = nth m (view s) [].
Proof.
  unfold get. destruct (Nat.ltb_spec m (nmods s)) as [H|H].
  - symmetry. apply nth_view, H.
  - symmetry. apply nth_overflow. rewrite length_view. exact H.
Qed.

Lemma wf_cell_of s k : wf s -> k < nmods s -> cell_of s k < length (heap s).
Proof.
  unfold wf, cell_of, nmods. intros W H. rewrite Forall_forall in W. apply W, nth_In, H.
Qed.

Lemma count_ge1 c l i : i < length l -> nth i l 0 = c -> 1 <= count c l.
Proof.
  revert i; induction l as [|x r IH]; intros [|i]; cbn; intros L H; try lia.
  - subst. rewrite Nat.eqb_refl. lia.
  - assert (1 <= count c r) by (apply (IH i); [lia | exact H]). destruct (x =? c); lia.
Qed.

Lemma count_one_unique c l : count c l = 1 -> forall i j, i < length l -> j < length l ->
  nth i l 0 = c -> nth j l 0 = c -> i = j.
Proof.
  induction l as [|x r IH]; cbn; intros C i j Li Lj Hi Hj; [lia|].
  destruct (Nat.eqb_spec x c) as [E|E].
  - assert (count c r = 0) as Z by lia.
    destruct i as [|i], j as [|j]; auto.
    + assert (1 <= count c r) by (apply (count_ge1 c r j); [lia | exact Hj]). lia.
    + assert (1 <= count c r) by (apply (count_ge1 c r i); [lia | exact Hi]). lia.
    + assert (1 <= count c r) by (apply (count_ge1 c r j); [lia | exact Hj]). lia.
  - destruct i as [|i], j as [|j]; try congruence.
    f_equal. apply IH; auto; lia.
Qed.

Lemma make_mut_spec s m tmp : wf s -> m < nmods s ->
  let s1 := fst (make_mut s m tmp) in
  let c := snd (make_mut s m tmp) in
  wf s1 /\ view s1 = view s /\ c < length (heap s1) /\ cell_of s1 m = c /\
  (forall k, k < nmods s -> k <> m -> cell_of s1 k <> c).
Proof.
  intros W Hm. unfold make_mut.
  destruct (Nat.eqb_spec (refcount s tmp (cell_of s m)) 1) as [R|R]; cbn [fst snd].
  - repeat split; auto.
    + apply wf_cell_of; assumption.
    + intros k Hk Hne E. apply Hne.
      assert (count (cell_of s m) (mods s) = 1) as C.
      { unfold refcount in R.
        assert (1 <= count (cell_of s m) (mods s)) by (apply (count_ge1 _ _ m); [exact Hm | reflexivity]). lia. }
      apply (count_one_unique _ _ C); auto.
  - assert (length (upd m (fun _ => length (heap s)) (mods s)) = length (mods s)) as L by apply length_upd.
    repeat split.
    + unfold wf; cbn. rewrite app_length; cbn. apply Forall_forall. intros x Hx.
      apply (In_nth _ _ 0) in Hx. destruct Hx as [k [Hk <-]]. rewrite L in Hk.
      destruct (Nat.eq_dec k m) as [->|Hne].
      * rewrite nth_upd_eq by exact Hm. lia.
      * rewrite nth_upd_neq by exact Hne. pose proof (wf_cell_of s k W Hk). unfold cell_of in *. lia.
    + apply (nth_ext _ _ [] []).
      * rewrite !length_view. unfold nmods; cbn. exact L.
      * intros k Hk. rewrite length_view in Hk. unfold nmods in Hk; cbn in Hk. rewrite L in Hk.
        rewrite nth_view by (unfold nmods; cbn; lia). rewrite nth_view by exact Hk.
        unfold cell, cell_of; cbn.
        destruct (Nat.eq_dec k m) as [->|Hne].
        -- rewrite nth_upd_eq by exact Hm. rewrite app_nth2, Nat.sub_diag by lia. reflexivity.
        -- rewrite nth_upd_neq by exact Hne. rewrite app_nth1; [reflexivity|].
           apply (wf_cell_of s k W Hk).
    + cbn. rewrite app_length; cbn; lia.
    + unfold cell_of; cbn. apply nth_upd_eq, Hm.
    + intros k Hk Hne. unfold cell_of; cbn. rewrite nth_upd_neq by exact Hne.
      pose proof (wf_cell_of s k W Hk). unfold cell_of in *. lia.
Qed.

Lemma set_cell_spec s m c v : wf s -> m < nmods s -> c < length (heap s) -> cell_of s m = c ->
  (forall k, k < nmods s -> k <> m -> cell_of s k <> c) ->
  wf (set_cell s c v) /\ view (set_cell s c v) = upd m (fun _ => v) (view s).
Proof.
  intros W Hm Hc E Hoth. split.
  - unfold wf, set_cell; cbn. rewrite length_upd. exact W.
  - apply (nth_ext _ _ [] []).
    + rewrite length_upd, !length_view. reflexivity.
    + intros k Hk. rewrite length_view in Hk. assert (k < nmods s) as Hk' by exact Hk.
      rewrite nth_view by exact Hk.
      unfold cell, set_cell, cell_of; cbn.
      destruct (Nat.eq_dec k m) as [->|Hne].
      * rewrite (nth_upd_eq m _ (view s)) by (rewrite length_view; exact Hm).
        unfold cell_of in E. rewrite E. apply nth_upd_eq, Hc.
      * rewrite (nth_upd_neq m k _ (view s)) by exact Hne. rewrite nth_view by exact Hk'.
        apply nth_upd_neq. apply (Hoth k Hk' Hne).
Qed.

(* make_mut followed by a store into the uniquely held allocation *)
Lemma mutate_spec s m tmp : wf s -> m < nmods s ->
  let s1 := fst (make_mut s m tmp) in
  let c := snd (make_mut s m tmp) in
  wf s1 /\ view s1 = view s /\ cell s1 c = get s m /\
  forall v, wf (set_cell s1 c v) /\ view (set_cell s1 c v) = upd m (fun _ => v) (view s).
Proof.
  intros W Hm s1 c.
  destruct (make_mut_spec s m tmp W Hm) as (W1 & V1 & Hc & E & Hoth). fold s1 c in W1, V1, Hc, E, Hoth.
  assert (nmods s1 = nmods s) as N by (rewrite <- !length_view, V1; reflexivity).
  repeat split; auto.
  - rewrite get_view, <- V1, nth_view by (rewrite N; exact Hm). rewrite E. reflexivity.
  - apply (set_cell_spec s1 m c v); auto; rewrite ?N; auto.
  - rewrite <- V1. apply (set_cell_spec s1 m c v); auto; rewrite ?N; auto.
Qed.

(* ================================================================ C. value-level semantics and refinement *)
Definition v_insert (ms : methods) (n : name) (b : binding) : methods * option rerr :=
  match lookup n ms with
  | Some _ => (ms, Some (AlreadyRegistered n))
  | None => (hm_insert n b ms, None)
  end.

Definition v_register (ms : methods) (r : reg) : methods * option rerr :=
  match r with
  | RMethod n h => v_insert ms n (Bind h KSync)
  | RAsync n h => v_insert ms n (Bind h KAsync)
  | RBlocking n h => v_insert ms n (Bind h KBlocking)
  | RSub _ sn un h =>
    if bytes_eqb sn un then (ms, Some (SubscriptionNameConflict sn)) else
    if contains_key sn ms then (ms, Some (AlreadyRegistered sn)) else
    if contains_key un ms then (ms, Some (AlreadyRegistered un)) else
    v_insert (hm_insert un (Bind h KUnsub) ms) sn (Bind h KSub)
  end.

Definition v_alias (ms : methods) (a e : name) : methods * option rerr :=
  if contains_key a ms then (ms, Some (AlreadyRegistered a)) else
  match lookup e ms with
  | None => (ms, Some (MethodNotFound e))
  | Some b => (hm_insert a b ms, None)
  end.

Definition v_merge (ms other : methods) : methods * option rerr :=
  match first_clash ms (map fst other) with
  | Some n => (ms, Some (AlreadyRegistered n))
  | None => (hm_extend ms other, None)
  end.

Fixpoint v_build (ms : methods) (rs : list reg) : methods * list (option rerr) :=
  match rs with
  | [] => (ms, [])
  | r :: rs' =>
    let (ms1, e) := v_register ms r in
    let (ms2, es) := v_build ms1 rs' in (ms2, e :: es)
  end.

Definition vstep (v : list methods) (o : op) : list methods * obs :=
  let N := length v in
  match o with
  | Reg m r =>
    if (m <? N) then let (ms, e) := v_register (nth m v []) r in (upd m (fun _ => ms) v, ORes e) else (v, OBad)
  | Alias m a e =>
    if (m <? N) then let (ms, r) := v_alias (nth m v []) a e in (upd m (fun _ => ms) v, ORes r) else (v, OBad)
  | MergeMod m j =>
    if (m <? N) && (j <? N) then
      let (ms, r) := v_merge (nth m v []) (nth j v []) in (upd m (fun _ => ms) v, ORes r)
    else (v, OBad)
  | MergeNew m rs =>
    if (m <? N) then
      let (other, es) := v_build [] rs in
      let (ms, r) := v_merge (nth m v []) other in (upd m (fun _ => ms) v, OMergeNew es r)
    else (v, OBad)
  | Remove m n =>
    if (m <? N) then (upd m (fun _ => hm_remove n (nth m v [])) v, ORemoved (lookup n (nth m v []))) else (v, OBad)
  | Clone m => if (m <? N) then (v ++ [nth m v []], OHandle N) else (v, OBad)
  | New => (v ++ [[]], OHandle N)
  | Call m n => if (m <? N) then (v, OCall (lookup n (nth m v []))) else (v, OBad)
  end.

Definition vexec (v : list methods) (os : list op) : list methods := fold_left (fun v o => fst (vstep v o)) os v.

(* a heap-level operation on module m refines a value-level function on what m holds *)
Definition refines_on {R} (s : state) (m : nat) (res : state * R) (vres : methods * R) : Prop :=
  wf (fst res) /\ view (fst res) = upd m (fun _ => fst vres) (view s) /\ snd res = snd vres.

Lemma view_upd_get s m : m < nmods s -> upd m (fun _ => get s m) (view s) = view s.
Proof. intro H. apply (upd_same _ _ _ []); [symmetry; apply get_view | rewrite length_view; exact H]. Qed.

Lemma verify_and_insert_refines s m n b : wf s -> m < nmods s ->
  refines_on s m (verify_and_insert s m n b) (v_insert (get s m) n b).
Proof.
  intros W Hm. unfold verify_and_insert, v_insert, refines_on.
  destruct (mutate_spec s m None W Hm) as (W1 & V1 & C1 & Hset).
  destruct (make_mut s m None) as [s1 c]. cbn [fst snd] in *.
  rewrite C1. destruct (lookup n (get s m)); cbn [fst snd].
  - repeat split; auto. rewrite V1. symmetry. apply view_upd_get, Hm.
  - destruct (Hset (hm_insert n b (get s m))). repeat split; auto.
Qed.

Lemma mut_insert_spec s m n b : wf s -> m < nmods s ->
  wf (mut_insert s m n b) /\ view (mut_insert s m n b) = upd m (fun _ => hm_insert n b (get s m)) (view s).
Proof.
  intros W Hm. unfold mut_insert.
  destruct (mutate_spec s m None W Hm) as (W1 & V1 & C1 & Hset).
  destruct (make_mut s m None) as [s1 c]. cbn [fst snd] in *.
  rewrite C1. apply Hset.
Qed.

Lemma nmods_of_view s s' m x : view s' = upd m (fun _ => x) (view s) -> nmods s' = nmods s.
Proof. intro H. rewrite <- !length_view, H, length_upd. reflexivity. Qed.

Lemma get_of_view s s' m x : m < nmods s -> view s' = upd m (fun _ => x) (view s) -> get s' m = x.
Proof. intros Hm H. rewrite get_view, H. apply nth_upd_eq. rewrite length_view. exact Hm. Qed.

Lemma verify_method_name_spec s m n :
  verify_method_name s m n = if contains_key n (get s m) then Some (AlreadyRegistered n) else None.
Proof. reflexivity. Qed.

Lemma register_refines s m r : wf s -> m < nmods s ->
  refines_on s m (register s m r) (v_register (get s m) r).
Proof.
  intros W Hm. destruct r as [n h|n h|n h|raw sn un h]; cbn [register v_register];
    try (apply verify_and_insert_refines; assumption).
  unfold verify_method_name.
  assert (refines_on s m (s, @None rerr) (get s m, @None rerr) -> forall e : option rerr, refines_on s m (s, e) (get s m, e)) as Same.
  { intros _ e. unfold refines_on; cbn. repeat split; auto. symmetry; apply view_upd_get, Hm. }
  assert (refines_on s m (s, @None rerr) (get s m, @None rerr)) as S0.
  { unfold refines_on; cbn. repeat split; auto. symmetry; apply view_upd_get, Hm. }
  destruct (bytes_eqb sn un); [apply Same, S0|].
  destruct (contains_key sn (get s m)); [apply Same, S0|].
  destruct (contains_key un (get s m)); [apply Same, S0|].
  destruct (mut_insert_spec s m un (Bind h KUnsub) W Hm) as [W1 V1].
  pose proof (nmods_of_view _ _ _ _ V1) as N1.
  pose proof (get_of_view _ _ _ _ Hm V1) as G1.
  destruct (verify_and_insert_refines (mut_insert s m un (Bind h KUnsub)) m sn (Bind h KSub) W1) as (W2 & V2 & R2);
    [rewrite N1; exact Hm|].
  rewrite G1 in V2, R2. unfold refines_on. repeat split; auto.
  rewrite V2, V1. apply upd_upd_const.
Qed.

Lemma alias_refines s m a e : wf s -> m < nmods s ->
  refines_on s m (register_alias s m a e) (v_alias (get s m) a e).
Proof.
  intros W Hm. unfold register_alias, v_alias, verify_method_name.
  assert (forall e : option rerr, refines_on s m (s, e) (get s m, e)) as Same.
  { intros e0. unfold refines_on; cbn. repeat split; auto. symmetry; apply view_upd_get, Hm. }
  destruct (contains_key a (get s m)); [apply Same|].
  destruct (lookup e (get s m)) as [b|]; [|apply Same].
  destruct (mut_insert_spec s m a b W Hm) as [W1 V1]. unfold refines_on; cbn. auto.
Qed.

Lemma merge_refines s m other tmp : wf s -> m < nmods s ->
  refines_on s m (merge s m other tmp) (v_merge (get s m) other).
Proof.
  intros W Hm. unfold merge, v_merge.
  destruct (first_clash (get s m) (map fst other)).
  - unfold refines_on; cbn. repeat split; auto. symmetry; apply view_upd_get, Hm.
  - destruct (mutate_spec s m tmp W Hm) as (W1 & V1 & C1 & Hset).
    destruct (make_mut s m tmp) as [s1 c]. cbn [fst snd] in *.
    rewrite C1. destruct (Hset (hm_extend (get s m) other)). unfold refines_on; cbn. auto.
Qed.

Lemma remove_refines s m n : wf s -> m < nmods s ->
  refines_on s m (remove_method s m n) (hm_remove n (get s m), lookup n (get s m)).
Proof.
  intros W Hm. unfold remove_method.
  destruct (mutate_spec s m None W Hm) as (W1 & V1 & C1 & Hset).
  destruct (make_mut s m None) as [s1 c]. cbn [fst snd] in *.
  rewrite C1. destruct (Hset (hm_remove n (get s m))). unfold refines_on; cbn. auto.
Qed.

Lemma wf_init : wf init.
Proof. unfold wf, init; cbn. constructor; [lia | constructor]. Qed.

Lemma build_from_refines rs : forall s, wf s -> nmods s = 1 ->
  let r := build_from s rs in
  wf (fst r) /\ nmods (fst r) = 1 /\ get (fst r) 0 = fst (v_build (get s 0) rs) /\ snd r = snd (v_build (get s 0) rs).
Proof.
  induction rs as [|r rs IH]; intros s W N; cbn.
  - auto.
  - assert (0 < nmods s) as H0 by lia.
    destruct (register_refines s 0 r W H0) as (W1 & V1 & R1).
    destruct (register s 0 r) as [s1 e]. destruct (v_register (get s 0) r) as [ms1 e']. cbn [fst snd] in *. subst e'.
    pose proof (nmods_of_view _ _ _ _ V1) as N1. pose proof (get_of_view _ _ _ _ H0 V1) as G1.
    specialize (IH s1 W1 (eq_trans N1 N)). cbn zeta in IH. rewrite G1 in IH.
    destruct (build_from s1 rs) as [s2 es]. destruct (v_build ms1 rs) as [ms2 es']. cbn [fst snd] in *.
    destruct IH as (W2 & N2 & G2 & E2). subst. auto.
Qed.

Lemma build_refines rs : build rs = v_build [] rs.
Proof.
  unfold build. pose proof (build_from_refines rs init wf_init eq_refl) as H. cbn zeta in H.
  destruct (build_from init rs) as [s es]. cbn [fst snd] in H. destruct H as (_ & _ & G & E).
  change (get init 0) with (@nil (name * binding)) in *.
  destruct (v_build [] rs) as [ms es']. cbn [fst snd] in *. subst. reflexivity.
Qed.

Lemma step_refines s o : wf s ->
  wf (fst (step s o)) /\ view (fst (step s o)) = fst (vstep (view s) o) /\ snd (step s o) = snd (vstep (view s) o).
Proof.
  intro W. unfold step, vstep, valid. rewrite length_view.
  destruct o as [m r|m a e|m j|m rs|m n|m| |m n].
  - destruct (Nat.ltb_spec m (nmods s)) as [Hm|Hm]; [|cbn; auto].
    destruct (register_refines s m r W Hm) as (W1 & V1 & R1). rewrite <- get_view.
    destruct (register s m r) as [s1 e1]. destruct (v_register (get s m) r) as [ms e2]. cbn [fst snd] in *. subst. auto.
  - destruct (Nat.ltb_spec m (nmods s)) as [Hm|Hm]; [|cbn; auto].
    destruct (alias_refines s m a e W Hm) as (W1 & V1 & R1). rewrite <- get_view.
    destruct (register_alias s m a e) as [s1 e1]. destruct (v_alias (get s m) a e) as [ms e2]. cbn [fst snd] in *. subst. auto.
  - destruct (Nat.ltb_spec m (nmods s)) as [Hm|Hm]; cbn [andb]; [|cbn; auto].
    destruct (Nat.ltb_spec j (nmods s)) as [Hj|Hj]; [|cbn; auto].
    destruct (merge_refines s m (get s j) (Some (cell_of s j)) W Hm) as (W1 & V1 & R1). rewrite <- !get_view.
    destruct (merge s m (get s j) (Some (cell_of s j))) as [s1 e1]. destruct (v_merge (get s m) (get s j)) as [ms e2].
    cbn [fst snd] in *. subst. auto.
  - destruct (Nat.ltb_spec m (nmods s)) as [Hm|Hm]; [|cbn; auto].
    rewrite build_refines. destruct (v_build [] rs) as [other es].
    destruct (merge_refines s m other None W Hm) as (W1 & V1 & R1). rewrite <- get_view.
    destruct (merge s m other None) as [s1 e1]. destruct (v_merge (get s m) other) as [ms e2].
    cbn [fst snd] in *. subst. auto.
  - destruct (Nat.ltb_spec m (nmods s)) as [Hm|Hm]; [|cbn; auto].
    destruct (remove_refines s m n W Hm) as (W1 & V1 & R1). rewrite <- get_view.
    destruct (remove_method s m n) as [s1 e1]. cbn [fst snd] in *. subst. auto.
  - destruct (Nat.ltb_spec m (nmods s)) as [Hm|Hm]; [|cbn; auto]. cbn [fst snd]. repeat split.
    + unfold wf, clone_module; cbn. apply Forall_app. split; [exact W|]. constructor; [|constructor].
      apply wf_cell_of; assumption.
    + unfold view, clone_module; cbn. rewrite map_app; cbn. f_equal. f_equal.
      fold (view s). rewrite nth_view by exact Hm. reflexivity.
  - cbn [fst snd]. repeat split.
    + unfold wf, new_module; cbn. rewrite app_length; cbn. apply Forall_app. split.
      * eapply Forall_impl; [|exact W]. cbn. intros; lia.
      * constructor; [lia | constructor].
    + unfold view, new_module; cbn. rewrite map_app; cbn. f_equal.
      * apply map_ext_in. intros c Hc. unfold cell; cbn. apply app_nth1.
        unfold wf in W. rewrite Forall_forall in W. apply W, Hc.
      * unfold cell; cbn. rewrite app_nth2, Nat.sub_diag by lia. reflexivity.
  - destruct (Nat.ltb_spec m (nmods s)) as [Hm|Hm]; [|cbn; auto]. cbn [fst snd]. rewrite <- get_view. auto.
Qed.

Lemma exec_snoc s os o : exec s (os ++ [o]) = fst (step (exec s os) o).
Proof. unfold exec. rewrite fold_left_app. reflexivity. Qed.
Lemma vexec_snoc v os o : vexec v (os ++ [o]) = fst (vstep (vexec v os) o).
Proof. unfold vexec. rewrite fold_left_app. reflexivity. Qed.
Lemma exec_app s os1 os2 : exec s (os1 ++ os2) = exec (exec s os1) os2.
Proof. unfold exec. apply fold_left_app. Qed.

Lemma exec_refines s os : wf s -> wf (exec s os) /\ view (exec s os) = vexec (view s) os.
Proof.
  intro W. induction os as [|o os IH] using rev_ind; [auto|].
  rewrite exec_snoc, vexec_snoc. destruct IH as [W1 V1].
  destruct (step_refines (exec s os) o W1) as (W2 & V2 & _). rewrite <- V1. auto.
Qed.

(* ================================================================ D1. invariant: keys are unique *)
Definition nodup_all (v : list methods) : Prop := Forall (fun ms => NoDup (keys ms)) v.

Lemma Forall_upd {A} (P : A -> Prop) i x l : Forall P l -> P x -> Forall P (upd i (fun _ => x) l).
Proof. revert i; induction l as [|y r IH]; intros [|i] H Hx; cbn; auto; inversion H; subst; constructor; auto. Qed.

Lemma Forall_nth_d {A} (P : A -> Prop) i l d : Forall P l -> P d -> P (nth i l d).
Proof. revert i; induction l as [|y r IH]; intros [|i] H Hd; cbn; auto; inversion H; subst; auto. Qed.

Lemma upd_fun {A} i (f : A -> A) l d : upd i (fun _ => f (nth i l d)) l = upd i f l.
Proof. revert i; induction l as [|y r IH]; intros [|i]; cbn; auto. f_equal. apply IH. Qed.

Lemma v_insert_nodup ms n b : NoDup (keys ms) -> NoDup (keys (fst (v_insert ms n b))).
Proof. unfold v_insert. destruct (lookup n ms); cbn; auto using nodup_hm_insert. Qed.

Lemma v_register_nodup ms r : NoDup (keys ms) -> NoDup (keys (fst (v_register ms r))).
Proof.
  intro ND. destruct r as [n h|n h|n h|raw sn un h]; cbn [v_register]; try (apply v_insert_nodup, ND).
  destruct (bytes_eqb sn un); [exact ND|].
  destruct (contains_key sn ms); [exact ND|].
  destruct (contains_key un ms); [exact ND|].
  apply v_insert_nodup, nodup_hm_insert, ND.
Qed.

Lemma v_build_nodup rs : forall ms, NoDup (keys ms) -> NoDup (keys (fst (v_build ms rs))).
Proof.
  induction rs as [|r rs IH]; intros ms ND; cbn; [exact ND|].
  pose proof (v_register_nodup ms r ND) as H1. destruct (v_register ms r) as [ms1 e]. cbn in H1.
  specialize (IH ms1 H1). destruct (v_build ms1 rs) as [ms2 es]. exact IH.
Qed.

Lemma v_alias_nodup ms a e : NoDup (keys ms) -> NoDup (keys (fst (v_alias ms a e))).
Proof.
  intro ND. unfold v_alias. destruct (contains_key a ms); [exact ND|].
  destruct (lookup e ms); cbn; auto using nodup_hm_insert.
Qed.

Lemma v_merge_nodup ms other : NoDup (keys ms) -> NoDup (keys (fst (v_merge ms other))).
Proof. intro ND. unfold v_merge. destruct (first_clash ms (map fst other)); cbn; auto using nodup_hm_extend. Qed.

Lemma vstep_nodup v o : nodup_all v -> nodup_all (fst (vstep v o)).
Proof.
  intro H. unfold nodup_all in *.
  assert (forall m, NoDup (keys (nth m v []))) as Hn by (intro m; apply Forall_nth_d; [exact H | constructor]).
  destruct o as [m r|m a e|m j|m rs|m n|m| |m n]; cbn [vstep].
  - destruct (m <? length v); [|exact H].
    pose proof (v_register_nodup _ r (Hn m)) as H1. destruct (v_register (nth m v []) r) as [ms e]. apply Forall_upd; assumption.
  - destruct (m <? length v); [|exact H].
    pose proof (v_alias_nodup _ a e (Hn m)) as H1. destruct (v_alias (nth m v []) a e) as [ms e']. apply Forall_upd; assumption.
  - destruct ((m <? length v) && (j <? length v)); [|exact H].
    pose proof (v_merge_nodup _ (nth j v []) (Hn m)) as H1. destruct (v_merge (nth m v []) (nth j v [])) as [ms e]. apply Forall_upd; assumption.
  - destruct (m <? length v); [|exact H].
    destruct (v_build [] rs) as [other es].
    pose proof (v_merge_nodup _ other (Hn m)) as H1. destruct (v_merge (nth m v []) other) as [ms e]. apply Forall_upd; assumption.
  - destruct (m <? length v); [|exact H]. cbn. apply Forall_upd; [exact H | apply nodup_hm_remove, Hn].
  - destruct (m <? length v); [|exact H]. cbn. apply Forall_app. split; [exact H | constructor; [apply Hn | constructor]].
  - cbn. apply Forall_app. split; [exact H | constructor; [constructor | constructor]].
  - destruct (m <? length v); exact H.
Qed.

Lemma vexec_nodup v os : nodup_all v -> nodup_all (vexec v os).
Proof.
  intro H. induction os as [|o os IH] using rev_ind; [exact H|].
  rewrite vexec_snoc. apply vstep_nodup, IH.
Qed.

(* ================================================================ D2. success adds exactly / failure changes nothing *)
Definition added_reg (r : reg) : methods :=
  match r with
  | RMethod n h => [(n, Bind h KSync)]
  | RAsync n h => [(n, Bind h KAsync)]
  | RBlocking n h => [(n, Bind h KBlocking)]
  | RSub _ sn un h => [(un, Bind h KUnsub); (sn, Bind h KSub)]
  end.

(* the entries an op names, read off the op and the modules as they are before it *)
Definition added (v : list methods) (o : op) : methods :=
  match o with
  | Reg _ r => added_reg r
  | Alias m a e => match lookup e (nth m v []) with Some b => [(a, b)] | None => [] end
  | MergeMod _ j => nth j v []
  | MergeNew _ rs => fst (v_build [] rs)
  | _ => []
  end.

Definition writes (o : op) : option nat :=
  match o with
  | Reg m _ | Alias m _ _ | MergeMod m _ | MergeNew m _ | Remove m _ => Some m
  | Clone _ | New | Call _ _ => None
  end.

Definition is_registration (o : op) : Prop :=
  match o with Reg _ _ | Alias _ _ _ | MergeMod _ _ | MergeNew _ _ => True | _ => False end.

Definition succeeded (ob : obs) : Prop :=
  match ob with ORes None | OMergeNew _ None => True | _ => False end.
Definition failed (ob : obs) : Prop :=
  match ob with ORes (Some _) | OMergeNew _ (Some _) => True | _ => False end.

Lemma v_insert_ok ms n b : snd (v_insert ms n b) = None ->
  lookup n ms = None /\ fst (v_insert ms n b) = ms ++ [(n, b)].
Proof.
  unfold v_insert. destruct (lookup n ms) eqn:E; cbn; [discriminate|]. intros _. split; auto. apply hm_insert_fresh, E.
Qed.

Lemma v_insert_err ms n b e : snd (v_insert ms n b) = Some e ->
  fst (v_insert ms n b) = ms /\ e = AlreadyRegistered n /\ lookup n ms <> None.
Proof.
  unfold v_insert. destruct (lookup n ms) eqn:E; cbn; [|discriminate]. intro H; inversion H. repeat split; congruence.
Qed.

Lemma v_register_ok ms r : snd (v_register ms r) = None ->
  fst (v_register ms r) = ms ++ added_reg r /\
  (forall n, In n (keys (added_reg r)) -> lookup n ms = None) /\ NoDup (keys (added_reg r)).
Proof.
  destruct r as [n h|n h|n h|raw sn un h]; cbn [v_register added_reg];
    try (intro H; apply v_insert_ok in H; destruct H as [H1 H2]; repeat split; auto;
         [cbn; intros k [<-|[]]; exact H1 | cbn; constructor; [tauto | constructor]]).
  beq sn un; [cbn; discriminate|].
  destruct (contains_key sn ms) eqn:Cs; [cbn; discriminate|].
  destruct (contains_key un ms) eqn:Cu; [cbn; discriminate|].
  apply contains_key_false in Cs, Cu.
  intro H. apply v_insert_ok in H. destruct H as [H1 H2]. rewrite H2, (hm_insert_fresh _ _ _ Cu), <- app_assoc. cbn.
  repeat split; auto.
  - intros k [<-|[<-|[]]]; assumption.
  - constructor; [cbn; intros [Eq|[]]; congruence | constructor; [cbn; tauto | constructor]].
Qed.

Lemma v_register_err ms r e : snd (v_register ms r) = Some e -> fst (v_register ms r) = ms.
Proof.
  destruct r as [n h|n h|n h|raw sn un h]; cbn [v_register];
    try (intro H; apply v_insert_err in H; tauto).
  beq sn un; [reflexivity|].
  destruct (contains_key sn ms) eqn:Cs; [reflexivity|].
  destruct (contains_key un ms) eqn:Cu; [reflexivity|].
  apply contains_key_false in Cs. unfold v_insert. rewrite lookup_hm_insert.
  beq sn un; [contradiction|]. rewrite Cs. cbn. discriminate.
Qed.

Lemma v_alias_ok ms a e : snd (v_alias ms a e) = None ->
  exists b, lookup e ms = Some b /\ lookup a ms = None /\ fst (v_alias ms a e) = ms ++ [(a, b)].
Proof.
  unfold v_alias. destruct (contains_key a ms) eqn:Ca; [cbn; discriminate|].
  apply contains_key_false in Ca. destruct (lookup e ms) as [b|]; cbn; [|discriminate].
  intros _. exists b. repeat split; auto. apply hm_insert_fresh, Ca.
Qed.

Lemma v_alias_err ms a e er : snd (v_alias ms a e) = Some er -> fst (v_alias ms a e) = ms.
Proof.
  unfold v_alias. destruct (contains_key a ms); [reflexivity|]. destruct (lookup e ms); cbn; [discriminate | reflexivity].
Qed.

Lemma v_merge_ok ms other : NoDup (keys other) -> snd (v_merge ms other) = None ->
  fst (v_merge ms other) = ms ++ other /\ forall n, In n (keys other) -> lookup n ms = None.
Proof.
  intro ND. unfold v_merge. destruct (first_clash ms (map fst other)) eqn:F; cbn; [discriminate|]. intros _.
  pose proof (proj1 (first_clash_none _ _) F) as Hd. split; [apply hm_extend_disjoint; assumption | exact Hd].
Qed.

Lemma v_merge_err ms other e : snd (v_merge ms other) = Some e ->
  fst (v_merge ms other) = ms /\ exists n, e = AlreadyRegistered n /\ In n (keys other) /\ lookup n ms <> None.
Proof.
  unfold v_merge. destruct (first_clash ms (map fst other)) as [n|] eqn:F; cbn; [|discriminate].
  intro H; inversion H; subst. split; [reflexivity|]. exists n. apply first_clash_some in F. tauto.
Qed.

Lemma vstep_success v o : nodup_all v -> is_registration o -> succeeded (snd (vstep v o)) ->
  exists m, writes o = Some m /\ m < length v /\
    fst (vstep v o) = upd m (fun ms => ms ++ added v o) v /\
    (forall n, In n (keys (added v o)) -> lookup n (nth m v []) = None) /\ NoDup (keys (added v o)).
Proof.
  intros ND Hreg.
  assert (forall m, NoDup (keys (nth m v []))) as Hn by (intro m; apply Forall_nth_d; [exact ND | constructor]).
  destruct o as [m r|m a e|m j|m rs|m n|m| |m n]; cbn [is_registration] in Hreg; try contradiction; cbn [vstep writes added].
  - destruct (Nat.ltb_spec m (length v)) as [Hm|Hm]; [|cbn; contradiction].
    pose proof (v_register_ok (nth m v []) r) as H. destruct (v_register (nth m v []) r) as [ms [e|]]; cbn; [contradiction|].
    intros _. destruct (H eq_refl) as (H1 & H2 & H3). cbn in H1. exists m. repeat split; auto.
    rewrite H1. apply (upd_fun m (fun ms => ms ++ added_reg r)).
  - destruct (Nat.ltb_spec m (length v)) as [Hm|Hm]; [|cbn; contradiction].
    pose proof (v_alias_ok (nth m v []) a e) as H. destruct (v_alias (nth m v []) a e) as [ms [er|]]; cbn; [contradiction|].
    intros _. destruct (H eq_refl) as (b & H1 & H2 & H3). cbn in H3. exists m. rewrite H1. repeat split; auto.
    + rewrite H3. apply (upd_fun m (fun ms => ms ++ [(a, b)])).
    + cbn. intros k [<-|[]]. exact H2.
    + cbn. constructor; [tauto | constructor].
  - destruct (Nat.ltb_spec m (length v)) as [Hm|Hm]; cbn [andb]; [|cbn; contradiction].
    destruct (j <? length v); [|cbn; contradiction].
    pose proof (v_merge_ok (nth m v []) (nth j v []) (Hn j)) as H.
    destruct (v_merge (nth m v []) (nth j v [])) as [ms [er|]]; cbn; [contradiction|].
    intros _. destruct (H eq_refl) as (H1 & H2). cbn in H1. exists m. repeat split; auto.
    rewrite H1. apply (upd_fun m (fun ms => ms ++ nth j v [])).
  - destruct (Nat.ltb_spec m (length v)) as [Hm|Hm]; [|cbn; contradiction].
    pose proof (v_build_nodup rs [] (NoDup_nil _)) as NB.
    destruct (v_build [] rs) as [other es]. cbn [fst] in *.
    pose proof (v_merge_ok (nth m v []) other NB) as H.
    destruct (v_merge (nth m v []) other) as [ms [er|]]; cbn; [contradiction|].
    intros _. destruct (H eq_refl) as (H1 & H2). cbn in H1. exists m. repeat split; auto.
    rewrite H1. apply (upd_fun m (fun ms => ms ++ other)).
Qed.

Lemma vstep_failure v o : failed (snd (vstep v o)) -> fst (vstep v o) = v.
Proof.
  assert (forall m, m < length v -> upd m (fun _ => nth m v []) v = v) as Same
    by (intros m Hm; apply (upd_same _ _ _ []); auto).
  destruct o as [m r|m a e|m j|m rs|m n|m| |m n]; cbn [vstep].
  - destruct (Nat.ltb_spec m (length v)) as [Hm|Hm]; [|cbn; contradiction].
    pose proof (v_register_err (nth m v []) r) as H. destruct (v_register (nth m v []) r) as [ms [e|]]; cbn; [|contradiction].
    intros _. pose proof (H e eq_refl) as H1; cbn in H1; rewrite H1. apply Same, Hm.
  - destruct (Nat.ltb_spec m (length v)) as [Hm|Hm]; [|cbn; contradiction].
    pose proof (v_alias_err (nth m v []) a e) as H. destruct (v_alias (nth m v []) a e) as [ms [er|]]; cbn; [|contradiction].
    intros _. pose proof (H er eq_refl) as H1; cbn in H1; rewrite H1. apply Same, Hm.
  - destruct (Nat.ltb_spec m (length v)) as [Hm|Hm]; cbn [andb]; [|cbn; contradiction].
    destruct (j <? length v); [|cbn; contradiction].
    pose proof (v_merge_err (nth m v []) (nth j v [])) as H.
    destruct (v_merge (nth m v []) (nth j v [])) as [ms [er|]]; cbn; [|contradiction].
    intros _. destruct (H er eq_refl) as [H1 _]. cbn in H1. rewrite H1. apply Same, Hm.
  - destruct (Nat.ltb_spec m (length v)) as [Hm|Hm]; [|cbn; contradiction].
    destruct (v_build [] rs) as [other es].
    pose proof (v_merge_err (nth m v []) other) as H.
    destruct (v_merge (nth m v []) other) as [ms [er|]]; cbn; [|contradiction].
    intros _. destruct (H er eq_refl) as [H1 _]. cbn in H1. rewrite H1. apply Same, Hm.
  - destruct (m <? length v); cbn; contradiction.
  - destruct (m <? length v); cbn; contradiction.
  - cbn; contradiction.
  - destruct (m <? length v); cbn; contradiction.
Qed.

(* ================================================================ D3. dispatch, stability of bindings, frame *)
Definition bind_of (v : list methods) : nat -> name -> option binding := fun m n => lookup n (nth m v []).

Lemma bind_of_valid v m n b : bind_of v m n = Some b -> m < length v.
Proof.
  unfold bind_of. intro H. destruct (Nat.lt_ge_cases m (length v)) as [L|L]; [exact L|].
  rewrite nth_overflow in H by exact L. discriminate.
Qed.

Lemma vstep_length v o : length v <= length (fst (vstep v o)).
Proof.
  destruct o as [m r|m a e|m j|m rs|m n|m| |m n]; cbn [vstep];
    repeat match goal with
    | |- context [if ?b then _ else _] => destruct b
    | |- context [let (_, _) := ?p in _] => destruct p
    end; cbn [fst]; rewrite ?length_upd, ?app_length; cbn; lia.
Qed.

Lemma vstep_frame v o k : writes o <> Some k -> k < length v -> nth k (fst (vstep v o)) [] = nth k v [].
Proof.
  intros Hw Hk.
  destruct o as [m r|m a e|m j|m rs|m n|m| |m n]; cbn [vstep writes] in *;
    repeat match goal with
    | |- context [if ?b then _ else _] => destruct b
    | |- context [let (_, _) := ?p in _] => destruct p
    end; cbn [fst]; try reflexivity;
    try (apply nth_upd_neq; congruence); apply app_nth1; exact Hk.
Qed.

Lemma vstep_outcome v o : is_registration o ->
  succeeded (snd (vstep v o)) \/ failed (snd (vstep v o)) \/ (snd (vstep v o) = OBad /\ fst (vstep v o) = v).
Proof.
  destruct o as [m r|m a e|m j|m rs|m n|m| |m n]; cbn [is_registration]; try contradiction; intros _; cbn [vstep];
    repeat match goal with
    | |- context [if ?b then _ else _] => destruct b
    | |- context [let (_, _) := ?p in _] => destruct p
    end; cbn; auto;
    match goal with |- context [ORes ?e] => destruct e | |- context [OMergeNew _ ?e] => destruct e end; cbn; auto.
Qed.

Lemma vstep_stable v o m n b : nodup_all v -> bind_of v m n = Some b -> o <> Remove m n ->
  bind_of (fst (vstep v o)) m n = Some b.
Proof.
  intros ND Hb Hne. pose proof (bind_of_valid _ _ _ _ Hb) as Hm.
  assert (writes o = Some m \/ writes o <> Some m) as [Hw|Hw] by (destruct (writes o) as [x|]; [destruct (Nat.eq_dec x m); [left; congruence | right; congruence] | right; discriminate]).
  2: { unfold bind_of in *. rewrite vstep_frame; assumption. }
  assert (is_registration o \/ exists n', o = Remove m n') as [Hreg|[n' ->]].
  { destruct o; cbn in Hw |- *; try discriminate; inversion Hw; subst; eauto. }
  - destruct (vstep_outcome v o Hreg) as [S|[F|[_ E]]].
    + destruct (vstep_success v o ND Hreg S) as (m' & Hw' & _ & E & _). rewrite Hw in Hw'. inversion Hw'; subst m'.
      unfold bind_of in *. rewrite E, nth_upd_eq by exact Hm. rewrite lookup_app, Hb. reflexivity.
    + rewrite (vstep_failure v o F). exact Hb.
    + rewrite E. exact Hb.
  - cbn [vstep]. destruct (Nat.ltb_spec m (length v)); [|lia]. cbn [fst].
    unfold bind_of in *. rewrite nth_upd_eq by exact Hm. rewrite lookup_hm_remove.
    beq n n'; [congruence | exact Hb].
Qed.

Lemma vexec_length os : forall v, length v <= length (vexec v os).
Proof.
  induction os as [|o os IH]; intro v; cbn; [lia|].
  etransitivity; [apply (vstep_length v o) | apply IH].
Qed.

Lemma vexec_frame os : forall v k, k < length v -> Forall (fun o => writes o <> Some k) os ->
  nth k (vexec v os) [] = nth k v [].
Proof.
  induction os as [|o os IH]; intros v k Hk F; cbn; [reflexivity|].
  inversion F as [|? ? Ho F']; subst.
  change (nth k (vexec (fst (vstep v o)) os) [] = nth k v []).
  rewrite IH; [apply vstep_frame; assumption | | exact F'].
  pose proof (vstep_length v o). lia.
Qed.

(* ================================================================ D4. the abstract specification: finite maps name -> handler
   A module is a function name -> option binding; the registry is a number of modules N and a function from module
   index to such a map.  This restates the property text and does not mention lists, heaps or sharing. *)
Definition amap := name -> option binding.
Definition bmap := nat -> amap.

Definition a_set (f : amap) (n : name) (v : option binding) : amap := fun k => if bytes_eqb k n then v else f k.

Definition a_insert (f : amap) (n : name) (b : binding) : amap * option rerr :=
  match f n with
  | Some _ => (f, Some (AlreadyRegistered n))
  | None => (a_set f n (Some b), None)
  end.

Definition a_register (f : amap) (r : reg) : amap * option rerr :=
  match r with
  | RMethod n h => a_insert f n (Bind h KSync)
  | RAsync n h => a_insert f n (Bind h KAsync)
  | RBlocking n h => a_insert f n (Bind h KBlocking)
  | RSub _ sn un h =>
    if bytes_eqb sn un then (f, Some (SubscriptionNameConflict sn)) else
    match f sn with
    | Some _ => (f, Some (AlreadyRegistered sn))
    | None =>
      match f un with
      | Some _ => (f, Some (AlreadyRegistered un))
      | None => (a_set (a_set f un (Some (Bind h KUnsub))) sn (Some (Bind h KSub)), None)
      end
    end
  end.

Definition a_alias (f : amap) (a e : name) : amap * option rerr :=
  match f a with
  | Some _ => (f, Some (AlreadyRegistered a))
  | None =>
    match f e with
    | None => (f, Some (MethodNotFound e))
    | Some b => (a_set f a (Some b), None)
    end
  end.

Fixpoint a_build (f : amap) (rs : list reg) : amap * list (option rerr) :=
  match rs with
  | [] => (f, [])
  | r :: rs' =>
    let (f1, e) := a_register f r in
    let (f2, es) := a_build f1 rs' in (f2, e :: es)
  end.

(* merging g into f gives f' and the result e: fails (with some shared name) iff a name is bound in both, and then
   nothing changes; otherwise f' is f plus every binding of g *)
Definition a_merge_spec (f g f' : amap) (e : option rerr) : Prop :=
  (exists n, e = Some (AlreadyRegistered n) /\ f n <> None /\ g n <> None /\ forall k, f' k = f k)
  \/ (e = None /\ (forall n, f n = None \/ g n = None)
      /\ forall k, f' k = match g k with Some b => Some b | None => f k end).

(* module m now holds f'; every other module is as before *)
Definition only_changes (B B' : bmap) (m : nat) (f' : amap) : Prop :=
  (forall k, B' m k = f' k) /\ forall m', m' <> m -> forall k, B' m' k = B m' k.
Definition same (B B' : bmap) : Prop := forall m k, B' m k = B m k.

Definition spec_step (N : nat) (B : bmap) (o : op) (N' : nat) (B' : bmap) (ob : obs) : Prop :=
  match o with
  | Reg m r =>
    if (m <? N) then N' = N /\ ob = ORes (snd (a_register (B m) r)) /\ only_changes B B' m (fst (a_register (B m) r))
    else N' = N /\ ob = OBad /\ same B B'
  | Alias m a e =>
    if (m <? N) then N' = N /\ ob = ORes (snd (a_alias (B m) a e)) /\ only_changes B B' m (fst (a_alias (B m) a e))
    else N' = N /\ ob = OBad /\ same B B'
  | MergeMod m j =>
    if (m <? N) && (j <? N) then
      N' = N /\ exists e, ob = ORes e /\ a_merge_spec (B m) (B j) (B' m) e /\ forall m', m' <> m -> forall k, B' m' k = B m' k
    else N' = N /\ ob = OBad /\ same B B'
  | MergeNew m rs =>
    if (m <? N) then
      N' = N /\ exists e, ob = OMergeNew (snd (a_build (fun _ => None) rs)) e
        /\ a_merge_spec (B m) (fst (a_build (fun _ => None) rs)) (B' m) e
        /\ forall m', m' <> m -> forall k, B' m' k = B m' k
    else N' = N /\ ob = OBad /\ same B B'
  | Remove m n =>
    if (m <? N) then N' = N /\ ob = ORemoved (B m n) /\ only_changes B B' m (a_set (B m) n None)
    else N' = N /\ ob = OBad /\ same B B'
  | Clone m =>
    if (m <? N) then N' = S N /\ ob = OHandle N /\ only_changes B B' N (B m)
    else N' = N /\ ob = OBad /\ same B B'
  | New => N' = S N /\ ob = OHandle N /\ only_changes B B' N (fun _ => None)
  | Call m n =>
    if (m <? N) then N' = N /\ ob = OCall (B m n) /\ same B B'
    else N' = N /\ ob = OBad /\ same B B'
  end.

Definition agrees (f : amap) (ms : methods) : Prop := forall k, f k = lookup k ms.

Lemma a_insert_agrees f ms n b : agrees f ms ->
  agrees (fst (a_insert f n b)) (fst (v_insert ms n b)) /\ snd (a_insert f n b) = snd (v_insert ms n b).
Proof.
  intro A. unfold a_insert, v_insert. rewrite (A n). destruct (lookup n ms); cbn; split; auto.
  intro k. unfold a_set. rewrite lookup_hm_insert, (A k). reflexivity.
Qed.

Lemma a_register_agrees f ms r : agrees f ms ->
  agrees (fst (a_register f r)) (fst (v_register ms r)) /\ snd (a_register f r) = snd (v_register ms r).
Proof.
  intro A. destruct r as [n h|n h|n h|raw sn un h]; cbn [a_register v_register]; try (apply a_insert_agrees, A).
  beq sn un; [cbn; auto|].
  unfold contains_key. rewrite (A sn), (A un).
  destruct (lookup sn ms) eqn:Ls; [cbn; auto|].
  destruct (lookup un ms) eqn:Lu; [cbn; auto|].
  unfold v_insert. rewrite lookup_hm_insert. beq sn un; [contradiction|]. rewrite Ls. cbn. split; auto.
  intro k. unfold a_set. rewrite !lookup_hm_insert, (A k). reflexivity.
Qed.

Lemma a_alias_agrees f ms a e : agrees f ms ->
  agrees (fst (a_alias f a e)) (fst (v_alias ms a e)) /\ snd (a_alias f a e) = snd (v_alias ms a e).
Proof.
  intro A. unfold a_alias, v_alias, contains_key. rewrite (A a), (A e).
  destruct (lookup a ms); [cbn; auto|]. destruct (lookup e ms); cbn; split; auto.
  intro k. unfold a_set. rewrite lookup_hm_insert, (A k). reflexivity.
Qed.

Lemma a_build_agrees rs : forall f ms, agrees f ms ->
  agrees (fst (a_build f rs)) (fst (v_build ms rs)) /\ snd (a_build f rs) = snd (v_build ms rs).
Proof.
  induction rs as [|r rs IH]; intros f ms A; cbn; [auto|].
  destruct (a_register_agrees f ms r A) as [A1 E1].
  destruct (a_register f r) as [f1 e1]. destruct (v_register ms r) as [ms1 e1']. cbn [fst snd] in *. subst e1'.
  destruct (IH f1 ms1 A1) as [A2 E2].
  destruct (a_build f1 rs) as [f2 es]. destruct (v_build ms1 rs) as [ms2 es']. cbn [fst snd] in *. subst. auto.
Qed.

Lemma a_merge_agrees ms other : NoDup (keys other) ->
  a_merge_spec (fun k => lookup k ms) (fun k => lookup k other)
               (fun k => lookup k (fst (v_merge ms other))) (snd (v_merge ms other)).
Proof.
  intro ND. unfold a_merge_spec.
  destruct (snd (v_merge ms other)) as [e|] eqn:S.
  - left. destruct (v_merge_err _ _ _ S) as (E & n & -> & Hin & Hms). exists n. repeat split; auto.
    + apply (proj2 (lookup_none_iff n other)) in Hin || (intro Hn; apply lookup_none_iff in Hn; contradiction).
    + intro k. rewrite E. reflexivity.
  - right. destruct (v_merge_ok _ _ ND S) as (E & Hd). repeat split; auto.
    + intro n. destruct (lookup n other) eqn:Lo; [left | right; reflexivity].
      apply Hd. apply lookup_some_in in Lo. apply (in_map fst) in Lo. exact Lo.
    + intro k. rewrite E, lookup_app.
      destruct (lookup k other) eqn:Lo.
      * rewrite Hd; [reflexivity|]. apply lookup_some_in in Lo. apply (in_map fst) in Lo. exact Lo.
      * destruct (lookup k ms); reflexivity.
Qed.

Lemma bind_upd_same v m x : m < length v -> forall k, bind_of (upd m (fun _ => x) v) m k = lookup k x.
Proof. intros Hm k. unfold bind_of. rewrite nth_upd_eq by exact Hm. reflexivity. Qed.

Lemma bind_upd_other v m x m' : m' <> m -> forall k, bind_of (upd m (fun _ => x) v) m' k = bind_of v m' k.
Proof. intros Hne k. unfold bind_of. rewrite nth_upd_neq by exact Hne. reflexivity. Qed.

Lemma bind_app_new v x : forall k, bind_of (v ++ [x]) (length v) k = lookup k x.
Proof. intro k. unfold bind_of. rewrite app_nth2, Nat.sub_diag by lia. reflexivity. Qed.

Lemma bind_app_old v x m' : m' <> length v -> forall k, bind_of (v ++ [x]) m' k = bind_of v m' k.
Proof.
  intros Hne k. unfold bind_of. destruct (Nat.lt_ge_cases m' (length v)) as [L|L].
  - rewrite app_nth1 by exact L. reflexivity.
  - rewrite !nth_overflow; [reflexivity | exact L | rewrite app_length; cbn; lia].
Qed.

Lemma vstep_spec v o : nodup_all v ->
  spec_step (length v) (bind_of v) o (length (fst (vstep v o))) (bind_of (fst (vstep v o))) (snd (vstep v o)).
Proof.
  intro ND.
  assert (forall m, NoDup (keys (nth m v []))) as Hn by (intro m; apply Forall_nth_d; [exact ND | constructor]).
  assert (forall m, agrees (bind_of v m) (nth m v [])) as Ag by (intros m k; reflexivity).
  destruct o as [m r|m a e|m j|m rs|m n|m| |m n]; cbn [vstep spec_step].
  - destruct (Nat.ltb_spec m (length v)) as [Hm|Hm]; [|cbn; repeat split; auto].
    destruct (a_register_agrees _ _ r (Ag m)) as [A1 E1].
    destruct (v_register (nth m v []) r) as [ms e]. cbn [fst snd] in *. rewrite length_upd. repeat split; auto.
    + congruence.
    + intro k. rewrite bind_upd_same by exact Hm. symmetry. apply A1.
    + intros m' Hne k. apply bind_upd_other, Hne.
  - destruct (Nat.ltb_spec m (length v)) as [Hm|Hm]; [|cbn; repeat split; auto].
    destruct (a_alias_agrees _ _ a e (Ag m)) as [A1 E1].
    destruct (v_alias (nth m v []) a e) as [ms er]. cbn [fst snd] in *. rewrite length_upd. repeat split; auto.
    + congruence.
    + intro k. rewrite bind_upd_same by exact Hm. symmetry. apply A1.
    + intros m' Hne k. apply bind_upd_other, Hne.
  - destruct (Nat.ltb_spec m (length v)) as [Hm|Hm]; cbn [andb]; [|cbn; repeat split; auto].
    destruct (j <? length v); [|cbn; repeat split; auto].
    pose proof (a_merge_agrees (nth m v []) (nth j v []) (Hn j)) as M.
    destruct (v_merge (nth m v []) (nth j v [])) as [ms e]. cbn [fst snd] in *. rewrite length_upd. split; auto.
    exists e. repeat split; auto.
    + unfold a_merge_spec in *. destruct M as [(n & -> & H1 & H2 & H3)|(-> & H1 & H2)]; [left | right].
      * exists n. repeat split; auto. intro k. rewrite bind_upd_same by exact Hm. apply H3.
      * repeat split; auto. intro k. rewrite bind_upd_same by exact Hm. apply H2.
    + intros m' Hne k. apply bind_upd_other, Hne.
  - destruct (Nat.ltb_spec m (length v)) as [Hm|Hm]; [|cbn; repeat split; auto].
    destruct (a_build_agrees rs (fun _ => None) [] (fun k => eq_refl)) as [A1 E1].
    pose proof (v_build_nodup rs [] (NoDup_nil _)) as NB.
    destruct (v_build [] rs) as [other es]. cbn [fst snd] in *.
    pose proof (a_merge_agrees (nth m v []) other NB) as M.
    destruct (v_merge (nth m v []) other) as [ms e]. cbn [fst snd] in *. rewrite length_upd. split; auto.
    exists e. rewrite E1. repeat split; auto.
    + unfold a_merge_spec in *. destruct M as [(n & -> & H1 & H2 & H3)|(-> & H1 & H2)]; [left | right].
      * exists n. repeat split; auto; [rewrite (A1 n); exact H2|]. intro k. rewrite bind_upd_same by exact Hm. apply H3.
      * repeat split; auto.
        -- intro n. rewrite (A1 n). apply H1.
        -- intro k. rewrite bind_upd_same by exact Hm. rewrite (A1 k). apply H2.
    + intros m' Hne k. apply bind_upd_other, Hne.
  - destruct (Nat.ltb_spec m (length v)) as [Hm|Hm]; [|cbn; repeat split; auto].
    cbn [fst snd]. rewrite length_upd. repeat split; auto.
    + intro k. rewrite bind_upd_same by exact Hm. unfold a_set. rewrite lookup_hm_remove. reflexivity.
    + intros m' Hne k. apply bind_upd_other, Hne.
  - destruct (Nat.ltb_spec m (length v)) as [Hm|Hm]; [|cbn; repeat split; auto].
    cbn [fst snd]. rewrite app_length; cbn. repeat split; auto; [lia | |].
    + intro k. apply bind_app_new.
    + intros m' Hne k. apply bind_app_old, Hne.
  - cbn [fst snd]. rewrite app_length; cbn. repeat split; auto; [lia | |].
    + intro k. apply bind_app_new.
    + intros m' Hne k. apply bind_app_old, Hne.
  - destruct (Nat.ltb_spec m (length v)) as [Hm|Hm]; cbn; repeat split; auto.
Qed.

(* ================================================================ D5. the statements, on the heap-level model, for every op sequence *)
Definition bind (s : state) : bmap := bind_of (view s).

Lemma bind_get s m n : bind s m n = lookup n (get s m).
Proof. unfold bind, bind_of. rewrite get_view. reflexivity. Qed.

Lemma view_init : view init = [[]].
Proof. reflexivity. Qed.

Lemma reach_inv os : wf (exec init os) /\ nodup_all (view (exec init os)).
Proof.
  destruct (exec_refines init os wf_init) as [W V]. split; [exact W|].
  rewrite V. apply vexec_nodup. rewrite view_init. constructor; [constructor | constructor].
Qed.

Lemma names_unique : forall os m, NoDup (keys (get (exec init os) m)).
Proof.
  intros os m. destruct (reach_inv os) as [_ ND]. rewrite get_view.
  apply Forall_nth_d; [exact ND | constructor].
Qed.

Lemma refines_map_spec : forall os o, let s := exec init os in
  spec_step (nmods s) (bind s) o (nmods (fst (step s o))) (bind (fst (step s o))) (snd (step s o)).
Proof.
  intros os o s. destruct (reach_inv os) as [W ND]. fold s in W, ND.
  destruct (step_refines s o W) as (_ & V & O).
  unfold bind. rewrite <- !length_view, V, O. apply vstep_spec, ND.
Qed.

Lemma success_adds_exactly : forall os o, let s := exec init os in
  is_registration o -> succeeded (snd (step s o)) ->
  exists m, writes o = Some m /\ m < nmods s /\
    view (fst (step s o)) = upd m (fun ms => ms ++ added (view s) o) (view s) /\
    (forall n, In n (keys (added (view s) o)) -> bind s m n = None) /\
    NoDup (keys (added (view s) o)).
Proof.
  intros os o s Hreg S. destruct (reach_inv os) as [W ND]. fold s in W, ND.
  destruct (step_refines s o W) as (_ & V & O). rewrite O in S. rewrite V, <- length_view.
  apply vstep_success; assumption.
Qed.

Lemma failure_is_identity : forall os o, let s := exec init os in
  failed (snd (step s o)) -> view (fst (step s o)) = view s.
Proof.
  intros os o s F. destruct (reach_inv os) as [W _]. fold s in W.
  destruct (step_refines s o W) as (_ & V & O). rewrite O in F. rewrite V. apply vstep_failure, F.
Qed.

(* the operations whose checks all come before the first mut_callbacks(): a failure leaves even the heap untouched *)
Definition checks_first (o : op) : Prop :=
  match o with
  | Reg _ (RSub _ _ _ _) | Alias _ _ _ | MergeMod _ _ | MergeNew _ _ => True
  | _ => False
  end.

Lemma step_failure_heap s o : wf s -> checks_first o -> failed (snd (step s o)) -> fst (step s o) = s.
Proof.
  intros W C. destruct o as [m r|m a e|m j|m rs|m n|m| |m n]; cbn [checks_first] in C; try contradiction; unfold step, valid.
  - destruct r as [n h|n h|n h|raw sn un h]; try contradiction.
    destruct (Nat.ltb_spec m (nmods s)) as [Hm|Hm]; [|cbn; contradiction].
    destruct (register_refines s m (RSub raw sn un h) W Hm) as (_ & _ & R). revert R.
    cbn [register v_register]. unfold verify_method_name.
    beq sn un; [cbn; auto|].
    destruct (contains_key sn (get s m)) eqn:Cs; [cbn; auto|].
    destruct (contains_key un (get s m)) eqn:Cu; [cbn; auto|].
    unfold v_insert. rewrite lookup_hm_insert. beq sn un; [contradiction|].
    apply contains_key_false in Cs. rewrite Cs. cbn [snd].
    destruct (verify_and_insert (mut_insert s m un (Bind h KUnsub)) m sn (Bind h KSub)) as [s1 e1]. cbn.
    intros ->. cbn. contradiction.
  - destruct (m <? nmods s); [|cbn; contradiction].
    unfold register_alias, verify_method_name. destruct (contains_key a (get s m)); [cbn; auto|].
    destruct (lookup e (get s m)); cbn; [contradiction | auto].
  - destruct ((m <? nmods s) && (j <? nmods s)); [|cbn; contradiction].
    unfold merge. destruct (first_clash (get s m) (map fst (get s j))); [cbn; auto|].
    destruct (make_mut s m (Some (cell_of s j))); cbn; contradiction.
  - destruct (m <? nmods s); [|cbn; contradiction].
    destruct (build rs) as [other es]. unfold merge. destruct (first_clash (get s m) (map fst other)); [cbn; auto|].
    destruct (make_mut s m None); cbn; contradiction.
Qed.

Lemma failure_is_identity_heap : forall os o, let s := exec init os in
  checks_first o -> failed (snd (step s o)) -> fst (step s o) = s.
Proof. intros os o s. apply step_failure_heap, reach_inv. Qed.

Lemma dispatch : forall os m n, let s := exec init os in
  step s (Call m n) = (s, if (m <? nmods s) then OCall (bind s m n) else OBad).
Proof.
  intros os m n s. unfold step, valid. destruct (m <? nmods s); [|reflexivity]. rewrite bind_get. reflexivity.
Qed.

Lemma not_found_iff_unbound : forall os m n, let s := exec init os in
  m < nmods s -> (snd (step s (Call m n)) = OCall None <-> ~ In n (keys (get s m))).
Proof.
  intros os m n s Hm. unfold step, valid. destruct (Nat.ltb_spec m (nmods s)); [|lia]. cbn [snd].
  rewrite <- lookup_none_iff. split; [intro HH; inversion HH; reflexivity | intros ->; reflexivity].
Qed.

Lemma binding_stable : forall os o m n b, let s := exec init os in
  bind s m n = Some b -> o <> Remove m n -> bind (fst (step s o)) m n = Some b.
Proof.
  intros os o m n b s Hb Hne. destruct (reach_inv os) as [W ND]. fold s in W, ND.
  destruct (step_refines s o W) as (_ & V & _). unfold bind in *. rewrite V. apply vstep_stable; assumption.
Qed.

Lemma frame : forall os os2 k, let s := exec init os in
  k < nmods s -> Forall (fun o => writes o <> Some k) os2 -> get (exec s os2) k = get s k.
Proof.
  intros os os2 k s Hk F. destruct (reach_inv os) as [W _]. fold s in W.
  destruct (exec_refines s os2 W) as [_ V]. rewrite !get_view, V. apply vexec_frame; [rewrite length_view; exact Hk | exact F].
Qed.

Lemma clone_isolated : forall os m os2, let s := exec init os in
  m < nmods s ->
  let s1 := fst (step s (Clone m)) in
  let c := nmods s in
  get s1 c = get s m /\
  (Forall (fun o => writes o <> Some c) os2 -> get (exec s1 os2) c = get s m) /\
  (Forall (fun o => writes o <> Some m) os2 -> get (exec s1 os2) m = get s m).
Proof.
  intros os m os2 s Hm s1 c.
  assert (s1 = exec init (os ++ [Clone m])) as E1 by (unfold s1, s; rewrite exec_snoc; reflexivity).
  assert (nmods s1 = S c /\ get s1 c = get s m /\ get s1 m = get s m) as (N1 & Gc & Gm).
  { destruct (reach_inv os) as [W _]. fold s in W.
    destruct (step_refines s (Clone m) W) as (_ & V & _). fold s1 in V. cbn [vstep] in V. rewrite length_view in V.
    destruct (Nat.ltb_spec m (nmods s)); [|lia]. cbn [fst] in V.
    assert (length (view s) = c) as Lc by apply length_view.
    repeat split.
    - rewrite <- length_view, V, app_length, Lc. cbn. lia.
    - rewrite !get_view, V, app_nth2, Lc, Nat.sub_diag by lia. reflexivity.
    - rewrite !get_view, V, app_nth1 by lia. reflexivity. }
  split; [exact Gc|]. split; intro F.
  - rewrite <- Gc. rewrite E1. apply frame; [rewrite <- E1; lia | exact F].
  - rewrite <- Gm. rewrite E1. apply frame; [rewrite <- E1; unfold c in N1; lia | exact F].
Qed.

(* ================================================================ E. what the extracted driver prints *)
Lemma trace_from_snoc os : forall s o,
  trace_from s (os ++ [o]) = trace_from s os ++ [(snd (step (exec s os) o), dump (exec s (os ++ [o])))].
Proof.
  induction os as [|o1 os IH]; intros s o; cbn.
  - destruct (step s o); reflexivity.
  - destruct (step s o1) as [s1 ob1] eqn:E. cbn. f_equal.
    replace (fold_left (fun s0 o0 => fst (step s0 o0)) os (fst (step s o1))) with (exec s1 os) by (rewrite E; reflexivity).
    replace (fold_left (fun s0 o0 => fst (step s0 o0)) (os ++ [o]) (fst (step s o1))) with (exec s1 (os ++ [o])) by (rewrite E; reflexivity).
    apply IH.
Qed.

Lemma run_trace_snoc : forall os o,
  run_trace (os ++ [o]) = run_trace os ++ [(snd (step (exec init os) o), dump (exec init (os ++ [o])))].
Proof. intros. apply trace_from_snoc. Qed.

Lemma dump_perm : forall s, Forall2 (@Permutation (name * binding)) (dump s) (view s).
Proof.
  intro s. unfold dump. induction (view s) as [|ms v IH]; cbn; constructor; [apply sort_methods_perm | exact IH].
Qed.

(* ================================================================ F. a witness history for the non-vacuity Examples of Props/C13.v *)
Definition na : name := b#"a".
Definition nb : name := b#"b".
Definition nc : name := b#"c".

Definition demo : list op :=
  [ Reg 0 (RMethod na 1);            (* ok *)
    Reg 0 (RAsync na 2);             (* a taken *)
    Reg 0 (RSub false nb nb 3);      (* subscribe = unsubscribe *)
    Reg 0 (RSub false nb na 4);      (* unsubscribe name taken *)
    Alias 0 nc nb;                   (* alias of a missing name *)
    Clone 0;                         (* module 1 *)
    Reg 0 (RSub true nb nc 5);       (* ok on module 0 only *)
    MergeMod 1 0;                    (* shares a *)
    Remove 0 na;
    MergeMod 0 1;                    (* now disjoint: ok *)
    Call 0 na; Call 1 nb; Call 0 nc ].

