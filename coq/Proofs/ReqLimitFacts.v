(* C07: facts about the request-size gate (Model/ReqLimit.v) over the wiring regenerated from the sources. *)
From JV Require Import Base.Bytes Base.Dec Model.Wire Gen.LimitsWiringGen Model.ReqLimit.
Local Open Scope N_scope.
Arguments N.add : simpl never.
Arguments N.sub : simpl never.
Arguments N.mul : simpl never.
Arguments N.ltb : simpl never.
Arguments N.leb : simpl never.
Arguments N.eqb : simpl never.

(* ---------- wiring (generated definitions) ---------- *)

Lemma ws_wiring : forall e c l, ws_limit_of e c = Some l -> l = max_request c.
Proof. intros e c l H. destruct e; cbn in H; inversion H; reflexivity. Qed.

Lemma http_wiring : forall e c l, http_limit_of e c = Some l -> l = max_request c.
Proof. intros e c l H. destruct e; cbn in H; inversion H; reflexivity. Qed.

Lemma http_reported_wiring : forall e c l, http_reported_of e c = Some l -> l = max_request c.
Proof. intros e c l H. destruct e; cbn in H; inversion H; reflexivity. Qed.

Lemma ws_reported_wiring : forall c, ws_reported_limit c = max_request c.
Proof. reflexivity. Qed.

Lemma every_ep_has_a_transport : forall e c, ws_limit_of e c <> None \/ http_limit_of e c <> None.
Proof. intros e c. destruct e; cbn; (left; discriminate) || (right; discriminate). Qed.

Lemma wiring :
  forall e c l,
    (ws_limit_of e c = Some l -> l = max_request c) /\
    (http_limit_of e c = Some l -> l = max_request c) /\
    (http_reported_of e c = Some l -> l = max_request c) /\
    ws_reported_limit c = max_request c /\
    (ws_limit_of e c <> None \/ http_limit_of e c <> None).
Proof.
  intros e c l. repeat split.
  - apply ws_wiring. - apply http_wiring. - apply http_reported_wiring. - apply every_ep_has_a_transport.
Qed.

Lemma config_builder :
  forall b rq rs,
    builder_build (builder_set_response (builder_set_request b rq) rs) = {| max_request := rq; max_response := rs |} /\
    builder_build (builder_set_request (builder_set_response b rs) rq) = {| max_request := rq; max_response := rs |}.
Proof. intros b rq rs. split; reflexivity. Qed.

(* ---------- read_body ---------- *)

Lemma soketto_accepts_iff max n : soketto_accepts max n = true <-> n <= max.
Proof.
  unfold soketto_accepts. destruct (N.ltb_spec max n); cbn; split; intro H'; try discriminate; try reflexivity; lia.
Qed.

Lemma limited_iff : forall frames remaining, limited remaining frames = true <-> sum_frames frames <= remaining.
Proof.
  induction frames as [|f fs IH]; intro r; cbn [limited sum_frames fold_right].
  - split; intro; [lia | reflexivity].
  - fold (sum_frames fs). destruct (N.ltb_spec r f) as [Hlt | Hge].
    + split; intro H; [discriminate | lia].
    + rewrite IH. lia.
Qed.

Lemma read_body_processed_iff cl frames max reported :
  read_body_size cl frames max reported = HProcessed <-> cl_value cl <= max /\ sum_frames frames <= max.
Proof.
  unfold read_body_size, read_body_precheck_limit, read_body_stream_limit.
  destruct (N.ltb_spec max (cl_value cl)) as [Hlt | Hge].
  - split; intro H; [discriminate | lia].
  - destruct (limited max frames) eqn:E.
    + apply limited_iff in E. split; intro; [lia | reflexivity].
    + split; intro H; [discriminate|]. destruct H as [_ H]. apply limited_iff in H. congruence.
Qed.

(* a truthful or absent Content-Length *)
Definition cl_honest (cl : option N) (frames : list N) : Prop := cl = None \/ cl = Some (sum_frames frames).

Lemma read_body_honest cl frames max reported :
  max <= u32_max -> cl_honest cl frames ->
  (read_body_size cl frames max reported = HProcessed <-> sum_frames frames <= max).
Proof.
  intros Hmax Hcl. rewrite read_body_processed_iff. destruct Hcl as [-> | ->]; cbn [cl_value].
  - lia.
  - destruct (N.leb_spec (sum_frames frames) u32_max); lia.
Qed.

(* rejected bodies: which status *)
Lemma read_body_rejected cl frames max reported :
  max < sum_frames frames \/ max < cl_value cl ->
  read_body_size cl frames max reported = HTooLarge413 reported \/ read_body_size cl frames max reported = HStream500.
Proof.
  intro H. unfold read_body_size, read_body_precheck_limit, read_body_stream_limit.
  destruct (N.ltb_spec max (cl_value cl)); [left; reflexivity|].
  destruct (limited max frames) eqn:E; [|right; reflexivity].
  apply limited_iff in E. lia.
Qed.

(* ---------- decision ---------- *)

Lemma decision_ws e c n b : ws_processed e c n = Some b -> (b = true <-> n <= max_request c).
Proof.
  unfold ws_processed. destruct (ws_limit_of e c) as [l|] eqn:E; [|discriminate].
  apply ws_wiring in E. subst l. intro H. inversion H; subst. apply soketto_accepts_iff.
Qed.

Lemma decision_http e c cl frames b :
  max_request c <= u32_max -> cl_honest cl frames ->
  http_processed e c cl frames = Some b -> (b = true <-> sum_frames frames <= max_request c).
Proof.
  intros Hmax Hcl. unfold http_processed, http_result.
  destruct (http_limit_of e c) as [l|] eqn:E; [|discriminate].
  destruct (http_reported_of e c) as [r|] eqn:E2; [|discriminate].
  apply http_wiring in E. subst l.
  pose proof (read_body_honest cl frames (max_request c) r Hmax Hcl) as Hrb.
  destruct (read_body_size cl frames (max_request c) r) eqn:R; intro H; inversion H; subst.
  - split; intro; [apply Hrb; reflexivity | reflexivity].
  - split; intro H'; [discriminate|]. apply Hrb in H'. discriminate.
  - split; intro H'; [discriminate|]. apply Hrb in H'. discriminate.
Qed.

Lemma decision :
  forall e c,
    (forall n b, ws_processed e c n = Some b -> (b = true <-> n <= max_request c)) /\
    (forall cl frames b, max_request c <= u32_max -> cl_honest cl frames ->
        http_processed e c cl frames = Some b -> (b = true <-> sum_frames frames <= max_request c)).
Proof. intros e c. split; [apply decision_ws | intros; eapply decision_http; eassumption]. Qed.

(* any Content-Length at all: processed exactly when both the declared and the actual size are within the limit *)
Lemma decision_http_any_cl e c cl frames b :
  http_processed e c cl frames = Some b ->
  (b = true <-> cl_value cl <= max_request c /\ sum_frames frames <= max_request c).
Proof.
  unfold http_processed, http_result.
  destruct (http_limit_of e c) as [l|] eqn:E; [|discriminate].
  destruct (http_reported_of e c) as [r|] eqn:E2; [|discriminate].
  apply http_wiring in E. subst l.
  pose proof (read_body_processed_iff cl frames (max_request c) r) as Hrb.
  destruct (read_body_size cl frames (max_request c) r) eqn:R; intro H; inversion H; subst.
  - split; intro; [apply Hrb; reflexivity | reflexivity].
  - split; intro H'; [discriminate|]. apply Hrb in H'. discriminate.
  - split; intro H'; [discriminate|]. apply Hrb in H'. discriminate.
Qed.

(* the HTTP rejection is an error status quoting max_request *)
Lemma http_reject_status e c cl frames r :
  http_result e c cl frames = Some r -> r <> HProcessed ->
  (r = HTooLarge413 (max_request c) /\ http_status r = 413) \/ (r = HStream500 /\ http_status r = 500).
Proof.
  unfold http_result.
  destruct (http_limit_of e c) as [l|] eqn:E; [|discriminate].
  destruct (http_reported_of e c) as [rp|] eqn:E2; [|discriminate].
  apply http_reported_wiring in E2. subst rp. intros H Hn. inversion H as [H1]. clear H.
  unfold read_body_size in *.
  destruct (read_body_precheck_limit l <? cl_value cl).
  - left. subst r. split; reflexivity.
  - destruct (limited (read_body_stream_limit l) frames).
    + subst r. exfalso. apply Hn. reflexivity.
    + right. subst r. split; reflexivity.
Qed.

(* ---------- independence ---------- *)

Lemma ws_limit_indep e c1 c2 : max_request c1 = max_request c2 -> ws_limit_of e c1 = ws_limit_of e c2.
Proof.
  intro H. destruct (ws_limit_of e c1) as [l1|] eqn:E1; destruct (ws_limit_of e c2) as [l2|] eqn:E2.
  - apply ws_wiring in E1, E2. congruence.
  - destruct e; cbn in *; discriminate.
  - destruct e; cbn in *; discriminate.
  - reflexivity.
Qed.

Lemma http_limit_indep e c1 c2 : max_request c1 = max_request c2 -> http_limit_of e c1 = http_limit_of e c2.
Proof.
  intro H. destruct (http_limit_of e c1) as [l1|] eqn:E1; destruct (http_limit_of e c2) as [l2|] eqn:E2.
  - apply http_wiring in E1, E2. congruence.
  - destruct e; cbn in *; discriminate.
  - destruct e; cbn in *; discriminate.
  - reflexivity.
Qed.

Lemma http_reported_indep e c1 c2 : max_request c1 = max_request c2 -> http_reported_of e c1 = http_reported_of e c2.
Proof.
  intro H. destruct (http_reported_of e c1) as [l1|] eqn:E1; destruct (http_reported_of e c2) as [l2|] eqn:E2.
  - apply http_reported_wiring in E1, E2. congruence.
  - destruct e; cbn in *; discriminate.
  - destruct e; cbn in *; discriminate.
  - reflexivity.
Qed.

Lemma independent :
  forall e c1 c2, max_request c1 = max_request c2 ->
    (forall n, ws_processed e c1 n = ws_processed e c2 n) /\
    (forall msgs, ws_session e c1 msgs = ws_session e c2 msgs) /\
    (forall cl frames, http_result e c1 cl frames = http_result e c2 cl frames).
Proof.
  intros e c1 c2 H. repeat split; intros.
  - unfold ws_processed. rewrite (ws_limit_indep e c1 c2 H). reflexivity.
  - unfold ws_session. rewrite (ws_limit_indep e c1 c2 H).
    generalize (ws_reported_wiring c1) (ws_reported_wiring c2). generalize (ws_reported_limit c1) (ws_reported_limit c2).
    intros r1 r2 -> ->. rewrite H. reflexivity.
  - unfold http_result. rewrite (http_limit_indep e c1 c2 H), (http_reported_indep e c1 c2 H). reflexivity.
Qed.

(* in particular: changing only max_response changes nothing on the request path *)
Definition with_max_response (c : cfg) (r : N) : cfg := {| max_request := max_request c; max_response := r |}.

Lemma requests_unaffected_by_max_response :
  forall e c r,
    (forall n, ws_processed e (with_max_response c r) n = ws_processed e c n) /\
    (forall msgs, ws_session e (with_max_response c r) msgs = ws_session e c msgs) /\
    (forall cl frames, http_result e (with_max_response c r) cl frames = http_result e c cl frames).
Proof. intros e c r. apply independent. reflexivity. Qed.

(* ---------- the WS connection keeps serving ---------- *)

Definition ws_expected (c : cfg) (n : N) : ws_ev :=
  if n <=? max_request c then EvDispatched n else EvTooBig (max_request c).

Lemma ws_loop_open limit reported msgs :
  ws_loop limit reported true msgs =
  map (fun n => if n <=? limit then EvDispatched n else EvTooBig reported) msgs.
Proof.
  induction msgs as [|n rest IH]; cbn [ws_loop map]; [reflexivity|].
  unfold soketto_accepts. destruct (N.ltb_spec limit n); destruct (N.leb_spec n limit); try lia; cbn; rewrite IH; reflexivity.
Qed.

Lemma ws_continues e c msgs evs :
  ws_session e c msgs = Some evs -> evs = map (ws_expected c) msgs.
Proof.
  unfold ws_session. destruct (ws_limit_of e c) as [l|] eqn:E; [|discriminate].
  apply ws_wiring in E. subst l. intro H. inversion H. rewrite ws_loop_open.
  generalize (ws_reported_wiring c). generalize (ws_reported_limit c). intros r ->. reflexivity.
Qed.

(* spelled out: an oversized message in the middle yields one -32007 and everything after it is still served *)
Lemma ws_continues_after_reject e c pre n post evs :
  max_request c < n -> ws_session e c (pre ++ n :: post) = Some evs ->
  evs = map (ws_expected c) pre ++ EvTooBig (max_request c) :: map (ws_expected c) post.
Proof.
  intros Hn H. apply ws_continues in H. subst evs. rewrite map_app. cbn [map]. f_equal. f_equal.
  unfold ws_expected. destruct (N.leb_spec n (max_request c)); [lia | reflexivity].
Qed.

(* ---------- the rejection under back-pressure: pipelined messages, bounded outgoing queue ---------- *)
From Coq Require Import Sorting.Permutation.

Definition preply_eq_dec : forall a b : preply, {a = b} + {a <> b}.
Proof. decide equality; apply N.eq_dec. Defined.

Definition opt_list {A : Type} (o : option A) : list A := match o with Some x => [x] | None => [] end.

(* everything that is owed at some moment: on the wire, in the channel, parked, being computed, or still unread *)
Definition conn_bag (limit reported : N) (k : conn) : list preply :=
  k_wire k ++ k_queue k ++ k_waiting k ++ k_running k ++ opt_list (k_parked k)
  ++ map (pipeline_outcome limit reported) (k_inbox k).

Lemma step_preserves_bag limit reported cap k k' :
  conn_step limit reported cap k k' -> Permutation (conn_bag limit reported k) (conn_bag limit reported k').
Proof.
  intro H. apply (Permutation_count_occ preply_eq_dec). intro x.
  destruct H; unfold conn_bag;
    cbn [k_inbox k_parked k_running k_waiting k_queue k_wire opt_list map];
    try (unfold pipeline_outcome at 1; rewrite H);
    repeat (rewrite !count_occ_app || cbn [count_occ app]);
    repeat match goal with |- context [preply_eq_dec ?a ?b] => destruct (preply_eq_dec a b) end; lia.
Qed.

Lemma steps_preserve_bag limit reported cap k k' :
  conn_steps limit reported cap k k' -> Permutation (conn_bag limit reported k) (conn_bag limit reported k').
Proof.
  induction 1 as [k | k1 k2 k3 H1 _ IH]; [apply Permutation_refl|].
  eapply Permutation_trans; [eapply step_preserves_bag; eassumption | exact IH].
Qed.

Lemma conn_idle_iff k :
  conn_idle k = true <-> k_inbox k = [] /\ k_parked k = None /\ k_running k = [] /\ k_waiting k = [] /\ k_queue k = [].
Proof.
  destruct k as [inbox p run wait q w]. unfold conn_idle. cbn.
  destruct inbox, p, run, wait, q; split; intro H; try discriminate; try (repeat split; reflexivity);
    destruct H as (H1 & H2 & H3 & H4 & H5); discriminate.
Qed.

Lemma room_in_empty cap : 1 <= cap -> queue_has_room cap [] = true.
Proof. intro H. unfold queue_has_room. cbn. apply N.ltb_lt. lia. Qed.

(* with a channel of capacity >= 1, something can always move unless nothing is pending *)
Lemma progress limit reported cap k :
  1 <= cap -> (exists k', conn_step limit reported cap k k') \/ conn_idle k = true.
Proof.
  intro Hcap. pose proof (room_in_empty cap Hcap) as Hroom.
  destruct k as [inbox p run wait q w].
  destruct q as [|r q]; [|left; eexists; apply StWrite].
  destruct p as [r|]; [left; eexists; apply StLoopEnqueue; exact Hroom|].
  destruct wait as [|r wait]; [|left; eexists; exact (StTaskEnqueue limit reported cap r inbox None run [] wait [] w Hroom)].
  destruct run as [|r run]; [|left; eexists; exact (StTaskReady limit reported cap r inbox None [] run [] [] w)].
  destruct inbox as [|m inbox]; [right; reflexivity|].
  left. destruct (soketto_accepts limit (pm_size m)) eqn:E; eexists; [apply StRecvOk | apply StRecvTooBig]; exact E.
Qed.

Lemma stuck_is_idle limit reported cap k : 1 <= cap -> conn_stuck limit reported cap k -> conn_idle k = true.
Proof.
  intros Hcap Hs. destruct (progress limit reported cap k Hcap) as [[k' Hk'] | Hi]; [|exact Hi].
  exfalso. exact (Hs k' Hk').
Qed.

Lemma idle_bag limit reported k : conn_idle k = true -> conn_bag limit reported k = k_wire k.
Proof.
  intro H. apply conn_idle_iff in H. destruct H as (H1 & H2 & H3 & H4 & H5).
  unfold conn_bag. rewrite H1, H2, H3, H4, H5. cbn. apply app_nil_r.
Qed.

Lemma init_bag limit reported msgs : conn_bag limit reported (conn_init msgs) = map (pipeline_outcome limit reported) msgs.
Proof. reflexivity. Qed.

Lemma pipeline_outcome_wired e c l :
  ws_limit_of e c = Some l ->
  forall msgs, map (pipeline_outcome l (ws_reported_limit c)) msgs = ws_pipeline_replies c msgs.
Proof.
  intros E msgs. apply ws_wiring in E. subst l.
  generalize (ws_reported_wiring c). generalize (ws_reported_limit c). intros r ->. reflexivity.
Qed.

(* whatever the capacity and the interleaving: once nothing can move, the wire carries exactly the per-message outcomes *)
Lemma pipeline_each_answered :
  forall e c l cap msgs k,
    ws_limit_of e c = Some l -> 1 <= cap ->
    conn_steps l (ws_reported_limit c) cap (conn_init msgs) k ->
    conn_stuck l (ws_reported_limit c) cap k ->
    Permutation (k_wire k) (ws_pipeline_replies c msgs).
Proof.
  intros e c l cap msgs k E Hcap Hsteps Hstuck.
  apply steps_preserve_bag in Hsteps. rewrite init_bag, (pipeline_outcome_wired e c l E) in Hsteps.
  rewrite (idle_bag _ _ k (stuck_is_idle _ _ _ k Hcap Hstuck)) in Hsteps. apply Permutation_sym. exact Hsteps.
Qed.

(* ... and before that, something can still move (no deadlock) and the wire holds nothing but owed replies, each at most
   as often as it is owed *)
Lemma pipeline_delays_only :
  forall e c l cap msgs k,
    ws_limit_of e c = Some l -> 1 <= cap ->
    conn_steps l (ws_reported_limit c) cap (conn_init msgs) k ->
    (exists rest, Permutation (k_wire k ++ rest) (ws_pipeline_replies c msgs)) /\
    ((exists k', conn_step l (ws_reported_limit c) cap k k') \/ Permutation (k_wire k) (ws_pipeline_replies c msgs)).
Proof.
  intros e c l cap msgs k E Hcap Hsteps.
  apply steps_preserve_bag in Hsteps. rewrite init_bag, (pipeline_outcome_wired e c l E) in Hsteps. split.
  - eexists. apply Permutation_sym. exact Hsteps.
  - destruct (progress l (ws_reported_limit c) cap k Hcap) as [Hs | Hi]; [left; exact Hs | right].
    rewrite (idle_bag _ _ k Hi) in Hsteps. apply Permutation_sym. exact Hsteps.
Qed.

(* counted: one rejection per oversized message, one answer per in-limit message *)
Lemma outcome_counts limit msgs :
  count_occ preply_eq_dec (map (pipeline_outcome limit limit) msgs) (PRejected limit)
    = length (filter (fun m => limit <? pm_size m) msgs) /\
  forall id, count_occ preply_eq_dec (map (pipeline_outcome limit limit) msgs) (PAnswered id)
    = length (filter (fun m => (pm_size m <=? limit) && (pm_id m =? id)) msgs).
Proof.
  split; [|intro id]; induction msgs as [|m msgs IH]; try reflexivity;
    cbn [map filter]; unfold pipeline_outcome at 1, soketto_accepts; rewrite ?N.leb_antisym;
    destruct (limit <? pm_size m) eqn:Hlt; cbn [negb andb].
  - rewrite count_occ_cons_eq by reflexivity. cbn [length]. rewrite IH. reflexivity.
  - rewrite count_occ_cons_neq by discriminate. exact IH.
  - rewrite count_occ_cons_neq by discriminate. exact IH.
  - destruct (N.eqb_spec (pm_id m) id) as [Heq | Hne].
    + rewrite count_occ_cons_eq by (rewrite Heq; reflexivity). cbn [length]. rewrite IH. reflexivity.
    + rewrite count_occ_cons_neq by (intro Heq; inversion Heq; congruence). exact IH.
Qed.

Lemma pipeline_counts :
  forall e c l cap msgs k,
    ws_limit_of e c = Some l -> 1 <= cap ->
    conn_steps l (ws_reported_limit c) cap (conn_init msgs) k ->
    conn_stuck l (ws_reported_limit c) cap k ->
    count_occ preply_eq_dec (k_wire k) (PRejected (max_request c)) = length (filter (fun m => max_request c <? pm_size m) msgs) /\
    (forall id, count_occ preply_eq_dec (k_wire k) (PAnswered id)
                = length (filter (fun m => (pm_size m <=? max_request c) && (pm_id m =? id)) msgs)) /\
    (forall r, r <> max_request c -> count_occ preply_eq_dec (k_wire k) (PRejected r) = 0%nat).
Proof.
  intros e c l cap msgs k E Hcap Hsteps Hstuck.
  pose proof (pipeline_each_answered e c l cap msgs k E Hcap Hsteps Hstuck) as HP.
  pose proof (proj1 (Permutation_count_occ preply_eq_dec _ _) HP) as HC.
  destruct (outcome_counts (max_request c) msgs) as [H1 H2]. repeat split.
  - rewrite HC. exact H1.
  - intro id. rewrite HC. apply H2.
  - intros r Hr. rewrite HC. apply count_occ_not_In. unfold ws_pipeline_replies. intro Hin.
    apply in_map_iff in Hin. destruct Hin as [m [Hm _]]. unfold pipeline_outcome in Hm.
    destruct (soketto_accepts (max_request c) (pm_size m)); inversion Hm. congruence.
Qed.

(* the executable schedule only takes steps of the system *)
Lemma conn_next_step limit reported cap k k' :
  conn_next limit reported cap k = Some k' -> conn_step limit reported cap k k'.
Proof.
  destruct k as [inbox p run wait q w]. unfold conn_next.
  cbn [k_inbox k_parked k_running k_waiting k_queue k_wire].
  assert (Hwrite : forall k1,
             match q with
             | r :: q0 => Some {| k_inbox := inbox; k_parked := p; k_running := run; k_waiting := wait; k_queue := q0; k_wire := w ++ [r] |}
             | [] => None
             end = Some k1 ->
             conn_step limit reported cap {| k_inbox := inbox; k_parked := p; k_running := run; k_waiting := wait; k_queue := q; k_wire := w |} k1).
  { intros k1 H. destruct q as [|r q0]; [discriminate|]. inversion H. apply StWrite. }
  destruct p as [r0|]; destruct inbox as [|m inbox]; destruct run as [|r run];
    try (destruct (soketto_accepts limit (pm_size m)) eqn:E; intro H; inversion H; subst; [apply StRecvOk | apply StRecvTooBig]; exact E);
    try (intro H; inversion H; subst;
         match goal with |- conn_step _ _ _ {| k_inbox := ?i; k_parked := ?pp; k_running := ?r1 :: ?rn; k_waiting := ?wt; k_queue := ?qq; k_wire := ?ww |} _ =>
           exact (StTaskReady limit reported cap r1 i pp [] rn wt qq ww) end);
    (destruct (queue_has_room cap q) eqn:R; [|apply Hwrite]);
    (destruct wait as [|r1 wait];
     [ try apply Hwrite; intro H; inversion H; subst; apply StLoopEnqueue; exact R
     | intro H; inversion H; subst;
       match goal with |- conn_step _ _ _ {| k_inbox := ?i; k_parked := ?pp; k_running := ?rn; k_waiting := _; k_queue := ?qq; k_wire := ?ww |} _ =>
         exact (StTaskEnqueue limit reported cap r1 i pp rn [] wait qq ww R) end ]).
Qed.

Lemma conn_run_steps limit reported cap fuel : forall k, conn_steps limit reported cap k (conn_run limit reported cap fuel k).
Proof.
  induction fuel as [|f IH]; intro k; cbn [conn_run]; [apply StepsRefl|].
  destruct (conn_next limit reported cap k) as [k'|] eqn:E; [|apply StepsRefl].
  eapply StepsCons; [apply conn_next_step; exact E | apply IH].
Qed.

(* what the model runner prints for a session that came to rest is the per-message outcome list, whatever `cap` is *)
Lemma pipeline_session_spec :
  forall e c cap msgs wire parked,
    ws_pipeline_session e c cap msgs = Some (wire, true, parked) -> Permutation wire (ws_pipeline_replies c msgs).
Proof.
  intros e c cap msgs wire parked. unfold ws_pipeline_session.
  destruct (ws_limit_of e c) as [l|] eqn:E; [|discriminate]. intro H. inversion H as [[Hw Hi Hp]]. clear H Hp.
  pose proof (conn_run_steps l (ws_reported_limit c) cap (4 * length msgs + 4) (conn_init msgs)) as Hsteps.
  apply steps_preserve_bag in Hsteps. rewrite init_bag, (pipeline_outcome_wired e c l E), (idle_bag _ _ _ Hi) in Hsteps.
  apply Permutation_sym. exact Hsteps.
Qed.

(* ---------- fragmented messages: the frame-level reader (ws_step / ws_run / ws_read) ---------- *)

(* the generated constant: server/src/transport/ws.rs allocates the receive buffer inside the unfold closure *)
Lemma recv_buffer_is_fresh : ws_recv_buffer_fresh = true.
Proof. reflexivity. Qed.

Lemma frag_blen_app a b : blen (a ++ b) = blen a + blen b.
Proof. unfold blen. rewrite app_length, Nat2N.inj_add. reflexivity. Qed.

Lemma ws_run_app l r fresh : forall a b st,
  ws_run l r fresh st (a ++ b) =
  match ws_run l r fresh st a with
  | (e1, Some st') => let (e2, o) := ws_run l r fresh st' b in (e1 ++ e2, o)
  | (e1, None) => (e1, None)
  end.
Proof.
  induction a as [|f a IH]; intros b st; cbn [app ws_run].
  - destruct (ws_run l r fresh st b); reflexivity.
  - destruct (ws_step l r fresh st f) as [evs [st'|]]; [|reflexivity].
    rewrite IH. destruct (ws_run l r fresh st' a) as [e1 [st''|]]; [|reflexivity].
    destruct (ws_run l r fresh st'' b) as [e2 o]. rewrite app_assoc. reflexivity.
Qed.

Lemma ws_read_after l r fresh a e1 rest :
  ws_run l r fresh ws_init a = (e1, Some ws_init) ->
  ws_read l r fresh (a ++ rest) = e1 ++ ws_read l r fresh rest.
Proof.
  intro H. unfold ws_read. rewrite ws_run_app, H.
  destruct (ws_run l r fresh ws_init rest) as [e2 o]. rewrite app_assoc. reflexivity.
Qed.

Lemma step_data_ok l r fresh infrag len msg start fin p :
  len + blen p <= l -> start = negb infrag ->
  ws_step l r fresh (RHeader infrag len msg) (WData start fin p) =
  if fin then ([FDispatched (msg ++ p)], Some (RHeader false 0 [])) else ([], Some (RHeader true (len + blen p) (msg ++ p))).
Proof.
  intros H ->. cbn [ws_step]. destruct (N.ltb_spec l (len + blen p)); [lia|]. destruct infrag; reflexivity.
Qed.

Lemma cont_frames_cons p ps :
  cont_frames (p :: ps) = WData false (match ps with [] => true | _ => false end) p :: cont_frames ps.
Proof. reflexivity. Qed.

Lemma cont_accept l r fresh : forall ps len msg,
  ps <> [] -> len + blen (concat ps) <= l ->
  ws_run l r fresh (RHeader true len msg) (cont_frames ps) = ([FDispatched (msg ++ concat ps)], Some ws_init).
Proof.
  induction ps as [|p ps IH]; intros len msg Hne Hle; [congruence|].
  cbn [concat] in Hle. rewrite frag_blen_app in Hle. rewrite cont_frames_cons.
  destruct ps as [|q ps'].
  - cbn [cont_frames ws_run]. rewrite step_data_ok by (first [lia | reflexivity]).
    cbn [concat app]. rewrite app_nil_r. reflexivity.
  - cbn [ws_run]. rewrite step_data_ok by (first [lia | reflexivity]).
    rewrite IH by (first [discriminate | lia]).
    cbn [app concat]. rewrite <- app_assoc. reflexivity.
Qed.

Lemma msg_accept l r fresh fr :
  fr <> [] -> blen (concat fr) <= l ->
  ws_run l r fresh ws_init (msg_frames fr) = ([FDispatched (concat fr)], Some ws_init).
Proof.
  destruct fr as [|p ps]; [congruence|]. intros _ Hle. cbn [concat] in Hle. rewrite frag_blen_app in Hle.
  unfold ws_init at 1. unfold msg_frames. destruct ps as [|q ps'].
  - cbn [cont_frames ws_run]. rewrite step_data_ok by (first [lia | reflexivity]).
    cbn [concat app]. rewrite app_nil_r. reflexivity.
  - cbn [ws_run]. rewrite step_data_ok by (first [lia | reflexivity]).
    rewrite cont_accept by (first [discriminate | lia]). reflexivity.
Qed.

(* what follows the frame that takes the accumulated length above the limit *)
Definition after_cross (l r : N) (fresh : bool) (acc : N) (msg : bytes) (tail : list wframe) : list fev * option rstate :=
  if acc =? 0 then let (e, o) := ws_run l r fresh (RHeader false 0 (kept fresh msg)) tail in (FTooBig r :: e, o)
  else ws_run l r fresh (RDiscard acc msg) tail.

Lemma step_data_cross l r fresh infrag len msg start fin p tail :
  l < len + blen p ->
  ws_run l r fresh (RHeader infrag len msg) (WData start fin p :: tail) = after_cross l r fresh len msg tail.
Proof.
  intro H. cbn [ws_run ws_step]. destruct (N.ltb_spec l (len + blen p)); [|lia].
  unfold after_cross. destruct (len =? 0); [|cbn [app]].
  - destruct (ws_run l r fresh (RHeader false 0 (kept fresh msg)) tail). reflexivity.
  - destruct (ws_run l r fresh (RDiscard len msg) tail). reflexivity.
Qed.

Lemma cont_cross l r fresh : forall ps len msg acc post tail,
  split_cross l len ps = Some (acc, post) ->
  exists msg', ws_run l r fresh (RHeader true len msg) (cont_frames ps ++ tail)
               = after_cross l r fresh acc msg' (cont_frames post ++ tail).
Proof.
  induction ps as [|p ps IH]; intros len msg acc post tail H; [discriminate|].
  cbn [split_cross] in H.
  destruct (N.ltb_spec l (len + blen p)) as [Hlt|Hge].
  - inversion H; subst. exists msg. rewrite cont_frames_cons. cbn [app]. apply step_data_cross. exact Hlt.
  - destruct ps as [|q ps']; [discriminate H|].
    destruct (IH (len + blen p) (msg ++ p) acc post tail H) as [msg' Hm]. exists msg'.
    rewrite cont_frames_cons. cbn [app ws_run]. rewrite step_data_ok by (first [lia | reflexivity]).
    rewrite Hm.
    destruct (after_cross l r fresh acc msg' (cont_frames post ++ tail)). reflexivity.
Qed.

Lemma msg_cross l r fresh fr acc post tail :
  split_cross l 0 fr = Some (acc, post) ->
  exists msg', ws_run l r fresh ws_init (msg_frames fr ++ tail) = after_cross l r fresh acc msg' (cont_frames post ++ tail).
Proof.
  destruct fr as [|p ps]; [discriminate|]. intro H. cbn [split_cross] in H. unfold ws_init.
  destruct (N.ltb_spec l (0 + blen p)) as [Hlt|Hge].
  - inversion H; subst. exists []. unfold msg_frames. cbn [app]. apply step_data_cross. exact Hlt.
  - destruct ps as [|q ps']; [discriminate H|].
    destruct (cont_cross l r fresh (q :: ps') (0 + blen p) ([] ++ p) acc post tail H) as [msg' Hm]. exists msg'.
    unfold msg_frames. cbn [app ws_run]. rewrite step_data_ok by (first [lia | reflexivity]).
    rewrite Hm.
    destruct (after_cross l r fresh acc msg' (cont_frames post ++ tail)). reflexivity.
Qed.

Lemma header_len_pos n : 6 <= client_header_len n.
Proof. unfold client_header_len. destruct (n <? 126); [lia|]. destruct (n <=? 65535); lia. Qed.

Lemma wire_len_zero f : wire_len f = 0 -> f = WRaw 0.
Proof.
  destruct f as [s fin p | p | p | n]; cbn [wire_len]; intro H;
    try (pose proof (header_len_pos (blen p)); lia). subst. reflexivity.
Qed.

Lemma wire_total_app a b : wire_total (a ++ b) = wire_total a + wire_total b.
Proof. unfold wire_total. induction a as [|f a IH]; cbn [app fold_right]; [lia | rewrite IH; lia]. Qed.

Lemma zero_width_skip l r fresh : forall sw infrag len msg rest,
  wire_total sw = 0 ->
  ws_run l r fresh (RHeader infrag len msg) (sw ++ rest) = ws_run l r fresh (RHeader infrag len msg) rest.
Proof.
  induction sw as [|f sw IH]; intros infrag len msg rest H; [reflexivity|].
  cbn [wire_total fold_right] in H. fold (wire_total sw) in H.
  assert (Hf : wire_len f = 0) by lia. apply wire_len_zero in Hf. subst f.
  cbn [app ws_run ws_step]. rewrite N.eqb_refl. rewrite IH by (cbn [wire_len] in H; lia).
  destruct (ws_run l r fresh (RHeader infrag len msg) rest). reflexivity.
Qed.

(* exactly n further bytes follow, whatever they are: the rejection goes out and the reader is where it was at start *)
Lemma discard_exact l r : forall sw n msg rest,
  wire_total sw = n -> 0 < n ->
  ws_run l r true (RDiscard n msg) (sw ++ rest) = let (e, o) := ws_run l r true ws_init rest in (FTooBig r :: e, o).
Proof.
  induction sw as [|f sw IH]; intros n msg rest Hw Hn; cbn [wire_total fold_right] in Hw; [lia|].
  fold (wire_total sw) in Hw. cbn [app ws_run ws_step].
  destruct (N.ltb_spec (wire_len f) n) as [Hlt|Hge].
  - rewrite IH by lia. destruct (ws_run l r true ws_init rest). reflexivity.
  - destruct (N.eqb_spec (wire_len f) n) as [He|Hne]; [|lia].
    cbn [kept]. fold ws_init. unfold ws_init at 1. rewrite zero_width_skip by lia. fold ws_init.
    destruct (ws_run l r true ws_init rest). reflexivity.
Qed.

Lemma cont_frames_wire_zero post : wire_total (cont_frames post) = 0 -> post = [].
Proof.
  destruct post as [|p ps]; [reflexivity|]. cbn [cont_frames wire_total fold_right wire_len]. intro H.
  pose proof (header_len_pos (blen p)). lia.
Qed.

(* a rejected fragmented message after which exactly the over-discarded bytes follow: one rejection, then everything
   is read as at the start *)
Lemma frag_reject_in_step l r fr acc post filler rest :
  split_cross l 0 fr = Some (acc, post) -> wire_total (cont_frames post) + filler = acc ->
  ws_read l r true (msg_frames fr ++ WRaw filler :: rest) = FTooBig r :: ws_read l r true rest.
Proof.
  intros Hs Hw. destruct (msg_cross l r true fr acc post (WRaw filler :: rest) Hs) as [msg' Hm].
  unfold ws_read. rewrite Hm. unfold after_cross. destruct (N.eqb_spec acc 0) as [Hz|Hnz].
  - subst acc. assert (Hf : filler = 0) by lia. assert (Hp : wire_total (cont_frames post) = 0) by lia.
    apply cont_frames_wire_zero in Hp. subst post filler.
    cbn [cont_frames app kept ws_run ws_step]. rewrite N.eqb_refl. fold ws_init.
    destruct (ws_run l r true ws_init rest) as [e o]. reflexivity.
  - replace (cont_frames post ++ WRaw filler :: rest) with ((cont_frames post ++ [WRaw filler]) ++ rest)
      by (rewrite <- app_assoc; reflexivity).
    rewrite discard_exact.
    + destruct (ws_run l r true ws_init rest) as [e o]. reflexivity.
    + rewrite wire_total_app. cbn [wire_total fold_right wire_len]. lia.
    + lia.
Qed.

(* one frame *)
Lemma single_frame l r fresh whole rest :
  ws_read l r fresh (WData true true whole :: rest)
  = (if blen whole <=? l then FDispatched whole else FTooBig r) :: ws_read l r fresh rest.
Proof.
  unfold ws_read, ws_init. cbn [ws_run ws_step].
  destruct (N.ltb_spec l (0 + blen whole)) as [Hlt|Hge]; destruct (N.leb_spec (blen whole) l) as [Hle|Hgt]; try lia.
  - rewrite N.eqb_refl. replace (kept fresh []) with (@nil byte) by (destruct fresh; reflexivity).
    destruct (ws_run l r fresh (RHeader false 0 []) rest). reflexivity.
  - cbn [Bool.eqb app]. destruct (ws_run l r fresh (RHeader false 0 []) rest). reflexivity.
Qed.

Lemma split_cross_exists l : forall fr acc,
  acc <= l -> l < acc + blen (concat fr) -> exists acc' post, split_cross l acc fr = Some (acc', post) /\ acc' <= l.
Proof.
  induction fr as [|f fr IH]; intros acc Ha Hlt; cbn [concat] in Hlt.
  - change (blen []) with 0 in Hlt. lia.
  - rewrite frag_blen_app in Hlt. cbn [split_cross]. destruct (N.ltb_spec l (acc + blen f)) as [H|H].
    + exists acc, fr. split; [reflexivity | exact Ha].
    + apply IH; lia.
Qed.

Lemma split_cross_none l : forall fr acc, acc + blen (concat fr) <= l -> split_cross l acc fr = None.
Proof.
  induction fr as [|f fr IH]; intros acc H; [reflexivity|].
  cbn [concat] in H. rewrite frag_blen_app in H. cbn [split_cross].
  destruct (N.ltb_spec l (acc + blen f)); [lia|]. apply IH. lia.
Qed.

Lemma read_skip_empty_raw l r fresh rest : ws_read l r fresh (WRaw 0 :: rest) = ws_read l r fresh rest.
Proof.
  unfold ws_read, ws_init. cbn [ws_run ws_step]. rewrite N.eqb_refl.
  destruct (ws_run l r fresh (RHeader false 0 []) rest). reflexivity.
Qed.

Lemma frag_total_decides :
  forall (e : ep) (c : cfg) (l : N) (fr : list bytes) (filler : N) (rest : list wframe),
    ws_limit_of e c = Some l -> fr <> [] -> in_step (max_request c) fr filler = true ->
    let rd := ws_read l (ws_reported_limit c) ws_recv_buffer_fresh in
    rd (msg_frames fr ++ WRaw filler :: rest) = rd (msg_frames [concat fr] ++ rest) /\
    rd (msg_frames [concat fr] ++ rest)
    = (if blen (concat fr) <=? max_request c then FDispatched (concat fr) else FTooBig (max_request c)) :: rd rest.
Proof.
  intros e c l fr filler rest E Hne Hin. apply ws_wiring in E. subst l.
  rewrite recv_buffer_is_fresh. generalize (ws_reported_wiring c). generalize (ws_reported_limit c). intros r0 ->.
  cbv zeta. cbn [msg_frames cont_frames app]. rewrite single_frame. split; [|reflexivity].
  unfold in_step in Hin. destruct (N.leb_spec (blen (concat fr)) (max_request c)) as [Hle|Hgt].
  - rewrite split_cross_none in Hin by lia. apply N.eqb_eq in Hin. subst filler.
    rewrite (ws_read_after _ _ _ _ _ (WRaw 0 :: rest) (msg_accept _ _ _ fr Hne Hle)).
    rewrite read_skip_empty_raw. reflexivity.
  - destruct (split_cross_exists (max_request c) fr 0) as (acc & post & Hs & _); [lia | lia |].
    rewrite Hs in Hin. apply N.eqb_eq in Hin.
    apply (frag_reject_in_step _ _ fr acc post filler rest Hs Hin).
Qed.

(* with a buffer per receive() call nothing longer than the limit is ever handed to handle_rpc_call, whatever the frames are *)
Definition st_ok (st : rstate) : Prop :=
  match st with RHeader _ len msg => blen msg = len | RDiscard _ _ => True end.

Ltac in_evs H :=
  repeat match type of H with
  | In _ [] => destruct H
  | In _ (_ :: _) => destruct H as [H|H]; [try discriminate H|]
  end.

Lemma step_ok l r st f evs o :
  st_ok st -> ws_step l r true st f = (evs, o) ->
  (forall t, In (FDispatched t) evs -> blen t <= l) /\ (forall st', o = Some st' -> st_ok st').
Proof.
  intros Hok H.
  assert (Hgoal : forall evs' o', (evs', o') = (evs, o) ->
     (forall t, In (FDispatched t) evs' -> blen t <= l) -> (forall st', o' = Some st' -> st_ok st') ->
     (forall t, In (FDispatched t) evs -> blen t <= l) /\ (forall st', o = Some st' -> st_ok st')).
  { intros evs' o' Heq. inversion Heq; subst. auto. }
  destruct st as [infrag len msg | n msg]; cbn [st_ok] in Hok.
  - destruct f as [start fin p | p | p | n]; cbn [ws_step] in H.
    + destruct (N.ltb_spec l (len + blen p)) as [Hlt|Hge].
      * destruct (len =? 0);
          (eapply Hgoal; [exact H | intros t Hin; in_evs Hin | intros st' Hs; inversion Hs; subst; cbn [st_ok kept]; first [reflexivity | exact I]]).
      * destruct (Bool.eqb start infrag); [eapply Hgoal; [exact H | intros t Hin; in_evs Hin | intros st' Hs; discriminate Hs]|].
        destruct fin; (eapply Hgoal; [exact H | intros t Hin; in_evs Hin | intros st' Hs; inversion Hs; subst; cbn [st_ok]]).
        -- inversion Hin; subst. rewrite frag_blen_app. lia.
        -- reflexivity.
        -- rewrite frag_blen_app. reflexivity.
    + eapply Hgoal; [exact H | intros t Hin; in_evs Hin | intros st' Hs; inversion Hs; subst; cbn [st_ok]; first [reflexivity | assumption]].
    + eapply Hgoal; [exact H | intros t Hin; in_evs Hin | intros st' Hs; inversion Hs; subst; reflexivity].
    + destruct (n =? 0); (eapply Hgoal; [exact H | intros t Hin; in_evs Hin | intros st' Hs; inversion Hs; subst; cbn [st_ok]; first [reflexivity | assumption]]).
  - cbn [ws_step] in H. destruct (wire_len f <? n); [|destruct (wire_len f =? n)];
      (eapply Hgoal; [exact H | intros t Hin; in_evs Hin | intros st' Hs; inversion Hs; subst; cbn [st_ok kept]; first [reflexivity | exact I]]).
Qed.

Lemma run_ok l r : forall fs st evs o,
  st_ok st -> ws_run l r true st fs = (evs, o) -> forall t, In (FDispatched t) evs -> blen t <= l.
Proof.
  induction fs as [|f fs IH]; intros st evs o Hok H t Hin; cbn [ws_run] in H.
  - inversion H; subst. destruct Hin.
  - destruct (ws_step l r true st f) as [e1 o1] eqn:Es. destruct (step_ok l r st f e1 o1 Hok Es) as [Hd Hst].
    destruct o1 as [st'|].
    + destruct (ws_run l r true st' fs) as [e2 o2] eqn:Er. inversion H; subst.
      apply in_app_or in Hin. destruct Hin as [Hin|Hin]; [apply Hd; exact Hin|].
      eapply IH; [apply Hst; reflexivity | exact Er | exact Hin].
    + inversion H; subst. apply Hd. exact Hin.
Qed.

Lemma frag_never_oversize :
  forall (e : ep) (c : cfg) (l : N) (fs : list wframe) (t : bytes),
    ws_limit_of e c = Some l ->
    In (FDispatched t) (ws_read l (ws_reported_limit c) ws_recv_buffer_fresh fs) -> blen t <= max_request c.
Proof.
  intros e c l fs t E Hin. apply ws_wiring in E. subst l. rewrite recv_buffer_is_fresh in Hin.
  revert Hin. generalize (ws_reported_limit c). intros r0 Hin.
  unfold ws_read in Hin. destruct (ws_run (max_request c) r0 true ws_init fs) as [evs o] eqn:Er.
  apply in_app_or in Hin. destruct Hin as [Hin|Hin].
  - eapply run_ok; [|exact Er | exact Hin]. reflexivity.
  - destruct o as [[i n m | n m]|]; cbn in Hin; try contradiction. destruct Hin as [Hin|[]]. discriminate.
Qed.

(* the frame on which a rejection goes out leaves the reader exactly where a new connection starts *)
Lemma step_toobig_resets l r st f evs st' x :
  ws_step l r true st f = (evs, Some st') -> In (FTooBig x) evs -> st' = ws_init /\ evs = [FTooBig r].
Proof.
  intros H Hin. destruct st as [infrag len msg | n msg].
  - destruct f as [start fin p | p | p | n]; cbn [ws_step] in H.
    + destruct (l <? len + blen p).
      * destruct (len =? 0); inversion H; subst; [split; reflexivity | destruct Hin].
      * destruct (Bool.eqb start infrag); [discriminate|]. destruct fin; inversion H; subst.
        -- destruct Hin as [Hin|[]]. discriminate.
        -- destruct Hin.
    + inversion H; subst. destruct Hin as [Hin|[]]. discriminate.
    + inversion H; subst. destruct Hin.
    + destruct (n =? 0); inversion H; subst. destruct Hin.
  - cbn [ws_step] in H. destruct (wire_len f <? n); [inversion H; subst; destruct Hin|].
    destruct (wire_len f =? n); inversion H; subst. split; reflexivity.
Qed.

Lemma frag_reject_resets :
  forall (e : ep) (c : cfg) (l : N) (fs0 : list wframe) (f : wframe) (rest : list wframe) (evs0 evs1 : list fev) (st0 st : rstate) (x : N),
    ws_limit_of e c = Some l ->
    ws_run l (ws_reported_limit c) ws_recv_buffer_fresh ws_init fs0 = (evs0, Some st0) ->
    ws_step l (ws_reported_limit c) ws_recv_buffer_fresh st0 f = (evs1, Some st) ->
    In (FTooBig x) evs1 ->
    ws_read l (ws_reported_limit c) ws_recv_buffer_fresh (fs0 ++ f :: rest)
    = evs0 ++ FTooBig (max_request c) :: ws_read l (ws_reported_limit c) ws_recv_buffer_fresh rest.
Proof.
  intros e c l fs0 f rest evs0 evs1 st0 st x E. apply ws_wiring in E. subst l.
  rewrite recv_buffer_is_fresh. generalize (ws_reported_wiring c). generalize (ws_reported_limit c). intros r0 ->.
  intros H0 H1 Hin.
  destruct (step_toobig_resets _ _ _ _ _ _ _ H1 Hin) as [-> ->].
  unfold ws_read. rewrite ws_run_app, H0. cbn [ws_run]. rewrite H1.
  destruct (ws_run (max_request c) (max_request c) true ws_init rest) as [e2 o].
  cbn [app]. rewrite <- app_assoc. reflexivity.
Qed.

(* ---------- no carry-over, for every frame stream ---------- *)

Lemma block_scan_snoc_data : forall cur i m fin p,
  block_scan i cur = Some (m, false) -> block_scan i (cur ++ [WData false fin p]) = Some (m ++ p, fin).
Proof.
  induction cur as [|f cur IH]; intros i m fin p H.
  - destruct i; cbn in H; [|discriminate]. inversion H; subst. cbn. destruct fin; [reflexivity|]. rewrite app_nil_r. reflexivity.
  - destruct f as [s fn q | q | q | n]; cbn [block_scan app] in *.
    + destruct (Bool.eqb s i); [discriminate|]. destruct fn.
      * destruct cur; inversion H.
      * destruct (block_scan true cur) as [[t b]|] eqn:Ec; [|discriminate]. inversion H; subst.
        rewrite (IH true t fin p Ec). rewrite app_assoc. reflexivity.
    + destruct i; [|discriminate]. apply IH. exact H.
    + discriminate.
    + destruct (i && (n =? 0)); [|discriminate]. apply IH. exact H.
Qed.

Lemma block_scan_snoc_skip : forall cur i m f,
  (exists q, f = WPing q) \/ f = WRaw 0 ->
  block_scan i cur = Some (m, false) -> block_scan i (cur ++ [f]) = Some (m, false).
Proof.
  induction cur as [|g cur IH]; intros i m f Hf H.
  - destruct i; cbn in H; [|discriminate]. inversion H; subst. destruct Hf as [[q ->] | ->]; reflexivity.
  - destruct g as [s fn q | q | q | n]; cbn [block_scan app] in *.
    + destruct (Bool.eqb s i); [discriminate|]. destruct fn.
      * destruct cur; inversion H.
      * destruct (block_scan true cur) as [[t b]|] eqn:Ec; [|discriminate]. inversion H; subst.
        rewrite (IH true t f Hf Ec). reflexivity.
    + destruct i; [|discriminate]. apply IH; assumption.
    + discriminate.
    + destruct (i && (n =? 0)); [|discriminate]. apply IH; assumption.
Qed.

(* what the reader state says about the frames `cur` read since it last was in the state of a new connection *)
Definition frag_shape (st : rstate) (cur : list wframe) : Prop :=
  match st with
  | RHeader false len msg => cur = [] /\ len = 0 /\ msg = []
  | RHeader true _ msg => block_scan false cur = Some (msg, false)
  | RDiscard _ _ => True
  end.

Lemma run_snoc l r fresh fs f e0 st evs o :
  ws_run l r fresh ws_init fs = (e0, Some st) -> ws_step l r fresh st f = (evs, o) ->
  ws_run l r fresh ws_init (fs ++ [f]) = (e0 ++ evs, o).
Proof.
  intros H1 H2. rewrite ws_run_app, H1. cbn [ws_run]. rewrite H2. destruct o; [rewrite app_nil_r|]; reflexivity.
Qed.

Ltac run_inv Hrun Hin Er :=
  cbv beta iota in Hrun;
  try match type of Hrun with context [ws_run ?a ?b ?c ?st ?fs] => destruct (ws_run a b c st fs) as [ev2 o2] eqn:Er end;
  inversion Hrun; subst; clear Hrun; cbn [app] in Hin.

Lemma run_blocks l r : forall fs done cur st e0 e1 evs o,
  ws_run l r true ws_init (done ++ cur) = (e0, Some st) ->
  ws_run l r true ws_init done = (e1, Some ws_init) ->
  frag_shape st cur ->
  ws_run l r true st fs = (evs, o) ->
  forall t, In (FDispatched t) evs ->
  exists pre block post e, done ++ cur ++ fs = pre ++ block ++ post /\
    ws_run l r true ws_init pre = (e, Some ws_init) /\ block_text block = Some t.
Proof.
  induction fs as [|f fs IH]; intros done cur st e0 e1 evs o H0 H1 Hsh Hrun t Hin; cbn [ws_run] in Hrun.
  - inversion Hrun; subst. destruct Hin.
  - destruct (ws_step l r true st f) as [ev1 o1] eqn:Es.
    pose proof (run_snoc _ _ _ _ _ _ _ _ _ H0 Es) as Hsn.
    (* the continuation, once the next state and the next (done, cur) are known *)
    assert (Hnext : forall done' cur' st' e1' evs',
               o1 = Some st' -> done' ++ cur' = (done ++ cur) ++ [f] ->
               ws_run l r true ws_init done' = (e1', Some ws_init) -> frag_shape st' cur' ->
               ws_run l r true st' fs = (evs', o) -> In (FDispatched t) evs' ->
               exists pre block post e, done ++ cur ++ f :: fs = pre ++ block ++ post /\
                 ws_run l r true ws_init pre = (e, Some ws_init) /\ block_text block = Some t).
    { intros done' cur' st' e1' evs' Ho Hdc Hd' Hsh' Hrun' Hin'. subst o1. rewrite <- Hdc in Hsn.
      destruct (IH done' cur' st' _ e1' evs' o Hsn Hd' Hsh' Hrun' t Hin') as (pre & block & post & e & Heq & Hpre & Hb).
      exists pre, block, post, e. split; [|split; assumption].
      rewrite <- Heq. rewrite (app_assoc done' cur' fs), Hdc. rewrite <- !app_assoc. reflexivity. }
    (* the frame on which the run comes back to the state of a new connection *)
    assert (Hreset : forall evs', o1 = Some ws_init -> ws_run l r true ws_init fs = (evs', o) -> In (FDispatched t) evs' ->
               exists pre block post e, done ++ cur ++ f :: fs = pre ++ block ++ post /\
                 ws_run l r true ws_init pre = (e, Some ws_init) /\ block_text block = Some t).
    { intros evs' Ho Hrun' Hin'. apply (Hnext ((done ++ cur) ++ [f]) [] ws_init (e0 ++ ev1) evs' Ho).
      - rewrite app_nil_r. reflexivity.
      - rewrite Hsn, Ho. reflexivity.
      - cbn. auto.
      - exact Hrun'.
      - exact Hin'. }
    destruct st as [infrag len msg | n msg].
    + destruct infrag.
      * (* inside a fragmented message *)
        cbn [frag_shape] in Hsh. destruct f as [start fin p | p | p | n]; cbn [ws_step] in Es.
        -- destruct (l <? len + blen p).
           ++ destruct (len =? 0); inversion Es; subst.
              ** run_inv Hrun Hin Er.
                 destruct Hin as [Hin|Hin]; [discriminate|]. eapply Hreset; [reflexivity | exact Er | exact Hin].
              ** run_inv Hrun Hin Er.
                 eapply (Hnext done (cur ++ [WData start fin p])); [reflexivity | rewrite app_assoc; reflexivity | exact H1 | exact I | exact Er | exact Hin].
           ++ destruct start; cbn [Bool.eqb] in Es; [inversion Es; subst; run_inv Hrun Hin Er; destruct Hin as [Hin|[]]; discriminate|].
              destruct fin; inversion Es; subst.
              ** run_inv Hrun Hin Er.
                 destruct Hin as [Hin|Hin].
                 --- assert (Ht : t = msg ++ p) by (inversion Hin; subst; reflexivity). subst t.
                     exists done, (cur ++ [WData false true p]), fs, e1. split; [|split].
                     +++ rewrite <- !app_assoc. reflexivity.
                     +++ exact H1.
                     +++ unfold block_text. rewrite (block_scan_snoc_data cur false msg true p Hsh). reflexivity.
                 --- eapply Hreset; [reflexivity | exact Er | exact Hin].
              ** run_inv Hrun Hin Er.
                 eapply (Hnext done (cur ++ [WData false false p])); [reflexivity | rewrite app_assoc; reflexivity | exact H1 | | exact Er | exact Hin].
                 cbn [frag_shape]. apply block_scan_snoc_data. exact Hsh.
        -- inversion Es; subst. run_inv Hrun Hin Er.
           destruct Hin as [Hin|Hin]; [discriminate|].
           eapply (Hnext done (cur ++ [WPing p])); [reflexivity | rewrite app_assoc; reflexivity | exact H1 | | exact Er | exact Hin].
           cbn [frag_shape]. apply block_scan_snoc_skip; [left; eexists; reflexivity | exact Hsh].
        -- inversion Es; subst. run_inv Hrun Hin Er.
           eapply Hreset; [reflexivity | exact Er | exact Hin].
        -- destruct (N.eqb_spec n 0) as [Hz|Hnz]; inversion Es; subst; [|run_inv Hrun Hin Er; destruct Hin as [Hin|[]]; discriminate].
           run_inv Hrun Hin Er.
           eapply (Hnext done (cur ++ [WRaw 0])); [reflexivity | rewrite app_assoc; reflexivity | exact H1 | | exact Er | exact Hin].
           cbn [frag_shape]. apply block_scan_snoc_skip; [right; reflexivity | exact Hsh].
      * (* at a message boundary: the state of a new connection *)
        cbn [frag_shape] in Hsh. destruct Hsh as (-> & -> & ->). rewrite app_nil_r in *.
        destruct f as [start fin p | p | p | n]; cbn [ws_step] in Es.
        -- destruct (l <? 0 + blen p).
           ++ rewrite N.eqb_refl in Es. inversion Es; subst.
              run_inv Hrun Hin Er.
              destruct Hin as [Hin|Hin]; [discriminate|]. eapply Hreset; [reflexivity | exact Er | exact Hin].
           ++ destruct start; cbn [Bool.eqb] in Es; [|inversion Es; subst; run_inv Hrun Hin Er; destruct Hin as [Hin|[]]; discriminate].
              destruct fin; inversion Es; subst.
              ** run_inv Hrun Hin Er.
                 destruct Hin as [Hin|Hin].
                 --- assert (Ht : t = p) by (inversion Hin; subst; reflexivity). subst t.
                     exists done, [WData true true p], fs, e1. split; [|split].
                     +++ reflexivity.
                     +++ exact H1.
                     +++ reflexivity.
                 --- eapply Hreset; [reflexivity | exact Er | exact Hin].
              ** run_inv Hrun Hin Er.
                 eapply (Hnext done [WData true false p]); [reflexivity | reflexivity | exact H1 | | exact Er | exact Hin].
                 cbn. rewrite app_nil_r. reflexivity.
        -- inversion Es; subst. run_inv Hrun Hin Er.
           destruct Hin as [Hin|Hin]; [discriminate|]. eapply Hreset; [reflexivity | exact Er | exact Hin].
        -- inversion Es; subst. run_inv Hrun Hin Er.
           eapply Hreset; [reflexivity | exact Er | exact Hin].
        -- destruct (N.eqb_spec n 0) as [Hz|Hnz]; inversion Es; subst; [|run_inv Hrun Hin Er; destruct Hin as [Hin|[]]; discriminate].
           run_inv Hrun Hin Er.
           eapply Hreset; [reflexivity | exact Er | exact Hin].
    + (* soketto is discarding *)
      cbn [ws_step] in Es. destruct (wire_len f <? n).
      * inversion Es; subst. run_inv Hrun Hin Er.
        eapply (Hnext done (cur ++ [f])); [reflexivity | rewrite app_assoc; reflexivity | exact H1 | exact I | exact Er | exact Hin].
      * destruct (wire_len f =? n); inversion Es; subst.
        -- run_inv Hrun Hin Er.
           destruct Hin as [Hin|Hin]; [discriminate|]. eapply Hreset; [reflexivity | exact Er | exact Hin].
        -- run_inv Hrun Hin Er. destruct Hin as [Hin|[Hin|[]]]; discriminate.
Qed.

Lemma frag_no_carry_over :
  forall (e : ep) (c : cfg) (l : N) (fs : list wframe) (t : bytes),
    ws_limit_of e c = Some l ->
    In (FDispatched t) (ws_read l (ws_reported_limit c) ws_recv_buffer_fresh fs) ->
    blen t <= max_request c /\
    exists (pre block post : list wframe) (evs : list fev),
      fs = pre ++ block ++ post /\
      ws_run l (ws_reported_limit c) ws_recv_buffer_fresh ws_init pre = (evs, Some ws_init) /\
      block_text block = Some t.
Proof.
  intros e c l fs t E Hin. split; [exact (frag_never_oversize e c l fs t E Hin)|].
  rewrite recv_buffer_is_fresh in *. revert Hin. generalize (ws_reported_limit c). intros r0 Hin.
  unfold ws_read in Hin. destruct (ws_run l r0 true ws_init fs) as [evs o] eqn:Er.
  apply in_app_or in Hin. destruct Hin as [Hin|Hin].
  - apply (run_blocks l r0 fs [] [] ws_init [] [] evs o); cbn; auto.
  - destruct o as [[i n m | n m]|]; cbn in Hin; try contradiction. destruct Hin as [Hin|[]]. discriminate.
Qed.
