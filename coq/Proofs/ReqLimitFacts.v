(* C07: facts about the request-size gate (Model/ReqLimit.v) over the wiring regenerated from the sources. *)
From JV Require Import Base.Bytes Base.Dec Model.Wire Gen.LimitsWiringGen Model.ReqLimit.
Local Open Scope N_scope.
Arguments N.add : simpl never.
Arguments N.sub : simpl never.
Arguments N.mul : simpl never.
Arguments N.ltb : simpl never.
Arguments N.leb : simpl never.
Arguments N.eqb : simpl never.

(* ---------- wiring (generated definitions) ---------- *)

Lemma ws_wiring : forall e c l, ws_limit_of e c = Some l -> l = max_request c.
Proof. intros e c l H. destruct e; cbn in H; inversion H; reflexivity. Qed.

Lemma http_wiring : forall e c l, http_limit_of e c = Some l -> l = max_request c.
Proof. intros e c l H. destruct e; cbn in H; inversion H; reflexivity. Qed.

Lemma http_reported_wiring : forall e c l, http_reported_of e c = Some l -> l = max_request c.
Proof. intros e c l H. destruct e; cbn in H; inversion H; reflexivity. Qed.

Lemma ws_reported_wiring : forall c, ws_reported_limit c = max_request c.
Proof. reflexivity. Qed.

Lemma every_ep_has_a_transport : forall e c, ws_limit_of e c <> None \/ http_limit_of e c <> None.
Proof. intros e c. destruct e; cbn; (left; discriminate) || (right; discriminate). Qed.

Lemma wiring :
  forall e c l,
    (ws_limit_of e c = Some l -> l = max_request c) /\
    (http_limit_of e c = Some l -> l = max_request c) /\
    (http_reported_of e c = Some l -> l = max_request c) /\
    ws_reported_limit c = max_request c /\
    (ws_limit_of e c <> None \/ http_limit_of e c <> None).
Proof.
  intros e c l. repeat split.
  - apply ws_wiring. - apply http_wiring. - apply http_reported_wiring. - apply every_ep_has_a_transport.
Qed.

Lemma config_builder :
  forall b rq rs,
    builder_build (builder_set_response (builder_set_request b rq) rs) = {| max_request := rq; max_response := rs |} /\
    builder_build (builder_set_request (builder_set_response b rs) rq) = {| max_request := rq; max_response := rs |}.
Proof. intros b rq rs. split; reflexivity. Qed.

(* ---------- read_body ---------- *)

Lemma soketto_accepts_iff max n : soketto_accepts max n = true <-> n <= max.
Proof.
  unfold soketto_accepts. destruct (N.ltb_spec max n); cbn; split; intro H'; try discriminate; try reflexivity; lia.
Qed.

Lemma limited_iff : forall frames remaining, limited remaining frames = true <-> sum_frames frames <= remaining.
Proof.
  induction frames as [|f fs IH]; intro r; cbn [limited sum_frames fold_right].
  - split; intro; [lia | reflexivity].
  - fold (sum_frames fs). destruct (N.ltb_spec r f) as [Hlt | Hge].
    + split; intro H; [discriminate | lia].
    + rewrite IH. lia.
Qed.

Lemma read_body_processed_iff cl frames max reported :
  read_body_size cl frames max reported = HProcessed <-> cl_value cl <= max /\ sum_frames frames <= max.
Proof.
  unfold read_body_size, read_body_precheck_limit, read_body_stream_limit.
  destruct (N.ltb_spec max (cl_value cl)) as [Hlt | Hge].
  - split; intro H; [discriminate | lia].
  - destruct (limited max frames) eqn:E.
    + apply limited_iff in E. split; intro; [lia | reflexivity].
    + split; intro H; [discriminate|]. destruct H as [_ H]. apply limited_iff in H. congruence.
Qed.

(* a truthful or absent Content-Length *)
Definition cl_honest (cl : option N) (frames : list N) : Prop := cl = None \/ cl = Some (sum_frames frames).

Lemma read_body_honest cl frames max reported :
  max <= u32_max -> cl_honest cl frames ->
  (read_body_size cl frames max reported = HProcessed <-> sum_frames frames <= max).
Proof.
  intros Hmax Hcl. rewrite read_body_processed_iff. destruct Hcl as [-> | ->]; cbn [cl_value].
  - lia.
  - destruct (N.leb_spec (sum_frames frames) u32_max); lia.
Qed.

(* rejected bodies: which status *)
Lemma read_body_rejected cl frames max reported :
  max < sum_frames frames \/ max < cl_value cl ->
  read_body_size cl frames max reported = HTooLarge413 reported \/ read_body_size cl frames max reported = HStream500.
Proof.
  intro H. unfold read_body_size, read_body_precheck_limit, read_body_stream_limit.
  destruct (N.ltb_spec max (cl_value cl)); [left; reflexivity|].
  destruct (limited max frames) eqn:E; [|right; reflexivity].
  apply limited_iff in E. lia.
Qed.

(* ---------- decision ---------- *)

Lemma decision_ws e c n b : ws_processed e c n = Some b -> (b = true <-> n <= max_request c).
Proof.
  unfold ws_processed. destruct (ws_limit_of e c) as [l|] eqn:E; [|discriminate].
  apply ws_wiring in E. subst l. intro H. inversion H; subst. apply soketto_accepts_iff.
Qed.

Lemma decision_http e c cl frames b :
  max_request c <= u32_max -> cl_honest cl frames ->
  http_processed e c cl frames = Some b -> (b = true <-> sum_frames frames <= max_request c).
Proof.
  intros Hmax Hcl. unfold http_processed, http_result.
  destruct (http_limit_of e c) as [l|] eqn:E; [|discriminate].
  destruct (http_reported_of e c) as [r|] eqn:E2; [|discriminate].
  apply http_wiring in E. subst l.
  pose proof (read_body_honest cl frames (max_request c) r Hmax Hcl) as Hrb.
  destruct (read_body_size cl frames (max_request c) r) eqn:R; intro H; inversion H; subst.
  - split; intro; [apply Hrb; reflexivity | reflexivity].
  - split; intro H'; [discriminate|]. apply Hrb in H'. discriminate.
  - split; intro H'; [discriminate|]. apply Hrb in H'. discriminate.
Qed.

Lemma decision :
  forall e c,
    (forall n b, ws_processed e c n = Some b -> (b = true <-> n <= max_request c)) /\
    (forall cl frames b, max_request c <= u32_max -> cl_honest cl frames ->
        http_processed e c cl frames = Some b -> (b = true <-> sum_frames frames <= max_request c)).
Proof. intros e c. split; [apply decision_ws | intros; eapply decision_http; eassumption]. Qed.

(* any Content-Length at all: processed exactly when both the declared and the actual size are within the limit *)
Lemma decision_http_any_cl e c cl frames b :
  http_processed e c cl frames = Some b ->
  (b = true <-> cl_value cl <= max_request c /\ sum_frames frames <= max_request c).
Proof.
  unfold http_processed, http_result.
  destruct (http_limit_of e c) as [l|] eqn:E; [|discriminate].
  destruct (http_reported_of e c) as [r|] eqn:E2; [|discriminate].
  apply http_wiring in E. subst l.
  pose proof (read_body_processed_iff cl frames (max_request c) r) as Hrb.
  destruct (read_body_size cl frames (max_request c) r) eqn:R; intro H; inversion H; subst.
  - split; intro; [apply Hrb; reflexivity | reflexivity].
  - split; intro H'; [discriminate|]. apply Hrb in H'. discriminate.
  - split; intro H'; [discriminate|]. apply Hrb in H'. discriminate.
Qed.

(* the HTTP rejection is an error status quoting max_request *)
Lemma http_reject_status e c cl frames r :
  http_result e c cl frames = Some r -> r <> HProcessed ->
  (r = HTooLarge413 (max_request c) /\ http_status r = 413) \/ (r = HStream500 /\ http_status r = 500).
Proof.
  unfold http_result.
  destruct (http_limit_of e c) as [l|] eqn:E; [|discriminate].
  destruct (http_reported_of e c) as [rp|] eqn:E2; [|discriminate].
  apply http_reported_wiring in E2. subst rp. intros H Hn. inversion H as [H1]. clear H.
  unfold read_body_size in *.
  destruct (read_body_precheck_limit l <? cl_value cl).
  - left. subst r. split; reflexivity.
  - destruct (limited (read_body_stream_limit l) frames).
    + subst r. exfalso. apply Hn. reflexivity.
    + right. subst r. split; reflexivity.
Qed.

(* ---------- independence ---------- *)

Lemma ws_limit_indep e c1 c2 : max_request c1 = max_request c2 -> ws_limit_of e c1 = ws_limit_of e c2.
Proof.
  intro H. destruct (ws_limit_of e c1) as [l1|] eqn:E1; destruct (ws_limit_of e c2) as [l2|] eqn:E2.
  - apply ws_wiring in E1, E2. congruence.
  - destruct e; cbn in *; discriminate.
  - destruct e; cbn in *; discriminate.
  - reflexivity.
Qed.

Lemma http_limit_indep e c1 c2 : max_request c1 = max_request c2 -> http_limit_of e c1 = http_limit_of e c2.
Proof.
  intro H. destruct (http_limit_of e c1) as [l1|] eqn:E1; destruct (http_limit_of e c2) as [l2|] eqn:E2.
  - apply http_wiring in E1, E2. congruence.
  - destruct e; cbn in *; discriminate.
  - destruct e; cbn in *; discriminate.
  - reflexivity.
Qed.

Lemma http_reported_indep e c1 c2 : max_request c1 = max_request c2 -> http_reported_of e c1 = http_reported_of e c2.
Proof.
  intro H. destruct (http_reported_of e c1) as [l1|] eqn:E1; destruct (http_reported_of e c2) as [l2|] eqn:E2.
  - apply http_reported_wiring in E1, E2. congruence.
  - destruct e; cbn in *; discriminate.
  - destruct e; cbn in *; discriminate.
  - reflexivity.
Qed.

Lemma independent :
  forall e c1 c2, max_request c1 = max_request c2 ->
    (forall n, ws_processed e c1 n = ws_processed e c2 n) /\
    (forall msgs, ws_session e c1 msgs = ws_session e c2 msgs) /\
    (forall cl frames, http_result e c1 cl frames = http_result e c2 cl frames).
Proof.
  intros e c1 c2 H. repeat split; intros.
  - unfold ws_processed. rewrite (ws_limit_indep e c1 c2 H). reflexivity.
  - unfold ws_session. rewrite (ws_limit_indep e c1 c2 H).
    generalize (ws_reported_wiring c1) (ws_reported_wiring c2). generalize (ws_reported_limit c1) (ws_reported_limit c2).
    intros r1 r2 -> ->. rewrite H. reflexivity.
  - unfold http_result. rewrite (http_limit_indep e c1 c2 H), (http_reported_indep e c1 c2 H). reflexivity.
Qed.

(* in particular: changing only max_response changes nothing on the request path *)
Definition with_max_response (c : cfg) (r : N) : cfg := {| max_request := max_request c; max_response := r |}.

Lemma requests_unaffected_by_max_response :
  forall e c r,
    (forall n, ws_processed e (with_max_response c r) n = ws_processed e c n) /\
    (forall msgs, ws_session e (with_max_response c r) msgs = ws_session e c msgs) /\
    (forall cl frames, http_result e (with_max_response c r) cl frames = http_result e c cl frames).
Proof. intros e c r. apply independent. reflexivity. Qed.

(* ---------- the WS connection keeps serving ---------- *)

Definition ws_expected (c : cfg) (n : N) : ws_ev :=
  if n <=? max_request c then EvDispatched n else EvTooBig (max_request c).

Lemma ws_loop_open limit reported msgs :
  ws_loop limit reported true msgs =
  map (fun n => if n <=? limit then EvDispatched n else EvTooBig reported) msgs.
Proof.
  induction msgs as [|n rest IH]; cbn [ws_loop map]; [reflexivity|].
  unfold soketto_accepts. destruct (N.ltb_spec limit n); destruct (N.leb_spec n limit); try lia; cbn; rewrite IH; reflexivity.
Qed.

Lemma ws_continues e c msgs evs :
  ws_session e c msgs = Some evs -> evs = map (ws_expected c) msgs.
Proof.
  unfold ws_session. destruct (ws_limit_of e c) as [l|] eqn:E; [|discriminate].
  apply ws_wiring in E. subst l. intro H. inversion H. rewrite ws_loop_open.
  generalize (ws_reported_wiring c). generalize (ws_reported_limit c). intros r ->. reflexivity.
Qed.

(* spelled out: an oversized message in the middle yields one -32007 and everything after it is still served *)
Lemma ws_continues_after_reject e c pre n post evs :
  max_request c < n -> ws_session e c (pre ++ n :: post) = Some evs ->
  evs = map (ws_expected c) pre ++ EvTooBig (max_request c) :: map (ws_expected c) post.
Proof.
  intros Hn H. apply ws_continues in H. subst evs. rewrite map_app. cbn [map]. f_equal. f_equal.
  unfold ws_expected. destruct (N.leb_spec n (max_request c)); [lia | reflexivity].
Qed.

(* ---------- the rejection under back-pressure: pipelined messages, bounded outgoing queue ---------- *)
From Coq Require Import Sorting.Permutation.

Definition preply_eq_dec : forall a b : preply, {a = b} + {a <> b}.
Proof. decide equality; apply N.eq_dec. Defined.

Definition opt_list {A : Type} (o : option A) : list A := match o with Some x => [x] | None => [] end.

(* everything that is owed at some moment: on the wire, in the channel, parked, being computed, or still unread *)
Definition conn_bag (limit reported : N) (k : conn) : list preply :=
  k_wire k ++ k_queue k ++ k_waiting k ++ k_running k ++ opt_list (k_parked k)
  ++ map (pipeline_outcome limit reported) (k_inbox k).

Lemma step_preserves_bag limit reported cap k k' :
  conn_step limit reported cap k k' -> Permutation (conn_bag limit reported k) (conn_bag limit reported k').
Proof.
  intro H. apply (Permutation_count_occ preply_eq_dec). intro x.
  destruct H; unfold conn_bag;
    cbn [k_inbox k_parked k_running k_waiting k_queue k_wire opt_list map];
    try (unfold pipeline_outcome at 1; rewrite H);
    repeat (rewrite !count_occ_app || cbn [count_occ app]);
    repeat match goal with |- context [preply_eq_dec ?a ?b] => destruct (preply_eq_dec a b) end; lia.
Qed.

Lemma steps_preserve_bag limit reported cap k k' :
  conn_steps limit reported cap k k' -> Permutation (conn_bag limit reported k) (conn_bag limit reported k').
Proof.
  induction 1 as [k | k1 k2 k3 H1 _ IH]; [apply Permutation_refl|].
  eapply Permutation_trans; [eapply step_preserves_bag; eassumption | exact IH].
Qed.

Lemma conn_idle_iff k :
  conn_idle k = true <-> k_inbox k = [] /\ k_parked k = None /\ k_running k = [] /\ k_waiting k = [] /\ k_queue k = [].
Proof.
  destruct k as [inbox p run wait q w]. unfold conn_idle. cbn.
  destruct inbox, p, run, wait, q; split; intro H; try discriminate; try (repeat split; reflexivity);
    destruct H as (H1 & H2 & H3 & H4 & H5); discriminate.
Qed.

Lemma room_in_empty cap : 1 <= cap -> queue_has_room cap [] = true.
Proof. intro H. unfold queue_has_room. cbn. apply N.ltb_lt. lia. Qed.

(* with a channel of capacity >= 1, something can always move unless nothing is pending *)
Lemma progress limit reported cap k :
  1 <= cap -> (exists k', conn_step limit reported cap k k') \/ conn_idle k = true.
Proof.
  intro Hcap. pose proof (room_in_empty cap Hcap) as Hroom.
  destruct k as [inbox p run wait q w].
  destruct q as [|r q]; [|left; eexists; apply StWrite].
  destruct p as [r|]; [left; eexists; apply StLoopEnqueue; exact Hroom|].
  destruct wait as [|r wait]; [|left; eexists; exact (StTaskEnqueue limit reported cap r inbox None run [] wait [] w Hroom)].
  destruct run as [|r run]; [|left; eexists; exact (StTaskReady limit reported cap r inbox None [] run [] [] w)].
  destruct inbox as [|m inbox]; [right; reflexivity|].
  left. destruct (soketto_accepts limit (pm_size m)) eqn:E; eexists; [apply StRecvOk | apply StRecvTooBig]; exact E.
Qed.

Lemma stuck_is_idle limit reported cap k : 1 <= cap -> conn_stuck limit reported cap k -> conn_idle k = true.
Proof.
  intros Hcap Hs. destruct (progress limit reported cap k Hcap) as [[k' Hk'] | Hi]; [|exact Hi].
  exfalso. exact (Hs k' Hk').
Qed.

Lemma idle_bag limit reported k : conn_idle k = true -> conn_bag limit reported k = k_wire k.
Proof.
  intro H. apply conn_idle_iff in H. destruct H as (H1 & H2 & H3 & H4 & H5).
  unfold conn_bag. rewrite H1, H2, H3, H4, H5. cbn. apply app_nil_r.
Qed.

Lemma init_bag limit reported msgs : conn_bag limit reported (conn_init msgs) = map (pipeline_outcome limit reported) msgs.
Proof. reflexivity. Qed.

Lemma pipeline_outcome_wired e c l :
  ws_limit_of e c = Some l ->
  forall msgs, map (pipeline_outcome l (ws_reported_limit c)) msgs = ws_pipeline_replies c msgs.
Proof.
  intros E msgs. apply ws_wiring in E. subst l.
  generalize (ws_reported_wiring c). generalize (ws_reported_limit c). intros r ->. reflexivity.
Qed.

(* whatever the capacity and the interleaving: once nothing can move, the wire carries exactly the per-message outcomes *)
Lemma pipeline_each_answered :
  forall e c l cap msgs k,
    ws_limit_of e c = Some l -> 1 <= cap ->
    conn_steps l (ws_reported_limit c) cap (conn_init msgs) k ->
    conn_stuck l (ws_reported_limit c) cap k ->
    Permutation (k_wire k) (ws_pipeline_replies c msgs).
Proof.
  intros e c l cap msgs k E Hcap Hsteps Hstuck.
  apply steps_preserve_bag in Hsteps. rewrite init_bag, (pipeline_outcome_wired e c l E) in Hsteps.
  rewrite (idle_bag _ _ k (stuck_is_idle _ _ _ k Hcap Hstuck)) in Hsteps. apply Permutation_sym. exact Hsteps.
Qed.

(* ... and before that, something can still move (no deadlock) and the wire holds nothing but owed replies, each at most
   as often as it is owed *)
Lemma pipeline_delays_only :
  forall e c l cap msgs k,
    ws_limit_of e c = Some l -> 1 <= cap ->
    conn_steps l (ws_reported_limit c) cap (conn_init msgs) k ->
    (exists rest, Permutation (k_wire k ++ rest) (ws_pipeline_replies c msgs)) /\
    ((exists k', conn_step l (ws_reported_limit c) cap k k') \/ Permutation (k_wire k) (ws_pipeline_replies c msgs)).
Proof.
  intros e c l cap msgs k E Hcap Hsteps.
  apply steps_preserve_bag in Hsteps. rewrite init_bag, (pipeline_outcome_wired e c l E) in Hsteps. split.
  - eexists. apply Permutation_sym. exact Hsteps.
  - destruct (progress l (ws_reported_limit c) cap k Hcap) as [Hs | Hi]; [left; exact Hs | right].
    rewrite (idle_bag _ _ k Hi) in Hsteps. apply Permutation_sym. exact Hsteps.
Qed.

(* counted: one rejection per oversized message, one answer per in-limit message *)
Lemma outcome_counts limit msgs :
  count_occ preply_eq_dec (map (pipeline_outcome limit limit) msgs) (PRejected limit)
    = length (filter (fun m => limit <? pm_size m) msgs) /\
  forall id, count_occ preply_eq_dec (map (pipeline_outcome limit limit) msgs) (PAnswered id)
    = length (filter (fun m => (pm_size m <=? limit) && (pm_id m =? id)) msgs).
Proof.
  split; [|intro id]; induction msgs as [|m msgs IH]; try reflexivity;
    cbn [map filter]; unfold pipeline_outcome at 1, soketto_accepts; rewrite ?N.leb_antisym;
    destruct (limit <? pm_size m) eqn:Hlt; cbn [negb andb].
  - rewrite count_occ_cons_eq by reflexivity. cbn [length]. rewrite IH. reflexivity.
  - rewrite count_occ_cons_neq by discriminate. exact IH.
  - rewrite count_occ_cons_neq by discriminate. exact IH.
  - destruct (N.eqb_spec (pm_id m) id) as [Heq | Hne].
    + rewrite count_occ_cons_eq by (rewrite Heq; reflexivity). cbn [length]. rewrite IH. reflexivity.
    + rewrite count_occ_cons_neq by (intro Heq; inversion Heq; congruence). exact IH.
Qed.

Lemma pipeline_counts :
  forall e c l cap msgs k,
    ws_limit_of e c = Some l -> 1 <= cap ->
    conn_steps l (ws_reported_limit c) cap (conn_init msgs) k ->
    conn_stuck l (ws_reported_limit c) cap k ->
    count_occ preply_eq_dec (k_wire k) (PRejected (max_request c)) = length (filter (fun m => max_request c <? pm_size m) msgs) /\
    (forall id, count_occ preply_eq_dec (k_wire k) (PAnswered id)
                = length (filter (fun m => (pm_size m <=? max_request c) && (pm_id m =? id)) msgs)) /\
    (forall r, r <> max_request c -> count_occ preply_eq_dec (k_wire k) (PRejected r) = 0%nat).
Proof.
  intros e c l cap msgs k E Hcap Hsteps Hstuck.
  pose proof (pipeline_each_answered e c l cap msgs k E Hcap Hsteps Hstuck) as HP.
  pose proof (proj1 (Permutation_count_occ preply_eq_dec _ _) HP) as HC.
  destruct (outcome_counts (max_request c) msgs) as [H1 H2]. repeat split.
  - rewrite HC. exact H1.
  - intro id. rewrite HC. apply H2.
  - intros r Hr. rewrite HC. apply count_occ_not_In. unfold ws_pipeline_replies. intro Hin.
    apply in_map_iff in Hin. destruct Hin as [m [Hm _]]. unfold pipeline_outcome in Hm.
    destruct (soketto_accepts (max_request c) (pm_size m)); inversion Hm. congruence.
Qed.

(* the executable schedule only takes steps of the system *)
Lemma conn_next_step limit reported cap k k' :
  conn_next limit reported cap k = Some k' -> conn_step limit reported cap k k'.
Proof.
  destruct k as [inbox p run wait q w]. unfold conn_next.
  cbn [k_inbox k_parked k_running k_waiting k_queue k_wire].
  assert (Hwrite : forall k1,
             match q with
             | r :: q0 => Some {| k_inbox := inbox; k_parked := p; k_running := run; k_waiting := wait; k_queue := q0; k_wire := w ++ [r] |}
             | [] => None
             end = Some k1 ->
             conn_step limit reported cap {| k_inbox := inbox; k_parked := p; k_running := run; k_waiting := wait; k_queue := q; k_wire := w |} k1).
  { intros k1 H. destruct q as [|r q0]; [discriminate|]. inversion H. apply StWrite. }
  destruct p as [r0|]; destruct inbox as [|m inbox]; destruct run as [|r run];
    try (destruct (soketto_accepts limit (pm_size m)) eqn:E; intro H; inversion H; subst; [apply StRecvOk | apply StRecvTooBig]; exact E);
    try (intro H; inversion H; subst;
         match goal with |- conn_step _ _ _ {| k_inbox := ?i; k_parked := ?pp; k_running := ?r1 :: ?rn; k_waiting := ?wt; k_queue := ?qq; k_wire := ?ww |} _ =>
           exact (StTaskReady limit reported cap r1 i pp [] rn wt qq ww) end);
    (destruct (queue_has_room cap q) eqn:R; [|apply Hwrite]);
    (destruct wait as [|r1 wait];
     [ try apply Hwrite; intro H; inversion H; subst; apply StLoopEnqueue; exact R
     | intro H; inversion H; subst;
       match goal with |- conn_step _ _ _ {| k_inbox := ?i; k_parked := ?pp; k_running := ?rn; k_waiting := _; k_queue := ?qq; k_wire := ?ww |} _ =>
         exact (StTaskEnqueue limit reported cap r1 i pp rn [] wait qq ww R) end ]).
Qed.

Lemma conn_run_steps limit reported cap fuel : forall k, conn_steps limit reported cap k (conn_run limit reported cap fuel k).
Proof.
  induction fuel as [|f IH]; intro k; cbn [conn_run]; [apply StepsRefl|].
  destruct (conn_next limit reported cap k) as [k'|] eqn:E; [|apply StepsRefl].
  eapply StepsCons; [apply conn_next_step; exact E | apply IH].
Qed.

(* what the model runner prints for a session that came to rest is the per-message outcome list, whatever `cap` is *)
Lemma pipeline_session_spec :
  forall e c cap msgs wire parked,
    ws_pipeline_session e c cap msgs = Some (wire, true, parked) -> Permutation wire (ws_pipeline_replies c msgs).
Proof.
  intros e c cap msgs wire parked. unfold ws_pipeline_session.
  destruct (ws_limit_of e c) as [l|] eqn:E; [|discriminate]. intro H. inversion H as [[Hw Hi Hp]]. clear H Hp.
  pose proof (conn_run_steps l (ws_reported_limit c) cap (4 * length msgs + 4) (conn_init msgs)) as Hsteps.
  apply steps_preserve_bag in Hsteps. rewrite init_bag, (pipeline_outcome_wired e c l E), (idle_bag _ _ _ Hi) in Hsteps.
  apply Permutation_sym. exact Hsteps.
Qed.
