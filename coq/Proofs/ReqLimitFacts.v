(* C07: facts about the request-size gate (Model/ReqLimit.v) over the wiring regenerated from the sources. *)
From JV Require Import Base.Bytes Base.Dec Model.Wire Gen.LimitsWiringGen Model.ReqLimit.
Local Open Scope N_scope.
Arguments N.add : simpl never.
Arguments N.sub : simpl never.
Arguments N.mul : simpl never.
Arguments N.ltb : simpl never.
Arguments N.leb : simpl never.
Arguments N.eqb : simpl never.

(* ---------- wiring (generated definitions) ---------- *)

Lemma ws_wiring : forall e c l, ws_limit_of e c = Some l -> l = max_request c.
Proof. intros e c l H. destruct e; cbn in H; inversion H; reflexivity. Qed.

Lemma http_wiring : forall e c l, http_limit_of e c = Some l -> l = max_request c.
Proof. intros e c l H. destruct e; cbn in H; inversion H; reflexivity. Qed.

Lemma http_reported_wiring : forall e c l, http_reported_of e c = Some l -> l = max_request c.
Proof. intros e c l H. destruct e; cbn in H; inversion H; reflexivity. Qed.

Lemma ws_reported_wiring : forall c, ws_reported_limit c = max_request c.
Proof. reflexivity. Qed.

Lemma every_ep_has_a_transport : forall e c, ws_limit_of e c <> None \/ http_limit_of e c <> None.
Proof. intros e c. destruct e; cbn; (left; discriminate) || (right; discriminate). Qed.

Lemma wiring :
  forall e c l,
    (ws_limit_of e c = Some l -> l = max_request c) /\
    (http_limit_of e c = Some l -> l = max_request c) /\
    (http_reported_of e c = Some l -> l = max_request c) /\
    ws_reported_limit c = max_request c /\
    (ws_limit_of e c <> None \/ http_limit_of e c <> None).
Proof.
  intros e c l. repeat split.
  - apply ws_wiring. - apply http_wiring. - apply http_reported_wiring. - apply every_ep_has_a_transport.
Qed.

Lemma config_builder :
  forall b rq rs,
    builder_build (builder_set_response (builder_set_request b rq) rs) = {| max_request := rq; max_response := rs |} /\
    builder_build (builder_set_request (builder_set_response b rs) rq) = {| max_request := rq; max_response := rs |}.
Proof. intros b rq rs. split; reflexivity. Qed.

(* ---------- read_body ---------- *)

Lemma soketto_accepts_iff max n : soketto_accepts max n = true <-> n <= max.
Proof.
  unfold soketto_accepts. destruct (N.ltb_spec max n); cbn; split; intro H'; try discriminate; try reflexivity; lia.
Qed.

Lemma limited_iff : forall frames remaining, limited remaining frames = true <-> sum_frames frames <= remaining.
Proof.
  induction frames as [|f fs IH]; intro r; cbn [limited sum_frames fold_right].
  - split; intro; [lia | reflexivity].
  - fold (sum_frames fs). destruct (N.ltb_spec r f) as [Hlt | Hge].
    + split; intro H; [discriminate | lia].
    + rewrite IH. lia.
Qed.

Lemma read_body_processed_iff cl frames max reported :
  read_body_size cl frames max reported = HProcessed <-> cl_value cl <= max /\ sum_frames frames <= max.
Proof.
  unfold read_body_size, read_body_precheck_limit, read_body_stream_limit.
  destruct (N.ltb_spec max (cl_value cl)) as [Hlt | Hge].
  - split; intro H; [discriminate | lia].
  - destruct (limited max frames) eqn:E.
    + apply limited_iff in E. split; intro; [lia | reflexivity].
    + split; intro H; [discriminate|]. destruct H as [_ H]. apply limited_iff in H. congruence.
Qed.

(* a truthful or absent Content-Length *)
Definition cl_honest (cl : option N) (frames : list N) : Prop := cl = None \/ cl = Some (sum_frames frames).

Lemma read_body_honest cl frames max reported :
  max <= u32_max -> cl_honest cl frames ->
  (read_body_size cl frames max reported = HProcessed <-> sum_frames frames <= max).
Proof.
  intros Hmax Hcl. rewrite read_body_processed_iff. destruct Hcl as [-> | ->]; cbn [cl_value].
  - lia.
  - destruct (N.leb_spec (sum_frames frames) u32_max); lia.
Qed.

(* rejected bodies: which status *)
Lemma read_body_rejected cl frames max reported :
  max < sum_frames frames \/ max < cl_value cl ->
  read_body_size cl frames max reported = HTooLarge413 reported \/ read_body_size cl frames max reported = HStream500.
Proof.
  intro H. unfold read_body_size, read_body_precheck_limit, read_body_stream_limit.
  destruct (N.ltb_spec max (cl_value cl)); [left; reflexivity|].
  destruct (limited max frames) eqn:E; [|right; reflexivity].
  apply limited_iff in E. lia.
Qed.

(* ---------- decision ---------- *)

Lemma decision_ws e c n b : ws_processed e c n = Some b -> (b = true <-> n <= max_request c).
Proof.
  unfold ws_processed. destruct (ws_limit_of e c) as [l|] eqn:E; [|discriminate].
  apply ws_wiring in E. subst l. intro H. inversion H; subst. apply soketto_accepts_iff.
Qed.

Lemma decision_http e c cl frames b :
  max_request c <= u32_max -> cl_honest cl frames ->
  http_processed e c cl frames = Some b -> (b = true <-> sum_frames frames <= max_request c).
Proof.
  intros Hmax Hcl. unfold http_processed, http_result.
  destruct (http_limit_of e c) as [l|] eqn:E; [|discriminate].
  destruct (http_reported_of e c) as [r|] eqn:E2; [|discriminate].
  apply http_wiring in E. subst l.
  pose proof (read_body_honest cl frames (max_request c) r Hmax Hcl) as Hrb.
  destruct (read_body_size cl frames (max_request c) r) eqn:R; intro H; inversion H; subst.
  - split; intro; [apply Hrb; reflexivity | reflexivity].
  - split; intro H'; [discriminate|]. apply Hrb in H'. discriminate.
  - split; intro H'; [discriminate|]. apply Hrb in H'. discriminate.
Qed.

Lemma decision :
  forall e c,
    (forall n b, ws_processed e c n = Some b -> (b = true <-> n <= max_request c)) /\
    (forall cl frames b, max_request c <= u32_max -> cl_honest cl frames ->
        http_processed e c cl frames = Some b -> (b = true <-> sum_frames frames <= max_request c)).
Proof. intros e c. split; [apply decision_ws | intros; eapply decision_http; eassumption]. Qed.

(* any Content-Length at all: processed exactly when both the declared and the actual size are within the limit *)
Lemma decision_http_any_cl e c cl frames b :
  http_processed e c cl frames = Some b ->
  (b = true <-> cl_value cl <= max_request c /\ sum_frames frames <= max_request c).
Proof.
  unfold http_processed, http_result.
  destruct (http_limit_of e c) as [l|] eqn:E; [|discriminate].
  destruct (http_reported_of e c) as [r|] eqn:E2; [|discriminate].
  apply http_wiring in E. subst l.
  pose proof (read_body_processed_iff cl frames (max_request c) r) as Hrb.
  destruct (read_body_size cl frames (max_request c) r) eqn:R; intro H; inversion H; subst.
  - split; intro; [apply Hrb; reflexivity | reflexivity].
  - split; intro H'; [discriminate|]. apply Hrb in H'. discriminate.
  - split; intro H'; [discriminate|]. apply Hrb in H'. discriminate.
Qed.

(* the HTTP rejection is an error status quoting max_request *)
Lemma http_reject_status e c cl frames r :
  http_result e c cl frames = Some r -> r <> HProcessed ->
  (r = HTooLarge413 (max_request c) /\ http_status r = 413) \/ (r = HStream500 /\ http_status r = 500).
Proof.
  unfold http_result.
  destruct (http_limit_of e c) as [l|] eqn:E; [|discriminate].
  destruct (http_reported_of e c) as [rp|] eqn:E2; [|discriminate].
  apply http_reported_wiring in E2. subst rp. intros H Hn. inversion H as [H1]. clear H.
  unfold read_body_size in *.
  destruct (read_body_precheck_limit l <? cl_value cl).
  - left. subst r. split; reflexivity.
  - destruct (limited (read_body_stream_limit l) frames).
    + subst r. exfalso. apply Hn. reflexivity.
    + right. subst r. split; reflexivity.
Qed.

(* ---------- independence ---------- *)

Lemma ws_limit_indep e c1 c2 : max_request c1 = max_request c2 -> ws_limit_of e c1 = ws_limit_of e c2.
Proof.
  intro H. destruct (ws_limit_of e c1) as [l1|] eqn:E1; destruct (ws_limit_of e c2) as [l2|] eqn:E2.
  - apply ws_wiring in E1, E2. congruence.
  - destruct e; cbn in *; discriminate.
  - destruct e; cbn in *; discriminate.
  - reflexivity.
Qed.

Lemma http_limit_indep e c1 c2 : max_request c1 = max_request c2 -> http_limit_of e c1 = http_limit_of e c2.
Proof.
  intro H. destruct (http_limit_of e c1) as [l1|] eqn:E1; destruct (http_limit_of e c2) as [l2|] eqn:E2.
  - apply http_wiring in E1, E2. congruence.
  - destruct e; cbn in *; discriminate.
  - destruct e; cbn in *; discriminate.
  - reflexivity.
Qed.

Lemma http_reported_indep e c1 c2 : max_request c1 = max_request c2 -> http_reported_of e c1 = http_reported_of e c2.
Proof.
  intro H. destruct (http_reported_of e c1) as [l1|] eqn:E1; destruct (http_reported_of e c2) as [l2|] eqn:E2.
  - apply http_reported_wiring in E1, E2. congruence.
  - destruct e; cbn in *; discriminate.
  - destruct e; cbn in *; discriminate.
  - reflexivity.
Qed.

Lemma independent :
  forall e c1 c2, max_request c1 = max_request c2 ->
    (forall n, ws_processed e c1 n = ws_processed e c2 n) /\
    (forall msgs, ws_session e c1 msgs = ws_session e c2 msgs) /\
    (forall cl frames, http_result e c1 cl frames = http_result e c2 cl frames).
Proof.
  intros e c1 c2 H. repeat split; intros.
  - unfold ws_processed. rewrite (ws_limit_indep e c1 c2 H). reflexivity.
  - unfold ws_session. rewrite (ws_limit_indep e c1 c2 H).
    generalize (ws_reported_wiring c1) (ws_reported_wiring c2). generalize (ws_reported_limit c1) (ws_reported_limit c2).
    intros r1 r2 -> ->. rewrite H. reflexivity.
  - unfold http_result. rewrite (http_limit_indep e c1 c2 H), (http_reported_indep e c1 c2 H). reflexivity.
Qed.

(* in particular: changing only max_response changes nothing on the request path *)
Definition with_max_response (c : cfg) (r : N) : cfg := {| max_request := max_request c; max_response := r |}.

Lemma requests_unaffected_by_max_response :
  forall e c r,
    (forall n, ws_processed e (with_max_response c r) n = ws_processed e c n) /\
    (forall msgs, ws_session e (with_max_response c r) msgs = ws_session e c msgs) /\
    (forall cl frames, http_result e (with_max_response c r) cl frames = http_result e c cl frames).
Proof. intros e c r. apply independent. reflexivity. Qed.

(* ---------- the WS connection keeps serving ---------- *)

Definition ws_expected (c : cfg) (n : N) : ws_ev :=
  if n <=? max_request c then EvDispatched n else EvTooBig (max_request c).

Lemma ws_loop_open limit reported msgs :
  ws_loop limit reported true msgs =
  map (fun n => if n <=? limit then EvDispatched n else EvTooBig reported) msgs.
Proof.
  induction msgs as [|n rest IH]; cbn [ws_loop map]; [reflexivity|].
  unfold soketto_accepts. destruct (N.ltb_spec limit n); destruct (N.leb_spec n limit); try lia; cbn; rewrite IH; reflexivity.
Qed.

Lemma ws_continues e c msgs evs :
  ws_session e c msgs = Some evs -> evs = map (ws_expected c) msgs.
Proof.
  unfold ws_session. destruct (ws_limit_of e c) as [l|] eqn:E; [|discriminate].
  apply ws_wiring in E. subst l. intro H. inversion H. rewrite ws_loop_open.
  generalize (ws_reported_wiring c). generalize (ws_reported_limit c). intros r ->. reflexivity.
Qed.

(* spelled out: an oversized message in the middle yields one -32007 and everything after it is still served *)
Lemma ws_continues_after_reject e c pre n post evs :
  max_request c < n -> ws_session e c (pre ++ n :: post) = Some evs ->
  evs = map (ws_expected c) pre ++ EvTooBig (max_request c) :: map (ws_expected c) post.
Proof.
  intros Hn H. apply ws_continues in H. subst evs. rewrite map_app. cbn [map]. f_equal. f_equal.
  unfold ws_expected. destruct (N.leb_spec n (max_request c)); [lia | reflexivity].
Qed.
