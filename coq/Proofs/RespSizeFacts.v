(* C08: facts about the bounded writer, MethodResponse and the batch builder (Model/RespSize.v). *)
From JV Require Import Base.Bytes Base.Dec Base.Utf8 Json.Json Json.JsonSer Model.Wire Model.ErrShape Gen.LimitsWiringGen
  Gen.ErrorConstsGen Model.RespSize Model.ReqLimit Proofs.BytesFacts Proofs.DecFacts Proofs.ReqLimitFacts.
From Coq Require DecimalN DecimalPos DecimalFacts Decimal.
Local Open Scope N_scope.
Arguments N.add : simpl never.
Arguments N.sub : simpl never.
Arguments N.mul : simpl never.
Arguments N.ltb : simpl never.
Arguments N.leb : simpl never.
Arguments N.eqb : simpl never.

Lemma blen_app a b : blen (a ++ b) = blen a + blen b.
Proof. unfold blen. rewrite app_length. lia. Qed.

Lemma blen_cons x a : blen (x :: a) = 1 + blen a.
Proof. unfold blen. cbn [length]. lia. Qed.

Lemma blen_nil : blen [] = 0.
Proof. reflexivity. Qed.

(* ---------- BoundedWriter over an arbitrary chunking ---------- *)

Lemma bw_loop_spec : forall chunks buf max,
  blen buf <= max ->
  bw_loop buf chunks max = if blen (buf ++ concat chunks) <=? max then Some (buf ++ concat chunks) else None.
Proof.
  induction chunks as [|c cs IH]; intros buf max Hb; cbn [bw_loop concat].
  - rewrite app_nil_r. destruct (N.leb_spec (blen buf) max); [reflexivity | lia].
  - destruct (N.leb_spec (blen buf + blen c) max) as [Hle | Hgt].
    + rewrite IH by (rewrite blen_app; exact Hle). rewrite <- app_assoc. reflexivity.
    + rewrite !blen_app. destruct (N.leb_spec (blen buf + (blen c + blen (concat cs))) max); [lia | reflexivity].
Qed.

Lemma bounded_write_spec chunks max :
  bounded_write chunks max = if blen (concat chunks) <=? max then Some (concat chunks) else None.
Proof. unfold bounded_write. rewrite bw_loop_spec by (rewrite blen_nil; lia). reflexivity. Qed.

Lemma write_ok_iff :
  forall chunks max,
    (bounded_write chunks max = Some (concat chunks) <-> blen (concat chunks) <= max) /\
    (bounded_write chunks max = None <-> max < blen (concat chunks)) /\
    (forall b, bounded_write chunks max = Some b -> b = concat chunks).
Proof.
  intros chunks max. rewrite bounded_write_spec.
  destruct (N.leb_spec (blen (concat chunks)) max); repeat split; intros; try discriminate; try lia; try reflexivity.
  - congruence.
Qed.

(* two chunkings of the same bytes are indistinguishable *)
Lemma bounded_write_chunking chunks1 chunks2 max :
  concat chunks1 = concat chunks2 -> bounded_write chunks1 max = bounded_write chunks2 max.
Proof. intro H. rewrite !bounded_write_spec, H. reflexivity. Qed.

(* ---------- MethodResponse::response ---------- *)

Definition flag_of (p : rpayload) : flag :=
  match p with RResult _ => FSuccess | RError e => FFailed (e_code e) | RFail _ => FFailed (-32603)%Z end.

Definition fitting_reply (i : id) (p : rpayload) : bytes :=
  match p with RFail _ => error_response i internal_error | _ => full_ser i p end.

Lemma method_response_chunked_spec chunks i p max :
  concat chunks = full_ser i p ->
  method_response_chunked chunks i p max =
  if blen (full_ser i p) <=? max then (fitting_reply i p, flag_of p)
  else (error_response i (oversized_response_error max), FFailed (-32008)%Z).
Proof.
  intro H. unfold method_response_chunked. rewrite bounded_write_spec, H.
  destruct (blen (full_ser i p) <=? max); [|reflexivity]. destruct p; reflexivity.
Qed.

Lemma single_exact_core :
  forall chunks i p max, concat chunks = full_ser i p ->
    (blen (full_ser i p) <= max ->
       method_response_chunked chunks i p max = (fitting_reply i p, flag_of p)) /\
    (max < blen (full_ser i p) ->
       method_response_chunked chunks i p max = (error_response i (oversized_response_error max), FFailed (-32008)%Z)) /\
    method_response_chunked chunks i p max = method_response i p max.
Proof.
  intros chunks i p max H. rewrite (method_response_chunked_spec chunks i p max H).
  unfold method_response. rewrite (method_response_chunked_spec [full_ser i p] i p max) by (cbn; apply app_nil_r).
  destruct (N.leb_spec (blen (full_ser i p)) max); repeat split; intros; try reflexivity; lia.
Qed.

(* server level: every callback kind except the subscribe callback gets max_response *)
Lemma ws_call_limit_non_sub e c k l :
  k <> CbSubscription -> ws_call_limit e c k = Some l -> l = max_response c.
Proof.
  intros Hk. unfold ws_call_limit.
  destruct e; cbn; try discriminate; destruct k; cbn; intro H; inversion H; try reflexivity; exfalso; apply Hk; reflexivity.
Qed.

Lemma http_svc_limit_wiring e c l : http_svc_limit_of e c = Some l -> l = max_response c.
Proof. destruct e; cbn; intro H; inversion H; reflexivity. Qed.

Lemma ws_svc_limit_wiring e c l : ws_svc_limit_of e c = Some l -> l = max_response c.
Proof. destruct e; cbn; intro H; inversion H; reflexivity. Qed.

Definition exact_reply (i : id) (p : rpayload) (max : N) : bytes * flag :=
  if blen (full_ser i p) <=? max then (fitting_reply i p, flag_of p)
  else (error_response i (oversized_response_error max), FFailed (-32008)%Z).

Lemma single_exact :
  forall e c i p,
    (forall k r, k <> CbSubscription -> ws_call_reply e c k i p = Some r -> r = exact_reply i p (max_response c)) /\
    (forall r, http_call_reply e c i p = Some r -> r = exact_reply i p (max_response c)) /\
    (forall chunks max, concat chunks = full_ser i p -> method_response_chunked chunks i p max = exact_reply i p max).
Proof.
  intros e c i p. repeat split.
  - intros k r Hk. unfold ws_call_reply. destruct (ws_call_limit e c k) as [l|] eqn:E; [|discriminate].
    apply ws_call_limit_non_sub in E; [|exact Hk]. subst l. intro H. inversion H.
    unfold method_response. apply method_response_chunked_spec. cbn. apply app_nil_r.
  - intros r. unfold http_call_reply. destruct (http_svc_limit_of e c) as [l|] eqn:E; [|discriminate].
    apply http_svc_limit_wiring in E. subst l. intro H. inversion H.
    unfold method_response. apply method_response_chunked_spec. cbn. apply app_nil_r.
  - intros chunks max H. apply method_response_chunked_spec, H.
Qed.

(* what "exact" means, spelled out *)
Lemma exact_reply_fits i p max :
  blen (full_ser i p) <= max -> exact_reply i p max = (fitting_reply i p, flag_of p).
Proof. intro H. unfold exact_reply. destruct (N.leb_spec (blen (full_ser i p)) max); [reflexivity | lia]. Qed.

Lemma exact_reply_too_big i p max :
  max < blen (full_ser i p) ->
  exact_reply i p max = (error_response i (oversized_response_error max), FFailed (-32008)%Z).
Proof. intro H. unfold exact_reply. destruct (N.leb_spec (blen (full_ser i p)) max); [lia | reflexivity]. Qed.

Lemma exact_reply_bounded i p max :
  (forall partial, p <> RFail partial) ->
  blen (fst (exact_reply i p max)) <= max \/ fst (exact_reply i p max) = error_response i (oversized_response_error max).
Proof.
  intro Hp. unfold exact_reply. destruct (N.leb_spec (blen (full_ser i p)) max) as [H|H]; cbn [fst].
  - left. destruct p; cbn [fitting_reply]; try exact H. exfalso. eapply Hp. reflexivity.
  - right. reflexivity.
Qed.

(* ---------- batch builder ---------- *)

Definition buf_of (done : list bytes) : bytes := x5b :: concat (map (fun r => r ++ [x2c]) done).

Fixpoint alen (l : list bytes) : N :=
  match l with [] => 0 | r :: l' => blen r + 1 + alen l' end.

Lemma blen_buf_of done : blen (buf_of done) = 1 + alen done.
Proof.
  unfold buf_of. rewrite blen_cons. f_equal.
  induction done as [|r l IH]; cbn [map concat alen]; [reflexivity|].
  rewrite !blen_app, IH. cbn. lia.
Qed.

Lemma alen_app a b : alen (a ++ b) = alen a + alen b.
Proof. induction a as [|r a IH]; cbn [app alen]; [lia | rewrite IH; lia]. Qed.

Lemma buf_of_snoc done r : buf_of (done ++ [r]) = buf_of done ++ r ++ [x2c].
Proof. unfold buf_of. rewrite map_app, concat_app. cbn [map concat]. rewrite app_nil_r. reflexivity. Qed.

Lemma concat_commas rs : rs <> [] -> concat (map (fun r => r ++ [x2c]) rs) = join [x2c] rs ++ [x2c].
Proof.
  induction rs as [|r rs IH]; [congruence|]. intros _. destruct rs as [|r2 rs].
  - cbn. rewrite app_nil_r. reflexivity.
  - change (map (fun r => r ++ [x2c]) (r :: r2 :: rs)) with ((r ++ [x2c]) :: map (fun r => r ++ [x2c]) (r2 :: rs)).
    cbn [concat]. rewrite IH by discriminate. rewrite join_cons2. rewrite <- !app_assoc. reflexivity.
Qed.

Lemma blen_array_of rs : rs <> [] -> blen (array_of rs) = 1 + alen rs.
Proof.
  intro H. unfold array_of. rewrite blen_cons. f_equal.
  pose proof (blen_buf_of rs) as B. unfold buf_of in B. rewrite (concat_commas rs H) in B.
  rewrite blen_cons in B. rewrite !blen_app in *. cbn in *. lia.
Qed.

Lemma finish_buf_of rs : rs <> [] -> finish (buf_of rs) = array_of rs.
Proof.
  intro H. unfold buf_of. rewrite (concat_commas rs H). unfold finish.
  destruct (join [x2c] rs ++ [x2c]) as [|y l] eqn:E.
  - destruct (join [x2c] rs); discriminate.
  - rewrite <- E. unfold array_of.
    change (x5b :: join [x2c] rs ++ [x2c]) with ((x5b :: join [x2c] rs) ++ [x2c]).
    rewrite removelast_last. reflexivity.
Qed.

Lemma append_spec done max r :
  append (buf_of done) max r = if 1 + alen (done ++ [r]) <=? max then Some (buf_of (done ++ [r])) else None.
Proof.
  unfold append. rewrite blen_buf_of, alen_app. cbn [alen]. rewrite buf_of_snoc.
  destruct (N.ltb_spec max (blen r + (1 + alen done) + 1)); destruct (N.leb_spec (1 + (alen done + (blen r + 1 + 0))) max);
    try reflexivity; lia.
Qed.

(* the running length of the builder IS the length of the finished array, and append fails exactly when the
   array including the new entry would exceed the limit *)
Lemma batch_accounting :
  forall done max r,
    (done <> [] -> blen (buf_of done) = blen (array_of done)) /\
    (append (buf_of done) max r = None <-> max < blen (array_of (done ++ [r]))) /\
    (forall b, append (buf_of done) max r = Some b -> b = buf_of (done ++ [r])).
Proof.
  intros done max r. repeat split.
  - intro H. rewrite blen_buf_of, blen_array_of by exact H. reflexivity.
  - rewrite append_spec, blen_array_of by (destruct done; discriminate).
    destruct (N.leb_spec (1 + alen (done ++ [r])) max); [discriminate | lia].
  - rewrite append_spec, blen_array_of by (destruct done; discriminate).
    destruct (N.leb_spec (1 + alen (done ++ [r])) max); [lia | reflexivity].
  - intro b. rewrite append_spec. destruct (1 + alen (done ++ [r]) <=? max); congruence.
Qed.

Lemma batch_loop_spec : forall rs done max,
  1 + alen done <= max ->
  batch_loop (buf_of done) max rs = if 1 + alen (done ++ rs) <=? max then Some (buf_of (done ++ rs)) else None.
Proof.
  induction rs as [|r rs IH]; intros done max Hd; cbn [batch_loop].
  - rewrite app_nil_r. destruct (N.leb_spec (1 + alen done) max); [reflexivity | lia].
  - rewrite append_spec. destruct (N.leb_spec (1 + alen (done ++ [r])) max) as [Hle | Hgt].
    + rewrite IH by exact Hle. rewrite <- app_assoc. reflexivity.
    + replace (done ++ r :: rs) with ((done ++ [r]) ++ rs) by (rewrite <- app_assoc; reflexivity).
      rewrite (alen_app (done ++ [r]) rs). destruct (N.leb_spec (1 + (alen (done ++ [r]) + alen rs)) max); [lia | reflexivity].
Qed.

Lemma batch_exact :
  forall max rs, rs <> [] ->
    (blen (array_of rs) <= max -> batch_response max rs = array_of rs) /\
    (max < blen (array_of rs) -> batch_response max rs = too_big_batch max).
Proof.
  intros max rs Hne. rewrite blen_array_of by exact Hne. unfold batch_response.
  change batch_new with (buf_of []).
  destruct (N.leb_spec 1 max) as [H1 | H0].
  - rewrite batch_loop_spec by (cbn; lia). cbn [app].
    destruct (N.leb_spec (1 + alen rs) max); split; intro; try lia.
    + apply finish_buf_of, Hne.
    + reflexivity.
  - (* max = 0: the very first append fails *)
    destruct rs as [|r rs]; [congruence|]. cbn [batch_loop]. rewrite append_spec. cbn [app alen].
    destruct (N.leb_spec (1 + (blen r + 1 + 0)) max); [lia|]. split; intro; [lia | reflexivity].
Qed.

Lemma batch_empty max : batch_response max [] = error_response IdNull invalid_request_error.
Proof. reflexivity. Qed.

(* server level: the batch builder gets max_response on every entry point *)
Lemma batch_wiring e c :
  (forall rs b, ws_batch_reply e c rs = Some b -> b = batch_response (max_response c) rs) /\
  (forall rs b, http_batch_reply e c rs = Some b -> b = batch_response (max_response c) rs).
Proof.
  split; intros rs b.
  - unfold ws_batch_reply. destruct (ws_svc_limit_of e c) as [l|] eqn:E; [|discriminate].
    apply ws_svc_limit_wiring in E. subst l. intro H. inversion H. reflexivity.
  - unfold http_batch_reply. destruct (http_svc_limit_of e c) as [l|] eqn:E; [|discriminate].
    apply http_svc_limit_wiring in E. subst l. intro H. inversion H. reflexivity.
Qed.

(* ---------- a u64 prints in at most 20 digits ---------- *)
Section Digits.
Import DecimalN DecimalPos DecimalFacts Decimal.

Lemma of_uint_acc_lower d : forall acc, Npos acc * 10 ^ N.of_nat (nb_digits d) <= Npos (Pos.of_uint_acc d acc).
Proof.
  induction d; intro acc; cbn [nb_digits Pos.of_uint_acc];
    try (rewrite Nat2N.inj_succ, N.pow_succ_r by lia;
         match goal with |- _ <= N.pos (Pos.of_uint_acc _ ?a) => specialize (IHd a) end;
         eapply N.le_trans; [|exact IHd]; rewrite N.mul_assoc; apply N.mul_le_mono_r; lia).
  - cbn. lia.
Qed.

Lemma nb_digits_bytes ds : forallb is_digit ds = true -> nb_digits (bytes_to_uint ds) = length ds.
Proof.
  induction ds as [|c ds IH]; cbn [forallb bytes_to_uint length]; [reflexivity|].
  intro H. apply andb_true_iff in H as [Hc Hs]. specialize (IH Hs).
  destruct c; try discriminate Hc; cbn [nb_digits]; rewrite IH; reflexivity.
Qed.

Lemma digits_val_lower c ds :
  in_range 49 57 c = true -> forallb is_digit ds = true -> 10 ^ N.of_nat (length ds) <= digits_val (c :: ds).
Proof.
  intros Hc Hs. unfold digits_val. cbn [bytes_to_uint]. rewrite <- (nb_digits_bytes ds Hs).
  destruct c; try discriminate Hc; cbn [N.of_uint Pos.of_uint];
    (eapply N.le_trans; [|apply of_uint_acc_lower]); lia.
Qed.

Lemma print_N_length_bound n k : n < 10 ^ N.of_nat k -> (1 <= k)%nat -> (length (print_N n) <= k)%nat.
Proof.
  intros Hn Hk. destruct (print_N_shape n) as [E | (c & ds & E & Hc & Hs)]; rewrite E; cbn [length]; [exact Hk|].
  pose proof (digits_val_lower c ds Hc Hs) as L. rewrite <- E, digits_val_print_N in L.
  destruct (Nat.lt_ge_cases (length ds) k) as [Hlt | Hge]; [lia|]. exfalso.
  assert (10 ^ N.of_nat k <= 10 ^ N.of_nat (length ds)) by (apply N.pow_le_mono_r; lia). lia.
Qed.

Lemma print_N_u64 n : n < 2 ^ 64 -> blen (print_N n) <= 20.
Proof.
  intro H. unfold blen. assert (L : (length (print_N n) <= 20)%nat).
  { apply print_N_length_bound; [|lia]. eapply N.lt_le_trans; [exact H|]. vm_compute. discriminate. }
  lia.
Qed.
End Digits.

(* ---------- the fixed error objects ---------- *)

Lemma blen_error_response i e :
  blen (error_response i e) =
  32 + blen (ser_id i) + blen (ser_errobj e).
Proof.
  unfold error_response, mk_response, ser_response. cbn [rs_jsonrpc rs_payload rs_id].
  rewrite !blen_app. cbn. lia.
Qed.

Lemma blen_ser_errobj e :
  blen (ser_errobj e) =
  8 + blen (print_Z (e_code e)) + 11 + blen (ser_str (e_message e)) +
  match e_data e with Some d => 8 + blen d | None => 0 end + 1.
Proof.
  unfold ser_errobj. rewrite !blen_app. destruct (e_data e); rewrite ?blen_app; cbn; lia.
Qed.

Lemma escape_body_app : forall a b', escape_body (a ++ b') = escape_body a ++ escape_body b'.
Proof. induction a as [|c a IH]; intro b'; cbn [app escape_body]; [reflexivity|]. rewrite IH, app_assoc. reflexivity. Qed.

Lemma escape_body_digits : forall s, forallb is_digit s = true -> escape_body s = s.
Proof.
  induction s as [|c s IH]; cbn [forallb escape_body]; [reflexivity|]. intro H. apply andb_true_iff in H as [Hc Hs].
  rewrite (IH Hs). clear IH Hs. destruct c; try discriminate Hc; reflexivity.
Qed.

(* the data member of the limit errors: the JSON string "<prefix><limit>", for a prefix that needs no escapes *)
Lemma blen_limit_data p lim : escape_body p = p -> blen (limit_data p lim) = 2 + blen p + blen (print_N lim).
Proof.
  intro E. unfold limit_data, ser_str. rewrite blen_cons, blen_app, escape_body_app, E.
  rewrite (escape_body_digits (print_N lim)) by apply print_N_digits. rewrite blen_app.
  change (blen [x22]) with 1. lia.
Qed.

(* ---------- the generated constants: what the proofs below (and C01/C02's well-formedness lemmas) compute with.
   Everything here is decided by evaluating the constants of Gen/ErrorConstsGen.v: a code outside the i32 range or
   equal to another one, a message that needs JSON escapes or is not UTF-8, a message or data prefix that makes an
   error object longer than the bound of fixed_error_bound -- and this file no longer builds. ---------- *)
Fixpoint nodupb_Z (l : list Z) : bool :=
  match l with [] => true | x :: l' => negb (existsb (Z.eqb x) l') && nodupb_Z l' end.
Lemma nodupb_Z_sound l : nodupb_Z l = true -> NoDup l.
Proof.
  induction l as [|x l IH]; cbn [nodupb_Z]; intro H; [constructor|]. apply andb_true_iff in H as [H1 H2].
  constructor; [|apply IH, H2]. intro Hin. apply negb_true_iff in H1.
  assert (E : existsb (Z.eqb x) l = true) by (apply existsb_exists; exists x; split; [exact Hin | apply Z.eqb_refl]).
  congruence.
Qed.

Ltac leaf := vm_compute; first [reflexivity | discriminate].
Ltac in_consts := vm_compute; repeat (first [left; reflexivity | right]).

Definition code_ok (c : Z) : Prop := (-2147483648 <= c < 2147483648)%Z /\ blen (print_Z c) <= 6.
Definition msg_ok (m : bytes) : Prop := utf8_valid m = true /\ escape_body m = m /\ blen m <= 72.
Definition limit_shape_ok (sh : shape) : Prop :=
  In (sh_code sh) all_error_codes /\ In (sh_msg sh) all_error_msgs /\
  exists p, sh_prefix sh = Some p /\ utf8_valid p = true /\ escape_body p = p /\ blen (sh_msg sh) + blen p <= 62.

Lemma consts_pinned :
  NoDup all_error_codes /\
  Forall (fun c => (-2147483648 <= c < 2147483648)%Z /\ blen (print_Z c) <= 6) all_error_codes /\
  Forall (fun m => utf8_valid m = true /\ escape_body m = m /\ blen m <= 72) all_error_msgs /\
  Forall (fun sh => In (sh_code sh) all_error_codes /\ In (sh_msg sh) all_error_msgs /\
                    exists p, sh_prefix sh = Some p /\ utf8_valid p = true /\ escape_body p = p /\
                              blen (sh_msg sh) + blen p <= 62) limit_shapes /\
  Forall (fun cm => In (fst cm) all_error_codes /\ In (snd cm) all_error_msgs) errorcode_pairs /\
  In batches_not_supported_code all_error_codes /\ In batches_not_supported_msg all_error_msgs.
Proof.
  split; [apply nodupb_Z_sound; vm_compute; reflexivity|].
  split; [unfold all_error_codes; repeat (apply Forall_cons; [split; [split; leaf | leaf]|]); apply Forall_nil|].
  split; [unfold all_error_msgs; repeat (apply Forall_cons; [split; [leaf | split; leaf]|]); apply Forall_nil|].
  split; [unfold limit_shapes;
          repeat (apply Forall_cons; [split; [in_consts | split; [in_consts | eexists; split; [reflexivity | split; [leaf | split; leaf]]]]|]);
          apply Forall_nil|].
  split; [unfold errorcode_pairs; repeat (apply Forall_cons; [split; in_consts|]); apply Forall_nil|].
  split; in_consts.
Qed.

Lemma code_ok_in c : In c all_error_codes -> code_ok c.
Proof. intro H. destruct consts_pinned as (_ & F & _). rewrite Forall_forall in F. exact (F c H). Qed.
Lemma msg_ok_in m : In m all_error_msgs -> msg_ok m.
Proof. intro H. destruct consts_pinned as (_ & _ & F & _). rewrite Forall_forall in F. exact (F m H). Qed.
Lemma limit_shape_ok_in sh : In sh limit_shapes -> limit_shape_ok sh.
Proof. intro H. destruct consts_pinned as (_ & _ & _ & F & _). rewrite Forall_forall in F. exact (F sh H). Qed.

(* an error object made of generated constants, without / with the limit in its data *)
Lemma fixed_shape_bound i c m lim :
  In c all_error_codes -> In m all_error_msgs ->
  blen (error_response i (fixed_err (c, m, None))) <= 132 + blen (print_N lim) + blen (ser_id i).
Proof.
  intros Hc Hm. destruct (code_ok_in c Hc) as [_ Lc]. destruct (msg_ok_in m Hm) as (_ & Em & Lm).
  rewrite blen_error_response, blen_ser_errobj. unfold fixed_err, shape_err, sh_code, sh_msg, sh_prefix.
  cbn [e_code e_message e_data fst snd]. unfold ser_str. rewrite Em, blen_cons, blen_app. change (blen [x22]) with 1. lia.
Qed.

Lemma limit_shape_bound i sh lim :
  In sh limit_shapes ->
  blen (error_response i (shape_err sh lim)) <= 132 + blen (print_N lim) + blen (ser_id i).
Proof.
  intro H. destruct (limit_shape_ok_in sh H) as (Hc & Hm & p & Ep & _ & Esc & Lp).
  destruct (code_ok_in _ Hc) as [_ Lc]. destruct (msg_ok_in _ Hm) as (_ & Em & _).
  rewrite blen_error_response, blen_ser_errobj. unfold shape_err. cbn [e_code e_message e_data]. rewrite Ep.
  rewrite (blen_limit_data p lim Esc). unfold ser_str. rewrite Em, blen_cons, blen_app. change (blen [x22]) with 1. lia.
Qed.

Lemma fixed_error_bound :
  forall lim i e, In e (fixed_errors lim) ->
    blen (error_response i e) <= 132 + blen (print_N lim) + blen (ser_id i).
Proof.
  intros lim i e H. destruct consts_pinned as (_ & _ & _ & _ & Fp & Bc & Bm). rewrite Forall_forall in Fp.
  assert (P : forall c m, In (c, m) errorcode_pairs ->
                blen (error_response i (fixed_err (c, m, None))) <= 132 + blen (print_N lim) + blen (ser_id i)).
  { intros c m Hin. destruct (Fp _ Hin) as [Hc Hm]. apply fixed_shape_bound; assumption. }
  unfold fixed_errors in H.
  destruct H as [<- | [<- | [<- | [<- | [<- | [<- | [<- | [<- | [<- | [<- | []]]]]]]]]]].
  - apply (P parse_error_code parse_error_msg); in_consts.
  - apply (P invalid_request_code invalid_request_msg); in_consts.
  - apply (P method_not_found_code method_not_found_msg); in_consts.
  - apply (P internal_error_code internal_error_msg); in_consts.
  - apply (fixed_shape_bound i batches_not_supported_code batches_not_supported_msg lim); assumption.
  - apply (limit_shape_bound i reject_too_many_subscriptions_shape lim); in_consts.
  - apply (limit_shape_bound i reject_too_big_request_shape lim); in_consts.
  - apply (limit_shape_bound i oversized_response_shape lim); in_consts.
  - apply (limit_shape_bound i reject_too_big_batch_request_shape lim); in_consts.
  - apply (limit_shape_bound i reject_too_big_batch_response_shape lim); in_consts.
Qed.

(* for every limit a usize can hold: a constant plus the echoed id *)
Lemma fixed_error_bound_u64 :
  forall lim i e, lim < 2 ^ 64 -> In e (fixed_errors lim) -> blen (error_response i e) <= 152 + blen (ser_id i).
Proof.
  intros lim i e Hl H. pose proof (fixed_error_bound lim i e H). pose proof (print_N_u64 lim Hl). lia.
Qed.

(* ---------- requests are not affected by max_response ---------- *)
Lemma requests_unaffected :
  forall e c r,
    (forall n, ws_processed e (with_max_response c r) n = ws_processed e c n) /\
    (forall msgs, ws_session e (with_max_response c r) msgs = ws_session e c msgs) /\
    (forall cl frames, http_result e (with_max_response c r) cl frames = http_result e c cl frames).
Proof. exact requests_unaffected_by_max_response. Qed.

(* ---------- the subscribe response escapes the limit (known finding subscribe-response-unbounded) ---------- *)
Lemma sub_refuted :
  exists (e : ep) (c : cfg) (i : id) (p : rpayload) (r : bytes * flag),
    ws_call_reply e c CbSubscription i p = Some r /\ max_response c < blen (fst r) /\ snd r = FSuccess /\
    ws_call_reply e c CbSync i p = Some (error_response i (oversized_response_error (max_response c)), FFailed (-32008)%Z).
Proof.
  exists EpServer, {| max_request := 1000; max_response := 60 |}, (IdStr b#"an-id-of-twenty-bytes"),
         (RResult b#"""subscription-id-01"""). eexists.
  split; [vm_compute; reflexivity|]. split; [vm_compute; reflexivity|]. split; vm_compute; reflexivity.
Qed.
