(* C01 / C02: facts about Model/Server.v -- the answer to one delivered message (single or batch).
   All statements are for ALL byte strings, registries and handler functions. *)
From JV Require Import Base.Bytes Base.Dec Base.Utf8 Json.Json Json.JsonSer Json.JsonParse Json.JsonWf Model.Wire Model.RespSize
  Gen.SniffGen Gen.ErrorCodesGen Model.Server.
From JV Require Import Proofs.BytesFacts Proofs.Utf8Facts Proofs.DecFacts Proofs.LexFacts Proofs.JsonFacts Proofs.WireFacts.
Local Open Scope N_scope.
Arguments N.add : simpl never.
Arguments N.sub : simpl never.
Arguments N.mul : simpl never.
Arguments N.ltb : simpl never.
Arguments N.leb : simpl never.
Arguments N.eqb : simpl never.

(* ---------- C08's builder (Model/RespSize.v): the few accounting facts needed here, proved locally so that this
   file depends on the model only (Proofs/RespSizeFacts.v states them for C08) ---------- *)
Lemma sv_blen_app a b : blen (a ++ b) = blen a + blen b.
Proof. unfold blen. rewrite app_length. lia. Qed.
Lemma sv_blen_cons x a : blen (x :: a) = 1 + blen a.
Proof. unfold blen. cbn [length]. lia. Qed.

Lemma sv_bw_loop_spec : forall chunks buf max,
  blen buf <= max ->
  bw_loop buf chunks max = if blen (buf ++ concat chunks) <=? max then Some (buf ++ concat chunks) else None.
Proof.
  induction chunks as [|c cs IH]; intros buf max Hb; cbn [bw_loop concat].
  - rewrite app_nil_r. destruct (N.leb_spec (blen buf) max); [reflexivity | lia].
  - destruct (N.leb_spec (blen buf + blen c) max) as [Hle | Hgt].
    + rewrite IH by (rewrite sv_blen_app; exact Hle). rewrite <- app_assoc. reflexivity.
    + rewrite !sv_blen_app. destruct (N.leb_spec (blen buf + (blen c + blen (concat cs))) max); [lia | reflexivity].
Qed.

Definition sv_fitting_reply (i : id) (p : rpayload) : bytes :=
  match p with RFail _ => error_response i RespSize.internal_error | _ => full_ser i p end.

Lemma method_response_fst i p max :
  fst (method_response i p max) =
  if blen (full_ser i p) <=? max then sv_fitting_reply i p else error_response i (oversized_response_error max).
Proof.
  unfold method_response, method_response_chunked, bounded_write.
  rewrite sv_bw_loop_spec by (cbn; lia). cbn [concat app]. rewrite app_nil_r.
  destruct (blen (full_ser i p) <=? max); [|reflexivity]. destruct p; reflexivity.
Qed.

Definition buf_of (done : list bytes) : bytes := x5b :: concat (map (fun r => r ++ [x2c]) done).
Fixpoint alen (l : list bytes) : N := match l with [] => 0 | r :: l' => blen r + 1 + alen l' end.

Lemma blen_buf_of done : blen (buf_of done) = 1 + alen done.
Proof.
  unfold buf_of. rewrite sv_blen_cons. f_equal.
  induction done as [|r l IH]; cbn [map concat alen]; [reflexivity|].
  rewrite !sv_blen_app, IH. cbn. lia.
Qed.
Lemma alen_app a b : alen (a ++ b) = alen a + alen b.
Proof. induction a as [|r a IH]; cbn [app alen]; [lia | rewrite IH; lia]. Qed.
Lemma buf_of_snoc done r : buf_of (done ++ [r]) = buf_of done ++ r ++ [x2c].
Proof. unfold buf_of. rewrite map_app, concat_app. cbn [map concat]. rewrite app_nil_r. reflexivity. Qed.

Lemma concat_commas rs : rs <> [] -> concat (map (fun r => r ++ [x2c]) rs) = join [x2c] rs ++ [x2c].
Proof.
  induction rs as [|r rs IH]; [congruence|]. intros _. destruct rs as [|r2 rs].
  - cbn. rewrite app_nil_r. reflexivity.
  - change (map (fun r => r ++ [x2c]) (r :: r2 :: rs)) with ((r ++ [x2c]) :: map (fun r => r ++ [x2c]) (r2 :: rs)).
    cbn [concat]. rewrite IH by discriminate. rewrite join_cons2. rewrite <- !app_assoc. reflexivity.
Qed.

Lemma blen_array_of rs : rs <> [] -> blen (array_of rs) = 1 + alen rs.
Proof.
  intro H. unfold array_of. rewrite sv_blen_cons. f_equal.
  pose proof (blen_buf_of rs) as B. unfold buf_of in B. rewrite (concat_commas rs H) in B.
  rewrite sv_blen_cons in B. rewrite !sv_blen_app in *. cbn in *. lia.
Qed.

Lemma finish_buf_of rs : rs <> [] -> finish (buf_of rs) = array_of rs.
Proof.
  intro H. unfold buf_of. rewrite (concat_commas rs H). unfold finish.
  destruct (join [x2c] rs ++ [x2c]) as [|y l] eqn:E.
  - destruct (join [x2c] rs); discriminate.
  - rewrite <- E. unfold array_of.
    change (x5b :: join [x2c] rs ++ [x2c]) with ((x5b :: join [x2c] rs) ++ [x2c]).
    rewrite removelast_last. reflexivity.
Qed.

Lemma append_spec done max r :
  append (buf_of done) max r = if 1 + alen (done ++ [r]) <=? max then Some (buf_of (done ++ [r])) else None.
Proof.
  unfold append. rewrite blen_buf_of, alen_app. cbn [alen]. rewrite buf_of_snoc.
  destruct (N.ltb_spec max (blen r + (1 + alen done) + 1)); destruct (N.leb_spec (1 + (alen done + (blen r + 1 + 0))) max);
    try reflexivity; lia.
Qed.

(* ====================================================================== *)
(* vocabulary of the statements                                           *)
(* ====================================================================== *)

(* what a handler may produce: JSON texts, UTF-8 messages, i32 codes (what `Serialize` / ErrorObject give) *)
Definition opt_span_ok (o : option bytes) : Prop := match o with Some d => span_ok d | None => True end.
Definition hres_ok (r : hres) : Prop :=
  match r with
  | HOk raw => span_ok raw
  | HErr c m d => i32_range c /\ utf8_valid m = true /\ opt_span_ok d
  | HBadParams d => opt_span_ok d
  | HPanic => True
  end.
Definition handlers_wf (h : bytes -> option bytes -> hres) : Prop := forall m p, hres_ok (h m p).

(* a panic is only caught (and answered -32603) inside spawn_blocking *)
Definition panics_only_blocking (reg : bytes -> option mkind) (h : bytes -> option bytes -> hres) : Prop :=
  forall m p, h m p = HPanic -> reg m = Some KBlocking.

Definition errobj_ok (e : errobj) : Prop :=
  i32_range (e_code e) /\ utf8_valid (e_message e) = true /\ opt_span_ok (e_data e).
Definition payload_ok (p : payload) : Prop :=
  match p with PResult raw => span_ok raw | PError e => errobj_ok e end.

(* f is the response object {"jsonrpc":"2.0","id":i,"result"|"error":..}: read back with the library's own
   member scanner it has exactly these three members *)
Definition is_response (f : bytes) (i : id) (p : payload) : Prop :=
  object_members f = Some [(k_jsonrpc, ser_str v_two); (k_id, ser_id i); payload_member p].

(* the same, spelled out member by member: jsonrpc "2.0", exactly one id (in the id domain, reads back as itself),
   exactly one of result / error, an error object has its code and message *)
Definition wellformed_response (f : bytes) : Prop :=
  exists m i, object_members f = Some m /\ wf_id i /\
    field_of k_jsonrpc m = FOne (ser_str v_two) /\ is_two (ser_str v_two) = true /\
    field_of k_id m = FOne (ser_id i) /\ parse_id (ser_id i) = Some i /\
    ((exists raw, field_of k_result m = FOne raw /\ field_of k_error m = FAbsent) \/
     (exists e em, field_of k_error m = FOne (ser_errobj e) /\ field_of k_result m = FAbsent /\
        object_members (ser_errobj e) = Some em /\
        field_of k_code em = FOne (print_Z (e_code e)) /\ field_of k_message em = FOne (ser_str (e_message e)))).

(* the message is sniffed as a batch (C02's domain) *)
Definition is_batch_msg (t : transport) (b : bytes) : bool :=
  match sniff t b with Some (false, _) => true | _ => false end.

(* a user handler is invoked for a valid call to a method of kind k over transport t *)
Definition runs_handler (k : mkind) (t : transport) : bool :=
  match k, t with
  | KSync, _ | KAsync, _ | KBlocking, _ => true
  | KSub, Ws => true
  | _, _ => false
  end.
(* the method is served at all over t (subscriptions need a connection: -32603 over HTTP) *)
Definition served (k : mkind) (t : transport) : bool :=
  match k, t with KSub, Http | KUnsub, Http => false | _, _ => true end.

(* ====================================================================== *)
(* response texts                                                         *)
(* ====================================================================== *)

Lemma mk_response_eq i p :
  mk_response i p = ser_object [(k_jsonrpc, ser_str v_two); (k_id, ser_id i); payload_member p].
Proof.
  unfold mk_response. rewrite ser_response_eq. reflexivity.
Qed.

Lemma errobj_members_mem_ok e : errobj_ok e -> Forall mem_ok (errobj_members e).
Proof.
  intros (Hc & Um & Hd). unfold errobj_members, opt_member.
  constructor; [split; [reflexivity | apply span_ok_code, Hc]|].
  constructor; [split; [reflexivity | apply span_ok_str, Um]|].
  destruct (e_data e) as [d|]; [|constructor].
  constructor; [|constructor]. split; [reflexivity | exact Hd].
Qed.

Lemma errobj_span_ok e : errobj_ok e -> span_ok (ser_errobj e).
Proof. intro W. rewrite ser_errobj_eq. apply span_ok_object, errobj_members_mem_ok, W. Qed.

Lemma errobj_fields e :
  field_of k_code (errobj_members e) = FOne (print_Z (e_code e)) /\
  field_of k_message (errobj_members e) = FOne (ser_str (e_message e)).
Proof. unfold errobj_members, opt_member. destruct (e_data e); split; reflexivity. Qed.

Lemma payload_member_ok p : payload_ok p -> mem_ok (payload_member p).
Proof.
  destruct p as [raw|e]; cbn [payload_ok payload_member]; intro H; (split; [reflexivity|]); cbn [snd].
  - exact H.
  - apply errobj_span_ok, H.
Qed.

Lemma mk_response_is_response i p : wf_id i -> payload_ok p -> is_response (mk_response i p) i p.
Proof.
  intros Wi Wp. unfold is_response. rewrite mk_response_eq. apply object_members_ser.
  constructor; [split; [reflexivity | apply span_ok_two]|].
  constructor; [split; [reflexivity | apply span_ok_id, Wi]|].
  constructor; [apply payload_member_ok, Wp | constructor].
Qed.

Lemma is_response_wellformed f i p : wf_id i -> payload_ok p -> is_response f i p -> wellformed_response f.
Proof.
  intros Wi Wp H. exists [(k_jsonrpc, ser_str v_two); (k_id, ser_id i); payload_member p], i.
  destruct (response_fields (ser_id i) p) as (F1 & F2 & F3).
  split; [exact H|]. split; [exact Wi|]. split; [exact F1|]. split; [exact is_two_two|].
  split; [exact F2|]. split; [apply id_roundtrip, Wi|].
  destruct p as [raw|e].
  - left. exists raw. exact F3.
  - right. exists e, (errobj_members e). destruct F3 as [F3 F4]. destruct (errobj_fields e) as [G1 G2].
    repeat split; try assumption.
    rewrite ser_errobj_eq. apply object_members_ser, errobj_members_mem_ok, Wp.
Qed.

Lemma mk_response_head i p : exists tl, mk_response i p = x7b :: tl.
Proof. rewrite mk_response_eq. eexists. reflexivity. Qed.

Lemma mk_response_not_null i p : bytes_eqb (mk_response i p) null_text = false.
Proof. destruct (mk_response_head i p) as [tl ->]. reflexivity. Qed.

(* ---------- the fixed error objects are fine ---------- *)
Lemma exceeded_data_span_ok n : span_ok (exceeded_data n).
Proof.
  unfold exceeded_data. apply span_ok_str. apply utf8_valid_ascii. rewrite forallb_app.
  apply andb_true_iff. split; [reflexivity | apply digits_ascii, print_N_digits].
Qed.

Ltac codes := unfold parse_error_code, invalid_request_code, method_not_found_code, internal_error_code, invalid_params_code,
  batches_not_supported_code, too_big_batch_request_code in *.
Ltac fixed_err := unfold errobj_ok, i32_range; cbn; codes; repeat split; try lia; try reflexivity.

Lemma parse_error_ok : errobj_ok parse_error. Proof. fixed_err. Qed.
Lemma invalid_request_ok : errobj_ok invalid_request. Proof. fixed_err. Qed.
Lemma method_not_found_ok : errobj_ok method_not_found. Proof. fixed_err. Qed.
Lemma internal_err_ok : errobj_ok internal_err. Proof. fixed_err. Qed.
Lemma batches_not_supported_ok : errobj_ok batches_not_supported. Proof. fixed_err. Qed.
Lemma too_big_batch_request_ok n : errobj_ok (too_big_batch_request n).
Proof. unfold errobj_ok, i32_range. cbn. codes. repeat split; try lia. apply exceeded_data_span_ok. Qed.
Lemma oversized_response_ok n : errobj_ok (oversized_response_error n).
Proof. unfold errobj_ok, i32_range. cbn. codes. repeat split; try lia. apply exceeded_data_span_ok. Qed.
Lemma too_big_batch_response_ok n : errobj_ok (too_big_batch_response_error n).
Proof. unfold errobj_ok, i32_range. cbn. codes. repeat split; try lia. apply exceeded_data_span_ok. Qed.
Lemma invalid_params_ok d : opt_span_ok d -> errobj_ok (invalid_params d).
Proof. intro H. unfold errobj_ok, i32_range. cbn. codes. repeat split; try lia. exact H. Qed.

(* the model's own constants agree with C08's *)
Lemma internal_err_eq : internal_err = RespSize.internal_error. Proof. reflexivity. Qed.
Lemma invalid_request_eq : invalid_request = RespSize.invalid_request_error. Proof. reflexivity. Qed.

(* ====================================================================== *)
(* MethodResponse::response at payload level                              *)
(* ====================================================================== *)

(* C08's size rule: the payload that ends up in the reply *)
Definition bounded (i : id) (p : payload) (max : N) : payload :=
  if blen (mk_response i p) <=? max then p else PError (oversized_response_error max).

Definition hres_payload (hr : hres) : payload :=
  match hr with HOk raw => PResult raw | _ => PError (err_of hr) end.

Definition handler_payload (i : id) (hr : hres) (max : N) : payload :=
  match hr with HPanic => PError internal_err | _ => bounded i (hres_payload hr) max end.


Lemma handler_response_eq i hr max : handler_response i hr max = mk_response i (handler_payload i hr max).
Proof.
  destruct hr as [raw|c m d|d|]; cbn [handler_response handler_payload hres_payload err_of]; try reflexivity;
    rewrite method_response_fst; unfold bounded; cbn [full_ser sv_fitting_reply];
    match goal with |- context [if ?b then _ else _] => destruct b end; reflexivity.
Qed.

Lemma sub_response_eq i hr : sub_response i hr = mk_response i (hres_payload hr).
Proof. destruct hr; reflexivity. Qed.

Lemma err_of_ok hr : hres_ok hr -> errobj_ok (err_of hr).
Proof.
  destruct hr as [raw|c m d|d|]; cbn [hres_ok err_of]; intro H.
  - apply internal_err_ok.
  - exact H.
  - apply invalid_params_ok, H.
  - apply internal_err_ok.
Qed.

Lemma hres_payload_ok hr : hres_ok hr -> payload_ok (hres_payload hr).
Proof.
  destruct hr as [raw|c m d|d|]; cbn [hres_payload]; intro H; try exact H;
    cbn [payload_ok]; apply err_of_ok; exact H.
Qed.

Lemma bounded_ok i p max : payload_ok p -> payload_ok (bounded i p max).
Proof. intro H. unfold bounded. destruct (_ <=? _); [exact H | apply oversized_response_ok]. Qed.

Lemma handler_payload_ok i hr max : hres_ok hr -> payload_ok (handler_payload i hr max).
Proof.
  intro H. destruct hr; cbn [handler_payload]; try (apply bounded_ok, hres_payload_ok, H).
  apply internal_err_ok.
Qed.
