(* C01 / C02: facts about Model/Server.v -- the answer to one delivered message (single or batch).
   All statements are for ALL byte strings, registries and handler functions. *)
From JV Require Import Base.Bytes Base.Dec Base.Utf8 Json.Json Json.JsonSer Json.JsonParse Json.JsonWf Model.Wire Model.ErrShape
  Model.RespSize Model.BatchGate Gen.SniffGen Gen.ErrorConstsGen Gen.BatchGateGen Model.Server.
From JV Require Import Proofs.BytesFacts Proofs.Utf8Facts Proofs.DecFacts Proofs.LexFacts Proofs.JsonFacts Proofs.WireFacts.
Local Open Scope N_scope.
Arguments N.add : simpl never.
Arguments N.sub : simpl never.
Arguments N.mul : simpl never.
Arguments N.ltb : simpl never.
Arguments N.leb : simpl never.
Arguments N.eqb : simpl never.

(* ---------- C08's builder (Model/RespSize.v): the few accounting facts needed here, proved locally so that this
   file depends on the model only (Proofs/RespSizeFacts.v states them for C08) ---------- *)
Lemma sv_blen_app a b : blen (a ++ b) = blen a + blen b.
Proof. unfold blen. rewrite app_length. lia. Qed.
Lemma sv_blen_cons x a : blen (x :: a) = 1 + blen a.
Proof. unfold blen. cbn [length]. lia. Qed.

Lemma sv_bw_loop_spec : forall chunks buf max,
  blen buf <= max ->
  bw_loop buf chunks max = if blen (buf ++ concat chunks) <=? max then Some (buf ++ concat chunks) else None.
Proof.
  induction chunks as [|c cs IH]; intros buf max Hb; cbn [bw_loop concat].
  - rewrite app_nil_r. destruct (N.leb_spec (blen buf) max); [reflexivity | lia].
  - destruct (N.leb_spec (blen buf + blen c) max) as [Hle | Hgt].
    + rewrite IH by (rewrite sv_blen_app; exact Hle). rewrite <- app_assoc. reflexivity.
    + rewrite !sv_blen_app. destruct (N.leb_spec (blen buf + (blen c + blen (concat cs))) max); [lia | reflexivity].
Qed.

Definition sv_fitting_reply (i : id) (p : rpayload) : bytes :=
  match p with RFail _ => error_response i RespSize.internal_error | _ => full_ser i p end.

Lemma method_response_fst i p max :
  fst (method_response i p max) =
  if blen (full_ser i p) <=? max then sv_fitting_reply i p else error_response i (oversized_response_error max).
Proof.
  unfold method_response, method_response_chunked, bounded_write.
  rewrite sv_bw_loop_spec by (cbn; lia). cbn [concat app]. rewrite app_nil_r.
  destruct (blen (full_ser i p) <=? max); [|reflexivity]. destruct p; reflexivity.
Qed.

Definition buf_of (done : list bytes) : bytes := x5b :: concat (map (fun r => r ++ [x2c]) done).
Fixpoint alen (l : list bytes) : N := match l with [] => 0 | r :: l' => blen r + 1 + alen l' end.

Lemma blen_buf_of done : blen (buf_of done) = 1 + alen done.
Proof.
  unfold buf_of. rewrite sv_blen_cons. f_equal.
  induction done as [|r l IH]; cbn [map concat alen]; [reflexivity|].
  rewrite !sv_blen_app, IH. cbn. lia.
Qed.
Lemma alen_app a b : alen (a ++ b) = alen a + alen b.
Proof. induction a as [|r a IH]; cbn [app alen]; [lia | rewrite IH; lia]. Qed.
Lemma buf_of_snoc done r : buf_of (done ++ [r]) = buf_of done ++ r ++ [x2c].
Proof. unfold buf_of. rewrite map_app, concat_app. cbn [map concat]. rewrite app_nil_r. reflexivity. Qed.

Lemma concat_commas rs : rs <> [] -> concat (map (fun r => r ++ [x2c]) rs) = join [x2c] rs ++ [x2c].
Proof.
  induction rs as [|r rs IH]; [congruence|]. intros _. destruct rs as [|r2 rs].
  - cbn. rewrite app_nil_r. reflexivity.
  - change (map (fun r => r ++ [x2c]) (r :: r2 :: rs)) with ((r ++ [x2c]) :: map (fun r => r ++ [x2c]) (r2 :: rs)).
    cbn [concat]. rewrite IH by discriminate. rewrite join_cons2. rewrite <- !app_assoc. reflexivity.
Qed.

Lemma blen_array_of rs : rs <> [] -> blen (array_of rs) = 1 + alen rs.
Proof.
  intro H. unfold array_of. rewrite sv_blen_cons. f_equal.
  pose proof (blen_buf_of rs) as B. unfold buf_of in B. rewrite (concat_commas rs H) in B.
  rewrite sv_blen_cons in B. rewrite !sv_blen_app in *. cbn in *. lia.
Qed.

Lemma finish_buf_of rs : rs <> [] -> finish (buf_of rs) = array_of rs.
Proof.
  intro H. unfold buf_of. rewrite (concat_commas rs H). unfold finish.
  destruct (join [x2c] rs ++ [x2c]) as [|y l] eqn:E.
  - destruct (join [x2c] rs); discriminate.
  - rewrite <- E. unfold array_of.
    change (x5b :: join [x2c] rs ++ [x2c]) with ((x5b :: join [x2c] rs) ++ [x2c]).
    rewrite removelast_last. reflexivity.
Qed.

Lemma append_spec done max r :
  append (buf_of done) max r = if 1 + alen (done ++ [r]) <=? max then Some (buf_of (done ++ [r])) else None.
Proof.
  unfold append. rewrite blen_buf_of, alen_app. cbn [alen]. rewrite buf_of_snoc.
  destruct (N.ltb_spec max (blen r + (1 + alen done) + 1)); destruct (N.leb_spec (1 + (alen done + (blen r + 1 + 0))) max);
    try reflexivity; lia.
Qed.

(* ====================================================================== *)
(* vocabulary of the statements                                           *)
(* ====================================================================== *)

(* what a handler may produce: JSON texts, UTF-8 messages, i32 codes (what `Serialize` / ErrorObject give) *)
Definition opt_span_ok (o : option bytes) : Prop := match o with Some d => span_ok d | None => True end.
Definition hres_ok (r : hres) : Prop :=
  match r with
  | HOk raw => span_ok raw
  | HErr c m d => i32_range c /\ utf8_valid m = true /\ opt_span_ok d
  | HBadParams d => opt_span_ok d
  | HPanic => True
  end.
Definition handlers_wf (h : bytes -> option bytes -> hres) : Prop := forall m p, hres_ok (h m p).

(* a panic is only caught (and answered -32603) inside spawn_blocking *)
Definition panics_only_blocking (reg : bytes -> option mkind) (h : bytes -> option bytes -> hres) : Prop :=
  forall m p, h m p = HPanic -> reg m = Some KBlocking.

Definition errobj_ok (e : errobj) : Prop :=
  i32_range (e_code e) /\ utf8_valid (e_message e) = true /\ opt_span_ok (e_data e).
Definition payload_ok (p : payload) : Prop :=
  match p with PResult raw => span_ok raw | PError e => errobj_ok e end.

(* f is the response object {"jsonrpc":"2.0","id":i,"result"|"error":..}: read back with the library's own
   member scanner it has exactly these three members *)
Definition is_response (f : bytes) (i : id) (p : payload) : Prop :=
  object_members f = Some [(k_jsonrpc, ser_str v_two); (k_id, ser_id i); payload_member p].

(* the same, spelled out member by member: jsonrpc "2.0", exactly one id (in the id domain, reads back as itself),
   exactly one of result / error, an error object has its code and message *)
Definition wellformed_response (f : bytes) : Prop :=
  exists m i, object_members f = Some m /\ wf_id i /\
    field_of k_jsonrpc m = FOne (ser_str v_two) /\ is_two (ser_str v_two) = true /\
    field_of k_id m = FOne (ser_id i) /\ parse_id (ser_id i) = Some i /\
    ((exists raw, field_of k_result m = FOne raw /\ field_of k_error m = FAbsent) \/
     (exists e em, field_of k_error m = FOne (ser_errobj e) /\ field_of k_result m = FAbsent /\
        object_members (ser_errobj e) = Some em /\
        field_of k_code em = FOne (print_Z (e_code e)) /\ field_of k_message em = FOne (ser_str (e_message e)))).

(* the message is sniffed as a batch (C02's domain) *)
Definition is_batch_msg (t : transport) (b : bytes) : bool :=
  match sniff t b with Some (false, _) => true | _ => false end.

(* a user handler is invoked for a valid call to a method of kind k over transport t *)
Definition runs_handler (k : mkind) (t : transport) : bool :=
  match k, t with
  | KSync, _ | KAsync, _ | KBlocking, _ => true
  | KSub, Ws => true
  | _, _ => false
  end.
(* the method is served at all over t (subscriptions need a connection: -32603 over HTTP) *)
Definition served (k : mkind) (t : transport) : bool :=
  match k, t with KSub, Http | KUnsub, Http => false | _, _ => true end.

(* ====================================================================== *)
(* response texts                                                         *)
(* ====================================================================== *)

Lemma mk_response_eq i p :
  mk_response i p = ser_object [(k_jsonrpc, ser_str v_two); (k_id, ser_id i); payload_member p].
Proof.
  unfold mk_response. rewrite ser_response_eq. reflexivity.
Qed.

Lemma errobj_members_mem_ok e : errobj_ok e -> Forall mem_ok (errobj_members e).
Proof.
  intros (Hc & Um & Hd). unfold errobj_members, opt_member.
  constructor; [split; [reflexivity | apply span_ok_code, Hc]|].
  constructor; [split; [reflexivity | apply span_ok_str, Um]|].
  destruct (e_data e) as [d|]; [|constructor].
  constructor; [|constructor]. split; [reflexivity | exact Hd].
Qed.

Lemma errobj_span_ok e : errobj_ok e -> span_ok (ser_errobj e).
Proof. intro W. rewrite ser_errobj_eq. apply span_ok_object, errobj_members_mem_ok, W. Qed.

Lemma errobj_fields e :
  field_of k_code (errobj_members e) = FOne (print_Z (e_code e)) /\
  field_of k_message (errobj_members e) = FOne (ser_str (e_message e)).
Proof. unfold errobj_members, opt_member. destruct (e_data e); split; reflexivity. Qed.

Lemma payload_member_ok p : payload_ok p -> mem_ok (payload_member p).
Proof.
  destruct p as [raw|e]; cbn [payload_ok payload_member]; intro H; (split; [reflexivity|]); cbn [snd].
  - exact H.
  - apply errobj_span_ok, H.
Qed.

Lemma mk_response_is_response i p : wf_id i -> payload_ok p -> is_response (mk_response i p) i p.
Proof.
  intros Wi Wp. unfold is_response. rewrite mk_response_eq. apply object_members_ser.
  constructor; [split; [reflexivity | apply span_ok_two]|].
  constructor; [split; [reflexivity | apply span_ok_id, Wi]|].
  constructor; [apply payload_member_ok, Wp | constructor].
Qed.

Lemma is_response_wellformed f i p : wf_id i -> payload_ok p -> is_response f i p -> wellformed_response f.
Proof.
  intros Wi Wp H. exists [(k_jsonrpc, ser_str v_two); (k_id, ser_id i); payload_member p], i.
  destruct (response_fields (ser_id i) p) as (F1 & F2 & F3).
  split; [exact H|]. split; [exact Wi|]. split; [exact F1|]. split; [exact is_two_two|].
  split; [exact F2|]. split; [apply id_roundtrip, Wi|].
  destruct p as [raw|e].
  - left. exists raw. exact F3.
  - right. exists e, (errobj_members e). destruct F3 as [F3 F4]. destruct (errobj_fields e) as [G1 G2].
    repeat split; try assumption.
    rewrite ser_errobj_eq. apply object_members_ser, errobj_members_mem_ok, Wp.
Qed.

Lemma mk_response_head i p : exists tl, mk_response i p = x7b :: tl.
Proof. rewrite mk_response_eq. eexists. reflexivity. Qed.

Lemma mk_response_not_null i p : bytes_eqb (mk_response i p) null_text = false.
Proof. destruct (mk_response_head i p) as [tl ->]. reflexivity. Qed.

(* ---------- the fixed error objects are fine ---------- *)
(* the data member "<prefix><limit>" of the limit errors, for a generated prefix that is UTF-8 *)
Lemma limit_data_span_ok p n : utf8_valid p = true -> span_ok (limit_data p n).
Proof.
  intro Hp. unfold limit_data. apply span_ok_str. apply utf8_valid_app; [exact Hp|].
  apply utf8_valid_ascii, digits_ascii, print_N_digits.
Qed.

Lemma limit_shape_err_ok c m p n :
  i32_range c -> utf8_valid m = true -> utf8_valid p = true -> errobj_ok (shape_err (c, m, Some p) n).
Proof. intros Hc Hm Hp. split; [exact Hc | split; [exact Hm | apply limit_data_span_ok, Hp]]. Qed.

Ltac i32 := unfold i32_range; cbv; split; [discriminate | reflexivity].
Ltac fixed_err := split; [i32 | split; [vm_compute; reflexivity | exact I]].

Lemma parse_error_ok : errobj_ok parse_error. Proof. fixed_err. Qed.
Lemma invalid_request_ok : errobj_ok invalid_request. Proof. fixed_err. Qed.
Lemma method_not_found_ok : errobj_ok method_not_found. Proof. fixed_err. Qed.
Lemma internal_err_ok : errobj_ok internal_err. Proof. fixed_err. Qed.
Lemma batches_not_supported_ok : errobj_ok batches_not_supported. Proof. fixed_err. Qed.
Ltac limit_err := apply limit_shape_err_ok; [i32 | vm_compute; reflexivity | vm_compute; reflexivity].
Lemma too_big_batch_request_ok n : errobj_ok (too_big_batch_request n).
Proof. limit_err. Qed.
Lemma oversized_response_ok n : errobj_ok (oversized_response_error n).
Proof. limit_err. Qed.
Lemma too_big_batch_response_ok n : errobj_ok (too_big_batch_response_error n).
Proof. limit_err. Qed.
Lemma invalid_params_ok d : opt_span_ok d -> errobj_ok (invalid_params d).
Proof. intro H. split; [i32 | split; [vm_compute; reflexivity | exact H]]. Qed.

(* the model's own constants agree with C08's *)
Lemma internal_err_eq : internal_err = RespSize.internal_error. Proof. reflexivity. Qed.
Lemma invalid_request_eq : invalid_request = RespSize.invalid_request_error. Proof. reflexivity. Qed.

(* ====================================================================== *)
(* MethodResponse::response at payload level                              *)
(* ====================================================================== *)

(* C08's size rule: the payload that ends up in the reply *)
Definition bounded (i : id) (p : payload) (max : N) : payload :=
  if blen (mk_response i p) <=? max then p else PError (oversized_response_error max).

Definition hres_payload (hr : hres) : payload :=
  match hr with HOk raw => PResult raw | _ => PError (err_of hr) end.

Definition handler_payload (i : id) (hr : hres) (max : N) : payload :=
  match hr with HPanic => PError internal_err | _ => bounded i (hres_payload hr) max end.


Lemma handler_response_eq i hr max : handler_response i hr max = mk_response i (handler_payload i hr max).
Proof.
  destruct hr as [raw|c m d|d|]; cbn [handler_response handler_payload hres_payload err_of]; try reflexivity;
    rewrite method_response_fst; unfold bounded; cbn [full_ser sv_fitting_reply];
    match goal with |- context [if ?b then _ else _] => destruct b end; reflexivity.
Qed.

Lemma sub_response_eq i hr : sub_response i hr = mk_response i (hres_payload hr).
Proof. destruct hr; reflexivity. Qed.

Lemma err_of_ok hr : hres_ok hr -> errobj_ok (err_of hr).
Proof.
  destruct hr as [raw|c m d|d|]; cbn [hres_ok err_of]; intro H.
  - apply internal_err_ok.
  - exact H.
  - apply invalid_params_ok, H.
  - apply internal_err_ok.
Qed.

Lemma hres_payload_ok hr : hres_ok hr -> payload_ok (hres_payload hr).
Proof.
  destruct hr as [raw|c m d|d|]; cbn [hres_payload]; intro H; try exact H;
    cbn [payload_ok]; apply err_of_ok; exact H.
Qed.

Lemma bounded_ok i p max : payload_ok p -> payload_ok (bounded i p max).
Proof. intro H. unfold bounded. destruct (_ <=? _); [exact H | apply oversized_response_ok]. Qed.

Lemma handler_payload_ok i hr max : hres_ok hr -> payload_ok (handler_payload i hr max).
Proof.
  intro H. destruct hr; cbn [handler_payload]; try (apply bounded_ok, hres_payload_ok, H).
  apply internal_err_ok.
Qed.

(* ====================================================================== *)
(* sniffing                                                               *)
(* ====================================================================== *)

(* both sniffers are the same function: this is where a change of one window / byte table shows *)
Lemma sniff_ws_http b : sniff Ws b = sniff Http b.
Proof. reflexivity. Qed.

Lemma sniff_go_single wsp sb bb : forall fuel b body,
  sniff_go wsp sb bb fuel b = Some (true, body) -> beqb sb bb = false -> exists tl, body = sb :: tl.
Proof.
  induction fuel as [|f IH]; intros b body H Hne; [discriminate|]. cbn [sniff_go] in H.
  destruct b as [|c b']; [discriminate|]. destruct (wsp c); [apply (IH _ _ H Hne)|].
  destruct (beqb c sb) eqn:E1.
  - inv_some H. apply beqb_true in E1. subst c. eexists. reflexivity.
  - destruct (beqb c bb); discriminate.
Qed.

Lemma sniff_go_batch wsp sb bb : forall fuel b body,
  sniff_go wsp sb bb fuel b = Some (false, body) -> exists tl, body = bb :: tl.
Proof.
  induction fuel as [|f IH]; intros b body H; [discriminate|]. cbn [sniff_go] in H.
  destruct b as [|c b']; [discriminate|]. destruct (wsp c); [apply (IH _ _ H)|].
  destruct (beqb c sb) eqn:E1; [discriminate|].
  destruct (beqb c bb) eqn:E2; [|discriminate]. inv_some H. apply beqb_true in E2. subst c. eexists. reflexivity.
Qed.

Lemma sniff_single t b body : sniff t b = Some (true, body) -> exists tl, body = x7b :: tl.
Proof. destruct t; intro H; apply (sniff_go_single _ _ _ _ _ _ H); reflexivity. Qed.

Lemma sniff_batch t b body : sniff t b = Some (false, body) -> exists tl, body = x5b :: tl.
Proof. destruct t; intro H; apply (sniff_go_batch _ _ _ _ _ _ H). Qed.

Lemma sniff_object_text t e : is_object_text e = true -> sniff t e = Some (true, e).
Proof.
  destruct e as [|c tl]; [discriminate|]. cbn [is_object_text]. intro H. apply beqb_true in H. subst c.
  destruct t; reflexivity.
Qed.

Lemma single_is_object_text t b body : sniff t b = Some (true, body) -> is_object_text body = true.
Proof. intro H. destruct (sniff_single _ _ _ H) as [tl ->]. reflexivity. Qed.

(* ====================================================================== *)
(* classification                                                         *)
(* ====================================================================== *)

Lemma as_request_notification m r :
  as_request m = Some r -> as_notification m = Some (rq_method r, rq_params r).
Proof.
  unfold as_request, as_notification.
  destruct (field_of k_jsonrpc m) as [|j|]; try discriminate.
  destruct (field_of k_id m) as [|i|]; try discriminate.
  destruct (field_of k_method m) as [|me|]; try discriminate.
  destruct (is_two j); try discriminate.
  destruct (parse_id i); try discriminate.
  destruct (as_str me); try discriminate.
  destruct (opt_field_raw k_params m); try discriminate.
  intro H. inv_some H. reflexivity.
Qed.

(* a well-formed notification is a request exactly when it carries exactly one id member in the id domain *)
Lemma notification_not_request m x :
  as_notification m = Some x ->
  (as_request m = None <-> match field_of k_id m with FOne sp => parse_id sp = None | _ => True end).
Proof.
  unfold as_request, as_notification.
  destruct (field_of k_jsonrpc m) as [|j|]; try discriminate.
  destruct (field_of k_method m) as [|me|]; try discriminate.
  destruct (is_two j); try discriminate.
  destruct (as_str me); try discriminate.
  destruct (opt_field_raw k_params m); try discriminate.
  intros _. destruct (field_of k_id m) as [|i|]; try (split; intros; [exact I | reflexivity]).
  destruct (parse_id i); split; intro H; try discriminate H; reflexivity.
Qed.

Lemma as_invalid_iff m i :
  as_invalid m = Some i <-> exists sp, field_of k_id m = FOne sp /\ parse_id sp = Some i.
Proof.
  unfold as_invalid. destruct (field_of k_id m) as [|sp|]; split.
  - discriminate.
  - intros (sp & H & _). discriminate H.
  - intro H. exists sp. split; [reflexivity | exact H].
  - intros (sp' & H1 & H2). inversion H1. subst sp'. exact H2.
  - discriminate.
  - intros (sp & H & _). discriminate H.
Qed.

Lemma classify_notif_iff body :
  classify body = Notif <->
  exists m, object_members body = Some m /\ as_notification m <> None /\
    match field_of k_id m with FOne sp => parse_id sp = None | _ => True end.
Proof.
  unfold classify. split.
  - destruct (object_members body) as [m|]; [|discriminate].
    destruct (as_request m) as [r|] eqn:Er; [discriminate|].
    destruct (as_notification m) as [x|] eqn:En.
    + intros _. exists m. split; [reflexivity|]. split; [rewrite En; discriminate|].
      apply (notification_not_request m x En). exact Er.
    + destruct (as_invalid m); discriminate.
  - intros (m & -> & Hn & Hid). destruct (as_notification m) as [x|] eqn:En; [|congruence].
    rewrite (proj2 (notification_not_request m x En) Hid). reflexivity.
Qed.

(* ids that were read are well-formed *)
Lemma parse_id_wf sp i : parse_id sp = Some i -> wf_id i.
Proof.
  unfold parse_id. destruct (parse_text sp) as [v|] eqn:E; [|discriminate].
  unfold parse_text in E. destruct (parse_value (S (length sp)) depth_limit sp) as [[v' r]|] eqn:Ev; [|discriminate].
  destruct (skip_ws r); [|discriminate]. inv_some E.
  apply parse_value_wf in Ev as [W _]; [|unfold depth_limit; lia].
  match goal with H : id_of_json v = Some i |- _ => rename H into Hi end.
  destruct v as [| |[n|n|l]|s| |]; cbn [id_of_json] in Hi; try discriminate Hi; inv_some Hi; cbn [wf_id].
  - exact I.
  - cbn [wf wf_num] in W. apply N.leb_le. exact W.
  - exact W.
Qed.

Lemma as_request_wf m r : as_request m = Some r -> wf_id (rq_id r).
Proof.
  unfold as_request.
  destruct (field_of k_jsonrpc m) as [|j|]; try discriminate.
  destruct (field_of k_id m) as [|i|]; try discriminate.
  destruct (field_of k_method m) as [|me|]; try discriminate.
  destruct (is_two j); try discriminate.
  destruct (parse_id i) as [i'|] eqn:Ei; try discriminate.
  destruct (as_str me); try discriminate.
  destruct (opt_field_raw k_params m); try discriminate.
  intro H. inv_some H. cbn [rq_id]. apply (parse_id_wf _ _ Ei).
Qed.

Lemma classify_call_wf body r : classify body = Call r -> wf_id (rq_id r).
Proof.
  unfold classify. destruct (object_members body) as [m|]; [|discriminate].
  destruct (as_request m) as [r'|] eqn:E.
  - intro H. inversion H. subst r'. apply (as_request_wf _ _ E).
  - destruct (as_notification m); [discriminate|]. destruct (as_invalid m); discriminate.
Qed.

Lemma classify_invalid_wf body i : classify body = Invalid i -> wf_id i.
Proof.
  unfold classify. destruct (object_members body) as [m|]; [|discriminate].
  destruct (as_request m); [discriminate|]. destruct (as_notification m); [discriminate|].
  destruct (as_invalid m) as [i'|] eqn:E; [|discriminate]. intro H. inversion H. subst i'.
  apply as_invalid_iff in E as (sp & _ & E). apply (parse_id_wf _ _ E).
Qed.

(* ---------- an object text the member scanner accepts is a JSON text for the lenient reader ---------- *)

(* ws* value ws* eof for serde's ignore_value: what "is JSON" means for a message whose members are skipped *)
Definition lenient_json (s : bytes) : bool :=
  match skip_value (S (length s)) s with
  | Some (_, r) => match skip_ws r with [] => true | _ :: _ => false end
  | None => false
  end.

Lemma members_loop_skip : forall f s ms r,
  members_loop f s = Some (ms, r) -> exists g t, skip_members g s = Some (t, r).
Proof.
  induction f as [|f IH]; intros s ms r H; [discriminate|].
  rewrite members_loop_S in H. cbv zeta in H.
  destruct (skip_ws s) as [|q s1] eqn:Es; [discriminate|].
  destruct (beqb q x22) eqn:Eq; [|discriminate].
  destruct (scan_str_valid s1) as [[k r0]|] eqn:Ek; [|discriminate].
  destruct (skip_ws r0) as [|col r1] eqn:Er0; [discriminate|].
  destruct (beqb col x3a) eqn:Ec; [|discriminate].
  destruct (skip_value (S (length (skip_ws r1))) (skip_ws r1)) as [[span r']|] eqn:Ev; [|discriminate].
  destruct (skip_ws r') as [|c r2] eqn:Er'; [discriminate|].
  apply scan_str_valid_inv in Ek as [Ek _]. apply scan_str_skip_str in Ek as [k' Ek'].
  assert (Ev' : skip_value (S (length (skip_ws r1))) r1 = Some (ws_prefix r1 ++ span, r')).
  { rewrite skip_value_ws, Ev. reflexivity. }
  destruct (beqb c x2c) eqn:Ecomma.
  - destruct (members_loop f r2) as [[ms' r3]|] eqn:El; [|discriminate]. inv_some H.
    destruct (IH _ _ _ El) as (g & t3 & Hg).
    exists (S (Nat.max (S (length (skip_ws r1))) g)). eexists.
    rewrite skip_members_S, Es, Eq, Ek', Er0, Ec.
    rewrite (skip_value_fuel_mono _ (Nat.max (S (length (skip_ws r1))) g) _ _ Ev') by lia.
    rewrite Er'. cbv zeta. rewrite Ecomma.
    rewrite (skip_members_fuel_mono _ (Nat.max (S (length (skip_ws r1))) g) _ _ Hg) by lia. reflexivity.
  - destruct (beqb c x7d) eqn:Eclose; [|discriminate]. inv_some H.
    exists (S (S (length (skip_ws r1)))). eexists.
    rewrite skip_members_S, Es, Eq, Ek', Er0, Ec, Ev', Er'. cbv zeta. rewrite Ecomma, Eclose. reflexivity.
Qed.

Lemma object_members_lenient_json s m : object_members s = Some m -> lenient_json s = true.
Proof.
  unfold object_members. intro H.
  destruct (skip_ws s) as [|c s1] eqn:Es; [discriminate|].
  destruct (beqb c x7b) eqn:Ec; [|discriminate]. apply beqb_true in Ec. subst c.
  destruct (skip_ws s1) as [|c2 r] eqn:Es1; [discriminate|].
  assert (G : exists g t r', skip_value g s = Some (t, r') /\ skip_ws r' = []).
  { destruct (beqb c2 x7d) eqn:Ec2.
    - destruct (skip_ws r) eqn:Er; [|discriminate]. exists 1%nat. eexists. exists r.
      rewrite skip_value_S. cbv zeta. rewrite Es. cbv beta iota.
      change (beqb x7b x6e) with false. change (beqb x7b x74) with false. change (beqb x7b x66) with false.
      change (beqb x7b x22) with false. change (is_num_start x7b) with false. change (beqb x7b x5b) with false.
      change (beqb x7b x7b) with true. cbv beta iota. rewrite Es1, Ec2. split; [reflexivity | exact Er].
    - destruct (members_loop (S (length s1)) s1) as [[ms r']|] eqn:El; [|discriminate].
      destruct (skip_ws r') eqn:Er'; [|discriminate].
      destruct (members_loop_skip _ _ _ _ El) as (g & t & Hg). exists (S g). eexists. exists r'.
      rewrite skip_value_S. cbv zeta. rewrite Es. cbv beta iota.
      change (beqb x7b x6e) with false. change (beqb x7b x74) with false. change (beqb x7b x66) with false.
      change (beqb x7b x22) with false. change (is_num_start x7b) with false. change (beqb x7b x5b) with false.
      change (beqb x7b x7b) with true. cbv beta iota. rewrite Es1, Ec2, Hg. split; [reflexivity | exact Er']. }
  destruct G as (g & t & r' & Hg & Hr). unfold lenient_json.
  rewrite (skip_value_enough_fuel _ _ _ Hg), Hr. reflexivity.
Qed.

(* ====================================================================== *)
(* one call                                                               *)
(* ====================================================================== *)
Section Facts.
Variable reg : bytes -> option mkind.
Variable h : bytes -> option bytes -> hres.

(* the payload of the answer to a valid call *)
Definition call_payload (t : transport) (c : scfg) (r : request) : payload :=
  match reg (rq_method r) with
  | None => PError method_not_found
  | Some k =>
    match k, t with
    | KSub, Http | KUnsub, Http => PError internal_err
    | KSub, Ws => hres_payload (h (rq_method r) (rq_params r))
    | _, _ => handler_payload (rq_id r) (h (rq_method r) (rq_params r)) (sc_max_response c)
    end
  end.

Lemma call_json t c r : c_json (call reg h t c r) = mk_response (rq_id r) (call_payload t c r).
Proof.
  unfold call, call_payload. destruct (reg (rq_method r)) as [k|]; [|reflexivity].
  destruct k, t; cbn [c_json]; try reflexivity; try apply handler_response_eq; apply sub_response_eq.
Qed.

Lemma call_payload_ok t c r : handlers_wf h -> payload_ok (call_payload t c r).
Proof.
  intro Hw. unfold call_payload. destruct (reg (rq_method r)) as [k|]; [|apply method_not_found_ok].
  destruct k, t; try apply handler_payload_ok; try apply hres_payload_ok; try apply Hw; apply internal_err_ok.
Qed.

(* what the WS transport puts on the wire for a single call: exactly the response, once *)
Lemma call_ws_frames c r :
  c_direct (call reg h Ws c r) ++
    match c_kind (call reg h Ws c r) with RkCall | RkBatch => [c_json (call reg h Ws c r)] | _ => [] end =
  [c_json (call reg h Ws c r)].
Proof. unfold call. destruct (reg (rq_method r)) as [k|]; [destruct k|]; reflexivity. Qed.

Lemma call_http_kind c r : c_kind (call reg h Http c r) = RkCall /\ c_direct (call reg h Http c r) = [].
Proof. unfold call. destruct (reg (rq_method r)) as [k|]; [destruct k|]; split; reflexivity. Qed.

Lemma call_log t c r :
  c_log (call reg h t c r) =
  match reg (rq_method r) with
  | Some k => if runs_handler k t then [(rq_method r, rq_params r)] else []
  | None => []
  end.
Proof. unfold call. destruct (reg (rq_method r)) as [k|]; [destruct k, t|]; reflexivity. Qed.

(* direct writes only come from a subscription method over WebSocket *)
Lemma call_direct_nil t c r :
  ~ (t = Ws /\ reg (rq_method r) = Some KSub) -> c_direct (call reg h t c r) = [].
Proof.
  intro H. unfold call. destruct (reg (rq_method r)) as [k|] eqn:E; [|reflexivity].
  destruct k, t; try reflexivity. exfalso. apply H. split; reflexivity.
Qed.

(* ====================================================================== *)
(* single messages                                                        *)
(* ====================================================================== *)

(* the replies to a message sniffed as single, by class *)
Definition single_replies (t : transport) (c : scfg) (body : bytes) : list bytes :=
  match classify body with
  | Call r => [mk_response (rq_id r) (call_payload t c r)]
  | Notif => []
  | Invalid i => [mk_response i (PError invalid_request)]
  | ParseErr => [mk_response IdNull (PError parse_error)]
  end.

Lemma filter_not_null_one i p :
  filter (fun f => negb (bytes_eqb f null_text)) [mk_response i p] = [mk_response i p].
Proof. cbn [filter]. rewrite mk_response_not_null. reflexivity. Qed.

Lemma replies_single t c b body :
  sniff t b = Some (true, body) -> replies t (handle reg h t c b) = single_replies t c body.
Proof.
  intro H. unfold handle. rewrite H. unfold handle_rpc_call, rpc_single, single_replies.
  destruct (classify body) as [r| |i|] eqn:E.
  - destruct t; cbn [replies o_frames m_direct m_kind m_json].
    + destruct (call_http_kind c r) as [_ _]. rewrite call_json. apply filter_not_null_one.
    + rewrite call_ws_frames, call_json. reflexivity.
  - destruct t; reflexivity.
  - destruct t; cbn [replies o_frames plain m_direct m_kind m_json app]; [apply filter_not_null_one | reflexivity].
  - destruct t; cbn [replies o_frames plain m_direct m_kind m_json app]; [apply filter_not_null_one | reflexivity].
Qed.

Lemma replies_unsniffable t c b :
  sniff t b = None -> replies t (handle reg h t c b) = [mk_response IdNull (PError parse_error)] /\ o_log (handle reg h t c b) = [].
Proof.
  intro H. unfold handle. rewrite H. destruct t; cbn [replies o_frames o_log]; split; reflexivity.
Qed.

Lemma log_single t c b body :
  sniff t b = Some (true, body) ->
  o_log (handle reg h t c b) =
  match classify body with
  | Call r => match reg (rq_method r) with
              | Some k => if runs_handler k t then [(rq_method r, rq_params r)] else []
              | None => [] end
  | _ => []
  end.
Proof.
  intro H. unfold handle. rewrite H. unfold handle_rpc_call, rpc_single.
  destruct (classify body) as [r| |i|]; destruct t; cbn [o_log m_log plain notification_resp]; try reflexivity; apply call_log.
Qed.

(* HTTP acknowledges a notification with status 200 and the body `null` *)
Lemma http_notification_ack c b body :
  sniff Http b = Some (true, body) -> classify body = Notif ->
  o_status (handle reg h Http c b) = Some 200 /\ o_frames (handle reg h Http c b) = [null_text].
Proof.
  intros H E. unfold handle. rewrite H. unfold handle_rpc_call, rpc_single. rewrite E. split; reflexivity.
Qed.

(* ====================================================================== *)
(* C01                                                                    *)
(* ====================================================================== *)

Lemma not_batch_cases t b :
  is_batch_msg t b = false -> sniff t b = None \/ exists body, sniff t b = Some (true, body).
Proof.
  unfold is_batch_msg. destruct (sniff t b) as [[[|] body]|]; intro H; try discriminate H.
  - right. exists body. reflexivity.
  - left. reflexivity.
Qed.

Lemma single_replies_wellformed t c body :
  handlers_wf h -> (length (single_replies t c body) <= 1)%nat /\ Forall wellformed_response (single_replies t c body).
Proof.
  intro Hw. unfold single_replies. destruct (classify body) as [r| |i|] eqn:E; cbn [length]; (split; [lia|]).
  - constructor; [|constructor].
    apply (is_response_wellformed _ (rq_id r) (call_payload t c r)).
    + apply (classify_call_wf _ _ E).
    + apply call_payload_ok, Hw.
    + apply mk_response_is_response; [apply (classify_call_wf _ _ E) | apply call_payload_ok, Hw].
  - constructor.
  - constructor; [|constructor].
    apply (is_response_wellformed _ i (PError invalid_request)); [apply (classify_invalid_wf _ _ E) | apply invalid_request_ok |].
    apply mk_response_is_response; [apply (classify_invalid_wf _ _ E) | apply invalid_request_ok].
  - constructor; [|constructor].
    apply (is_response_wellformed _ IdNull (PError parse_error)); [exact I | apply parse_error_ok |].
    apply mk_response_is_response; [exact I | apply parse_error_ok].
Qed.

Lemma c01_reply_wellformed t c b :
  handlers_wf h -> panics_only_blocking reg h -> is_batch_msg t b = false ->
  (length (replies t (handle reg h t c b)) <= 1)%nat /\
  Forall wellformed_response (replies t (handle reg h t c b)).
Proof.
  intros Hw _ Hb. destruct (not_batch_cases t b Hb) as [S | [body S]].
  - destruct (replies_unsniffable t c b S) as [-> _]. cbn [length]. split; [lia|].
    constructor; [|constructor].
    apply (is_response_wellformed _ IdNull (PError parse_error)); [exact I | apply parse_error_ok |].
    apply mk_response_is_response; [exact I | apply parse_error_ok].
  - rewrite (replies_single t c b body S). apply single_replies_wellformed, Hw.
Qed.

Lemma c01_silent_iff_notification t c b :
  is_batch_msg t b = false ->
  (replies t (handle reg h t c b) = [] <-> exists body, sniff t b = Some (true, body) /\ classify body = Notif).
Proof.
  intro Hb. destruct (not_batch_cases t b Hb) as [S | [body S]].
  - destruct (replies_unsniffable t c b S) as [-> _]. split; [discriminate|].
    intros (body & S' & _). rewrite S in S'. discriminate S'.
  - rewrite (replies_single t c b body S). unfold single_replies. split.
    + intro H. exists body. split; [exact S|]. destruct (classify body); try discriminate H. reflexivity.
    + intros (body' & S' & E). rewrite S in S'. inversion S'. subst body'. rewrite E. reflexivity.
Qed.

Lemma c01_duplicate_id body m :
  object_members body = Some m -> as_notification m <> None -> field_of k_id m = FDup -> classify body = Notif.
Proof.
  intros Hm Hn Hd. apply classify_notif_iff. exists m. split; [exact Hm|]. split; [exact Hn|]. rewrite Hd. exact I.
Qed.

Lemma c01_call_answered t c b body r :
  handlers_wf h -> panics_only_blocking reg h -> sniff t b = Some (true, body) -> classify body = Call r ->
  exists f p, replies t (handle reg h t c b) = [f] /\ is_response f (rq_id r) p /\
    (reg (rq_method r) = None -> p = PError method_not_found) /\
    (forall k, reg (rq_method r) = Some k -> served k t = false -> p = PError internal_err) /\
    (forall k, reg (rq_method r) = Some k -> served k t = true ->
       let too_big q := sc_max_response c < blen (mk_response (rq_id r) q) /\
                        p = PError (oversized_response_error (sc_max_response c)) in
       match h (rq_method r) (rq_params r) with
       | HOk raw => p = PResult raw \/ too_big (PResult raw)
       | HErr code msg d => p = PError (mk_err code msg d) \/ too_big (PError (mk_err code msg d))
       | HBadParams d => p = PError (invalid_params d) \/ too_big (PError (invalid_params d))
       | HPanic => p = PError internal_err
       end).
Proof.
  intros Hw _ S E. exists (mk_response (rq_id r) (call_payload t c r)), (call_payload t c r).
  split; [rewrite (replies_single t c b body S); unfold single_replies; rewrite E; reflexivity|].
  split; [apply mk_response_is_response; [apply (classify_call_wf _ _ E) | apply call_payload_ok, Hw]|].
  unfold call_payload. split; [intros ->; reflexivity|]. split.
  - intros k -> Hs. destruct k, t; try discriminate Hs; reflexivity.
  - intros k -> Hs. cbv zeta.
    destruct k, t; try discriminate Hs;
      destruct (h (rq_method r) (rq_params r)) as [raw|code msg d|d|];
      cbn [handler_payload hres_payload err_of]; try reflexivity; try (left; reflexivity);
      unfold bounded;
      match goal with |- context [?x <=? ?y] => destruct (N.leb_spec x y) as [Hle|Hgt] end;
      solve [left; reflexivity | right; (split; [exact Hgt | reflexivity])].
Qed.

Lemma c01_not_json t c b :
  sniff t b = None \/ (exists body, sniff t b = Some (true, body) /\ object_members body = None) ->
  replies t (handle reg h t c b) = [mk_response IdNull (PError parse_error)] /\ o_log (handle reg h t c b) = [].
Proof.
  intros [S | (body & S & Hm)]; [apply replies_unsniffable, S|].
  rewrite (replies_single t c b body S), (log_single t c b body S). unfold single_replies, classify. rewrite Hm.
  split; reflexivity.
Qed.

Lemma c01_not_json_lenient t c b :
  sniff t b = None \/ (exists body, sniff t b = Some (true, body) /\ lenient_json body = false) ->
  replies t (handle reg h t c b) = [mk_response IdNull (PError parse_error)] /\ o_log (handle reg h t c b) = [].
Proof.
  intros [S | (body & S & Hj)]; apply c01_not_json; [left; exact S | right].
  exists body. split; [exact S|]. destruct (object_members body) as [m|] eqn:E; [|reflexivity].
  rewrite (object_members_lenient_json body m E) in Hj. discriminate Hj.
Qed.

Lemma c01_not_request t c b body m :
  sniff t b = Some (true, body) -> object_members body = Some m -> as_request m = None -> as_notification m = None ->
  o_log (handle reg h t c b) = [] /\
  match as_invalid m with
  | Some i => replies t (handle reg h t c b) = [mk_response i (PError invalid_request)]
  | None => replies t (handle reg h t c b) = [mk_response IdNull (PError parse_error)]
  end.
Proof.
  intros S Hm Hr Hn. rewrite (replies_single t c b body S), (log_single t c b body S).
  unfold single_replies, classify. rewrite Hm, Hr, Hn. destruct (as_invalid m); split; reflexivity.
Qed.

Lemma call_ws_http c r :
  reg (rq_method r) <> Some KSub -> reg (rq_method r) <> Some KUnsub ->
  call_payload Ws c r = call_payload Http c r /\ c_log (call reg h Ws c r) = c_log (call reg h Http c r).
Proof.
  intros H1 H2. unfold call_payload, call. destruct (reg (rq_method r)) as [k|]; [|split; reflexivity].
  destruct k; try (split; reflexivity); exfalso; (apply H1; reflexivity) || (apply H2; reflexivity).
Qed.

Lemma c01_ws_http_agree c b :
  is_batch_msg Ws b = false ->
  (forall body r, sniff Ws b = Some (true, body) -> classify body = Call r ->
     reg (rq_method r) <> Some KSub /\ reg (rq_method r) <> Some KUnsub) ->
  replies Ws (handle reg h Ws c b) = replies Http (handle reg h Http c b) /\
  o_log (handle reg h Ws c b) = o_log (handle reg h Http c b).
Proof.
  intros Hb Hm. destruct (not_batch_cases Ws b Hb) as [S | [body S]].
  - pose proof S as S'. rewrite sniff_ws_http in S'.
    destruct (replies_unsniffable Ws c b S) as [-> ->]. destruct (replies_unsniffable Http c b S') as [-> ->].
    split; reflexivity.
  - pose proof S as S'. rewrite sniff_ws_http in S'.
    rewrite (replies_single Ws c b body S), (replies_single Http c b body S'),
      (log_single Ws c b body S), (log_single Http c b body S').
    unfold single_replies. destruct (classify body) as [r| |i|] eqn:E; try (split; reflexivity).
    destruct (Hm body r S E) as [H1 H2]. destruct (call_ws_http c r H1 H2) as [-> _].
    split; [reflexivity|]. destruct (reg (rq_method r)) as [k|]; [|reflexivity].
    destruct k; try reflexivity; exfalso; (apply H1; reflexivity) || (apply H2; reflexivity).
Qed.

Lemma c01_handler_log t c b :
  is_batch_msg t b = false ->
  forall m p,
    (o_log (handle reg h t c b) = [(m, p)] <->
     exists body r k, sniff t b = Some (true, body) /\ classify body = Call r /\
       rq_method r = m /\ rq_params r = p /\ reg m = Some k /\ runs_handler k t = true) /\
    (o_log (handle reg h t c b) = [] \/ exists m' p', o_log (handle reg h t c b) = [(m', p')]).
Proof.
  intros Hb m p. destruct (not_batch_cases t b Hb) as [S | [body S]].
  - destruct (replies_unsniffable t c b S) as [_ ->]. split; [|left; reflexivity]. split; [discriminate|].
    intros (body & r & k & S' & _). rewrite S in S'. discriminate S'.
  - rewrite (log_single t c b body S). destruct (classify body) as [r| |i|] eqn:E.
    + destruct (reg (rq_method r)) as [k|] eqn:Er; [destruct (runs_handler k t) eqn:Eh|].
      * split; [|right; eexists; eexists; reflexivity]. split.
        -- intro H. inversion H. subst m p. exists body, r, k. repeat split; assumption.
        -- intros (body' & r' & k' & S' & E' & <- & <- & _). rewrite S in S'. inversion S'. subst body'.
           rewrite E in E'. inversion E'. reflexivity.
      * split; [|left; reflexivity]. split; [discriminate|].
        intros (body' & r' & k' & S' & E' & Hm' & _ & Hr' & Hrun). rewrite S in S'. inversion S'. subst body'.
        rewrite E in E'. inversion E'. subst r'. rewrite Hm' in Er. rewrite Er in Hr'. inversion Hr'. subst k'.
        rewrite Eh in Hrun. discriminate Hrun.
      * split; [|left; reflexivity]. split; [discriminate|].
        intros (body' & r' & k' & S' & E' & Hm' & _ & Hr' & _). rewrite S in S'. inversion S'. subst body'.
        rewrite E in E'. inversion E'. subst r'. rewrite Hm' in Er. rewrite Er in Hr'. discriminate Hr'.
    + split; [|left; reflexivity]. split; [discriminate|].
      intros (body' & r' & k' & S' & E' & _). rewrite S in S'. inversion S'. subst body'. rewrite E in E'. discriminate E'.
    + split; [|left; reflexivity]. split; [discriminate|].
      intros (body' & r' & k' & S' & E' & _). rewrite S in S'. inversion S'. subst body'. rewrite E in E'. discriminate E'.
    + split; [|left; reflexivity]. split; [discriminate|].
      intros (body' & r' & k' & S' & E' & _). rewrite S in S'. inversion S'. subst body'. rewrite E in E'. discriminate E'.
Qed.

Lemma c01_connection_continues t c msgs :
  serve reg h t c true msgs = map (handle reg h t c) msgs.
Proof.
  induction msgs as [|b ms IH]; [reflexivity|]. cbn [serve map]. cbv zeta. unfold continues at 1. rewrite IH. reflexivity.
Qed.

(* ====================================================================== *)
(* batches                                                                *)
(* ====================================================================== *)

(* the response of one entry (None: a notification) *)
Definition entry_response (t : transport) (c : scfg) (e : bytes) : option bytes :=
  match entry_result reg h t c e with Some cr => Some (c_json cr) | None => None end.
Definition opt_list {A} (o : option A) : list A := match o with Some x => [x] | None => [] end.
(* one response per call-or-invalid entry, in entry order, none for notifications *)
Definition entry_responses (t : transport) (c : scfg) (es : list bytes) : list bytes :=
  flat_map (fun e => opt_list (entry_response t c e)) es.
Definition entry_directs (t : transport) (c : scfg) (es : list bytes) : list bytes :=
  flat_map (fun e => match entry_result reg h t c e with Some cr => c_direct cr | None => [] end) es.
Definition entry_logs (t : transport) (c : scfg) (es : list bytes) : log :=
  flat_map (fun e => match entry_result reg h t c e with Some cr => c_log cr | None => [] end) es.

(* exactly one response per entry that is a call or invalid, none per notification: a count, entry by entry *)
Definition answered (e : bytes) : bool := match classify_entry e with ENotif => false | _ => true end.
Lemma answered_false_iff e : answered e = false <-> classify_entry e = ENotif.
Proof. unfold answered. destruct (classify_entry e); split; intro H; try reflexivity; discriminate H. Qed.
Lemma entry_response_none_iff t c e : entry_response t c e = None <-> classify_entry e = ENotif.
Proof.
  unfold entry_response, entry_result. destruct (classify_entry e); split; intro H; try reflexivity; discriminate H.
Qed.
Lemma c02_response_count t c es :
  length (entry_responses t c es) = length (filter answered es) /\
  (forall es1 e es2, es = es1 ++ e :: es2 ->
     entry_responses t c es = entry_responses t c es1 ++ opt_list (entry_response t c e) ++ entry_responses t c es2).
Proof.
  split.
  - induction es as [|e es IH]; [reflexivity|]. unfold entry_responses in *. cbn [flat_map filter].
    rewrite app_length, IH. unfold answered, entry_response, entry_result.
    destruct (classify_entry e); reflexivity.
  - intros es1 e es2 ->. unfold entry_responses. rewrite flat_map_app. cbn [flat_map]. reflexivity.
Qed.

(* ---------- the interpreted gate lists, evaluated on the lists generated from the source NOW ----------
   `gate_reference` / `batch_tail` are the fixed readings the theorems of C02 are proved about; the two lemmas below
   evaluate the interpreters of Model/Server.v on Gen/BatchGateGen.{batch_gate, batch_epilogue}.  A regenerated list
   with another order, another comparison or another error object makes them (and with them every C02 theorem) fail. *)
Definition over_limit (b : batchcfg) (n : nat) : option N :=
  match b with
  | BLimit l => if l <? N.of_nat n then Some l else None
  | _ => None
  end.

Definition gate_reference (bc : batchcfg) (body : bytes) : gate_result :=
  match bc with
  | BDisabled => GReject batches_not_supported
  | _ =>
    match batch_elems body with
    | None => GReject parse_error
    | Some es =>
      match over_limit bc (length es) with
      | Some l => GReject (too_big_batch_request l)
      | None => GAdmit es
      end
    end
  end.

Lemma run_gate_now bc body : run_gate batch_gate bc body = gate_reference bc body.
Proof.
  unfold run_gate, batch_gate, gate_reference, over_limit.
  destruct bc as [|l|]; cbn [run_gate_from]; [reflexivity| |]; destruct (batch_elems body) as [es|]; try reflexivity.
  cbn [len_exceeds]. destruct (l <? N.of_nat (length es)); reflexivity.
Qed.

Definition epilogue_reference (buf : bytes) (got_notification : bool) : option epilogue_result :=
  if (Nat.leb (length buf) 1) && got_notification then Some FinSilent else Some (FinJson (finish buf)).

Lemma run_epilogue_now buf gn : run_epilogue batch_epilogue buf gn = epilogue_reference buf gn.
Proof.
  unfold batch_epilogue, epilogue_reference. cbn [run_epilogue].
  destruct ((Nat.leb (length buf) 1) && gn); [reflexivity|]. unfold finish.
  destruct buf as [|x [|y buf]]; reflexivity.
Qed.

(* everything after the two gates *)
Definition batch_tail (t : transport) (c : scfg) (es : list bytes) : mresp :=
  let '(buf, overflow, direct, lg) := run_entries reg h t c batch_new es in
  if overflow then
    {| m_json := too_big_batch (sc_max_response c); m_kind := RkCall; m_direct := direct; m_log := lg |}
  else if (Nat.leb (length buf) 1) && existsb is_notification_entry es then
    {| m_json := null_text; m_kind := RkNotif; m_direct := direct; m_log := lg |}
  else
    {| m_json := finish buf; m_kind := RkBatch; m_direct := direct; m_log := lg |}.

(* rpc_batch for the lists the source has now: the nested match the model used to spell out *)
Lemma rpc_batch_unfold t c body :
  rpc_batch reg h t c body =
  match sc_batch c with
  | BDisabled => plain (error_response IdNull batches_not_supported)
  | bc =>
    match batch_elems body with
    | None => plain (error_response IdNull parse_error)
    | Some es =>
      match over_limit bc (length es) with
      | Some l => plain (error_response IdNull (too_big_batch_request l))
      | None => batch_tail t c es
      end
    end
  end.
Proof.
  unfold rpc_batch. rewrite run_gate_now. unfold gate_reference.
  assert (T : forall es,
    (let '(buf, overflow, direct, lg) := run_entries reg h t c batch_new es in
     if overflow then
       {| m_json := too_big_batch (sc_max_response c); m_kind := RkCall; m_direct := direct; m_log := lg |}
     else
       match run_epilogue batch_epilogue buf (existsb is_notification_entry es) with
       | Some FinSilent => {| m_json := null_text; m_kind := RkNotif; m_direct := direct; m_log := lg |}
       | Some (FinJson j) => {| m_json := j; m_kind := RkBatch; m_direct := direct; m_log := lg |}
       | None => stuck_resp
       end) = batch_tail t c es).
  { intro es. unfold batch_tail. destruct (run_entries reg h t c batch_new es) as [[[buf o] d] l].
    destruct o; [reflexivity|]. rewrite run_epilogue_now. unfold epilogue_reference.
    destruct ((Nat.leb (length buf) 1) && existsb is_notification_entry es); reflexivity. }
  destruct (sc_batch c) as [|l|]; [reflexivity| |]; destruct (batch_elems body) as [es|]; try reflexivity.
  - destruct (over_limit (BLimit l) (length es)); [reflexivity | apply T].
  - cbn [over_limit]. apply T.
Qed.

Lemma rpc_batch_enabled t c body :
  sc_batch c <> BDisabled ->
  rpc_batch reg h t c body =
  match batch_elems body with
  | None => plain (error_response IdNull parse_error)
  | Some es =>
    match over_limit (sc_batch c) (length es) with
    | Some l => plain (error_response IdNull (too_big_batch_request l))
    | None => batch_tail t c es
    end
  end.
Proof. intro H. rewrite rpc_batch_unfold. destruct (sc_batch c); [congruence | reflexivity | reflexivity]. Qed.

Lemma alen_snoc_le done r rest : alen (done ++ [r]) <= alen (done ++ r :: rest).
Proof. rewrite !alen_app. cbn [alen]. lia. Qed.

Lemma run_entries_fits t c : forall es done,
  1 + alen (done ++ entry_responses t c es) <= sc_max_response c ->
  run_entries reg h t c (buf_of done) es =
  (buf_of (done ++ entry_responses t c es), false, entry_directs t c es, entry_logs t c es).
Proof.
  induction es as [|e es IH]; intros done Hfit.
  - cbn. rewrite app_nil_r. reflexivity.
  - cbn [run_entries entry_responses entry_directs entry_logs flat_map]. unfold entry_response at 1.
    unfold entry_responses in Hfit. cbn [flat_map] in Hfit. unfold entry_response at 1 in Hfit.
    destruct (entry_result reg h t c e) as [cr|]; cbn [opt_list app] in *.
    + rewrite append_spec.
      pose proof (alen_snoc_le done (c_json cr) (flat_map (fun e0 => opt_list (entry_response t c e0)) es)) as L.
      destruct (N.leb_spec (1 + alen (done ++ [c_json cr])) (sc_max_response c)) as [Hle|Hgt]; [|lia].
      fold (entry_responses t c es) in *.
      rewrite (IH (done ++ [c_json cr])) by (rewrite <- app_assoc; exact Hfit).
      rewrite <- app_assoc. reflexivity.
    + fold (entry_responses t c es) in *. apply IH, Hfit.
Qed.

Definition re_overflow (x : bytes * bool * list bytes * log) : bool := snd (fst (fst x)).
Definition re_direct (x : bytes * bool * list bytes * log) : list bytes := snd (fst x).
Definition re_log (x : bytes * bool * list bytes * log) : log := snd x.

Lemma run_entries_overflow t c : forall es done,
  sc_max_response c < 1 + alen (done ++ entry_responses t c es) -> entry_responses t c es <> [] ->
  re_overflow (run_entries reg h t c (buf_of done) es) = true.
Proof.
  induction es as [|e es IH]; intros done Hbig Hne; [exfalso; apply Hne; reflexivity|].
  cbn [run_entries]. unfold entry_responses in Hbig, Hne. cbn [flat_map] in Hbig, Hne.
  unfold entry_response at 1 in Hbig. unfold entry_response at 1 in Hne.
  destruct (entry_result reg h t c e) as [cr|]; cbn [opt_list app] in *.
  - rewrite append_spec.
    destruct (N.leb_spec (1 + alen (done ++ [c_json cr])) (sc_max_response c)) as [Hle|Hgt]; [|reflexivity].
    fold (entry_responses t c es) in *.
    assert (Hne' : entry_responses t c es <> []).
    { intro E. rewrite E in Hbig. lia. }
    specialize (IH (done ++ [c_json cr])). rewrite <- app_assoc in IH. specialize (IH Hbig Hne').
    destruct (run_entries reg h t c (buf_of (done ++ [c_json cr])) es) as [[[b o] d] l]. exact IH.
  - fold (entry_responses t c es) in *. apply IH; assumption.
Qed.

Lemma entry_responses_nil t c es :
  entry_responses t c es = [] -> forall e, In e es -> entry_result reg h t c e = None.
Proof.
  induction es as [|e0 es IH]; intros H e He; [destruct He|].
  unfold entry_responses in H. cbn [flat_map] in H. apply app_eq_nil in H as [H1 H2].
  destruct He as [<- | He]; [|apply IH; assumption].
  unfold entry_response in H1. destruct (entry_result reg h t c e0); [discriminate H1 | reflexivity].
Qed.

Lemma run_entries_all_none t c : forall es buf,
  (forall e, In e es -> entry_result reg h t c e = None) -> run_entries reg h t c buf es = (buf, false, [], []).
Proof.
  induction es as [|e es IH]; intros buf H; [reflexivity|]. cbn [run_entries].
  rewrite (H e (or_introl eq_refl)). apply IH. intros e' He'. apply H. right. exact He'.
Qed.

Lemma entry_none_is_notification t c e : entry_result reg h t c e = None -> is_notification_entry e = true.
Proof. unfold entry_result, is_notification_entry. destruct (classify_entry e); try discriminate. reflexivity. Qed.

Lemma buf_of_length_ge2 rs : rs <> [] -> Nat.leb (length (buf_of rs)) 1 = false.
Proof.
  destruct rs as [|r rs]; [congruence|]. intros _. apply Nat.leb_gt.
  unfold buf_of. cbn [map concat length]. rewrite !app_length. cbn [length]. lia.
Qed.

(* the batch reply after the gates, by cases on the responses of the entries *)
Lemma batch_tail_spec t c es :
  let rs := entry_responses t c es in
  let max := sc_max_response c in
  (es = [] -> batch_tail t c es =
     {| m_json := error_response IdNull invalid_request; m_kind := RkBatch; m_direct := []; m_log := [] |}) /\
  (es <> [] -> rs = [] -> batch_tail t c es = {| m_json := null_text; m_kind := RkNotif; m_direct := []; m_log := [] |}) /\
  (rs <> [] -> blen (array_of rs) <= max -> batch_tail t c es =
     {| m_json := array_of rs; m_kind := RkBatch; m_direct := entry_directs t c es; m_log := entry_logs t c es |}) /\
  (rs <> [] -> max < blen (array_of rs) ->
     m_json (batch_tail t c es) = too_big_batch max /\ m_kind (batch_tail t c es) = RkCall).
Proof.
  cbv zeta. repeat split.
  - intros ->. reflexivity.
  - intros Hne Hrs. unfold batch_tail.
    rewrite (run_entries_all_none t c es batch_new (entry_responses_nil t c es Hrs)).
    assert (Ex : existsb is_notification_entry es = true).
    { destruct es as [|e es]; [congruence|]. cbn [existsb].
      rewrite (entry_none_is_notification t c e); [reflexivity|].
      apply (entry_responses_nil t c _ Hrs). left. reflexivity. }
    rewrite Ex. reflexivity.
  - intros Hne Hfit. unfold batch_tail. change batch_new with (buf_of []).
    rewrite (blen_array_of _ Hne) in Hfit.
    rewrite run_entries_fits by (cbn [app]; exact Hfit). cbn [app].
    rewrite (buf_of_length_ge2 _ Hne). cbn [andb]. rewrite (finish_buf_of _ Hne). reflexivity.
  - unfold batch_tail. change batch_new with (buf_of []).
    rewrite (blen_array_of _ H) in H0.
    pose proof (run_entries_overflow t c es [] H0 H) as O.
    destruct (run_entries reg h t c (buf_of []) es) as [[[b o] d] l]. unfold re_overflow in O. cbn [fst snd] in O.
    subst o. reflexivity.
  - unfold batch_tail. change batch_new with (buf_of []).
    rewrite (blen_array_of _ H) in H0.
    pose proof (run_entries_overflow t c es [] H0 H) as O.
    destruct (run_entries reg h t c (buf_of []) es) as [[[b o] d] l]. unfold re_overflow in O. cbn [fst snd] in O.
    subst o. reflexivity.
Qed.

(* ====================================================================== *)
(* C02                                                                    *)
(* ====================================================================== *)

(* frames and log of a message sniffed as a batch, in terms of what handle_rpc_call returns *)
Definition ws_own (r : mresp) : list bytes := match m_kind r with RkCall | RkBatch => [m_json r] | _ => [] end.

Lemma handle_batch t c b body :
  sniff t b = Some (false, body) ->
  let r := rpc_batch reg h t c body in
  o_log (handle reg h t c b) = m_log r /\
  o_frames (handle reg h t c b) = match t with Ws => m_direct r ++ ws_own r | Http => [m_json r] end.
Proof. intro S. unfold handle. rewrite S. unfold handle_rpc_call. destruct t; split; reflexivity. Qed.

Lemma frames_plain t c b body json :
  sniff t b = Some (false, body) -> rpc_batch reg h t c body = plain json ->
  o_frames (handle reg h t c b) = [json] /\ o_log (handle reg h t c b) = [].
Proof.
  intros S E. destruct (handle_batch t c b body S) as [L F]. rewrite L, F, E. destruct t; split; reflexivity.
Qed.

(* the three gates + the unparseable array: one error object with id null, nothing executed *)
Lemma c02_gate t c b body :
  sniff t b = Some (false, body) ->
  (sc_batch c = BDisabled ->
     o_frames (handle reg h t c b) = [mk_response IdNull (PError batches_not_supported)] /\ o_log (handle reg h t c b) = []) /\
  (forall n es, sc_batch c = BLimit n -> batch_elems body = Some es -> n < N.of_nat (length es) ->
     o_frames (handle reg h t c b) = [mk_response IdNull (PError (too_big_batch_request n))] /\ o_log (handle reg h t c b) = []) /\
  (sc_batch c <> BDisabled -> batch_elems body = Some [] ->
     o_frames (handle reg h t c b) = [mk_response IdNull (PError invalid_request)] /\ o_log (handle reg h t c b) = []) /\
  (sc_batch c <> BDisabled -> batch_elems body = None ->
     o_frames (handle reg h t c b) = [mk_response IdNull (PError parse_error)] /\ o_log (handle reg h t c b) = []).
Proof.
  intro S. repeat split.
  - eapply frames_plain; [exact S|]. rewrite rpc_batch_unfold, H. reflexivity.
  - eapply frames_plain; [exact S|]. rewrite rpc_batch_unfold, H. reflexivity.
  - eapply frames_plain; [exact S|]. rewrite rpc_batch_enabled by (rewrite H; discriminate).
    rewrite H0, H. unfold over_limit. destruct (N.ltb_spec n (N.of_nat (length es))); [reflexivity | lia].
  - eapply frames_plain; [exact S|]. rewrite rpc_batch_enabled by (rewrite H; discriminate).
    rewrite H0, H. unfold over_limit. destruct (N.ltb_spec n (N.of_nat (length es))); [reflexivity | lia].
  - destruct (handle_batch t c b body S) as [L F]. rewrite F, rpc_batch_enabled, H0 by exact H.
    assert (O : over_limit (sc_batch c) (length (@nil bytes)) = None).
    { unfold over_limit. destruct (sc_batch c) as [|l|]; try reflexivity. cbn [length]. destruct (N.ltb_spec l (N.of_nat 0)); [lia | reflexivity]. }
    rewrite O. destruct t; reflexivity.
  - destruct (handle_batch t c b body S) as [L F]. rewrite L, rpc_batch_enabled, H0 by exact H.
    assert (O : over_limit (sc_batch c) (length (@nil bytes)) = None).
    { unfold over_limit. destruct (sc_batch c) as [|l|]; try reflexivity. cbn [length]. destruct (N.ltb_spec l (N.of_nat 0)); [lia | reflexivity]. }
    rewrite O. reflexivity.
  - eapply frames_plain; [exact S|]. rewrite rpc_batch_enabled, H0 by exact H. reflexivity.
  - eapply frames_plain; [exact S|]. rewrite rpc_batch_enabled, H0 by exact H. reflexivity.
Qed.

(* a batch that passed the gates *)
Definition admitted (c : scfg) (body : bytes) (es : list bytes) : Prop :=
  sc_batch c <> BDisabled /\ batch_elems body = Some es /\ es <> [] /\ over_limit (sc_batch c) (length es) = None.

Lemma rpc_batch_admitted t c body es : admitted c body es -> rpc_batch reg h t c body = batch_tail t c es.
Proof. intros (H1 & H2 & _ & H4). rewrite rpc_batch_enabled, H2, H4 by exact H1. reflexivity. Qed.

Lemma c02_array_shape t c b body es :
  sniff t b = Some (false, body) -> admitted c body es ->
  let rs := entry_responses t c es in
  (rs = [] -> replies t (handle reg h t c b) = [] /\
              (t = Http -> o_status (handle reg h t c b) = Some 200 /\ o_frames (handle reg h t c b) = [null_text])) /\
  (rs <> [] -> blen (array_of rs) <= sc_max_response c ->
     o_frames (handle reg h t c b) = entry_directs t c es ++ [array_of rs] /\
     o_log (handle reg h t c b) = entry_logs t c es).
Proof.
  intros S A. cbv zeta. destruct (handle_batch t c b body S) as [L F].
  destruct (batch_tail_spec t c es) as (_ & T2 & T3 & _). pose proof A as (_ & _ & Hne & _). split.
  - intro Hrs. unfold replies. rewrite F, (rpc_batch_admitted t c body es A), (T2 Hne Hrs).
    destruct t; cbn [m_direct ws_own m_kind m_json app filter]; (split; [reflexivity|]); intro Ht; try discriminate Ht.
    split; [|reflexivity]. unfold handle. rewrite S. reflexivity.
  - intros Hrs Hfit. rewrite L, F, (rpc_batch_admitted t c body es A), (T3 Hrs Hfit).
    cbn [m_direct ws_own m_kind m_json m_log]. split; [|reflexivity].
    destruct t; [|reflexivity].
    (* HTTP: no direct writes *)
    assert (D : entry_directs Http c es = []).
    { unfold entry_directs. clear. induction es as [|e es IH]; [reflexivity|]. cbn [flat_map]. rewrite IH, app_nil_r.
      unfold entry_result. destruct (classify_entry e) as [r| |i]; try reflexivity. apply call_http_kind. }
    rewrite D. reflexivity.
Qed.

Lemma c02_only_size_limit t c b body es :
  sniff t b = Some (false, body) -> admitted c body es ->
  let rs := entry_responses t c es in
  rs <> [] ->
  let own := m_json (rpc_batch reg h t c body) in
  In own (o_frames (handle reg h t c b)) /\
  ((own = array_of rs /\ blen (array_of rs) <= sc_max_response c) \/
   (own = too_big_batch (sc_max_response c) /\ sc_max_response c < blen (array_of rs))).
Proof.
  intros S A. cbv zeta. intro Hrs. destruct (handle_batch t c b body S) as [_ F].
  destruct (batch_tail_spec t c es) as (_ & _ & T3 & T4).
  rewrite F, (rpc_batch_admitted t c body es A).
  destruct (N.leb_spec (blen (array_of (entry_responses t c es))) (sc_max_response c)) as [Hle|Hgt].
  - rewrite (T3 Hrs Hle). cbn [m_json m_direct ws_own m_kind]. split; [|left; split; [reflexivity | exact Hle]].
    destruct t; [left; reflexivity | apply in_or_app; right; left; reflexivity].
  - destruct (T4 Hrs Hgt) as [J K]. split; [|right; split; [exact J | exact Hgt]].
    destruct t; [left; reflexivity|]. apply in_or_app. right. unfold ws_own. rewrite K. left. reflexivity.
Qed.

(* classification of entries: an object text is classified exactly as a single message is; anything else is invalid *)
Lemma c02_entries_classified e :
  (is_object_text e = true -> classify_entry e = entry_of_class (classify e)) /\
  (is_object_text e = false -> classify_entry e = EInvalid IdNull).
Proof. unfold classify_entry. destruct (is_object_text e); split; intro H; try discriminate H; reflexivity. Qed.

Lemma c02_entry_equals_single t c e :
  is_object_text e = true ->
  (forall r, classify e = Call r ->
     entry_response t c e = Some (mk_response (rq_id r) (call_payload t c r)) /\
     replies t (handle reg h t c e) = [mk_response (rq_id r) (call_payload t c r)]) /\
  (forall i, classify e = Invalid i ->
     entry_response t c e = Some (mk_response i (PError invalid_request)) /\
     replies t (handle reg h t c e) = [mk_response i (PError invalid_request)]) /\
  (classify e = Notif -> entry_response t c e = None /\ replies t (handle reg h t c e) = []).
Proof.
  intro Ho. pose proof (sniff_object_text t e Ho) as S.
  unfold entry_response, entry_result, classify_entry. rewrite Ho, (replies_single t c e e S). unfold single_replies.
  repeat split; intros; rewrite H; cbn [entry_of_class c_json]; try reflexivity. rewrite call_json. reflexivity.
Qed.

(* direct writes of a batch only come from calls to subscription methods over WebSocket *)
Lemma entry_direct_nil t c es e :
  ~ KnownClass_C02_sub reg t es -> In e es ->
  match entry_result reg h t c e with Some cr => c_direct cr = [] | None => True end.
Proof.
  intros Hk He. unfold entry_result, classify_entry. destruct (is_object_text e) eqn:Ho; [|reflexivity].
  destruct (classify e) as [r| |i|] eqn:E; cbn [entry_of_class]; try reflexivity; try exact I.
  apply call_direct_nil. intros [Ht Hr]. apply Hk. split; [exact Ht|]. exists e, r. repeat split; assumption.
Qed.

Lemma run_entries_direct_nil t c : forall es buf,
  (forall e, In e es -> match entry_result reg h t c e with Some cr => c_direct cr = [] | None => True end) ->
  re_direct (run_entries reg h t c buf es) = [].
Proof.
  induction es as [|e es IH]; intros buf H; [reflexivity|]. cbn [run_entries].
  pose proof (H e (or_introl eq_refl)) as He.
  assert (H' : forall e', In e' es -> match entry_result reg h t c e' with Some cr => c_direct cr = [] | None => True end).
  { intros e' He'. apply H. right. exact He'. }
  destruct (entry_result reg h t c e) as [cr|]; [|apply IH, H'].
  destruct (append buf (sc_max_response c) (c_json cr)) as [buf'|]; [|exact He].
  specialize (IH buf' H'). destruct (run_entries reg h t c buf' es) as [[[b0 o] d] l].
  unfold re_direct in *. cbn [fst snd] in *. rewrite He, IH. reflexivity.
Qed.

Lemma batch_tail_direct t c es : m_direct (batch_tail t c es) = re_direct (run_entries reg h t c batch_new es).
Proof.
  unfold batch_tail. destruct (run_entries reg h t c batch_new es) as [[[b0 o] d] l].
  destruct o; [reflexivity|]. destruct (_ && _); reflexivity.
Qed.

Lemma c02_nothing_outside t c b body :
  sniff t b = Some (false, body) ->
  (forall es, batch_elems body = Some es -> ~ KnownClass_C02_sub reg t es) ->
  (length (o_frames (handle reg h t c b)) <= 1)%nat /\
  o_frames (handle reg h t c b) = match t with Ws => ws_own (rpc_batch reg h t c body) | Http => [m_json (rpc_batch reg h t c body)] end.
Proof.
  intros S Hk. destruct (handle_batch t c b body S) as [_ F]. rewrite F.
  destruct t; [split; [cbn [length]; lia | reflexivity]|].
  assert (D : m_direct (rpc_batch reg h Ws c body) = []).
  { rewrite rpc_batch_unfold. destruct (sc_batch c) eqn:Eb; [reflexivity| |];
      (destruct (batch_elems body) as [es|] eqn:Ee; [|reflexivity]);
      (destruct (over_limit _ (length es)); [reflexivity|]);
      rewrite batch_tail_direct; apply run_entries_direct_nil;
      intros e He; apply (entry_direct_nil Ws c es e (Hk es eq_refl) He). }
  rewrite D. cbn [app]. split; [|reflexivity]. unfold ws_own. destruct (m_kind _); cbn [length]; lia.
Qed.


(* ---------- the array reply reads back as exactly its responses ---------- *)
(* Wire.v's array reader on an assembled array: Proofs/WireFacts.v array_elems_ser (array_of = ser_array) *)
Lemma array_of_elems rs : rs <> [] -> Forall span_ok rs -> array_elems (array_of rs) = Some rs.
Proof. exact (array_elems_ser rs). Qed.

Lemma mk_response_span_ok i p : wf_id i -> payload_ok p -> span_ok (mk_response i p).
Proof.
  intros Wi Wp. rewrite mk_response_eq. apply span_ok_object.
  constructor; [split; [reflexivity | apply span_ok_two]|].
  constructor; [split; [reflexivity | apply span_ok_id, Wi]|].
  constructor; [apply payload_member_ok, Wp | constructor].
Qed.

(* every response of an entry is a response object with a well-formed id and payload *)
Lemma entry_response_shape t c e f :
  handlers_wf h -> entry_response t c e = Some f -> exists i p, f = mk_response i p /\ wf_id i /\ payload_ok p.
Proof.
  intros Hw. unfold entry_response, entry_result, classify_entry.
  destruct (is_object_text e).
  - destruct (classify e) as [r| |i|] eqn:E; cbn [entry_of_class]; intro H; try discriminate H; inv_some H.
    + exists (rq_id r), (call_payload t c r). rewrite call_json.
      split; [reflexivity|]. split; [apply (classify_call_wf _ _ E) | apply call_payload_ok, Hw].
    + exists i, (PError invalid_request). split; [reflexivity|]. split; [apply (classify_invalid_wf _ _ E) | apply invalid_request_ok].
    + exists IdNull, (PError invalid_request). split; [reflexivity|]. split; [exact I | apply invalid_request_ok].
  - intro H. inv_some H. exists IdNull, (PError invalid_request). split; [reflexivity|]. split; [exact I | apply invalid_request_ok].
Qed.

Lemma entry_responses_in t c es f :
  In f (entry_responses t c es) -> exists e, In e es /\ entry_response t c e = Some f.
Proof.
  unfold entry_responses. intro H. apply in_flat_map in H as (e & He & Hf). exists e. split; [exact He|].
  destruct (entry_response t c e) as [f'|]; cbn [opt_list] in Hf; [|destruct Hf].
  destruct Hf as [<- | []]. reflexivity.
Qed.

(* the array of a batch reads back (with the model's own array reader) as exactly the entries' responses, each of
   which is a well-formed response object *)
Lemma c02_array_reads_back t c es :
  handlers_wf h -> panics_only_blocking reg h ->
  let rs := entry_responses t c es in
  rs <> [] -> array_elems (array_of rs) = Some rs /\ Forall wellformed_response rs.
Proof.
  intros Hw _. cbv zeta. intro Hne.
  assert (HS : forall f, In f (entry_responses t c es) -> exists i p, f = mk_response i p /\ wf_id i /\ payload_ok p).
  { intros f Hf. destruct (entry_responses_in t c es f Hf) as (e & _ & He). apply (entry_response_shape t c e f Hw He). }
  split.
  - apply array_of_elems; [exact Hne|]. apply Forall_forall. intros f Hf.
    destruct (HS f Hf) as (i & p & -> & Wi & Wp). apply mk_response_span_ok; assumption.
  - apply Forall_forall. intros f Hf. destruct (HS f Hf) as (i & p & -> & Wi & Wp).
    apply (is_response_wellformed _ i p Wi Wp). apply mk_response_is_response; assumption.
Qed.

End Facts.

(* ---------- C02_gate_order: the order-sensitive facts about the generated lists ----------
   Stated on the interpreters applied to Gen/BatchGateGen.{batch_gate, batch_epilogue} themselves:
   (1) a server with batching disabled answers its fixed error whatever the body is -- nothing has been parsed when
       that is decided (with the parse first, an unparseable body would get the parse error instead);
   (2) with batching enabled an unparseable array gets the parse error;
   (3) a limit n is exceeded exactly by more than n entries (`len > n`), and the batch is then REJECTED: no entry is
       admitted, so no entry is classified or executed (the length check precedes every entry processing);
   (4) everything else is admitted with exactly the entries of the array -- `[]` included: the prologue has no
       check for the empty array;
   (5) after the loop: only notifications (nothing appended, at least one notification) -> no reply, decided before the
       builder is finished; nothing appended otherwise (the empty array) -> BatchResponseBuilder::finish's error;
       else the closed array. *)
Lemma c02_gate_order :
  forall bc body,
    (bc = BDisabled -> run_gate batch_gate bc body = GReject batches_not_supported) /\
    (bc <> BDisabled -> batch_elems body = None -> run_gate batch_gate bc body = GReject parse_error) /\
    (forall n es, bc = BLimit n -> batch_elems body = Some es -> n < N.of_nat (length es) ->
       run_gate batch_gate bc body = GReject (too_big_batch_request n)) /\
    (forall es, bc <> BDisabled -> batch_elems body = Some es -> (forall n, bc = BLimit n -> N.of_nat (length es) <= n) ->
       run_gate batch_gate bc body = GAdmit es) /\
    (forall buf got_notification,
       run_epilogue batch_epilogue buf got_notification =
       if (Nat.leb (length buf) 1) && got_notification then Some FinSilent
       else Some (FinJson (match buf with [_] => mk_response IdNull (PError invalid_request) | _ => removelast buf ++ [x5d] end))).
Proof.
  intros bc body. rewrite run_gate_now. unfold gate_reference, over_limit. repeat split.
  - intros ->. reflexivity.
  - intros Hb He. rewrite He. destruct bc; [congruence | reflexivity | reflexivity].
  - intros n es -> He Hn. rewrite He. destruct (N.ltb_spec n (N.of_nat (length es))); [reflexivity | lia].
  - intros es Hb He Hl. rewrite He. destruct bc as [|l|]; [congruence | | reflexivity].
    specialize (Hl l eq_refl). destruct (N.ltb_spec l (N.of_nat (length es))); [lia | reflexivity].
  - intros buf gn. rewrite run_epilogue_now. unfold epilogue_reference, finish. reflexivity.
Qed.

(* ====================================================================== *)
(* witnesses                                                              *)
(* ====================================================================== *)

Definition ex_reg (m : bytes) : option mkind :=
  if bytes_eqb m b#"sub" then Some KSub else if bytes_eqb m b#"boom" then Some KBlocking else if bytes_eqb m b#"echo" then Some KSync else None.
Definition ex_h (m : bytes) (p : option bytes) : hres :=
  if bytes_eqb m b#"sub" then HOk b#"7" else if bytes_eqb m b#"boom" then HPanic else HOk (match p with Some x => x | None => b#"null" end).
Definition ex_cfg : scfg := {| sc_max_response := 10485760; sc_batch := BUnlimited |}.

Definition ex_sub_call : bytes := b#"{""jsonrpc"":""2.0"",""id"":1,""method"":""sub""}".
Definition ex_sub_batch : bytes := b#"[{""jsonrpc"":""2.0"",""id"":1,""method"":""sub""}]".
Definition ex_sub_resp : bytes := b#"{""jsonrpc"":""2.0"",""id"":1,""result"":7}".

(* KNOWN FINDING ws-batch-entry-calls-subscription-method: the response to the subscribe call is written to the
   connection by accept() and appended to the array as well *)
Lemma c02_sub_refuted :
  exists reg h c b body es,
    sniff Ws b = Some (false, body) /\ batch_elems body = Some es /\ KnownClass_C02_sub reg Ws es /\
    o_frames (handle reg h Ws c b) = [ex_sub_resp; array_of [ex_sub_resp]].
Proof.
  exists ex_reg, ex_h, ex_cfg, ex_sub_batch, ex_sub_batch, [ex_sub_call].
  split; [vm_compute; reflexivity|]. split; [vm_compute; reflexivity|]. split; [|vm_compute; reflexivity].
  split; [reflexivity|]. exists ex_sub_call, {| rq_id := IdNum 1; rq_method := b#"sub"; rq_params := None |}.
  split; [left; reflexivity|]. split; vm_compute; reflexivity.
Qed.

(* HISTORY (repaired by "fix: only JSON objects are read as batch entries"): the unguarded loop read an ARRAY entry
   through the sequence form of the derived struct visitors and ran the call *)
Lemma c02_seq_refuted_old :
  exists e r, is_object_text e = false /\ classify_entry_old e = ECall r /\ rq_method r = b#"echo" /\
              KnownClass_C02_seq [e] /\ classify_entry e = EInvalid IdNull.
Proof.
  exists b#"[""2.0"",5,""echo"",[1]]", {| rq_id := IdNum 5; rq_method := b#"echo"; rq_params := Some b#"[1]" |}.
  split; [reflexivity|]. split; [vm_compute; reflexivity|]. split; [reflexivity|]. split; [|vm_compute; reflexivity].
  exists b#"[""2.0"",5,""echo"",[1]]". split; [left; reflexivity|]. split; [reflexivity|]. vm_compute. discriminate.
Qed.
