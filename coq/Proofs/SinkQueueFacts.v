(* Facts about the bounded sink queue (Model/SinkQueue.v), for ALL histories: induction over the list of operations
   from any state that satisfies the invariant; `init c` satisfies it.
   The invariant ties the model's `held` (messages handed back) to the handler's own book-keeping `g` (slot -> the
   payload it produced for that message), which is computed from the trace alone (SinkQueue.gstep):
       a held message is  Complete (item x)               -- came back out of the channel layer, already wrapped
                     or   NeedsData (payload x)           -- came back from the is_closed() check, only once closed
   and in both cases sub_message_to_json turns it into `item x`, the notification of payload x, exactly once. *)
From JV Require Import Base.Bytes Base.Dec Base.Utf8 Json.Json Json.JsonSer Json.JsonWf Model.Wire Model.SinkQueue.
From JV Require Import Proofs.WireFacts.
Local Arguments N.eqb : simpl never.
Local Arguments ser_sub_notif : simpl never.
Local Arguments print_N : simpl never.

(* ---------- association lists ---------- *)
Lemma afind_in_snd {A} k (l : list (N * A)) v : afind k l = Some v -> In v (map snd l).
Proof.
  induction l as [|[k' v'] t IH]; cbn; [discriminate|].
  destruct (N.eqb k k'); intro H; [inversion H; auto | right; auto].
Qed.

Lemma aremove_in_snd {A} k (l : list (N * A)) v : In v (map snd (aremove k l)) -> In v (map snd l).
Proof.
  induction l as [|[k' v'] t IH]; cbn; [tauto|].
  destruct (N.eqb k k'); cbn; intuition.
Qed.

Lemma aremove_in {A} k (l : list (N * A)) e : In e (aremove k l) -> In e l.
Proof.
  induction l as [|[k' v'] t IH]; cbn; [tauto|].
  destruct (N.eqb k k'); cbn; intuition.
Qed.

Lemma aput_in_snd {A} k (x : A) l v : In v (map snd (aput k x l)) -> v = x \/ In v (map snd l).
Proof. cbn. intros [H | H]; [left; auto | right; eapply aremove_in_snd; eauto]. Qed.

Lemma Forall2_in_l {A B} (R : A -> B -> Prop) l1 l2 a : Forall2 R l1 l2 -> In a l1 -> exists b, In b l2 /\ R a b.
Proof.
  induction 1 as [|x y l1 l2 HR HF IH]; cbn; [tauto|].
  intros [-> | Hin]; [exists y; auto|].
  destruct (IH Hin) as [b [Hb HRb]]. exists b; auto.
Qed.

Section Facts.
Variables (sid : subid) (me : bytes).

Notation item := (SinkQueue.item sid me).
Notation to_json := (SinkQueue.to_json sid me).
Notation step := (SinkQueue.step sid me).
Notation run := (SinkQueue.run sid me).

(* ---------- the wrapper is applied exactly once ---------- *)
Lemma to_json_complete m : to_json (Complete (to_json m)) = to_json m.
Proof. reflexivity. Qed.

Definition hrel (c : bool) (m : smsg) (x : N) : Prop :=
  m = Complete (item x) \/ (c = true /\ m = NeedsData (payload x)).

Lemma hrel_to_json c m x : hrel c m x -> to_json m = item x.
Proof. intros [-> | [_ ->]]; reflexivity. Qed.

Lemma hrel_mono c c' m x : (c = true -> c' = true) -> hrel c m x -> hrel c' m x.
Proof. intros Hc [H | [H1 H2]]; [left; auto | right; auto]. Qed.

Definition erel (c : bool) (a : N * smsg) (b : N * N) : Prop := fst a = fst b /\ hrel c (snd a) (snd b).
Definition arel (c : bool) (h : list (N * smsg)) (g : list (N * N)) : Prop := Forall2 (erel c) h g.

Lemma arel_mono c c' h g : (c = true -> c' = true) -> arel c h g -> arel c' h g.
Proof.
  intros Hc H. induction H as [|a b h g [Hk Hr] HF IH]; constructor; auto.
  split; auto. eapply hrel_mono; eauto.
Qed.

Lemma arel_remove c k h g : arel c h g -> arel c (aremove k h) (aremove k g).
Proof.
  induction 1 as [|[k1 m] [k2 x] h g [Hk Hr] HF IH]; cbn; [constructor|].
  cbn in Hk; subst k2. destruct (N.eqb k k1); auto. constructor; auto. split; auto.
Qed.

Lemma arel_put c k m x h g : hrel c m x -> arel c h g -> arel c (aput k m h) (aput k x g).
Proof.
  intros Hr H. constructor; [split; auto|]. apply arel_remove; auto.
Qed.

Lemma arel_find c k h g : arel c h g ->
  match afind k h, afind k g with
  | Some m, Some x => hrel c m x
  | None, None => True
  | _, _ => False
  end.
Proof.
  induction 1 as [|[k1 m] [k2 x] h g [Hk Hr] HF IH]; cbn; auto.
  cbn in Hk; subst k2. destruct (N.eqb k k1); auto.
Qed.

(* ---------- one operation ---------- *)
Definition step_post (s : sq) (g : list (N * N)) (o : op) : Prop :=
  let sr := step s o in
  let gl := gstep g o (snd sr) in
  arel (closed (fst sr)) (held (fst sr)) (fst gl)
  /\ out_frames (snd sr) ++ q (fst sr) = q s ++ map item (snd gl)
  /\ cap (fst sr) = cap s
  /\ (closed s = true -> closed (fst sr) = true)
  /\ (length (q s) <= cap s -> length (q (fst sr)) <= cap s).

Lemma room_length s j : room s = true -> length (q s ++ [j]) <= cap s.
Proof.
  unfold room. intro H. apply Nat.ltb_lt in H. rewrite app_length. cbn. lia.
Qed.

(* the sink call proper, with the slot already emptied (h) and the handler's book emptied likewise (g) *)
Lemma sink_send_post p s m x k g :
  arel (closed s) (held s) g -> hrel (closed s) m x ->
  let sr := settle k (sink_send p sid me s m) in
  (snd sr = ROk /\ held (fst sr) = held s /\ q (fst sr) = q s ++ [item x] /\ closed (fst sr) = closed s
     /\ cap (fst sr) = cap s /\ length (q (fst sr)) <= cap s)
  \/ (failed (snd sr) = true /\ arel (closed s) (held (fst sr)) (aput k x g) /\ q (fst sr) = q s
     /\ closed (fst sr) = closed s /\ cap (fst sr) = cap s)
  \/ (snd sr = RWouldBlock /\ fst sr = s).
Proof.
  intros Ha Hm. unfold sink_send.
  destruct (closed s) eqn:Hc.
  - right; left. cbn. rewrite Hc. repeat split; auto. apply arel_put; auto.
  - destruct (room s) eqn:Hroom.
    + left. cbn. rewrite (hrel_to_json _ _ _ Hm). repeat split; auto. apply room_length; auto.
    + destruct p.
      * right; right. cbn. auto.
      * right; left. cbn. rewrite Hc. repeat split; auto.
        apply arel_put; auto. left. rewrite (hrel_to_json _ _ _ Hm). reflexivity.
      * right; left. cbn. rewrite Hc. repeat split; auto.
        apply arel_put; auto. left. rewrite (hrel_to_json _ _ _ Hm). reflexivity.
Qed.

Lemma failed_not_ok r : failed r = true -> r <> ROk.
Proof. destruct r; cbn; congruence. Qed.

Lemma gstep_send_ok p k x g : gstep g (OSend p k x) ROk = (g, [x]).
Proof. reflexivity. Qed.
Lemma gstep_send_failed p k x g r : failed r = true -> gstep g (OSend p k x) r = (aput k x g, []).
Proof. destruct r; cbn; congruence. Qed.
Lemma gstep_resend_ok p k x g : afind k g = Some x -> gstep g (OResend p k) ROk = (aremove k g, [x]).
Proof. intro H. cbn. rewrite H. reflexivity. Qed.
Lemma gstep_resend_failed p k x g r :
  afind k g = Some x -> failed r = true -> gstep g (OResend p k) r = (aput k x (aremove k g), []).
Proof. intros H Hf. cbn. rewrite H. destruct r; cbn in *; congruence. Qed.
Lemma gstep_resend_block p k x g : afind k g = Some x -> gstep g (OResend p k) RWouldBlock = (aremove k g, []).
Proof. intro H. cbn. rewrite H. reflexivity. Qed.

Lemma step_inv s g o : arel (closed s) (held s) g -> step_post s g o.
Proof.
  intro Ha. unfold step_post. destruct o as [p k x | p k | |].
  - (* fresh message *)
    cbn [SinkQueue.step]. unfold sink_send.
    destruct (closed s) eqn:Hc.
    + cbn. rewrite ?Hc, ?app_nil_r. repeat split; auto. apply arel_put; auto. right; auto.
    + destruct (room s) eqn:Hroom.
      * cbn. rewrite ?Hc. repeat split; auto; try congruence. intros _. apply room_length; auto.
      * destruct p; cbn; rewrite ?Hc, ?app_nil_r; repeat split; auto; try congruence;
          apply arel_put; auto; left; reflexivity.
  - (* re-send *)
    cbn [SinkQueue.step].
    pose proof (arel_find (closed s) k (held s) g Ha) as Hf.
    destruct (afind k (held s)) as [m|] eqn:Hh; destruct (afind k g) as [x|] eqn:Hg; try contradiction.
    + set (s0 := mkSq (cap s) (q s) (closed s) (aremove k (held s))).
      assert (Ha0 : arel (closed s0) (held s0) (aremove k g)) by (apply arel_remove; auto).
      destruct (sink_send_post p s0 m x k (aremove k g) Ha0 Hf) as [H | [H | H]].
      * destruct H as (Hr & Hheld & Hq & Hcl & Hcap & Hlen).
        rewrite Hr, (gstep_resend_ok _ _ _ _ Hg). cbn [fst snd out_frames].
        rewrite Hheld, Hq, Hcl, Hcap. cbn. repeat split; auto.
        intros _. rewrite Hq in Hlen. exact Hlen.
      * destruct H as (Hfl & Hrel & Hq & Hcl & Hcap).
        rewrite (gstep_resend_failed _ _ _ _ _ Hg Hfl). cbn [fst snd].
        rewrite Hq, Hcl, Hcap. cbn [q closed cap s0].
        assert (Ho : out_frames (snd (settle k (sink_send p sid me s0 m))) = []).
        { destruct (snd (settle k (sink_send p sid me s0 m))); cbn in *; congruence. }
        rewrite Ho, app_nil_r. repeat split; auto.
      * destruct H as (Hr & Hs). rewrite Hr, Hs, (gstep_resend_block _ _ _ _ Hg). cbn.
        rewrite app_nil_r. repeat split; auto.
    + cbn. rewrite Hg, app_nil_r. repeat split; auto.
  - (* recv *)
    cbn [SinkQueue.step]. destruct (q s) as [|f q'] eqn:Hq.
    + destruct (closed s) eqn:Hc; cbn; rewrite ?Hq, ?Hc; repeat split; auto.
    + cbn. rewrite app_nil_r. repeat split; auto. intro H. cbn in H. lia.
  - (* close *)
    cbn. rewrite app_nil_r. repeat split; auto.
    eapply arel_mono; [|exact Ha]. auto.
Qed.

(* ---------- histories ---------- *)
Lemma run_inv ops : forall s g, arel (closed s) (held s) g ->
  let r := run s ops in
  let gl := glog g (snd r) in
  arel (closed (fst r)) (held (fst r)) (fst gl)
  /\ received (snd r) ++ q (fst r) = q s ++ map item (snd gl)
  /\ cap (fst r) = cap s
  /\ (closed s = true -> closed (fst r) = true)
  /\ (length (q s) <= cap s -> length (q (fst r)) <= cap s).
Proof.
  induction ops as [|o ops IH]; intros s g Ha.
  - cbn. rewrite app_nil_r. repeat split; auto.
  - destruct (step_inv s g o Ha) as (Ha1 & Hq1 & Hcap1 & Hcl1 & Hlen1).
    specialize (IH _ _ Ha1). cbn zeta in IH. destruct IH as (Ha2 & Hq2 & Hcap2 & Hcl2 & Hlen2).
    cbn [SinkQueue.run fst snd glog]. cbv zeta. cbn [fst snd].
    split; [exact Ha2|]. split.
    + unfold received in *. cbn [flat_map snd]. rewrite <- app_assoc, Hq2, app_assoc, Hq1, map_app, app_assoc. reflexivity.
    + rewrite Hcap2, Hcap1. repeat split; auto. rewrite Hcap1 in Hlen2. auto.
Qed.

Lemma run_ops ops : forall s, map fst (snd (run s ops)) = ops.
Proof. induction ops as [|o ops IH]; intro s; cbn; [reflexivity | rewrite IH; reflexivity]. Qed.

Lemma run_app a : forall s b, run s (a ++ b) = (fst (run (fst (run s a)) b), snd (run s a) ++ snd (run (fst (run s a)) b)).
Proof.
  induction a as [|o a IH]; intros s b; cbn.
  - destruct (run s b); reflexivity.
  - rewrite IH. reflexivity.
Qed.

(* everything the handler's book and the Ok-log mention was produced by a fresh send of the history *)
Lemma gstep_produced g o r y :
  In y (snd (gstep g o r)) \/ In y (map snd (fst (gstep g o r))) -> In y (map snd g) \/ In y (produced [o]).
Proof.
  destruct o as [p k x | p k | |]; cbn [gstep].
  - destruct r; cbn [failed fst snd]; intros [H | H]; auto;
      try (cbn in H; destruct H as [H | H]; [right; cbn; auto | try contradiction]);
      try (left; eapply aremove_in_snd; eauto; fail); try contradiction.
    all: try (cbn in H; contradiction).
  - destruct (afind k g) as [x|] eqn:Hg; [|cbn; tauto].
    pose proof (afind_in_snd _ _ _ Hg) as Hx.
    destruct r; cbn [failed fst snd]; intros [H | H]; try (cbn in H; contradiction);
      try (cbn in H; destruct H as [H | H]; [subst; auto | try contradiction]);
      try (left; eapply aremove_in_snd; eauto; fail).
    all: try (left; eapply aremove_in_snd; eapply aremove_in_snd; eauto; fail).
  - cbn; tauto.
  - cbn; tauto.
Qed.

Lemma produced_cons o ops : produced (o :: ops) = produced [o] ++ produced ops.
Proof. unfold produced. cbn. rewrite app_nil_r. reflexivity. Qed.

Lemma glog_produced tr : forall g y,
  In y (snd (glog g tr)) \/ In y (map snd (fst (glog g tr))) -> In y (map snd g) \/ In y (produced (map fst tr)).
Proof.
  induction tr as [|[o r] tr IH]; intros g y; cbn [glog map fst snd].
  - cbn. tauto.
  - cbv zeta. cbn [fst snd]. rewrite produced_cons. intro H.
    assert (H' : In y (snd (gstep g o r)) \/ (In y (snd (glog (fst (gstep g o r)) tr)) \/ In y (map snd (fst (glog (fst (gstep g o r)) tr))))).
    { destruct H as [H | H]; [apply in_app_or in H; tauto | tauto]. }
    destruct H' as [H' | H'].
    + destruct (gstep_produced g o r y (or_introl H')) as [G | G]; [auto | right; apply in_or_app; auto].
    + destruct (IH _ _ H') as [G | G].
      * destruct (gstep_produced g o r y (or_intror G)) as [G' | G']; [auto | right; apply in_or_app; auto].
      * right; apply in_or_app; auto.
Qed.

Lemma init_arel c : arel (closed (init c)) (held (init c)) [].
Proof. constructor. Qed.

(* ---------- the property statements ---------- *)
Lemma wrap_idempotent : forall c ops,
  let r := run (init c) ops in
  (forall m, to_json (Complete (to_json m)) = to_json m)
  /\ (forall f, In f (received (snd r) ++ q (fst r)) -> exists x, In x (produced ops) /\ f = to_json (NeedsData (payload x)))
  /\ (forall k m, In (k, m) (held (fst r)) -> exists x, In x (produced ops) /\ to_json m = to_json (NeedsData (payload x))
        /\ (m = Complete (to_json (NeedsData (payload x))) \/ (closed (fst r) = true /\ m = NeedsData (payload x)))).
Proof.
  intros c ops r.
  destruct (run_inv ops (init c) [] (init_arel c)) as (Ha & Hq & _).
  fold r in Ha, Hq. cbn [q init app] in Hq.
  split; [exact to_json_complete|]. split.
  - intros f Hf. rewrite Hq in Hf. apply in_map_iff in Hf. destruct Hf as [x [<- Hx]].
    exists x. split; [|reflexivity].
    destruct (glog_produced (snd r) [] x (or_introl Hx)) as [G | G]; [contradiction|].
    unfold r in G. rewrite run_ops in G. exact G.
  - intros k m Hin.
    destruct (Forall2_in_l _ _ _ _ Ha Hin) as [[k' x] [Hg [_ Hr]]]. cbn in Hr.
    exists x. split.
    + destruct (glog_produced (snd r) [] x (or_intror (in_map snd _ _ Hg))) as [G | G]; [contradiction|].
      unfold r in G. rewrite run_ops in G. exact G.
    + split; [exact (hrel_to_json _ _ _ Hr) | exact Hr].
Qed.

Lemma fifo_exact : forall c ops,
  let r := run (init c) ops in
  received (snd r) ++ q (fst r) = map (fun x => to_json (NeedsData (payload x))) (oklog (snd r)).
Proof.
  intros c ops r.
  destruct (run_inv ops (init c) [] (init_arel c)) as (_ & Hq & _).
  exact Hq.
Qed.

Lemma failed_send_changes_only_held s o :
  is_send o = true -> snd (step s o) <> ROk ->
  q (fst (step s o)) = q s /\ closed (fst (step s o)) = closed s /\ cap (fst (step s o)) = cap s.
Proof.
  destruct o as [p k x | p k | |]; cbn [is_send]; try discriminate; intros _.
  - cbn [SinkQueue.step]. unfold sink_send. destruct (closed s) eqn:Hc; [cbn; auto|].
    destruct (room s); [cbn; congruence|]. destruct p; cbn; auto.
  - cbn [SinkQueue.step]. destruct (afind k (held s)); [|cbn; auto].
    unfold sink_send. cbn [closed]. destruct (closed s) eqn:Hc; [cbn; auto|].
    unfold room. cbn [q cap]. destruct (Nat.ltb (length (q s)) (cap s)); [cbn; congruence|].
    destruct p; cbn; auto.
Qed.

Lemma bounded :
  (forall c ops, length (q (fst (run (init c) ops))) <= c)
  /\ (forall s o, is_send o = true -> snd (step s o) <> ROk ->
        q (fst (step s o)) = q s /\ closed (fst (step s o)) = closed s /\ cap (fst (step s o)) = cap s).
Proof.
  split; [|exact failed_send_changes_only_held].
  intros c ops. destruct (run_inv ops (init c) [] (init_arel c)) as (_ & _ & _ & _ & Hlen).
  cbn in Hlen. apply Hlen. lia.
Qed.

Lemma closed_step s o : closed s = true ->
  snd (step s o) <> ROk /\ out_frames (snd (step s o)) ++ q (fst (step s o)) = q s /\ closed (fst (step s o)) = true.
Proof.
  intro Hc. destruct o as [p k x | p k | |]; cbn [SinkQueue.step].
  - unfold sink_send. rewrite Hc. cbn. repeat split; auto; congruence.
  - destruct (afind k (held s)); [|cbn; repeat split; auto; congruence].
    unfold sink_send. cbn [closed]. rewrite Hc. cbn. repeat split; auto; congruence.
  - destruct (q s) eqn:Hq; [rewrite Hc; cbn; rewrite ?Hq; repeat split; auto; congruence | cbn; repeat split; auto; congruence].
  - cbn. repeat split; auto; congruence.
Qed.

Lemma closed_run ops : forall s, closed s = true ->
  (forall o, ~ In (o, ROk) (snd (run s ops))) /\ q s = received (snd (run s ops)) ++ q (fst (run s ops))
  /\ closed (fst (run s ops)) = true.
Proof.
  induction ops as [|o ops IH]; intros s Hc; cbn [SinkQueue.run]; cbv zeta; cbn [fst snd].
  - cbn. auto.
  - destruct (closed_step s o Hc) as (Hr & Hq & Hc1). destruct (IH _ Hc1) as (Hno & Hq2 & Hc2).
    split; [|split; auto].
    + intros o' [H | H]; [inversion H; congruence | exact (Hno o' H)].
    + unfold received in *. cbn [flat_map snd]. rewrite <- app_assoc, <- Hq2. auto.
Qed.

Lemma nothing_after_close : forall c ops1 ops2,
  let s1 := fst (run (init c) (ops1 ++ [OClose])) in
  let r2 := run s1 ops2 in
  closed s1 = true /\ (forall o, ~ In (o, ROk) (snd r2)) /\ q s1 = received (snd r2) ++ q (fst r2) /\ closed (fst r2) = true.
Proof.
  intros c ops1 ops2 s1 r2.
  assert (Hc : closed s1 = true). { unfold s1. rewrite run_app. cbn. reflexivity. }
  split; [exact Hc|]. exact (closed_run ops2 s1 Hc).
Qed.

(* ---------- own id and method, read back off the wire ---------- *)
(* the handler's payload: a u64 printed in decimal is one complete JSON value *)
Lemma payload_raw x : (x <= u64_max)%N -> raw_payload (payload x).
Proof.
  intro Hx. change (payload x) with (ser (JNum (NPos x))). apply raw_payload_ser.
  cbn [wf wf_num]. apply N.leb_le, Hx.
Qed.

(* any id the IdProvider can return (a u64 or a Rust string, whatever characters it holds) and the notification
   method come back out of the notification text exactly (WireFacts.sub_notif_roundtrip) *)
Lemma item_parses x : wf_subid sid -> utf8_valid me = true -> (x <= u64_max)%N ->
  parse_sub_notif k_result (item x) = Some (me, sid, payload x).
Proof.
  intros Ws Um Hx. unfold SinkQueue.item, wrap.
  exact (sub_notif_roundtrip me sid false (payload x) Um Ws (payload_raw x Hx)).
Qed.

Lemma notification_carries_own_id : forall c ops,
  wf_subid sid -> utf8_valid me = true -> (forall x, In x (produced ops) -> (x <= u64_max)%N) ->
  let r := run (init c) ops in
  (forall f, In f (received (snd r) ++ q (fst r)) ->
     exists x, In x (produced ops) /\ parse_sub_notif k_result f = Some (me, sid, payload x))
  /\ (forall k j, In (k, Complete j) (held (fst r)) ->
     exists x, In x (produced ops) /\ parse_sub_notif k_result j = Some (me, sid, payload x)).
Proof.
  intros c ops Ws Um Hp r.
  destruct (wrap_idempotent c ops) as (_ & Hf & Hh). fold r in Hf, Hh. split.
  - intros f Hin. destruct (Hf f Hin) as (x & Hx & ->). exists x. split; [exact Hx|].
    apply item_parses; auto.
  - intros k j Hin. destruct (Hh k (Complete j) Hin) as (x & Hx & Hj & _). exists x. split; [exact Hx|].
    cbn [SinkQueue.to_json] in Hj. rewrite Hj. apply item_parses; auto.
Qed.

End Facts.
