(* C10 -- facts about the graceful-stop LTS (Model/Stop.v). *)
From Coq Require Import List NArith Bool Arith Lia.
From JV Require Import Model.Stop.
Import ListNotations.
Arguments N.eqb : simpl never.
Arguments N.ltb : simpl never.

(* ------------------------------------------------------------------ small list facts *)

Lemma nth_error_upd_same : forall A (l : list A) n v x, nth_error l n = Some x -> nth_error (upd n v l) n = Some v.
Proof. induction l; destruct n; simpl; intros; try discriminate; eauto. Qed.

Lemma nth_error_upd_other : forall A (l : list A) n m v, n <> m -> nth_error (upd n v l) m = nth_error l m.
Proof. induction l; destruct n, m; simpl; intros; try congruence; eauto. Qed.

Lemma length_upd : forall A (l : list A) n v, length (upd n v l) = length l.
Proof. induction l; destruct n; simpl; intros; auto. Qed.

Lemma Forall_upd : forall A (P : A -> Prop) (l : list A) n v, Forall P l -> P v -> Forall P (upd n v l).
Proof.
  induction l; destruct n; simpl; intros; auto; inversion H; subst; constructor; auto.
Qed.

Lemma forallb_upd : forall A (p : A -> bool) (l : list A) n v, forallb p l = true -> p v = true -> forallb p (upd n v l) = true.
Proof.
  induction l; destruct n; simpl; intros; auto; apply andb_true_iff in H; destruct H; apply andb_true_iff; auto.
Qed.

Lemma Forall_nth : forall A (P : A -> Prop) (l : list A) n x, Forall P l -> nth_error l n = Some x -> P x.
Proof. intros. rewrite Forall_forall in H. eapply H, nth_error_In; eauto. Qed.

Lemma forallb_nth : forall A (p : A -> bool) (l : list A) n x, forallb p l = true -> nth_error l n = Some x -> p x = true.
Proof. intros. rewrite forallb_forall in H. eapply H, nth_error_In; eauto. Qed.

(* ------------------------------------------------------------------ tasks *)

Lemma tstate_eqb_eq : forall a b, tstate_eqb a b = true <-> a = b.
Proof. destruct a, b; simpl; split; congruence. Qed.

Lemma task_eqb_eq : forall a b, task_eqb a b = true <-> a = b.
Proof.
  intros [k s] [k' s']. unfold task_eqb. simpl. rewrite andb_true_iff, N.eqb_eq, tstate_eqb_eq.
  split; [intros [-> ->]; auto | intros H; inversion H; auto].
Qed.

Lemma task_eqb_refl : forall a, task_eqb a a = true.
Proof. intros. apply task_eqb_eq. auto. Qed.

Definition cntt (u : N * tstate) (l : list (N * tstate)) : nat := length (filter (fun e => task_eqb e u) l).
Definition b2n (b : bool) : nat := if b then 1 else 0.

Lemma cntt_cons : forall u e l, cntt u (e :: l) = b2n (task_eqb e u) + cntt u l.
Proof. intros. unfold cntt. simpl. destruct (task_eqb e u); auto. Qed.

Lemma cntt_app : forall u l1 l2, cntt u (l1 ++ l2) = cntt u l1 + cntt u l2.
Proof. intros. unfold cntt. rewrite filter_app, app_length. auto. Qed.

Lemma set_first_cnt : forall t t' l l' u, set_first t t' l = Some l' ->
  cntt u l' + b2n (task_eqb t u) = cntt u l + b2n (task_eqb t' u).
Proof.
  induction l; simpl; intros; try discriminate.
  destruct (task_eqb a t) eqn:E.
  - inversion H; subst. apply task_eqb_eq in E. subst. rewrite !cntt_cons. lia.
  - destruct (set_first t t' l) eqn:S; try discriminate. inversion H; subst.
    rewrite !cntt_cons. specialize (IHl _ u eq_refl). lia.
Qed.

Lemma remove_first_cnt : forall t l l' u, remove_first t l = Some l' -> cntt u l' + b2n (task_eqb t u) = cntt u l.
Proof.
  induction l; simpl; intros; try discriminate.
  destruct (task_eqb a t) eqn:E.
  - inversion H; subst. apply task_eqb_eq in E. subst. rewrite !cntt_cons. lia.
  - destruct (remove_first t l) eqn:S; try discriminate. inversion H; subst.
    rewrite !cntt_cons. specialize (IHl _ u eq_refl). lia.
Qed.

Lemma set_first_in : forall t t' l l', set_first t t' l = Some l' -> In t l.
Proof.
  induction l; simpl; intros; try discriminate.
  destruct (task_eqb a t) eqn:E.
  - apply task_eqb_eq in E. auto.
  - destruct (set_first t t' l) eqn:S; try discriminate. eauto.
Qed.

Lemma set_first_Forall : forall (P : N * tstate -> Prop) t t' l l',
  set_first t t' l = Some l' -> Forall P l -> P t' -> Forall P l'.
Proof.
  induction l; simpl; intros; try discriminate. inversion H0; subst.
  destruct (task_eqb a t).
  - inversion H; subst. constructor; auto.
  - destruct (set_first t t' l) eqn:S; try discriminate. inversion H; subst. constructor; eauto.
Qed.

Lemma set_first_Forall_fst : forall (P : N -> Prop) k a b l l',
  set_first (k, a) (k, b) l = Some l' -> Forall (fun t => P (fst t)) l -> Forall (fun t => P (fst t)) l'.
Proof.
  intros. eapply set_first_Forall; eauto. simpl.
  apply set_first_in in H. rewrite Forall_forall in H0. apply (H0 _ H).
Qed.

Lemma remove_first_Forall : forall (P : N * tstate -> Prop) t l l', remove_first t l = Some l' -> Forall P l -> Forall P l'.
Proof.
  induction l; simpl; intros; try discriminate. inversion H0; subst.
  destruct (task_eqb a t).
  - inversion H; subst. auto.
  - destruct (remove_first t l) eqn:S; try discriminate. inversion H; subst. constructor; eauto.
Qed.

Lemma set_first_length : forall t t' l l', set_first t t' l = Some l' -> length l' = length l.
Proof.
  induction l; simpl; intros; try discriminate.
  destruct (task_eqb a t).
  - inversion H; auto.
  - destruct (set_first t t' l) eqn:S; try discriminate. inversion H; subst. simpl. f_equal. eauto.
Qed.

Lemma set_first_nonnil : forall t t' l l', set_first t t' l = Some l' -> l' <> [].
Proof. intros. destruct l; [discriminate H | apply set_first_length in H; intro; subst; discriminate]. Qed.

(* ------------------------------------------------------------------ the per-connection invariant *)

Definition cinv (x : conn) : Prop :=
  match c_kind x with
  | KHttp =>
    c_writer x = WFin /\ c_queue x = [] /\ length (c_tasks x) <= 1 /\ c_phase x <> PClosing /\
    (c_phase x = PDone -> c_tasks x = []) /\ (c_phase x = PGraceful -> c_tasks x <> []) /\
    (c_phase x = PDone <-> c_tok x = false)
  | KWs =>
    (c_writer x = WFin -> c_queue x = []) /\
    (c_wstop x = true <-> (c_phase x = PClosing \/ c_phase x = PDone)) /\
    (c_phase x = PDone -> c_writer x = WFin) /\
    (c_closed x = false -> c_writer x = WFin -> c_wstop x = true) /\
    (c_closed x = false -> c_wstop x = true -> c_tasks x = [])
  end.

Lemma cinv_new : forall k cap, cinv (new_conn k cap).
Proof. destruct k; intros; unfold cinv; simpl; intuition (try discriminate; try lia). Qed.

Ltac break_match :=
  match goal with
  | H : context [match ?e with _ => _ end] |- _ => destruct e eqn:?
  | |- context [match ?e with _ => _ end] => destruct e eqn:?
  end.

Ltac cstep_cases H :=
  unfold cstep, put_wire, http_done in H; simpl in H;
  repeat (match type of H with context [match ?e with _ => _ end] => destruct e eqn:?; simpl in H end);
  try discriminate H; inversion H; subst; clear H.

Lemma set_first_src : forall t t' l l', set_first t t' l = Some l' -> l <> [].
Proof. intros. destruct l; [discriminate H | discriminate]. Qed.

Lemma remove_first_length : forall t l l', remove_first t l = Some l' -> length l = S (length l').
Proof.
  induction l; simpl; intros; try discriminate.
  destruct (task_eqb a t).
  - inversion H; auto.
  - destruct (remove_first t l) eqn:S; try discriminate. inversion H; subst. simpl. f_equal. eauto.
Qed.

Lemma remove_first_src : forall t l l', remove_first t l = Some l' -> l <> [].
Proof. intros. destruct l; [discriminate H | discriminate]. Qed.

Ltac norm :=
  repeat match goal with
         | H : is_nil ?l = true |- _ => destruct l; [clear H | discriminate H]
         | H : is_nil ?l = false |- _ => destruct l; [discriminate H | clear H]
         | H : _ || _ = true |- _ => apply orb_true_iff in H; destruct H
         | H : _ || _ = false |- _ => apply orb_false_iff in H; destruct H
         | H : _ && _ = true |- _ => apply andb_true_iff in H; destruct H
         | H : _ && _ = false |- _ => apply andb_false_iff in H; destruct H
         | H : set_first _ _ _ = Some _ |- _ =>
           pose proof (set_first_length _ _ _ _ H); pose proof (set_first_nonnil _ _ _ _ H);
           pose proof (set_first_src _ _ _ _ H); clear H
         | H : remove_first _ _ = Some _ |- _ =>
           pose proof (remove_first_length _ _ _ H); pose proof (remove_first_src _ _ _ H); clear H
         end.

Lemma cinv_cstep : forall sg x a x', cinv x -> cstep sg x a = Some x' -> cinv x'.
Proof.
  intros sg [kd inb tk q w ph wr ws cl tok sb cp] a x' I H.
  unfold cinv in *; simpl in *.
  destruct a; cstep_cases H; simpl in *; subst; simpl in *; norm; simpl in *;
    try (destruct kd; simpl in * );
    try (intuition (try discriminate; try congruence; try lia; auto); fail).
  destruct wr; try discriminate.
  destruct I as (I1 & [I2a I2b] & I3 & I4 & I5).
  repeat split; intros; auto; try discriminate.
Qed.

Lemma cinv_csend : forall x k x', cinv x -> csend x k = Some x' -> cinv x'.
Proof.
  intros [kd inb tk q w ph wr ws cl tok sb cp] k x' I H. unfold csend in H; simpl in H.
  destruct cl; inversion H; subst. exact I.
Qed.

(* PDone is absorbing; tokens never come back; the client stays gone *)
Lemma cstep_done : forall sg x a x', cstep sg x a = Some x' -> c_phase x = PDone -> c_phase x' = PDone.
Proof.
  intros sg [kd inb tk q w ph wr ws cl tok sb cp] a x' H D. simpl in D. subst.
  destruct a; cstep_cases H; simpl in *; auto.
Qed.

Lemma cstep_tok : forall sg x a x', cstep sg x a = Some x' -> c_tok x = false -> c_tok x' = false.
Proof.
  intros sg [kd inb tk q w ph wr ws cl tok sb cp] a x' H D. simpl in D. subst.
  destruct a; cstep_cases H; simpl in *; auto.
Qed.

Lemma cstep_closed : forall sg x a x', cstep sg x a = Some x' -> c_closed x = true -> c_closed x' = true.
Proof.
  intros sg [kd inb tk q w ph wr ws cl tok sb cp] a x' H D. simpl in D. subst.
  destruct a; cstep_cases H; simpl in *; auto.
Qed.

Lemma cstep_kind : forall sg x a x', cstep sg x a = Some x' -> c_kind x' = c_kind x.
Proof.
  intros sg [kd inb tk q w ph wr ws cl tok sb cp] a x' H.
  destruct a; cstep_cases H; simpl in *; auto.
Qed.

(* in PDone nothing is read any more: the set of tasks can only shrink or advance *)
Lemma cstep_done_tasks : forall sg x a x' (P : N -> Prop), cstep sg x a = Some x' -> c_phase x = PDone ->
  Forall (fun t => P (fst t)) (c_tasks x) -> Forall (fun t => P (fst t)) (c_tasks x').
Proof.
  intros sg [kd inb tk q w ph wr ws cl tok sb cp] a x' P H D F. simpl in D, F. subst.
  destruct a; cstep_cases H; simpl in *; auto;
    try (eapply set_first_Forall_fst; eauto; fail); try (eapply remove_first_Forall; eauto; fail).
Qed.

(* ------------------------------------------------------------------ ids *)

Definition ids_lt (n : N) (x : conn) : Prop :=
  Forall (fun k => (k < n)%N) (c_inbox x) /\ Forall (fun t => (fst t < n)%N) (c_tasks x).

Lemma ids_lt_mono : forall n m x, (n <= m)%N -> ids_lt n x -> ids_lt m x.
Proof.
  intros n m x L [A B]. split; eapply Forall_impl; try eassumption; simpl; intros; lia.
Qed.

Lemma ids_cstep : forall sg n x a x', ids_lt n x -> cstep sg x a = Some x' -> ids_lt n x'.
Proof.
  intros sg n [kd inb tk q w ph wr ws cl tok sb cp] a x' [A B] H. unfold ids_lt in *. simpl in *.
  destruct a; cstep_cases H; simpl in *; subst;
    repeat match goal with H : Forall _ (_ :: _) |- _ => inversion H; subst; clear H end;
    try (split; auto; fail);
    try (split; auto; try (apply Forall_app; split; auto); try (constructor; auto); fail).
  all: split; auto; try (eapply (set_first_Forall_fst (fun k => (k < n)%N)); eauto; fail);
    try (eapply remove_first_Forall; eauto; fail).
Qed.

Lemma ids_csend : forall n x x', ids_lt n x -> csend x n = Some x' -> ids_lt (N.succ n) x'.
Proof.
  intros n [kd inb tk q w ph wr ws cl tok sb cp] x' [A B] H. unfold csend in H. simpl in *.
  destruct cl; inversion H; subst. split; simpl.
  - apply Forall_app. split; [eapply Forall_impl; try eassumption; simpl; intros; lia | constructor; auto; lia].
  - eapply Forall_impl; try eassumption; simpl; intros; lia.
Qed.

(* ------------------------------------------------------------------ replies are conserved *)

(* calls of id k on connection x whose handler has started and whose reply is somewhere between the handler
   and the transport *)
Definition live (x : conn) (k : N) : nat :=
  cntt (k, TExec) (c_tasks x) + cntt (k, TRet) (c_tasks x) + count_occ N.eq_dec (c_queue x) k + count_occ N.eq_dec (c_wire x) k.

Lemma count_occ_snoc : forall (l : list N) a k, count_occ N.eq_dec (l ++ [a]) k = count_occ N.eq_dec l k + b2n (N.eqb a k).
Proof.
  intros. rewrite count_occ_app. simpl. destruct (N.eq_dec a k); destruct (N.eqb_spec a k); simpl; try congruence; lia.
Qed.

Lemma task_eqb_k : forall k s k' s', task_eqb (k, s) (k', s') = N.eqb k k' && tstate_eqb s s'.
Proof. reflexivity. Qed.

Definition start_inc_c (a : cact) (k : N) : nat := match a with CStart k0 => b2n (N.eqb k0 k) | _ => 0 end.

Lemma cntt_nil : forall u, cntt u [] = 0.
Proof. reflexivity. Qed.

Lemma live_cstep : forall sg x a x' k, cinv x -> cstep sg x a = Some x' -> c_closed x' = false ->
  live x' k = live x k + start_inc_c a k.
Proof.
  intros sg [kd inb tk q w ph wr ws cl tok sb cp] a x' k I H C.
  unfold cinv, live in *. simpl in *.
  destruct a; cstep_cases H; simpl in *; subst; simpl in *; try discriminate;
    repeat match goal with
           | HH : set_first _ _ _ = Some _ |- _ =>
             pose proof (set_first_cnt _ _ _ _ (k, TExec) HH); pose proof (set_first_cnt _ _ _ _ (k, TRet) HH); clear HH
           | HH : remove_first _ _ = Some _ |- _ =>
             pose proof (remove_first_cnt _ _ _ (k, TExec) HH); pose proof (remove_first_cnt _ _ _ (k, TRet) HH);
             pose proof (remove_first_src _ _ _ HH); clear HH
           | HH : is_nil ?l = true |- _ => destruct l; [clear HH | discriminate HH]
           end;
    rewrite ?task_eqb_k in *; simpl tstate_eqb in *; rewrite ?andb_false_r, ?andb_true_r in *;
    rewrite ?cntt_app, ?cntt_cons, ?cntt_nil, ?task_eqb_k, ?count_occ_snoc; simpl tstate_eqb;
    rewrite ?andb_false_r, ?andb_true_r; simpl;
    repeat match goal with |- context [N.eq_dec ?a ?b] => destruct (N.eq_dec a b) end;
    repeat match goal with |- context [N.eqb ?a ?b] => destruct (N.eqb_spec a b) end;
    repeat match goal with HH : context [N.eqb ?a ?b] |- _ => destruct (N.eqb_spec a b) end;
    simpl in *; try congruence; try lia;
    try (exfalso; intuition congruence).
  all: try (destruct I as (_ & -> & _); simpl; lia).
Qed.

Lemma live_csend : forall x n x' k, csend x n = Some x' -> live x' k = live x k.
Proof.
  intros [kd inb tk q w ph wr ws cl tok sb cp] n x' k H. unfold csend in H. simpl in H.
  destruct cl; inversion H; subst. reflexivity.
Qed.

Lemma csend_closed : forall x n x', csend x n = Some x' -> c_closed x' = c_closed x.
Proof.
  intros [kd inb tk q w ph wr ws cl tok sb cp] n x' H. unfold csend in H. simpl in H.
  destruct cl; inversion H; subst. reflexivity.
Qed.

Lemma csend_same : forall x n x', csend x n = Some x' ->
  c_phase x' = c_phase x /\ c_tok x' = c_tok x /\ c_tasks x' = c_tasks x /\ c_kind x' = c_kind x.
Proof.
  intros [kd inb tk q w ph wr ws cl tok sb cp] n x' H. unfold csend in H. simpl in H.
  destruct cl; inversion H; subst. simpl. auto.
Qed.

(* ------------------------------------------------------------------ the state invariant *)

Definition sinv (s : state) : Prop :=
  Forall cinv (s_conns s) /\ Forall (ids_lt (s_next s)) (s_conns s) /\
  (s_accept s = ADone -> Forall (fun x => c_tok x = false) (s_conns s)) /\
  (s_resolved s = true -> all_dropped s = true).

Lemma sinv_init : forall cap, sinv (init_cap cap).
Proof. intros. unfold sinv, init_cap; simpl. repeat split; auto; discriminate. Qed.

Lemma all_dropped_accept : forall s, all_dropped s = true -> s_accept s = ADone.
Proof. unfold all_dropped, accept_done. intros. destruct (s_accept s); simpl in *; auto; discriminate. Qed.

Lemma all_dropped_conns : forall s, all_dropped s = true -> forallb phase_done (s_conns s) = true.
Proof. unfold all_dropped. intros. apply andb_true_iff in H. tauto. Qed.

Lemma phase_done_eq : forall x, phase_done x = true <-> c_phase x = PDone.
Proof. unfold phase_done. intros. destruct (c_phase x); split; congruence. Qed.

Ltac step_cases :=
  unfold step in *; simpl in *;
  repeat match goal with
         | |- context [match ?e with _ => _ end] => destruct e eqn:?; simpl in *
         end.

Lemma all_dropped_step : forall s a, all_dropped s = true -> all_dropped (fst (step s a)) = true.
Proof.
  intros s a D. pose proof (all_dropped_accept _ D) as A. pose proof (all_dropped_conns _ D) as C.
  destruct a; unfold step; rewrite ?A; simpl; auto.
  - destruct (nth_error (s_conns s) c) eqn:E; simpl; auto.
    destruct (csend c0 (s_next s)) eqn:E2; simpl; auto.
    unfold all_dropped, accept_done. simpl. rewrite A. simpl.
    apply forallb_upd; auto. apply phase_done_eq. destruct (csend_same _ _ _ E2) as (P & _). rewrite P.
    apply phase_done_eq. eapply forallb_nth; eauto.
  - destruct (nth_error (s_conns s) c) eqn:E; simpl; auto.
    destruct (cstep (sig s) c0 a) eqn:E2; simpl; auto.
    unfold all_dropped, accept_done. simpl. rewrite A. simpl.
    apply forallb_upd; auto. apply phase_done_eq. eapply cstep_done; eauto.
    apply phase_done_eq. eapply forallb_nth; eauto.
  - destruct (s_handles s); simpl; auto. rewrite D. auto.
  - destruct (s_handles s); simpl; auto.
  - destruct (s_handles s); simpl; auto.
  - destruct (s_handles s); simpl; auto. destruct (all_dropped s && negb (s_resolved s)); simpl; auto.
Qed.

Lemma Forall_app_one : forall A (P : A -> Prop) l v, Forall P l -> P v -> Forall P (l ++ [v]).
Proof. intros. apply Forall_app. split; auto. Qed.

Lemma sinv_same : forall s s', sinv s -> s_conns s' = s_conns s -> s_accept s' = s_accept s ->
  s_next s' = s_next s -> (s_resolved s' = true -> s_resolved s = true) -> sinv s'.
Proof.
  intros s s' (I1 & I2 & I3 & I4) C A N R. unfold sinv, all_dropped, accept_done in *.
  rewrite C, A, N. repeat split; auto.
Qed.

Lemma step_sinv : forall s a, sinv s -> sinv (fst (step s a)).
Proof.
  intros s a I. pose proof I as (I1 & I2 & I3 & I4).
  assert (R : s_resolved s = true -> s_accept s = ADone) by (intros; apply all_dropped_accept; auto).
  destruct a; unfold step.
  - (* Connect *)
    destruct (s_accept s) eqn:A; simpl; auto.
    unfold sinv; simpl. repeat split; try (apply Forall_app_one; auto).
    + apply cinv_new.
    + split; simpl; constructor.
    + rewrite A. discriminate.
    + intros Rs. specialize (R Rs). congruence.
  - (* ClientSend *)
    destruct (nth_error (s_conns s) c) eqn:E; simpl; auto.
    destruct (csend c0 (s_next s)) eqn:E2; simpl; auto.
    unfold sinv; simpl. repeat split.
    + apply Forall_upd; auto. eapply cinv_csend; eauto. eapply Forall_nth; eauto.
    + apply Forall_upd.
      * eapply Forall_impl; try eassumption. intros. eapply ids_lt_mono; try eassumption. lia.
      * eapply ids_csend; eauto. eapply Forall_nth; eauto.
    + intros A. apply Forall_upd; auto. destruct (csend_same _ _ _ E2) as (_ & T & _). rewrite T.
      exact (Forall_nth _ (fun x => c_tok x = false) _ _ _ (I3 A) E).
    + intros Rs. specialize (I4 Rs).
      pose proof (all_dropped_step s (ClientSend c) I4) as Q. unfold step in Q. rewrite E, E2 in Q. exact Q.
  - (* Conn *)
    destruct (nth_error (s_conns s) c) eqn:E; simpl; auto.
    destruct (cstep (sig s) c0 a) eqn:E2; simpl; auto.
    unfold sinv; simpl. repeat split.
    + apply Forall_upd; auto. eapply cinv_cstep; eauto. eapply Forall_nth; eauto.
    + apply Forall_upd; auto. eapply ids_cstep; eauto. eapply Forall_nth; eauto.
    + intros A. apply Forall_upd; auto. eapply cstep_tok; eauto.
      exact (Forall_nth _ (fun x => c_tok x = false) _ _ _ (I3 A) E).
    + intros Rs. specialize (I4 Rs).
      pose proof (all_dropped_step s (Conn c a) I4) as Q. unfold step in Q. rewrite E, E2 in Q. exact Q.
  - (* AcceptSeeStop *)
    destruct (s_accept s) eqn:A; simpl; auto. destruct (sig s); simpl; auto.
    unfold sinv; simpl. repeat split; auto; try discriminate. intros Rs. specialize (R Rs). congruence.
  - (* AcceptDone *)
    destruct (s_accept s) eqn:A; simpl; auto.
    destruct (forallb (fun x => negb (c_tok x)) (s_conns s)) eqn:T; simpl; auto.
    unfold sinv; simpl. repeat split; auto.
    + intros _. rewrite Forall_forall. intros x Hx. rewrite forallb_forall in T. specialize (T _ Hx).
      destruct (c_tok x); auto; discriminate.
    + intros Rs. specialize (R Rs). congruence.
  - destruct (s_handles s); simpl; auto. destruct (all_dropped s); simpl; auto;
    try (eapply sinv_same; eauto; fail).
  - destruct (s_handles s); simpl; auto; try (eapply sinv_same; eauto; fail).
  - destruct (s_handles s); simpl; auto; try (eapply sinv_same; eauto; fail).
  - destruct (s_handles s); simpl; auto.
    destruct (all_dropped s && negb (s_resolved s)) eqn:G; simpl; auto.
    apply andb_true_iff in G. destruct G as [G _].
    destruct I as (J1 & J2 & J3 & J4). unfold sinv. simpl. repeat split; auto.
Qed.

Lemma run_sinv : forall tr s, sinv s -> sinv (run s tr).
Proof. induction tr; simpl; intros; auto. apply IHtr, step_sinv; auto. Qed.

Lemma run_app : forall t1 t2 s, run s (t1 ++ t2) = run (run s t1) t2.
Proof. induction t1; simpl; intros; auto. Qed.

(* ------------------------------------------------------------------ effectiveness, unfolded *)

Lemma effective_conn : forall s c a, effective s (Conn c a) =
  match nth_error (s_conns s) c with
  | Some x => match cstep (sig s) x a with Some _ => true | None => false end
  | None => false
  end.
Proof. intros. unfold effective, step. destruct (nth_error (s_conns s) c); auto. destruct (cstep (sig s) c0 a); auto. Qed.

Lemma step_conn_some : forall s c a x x', nth_error (s_conns s) c = Some x -> cstep (sig s) x a = Some x' ->
  fst (step s (Conn c a)) = set_conns s (upd c x' (s_conns s)).
Proof. intros. unfold step. rewrite H, H0. reflexivity. Qed.

Lemma step_conn_none : forall s c a, effective s (Conn c a) = false -> fst (step s (Conn c a)) = s.
Proof.
  intros s c a. rewrite effective_conn. unfold step. destruct (nth_error (s_conns s) c); auto.
  destruct (cstep (sig s) c0 a); auto. discriminate.
Qed.

(* ------------------------------------------------------------------ connections persist, `closed` is monotone *)

Lemma step_nth : forall s a c x, nth_error (s_conns s) c = Some x ->
  exists x', nth_error (s_conns (fst (step s a))) c = Some x' /\ (c_closed x = true -> c_closed x' = true).
Proof.
  intros s a c x H.
  destruct a; step_cases; eauto.
  - exists x. split; auto. rewrite nth_error_app1; auto. apply nth_error_Some. congruence.
  - destruct (Nat.eq_dec c0 c).
    + subst. rewrite H in Heqo. inversion Heqo; subst. exists c2. split.
      * eapply nth_error_upd_same; eauto.
      * rewrite (csend_closed _ _ _ Heqo0). auto.
    + exists x. rewrite nth_error_upd_other; auto.
  - destruct (Nat.eq_dec c0 c).
    + subst. rewrite H in Heqo. inversion Heqo; subst. exists c2. split.
      * eapply nth_error_upd_same; eauto.
      * eapply cstep_closed; eauto.
    + exists x. rewrite nth_error_upd_other; auto.
Qed.

Lemma run_nth_closed : forall tr s c x, nth_error (s_conns s) c = Some x -> c_closed x = true ->
  exists x', nth_error (s_conns (run s tr)) c = Some x' /\ c_closed x' = true.
Proof.
  induction tr; simpl; intros; eauto.
  destruct (step_nth s a c x H) as (x1 & N1 & C1). eapply IHtr; eauto.
Qed.

(* ------------------------------------------------------------------ one step conserves replies *)

Definition livec (s : state) (c : nat) (k : N) : nat :=
  match nth_error (s_conns s) c with Some x => live x k | None => 0 end.

Definition start_inc (s : state) (a : action) (c : nat) (k : N) : nat :=
  match a with
  | Conn c' (CStart k') => if Nat.eqb c' c && N.eqb k' k && effective s a then 1 else 0
  | _ => 0
  end.

Lemma starts_cons : forall s a r c k, starts s (a :: r) c k = start_inc s a c k + starts (fst (step s a)) r c k.
Proof. reflexivity. Qed.

Lemma live_new : forall kd cap k, live (new_conn kd cap) k = 0.
Proof. destruct kd; reflexivity. Qed.

Lemma step_live : forall s a c k x1, sinv s ->
  nth_error (s_conns (fst (step s a))) c = Some x1 -> c_closed x1 = false ->
  live x1 k = livec s c k + start_inc s a c k.
Proof.
  intros s a c k x1 (I1 & _) H C. unfold livec.
  destruct a.
  - (* Connect *)
    simpl start_inc. unfold step in H. destruct (s_accept s); simpl in H; try (rewrite H; lia).
    destruct (nth_error (s_conns s) c) eqn:E.
    + rewrite nth_error_app1 in H by (apply nth_error_Some; congruence). rewrite E in H. inversion H; subst. lia.
    + apply nth_error_None in E. rewrite nth_error_app2 in H by auto.
      destruct (c - length (s_conns s)) as [|m]; simpl in H.
      * inversion H; subst. rewrite live_new. lia.
      * destruct m; discriminate.
  - (* ClientSend *)
    simpl start_inc. unfold step in H.
    destruct (nth_error (s_conns s) c0) eqn:E; simpl in H; try (rewrite H; lia).
    destruct (csend c1 (s_next s)) eqn:E2; simpl in H; try (rewrite H; lia).
    destruct (Nat.eq_dec c0 c).
    + subst. rewrite (nth_error_upd_same _ _ _ _ _ E) in H. inversion H; subst. rewrite E.
      rewrite (live_csend _ _ _ _ E2). lia.
    + rewrite nth_error_upd_other in H by auto. rewrite H. lia.
  - (* Conn *)
    destruct (effective s (Conn c0 a)) eqn:Ef.
    + rewrite effective_conn in Ef.
      destruct (nth_error (s_conns s) c0) eqn:E; try discriminate.
      destruct (cstep (sig s) c1 a) eqn:E2; try discriminate.
      rewrite (step_conn_some _ _ _ _ _ E E2) in H. simpl in H.
      destruct (Nat.eq_dec c0 c).
      * subst. rewrite (nth_error_upd_same _ _ _ _ _ E) in H. inversion H; subst. rewrite E.
        rewrite (live_cstep _ _ _ _ k (Forall_nth _ _ _ _ _ I1 E) E2 C).
        f_equal. unfold start_inc, start_inc_c. destruct a; auto.
        rewrite Nat.eqb_refl. simpl. rewrite effective_conn, E, E2. destruct (N.eqb k0 k); reflexivity.
      * rewrite nth_error_upd_other in H by auto. rewrite H.
        unfold start_inc. destruct a; try lia. apply Nat.eqb_neq in n. rewrite n. simpl. lia.
    + rewrite (step_conn_none _ _ _ Ef) in H. rewrite H.
      unfold start_inc. destruct a; try lia. rewrite Ef, andb_false_r. lia.
  - simpl start_inc. unfold step in H. destruct (s_accept s); try destruct (sig s); simpl in H; rewrite H; lia.
  - simpl start_inc. unfold step in H.
    destruct (s_accept s); try destruct (forallb (fun x => negb (c_tok x)) (s_conns s)); simpl in H; rewrite H; lia.
  - simpl start_inc. unfold step in H. destruct (s_handles s); try destruct (all_dropped s); simpl in H; rewrite H; lia.
  - simpl start_inc. unfold step in H. destruct (s_handles s); simpl in H; rewrite H; lia.
  - simpl start_inc. unfold step in H. destruct (s_handles s); simpl in H; rewrite H; lia.
  - simpl start_inc. unfold step in H.
    destruct (s_handles s); try destruct (all_dropped s && negb (s_resolved s)); simpl in H; rewrite H; lia.
Qed.

Lemma step_none_live : forall s a c k, nth_error (s_conns (fst (step s a))) c = None ->
  livec s c k + start_inc s a c k = 0.
Proof.
  intros s a c k H. unfold livec.
  destruct (nth_error (s_conns s) c) eqn:E.
  - destruct (step_nth s a c _ E) as (x' & N1 & _). congruence.
  - unfold start_inc. destruct a; auto. destruct a; auto.
    destruct (Nat.eqb_spec c0 c); simpl; auto. subst.
    rewrite effective_conn, E, andb_false_r. auto.
Qed.

Lemma run_live : forall tr s c k x', sinv s ->
  nth_error (s_conns (run s tr)) c = Some x' -> c_closed x' = false ->
  live x' k = livec s c k + starts s tr c k.
Proof.
  induction tr; intros s c k x' I H C.
  - simpl in *. unfold livec. rewrite H. lia.
  - rewrite starts_cons. simpl in H.
    pose proof (step_sinv s a I) as I'.
    rewrite (IHtr _ _ k _ I' H C).
    unfold livec at 1.
    destruct (nth_error (s_conns (fst (step s a))) c) eqn:E.
    + destruct (c_closed c0) eqn:Cl.
      * destruct (run_nth_closed tr _ _ _ E Cl) as (x2 & N2 & C2). congruence.
      * rewrite (step_live s a c k c0 I E Cl). lia.
    + pose proof (step_none_live s a c k E). lia.
Qed.

(* ------------------------------------------------------------------ what PDone means *)

Lemma done_conn : forall x, cinv x -> c_phase x = PDone ->
  c_writer x = WFin /\ c_queue x = [] /\ (c_closed x = false -> c_tasks x = []) /\
  (c_tasks x <> [] -> c_kind x = KWs /\ c_closed x = true) /\ (c_kind x = KHttp -> c_tok x = false).
Proof.
  intros [kd inb tk q w ph wr ws cl tok sb cp] I D. unfold cinv in I. simpl in *. subst.
  destruct kd.
  - destruct I as (I1 & I2 & I3 & I4 & I5 & I6 & I7). repeat split; auto; try (intros; exfalso; auto; fail).
    intros _. apply I7. auto.
  - destruct I as (I1 & I2 & I3 & I4 & I5).
    assert (W : wr = WFin) by auto. assert (S : ws = true) by (apply I2; auto).
    split; auto. split; auto. split; auto. split; [| discriminate].
    intros T. split; auto. destruct cl; auto.
Qed.

Lemma live_done : forall x k, cinv x -> c_phase x = PDone -> c_closed x = false ->
  live x k = count_occ N.eq_dec (c_wire x) k.
Proof.
  intros x k I D C. destruct (done_conn x I D) as (_ & Q & T & _). unfold live. rewrite Q, (T C). reflexivity.
Qed.

(* ------------------------------------------------------------------ C10: started calls are answered *)

Lemma started_calls_answered : forall cap tr c k x,
  s_resolved (run (init_cap cap) tr) = true ->
  nth_error (s_conns (run (init_cap cap) tr)) c = Some x -> c_closed x = false ->
  count_occ N.eq_dec (c_wire x) k = starts (init_cap cap) tr c k.
Proof.
  intros cap tr c k x R H C.
  pose proof (run_sinv tr (init_cap cap) (sinv_init cap)) as I.
  destruct I as (I1 & I2 & I3 & I4). specialize (I4 R).
  assert (D : c_phase x = PDone).
  { apply phase_done_eq. eapply forallb_nth; eauto. apply all_dropped_conns; auto. }
  rewrite <- (live_done x k (Forall_nth _ _ _ _ _ I1 H) D C).
  rewrite (run_live tr (init_cap cap) c k x (sinv_init cap) H C). unfold livec. simpl. destruct c; reflexivity.
Qed.

(* ------------------------------------------------------------------ C10: stopped only after everything *)

Lemma stopped_after_all : forall cap tr, effective (run (init_cap cap) tr) StoppedResolves = true ->
  s_accept (run (init_cap cap) tr) = ADone /\
  Forall (fun x => c_phase x = PDone /\ c_tok x = false /\ c_writer x = WFin /\ c_queue x = [] /\
                   (c_closed x = false -> c_tasks x = [])) (s_conns (run (init_cap cap) tr)).
Proof.
  intros cap tr E. set (s := run (init_cap cap) tr) in *.
  pose proof (run_sinv tr (init_cap cap) (sinv_init cap)) as (I1 & I2 & I3 & I4). fold s in I1, I2, I3, I4.
  assert (D : all_dropped s = true).
  { unfold effective, step in E. destruct (s_handles s); simpl in E; try discriminate.
    destruct (all_dropped s); auto. }
  pose proof (all_dropped_accept _ D) as A. split; auto.
  rewrite Forall_forall. intros x Hx.
  assert (P : c_phase x = PDone).
  { apply phase_done_eq. pose proof (all_dropped_conns _ D) as F. rewrite forallb_forall in F. auto. }
  rewrite Forall_forall in I1. destruct (done_conn x (I1 _ Hx) P) as (W & Q & T & _).
  specialize (I3 A). rewrite Forall_forall in I3. repeat split; auto.
Qed.

(* ------------------------------------------------------------------ C10: nothing new after stopped *)

Definition quiet (bound : N) (s : state) : Prop :=
  sinv s /\ all_dropped s = true /\ Forall (fun x => Forall (fun t => (fst t < bound)%N) (c_tasks x)) (s_conns s).

Lemma quiet_step : forall b s a, quiet b s -> quiet b (fst (step s a)).
Proof.
  intros b s a (I & D & T). split; [apply step_sinv; auto |]. split; [apply all_dropped_step; auto |].
  pose proof (all_dropped_accept _ D) as A. pose proof (all_dropped_conns _ D) as C.
  destruct a; step_cases; auto; try congruence.
  - apply Forall_upd; auto. destruct (csend_same _ _ _ Heqo0) as (_ & _ & Tk & _). rewrite Tk.
    eapply (Forall_nth _ (fun x => Forall (fun t => (fst t < b)%N) (c_tasks x))); eauto.
  - apply Forall_upd; auto. eapply (cstep_done_tasks _ _ _ _ (fun k => (k < b)%N)); eauto.
    + apply phase_done_eq. eapply forallb_nth; eauto.
    + eapply (Forall_nth _ (fun x => Forall (fun t => (fst t < b)%N) (c_tasks x))); eauto.
Qed.

Lemma quiet_run : forall tr b s, quiet b s -> quiet b (run s tr).
Proof. induction tr; simpl; intros; auto. apply IHtr, quiet_step; auto. Qed.

Lemma nothing_after_stopped : forall cap tr1 tr2,
  s_resolved (run (init_cap cap) tr1) = true ->
  (forall kd, effective (run (init_cap cap) (tr1 ++ tr2)) (Connect kd) = false) /\
  (forall c k, effective (run (init_cap cap) (tr1 ++ tr2)) (Conn c (CStart k)) = true ->
     (k < s_next (run (init_cap cap) tr1))%N /\
     exists x, nth_error (s_conns (run (init_cap cap) (tr1 ++ tr2))) c = Some x /\ c_kind x = KWs /\ c_closed x = true).
Proof.
  intros cap tr1 tr2 R. rewrite run_app. set (s1 := run (init_cap cap) tr1) in *.
  pose proof (run_sinv tr1 (init_cap cap) (sinv_init cap)) as I. fold s1 in I.
  assert (Q : quiet (s_next s1) s1).
  { split; auto. destruct I as (I1 & I2 & I3 & I4). split; auto.
    eapply Forall_impl; try eassumption. intros x [_ B]. exact B. }
  pose proof (quiet_run tr2 _ _ Q) as (I' & D & T). set (s2 := run s1 tr2) in *.
  split.
  - intros kd. unfold effective, step. rewrite (all_dropped_accept _ D). reflexivity.
  - intros c k E. rewrite effective_conn in E.
    destruct (nth_error (s_conns s2) c) eqn:N1; try discriminate.
    destruct (cstep (sig s2) c0 (CStart k)) eqn:St; try discriminate.
    unfold cstep in St. destruct (set_first (k, TSpawned) (k, TExec) (c_tasks c0)) eqn:SF; try discriminate.
    pose proof (set_first_in _ _ _ _ SF) as In1.
    split.
    + pose proof (Forall_nth _ _ _ _ _ T N1) as B. simpl in B. rewrite Forall_forall in B. apply (B _ In1).
    + exists c0. split; auto.
      destruct I' as (I1 & _).
      assert (P : c_phase c0 = PDone) by (apply phase_done_eq; eapply forallb_nth; eauto; apply all_dropped_conns; auto).
      destruct (done_conn c0 (Forall_nth _ _ _ _ _ I1 N1) P) as (_ & _ & _ & K & _).
      apply K. intro Z. rewrite Z in In1. destruct In1.
Qed.

(* ------------------------------------------------------------------ C10: stop twice, drop handles *)

Lemma sig_mono : forall s a, sig s = true -> sig (fst (step s a)) = true.
Proof.
  intros s a H. unfold sig in *.
  destruct a; unfold step;
    repeat match goal with |- context [match ?e with _ => _ end] => destruct e eqn:? end;
    simpl in *; auto;
    try (match goal with E : s_handles _ = _ |- _ => rewrite E end; simpl; auto using orb_true_r; fail);
    try (apply orb_true_iff in H; destruct H as [H | H]; [rewrite H; auto | discriminate]).
Qed.

(* lifted to whole executions: once up, the signal is up in every later state; once resolved, `stopped` stays resolved *)
Lemma sig_run : forall tr s, sig s = true -> sig (run s tr) = true.
Proof. induction tr as [|a r IH]; cbn [run]; intros s H; [exact H|]. apply IH, sig_mono, H. Qed.

Lemma resolved_mono : forall s a, s_resolved s = true -> s_resolved (fst (step s a)) = true.
Proof.
  intros s a H.
  destruct a; unfold step;
    repeat match goal with |- context [match ?e with _ => _ end] => destruct e eqn:? end;
    simpl in *; auto.
Qed.

Lemma resolved_run : forall tr s, s_resolved s = true -> s_resolved (run s tr) = true.
Proof. induction tr as [|a r IH]; cbn [run]; intros s H; [exact H|]. apply IH, resolved_mono, H. Qed.

Lemma stop_monotone : forall cap tr1 tr2,
  (sig (run (init_cap cap) tr1) = true -> sig (run (init_cap cap) (tr1 ++ tr2)) = true) /\
  (s_resolved (run (init_cap cap) tr1) = true -> s_resolved (run (init_cap cap) (tr1 ++ tr2)) = true).
Proof. intros cap tr1 tr2. rewrite run_app. split; [apply sig_run | apply resolved_run]. Qed.

Lemma stop_idempotent : forall s,
  let s1 := fst (step s Stop) in
  fst (step s1 Stop) = s1 /\
  s_conns s1 = s_conns s /\ s_accept s1 = s_accept s /\ s_handles s1 = s_handles s /\
  s_resolved s1 = s_resolved s /\ s_next s1 = s_next s /\
  (snd (step s Stop) = OStopOk \/ snd (step s Stop) = OStopAlready \/ snd (step s Stop) = ONoHandle) /\
  (snd (step s Stop) = OStopAlready <-> (s_handles s <> 0 /\ all_dropped s = true)) /\
  (snd (step s1 Stop) = OStopOk \/ snd (step s1 Stop) = OStopAlready \/ snd (step s1 Stop) = ONoHandle).
Proof.
  intros s. unfold step. destruct (s_handles s) eqn:Hn; simpl.
  - rewrite Hn. simpl. intuition (try discriminate; try congruence).
  - destruct (all_dropped s) eqn:D; simpl; rewrite ?Hn; simpl.
    + rewrite D. simpl. intuition (try discriminate; try congruence).
    + unfold all_dropped, accept_done in *. simpl. rewrite D. simpl. intuition (try discriminate; try congruence).
Qed.

Lemma drop_handle_harmless : forall s,
  let s1 := fst (step s DropHandle) in
  s_conns s1 = s_conns s /\ s_accept s1 = s_accept s /\ s_stop s1 = s_stop s /\ s_resolved s1 = s_resolved s /\
  s_handles s1 = pred (s_handles s) /\
  (snd (step s DropHandle) = OOk \/ snd (step s DropHandle) = ONoHandle) /\
  (s_handles s = 1 -> sig s1 = true).
Proof.
  intros s. unfold step. destruct (s_handles s) eqn:Hn; simpl; repeat split; auto; try discriminate.
  intros E. inversion E; subst. unfold sig. simpl. apply orb_true_r.
Qed.

(* ------------------------------------------------------------------ C10: no hang (progress) *)

Definition cact_internal (a : cact) : bool := match a with CDisconnect | CSubOpen => false | _ => true end.

Lemma internal_conn : forall c a, internal (Conn c a) = cact_internal a.
Proof. destruct a; reflexivity. Qed.

Lemma set_first_head : forall k a b r, set_first (k, a) (k, b) ((k, a) :: r) = Some ((k, b) :: r).
Proof. intros. simpl. rewrite task_eqb_refl. reflexivity. Qed.

(* the queue capacity is a constant of the server, copied into every connection *)
Lemma cstep_cap : forall sg x a x', cstep sg x a = Some x' -> c_cap x' = c_cap x.
Proof.
  intros sg [kd inb tk q w ph wr ws cl tok sb cp] a x' H.
  destruct a; cstep_cases H; simpl in *; auto.
Qed.

Lemma csend_cap : forall x n x', csend x n = Some x' -> c_cap x' = c_cap x.
Proof.
  intros [kd inb tk q w ph wr ws cl tok sb cp] n x' H. unfold csend in H. simpl in H.
  destruct cl; inversion H; subst. reflexivity.
Qed.

Definition capinv (s : state) : Prop := Forall (fun x => c_cap x = s_cap s) (s_conns s).

Lemma step_cap : forall s a, s_cap (fst (step s a)) = s_cap s.
Proof.
  intros s a. destruct a; unfold step;
    repeat match goal with |- context [match ?e with _ => _ end] => destruct e eqn:? end; reflexivity.
Qed.

Lemma step_capinv : forall s a, capinv s -> capinv (fst (step s a)).
Proof.
  intros s a I. unfold capinv in *. rewrite step_cap.
  destruct a; unfold step.
  - destruct (s_accept s); simpl; auto. apply Forall_app_one; auto; destruct k; reflexivity.
  - destruct (nth_error (s_conns s) c) eqn:E; simpl; auto.
    destruct (csend c0 (s_next s)) eqn:E2; simpl; auto.
    apply Forall_upd; auto. rewrite (csend_cap _ _ _ E2). exact (Forall_nth _ (fun x => c_cap x = s_cap s) _ _ _ I E).
  - destruct (nth_error (s_conns s) c) eqn:E; simpl; auto.
    destruct (cstep (sig s) c0 a) eqn:E2; simpl; auto.
    apply Forall_upd; auto. rewrite (cstep_cap _ _ _ _ E2). exact (Forall_nth _ (fun x => c_cap x = s_cap s) _ _ _ I E).
  - destruct (s_accept s); try destruct (sig s); simpl; auto.
  - destruct (s_accept s); try destruct (forallb (fun x => negb (c_tok x)) (s_conns s)); simpl; auto.
  - destruct (s_handles s); try destruct (all_dropped s); simpl; auto.
  - destruct (s_handles s); simpl; auto.
  - destruct (s_handles s); simpl; auto.
  - destruct (s_handles s); try destruct (all_dropped s && negb (s_resolved s)); simpl; auto.
Qed.

Lemma run_capinv : forall tr s, capinv s -> capinv (run s tr) /\ s_cap (run s tr) = s_cap s.
Proof.
  induction tr; simpl; intros; auto.
  destruct (IHtr _ (step_capinv s a H)) as [A B]. split; auto. rewrite B. apply step_cap.
Qed.

Lemma conn_progress : forall x, cinv x -> 1 <= c_cap x -> c_phase x <> PDone ->
  exists a, cact_internal a = true /\ cstep true x a <> None.
Proof.
  intros [kd inb tk q w ph wr ws cl tok sb cp] I Cp D. unfold cinv in I. simpl in *.
  destruct kd.
  - (* HTTP *)
    destruct I as (I1 & I2 & I3 & I4 & I5 & I6 & I7).
    destruct ph; try congruence.
    + exists CSeeStop. split; auto. simpl. destruct (is_nil tk); discriminate.
    + destruct tk as [|[k ts] r]; [exfalso; apply I6; auto |].
      destruct r; [| simpl in I3; lia].
      destruct ts.
      * exists (CStart k). split; auto. unfold cstep. simpl c_tasks. rewrite set_first_head. discriminate.
      * exists (CFinish k). split; auto. unfold cstep. simpl c_tasks. rewrite set_first_head. discriminate.
      * exists CWrite. split; auto. simpl. discriminate.
  - (* WS *)
    destruct I as (I1 & I2 & I3 & I4 & I5).
    destruct ph; try congruence.
    + exists CSeeStop. split; auto. simpl. discriminate.
    + destruct tk as [|[k ts] r].
      * exists CGracefulEnd. split; auto. simpl. discriminate.
      * destruct ts.
        -- exists (CStart k). split; auto. unfold cstep. simpl c_tasks. rewrite set_first_head. discriminate.
        -- exists (CFinish k). split; auto. unfold cstep. simpl c_tasks. rewrite set_first_head. discriminate.
        -- (* a returned call: it is queued if there is room (or the queue is closed), else the writer can write *)
           destruct wr.
           ++ destruct (Nat.ltb (length q) cp) eqn:L.
              ** exists (CEnqueue k). split; auto. unfold cstep. simpl c_kind. simpl c_tasks. simpl remove_first.
                 rewrite task_eqb_refl. simpl. rewrite L. discriminate.
              ** apply Nat.ltb_ge in L. destruct q; [simpl in L; lia |].
                 exists CWrite. split; auto. simpl. destruct cl; discriminate.
           ++ exists (CEnqueue k). split; auto. unfold cstep. simpl c_kind. simpl c_tasks. simpl remove_first.
              rewrite task_eqb_refl. discriminate.
    + assert (S : ws = true) by (apply I2; auto). subst.
      destruct wr.
      * destruct q.
        -- exists CWriterStop. split; auto. simpl. discriminate.
        -- exists CWrite. split; auto. simpl. destruct cl; discriminate.
      * exists CBgDone. split; auto. simpl. discriminate.
Qed.

Lemma forallb_false_nth : forall A (p : A -> bool) l, forallb p l = false -> exists n x, nth_error l n = Some x /\ p x = false.
Proof.
  induction l; simpl; intros; try discriminate.
  destruct (p a) eqn:E.
  - simpl in H. destruct (IHl H) as (n & x & N1 & P). exists (S n), x. auto.
  - exists 0, a. auto.
Qed.

Lemma no_hang : forall cap tr, 1 <= cap -> let s := run (init_cap cap) tr in
  sig s = true -> all_dropped s = false -> exists a, internal a = true /\ effective s a = true.
Proof.
  intros cap tr Cp s Sg D.
  assert (CI : Forall (fun x => 1 <= c_cap x) (s_conns s)).
  { destruct (run_capinv tr (init_cap cap)) as [A B]; [constructor |]. fold s in A, B. simpl in B.
    unfold capinv in A. eapply Forall_impl; try eassumption. simpl. intros x Hx. rewrite Hx, B. exact Cp. }
  pose proof (run_sinv tr (init_cap cap) (sinv_init cap)) as (I1 & I2 & I3 & I4). fold s in I1, I2, I3, I4.
  destruct (s_accept s) eqn:A.
  - exists AcceptSeeStop. split; auto. unfold effective, step. rewrite A, Sg. reflexivity.
  - (* draining *)
    destruct (forallb phase_done (s_conns s)) eqn:F.
    + destruct (forallb (fun x => negb (c_tok x)) (s_conns s)) eqn:T.
      * exists AcceptDone. split; auto. unfold effective, step. rewrite A, T. reflexivity.
      * destruct (forallb_false_nth _ _ _ T) as (n & x & N1 & P).
        exists (Conn n CHyperDone). split; auto. rewrite effective_conn, N1.
        assert (Dn : c_phase x = PDone) by (apply phase_done_eq; eapply forallb_nth; eauto).
        destruct (done_conn x (Forall_nth _ _ _ _ _ I1 N1) Dn) as (_ & _ & _ & _ & K).
        unfold cstep. destruct (c_kind x).
        -- rewrite (K eq_refl) in P. discriminate.
        -- destruct (c_tok x); auto; discriminate.
    + destruct (forallb_false_nth _ _ _ F) as (n & x & N1 & P).
      assert (Dn : c_phase x <> PDone) by (intro Z; apply phase_done_eq in Z; congruence).
      destruct (conn_progress x (Forall_nth _ _ _ _ _ I1 N1) (Forall_nth _ (fun x => 1 <= c_cap x) _ _ _ CI N1) Dn) as (a & Ia & St).
      exists (Conn n a). rewrite internal_conn. split; auto. rewrite effective_conn, N1, Sg.
      destruct (cstep true x a); auto; congruence.
  - (* accept loop has returned: some connection is not done *)
    unfold all_dropped, accept_done in D. rewrite A in D. simpl in D.
    destruct (forallb_false_nth _ _ _ D) as (n & x & N1 & P).
    assert (Dn : c_phase x <> PDone) by (intro Z; apply phase_done_eq in Z; congruence).
    destruct (conn_progress x (Forall_nth _ _ _ _ _ I1 N1) (Forall_nth _ (fun x => 1 <= c_cap x) _ _ _ CI N1) Dn) as (a & Ia & St).
    exists (Conn n a). rewrite internal_conn. split; auto. rewrite effective_conn, N1, Sg.
    destruct (cstep true x a); auto; congruence.
Qed.

Lemma stopped_enabled : forall s, all_dropped s = true -> s_resolved s = false -> s_handles s <> 0 ->
  effective s StoppedResolves = true.
Proof.
  intros s D R H. unfold effective, step. destruct (s_handles s); try congruence. rewrite D, R. reflexivity.
Qed.

(* ------------------------------------------------------------------ C10: every internal step makes progress *)

Definition tweight (t : N * tstate) : nat := match snd t with TSpawned => 4 | TExec => 3 | TRet => 2 end.
Fixpoint tsum (l : list (N * tstate)) : nat := match l with [] => 0 | t :: r => tweight t + tsum r end.

Definition cmu (x : conn) : nat :=
  5 * length (c_inbox x) + tsum (c_tasks x) + length (c_queue x) +
  (match c_phase x with PReading => 3 | PGraceful => 2 | PClosing => 1 | PDone => 0 end) +
  (match c_writer x with WRun => 1 | WFin => 0 end) + (if c_tok x then 1 else 0).

Fixpoint csum (l : list conn) : nat := match l with [] => 0 | x :: r => cmu x + csum r end.

Definition mu (s : state) : nat :=
  csum (s_conns s) + (match s_accept s with ARun => 2 | ADrain => 1 | ADone => 0 end) + (if s_resolved s then 0 else 1).

Lemma tsum_app : forall a b, tsum (a ++ b) = tsum a + tsum b.
Proof. induction a; simpl; intros; auto. rewrite IHa. lia. Qed.

Lemma set_first_tsum : forall t t' l l', set_first t t' l = Some l' -> tsum l' + tweight t = tsum l + tweight t'.
Proof.
  induction l; simpl; intros; try discriminate.
  destruct (task_eqb a t) eqn:E.
  - inversion H; subst. apply task_eqb_eq in E. subst. simpl. lia.
  - destruct (set_first t t' l) eqn:S; try discriminate. inversion H; subst. simpl. specialize (IHl _ eq_refl). lia.
Qed.

Lemma remove_first_tsum : forall t l l', remove_first t l = Some l' -> tsum l' + tweight t = tsum l.
Proof.
  induction l; simpl; intros; try discriminate.
  destruct (task_eqb a t) eqn:E.
  - inversion H; subst. apply task_eqb_eq in E. subst. lia.
  - destruct (remove_first t l) eqn:S; try discriminate. inversion H; subst. simpl. specialize (IHl _ eq_refl). lia.
Qed.

Lemma cstep_decreases : forall sg x a x', cact_internal a = true -> cstep sg x a = Some x' -> cmu x' < cmu x.
Proof.
  intros sg [kd inb tk q w ph wr ws cl tok sb cp] a x' Ia H. unfold cmu.
  destruct a; try discriminate Ia; cstep_cases H; simpl in *; subst; simpl in *;
    repeat match goal with
           | HH : set_first _ _ _ = Some _ |- _ => apply set_first_tsum in HH; unfold tweight in HH; simpl in HH
           | HH : remove_first _ _ = Some _ |- _ => apply remove_first_tsum in HH; unfold tweight in HH; simpl in HH
           end;
    rewrite ?tsum_app, ?app_length; simpl; unfold tweight; simpl; try lia.
Qed.

Lemma csum_upd : forall l c x x', nth_error l c = Some x -> cmu x' < cmu x -> csum (upd c x' l) < csum l.
Proof.
  induction l; destruct c; simpl; intros; try discriminate.
  - inversion H; subst. lia.
  - specialize (IHl _ _ _ H H0). lia.
Qed.

Lemma internal_step_decreases : forall s a, internal a = true -> effective s a = true -> mu (fst (step s a)) < mu s.
Proof.
  intros s a Ia E. unfold mu.
  destruct a; try discriminate Ia.
  - rewrite internal_conn in Ia. rewrite effective_conn in E.
    destruct (nth_error (s_conns s) c) eqn:N1; try discriminate.
    destruct (cstep (sig s) c0 a) eqn:St; try discriminate.
    rewrite (step_conn_some _ _ _ _ _ N1 St). simpl.
    pose proof (csum_upd _ _ _ _ N1 (cstep_decreases _ _ _ _ Ia St)). lia.
  - unfold effective, step in *. destruct (s_accept s); try discriminate. destruct (sig s); try discriminate. simpl. lia.
  - unfold effective, step in *. destruct (s_accept s); try discriminate.
    destruct (forallb (fun x => negb (c_tok x)) (s_conns s)); try discriminate. simpl. lia.
  - unfold effective, step in *. destruct (s_handles s); try discriminate.
    destruct (all_dropped s); try discriminate. destruct (s_resolved s); try discriminate. simpl. lia.
Qed.

(* ------------------------------------------------------------------ the property-text form of "started calls are answered" *)

Lemma starts_app : forall t1 t2 s c k, starts s (t1 ++ t2) c k = starts s t1 c k + starts (run s t1) t2 c k.
Proof. induction t1; simpl; intros; auto. rewrite IHt1. lia. Qed.

Lemma started_before_stop_answered : forall cap pre post c k x,
  sig (run (init_cap cap) pre) = false ->
  effective (run (init_cap cap) pre) (Conn c (CStart k)) = true ->
  let tr := pre ++ Conn c (CStart k) :: post in
  s_resolved (run (init_cap cap) tr) = true -> nth_error (s_conns (run (init_cap cap) tr)) c = Some x -> c_closed x = false ->
  In k (c_wire x).
Proof.
  intros cap pre post c k x _ E tr R H C.
  apply (count_occ_In N.eq_dec).
  rewrite (started_calls_answered cap tr c k x R H C).
  unfold tr. rewrite starts_app. simpl. rewrite Nat.eqb_refl, N.eqb_refl, E. simpl. lia.
Qed.
