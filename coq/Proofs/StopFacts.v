(* C10 -- facts about the graceful-stop LTS (Model/Stop.v). *)
From Coq Require Import List NArith Bool Arith Lia.
From JV Require Import Model.Stop.
Import ListNotations.
Arguments N.eqb : simpl never.
Arguments N.ltb : simpl never.

(* ------------------------------------------------------------------ small list facts *)

Lemma nth_error_upd_same : forall A (l : list A) n v x, nth_error l n = Some x -> nth_error (upd n v l) n = Some v.
Proof. induction l; destruct n; simpl; intros; try discriminate; eauto. Qed.

Lemma nth_error_upd_other : forall A (l : list A) n m v, n <> m -> nth_error (upd n v l) m = nth_error l m.
Proof. induction l; destruct n, m; simpl; intros; try congruence; eauto. Qed.

Lemma length_upd : forall A (l : list A) n v, length (upd n v l) = length l.
Proof. induction l; destruct n; simpl; intros; auto. Qed.

Lemma Forall_upd : forall A (P : A -> Prop) (l : list A) n v, Forall P l -> P v -> Forall P (upd n v l).
Proof.
  induction l; destruct n; simpl; intros; auto; inversion H; subst; constructor; auto.
Qed.

Lemma forallb_upd : forall A (p : A -> bool) (l : list A) n v, forallb p l = true -> p v = true -> forallb p (upd n v l) = true.
Proof.
  induction l; destruct n; simpl; intros; auto; apply andb_true_iff in H; destruct H; apply andb_true_iff; auto.
Qed.

Lemma Forall_nth : forall A (P : A -> Prop) (l : list A) n x, Forall P l -> nth_error l n = Some x -> P x.
Proof. intros. rewrite Forall_forall in H. eapply H, nth_error_In; eauto. Qed.

Lemma forallb_nth : forall A (p : A -> bool) (l : list A) n x, forallb p l = true -> nth_error l n = Some x -> p x = true.
Proof. intros. rewrite forallb_forall in H. eapply H, nth_error_In; eauto. Qed.

(* ------------------------------------------------------------------ tasks *)

Lemma tstate_eqb_eq : forall a b, tstate_eqb a b = true <-> a = b.
Proof. destruct a, b; simpl; split; congruence. Qed.

Lemma task_eqb_eq : forall a b, task_eqb a b = true <-> a = b.
Proof.
  intros [k s] [k' s']. unfold task_eqb. simpl. rewrite andb_true_iff, N.eqb_eq, tstate_eqb_eq.
  split; [intros [-> ->]; auto | intros H; inversion H; auto].
Qed.

Lemma task_eqb_refl : forall a, task_eqb a a = true.
Proof. intros. apply task_eqb_eq. auto. Qed.

Definition cntt (u : N * tstate) (l : list (N * tstate)) : nat := length (filter (fun e => task_eqb e u) l).
Definition b2n (b : bool) : nat := if b then 1 else 0.

Lemma cntt_cons : forall u e l, cntt u (e :: l) = b2n (task_eqb e u) + cntt u l.
Proof. intros. unfold cntt. simpl. destruct (task_eqb e u); auto. Qed.

Lemma cntt_app : forall u l1 l2, cntt u (l1 ++ l2) = cntt u l1 + cntt u l2.
Proof. intros. unfold cntt. rewrite filter_app, app_length. auto. Qed.

Lemma set_first_cnt : forall t t' l l' u, set_first t t' l = Some l' ->
  cntt u l' + b2n (task_eqb t u) = cntt u l + b2n (task_eqb t' u).
Proof.
  induction l; simpl; intros; try discriminate.
  destruct (task_eqb a t) eqn:E.
  - inversion H; subst. apply task_eqb_eq in E. subst. rewrite !cntt_cons. lia.
  - destruct (set_first t t' l) eqn:S; try discriminate. inversion H; subst.
    rewrite !cntt_cons. specialize (IHl _ u eq_refl). lia.
Qed.

Lemma remove_first_cnt : forall t l l' u, remove_first t l = Some l' -> cntt u l' + b2n (task_eqb t u) = cntt u l.
Proof.
  induction l; simpl; intros; try discriminate.
  destruct (task_eqb a t) eqn:E.
  - inversion H; subst. apply task_eqb_eq in E. subst. rewrite !cntt_cons. lia.
  - destruct (remove_first t l) eqn:S; try discriminate. inversion H; subst.
    rewrite !cntt_cons. specialize (IHl _ u eq_refl). lia.
Qed.

Lemma set_first_in : forall t t' l l', set_first t t' l = Some l' -> In t l.
Proof.
  induction l; simpl; intros; try discriminate.
  destruct (task_eqb a t) eqn:E.
  - apply task_eqb_eq in E. auto.
  - destruct (set_first t t' l) eqn:S; try discriminate. eauto.
Qed.

Lemma set_first_Forall : forall (P : N * tstate -> Prop) t t' l l',
  set_first t t' l = Some l' -> Forall P l -> P t' -> Forall P l'.
Proof.
  induction l; simpl; intros; try discriminate. inversion H0; subst.
  destruct (task_eqb a t).
  - inversion H; subst. constructor; auto.
  - destruct (set_first t t' l) eqn:S; try discriminate. inversion H; subst. constructor; eauto.
Qed.

Lemma remove_first_Forall : forall (P : N * tstate -> Prop) t l l', remove_first t l = Some l' -> Forall P l -> Forall P l'.
Proof.
  induction l; simpl; intros; try discriminate. inversion H0; subst.
  destruct (task_eqb a t).
  - inversion H; subst. auto.
  - destruct (remove_first t l) eqn:S; try discriminate. inversion H; subst. constructor; eauto.
Qed.

Lemma set_first_length : forall t t' l l', set_first t t' l = Some l' -> length l' = length l.
Proof.
  induction l; simpl; intros; try discriminate.
  destruct (task_eqb a t).
  - inversion H; auto.
  - destruct (set_first t t' l) eqn:S; try discriminate. inversion H; subst. simpl. f_equal. eauto.
Qed.

Lemma set_first_nonnil : forall t t' l l', set_first t t' l = Some l' -> l' <> [].
Proof. intros. destruct l; [discriminate H | apply set_first_length in H; intro; subst; discriminate]. Qed.

(* ------------------------------------------------------------------ the per-connection invariant *)

Definition cinv (x : conn) : Prop :=
  match c_kind x with
  | KHttp =>
    c_writer x = WFin /\ c_queue x = [] /\ length (c_tasks x) <= 1 /\ c_phase x <> PClosing /\
    (c_phase x = PDone -> c_tasks x = []) /\ (c_phase x = PGraceful -> c_tasks x <> []) /\
    (c_phase x = PDone <-> c_tok x = false)
  | KWs =>
    (c_writer x = WFin -> c_queue x = []) /\
    (c_wstop x = true <-> (c_phase x = PClosing \/ c_phase x = PDone)) /\
    (c_phase x = PDone -> c_writer x = WFin) /\
    (c_closed x = false -> c_writer x = WFin -> c_wstop x = true) /\
    (c_closed x = false -> c_wstop x = true -> c_tasks x = [])
  end.

Lemma cinv_new : forall k, cinv (new_conn k).
Proof. destruct k; unfold cinv; simpl; intuition (try discriminate; try lia). Qed.

Ltac break_match :=
  match goal with
  | H : context [match ?e with _ => _ end] |- _ => destruct e eqn:?
  | |- context [match ?e with _ => _ end] => destruct e eqn:?
  end.

Ltac cstep_cases H :=
  unfold cstep, put_wire, http_done in H;
  repeat (match type of H with context [match ?e with _ => _ end] => destruct e eqn:? end);
  try discriminate H; inversion H; subst; clear H.

Lemma cinv_cstep : forall sg x a x', cinv x -> cstep sg x a = Some x' -> cinv x'.
Proof.
  intros sg [kd inb tk q w ph wr ws cl tok sb] a x' I H.
  unfold cinv in *; simpl in *.
  destruct a; cstep_cases H; simpl in *; subst; simpl in *;
    repeat match goal with
           | H : set_first _ _ _ = Some _ |- _ =>
             pose proof (set_first_length _ _ _ _ H); pose proof (set_first_nonnil _ _ _ _ H); clear H
           end;
    try (intuition (try discriminate; try congruence; try lia; auto); fail).
  (* CEnqueue on a WS connection whose writer ... *)
  all: try (destruct I as (I1 & I2 & I3 & I4 & I5);
            repeat split; intros; try discriminate; try congruence; auto;
            try (destruct I2 as [I2a I2b]; auto); fail).
Qed.
