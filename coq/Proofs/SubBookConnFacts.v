(* C06: the cap is per CONNECTION -- the lemmas behind C06_cap_is_per_connection (Props/C06.v).
   The model (Model/SubBook.v) has one semaphore per connection record, whatever entry point assembled the server
   (`Server::start` or `TowerServiceBuilder::build`); WHERE the code creates its limiter is read from the source by
   tools/translators/sub_limiter.py (Gen/SubLimiterGen.v).  Two facts, for ALL traces:
     (1) whether a subscribe call on connection c is admitted is a function of c's OWN record: open, cap, and its own
         live count -- any two histories (any caps and any events on the other connections) that agree on those decide alike;
     (2) a block of events that belong to OTHER connections (`foreign_block`: calls / writer steps / drops of another
         connection, handler-side events of a subscription of another connection) leaves c's record, its live count and
         hence the decision untouched -- inserting such a block in front of the subscribe, or removing it, changes nothing.
   Handles are numbered globally (h = number of handler invocations so far), so a block inserted in the MIDDLE of a trace
   renumbers the handles of everything behind it; (1) is the statement that covers that case (it does not care how the
   two histories are related), (2) is stated for the block right in front of the subscribe. *)
From Coq Require Import List NArith ZArith Bool Arith Lia.
From JV Require Import Model.AcceptSteps Gen.AcceptOrderGen Model.TableOps Gen.TableOpsGen Model.SubBook Proofs.SubBookFacts.
From JV Require Import Gen.SubLimiterGen.
Import ListNotations.
Arguments N.add : simpl never.
Arguments N.eqb : simpl never.

(* the connection an event belongs to, in the state in which it runs; ServerStop is global *)
Definition act_conn (s : st) (a : act) : option nat :=
  match a with
  | SubscribeCall c _ | UnsubscribeCall c _ _ | WriterStep c | ConnDrop c => Some c
  | ServerStop => None
  | Accept1 h | Accept2 h | Reject h _ | AbandonCall h _ | DropPending h | CloneSink h _ _ | DropSink h _
  | SendCheck h _ _ | SendEnqueue h _ | IsClosed h _ | HandlerReturn h _ | CloseNotify h =>
      match nth_error (subs s) h with Some b => Some (s_conn b) | None => None end
  end.

(* an event of another connection (or of no connection at all: a handle that does not exist); never the global stop *)
Definition foreign_to (c : nat) (s : st) (a : act) : Prop := a <> ServerStop /\ act_conn s a <> Some c.

Fixpoint foreign_block (c : nat) (s : st) (l : list act) : Prop :=
  match l with
  | [] => True
  | a :: l' => foreign_to c s a /\ foreign_block c (fst (step s a)) l'
  end.

(* the subscribe call reached the handler *)
Definition admitted (o : list obs) : bool := match o with OHandler _ _ _ :: _ => true | _ => false end.

(* what the decision looks at: the connection's own record and the stop flag *)
Definition admits (s : st) (c : nat) : bool :=
  match nth_error (conns s) c with
  | Some cn => c_open cn && negb (stopped s) && negb (Nat.eqb (c_permits cn) 0)
  | None => false
  end.

Lemma settle_not_handler : forall s, admitted (snd (settle s)) = false.
Proof.
  intro s. destruct (snd (settle s)) as [|ob l] eqn:E; [reflexivity|].
  assert (H : In ob (snd (settle s))) by (rewrite E; left; reflexivity).
  apply settle_obs_shape in H. destruct H as [[c [f ->]] | [c ->]]; reflexivity.
Qed.

Lemma admitted_admits : forall s c req, admitted (snd (step s (SubscribeCall c req))) = admits s c.
Proof.
  intros s c req. rewrite step_snd. unfold admits. cbn [step_core step_core_g].
  destruct (nth_error (conns s) c) as [cn|]; [|cbn [snd app]; apply settle_not_handler].
  destruct (c_open cn && negb (stopped s)); [|cbn [snd app]; apply settle_not_handler].
  destruct (c_permits cn); reflexivity.
Qed.

(* ---- (1) a function of the connection's own count ---- *)
Lemma decision_by_own_count : forall caps base meth tr c cn req,
  let s := fst (reach caps base meth tr) in
  nth_error (conns s) c = Some cn -> c_open cn = true -> stopped s = false ->
  (admitted (snd (step s (SubscribeCall c req))) = true <-> count_live s c < c_cap cn) /\
  (admitted (snd (step s (SubscribeCall c req))) = false <-> snd (step s (SubscribeCall c req)) = [ORefused c req]).
Proof.
  intros caps base meth tr c cn req s Hc Ho Hst.
  destruct (cap_respected caps base meth tr c cn Hc) as [E L]. fold s in E, L.
  destruct (subscribe_decision caps base meth tr c cn req Hc Ho Hst) as [D1 D2]. fold s in D1, D2.
  destruct (Nat.eq_dec (count_live s c) (c_cap cn)) as [Heq | Hne].
  - destruct (D1 Heq) as [R _]. rewrite R. cbn [admitted]. split; split; intro H; try discriminate; try reflexivity; lia.
  - assert (Hlt : count_live s c < c_cap cn) by lia. rewrite (D2 Hlt). cbn [admitted].
    split; split; intro H; try discriminate; try reflexivity; try assumption.
Qed.

Lemma cap_is_own_count : forall caps1 base1 meth1 tr1 caps2 base2 meth2 tr2 c cn1 cn2 req,
  let s1 := fst (reach caps1 base1 meth1 tr1) in
  let s2 := fst (reach caps2 base2 meth2 tr2) in
  nth_error (conns s1) c = Some cn1 -> nth_error (conns s2) c = Some cn2 ->
  c_open cn1 = true -> c_open cn2 = true -> stopped s1 = false -> stopped s2 = false ->
  c_cap cn1 = c_cap cn2 -> count_live s1 c = count_live s2 c ->
  admitted (snd (step s1 (SubscribeCall c req))) = admitted (snd (step s2 (SubscribeCall c req))) /\
  (admitted (snd (step s1 (SubscribeCall c req))) = true <-> count_live s1 c < c_cap cn1) /\
  (admitted (snd (step s1 (SubscribeCall c req))) = false <-> snd (step s1 (SubscribeCall c req)) = [ORefused c req]).
Proof.
  intros caps1 base1 meth1 tr1 caps2 base2 meth2 tr2 c cn1 cn2 req s1 s2 H1 H2 O1 O2 S1 S2 Ec El.
  destruct (decision_by_own_count caps1 base1 meth1 tr1 c cn1 req H1 O1 S1) as [A1 B1]. fold s1 in A1, B1.
  destruct (decision_by_own_count caps2 base2 meth2 tr2 c cn2 req H2 O2 S2) as [A2 _]. fold s2 in A2.
  split; [|split; assumption].
  destruct (admitted (snd (step s1 (SubscribeCall c req)))) eqn:E1;
    destruct (admitted (snd (step s2 (SubscribeCall c req)))) eqn:E2; try reflexivity.
  - assert (count_live s1 c < c_cap cn1) by (apply A1; reflexivity).
    assert (count_live s2 c < c_cap cn2) by lia. apply A2 in H0. discriminate.
  - assert (count_live s2 c < c_cap cn2) by (apply A2; reflexivity).
    assert (count_live s1 c < c_cap cn1) by lia. apply A1 in H0. discriminate.
Qed.

(* ---- (2) events of other connections ---- *)
Lemma apply_conn_other : forall s h b fs fc t c, s_conn b <> c ->
  nth_error (conns (apply s h b fs fc t)) c = nth_error (conns s) c /\ stopped (apply s h b fs fc t) = stopped s.
Proof. intros. split; [cbn [apply conns]; apply nth_error_upd_other; congruence | reflexivity]. Qed.

Lemma upd_conn_other : forall s d f c, d <> c ->
  nth_error (conns (upd_conn s d f)) c = nth_error (conns s) c /\ stopped (upd_conn s d f) = stopped s.
Proof. intros. split; [cbn [upd_conn set_conns conns]; apply nth_error_upd_other; congruence | reflexivity]. Qed.

Ltac other_leaf :=
  first [ split; reflexivity
        | apply apply_conn_other; assumption
        | apply upd_conn_other; assumption ].

Lemma foreign_core : forall ops old ct s a c, a <> ServerStop -> act_conn s a <> Some c ->
  nth_error (conns (fst (step_core_g ops old ct s a))) c = nth_error (conns s) c /\
  stopped (fst (step_core_g ops old ct s a)) = stopped s.
Proof.
  intros ops old ct s a c Hns Hf.
  destruct a; cbn [act_conn] in Hf; cbn [step_core_g];
    try (destruct (nth_error (subs s) h) as [b|] eqn:Hb; [|split; reflexivity];
         assert (Hd : s_conn b <> c) by congruence).
  - (* SubscribeCall *)
    assert (Hd : c0 <> c) by congruence.
    destruct (nth_error (conns s) c0) as [cn|]; [|split; reflexivity].
    destruct (c_open cn && negb (stopped s)); [|split; reflexivity].
    destruct (c_permits cn); cbn [fst]; [unfold push; apply upd_conn_other; assumption|].
    destruct (upd_conn_other (set_subs s (subs s ++ [mkSub c0 (id_base s + N.of_nat (length (subs s)))%N req (notif_meth s) SPending [] [] true false false None])) c0 (c_set_permits n) c Hd) as [E1 E2].
    split; [exact E1 | exact E2].
  - (* Accept1 *)
    destruct (holds_pending (s_state b)); [|split; reflexivity].
    destruct (ar_ok _); cbn [fst]; other_leaf.
  - (* Accept2 *)
    destruct (s_state b); cbn [fst]; other_leaf.
  - (* Reject *)
    destruct (holds_pending (s_state b)); cbn [fst]; other_leaf.
  - (* AbandonCall *)
    destruct (s_state b); cbn [fst]; try other_leaf. destruct keep; cbn [fst]; other_leaf.
  - (* DropPending *)
    destruct (s_state b); cbn [fst]; other_leaf.
  - (* CloneSink *)
    destruct (memN src (s_sinks b) && negb (memN k (s_sinks b))); cbn [fst]; other_leaf.
  - (* DropSink *)
    destruct (memN k (s_sinks b) && negb (memN k (map fst (s_inflight b)))); cbn [fst]; [|other_leaf].
    destruct old; [unfold drop_sink_old; other_leaf|].
    unfold when_performed. destruct ct; [destruct (blocking (at_guard_drop ops))|];
      unfold drop_sink, drop_sink_skipped; other_leaf.
  - (* SendCheck *)
    destruct (memN k (s_sinks b) && negb (memN k (map fst (s_inflight b)))); cbn [fst]; [|other_leaf].
    destruct (sink_closed s b); cbn [fst]; other_leaf.
  - (* SendEnqueue *)
    destruct (inflight_of k (s_inflight b)); cbn [fst]; other_leaf.
  - (* IsClosed *)
    destruct (memN k (s_sinks b)); cbn [fst]; other_leaf.
  - (* HandlerReturn *)
    destruct (s_returned b); cbn [fst]; [other_leaf|].
    destruct (s_state b); cbn [fst]; other_leaf.
  - (* CloseNotify *)
    destruct (s_ret b); cbn [fst]; other_leaf.
  - (* UnsubscribeCall *)
    assert (Hd : c0 <> c) by congruence.
    destruct (nth_error (conns s) c0) as [cn|]; [|split; reflexivity].
    destruct (c_open cn && negb (stopped s)); [|split; reflexivity].
    destruct (when_performed ct (at_unsubscribe ops) true false); cbn [fst].
    + match goal with |- context [upd_conn ?s2 c0 ?f] => destruct (upd_conn_other s2 c0 f c Hd) as [E1 E2] end.
      split; [exact E1 | exact E2].
    + apply upd_conn_other; assumption.
  - (* WriterStep *)
    assert (Hd : c0 <> c) by congruence.
    destruct (nth_error (conns s) c0) as [cn|]; [|split; reflexivity].
    destruct (c_open cn); [|split; reflexivity].
    destruct (c_queue cn); cbn [fst]; [split; reflexivity | apply upd_conn_other; assumption].
  - (* ConnDrop *)
    assert (Hd : c0 <> c) by congruence.
    destruct (nth_error (conns s) c0) as [cn|]; [|split; reflexivity].
    destruct (c_open cn); cbn [fst]; [apply upd_conn_other; assumption | split; reflexivity].
  - (* ServerStop *)
    contradiction.
Qed.

Lemma foreign_step : forall s a c, stopped s = false -> foreign_to c s a ->
  nth_error (conns (fst (step s a))) c = nth_error (conns s) c /\ stopped (fst (step s a)) = false.
Proof.
  intros s a c Hst [Hns Hf]. rewrite step_fst.
  destruct (foreign_core table_ops_gen false false s a c Hns Hf) as [E1 E2]. fold (step_core false s a) in E1, E2.
  rewrite Hst in E2. unfold settle. rewrite E2. cbn [fst]. split; assumption.
Qed.

Lemma count_live_by_record : forall s s' c, Inv s -> Inv s' ->
  nth_error (conns s') c = nth_error (conns s) c -> count_live s' c = count_live s c.
Proof.
  intros s s' c I I' E. rewrite (count_live_on s c I), (count_live_on s' c I').
  destruct (nth_error (conns s) c) as [cn|] eqn:Hc.
  - pose proof (inv_count s I _ _ Hc). pose proof (inv_count s' I' _ _ E). lia.
  - (* no such connection: no subscription names it *)
    assert (G : forall x, Inv x -> nth_error (conns x) c = None -> count_on x c = 0).
    { intros x Ix Hn. unfold count_on. apply length_zero_iff_nil.
      destruct (filter (holds_on c) (subs x)) as [|b l] eqn:F; [reflexivity|].
      assert (Hin : In b (filter (holds_on c) (subs x))) by (rewrite F; left; reflexivity).
      apply filter_In in Hin. destruct Hin as [Hin Hh]. apply In_nth_error in Hin. destruct Hin as [h Hb].
      destruct (inv_sub x Ix _ _ Hb) as [_ [_ [Hlt _]]]. unfold holds_on in Hh. apply andb_true_iff in Hh. destruct Hh as [Hh _].
      apply Nat.eqb_eq in Hh. apply nth_error_None in Hn. lia. }
    rewrite (G s I Hc), (G s' I' E). reflexivity.
Qed.

Lemma foreign_block_keeps : forall caps base meth mid tr c req,
  let s := fst (reach caps base meth tr) in
  let s' := fst (reach caps base meth (tr ++ mid)) in
  stopped s = false -> foreign_block c s mid ->
  nth_error (conns s') c = nth_error (conns s) c /\ stopped s' = false /\ count_live s' c = count_live s c /\
  admitted (snd (step s' (SubscribeCall c req))) = admitted (snd (step s (SubscribeCall c req))).
Proof.
  intros caps base meth mid.
  assert (G : forall tr c, stopped (fst (reach caps base meth tr)) = false -> foreign_block c (fst (reach caps base meth tr)) mid ->
            nth_error (conns (fst (reach caps base meth (tr ++ mid)))) c = nth_error (conns (fst (reach caps base meth tr))) c /\
            stopped (fst (reach caps base meth (tr ++ mid))) = false).
  { induction mid as [|a mid IH]; intros tr c Hst Hb.
    - rewrite app_nil_r. split; [reflexivity | assumption].
    - cbn [foreign_block] in Hb. destruct Hb as [Ha Hb].
      destruct (foreign_step _ a c Hst Ha) as [E1 E2].
      replace (tr ++ a :: mid) with ((tr ++ [a]) ++ mid) by (rewrite <- app_assoc; reflexivity).
      assert (Es : fst (reach caps base meth (tr ++ [a])) = fst (step (fst (reach caps base meth tr)) a)) by (rewrite reach_snoc; reflexivity).
      destruct (IH (tr ++ [a]) c) as [F1 F2]; [rewrite Es; assumption | rewrite Es; assumption |].
      split; [rewrite F1, Es; exact E1 | exact F2]. }
  intros tr c req s s' Hst Hb. destruct (G tr c Hst Hb) as [E1 E2]. fold s s' in E1, E2.
  destruct (reach_inv caps base meth tr) as [I _]. destruct (reach_inv caps base meth (tr ++ mid)) as [I' _]. fold s in I. fold s' in I'.
  split; [exact E1|]. split; [exact E2|]. split; [apply count_live_by_record; assumption|].
  rewrite !admitted_admits. unfold admits. rewrite E1, E2, Hst. reflexivity.
Qed.

Lemma cap_is_per_connection :
  (forall caps1 base1 meth1 tr1 caps2 base2 meth2 tr2 c cn1 cn2 req,
     let s1 := fst (reach caps1 base1 meth1 tr1) in
     let s2 := fst (reach caps2 base2 meth2 tr2) in
     nth_error (conns s1) c = Some cn1 -> nth_error (conns s2) c = Some cn2 ->
     c_open cn1 = true -> c_open cn2 = true -> stopped s1 = false -> stopped s2 = false ->
     c_cap cn1 = c_cap cn2 -> count_live s1 c = count_live s2 c ->
     admitted (snd (step s1 (SubscribeCall c req))) = admitted (snd (step s2 (SubscribeCall c req))) /\
     (admitted (snd (step s1 (SubscribeCall c req))) = true <-> count_live s1 c < c_cap cn1) /\
     (admitted (snd (step s1 (SubscribeCall c req))) = false <-> snd (step s1 (SubscribeCall c req)) = [ORefused c req])) /\
  (forall caps base meth tr mid c req,
     let s := fst (reach caps base meth tr) in
     let s' := fst (reach caps base meth (tr ++ mid)) in
     stopped s = false -> foreign_block c s mid ->
     nth_error (conns s') c = nth_error (conns s) c /\ stopped s' = false /\ count_live s' c = count_live s c /\
     admitted (snd (step s' (SubscribeCall c req))) = admitted (snd (step s (SubscribeCall c req)))).
Proof.
  split.
  - exact cap_is_own_count.
  - intros caps base meth tr mid c req. exact (foreign_block_keeps caps base meth mid tr c req).
Qed.

(* ---- where the code creates the limiter (read from server/src on every check) ---- *)
Lemma limiter_created_per_connection :
  sub_limiter_scope = PerConnection /\ Forall (fun site => snd site = PerConnection) sub_limiter_sites.
Proof. split; [reflexivity | repeat constructor]. Qed.
