(* C04 / C06: invariants of the subscription LTS (Model/SubBook.v), proved for every trace by induction over
   `fold_left`, and the lemmas the property theorems in Props/C04.v, Props/C06.v are closed with. *)
From Coq Require Import List NArith ZArith Bool Arith Lia.
From JV Require Import Model.AcceptSteps Gen.AcceptOrderGen Model.TableOps Gen.TableOpsGen Model.SubBook.
Import ListNotations.
Arguments N.add : simpl never.
Arguments N.eqb : simpl never.

(* ------------------------------------------------------------------ list helpers *)
Lemma nth_error_upd : forall A (f : A -> A) l n m,
  nth_error (upd n f l) m = if Nat.eqb m n then option_map f (nth_error l n) else nth_error l m.
Proof.
  induction l as [|a l IH]; intros n m.
  - cbn. destruct m, n; cbn; try reflexivity; destruct (Nat.eqb m n); reflexivity.
  - destruct n, m; cbn; try reflexivity. apply IH.
Qed.

Lemma nth_error_upd_same : forall A (f : A -> A) l n b, nth_error l n = Some b -> nth_error (upd n f l) n = Some (f b).
Proof. intros. rewrite nth_error_upd, Nat.eqb_refl, H. reflexivity. Qed.

Lemma nth_error_upd_other : forall A (f : A -> A) l n m, m <> n -> nth_error (upd n f l) m = nth_error l m.
Proof. intros. rewrite nth_error_upd. destruct (Nat.eqb_spec m n); [contradiction | reflexivity]. Qed.

Lemma length_upd : forall A (f : A -> A) l n, length (upd n f l) = length l.
Proof. induction l; intros [|n]; cbn; auto. Qed.

Lemma upd_none : forall A (f : A -> A) l n, nth_error l n = None -> upd n f l = l.
Proof. induction l; intros [|n] H; cbn in *; try reflexivity; try discriminate. f_equal. auto. Qed.

Lemma nth_error_snoc : forall A (l : list A) x n,
  nth_error (l ++ [x]) n = if Nat.ltb n (length l) then nth_error l n else if Nat.eqb n (length l) then Some x else None.
Proof.
  intros. destruct (Nat.ltb_spec n (length l)).
  - apply nth_error_app1; assumption.
  - rewrite nth_error_app2 by assumption. destruct (Nat.eqb_spec n (length l)).
    + subst. rewrite Nat.sub_diag. reflexivity.
    + destruct (n - length l) eqn:E; [lia|]. cbn. destruct n1; reflexivity.
Qed.

Lemma nth_error_map' : forall A B (g : A -> B) l n, nth_error (map g l) n = option_map g (nth_error l n).
Proof. induction l; intros [|n]; cbn; auto. Qed.

Lemma memN_In : forall k l, memN k l = true <-> In k l.
Proof.
  intros. unfold memN. rewrite existsb_exists. split.
  - intros [x [Hx E]]. apply N.eqb_eq in E. subst. assumption.
  - intro. exists k. split; [assumption | apply N.eqb_refl].
Qed.

Lemma removeN_In : forall k l x, In x (removeN k l) <-> In x l /\ x <> k.
Proof.
  intros. unfold removeN. rewrite filter_In. split; intros [H1 H2]; split; auto.
  - intro. subst. rewrite N.eqb_refl in H2. discriminate.
  - apply negb_true_iff. apply N.eqb_neq. assumption.
Qed.

Lemma key_eqb_eq : forall a b, key_eqb a b = true <-> a = b.
Proof.
  intros [a1 a2] [b1 b2]. unfold key_eqb. cbn. rewrite andb_true_iff, Nat.eqb_eq, N.eqb_eq. split.
  - intros [-> ->]. reflexivity.
  - intro H. inversion H. auto.
Qed.

Lemma mem_key_In : forall k t, mem_key k t = true <-> In k t.
Proof.
  intros. unfold mem_key. rewrite existsb_exists. split.
  - intros [x [Hx E]]. apply key_eqb_eq in E. subst. assumption.
  - intro. exists k. split; [assumption | apply key_eqb_eq; reflexivity].
Qed.

Lemma remove_key_In : forall k t x, In x (remove_key k t) <-> In x t /\ x <> k.
Proof.
  intros. unfold remove_key. rewrite filter_In. split; intros [H1 H2]; split; auto.
  - intro. subst. rewrite (proj2 (key_eqb_eq k k) eq_refl) in H2. discriminate.
  - apply negb_true_iff. destruct (key_eqb x k) eqn:E; [|reflexivity]. apply key_eqb_eq in E. contradiction.
Qed.

Lemma filter_map_app : forall A B (f : A -> option B) l1 l2, filter_map f (l1 ++ l2) = filter_map f l1 ++ filter_map f l2.
Proof. induction l1; intros; cbn; [reflexivity|]. destruct (f a); cbn; rewrite IHl1; reflexivity. Qed.

Lemma filter_length_upd : forall A (p : A -> bool) (f : A -> A) l h b, nth_error l h = Some b ->
  length (filter p (upd h f l)) + (if p b then 1 else 0) = length (filter p l) + (if p (f b) then 1 else 0).
Proof.
  induction l as [|a l IH]; intros [|h] b H; cbn in *; try discriminate.
  - inversion H; subst. destruct (p b), (p (f b)); cbn; lia.
  - specialize (IH h b H). destruct (p a); cbn; lia.
Qed.

Lemma inflight_of_In : forall k l x, inflight_of k l = Some x -> In (k, x) l.
Proof.
  intros k l x. unfold inflight_of. destruct (find _ l) as [[k' x']|] eqn:E; [|discriminate].
  intro H. inversion H; subst. apply find_some in E. destruct E as [E1 E2]. cbn in E2. apply N.eqb_eq in E2. subst. assumption.
Qed.

Lemma remove_inflight_In : forall k l p, In p (remove_inflight k l) -> In p l /\ fst p <> k.
Proof.
  intros k l p. unfold remove_inflight. rewrite filter_In. intros [H1 H2]. split; [assumption|].
  intro. subst. rewrite N.eqb_refl in H2. discriminate.
Qed.

(* ------------------------------------------------------------------ invariants *)
(* a subscription occupies a slot of its connection while its pending sink or at least one clone is alive *)
Definition live (b : sub) : bool :=
  match s_state b with
  | SPending | SAccepting | SAbandoned => true
  | SActive => match s_sinks b with [] => false | _ => true end
  | _ => false
  end.

Definition sub_ok (base meth : N) (nconns h : nat) (b : sub) : Prop :=
  s_id b = (base + N.of_nat h)%N /\ s_meth b = meth /\ s_conn b < nconns /\
  s_has_permit b = live b /\
  (s_state b <> SActive -> s_sinks b = [] /\ s_inflight b = [] /\ s_ret b = None /\ s_unsubscribed b = false) /\
  (forall k x, In (k, x) (s_inflight b) -> In k (s_sinks b)) /\
  (s_state b = SActive -> s_sinks b = [] -> s_unsubscribed b = true) /\
  (forall v, s_ret b = Some v -> s_returned b = true /\ v <> CNone) /\
  (s_state b = SRejected \/ s_state b = SDone -> s_returned b = true).

(* the key under which an active, not yet unsubscribed subscription sits in the table *)
Definition akey (b : sub) : option (nat * N) :=
  match s_state b with SActive => if s_unsubscribed b then None else Some (key_of b) | _ => None end.

Definition holds_on (c : nat) (b : sub) : bool := Nat.eqb (s_conn b) c && s_has_permit b.
Definition count_on (s : st) (c : nat) : nat := length (filter (holds_on c) (subs s)).

Definition accepted (b : sub) : Prop := s_state b = SAccepting \/ s_state b = SActive.

(* every notification is preceded, on the same connection, by a response that accepted its subscription id *)
Definition notif_after_accept (l : list frame) : Prop :=
  forall pre f post, l = pre ++ f :: post -> is_notif f = true -> exists req, In (FSubOk req (frame_sid f)) pre.

Definition closing_of (sid : N) (f : frame) : bool := is_notif f && is_closing f && N.eqb (frame_sid f) sid.
Definition count_closing (sid : N) (l : list frame) : nat := length (filter (closing_of sid) l).
Definition ret_pending (b : sub) : nat := match s_ret b with Some _ => 1 | None => 0 end.

Definition b2n (b : bool) : nat := if b then 1 else 0.

Record Inv (s : st) : Prop := mkInv {
  inv_sub : forall h b, nth_error (subs s) h = Some b -> sub_ok (id_base s) (notif_meth s) (length (conns s)) h b;
  inv_table : forall k, In k (table s) <-> exists h b, nth_error (subs s) h = Some b /\ akey b = Some k;
  inv_count : forall c cn, nth_error (conns s) c = Some cn -> c_permits cn + count_on s c = c_cap cn;
  inv_frames : forall c cn f, nth_error (conns s) c = Some cn -> In f (sent cn) -> is_notif f = true ->
      exists h b, nth_error (subs s) h = Some b /\ s_conn b = c /\ s_id b = frame_sid f /\ s_meth b = frame_meth f /\
                  s_state b = SActive;
  inv_accepted : forall h b, nth_error (subs s) h = Some b -> accepted b ->
      exists cn, nth_error (conns s) (s_conn b) = Some cn /\ In (FSubOk (s_req b) (s_id b)) (sent cn);
  inv_order : forall c cn, nth_error (conns s) c = Some cn -> notif_after_accept (sent cn);
  inv_closing : forall h b cn, nth_error (subs s) h = Some b -> nth_error (conns s) (s_conn b) = Some cn ->
      count_closing (s_id b) (sent cn) + ret_pending b <= 1 /\
      (1 <= count_closing (s_id b) (sent cn) -> s_returned b = true) }.

(* what the handler produced for handle h: the items of its sends that returned Ok, in order *)
Definition log_item (h : nat) (ob : obs) : option N :=
  match ob with OSendResult h' _ x true => if Nat.eqb h' h then Some x else None | _ => None end.
Definition log_of (h : nat) (o : list obs) : list N := filter_map (log_item h) o.

Record InvO (s : st) (o : list obs) : Prop := mkInvO {
  io_fifo : forall h b cn, nth_error (subs s) h = Some b -> nth_error (conns s) (s_conn b) = Some cn ->
      filter_map (plain_item (s_id b)) (sent cn) = log_of h o;
  io_bound : forall h k x ok, In (OSendResult h k x ok) o -> h < length (subs s);
  io_unsub : forall h b, nth_error (subs s) h = Some b -> s_state b = SActive -> s_unsubscribed b = true ->
      s_sinks b <> [] -> exists req, In (OUnsubAnswer (s_conn b) req (s_id b) true) o }.

(* monotone facts of one step, used for "once closed, stays closed" *)
Definition same_static (b b' : sub) : Prop :=
  s_conn b' = s_conn b /\ s_id b' = s_id b /\ s_req b' = s_req b /\ s_meth b' = s_meth b.
Definition Mono (s s' : st) : Prop :=
  (forall c, conn_open s' c = true -> conn_open s c = true) /\
  (forall h b, nth_error (subs s) h = Some b ->
     exists b', nth_error (subs s') h = Some b' /\ same_static b b' /\
                (s_state b = SActive -> s_state b' = SActive /\ (s_unsubscribed b = true -> s_unsubscribed b' = true))).

Lemma Mono_refl : forall s, Mono s s.
Proof. intro s. split; [auto|]. intros h b H. exists b. repeat split; auto. Qed.

Lemma Mono_trans : forall s1 s2 s3, Mono s1 s2 -> Mono s2 s3 -> Mono s1 s3.
Proof.
  intros s1 s2 s3 [A1 B1] [A2 B2]. split; [auto|].
  intros h b H. destruct (B1 _ _ H) as [b2 [H2 [[S1 [S2 [S3 S4]]] M2]]]. destruct (B2 _ _ H2) as [b3 [H3 [[T1 [T2 [T3 T4]]] M3]]].
  exists b3. split; [assumption|]. split; [unfold same_static; repeat split; congruence|].
  intro Ha. destruct (M2 Ha) as [Ha2 U2]. destruct (M3 Ha2) as [Ha3 U3]. split; auto.
Qed.

Lemma akey_key : forall b k, akey b = Some k -> k = key_of b /\ s_state b = SActive /\ s_unsubscribed b = false.
Proof.
  intros b k. unfold akey. destruct (s_state b); try discriminate. destruct (s_unsubscribed b); try discriminate.
  intro H. inversion H. auto.
Qed.

Lemma ids_inj : forall s h1 h2 b1 b2, Inv s -> nth_error (subs s) h1 = Some b1 -> nth_error (subs s) h2 = Some b2 ->
  s_id b1 = s_id b2 -> h1 = h2.
Proof.
  intros s h1 h2 b1 b2 I H1 H2 E.
  destruct (inv_sub s I _ _ H1) as [E1 _]. destruct (inv_sub s I _ _ H2) as [E2 _].
  rewrite E1, E2 in E. apply N.add_cancel_l in E. apply Nat2N.inj in E. assumption.
Qed.

Lemma filter_map_none : forall A B (f : A -> option B) l, (forall a, In a l -> f a = None) -> filter_map f l = [].
Proof.
  induction l as [|a l IH]; intro H; cbn; [reflexivity|]. rewrite (H a (or_introl eq_refl)). apply IH. intros. apply H. right. assumption.
Qed.

Lemma log_of_app : forall h o1 o2, log_of h (o1 ++ o2) = log_of h o1 ++ log_of h o2.
Proof. intros. apply filter_map_app. Qed.

Lemma count_closing_app : forall sid l1 l2, count_closing sid (l1 ++ l2) = count_closing sid l1 + count_closing sid l2.
Proof. intros. unfold count_closing. rewrite filter_app, app_length. reflexivity. Qed.

Lemma count_closing_zero : forall sid l, (forall f, In f l -> is_notif f = true -> frame_sid f <> sid) -> count_closing sid l = 0.
Proof.
  intros sid l H. unfold count_closing. induction l as [|f l IH]; cbn; [reflexivity|].
  assert (E : closing_of sid f = false).
  { unfold closing_of. destruct (is_notif f) eqn:En; cbn; [|reflexivity]. destruct (is_closing f); cbn; [|reflexivity].
    apply N.eqb_neq. apply H; [left; reflexivity | assumption]. }
  rewrite E. apply IH. intros. apply H; [right|]; assumption.
Qed.

Lemma plain_item_some : forall sid f x, plain_item sid f = Some x -> is_notif f = true /\ frame_sid f = sid.
Proof.
  intros sid f x. destruct f; cbn; try discriminate. destruct closing; try discriminate.
  destruct (N.eqb_spec sid0 sid); try discriminate. intros _. auto.
Qed.

Lemma plain_none : forall sid l, (forall f, In f l -> is_notif f = true -> frame_sid f <> sid) -> filter_map (plain_item sid) l = [].
Proof.
  intros sid l H. apply filter_map_none. intros f Hf. destruct (plain_item sid f) eqn:E; [|reflexivity].
  apply plain_item_some in E. destruct E as [E1 E2]. exfalso. exact (H f Hf E1 E2).
Qed.

Lemma app_snoc_split : forall A (l : list A) g pre f post, l ++ [g] = pre ++ f :: post ->
  (post = [] /\ pre = l /\ f = g) \/ (exists post', post = post' ++ [g] /\ l = pre ++ f :: post').
Proof.
  intros A l g pre f post H.
  assert (C : post = [] \/ exists post' z, post = post' ++ [z]).
  { destruct post as [|p post]; [left; reflexivity|]. right.
    destruct (exists_last (l := p :: post)) as [q [z Hq]]; [discriminate|]. exists q, z. assumption. }
  destruct C as [-> | [post' [z ->]]].
  - left. apply app_inj_tail in H. destruct H. subst. auto.
  - right. change (pre ++ f :: post' ++ [z]) with (pre ++ (f :: post') ++ [z]) in H. rewrite app_assoc in H.
    apply app_inj_tail in H. destruct H. subst. exists post'. auto.
Qed.

Lemma naa_app : forall l extra, notif_after_accept l ->
  (forall f, In f extra -> is_notif f = true -> exists req, In (FSubOk req (frame_sid f)) l) ->
  notif_after_accept (l ++ extra).
Proof.
  intros l extra. revert l. induction extra as [|g extra IH]; intros l Hl Hx.
  - rewrite app_nil_r. assumption.
  - replace (l ++ g :: extra) with ((l ++ [g]) ++ extra) by (rewrite <- app_assoc; reflexivity).
    apply IH.
    + intros pre f post E Hn. apply app_snoc_split in E. destruct E as [[-> [-> ->]] | [post' [-> ->]]].
      * apply Hx; [left; reflexivity | assumption].
      * eapply Hl; [reflexivity | assumption].
    + intros f Hf Hn. destruct (Hx f (or_intror Hf) Hn) as [req Hr]. exists req. apply in_or_app. left. assumption.
Qed.

(* ------------------------------------------------------------------ the generic handler-side step *)
Lemma upd_lookup : forall A (f : A -> A) l n x m y, nth_error l n = Some x -> nth_error (upd n f l) m = Some y ->
  (m = n /\ y = f x) \/ (m <> n /\ nth_error l m = Some y).
Proof.
  intros A f l n x m y Hx H. rewrite nth_error_upd in H. destruct (Nat.eqb_spec m n).
  - left. subst. rewrite Hx in H. cbn in H. inversion H. auto.
  - right. auto.
Qed.

(* local conditions under which replacing subscription h (b -> b') and its connection (cn -> cn'), with table t',
   observations o1 and appended frames `extra`, keeps every invariant *)
Record local_ok (base meth : N) (n h : nat) (b b' : sub) (cn cn' : conn) (t t' : list (nat * N))
                (o1 : list obs) (extra : list frame) : Prop := mkLocal {
  lo_static : same_static b b';
  lo_subok : sub_ok base meth n h b';
  lo_active : s_state b = SActive -> s_state b' = SActive /\ (s_unsubscribed b = true -> s_unsubscribed b' = true);
  lo_accepted : accepted b -> accepted b';
  lo_conn : c_open cn' = c_open cn /\ c_cap cn' = c_cap cn /\ sent cn' = sent cn ++ extra;
  lo_permits : c_permits cn' + b2n (s_has_permit b') = c_permits cn + b2n (s_has_permit b);
  lo_table : (forall k, In k t' <-> (k <> key_of b /\ In k t) \/ akey b' = Some k) \/ (t' = t /\ akey b' = akey b);
  lo_notif : forall f, In f extra -> is_notif f = true ->
      frame_sid f = s_id b /\ frame_meth f = s_meth b /\ s_state b' = SActive /\ In (FSubOk (s_req b) (s_id b)) (sent cn);
  lo_newacc : accepted b' -> accepted b \/ In (FSubOk (s_req b) (s_id b)) (sent cn ++ extra);
  lo_closing : (count_closing (s_id b) extra + ret_pending b' <= ret_pending b \/
                (s_returned b = false /\ count_closing (s_id b) extra = 0)) /\
               (s_returned b = true -> s_returned b' = true) /\
               (1 <= count_closing (s_id b) extra -> s_returned b' = true);
  lo_fifo : forall h2, log_of h2 o1 = if Nat.eqb h2 h then filter_map (plain_item (s_id b)) extra else [];
  lo_obs : forall h' k x ok, In (OSendResult h' k x ok) o1 -> h' = h;
  lo_unsub : s_state b' = SActive -> s_unsubscribed b' = true -> s_sinks b' <> [] ->
      s_state b = SActive /\ s_unsubscribed b = true /\ s_sinks b <> [] }.

Lemma ret_pending_le : forall b, ret_pending b <= 1.
Proof. intro b. unfold ret_pending. destruct (s_ret b); lia. Qed.

Lemma apply_inv : forall s o h b cn fs fc t' o1 extra,
  Inv s -> InvO s o -> nth_error (subs s) h = Some b -> nth_error (conns s) (s_conn b) = Some cn ->
  local_ok (id_base s) (notif_meth s) (length (conns s)) h b (fs b) cn (fc cn) (table s) t' o1 extra ->
  Inv (apply s h b fs fc t') /\ InvO (apply s h b fs fc t') (o ++ o1) /\ Mono s (apply s h b fs fc t').
Proof.
  intros s o h b cn fs fc t' o1 extra I IO Hb Hcn L.
  destruct (lo_static _ _ _ _ _ _ _ _ _ _ _ _ L) as [St1 [St2 [St3 St4]]].
  destruct (lo_conn _ _ _ _ _ _ _ _ _ _ _ _ L) as [Co1 [Co2 Co3]].
  (* old subscription -> new subscription *)
  assert (T : forall h2 b2, nth_error (subs s) h2 = Some b2 ->
            exists b2', nth_error (upd h fs (subs s)) h2 = Some b2' /\ same_static b2 b2' /\
              (s_state b2 = SActive -> s_state b2' = SActive /\ (s_unsubscribed b2 = true -> s_unsubscribed b2' = true)) /\
              (accepted b2 -> accepted b2')).
  { intros h2 b2 H2. destruct (Nat.eq_dec h2 h) as [->|Ne].
    - rewrite Hb in H2. inversion H2; subst b2. exists (fs b). split; [apply nth_error_upd_same; assumption|].
      split; [exact (lo_static _ _ _ _ _ _ _ _ _ _ _ _ L)|]. split; [exact (lo_active _ _ _ _ _ _ _ _ _ _ _ _ L) | exact (lo_accepted _ _ _ _ _ _ _ _ _ _ _ _ L)].
    - exists b2. split; [rewrite nth_error_upd_other; assumption|]. unfold same_static. auto. }
  (* every frame that was sent stays sent *)
  assert (S : forall c2 cn2, nth_error (conns s) c2 = Some cn2 ->
            exists cn2', nth_error (upd (s_conn b) fc (conns s)) c2 = Some cn2' /\ (forall f, In f (sent cn2) -> In f (sent cn2'))).
  { intros c2 cn2 H2. destruct (Nat.eq_dec c2 (s_conn b)) as [->|Ne].
    - rewrite Hcn in H2. inversion H2; subst cn2. exists (fc cn). split; [apply nth_error_upd_same; assumption|].
      intros f Hf. rewrite Co3. apply in_or_app. left. assumption.
    - exists cn2. split; [rewrite nth_error_upd_other; assumption | auto]. }
  (* notifications among the appended frames carry b's own id, which no other subscription has *)
  assert (X : forall h2 b2, h2 <> h -> nth_error (subs s) h2 = Some b2 ->
            forall f, In f extra -> is_notif f = true -> frame_sid f <> s_id b2).
  { intros h2 b2 Ne H2 f Hf Hn E. destruct (lo_notif _ _ _ _ _ _ _ _ _ _ _ _ L f Hf Hn) as [E1 _].
    apply Ne. eapply ids_inj; eauto. congruence. }
  split; [|split].
  - constructor; unfold apply; cbn [subs conns table id_base notif_meth].
    + (* inv_sub *)
      intros h2 b2 H2. rewrite length_upd. destruct (upd_lookup _ _ _ _ _ _ _ Hb H2) as [[-> ->] | [Ne H2']].
      * exact (lo_subok _ _ _ _ _ _ _ _ _ _ _ _ L).
      * exact (inv_sub s I _ _ H2').
    + (* inv_table *)
      intro k. destruct (lo_table _ _ _ _ _ _ _ _ _ _ _ _ L) as [LT | [LT1 LT2]].
      * rewrite LT. split.
        -- intros [[Nk Hk] | Hk].
           ++ apply (inv_table s I) in Hk. destruct Hk as [h2 [b2 [H2 K2]]].
              assert (h2 <> h). { intro. subst h2. rewrite Hb in H2. inversion H2; subst b2. apply akey_key in K2. tauto. }
              exists h2, b2. rewrite nth_error_upd_other by assumption. auto.
           ++ exists h, (fs b). split; [apply nth_error_upd_same; assumption | assumption].
        -- intros [h2 [b2 [H2 K2]]]. destruct (upd_lookup _ _ _ _ _ _ _ Hb H2) as [[-> ->] | [Ne H2']].
           ++ right. assumption.
           ++ left. split.
              ** intro Ek. apply akey_key in K2. destruct K2 as [K2 _]. rewrite K2 in Ek. unfold key_of in Ek. inversion Ek.
                 apply Ne. eapply ids_inj; eauto.
              ** apply (inv_table s I). exists h2, b2. auto.
      * rewrite LT1, (inv_table s I). split.
        -- intros [h2 [b2 [H2 K2]]]. destruct (Nat.eq_dec h2 h) as [->|Ne].
           ++ rewrite Hb in H2. inversion H2; subst b2. exists h, (fs b). split; [apply nth_error_upd_same; assumption | congruence].
           ++ exists h2, b2. rewrite nth_error_upd_other by assumption. auto.
        -- intros [h2 [b2 [H2 K2]]]. destruct (upd_lookup _ _ _ _ _ _ _ Hb H2) as [[-> ->] | [Ne H2']].
           ++ exists h, b. split; [assumption | congruence].
           ++ exists h2, b2. auto.
    + (* inv_count *)
      intros c2 cn2 H2. unfold count_on. cbn [subs].
      pose proof (filter_length_upd _ (holds_on c2) fs _ _ _ Hb) as FL.
      destruct (upd_lookup _ _ _ _ _ _ _ Hcn H2) as [[-> ->] | [Ne H2']].
      * pose proof (inv_count s I _ _ Hcn) as IC. unfold count_on in IC.
        pose proof (lo_permits _ _ _ _ _ _ _ _ _ _ _ _ L) as LP.
        unfold holds_on in FL. rewrite St1, Nat.eqb_refl in FL. cbn [andb] in FL. unfold b2n in LP.
        rewrite Co2. unfold holds_on in *. destruct (s_has_permit b), (s_has_permit (fs b)); lia.
      * pose proof (inv_count s I _ _ H2') as IC. unfold count_on in IC.
        unfold holds_on in FL. rewrite St1 in FL. destruct (Nat.eqb_spec (s_conn b) c2); [congruence|]. cbn [andb] in FL.
        unfold holds_on in *. lia.
    + (* inv_frames *)
      intros c2 cn2 f H2 Hf Hn.
      assert (Old : In f (sent cn2) -> nth_error (conns s) c2 = Some cn2 -> exists h0 b0,
                nth_error (upd h fs (subs s)) h0 = Some b0 /\ s_conn b0 = c2 /\ s_id b0 = frame_sid f /\ s_meth b0 = frame_meth f /\ s_state b0 = SActive).
      { intros Hf' H2'. destruct (inv_frames s I _ _ _ H2' Hf' Hn) as [h0 [b0 [H0 [E1 [E2 [E3 E4]]]]]].
        destruct (T _ _ H0) as [b0' [H0' [[S1 [S2 [S3 S4]]] [Ac _]]]]. exists h0, b0'. destruct (Ac E4). repeat split; congruence. }
      destruct (upd_lookup _ _ _ _ _ _ _ Hcn H2) as [[-> ->] | [Ne H2']].
      * rewrite Co3 in Hf. apply in_app_or in Hf. destruct Hf as [Hf | Hf].
        -- destruct (inv_frames s I _ _ _ Hcn Hf Hn) as [h0 [b0 [H0 [E1 [E2 [E3 E4]]]]]].
           destruct (T _ _ H0) as [b0' [H0' [[S1 [S2 [S3 S4]]] [Ac _]]]]. exists h0, b0'. destruct (Ac E4). repeat split; congruence.
        -- destruct (lo_notif _ _ _ _ _ _ _ _ _ _ _ _ L f Hf Hn) as [E1 [E2 [E3 _]]].
           exists h, (fs b). split; [apply nth_error_upd_same; assumption|]. repeat split; congruence.
      * apply Old; assumption.
    + (* inv_accepted *)
      intros h2 b2 H2 Ha. destruct (upd_lookup _ _ _ _ _ _ _ Hb H2) as [[-> ->] | [Ne H2']].
      * rewrite St1, St2, St3. exists (fc cn). split; [apply nth_error_upd_same; assumption|]. rewrite Co3.
        destruct (lo_newacc _ _ _ _ _ _ _ _ _ _ _ _ L Ha) as [Ha' | Hin]; [|assumption].
        destruct (inv_accepted s I _ _ Hb Ha') as [cn0 [Hc0 Hin]]. rewrite Hcn in Hc0. inversion Hc0; subst cn0.
        apply in_or_app. left. assumption.
      * destruct (inv_accepted s I _ _ H2' Ha) as [cn0 [Hc0 Hin]]. destruct (S _ _ Hc0) as [cn0' [Hc0' Sub]].
        exists cn0'. auto.
    + (* inv_order *)
      intros c2 cn2 H2. destruct (upd_lookup _ _ _ _ _ _ _ Hcn H2) as [[-> ->] | [Ne H2']].
      * rewrite Co3. apply naa_app; [exact (inv_order s I _ _ Hcn)|].
        intros f Hf Hn. destruct (lo_notif _ _ _ _ _ _ _ _ _ _ _ _ L f Hf Hn) as [E1 [_ [_ E4]]]. exists (s_req b). rewrite E1. assumption.
      * exact (inv_order s I _ _ H2').
    + (* inv_closing *)
      intros h2 b2 cn2 H2 Hc2. destruct (upd_lookup _ _ _ _ _ _ _ Hb H2) as [[-> ->] | [Ne H2']].
      * rewrite St1 in Hc2. rewrite nth_error_upd_same with (b := cn) in Hc2 by assumption. inversion Hc2; subst cn2.
        rewrite St2, Co3, count_closing_app.
        destruct (inv_closing s I _ _ _ Hb Hcn) as [C1 C2].
        destruct (lo_closing _ _ _ _ _ _ _ _ _ _ _ _ L) as [[D1 | [D1 D1']] [D2 D3]].
        -- split; [lia|]. intro Hge. destruct (Nat.eq_dec (count_closing (s_id b) extra) 0) as [Z|NZ].
           ++ apply D2. apply C2. lia.
           ++ apply D3. lia.
        -- assert (count_closing (s_id b) (sent cn) = 0).
           { destruct (count_closing (s_id b) (sent cn)) eqn:E; [reflexivity|]. rewrite C2 in D1 by lia. discriminate. }
           pose proof (ret_pending_le (fs b)). split; [lia|]. intro. lia.
      * destruct (upd_lookup _ _ _ _ _ _ _ Hcn Hc2) as [[Ec ->] | [Nc Hc2']].
        -- rewrite Co3, count_closing_app.
           rewrite (count_closing_zero (s_id b2) extra) by (eapply X; eauto). rewrite Nat.add_0_r.
           rewrite <- Ec in Hcn. exact (inv_closing s I _ _ _ H2' Hcn).
        -- exact (inv_closing s I _ _ _ H2' Hc2').
  - constructor; unfold apply; cbn [subs conns table id_base notif_meth].
    + (* io_fifo *)
      intros h2 b2 cn2 H2 Hc2. rewrite log_of_app, (lo_fifo _ _ _ _ _ _ _ _ _ _ _ _ L).
      destruct (upd_lookup _ _ _ _ _ _ _ Hb H2) as [[-> ->] | [Ne H2']].
      * rewrite St1 in Hc2. rewrite nth_error_upd_same with (b := cn) in Hc2 by assumption. inversion Hc2; subst cn2.
        rewrite Nat.eqb_refl, St2, Co3, filter_map_app. f_equal. exact (io_fifo s o IO _ _ _ Hb Hcn).
      * destruct (Nat.eqb_spec h2 h); [contradiction|]. rewrite app_nil_r.
        destruct (upd_lookup _ _ _ _ _ _ _ Hcn Hc2) as [[Ec ->] | [Nc Hc2']].
        -- rewrite Co3, filter_map_app. rewrite (plain_none (s_id b2) extra) by (eapply X; eauto). rewrite app_nil_r.
           rewrite <- Ec in Hcn. exact (io_fifo s o IO _ _ _ H2' Hcn).
        -- exact (io_fifo s o IO _ _ _ H2' Hc2').
    + (* io_bound *)
      intros h2 k x ok Hin. rewrite length_upd. apply in_app_or in Hin. destruct Hin as [Hin | Hin].
      * exact (io_bound s o IO _ _ _ _ Hin).
      * apply (lo_obs _ _ _ _ _ _ _ _ _ _ _ _ L) in Hin. subst. apply nth_error_Some. congruence.
    + (* io_unsub *)
      intros h2 b2 H2 Ha Hu Hs. destruct (upd_lookup _ _ _ _ _ _ _ Hb H2) as [[-> ->] | [Ne H2']].
      * destruct (lo_unsub _ _ _ _ _ _ _ _ _ _ _ _ L Ha Hu Hs) as [Ha' [Hu' Hs']].
        destruct (io_unsub s o IO _ _ Hb Ha' Hu' Hs') as [req Hr]. exists req. rewrite St1, St2. apply in_or_app. left. assumption.
      * destruct (io_unsub s o IO _ _ H2' Ha Hu Hs) as [req Hr]. exists req. apply in_or_app. left. assumption.
  - split.
    + intros c2. unfold conn_open, apply. cbn [conns]. rewrite nth_error_upd. destruct (Nat.eqb_spec c2 (s_conn b)) as [->|].
      * rewrite Hcn. cbn. rewrite Co1. auto.
      * auto.
    + intros h2 b2 H2. destruct (T _ _ H2) as [b2' [H2' [Ss [Ac _]]]]. exists b2'. auto.
Qed.

(* ------------------------------------------------------------------ the handler-side steps, one by one *)
Lemma log_of_nil_ack : forall h, log_of h [OAck] = [].
Proof. reflexivity. Qed.

Ltac sub_fields b := destruct b as [bconn bid breq bmeth bstate bsinks binfl bperm bunsub bret_d bret].

(* steps that neither send a frame nor touch the table entry *)
Lemma lo_quiet : forall base meth n h b b' cn t o1,
  sub_ok base meth n h b' -> same_static b b' ->
  s_state b' = s_state b -> s_unsubscribed b' = s_unsubscribed b -> s_has_permit b' = s_has_permit b ->
  (s_sinks b' <> [] -> s_sinks b <> []) ->
  (ret_pending b' <= ret_pending b \/ s_returned b = false) -> (s_returned b = true -> s_returned b' = true) ->
  (forall h2, log_of h2 o1 = []) -> (forall h' k x ok, In (OSendResult h' k x ok) o1 -> h' = h) ->
  local_ok base meth n h b b' cn cn t t o1 [].
Proof.
  intros base meth n h b b' cn t o1 Hok Hst Es Eu Ep Hs Hr1 Hr2 Hl Ho.
  constructor.
  - exact Hst.
  - exact Hok.
  - intro Ha. rewrite Es, Eu. auto.
  - unfold accepted. rewrite Es. auto.
  - rewrite app_nil_r. auto.
  - rewrite Ep. reflexivity.
  - right. split; [reflexivity|]. unfold akey. destruct Hst as [E1 [E2 _]]. unfold key_of. rewrite Es, Eu, E1, E2. reflexivity.
  - intros f [].
  - unfold accepted. rewrite Es. auto.
  - cbn. split; [|split]; auto.
    + destruct Hr1; [left; lia | right; auto].
    + intro. lia.
  - intro h2. rewrite Hl. destruct (Nat.eqb h2 h); reflexivity.
  - exact Ho.
  - rewrite Es, Eu. intros. auto.
Qed.

(* accept, first half: the response is enqueued *)
Lemma lo_accept1 : forall base meth n h b cn t,
  sub_ok base meth n h b -> s_state b = SPending ->
  local_ok base meth n h b (sb_state SAccepting b) cn (c_enq (FSubOk (s_req b) (s_id b)) cn) t t [OAck] [FSubOk (s_req b) (s_id b)].
Proof.
  intros base meth n h b cn t Hok Hp.
  assert (Hok' : sub_ok base meth n h (sb_state SAccepting b)).
  { sub_fields b. unfold sub_ok, live in *. cbn in *. subst. intuition (try congruence; try discriminate). }
  constructor.
  - repeat split.
  - exact Hok'.
  - intro Ha. congruence.
  - intros _. left. reflexivity.
  - unfold sent, c_enq. cbn. rewrite app_assoc. auto.
  - reflexivity.
  - right. split; [reflexivity|]. unfold akey. cbn. rewrite Hp. reflexivity.
  - intros f [<- | []]. discriminate.
  - intros _. right. apply in_or_app. right. left. reflexivity.
  - cbn. split; [left; unfold ret_pending; cbn; lia|]. split; [auto | intro; lia].
  - intro h2. cbn. destruct (Nat.eqb h2 h); reflexivity.
  - intros h' k x ok [H | []]. discriminate.
  - cbn. intros. discriminate.
Qed.

(* the pending sink goes away unaccepted (failed accept, reject, handler returned without answering): its permit is
   released, an error response may be enqueued *)
Definition opt_frames (fo : option frame) (cn : conn) : list frame :=
  match fo with Some f => if c_open cn then [f] else [] | None => [] end.

Lemma opt_frames_in : forall fo cn f, In f (opt_frames fo cn) -> fo = Some f.
Proof. intros [g|] cn f; cbn; [destruct (c_open cn)|]; cbn; intros []; congruence || contradiction. Qed.

Lemma push_opt_conn : forall fo cn, c_open (c_push_opt fo cn) = c_open cn /\ c_cap (c_push_opt fo cn) = c_cap cn /\
  c_permits (c_push_opt fo cn) = c_permits cn /\ sent (c_push_opt fo cn) = sent cn ++ opt_frames fo cn.
Proof.
  intros [f|] cn; unfold c_push_opt, c_push, opt_frames, sent, c_enq; cbn.
  - destruct (c_open cn) eqn:E; cbn; rewrite ?E, ?app_nil_r, ?app_assoc; auto.
  - rewrite app_nil_r. auto.
Qed.

Lemma lo_fail : forall base meth n h b cn t x fo o1,
  sub_ok base meth n h b -> (s_state b = SPending \/ s_state b = SAbandoned) -> (x = SRejected \/ x = SDone) ->
  (forall f, fo = Some f -> is_notif f = false) ->
  (forall h2, log_of h2 o1 = []) -> (forall h' k y ok, In (OSendResult h' k y ok) o1 -> h' = h) ->
  local_ok base meth n h b (sb_fail x (s_has_permit b) b) cn (rel_conn (s_has_permit b) (c_push_opt fo cn)) t t o1
    (opt_frames fo cn).
Proof.
  intros base meth n h b cn t x fo o1 Hok Hp Hx Hfo Hl Ho.
  assert (Hlive : live b = true) by (unfold live; destruct Hp as [Hp | Hp]; rewrite Hp; reflexivity).
  assert (Hna : s_state b <> SActive) by (destruct Hp as [Hp | Hp]; rewrite Hp; discriminate).
  assert (Hnacc : ~ accepted b) by (unfold accepted; destruct Hp as [Hp | Hp]; rewrite Hp; intros [|]; discriminate).
  assert (Hak : akey b = None) by (unfold akey; destruct Hp as [Hp | Hp]; rewrite Hp; reflexivity).
  assert (Hperm : s_has_permit b = true).
  { destruct Hok as [_ [_ [_ [E _]]]]. rewrite E. exact Hlive. }
  assert (Hok' : sub_ok base meth n h (sb_fail x (s_has_permit b) b)).
  { rewrite Hperm. sub_fields b. unfold sub_ok, live, sb_fail, rel_sub in *. cbn in *.
    destruct Hp as [Hp | Hp]; subst; destruct Hx; subst; cbn; intuition (try congruence; try discriminate). }
  assert (Hnn : forall f, In f (opt_frames fo cn) -> is_notif f = false).
  { intros f Hf. apply Hfo. eapply opt_frames_in. eassumption. }
  destruct (push_opt_conn fo cn) as [P1 [P2 [P3 P4]]].
  rewrite Hperm in *.
  constructor.
  - unfold sb_fail, rel_sub. repeat split.
  - exact Hok'.
  - intro. contradiction.
  - intro. contradiction.
  - unfold rel_conn, c_give_permit, c_set_permits, sent in *. cbn. auto.
  - unfold rel_conn, c_give_permit, c_set_permits, sb_fail, rel_sub. cbn. rewrite P3, Hperm. cbn. lia.
  - right. split; [reflexivity|]. rewrite Hak. unfold akey, sb_fail, rel_sub. cbn. destruct Hx; subst; reflexivity.
  - intros f Hf Hn. rewrite (Hnn f Hf) in Hn. discriminate.
  - unfold accepted, sb_fail, rel_sub. cbn. destruct Hx; subst; intros [|]; discriminate.
  - rewrite (count_closing_zero (s_id b) (opt_frames fo cn)) by (intros f Hf Hn; rewrite (Hnn f Hf) in Hn; discriminate).
    split; [left; unfold ret_pending, sb_fail, rel_sub; cbn; lia|]. split; [reflexivity | intro; lia].
  - intro h2. rewrite Hl. destruct (Nat.eqb h2 h); [|reflexivity].
    symmetry. apply plain_none. intros f Hf Hn. rewrite (Hnn f Hf) in Hn. discriminate.
  - exact Ho.
  - unfold sb_fail, rel_sub. cbn. destruct Hx; subst; intros; discriminate.
Qed.

(* the subscribe call is abandoned and the pending sink lives on elsewhere: the handler future is gone, the
   middleware's answer is enqueued, the permit stays with the pending sink *)
Lemma lo_abandon : forall base meth n h b cn t f,
  sub_ok base meth n h b -> s_state b = SPending -> is_notif f = false ->
  local_ok base meth n h b (sb_returned None (sb_state SAbandoned b)) cn (c_push_opt (Some f) cn) t t [OAck]
    (opt_frames (Some f) cn).
Proof.
  intros base meth n h b cn t f Hok Hp Hf.
  assert (Hok' : sub_ok base meth n h (sb_returned None (sb_state SAbandoned b))).
  { sub_fields b. unfold sub_ok, live in *. cbn in *. subst. intuition (try congruence; try discriminate). }
  assert (Hnn : forall g, In g (opt_frames (Some f) cn) -> is_notif g = false).
  { intros g Hg. apply opt_frames_in in Hg. inversion Hg. subst. assumption. }
  destruct (push_opt_conn (Some f) cn) as [P1 [P2 [P3 P4]]].
  constructor.
  - repeat split.
  - exact Hok'.
  - intro. congruence.
  - unfold accepted. rewrite Hp. intros [|]; discriminate.
  - auto.
  - rewrite P3. reflexivity.
  - right. split; [reflexivity|]. unfold akey. cbn. rewrite Hp. reflexivity.
  - intros g Hg Hn. rewrite (Hnn g Hg) in Hn. discriminate.
  - unfold accepted. cbn. intros [|]; discriminate.
  - rewrite (count_closing_zero (s_id b) (opt_frames (Some f) cn)) by (intros g Hg Hn; rewrite (Hnn g Hg) in Hn; discriminate).
    split; [left; unfold ret_pending; cbn; lia|]. split; [reflexivity | intro; lia].
  - intro h2. cbn [log_of filter_map log_item]. destruct (Nat.eqb h2 h); [|reflexivity].
    symmetry. apply plain_none. intros g Hg Hn. rewrite (Hnn g Hg) in Hn. discriminate.
  - intros h' k y ok [H | []]. discriminate.
  - cbn. intros; discriminate.
Qed.

Lemma key_dec : forall a b : nat * N, {a = b} + {a <> b}.
Proof. intros. destruct (key_eqb a b) eqn:E; [left; apply key_eqb_eq; assumption | right; intro H; apply key_eqb_eq in H; congruence]. Qed.

(* accept, second half: the entry is inserted, accept() returns the first sink *)
Lemma lo_accept2 : forall base meth n h b cn t,
  sub_ok base meth n h b -> s_state b = SAccepting ->
  local_ok base meth n h b (sb_sinks [0%N] (sb_state SActive b)) cn cn t (key_of b :: t) [OAccept h true] [].
Proof.
  intros base meth n h b cn t Hok Hp.
  assert (Hu : s_unsubscribed b = false).
  { destruct Hok as [_ [_ [_ [_ [E _]]]]]. apply E. congruence. }
  assert (Hok' : sub_ok base meth n h (sb_sinks [0%N] (sb_state SActive b))).
  { sub_fields b. unfold sub_ok, live in *. cbn in *. subst.
    intuition (try congruence; try discriminate). subst. contradiction. }
  constructor.
  - repeat split.
  - exact Hok'.
  - intro. congruence.
  - intros _. right. reflexivity.
  - rewrite app_nil_r. auto.
  - reflexivity.
  - left. intro k. unfold akey. cbn. rewrite Hu. split.
    + intros [<- | Hk]; [right; reflexivity|]. destruct (key_dec k (key_of b)) as [->|Ne]; [right; reflexivity | left; auto].
    + intros [[_ Hk] | E]; [right; assumption | left; inversion E; reflexivity].
  - intros f [].
  - intros _. left. left. assumption.
  - cbn. split; [left; unfold ret_pending; cbn; lia|]. split; [auto | intro; lia].
  - intro h2. cbn. destruct (Nat.eqb h2 h); reflexivity.
  - intros h' k x ok [H | []]. discriminate.
  - cbn. rewrite Hu. intros. discriminate.
Qed.

Lemma sinks_active : forall base meth n h b, sub_ok base meth n h b -> s_sinks b <> [] -> s_state b = SActive.
Proof.
  intros base meth n h b Hok Hs. destruct Hok as [_ [_ [_ [_ [E _]]]]].
  destruct (s_state b) eqn:Es; try reflexivity; exfalso; apply Hs; apply E; discriminate.
Qed.

(* the repaired drop of one clone *)
Lemma lo_drop : forall base meth n h b cn t k,
  sub_ok base meth n h b -> In k (s_sinks b) -> ~ In k (map fst (s_inflight b)) ->
  let rest := removeN k (s_sinks b) in
  let last := is_nil rest in
  let r := last && s_has_permit b in
  local_ok base meth n h b
    (rel_sub r (if last then sb_unsub true (sb_sinks [] b) else sb_sinks rest b)) cn (rel_conn r cn) t
    (if last && negb (s_unsubscribed b) then remove_key (key_of b) t else t) [OAck] [].
Proof.
  intros base meth n h b cn t k Hok Hk Hnf rest last r.
  assert (Ha : s_state b = SActive). { eapply sinks_active; [eassumption|]. intro E. rewrite E in Hk. destruct Hk. }
  assert (Hperm : s_has_permit b = true).
  { destruct Hok as [_ [_ [_ [E _]]]]. rewrite E. unfold live. rewrite Ha. destruct (s_sinks b); [destruct Hk | reflexivity]. }
  assert (Hinf : forall k2 x, In (k2, x) (s_inflight b) -> In k2 rest).
  { intros k2 x Hin. apply removeN_In. split.
    - destruct Hok as [_ [_ [_ [_ [_ [E _]]]]]]. eapply E. eassumption.
    - intro. subst k2. apply Hnf. apply in_map_iff. exists (k, x). auto. }
  subst last r. destruct rest as [|k0 rest'] eqn:Er; cbn [is_nil andb]; rewrite ?Hperm; cbn [rel_sub rel_conn].
  - (* last clone *)
    assert (Hnoinf : s_inflight b = []).
    { destruct (s_inflight b) as [|[k2 x] l]; [reflexivity|]. destruct (Hinf k2 x (or_introl eq_refl)). }
    assert (Hok' : sub_ok base meth n h (sb_permit false (sb_unsub true (sb_sinks [] b)))).
    { sub_fields b. unfold sub_ok, live in *. cbn in *. subst. intuition (try congruence; try discriminate). }
    constructor.
    + repeat split.
    + exact Hok'.
    + intros _. cbn. auto.
    + intros _. right. assumption.
    + unfold c_give_permit, c_set_permits, sent. cbn. rewrite app_nil_r. auto.
    + unfold c_give_permit, c_set_permits. cbn. rewrite Hperm. cbn. lia.
    + destruct (s_unsubscribed b) eqn:Eu; cbn [negb].
      * right. split; [reflexivity|]. unfold akey. cbn. rewrite Ha, Eu. reflexivity.
      * left. intro k1. rewrite remove_key_In. unfold akey. cbn. rewrite Ha. split.
        -- intros [A B]. left. auto.
        -- intros [[A B] | E]; [auto | discriminate].
    + intros f [].
    + intros _. left. right. assumption.
    + cbn. split; [left; unfold ret_pending; cbn; lia|]. split; [auto | intro; lia].
    + intro h2. cbn. destruct (Nat.eqb h2 h); reflexivity.
    + intros h' k1 x ok [H | []]. discriminate.
    + cbn. intros _ _ F. exfalso. apply F. reflexivity.
  - (* other clones remain *)
    apply lo_quiet.
    + sub_fields b. unfold sub_ok, live in *. cbn in *. subst. intuition (try congruence; try discriminate; eauto).
    + repeat split.
    + reflexivity.
    + reflexivity.
    + reflexivity.
    + cbn. intros _ E. rewrite E in Hk. destruct Hk.
    + left. reflexivity.
    + auto.
    + reflexivity.
    + intros h' k1 x ok [H | []]. discriminate.
Qed.

Lemma Nat_eqb_sym' : forall a b, Nat.eqb a b = Nat.eqb b a.
Proof. intros. destruct (Nat.eqb_spec a b), (Nat.eqb_spec b a); congruence. Qed.

(* send, second half: the message built from the sink's own id and method is handed to the connection *)
Lemma lo_send_enq : forall base meth n h b cn t k x,
  sub_ok base meth n h b -> inflight_of k (s_inflight b) = Some x ->
  (accepted b -> In (FSubOk (s_req b) (s_id b)) (sent cn)) ->
  local_ok base meth n h b (sb_inflight (remove_inflight k (s_inflight b)) b) cn
    (c_push (FNotif (s_meth b) (s_id b) x false) cn) t t [OSendResult h k x (c_open cn)]
    (opt_frames (Some (FNotif (s_meth b) (s_id b) x false)) cn).
Proof.
  intros base meth n h b cn t k x Hok Hin Hacc.
  apply inflight_of_In in Hin.
  assert (Hk : In k (s_sinks b)). { destruct Hok as [_ [_ [_ [_ [_ [E _]]]]]]. eapply E. eassumption. }
  assert (Ha : s_state b = SActive). { eapply sinks_active; [eassumption|]. intro E. rewrite E in Hk. destruct Hk. }
  assert (Hok' : sub_ok base meth n h (sb_inflight (remove_inflight k (s_inflight b)) b)).
  { sub_fields b. unfold sub_ok, live in *. cbn in *. subst. intuition (try congruence; try discriminate).
    match goal with H : In _ (filter _ _) |- _ => apply filter_In in H; destruct H end. eauto. }
  destruct (push_opt_conn (Some (FNotif (s_meth b) (s_id b) x false)) cn) as [P1 [P2 [P3 P4]]]. cbn [c_push_opt] in *.
  constructor.
  - repeat split.
  - exact Hok'.
  - intros _. cbn. auto.
  - auto.
  - auto.
  - rewrite P3. reflexivity.
  - right. split; reflexivity.
  - intros f Hf _. apply opt_frames_in in Hf. inversion Hf; subst f. cbn. repeat split; auto. apply Hacc. right. assumption.
  - intro. left. assumption.
  - assert (Z : count_closing (s_id b) (opt_frames (Some (FNotif (s_meth b) (s_id b) x false)) cn) = 0).
    { unfold opt_frames. destruct (c_open cn); reflexivity. }
    rewrite Z. split; [left; unfold ret_pending; cbn; lia|]. split; [auto | intro; lia].
  - intro h2. unfold opt_frames. destruct (c_open cn); cbn.
    + rewrite (Nat_eqb_sym' h h2). destruct (Nat.eqb h2 h); [|reflexivity]. rewrite N.eqb_refl. reflexivity.
    + destruct (Nat.eqb h2 h); reflexivity.
  - intros h' k1 y ok [H | []]. inversion H. reflexivity.
  - cbn. auto.
Qed.

(* the closing notification, sent by the task that awaited the handler *)
Lemma lo_close_notify : forall base meth n h b cn t v,
  sub_ok base meth n h b -> s_ret b = Some v ->
  (accepted b -> In (FSubOk (s_req b) (s_id b)) (sent cn)) ->
  local_ok base meth n h b (sb_ret None b) cn (c_push_opt (close_frame b v) cn) t t [OAck] (opt_frames (close_frame b v) cn).
Proof.
  intros base meth n h b cn t v Hok Hr Hacc.
  assert (Ha : s_state b = SActive).
  { destruct Hok as [_ [_ [_ [_ [E _]]]]]. destruct (s_state b) eqn:Es; try reflexivity; destruct E as [_ [_ [E _]]]; try discriminate; congruence. }
  assert (Hret : s_returned b = true /\ v <> CNone).
  { destruct Hok as [_ [_ [_ [_ [_ [_ [_ [E _]]]]]]]]. apply E. assumption. }
  assert (Hok' : sub_ok base meth n h (sb_ret None b)).
  { sub_fields b. unfold sub_ok, live in *. cbn in *. subst. intuition (try congruence; try discriminate). }
  assert (Hf : forall f, In f (opt_frames (close_frame b v) cn) ->
            is_notif f = true /\ is_closing f = true /\ frame_sid f = s_id b /\ frame_meth f = s_meth b /\ plain_item (s_id b) f = None).
  { intros f Hin. apply opt_frames_in in Hin. destruct v; cbn in Hin; inversion Hin; subst f; cbn; auto. }
  destruct (push_opt_conn (close_frame b v) cn) as [P1 [P2 [P3 P4]]].
  constructor.
  - repeat split.
  - exact Hok'.
  - intros _. cbn. auto.
  - auto.
  - auto.
  - rewrite P3. reflexivity.
  - right. split; reflexivity.
  - intros f Hin _. destruct (Hf f Hin) as [_ [_ [E1 [E2 _]]]]. repeat split; auto. apply Hacc. right. assumption.
  - intro. left. assumption.
  - assert (Z : count_closing (s_id b) (opt_frames (close_frame b v) cn) <= 1).
    { unfold opt_frames. destruct (close_frame b v); [destruct (c_open cn)|]; unfold count_closing; cbn; try lia.
      destruct (closing_of (s_id b) f); cbn; lia. }
    unfold ret_pending at 2. rewrite Hr. cbn [sb_ret ret_pending s_ret s_returned].
    split; [left; unfold ret_pending; cbn; lia|]. destruct Hret. split; auto.
  - intro h2. cbn. destruct (Nat.eqb h2 h); [|reflexivity]. symmetry. apply filter_map_none. intros f Hin. apply Hf. assumption.
  - intros h' k1 y ok [H | []]. discriminate.
  - cbn. auto.
Qed.

(* ------------------------------------------------------------------ steps that only touch connections *)
Definition conn_rel (cn cn' : conn) : Prop :=
  c_permits cn' = c_permits cn /\ c_cap cn' = c_cap cn /\ (c_open cn' = true -> c_open cn = true) /\
  exists extra, sent cn' = sent cn ++ extra /\ forall f, In f extra -> is_notif f = false.
Definition conns_rel (cs cs' : list conn) : Prop :=
  length cs' = length cs /\ forall c cn cn', nth_error cs c = Some cn -> nth_error cs' c = Some cn' -> conn_rel cn cn'.

Lemma conn_rel_refl : forall cn, conn_rel cn cn.
Proof. intro cn. repeat split; auto. exists []. rewrite app_nil_r. split; [reflexivity | intros f []]. Qed.

Lemma conns_rel_upd : forall cs c cn fc, nth_error cs c = Some cn -> conn_rel cn (fc cn) -> conns_rel cs (upd c fc cs).
Proof.
  intros cs c cn fc Hc R. split; [apply length_upd|].
  intros c2 cn2 cn2' H2 H2'. destruct (upd_lookup _ _ _ _ _ _ _ Hc H2') as [[-> ->] | [Ne H2'']].
  - rewrite Hc in H2. inversion H2; subst. assumption.
  - rewrite H2 in H2''. inversion H2''; subst. apply conn_rel_refl.
Qed.

Lemma conns_rel_old : forall cs cs' c cn, conns_rel cs cs' -> nth_error cs c = Some cn ->
  exists cn', nth_error cs' c = Some cn' /\ conn_rel cn cn'.
Proof.
  intros cs cs' c cn [Hl R] Hc. destruct (nth_error cs' c) as [cn'|] eqn:E.
  - exists cn'. split; [reflexivity | eapply R; eassumption].
  - apply nth_error_None in E. assert (c < length cs) by (apply nth_error_Some; congruence). lia.
Qed.

Lemma conns_rel_new : forall cs cs' c cn', conns_rel cs cs' -> nth_error cs' c = Some cn' ->
  exists cn, nth_error cs c = Some cn /\ conn_rel cn cn'.
Proof.
  intros cs cs' c cn' [Hl R] Hc. destruct (nth_error cs c) as [cn|] eqn:E.
  - exists cn. split; [reflexivity | eapply R; eassumption].
  - apply nth_error_None in E. assert (c < length cs') by (apply nth_error_Some; congruence). lia.
Qed.

Definition obs_quiet (s : st) (o1 : list obs) : Prop :=
  (forall h2, log_of h2 o1 = []) /\ (forall h k x ok, In (OSendResult h k x ok) o1 -> h < length (subs s)).

Lemma InvO_quiet : forall s o o1, InvO s o -> obs_quiet s o1 -> InvO s (o ++ o1).
Proof.
  intros s o o1 IO [Q1 Q2]. constructor.
  - intros h b cn Hb Hc. rewrite log_of_app, Q1, app_nil_r. eapply io_fifo; eassumption.
  - intros h k x ok Hin. apply in_app_or in Hin. destruct Hin; [eapply io_bound; eassumption | eapply Q2; eassumption].
  - intros h b Hb Ha Hu Hs. destruct (io_unsub s o IO _ _ Hb Ha Hu Hs) as [req Hr]. exists req. apply in_or_app. auto.
Qed.

Lemma conns_inv : forall s o cs' o1, Inv s -> InvO s o -> conns_rel (conns s) cs' -> obs_quiet s o1 ->
  Inv (set_conns s cs') /\ InvO (set_conns s cs') (o ++ o1) /\ Mono s (set_conns s cs').
Proof.
  intros s o cs' o1 I IO R Q.
  assert (NN : forall sid extra, (forall f, In f extra -> is_notif f = false) ->
            count_closing sid extra = 0 /\ filter_map (plain_item sid) extra = []).
  { intros sid extra Hx. split; [apply count_closing_zero | apply plain_none]; intros f Hf Hn; rewrite (Hx f Hf) in Hn; discriminate. }
  split; [|split].
  - constructor; unfold set_conns; cbn [subs conns table id_base notif_meth].
    + intros h b Hb. destruct R as [Hl _]. rewrite Hl. exact (inv_sub s I _ _ Hb).
    + exact (inv_table s I).
    + intros c cn' Hc. destruct (conns_rel_new _ _ _ _ R Hc) as [cn [Hc0 [P1 [P2 _]]]]. rewrite P1, P2.
      exact (inv_count s I _ _ Hc0).
    + intros c cn' f Hc Hf Hn. destruct (conns_rel_new _ _ _ _ R Hc) as [cn [Hc0 [_ [_ [_ [extra [E Hx]]]]]]].
      rewrite E in Hf. apply in_app_or in Hf. destruct Hf as [Hf | Hf]; [|rewrite (Hx f Hf) in Hn; discriminate].
      exact (inv_frames s I _ _ _ Hc0 Hf Hn).
    + intros h b Hb Ha. destruct (inv_accepted s I _ _ Hb Ha) as [cn [Hc Hin]].
      destruct (conns_rel_old _ _ _ _ R Hc) as [cn' [Hc' [_ [_ [_ [extra [E _]]]]]]]. exists cn'. split; [assumption|].
      rewrite E. apply in_or_app. auto.
    + intros c cn' Hc. destruct (conns_rel_new _ _ _ _ R Hc) as [cn [Hc0 [_ [_ [_ [extra [E Hx]]]]]]]. rewrite E.
      apply naa_app; [exact (inv_order s I _ _ Hc0)|]. intros f Hf Hn. rewrite (Hx f Hf) in Hn. discriminate.
    + intros h b cn' Hb Hc. destruct (conns_rel_new _ _ _ _ R Hc) as [cn [Hc0 [_ [_ [_ [extra [E Hx]]]]]]].
      rewrite E, count_closing_app. destruct (NN (s_id b) extra Hx) as [Z _]. rewrite Z, Nat.add_0_r.
      exact (inv_closing s I _ _ _ Hb Hc0).
  - apply InvO_quiet; [|exact Q]. constructor; unfold set_conns; cbn [subs conns].
    + intros h b cn' Hb Hc. destruct (conns_rel_new _ _ _ _ R Hc) as [cn [Hc0 [_ [_ [_ [extra [E Hx]]]]]]].
      rewrite E, filter_map_app. destruct (NN (s_id b) extra Hx) as [_ Z]. rewrite Z, app_nil_r.
      exact (io_fifo s o IO _ _ _ Hb Hc0).
    + exact (io_bound s o IO).
    + exact (io_unsub s o IO).
  - split.
    + intro c. unfold conn_open, set_conns. cbn [conns]. destruct (nth_error cs' c) as [cn'|] eqn:Hc; [|discriminate].
      destruct (conns_rel_new _ _ _ _ R Hc) as [cn [Hc0 [_ [_ [Op _]]]]]. rewrite Hc0. exact Op.
    + intros h b Hb. exists b. repeat split; auto.
Qed.

Lemma conn_upd_inv : forall s o c cn fc o1, Inv s -> InvO s o -> nth_error (conns s) c = Some cn -> conn_rel cn (fc cn) ->
  obs_quiet s o1 -> Inv (upd_conn s c fc) /\ InvO (upd_conn s c fc) (o ++ o1) /\ Mono s (upd_conn s c fc).
Proof. intros. unfold upd_conn. apply conns_inv; auto. eapply conns_rel_upd; eassumption. Qed.

(* ------------------------------------------------------------------ an admitted subscribe call *)
Lemma snoc_lookup : forall A (l : list A) x n y, nth_error (l ++ [x]) n = Some y ->
  (n < length l /\ nth_error l n = Some y) \/ (n = length l /\ y = x).
Proof.
  intros A l x n y H. rewrite nth_error_snoc in H. destruct (Nat.ltb_spec n (length l)); [left; auto|].
  destruct (Nat.eqb_spec n (length l)); [|discriminate]. inversion H. right. auto.
Qed.

Lemma log_of_none : forall h0 o, (forall h k x ok, In (OSendResult h k x ok) o -> h <> h0) -> log_of h0 o = [].
Proof.
  intros h0 o H. apply filter_map_none. intros ob Hin. destruct ob; cbn; try reflexivity. destruct ok; [|reflexivity].
  destruct (Nat.eqb_spec h h0); [|reflexivity]. exfalso. eapply H; eassumption.
Qed.

Lemma subscribe_admit_inv : forall s o c cn p req,
  Inv s -> InvO s o -> nth_error (conns s) c = Some cn -> c_permits cn = S p ->
  let h := length (subs s) in
  let bnew := mkSub c (id_base s + N.of_nat h)%N req (notif_meth s) SPending [] [] true false false None in
  let s' := upd_conn (set_subs s (subs s ++ [bnew])) c (c_set_permits p) in
  Inv s' /\ InvO s' (o ++ [OHandler h c req]) /\ Mono s s'.
Proof.
  intros s o c cn p req I IO Hc Hp h bnew s'.
  assert (Lk : forall c2 cn2', nth_error (upd c (c_set_permits p) (conns s)) c2 = Some cn2' ->
            exists cn2, nth_error (conns s) c2 = Some cn2 /\ sent cn2' = sent cn2 /\ c_cap cn2' = c_cap cn2 /\ c_open cn2' = c_open cn2 /\
              ((c2 = c /\ cn2 = cn /\ c_permits cn2' = p) \/ (c2 <> c /\ cn2' = cn2))).
  { intros c2 cn2' H2. destruct (upd_lookup _ _ _ _ _ _ _ Hc H2) as [[-> ->] | [Ne H2']].
    - exists cn. repeat split; auto.
    - exists cn2'. repeat split; auto. }
  assert (Lo : forall c2 cn2, nth_error (conns s) c2 = Some cn2 ->
            exists cn2', nth_error (upd c (c_set_permits p) (conns s)) c2 = Some cn2' /\ sent cn2' = sent cn2 /\ c_open cn2' = c_open cn2).
  { intros c2 cn2 H2. destruct (Nat.eq_dec c2 c) as [->|Ne].
    - rewrite Hc in H2. inversion H2; subst cn2. exists (c_set_permits p cn). split; [apply nth_error_upd_same; assumption | auto].
    - exists cn2. rewrite nth_error_upd_other by assumption. auto. }
  assert (Fresh : forall c2 cn2 f, nth_error (conns s) c2 = Some cn2 -> In f (sent cn2) -> is_notif f = true -> frame_sid f <> s_id bnew).
  { intros c2 cn2 f H2 Hf Hn E. destruct (inv_frames s I _ _ _ H2 Hf Hn) as [h0 [b0 [H0 [_ [E2 _]]]]].
    destruct (inv_sub s I _ _ H0) as [E3 _]. cbn in E. rewrite <- E2, E3 in E. apply N.add_cancel_l in E. apply Nat2N.inj in E.
    assert (h0 < length (subs s)) by (apply nth_error_Some; congruence). subst h. lia. }
  assert (Old : forall h2 b2, nth_error (subs s) h2 = Some b2 -> nth_error (subs s ++ [bnew]) h2 = Some b2).
  { intros h2 b2 H2. rewrite nth_error_app1; [assumption | apply nth_error_Some; congruence]. }
  split; [|split].
  - constructor; subst s'; unfold upd_conn, set_conns, set_subs; cbn [subs conns table id_base notif_meth].
    + intros h2 b2 H2. rewrite length_upd. destruct (snoc_lookup _ _ _ _ _ H2) as [[_ H2'] | [-> ->]].
      * exact (inv_sub s I _ _ H2').
      * unfold sub_ok, live. cbn. repeat split; auto; try (intros; discriminate); try (intros ? ? []).
        -- apply nth_error_Some. congruence.
        -- intros [|]; discriminate.
    + intro k. rewrite (inv_table s I). split.
      * intros [h2 [b2 [H2 K2]]]. exists h2, b2. auto.
      * intros [h2 [b2 [H2 K2]]]. destruct (snoc_lookup _ _ _ _ _ H2) as [[_ H2'] | [-> ->]].
        -- exists h2, b2. auto.
        -- discriminate.
    + intros c2 cn2' H2. destruct (Lk _ _ H2) as [cn2 [H2o [_ [Ec [_ D]]]]].
      unfold count_on. cbn [subs]. rewrite filter_app, app_length. pose proof (inv_count s I _ _ H2o) as IC. unfold count_on in IC.
      assert (Hh : holds_on c2 bnew = Nat.eqb c c2) by (unfold holds_on; cbn; apply andb_true_r).
      rewrite Ec. cbn [filter]. rewrite Hh.
      destruct D as [[-> [-> Ep]] | [Ne ->]].
      * rewrite Nat.eqb_refl. cbn. rewrite Ep. lia.
      * destruct (Nat.eqb_spec c c2); [congruence|]. cbn. lia.
    + intros c2 cn2' f H2 Hf Hn. destruct (Lk _ _ H2) as [cn2 [H2o [Es _]]]. rewrite Es in Hf.
      destruct (inv_frames s I _ _ _ H2o Hf Hn) as [h0 [b0 [H0 R]]]. exists h0, b0. split; [apply Old; assumption | assumption].
    + intros h2 b2 H2 Ha. destruct (snoc_lookup _ _ _ _ _ H2) as [[_ H2'] | [-> ->]].
      * destruct (inv_accepted s I _ _ H2' Ha) as [cn2 [Hc2 Hin]]. destruct (Lo _ _ Hc2) as [cn2' [Hc2' [Es _]]].
        exists cn2'. rewrite Es. auto.
      * destruct Ha; discriminate.
    + intros c2 cn2' H2. destruct (Lk _ _ H2) as [cn2 [H2o [Es _]]]. rewrite Es. exact (inv_order s I _ _ H2o).
    + intros h2 b2 cn2' H2 Hc2. destruct (Lk _ _ Hc2) as [cn2 [H2o [Es _]]]. rewrite Es.
      destruct (snoc_lookup _ _ _ _ _ H2) as [[_ H2'] | [-> ->]].
      * exact (inv_closing s I _ _ _ H2' H2o).
      * rewrite count_closing_zero by (intros f Hf Hn; eapply Fresh; eassumption). cbn. split; [lia | intro; lia].
  - constructor; subst s'; unfold upd_conn, set_conns, set_subs; cbn [subs conns table id_base notif_meth].
    + intros h2 b2 cn2' H2 Hc2. destruct (Lk _ _ Hc2) as [cn2 [H2o [Es _]]]. rewrite Es, log_of_app. cbn. rewrite app_nil_r.
      destruct (snoc_lookup _ _ _ _ _ H2) as [[_ H2'] | [-> ->]].
      * exact (io_fifo s o IO _ _ _ H2' H2o).
      * rewrite plain_none by (intros f Hf Hn; eapply Fresh; eassumption).
        symmetry. apply log_of_none. intros h0 k x ok Hin E. apply (io_bound s o IO) in Hin. subst h. lia.
    + intros h2 k x ok Hin. rewrite app_length. cbn. apply in_app_or in Hin. destruct Hin as [Hin | [Hin | []]]; [|discriminate].
      apply (io_bound s o IO) in Hin. lia.
    + intros h2 b2 H2 Ha Hu Hs. destruct (snoc_lookup _ _ _ _ _ H2) as [[_ H2'] | [-> ->]]; [|discriminate].
      destruct (io_unsub s o IO _ _ H2' Ha Hu Hs) as [r Hr]. exists r. apply in_or_app. auto.
  - split.
    + intro c2. subst s'. unfold conn_open, upd_conn, set_conns, set_subs. cbn [conns].
      destruct (nth_error (upd c (c_set_permits p) (conns s)) c2) as [cn2'|] eqn:H2; [|discriminate].
      destruct (Lk _ _ H2) as [cn2 [H2o [_ [_ [Eo _]]]]]. rewrite H2o, Eo. auto.
    + intros h2 b2 H2. exists b2. split; [subst s'; cbn; apply Old; assumption|]. repeat split; auto.
Qed.

(* ------------------------------------------------------------------ the unsubscribe callback *)
Definition unsub_map (k : nat * N) (b : sub) : sub :=
  if key_eqb (key_of b) k && match s_state b with SActive => true | _ => false end then sb_unsub true b else b.

Lemma filter_map_len : forall A (p : A -> bool) (g : A -> A) l, (forall a, p (g a) = p a) -> length (filter p (map g l)) = length (filter p l).
Proof. intros A p g l H. induction l as [|a l IH]; cbn; [reflexivity|]. rewrite H. destruct (p a); cbn; congruence. Qed.

Lemma unsub_map_facts : forall k b,
  same_static b (unsub_map k b) /\ s_state (unsub_map k b) = s_state b /\ s_sinks (unsub_map k b) = s_sinks b /\
  s_inflight (unsub_map k b) = s_inflight b /\ s_has_permit (unsub_map k b) = s_has_permit b /\
  s_ret (unsub_map k b) = s_ret b /\ s_returned (unsub_map k b) = s_returned b /\
  (s_unsubscribed b = true -> s_unsubscribed (unsub_map k b) = true) /\
  (s_unsubscribed (unsub_map k b) = true -> s_unsubscribed b = true \/ (key_of b = k /\ s_state b = SActive)) /\
  (forall k', akey (unsub_map k b) = Some k' <-> akey b = Some k' /\ k' <> k).
Proof.
  intros k b. unfold unsub_map.
  assert (Same : (forall k', akey b = Some k' -> k' <> k) ->
            same_static b b /\ s_state b = s_state b /\ s_sinks b = s_sinks b /\ s_inflight b = s_inflight b /\
            s_has_permit b = s_has_permit b /\ s_ret b = s_ret b /\ s_returned b = s_returned b /\
            (s_unsubscribed b = true -> s_unsubscribed b = true) /\
            (s_unsubscribed b = true -> s_unsubscribed b = true \/ (key_of b = k /\ s_state b = SActive)) /\
            (forall k', akey b = Some k' <-> akey b = Some k' /\ k' <> k)).
  { intro Hk. repeat split; auto; try tauto. }
  destruct (key_eqb (key_of b) k && match s_state b with SActive => true | _ => false end) eqn:E.
  - apply andb_true_iff in E. destruct E as [Ek Es]. apply key_eqb_eq in Ek.
    assert (Ea : s_state b = SActive) by (destruct (s_state b); try discriminate; reflexivity).
    cbn. do 9 (split; [solve [auto | repeat split; auto] |]).
    intro k'. unfold akey at 1. cbn. rewrite Ea. split; [discriminate|].
    intros [H1 H2]. apply akey_key in H1. destruct H1 as [H1 _]. congruence.
  - apply Same. intros k' H Ek. apply akey_key in H. destruct H as [H [Ha _]]. subst k'.
    rewrite (proj2 (key_eqb_eq (key_of b) k) Ek), Ha in E. discriminate.
Qed.

Lemma unsub_core_inv : forall s o c req target, Inv s -> InvO s o ->
  let k := (c, target) in
  let s1 := set_subs (set_table s (remove_key k (table s))) (map (unsub_map k) (subs s)) in
  Inv s1 /\ InvO s1 (o ++ [OUnsubAnswer c req target (mem_key k (table s))]) /\ Mono s s1.
Proof.
  intros s o c req target I IO k s1.
  assert (Lk : forall h b', nth_error (map (unsub_map k) (subs s)) h = Some b' -> exists b, nth_error (subs s) h = Some b /\ b' = unsub_map k b).
  { intros h b' H. rewrite nth_error_map' in H. destruct (nth_error (subs s) h) as [b|]; [|discriminate]. inversion H. exists b. auto. }
  assert (Lo : forall h b, nth_error (subs s) h = Some b -> nth_error (map (unsub_map k) (subs s)) h = Some (unsub_map k b)).
  { intros h b H. rewrite nth_error_map', H. reflexivity. }
  split; [|split].
  - constructor; subst s1; unfold set_subs, set_table; cbn [subs conns table id_base notif_meth].
    + intros h b' H. destruct (Lk _ _ H) as [b [Hb ->]]. pose proof (inv_sub s I _ _ Hb) as Hok.
      destruct (unsub_map_facts k b) as [[S1 [S2 [S3 S4]]] [Es [Esk [Ei [Ep [Er [Erd [U1 [U2 _]]]]]]]]].
      unfold sub_ok, live in *. rewrite S1, S2, S4, Es, Esk, Ei, Ep, Er, Erd.
      destruct Hok as [A1 [A2 [A3 [A4 [A5 [A6 [A7 [A8 A9]]]]]]]].
      split; [exact A1|]. split; [exact A2|]. split; [exact A3|]. split; [exact A4|]. split.
      { intro Hn. destruct (A5 Hn) as [B1 [B2 [B3 B4]]]. repeat split; auto.
        destruct (s_unsubscribed (unsub_map k b)) eqn:Eu; [|reflexivity]. destruct (U2 eq_refl) as [Hu | [_ Ha]]; congruence. }
      split; [exact A6|]. split.
      { intros Ha Hs. apply U1. apply A7; assumption. }
      split; [exact A8 | exact A9].
    + intro k'. rewrite remove_key_In, (inv_table s I). split.
      * intros [[h [b [Hb Kb]]] Ne]. exists h, (unsub_map k b). split; [apply Lo; assumption|].
        apply (proj2 (proj2 (proj2 (proj2 (proj2 (proj2 (proj2 (proj2 (proj2 (unsub_map_facts k b)))))))))). auto.
      * intros [h [b' [Hb' Kb']]]. destruct (Lk _ _ Hb') as [b [Hb ->]].
        apply (proj2 (proj2 (proj2 (proj2 (proj2 (proj2 (proj2 (proj2 (proj2 (unsub_map_facts k b)))))))))) in Kb'. destruct Kb'.
        split; [exists h, b; auto | assumption].
    + intros c2 cn Hc. unfold count_on. cbn [subs]. rewrite filter_map_len; [exact (inv_count s I _ _ Hc)|].
      intro b. destruct (unsub_map_facts k b) as [[S1 _] [_ [_ [_ [Ep _]]]]]. unfold holds_on. rewrite S1, Ep. reflexivity.
    + intros c2 cn f Hc Hf Hn. destruct (inv_frames s I _ _ _ Hc Hf Hn) as [h0 [b0 [H0 [E1 [E2 [E3 E4]]]]]].
      destruct (unsub_map_facts k b0) as [[S1 [S2 [S3 S4]]] [Es _]].
      exists h0, (unsub_map k b0). split; [apply Lo; assumption|]. repeat split; congruence.
    + intros h b' H Ha. destruct (Lk _ _ H) as [b [Hb ->]]. destruct (unsub_map_facts k b) as [[S1 [S2 [S3 S4]]] [Es _]].
      rewrite S1, S2, S3. apply (inv_accepted s I _ _ Hb). unfold accepted in *. rewrite <- Es. assumption.
    + exact (inv_order s I).
    + intros h b' cn H Hc. destruct (Lk _ _ H) as [b [Hb ->]].
      destruct (unsub_map_facts k b) as [[S1 [S2 [S3 S4]]] [_ [_ [_ [_ [Er [Erd _]]]]]]].
      rewrite S1 in Hc. unfold ret_pending. rewrite S2, Er, Erd. exact (inv_closing s I _ _ _ Hb Hc).
  - constructor; subst s1; unfold set_subs, set_table; cbn [subs conns table id_base notif_meth].
    + intros h b' cn H Hc. destruct (Lk _ _ H) as [b [Hb ->]]. destruct (unsub_map_facts k b) as [[S1 [S2 _]] _].
      rewrite S1 in Hc. rewrite S2, log_of_app. cbn. rewrite app_nil_r. exact (io_fifo s o IO _ _ _ Hb Hc).
    + intros h k0 x ok Hin. rewrite map_length. apply in_app_or in Hin. destruct Hin as [Hin | [Hin | []]]; [|discriminate].
      exact (io_bound s o IO _ _ _ _ Hin).
    + intros h b' H Ha Hu Hs. destruct (Lk _ _ H) as [b [Hb ->]].
      destruct (unsub_map_facts k b) as [[S1 [S2 _]] [Es [Esk [_ [_ [_ [_ [_ [U2 _]]]]]]]]].
      rewrite S1, S2. rewrite Es in Ha. rewrite Esk in Hs. destruct (U2 Hu) as [Hu' | [Ek _]].
      * destruct (io_unsub s o IO _ _ Hb Ha Hu' Hs) as [r Hr]. exists r. apply in_or_app. auto.
      * destruct (s_unsubscribed b) eqn:Eu.
        -- destruct (io_unsub s o IO _ _ Hb Ha Eu Hs) as [r Hr]. exists r. apply in_or_app. auto.
        -- exists req. apply in_or_app. right. left. unfold key_of in Ek. subst k. inversion Ek. subst c target.
           replace (mem_key (s_conn b, s_id b) (table s)) with true; [reflexivity|]. symmetry. apply mem_key_In.
           apply (inv_table s I). exists h, b. split; [assumption|]. unfold akey. rewrite Ha, Eu. reflexivity.
  - split.
    + intro c2. subst s1. unfold conn_open. cbn. auto.
    + intros h b Hb. exists (unsub_map k b). split; [subst s1; cbn; apply Lo; assumption|].
      destruct (unsub_map_facts k b) as [S [Es [_ [_ [_ [_ [_ [U1 _]]]]]]]]. split; [assumption|]. intro Ha. rewrite Es. auto.
Qed.

(* ------------------------------------------------------------------ small local lemmas for the remaining handler steps *)
Lemma lo_returned : forall base meth n h b cn t r,
  sub_ok base meth n h b -> s_returned b = false -> (s_state b = SActive \/ r = None) -> (forall v, r = Some v -> v <> CNone) ->
  local_ok base meth n h b (sb_returned r b) cn cn t t [OAck] [].
Proof.
  intros base meth n h b cn t r Hok Hr Hs Hv. apply lo_quiet.
  - sub_fields b. unfold sub_ok, live in *. cbn in *. subst. destruct Hs as [Hs | Hs]; subst;
      intuition (try congruence; try discriminate; eauto).
  - repeat split.
  - reflexivity.
  - reflexivity.
  - reflexivity.
  - auto.
  - right. assumption.
  - reflexivity.
  - reflexivity.
  - intros h' k1 x ok [H | []]. discriminate.
Qed.

Lemma lo_clone : forall base meth n h b cn t src k,
  sub_ok base meth n h b -> In src (s_sinks b) ->
  local_ok base meth n h b (sb_sinks (k :: s_sinks b) b) cn cn t t [OAck] [].
Proof.
  intros base meth n h b cn t src k Hok Hsrc.
  assert (Ha : s_state b = SActive). { eapply sinks_active; [eassumption|]. intro E. rewrite E in Hsrc. destruct Hsrc. }
  apply lo_quiet.
  - sub_fields b. unfold sub_ok, live in *. cbn in *. subst. destruct bsinks; [destruct Hsrc|].
    intuition (try congruence; try discriminate; eauto).
  - repeat split.
  - reflexivity.
  - reflexivity.
  - reflexivity.
  - cbn. intros _ E. rewrite E in Hsrc. destruct Hsrc.
  - left. reflexivity.
  - auto.
  - reflexivity.
  - intros h' k1 x ok [H | []]. discriminate.
Qed.

Lemma lo_sendcheck : forall base meth n h b cn t k x,
  sub_ok base meth n h b -> In k (s_sinks b) ->
  local_ok base meth n h b (sb_inflight ((k, x) :: s_inflight b) b) cn cn t t [OAck] [].
Proof.
  intros base meth n h b cn t k x Hok Hk.
  assert (Ha : s_state b = SActive). { eapply sinks_active; [eassumption|]. intro E. rewrite E in Hk. destruct Hk. }
  apply lo_quiet.
  - sub_fields b. unfold sub_ok, live in *. cbn in *. subst.
    intuition (try congruence; try discriminate; eauto).
  - repeat split.
  - reflexivity.
  - reflexivity.
  - reflexivity.
  - auto.
  - left. reflexivity.
  - auto.
  - reflexivity.
  - intros h' k1 y ok [H | []]. discriminate.
Qed.

Lemma conn_of_sub : forall s h b, Inv s -> nth_error (subs s) h = Some b -> exists cn, nth_error (conns s) (s_conn b) = Some cn.
Proof.
  intros s h b I Hb. destruct (inv_sub s I _ _ Hb) as [_ [_ [Hc _]]].
  destruct (nth_error (conns s) (s_conn b)) as [cn|] eqn:E; [exists cn; reflexivity|]. apply nth_error_None in E. lia.
Qed.

Lemma conn_open_eq : forall s c cn, nth_error (conns s) c = Some cn -> conn_open s c = c_open cn.
Proof. intros s c cn H. unfold conn_open. rewrite H. reflexivity. Qed.

Lemma noop_inv : forall s o, Inv s -> InvO s o -> Inv s /\ InvO s (o ++ []) /\ Mono s s.
Proof. intros. rewrite app_nil_r. split; [assumption|]. split; [assumption | apply Mono_refl]. Qed.

Lemma same_state_inv : forall s o o1, Inv s -> InvO s o -> obs_quiet s o1 -> Inv s /\ InvO s (o ++ o1) /\ Mono s s.
Proof. intros. split; [assumption|]. split; [apply InvO_quiet; assumption | apply Mono_refl]. Qed.

Lemma push_rel : forall f cn, is_notif f = false -> conn_rel cn (c_push f cn).
Proof.
  intros f cn Hf. destruct (push_opt_conn (Some f) cn) as [P1 [P2 [P3 P4]]]. cbn [c_push_opt] in *.
  repeat split; auto; try congruence. exists (opt_frames (Some f) cn). split; [assumption|].
  intros g Hg. apply opt_frames_in in Hg. inversion Hg. subst. assumption.
Qed.

(* ------------------------------------------------------------------ accept(), for the order read from the source *)
Lemma upd_ext_at : forall A (f g : A -> A) l n x, nth_error l n = Some x -> f x = g x -> upd n f l = upd n g l.
Proof.
  induction l as [|a l IH]; intros [|n] x H E; cbn in *; try discriminate.
  - inversion H; subst. rewrite E. reflexivity.
  - f_equal. eapply IH; eassumption.
Qed.

Lemma apply_ext : forall s h b cn fs fs' fc fc' t, nth_error (subs s) h = Some b -> nth_error (conns s) (s_conn b) = Some cn ->
  fs b = fs' b -> fc cn = fc' cn -> apply s h b fs fc t = apply s h b fs' fc' t.
Proof. intros. unfold apply. f_equal; eapply upd_ext_at; eassumption. Qed.

(* accept() as a whole, in the order Gen/AcceptOrderGen.accept_steps has NOW (computed on that constant): a run that
   fails -- at the send to the sink or at the notification of the call -- leaves the subscriber table as it found it.
   False as soon as the table insert stands in front of a fallible step. *)
Lemma accept_failure_keeps_table : forall op call b fs fc t,
  ar_ok (accept_run op call b accept_steps fs fc t) = false -> ar_table (accept_run op call b accept_steps fs fc t) = t.
Proof.
  intros op call b fs fc t. unfold accept_steps. cbn [accept_run].
  destruct op, call; cbn [ar_ok ar_table]; intro H; try discriminate H; reflexivity.
Qed.

(* The seam the model puts into accept(), COMPUTED on the generated constant Gen/AcceptOrderGen.accept_steps: these two
   equations are where the proofs below depend on the order the source has now.  With the table insert moved in front
   of a fallible send they are false, and so are the invariant `inv_table` and the theorems that rest on it. *)
Lemma accept_phase1_now : accept_phase1 = [ASendToSink; ANotifyCall].
Proof. reflexivity. Qed.

Lemma accept_phase2_now : accept_phase2 = [ATableInsert; ABuildSink].
Proof. reflexivity. Qed.

Lemma holds_pending_cases : forall x, holds_pending x = true -> x = SPending \/ x = SAbandoned.
Proof. intros [] H; try discriminate; auto. Qed.

(* ------------------------------------------------------------------ one step keeps the invariants *)
Lemma quiet1 : forall s ob, (forall h k x, ob <> OSendResult h k x true) ->
  (forall h k x ok, ob = OSendResult h k x ok -> h < length (subs s)) -> obs_quiet s [ob].
Proof.
  intros s ob H1 H2. split.
  - intro h2. cbn. destruct ob; cbn; try reflexivity. destruct ok; [|reflexivity]. exfalso. eapply H1. reflexivity.
  - intros h k x ok [E | []]. eapply H2. eassumption.
Qed.

Ltac quiet_obs := apply quiet1; [intros; discriminate | intros; discriminate].

Lemma step_core_inv : forall s o a, Inv s -> InvO s o ->
  Inv (fst (step_core false s a)) /\ InvO (fst (step_core false s a)) (o ++ snd (step_core false s a)) /\
  Mono s (fst (step_core false s a)).
Proof.
  intros s o a I IO. destruct a; cbn [step_core step_core_g when_performed].
  - (* SubscribeCall *)
    destruct (nth_error (conns s) c) as [cn|] eqn:Hc; [|apply noop_inv; assumption].
    destruct (c_open cn && negb (stopped s)); [|apply noop_inv; assumption].
    destruct (c_permits cn) as [|p] eqn:Hp; cbn [fst snd].
    + unfold push. apply (conn_upd_inv s o c cn _ _ I IO Hc); [apply push_rel; reflexivity | quiet_obs].
    + exact (subscribe_admit_inv s o c cn p req I IO Hc Hp).
  - (* Accept1: the answering part of accept(), in the order read from the source *)
    destruct (nth_error (subs s) h) as [b|] eqn:Hb; [|apply noop_inv; assumption].
    destruct (conn_of_sub s h b I Hb) as [cn Hcn]. pose proof (inv_sub s I _ _ Hb) as Hok.
    destruct (holds_pending (s_state b)) eqn:Hp; [|apply noop_inv; assumption].
    pose proof (holds_pending_cases _ Hp) as Hp'.
    rewrite accept_phase1_now. cbn [accept_run]. rewrite (conn_open_eq _ _ _ Hcn).
    destruct (c_open cn) eqn:Ho.
    + destruct (call_waiting (s_state b)) eqn:Hw; cbn [ar_ok ar_sub ar_conn ar_table fst snd].
      * (* both sends succeed *)
        assert (Es : s_state b = SPending) by (destruct (s_state b); try discriminate; reflexivity).
        eapply apply_inv; eauto. apply lo_accept1; assumption.
      * (* the call is gone: the response was enqueued, subscribe.send fails *)
        rewrite (apply_ext s h b cn _ (sb_fail SDone (s_has_permit b)) _
                   (fun cn0 => rel_conn (s_has_permit b) (c_push_opt (Some (FSubOk (s_req b) (s_id b))) cn0)) _ Hb Hcn);
          [| reflexivity | cbn [c_push_opt]; unfold c_push; rewrite Ho; reflexivity].
        eapply apply_inv; eauto.
        apply (lo_fail _ _ _ _ _ _ _ SDone (Some (FSubOk (s_req b) (s_id b)))); auto; try reflexivity.
        -- intros f E. inversion E. reflexivity.
        -- intros h' k y ok [H | []]. discriminate.
    + (* inner.send fails: nothing was done *)
      cbn [ar_ok ar_sub ar_conn ar_table fst snd]. eapply apply_inv; eauto.
      apply (lo_fail _ _ _ _ _ _ _ SDone None); auto; try reflexivity. intros; discriminate.
      intros h' k y ok [H | []]. discriminate.
  - (* Accept2: the rest of accept() *)
    destruct (nth_error (subs s) h) as [b|] eqn:Hb; [|apply noop_inv; assumption].
    destruct (conn_of_sub s h b I Hb) as [cn Hcn]. pose proof (inv_sub s I _ _ Hb) as Hok.
    destruct (s_state b) eqn:Es; try (apply noop_inv; assumption).
    rewrite accept_phase2_now. cbn [accept_run ar_ok ar_sub ar_conn ar_table fst snd].
    eapply apply_inv; eauto. apply lo_accept2; assumption.
  - (* Reject *)
    destruct (nth_error (subs s) h) as [b|] eqn:Hb; [|apply noop_inv; assumption].
    destruct (conn_of_sub s h b I Hb) as [cn Hcn]. pose proof (inv_sub s I _ _ Hb) as Hok.
    destruct (holds_pending (s_state b)) eqn:Hp; [|apply noop_inv; assumption]. cbn [fst snd].
    pose proof (holds_pending_cases _ Hp) as Hp'.
    eapply apply_inv; eauto.
    apply (lo_fail _ _ _ _ _ _ _ SRejected (Some (FErr (s_req b) (ERejected code)))); auto; try reflexivity.
    + intros f E. inversion E. reflexivity.
    + intros h' k y ok [H | []]. discriminate.
  - (* AbandonCall *)
    destruct (nth_error (subs s) h) as [b|] eqn:Hb; [|apply noop_inv; assumption].
    destruct (conn_of_sub s h b I Hb) as [cn Hcn]. pose proof (inv_sub s I _ _ Hb) as Hok.
    destruct (s_state b) eqn:Es; try (apply noop_inv; assumption).
    destruct keep; cbn [fst snd].
    + eapply apply_inv; eauto. apply (lo_abandon _ _ _ _ _ _ _ (FErr (s_req b) EAbandoned)); auto.
    + eapply apply_inv; eauto.
      apply (lo_fail _ _ _ _ _ _ _ SDone (Some (FErr (s_req b) EAbandoned))); auto; try reflexivity.
      * intros f E. inversion E. reflexivity.
      * intros h' k y ok [H | []]. discriminate.
  - (* DropPending *)
    destruct (nth_error (subs s) h) as [b|] eqn:Hb; [|apply noop_inv; assumption].
    destruct (conn_of_sub s h b I Hb) as [cn Hcn]. pose proof (inv_sub s I _ _ Hb) as Hok.
    destruct (s_state b) eqn:Es; try (apply noop_inv; assumption); cbn [fst snd].
    + eapply apply_inv; eauto.
      apply (lo_fail _ _ _ _ _ _ _ SDone (Some (FErr (s_req b) EInternal))); auto; try reflexivity.
      * intros f E. inversion E. reflexivity.
      * intros h' k y ok [H | []]. discriminate.
    + eapply apply_inv; eauto.
      apply (lo_fail _ _ _ _ _ _ _ SDone None); auto; try reflexivity. intros; discriminate.
      intros h' k y ok [H | []]. discriminate.
  - (* CloneSink *)
    destruct (nth_error (subs s) h) as [b|] eqn:Hb; [|apply noop_inv; assumption].
    destruct (conn_of_sub s h b I Hb) as [cn Hcn]. pose proof (inv_sub s I _ _ Hb) as Hok.
    destruct (memN src (s_sinks b) && negb (memN k (s_sinks b))) eqn:G; [|apply noop_inv; assumption]. cbn [fst snd].
    apply andb_true_iff in G. destruct G as [G1 _]. apply memN_In in G1.
    eapply apply_inv; eauto. eapply lo_clone; eassumption.
  - (* DropSink *)
    destruct (nth_error (subs s) h) as [b|] eqn:Hb; [|apply noop_inv; assumption].
    destruct (conn_of_sub s h b I Hb) as [cn Hcn]. pose proof (inv_sub s I _ _ Hb) as Hok.
    destruct (memN k (s_sinks b) && negb (memN k (map fst (s_inflight b)))) eqn:G; [|apply noop_inv; assumption]. cbn [fst snd].
    apply andb_true_iff in G. destruct G as [G1 G2]. apply memN_In in G1.
    assert (G3 : ~ In k (map fst (s_inflight b))). { intro Hin. apply memN_In in Hin. rewrite Hin in G2. discriminate. }
    unfold drop_sink. eapply apply_inv; eauto. apply lo_drop; assumption.
  - (* SendCheck *)
    destruct (nth_error (subs s) h) as [b|] eqn:Hb; [|apply noop_inv; assumption].
    destruct (conn_of_sub s h b I Hb) as [cn Hcn]. pose proof (inv_sub s I _ _ Hb) as Hok.
    destruct (memN k (s_sinks b) && negb (memN k (map fst (s_inflight b)))) eqn:G; [|apply noop_inv; assumption].
    apply andb_true_iff in G. destruct G as [G1 _]. apply memN_In in G1.
    destruct (sink_closed s b); cbn [fst snd].
    + apply same_state_inv; auto. apply quiet1; [intros; discriminate|]. intros h0 k0 x0 ok E. inversion E; subst.
      apply nth_error_Some. congruence.
    + eapply apply_inv; eauto. apply lo_sendcheck; assumption.
  - (* SendEnqueue *)
    destruct (nth_error (subs s) h) as [b|] eqn:Hb; [|apply noop_inv; assumption].
    destruct (conn_of_sub s h b I Hb) as [cn Hcn]. pose proof (inv_sub s I _ _ Hb) as Hok.
    destruct (inflight_of k (s_inflight b)) as [x|] eqn:G; [|apply noop_inv; assumption]. cbn [fst snd].
    rewrite (conn_open_eq _ _ _ Hcn). eapply apply_inv; eauto. apply lo_send_enq; auto.
    intro Ha. destruct (inv_accepted s I _ _ Hb Ha) as [cn0 [Hc0 Hin]]. congruence.
  - (* IsClosed *)
    destruct (nth_error (subs s) h) as [b|] eqn:Hb; [|apply noop_inv; assumption].
    destruct (memN k (s_sinks b)); [|apply noop_inv; assumption]. cbn [fst snd].
    apply same_state_inv; auto. quiet_obs.
  - (* HandlerReturn *)
    destruct (nth_error (subs s) h) as [b|] eqn:Hb; [|apply noop_inv; assumption].
    destruct (conn_of_sub s h b I Hb) as [cn Hcn]. pose proof (inv_sub s I _ _ Hb) as Hok.
    destruct (s_returned b) eqn:Er; [apply noop_inv; assumption|].
    destruct (s_state b) eqn:Es; cbn [fst snd]; try (apply noop_inv; assumption).
    + eapply apply_inv; eauto.
      apply (lo_fail _ _ _ _ _ _ _ SDone (Some (FErr (s_req b) EInternal))); auto; try reflexivity.
      * intros f E. inversion E. reflexivity.
      * intros h' k y ok [H | []]. discriminate.
    + eapply apply_inv; eauto. apply lo_returned; auto. intros v0 E. destruct v; try discriminate; inversion E; discriminate.
    + eapply apply_inv; eauto. apply lo_returned; auto. intros; discriminate.
    + eapply apply_inv; eauto. apply lo_returned; auto. intros; discriminate.
    + eapply apply_inv; eauto. apply lo_returned; auto. intros; discriminate.
  - (* CloseNotify *)
    destruct (nth_error (subs s) h) as [b|] eqn:Hb; [|apply noop_inv; assumption].
    destruct (conn_of_sub s h b I Hb) as [cn Hcn]. pose proof (inv_sub s I _ _ Hb) as Hok.
    destruct (s_ret b) as [v|] eqn:Er; [|apply noop_inv; assumption]. cbn [fst snd].
    eapply apply_inv; eauto. apply lo_close_notify; auto.
    intro Ha. destruct (inv_accepted s I _ _ Hb Ha) as [cn0 [Hc0 Hin]]. congruence.
  - (* UnsubscribeCall *)
    destruct (nth_error (conns s) c) as [cn|] eqn:Hc; [|apply noop_inv; assumption].
    destruct (c_open cn && negb (stopped s)); [|apply noop_inv; assumption]. cbn [fst snd].
    destruct (unsub_core_inv s o c req target I IO) as [I1 [IO1 M1]].
    match goal with |- Inv (upd_conn ?s2 _ _) /\ _ => set (s1 := s2) in * end.
    assert (Hc1 : nth_error (conns s1) c = Some cn) by exact Hc.
    destruct (conn_upd_inv s1 _ c cn (c_enq (FUnsub req (mem_key (c, target) (table s)))) [] I1 IO1 Hc1) as [I2 [IO2 M2]].
    + repeat split; auto. exists [FUnsub req (mem_key (c, target) (table s))]. split.
      * unfold sent, c_enq. cbn. rewrite app_assoc. reflexivity.
      * intros f [<- | []]. reflexivity.
    + split; [reflexivity | intros ? ? ? ? []].
    + rewrite app_nil_r in IO2. split; [exact I2|]. split; [exact IO2 | eapply Mono_trans; eassumption].
  - (* WriterStep *)
    destruct (nth_error (conns s) c) as [cn|] eqn:Hc; [|apply noop_inv; assumption].
    destruct (c_open cn); [|apply noop_inv; assumption].
    destruct (c_queue cn) as [|f q] eqn:Hq; [apply noop_inv; assumption|]. cbn [fst snd].
    apply (conn_upd_inv s o c cn _ _ I IO Hc); [|quiet_obs].
    unfold c_pop. rewrite Hq. repeat split; auto. exists []. split; [|intros ? []].
    unfold sent. cbn. rewrite Hq, app_nil_r, <- app_assoc. reflexivity.
  - (* ConnDrop *)
    destruct (nth_error (conns s) c) as [cn|] eqn:Hc; [|apply noop_inv; assumption].
    destruct (c_open cn); [|apply noop_inv; assumption]. cbn [fst snd].
    apply (conn_upd_inv s o c cn _ _ I IO Hc); [|quiet_obs].
    repeat split; auto; try discriminate. exists []. split; [|intros ? []]. unfold sent. cbn. rewrite app_nil_r. reflexivity.
  - (* ServerStop *)
    destruct (stopped s); [apply noop_inv; assumption|]. cbn [fst snd].
    split; [|split].
    + destruct I. constructor; assumption.
    + apply InvO_quiet; [|quiet_obs]. destruct IO. constructor; assumption.
    + exact (Mono_refl s).
Qed.

(* ------------------------------------------------------------------ graceful stop *)
(* after a stop only connections with an unanswered subscribe call are still open *)
Definition inv_stop (s : st) : Prop :=
  stopped s = true -> forall c cn, nth_error (conns s) c = Some cn -> c_open cn = true -> has_pending s c = true.

Lemma settle_from_spec : forall s cs c,
  length (fst (settle_from s c cs)) = length cs /\
  (forall i cn cn', nth_error cs i = Some cn -> nth_error (fst (settle_from s c cs)) i = Some cn' ->
     (cn' = cn /\ (c_open cn = true -> has_pending s (c + i) = true)) \/ (cn' = c_end cn /\ c_open cn = true)) /\
  (forall ob, In ob (snd (settle_from s c cs)) -> (exists c' f, ob = OFrameOut c' f) \/ (exists c', ob = OConnEnd c')).
Proof.
  intros s cs. induction cs as [|cn0 cs IH]; intro c; cbn [settle_from].
  - cbn [fst snd]. split; [reflexivity|]. split.
    + intros i cn cn' H. destruct i; discriminate.
    + intros ob [].
  - specialize (IH (S c)). destruct (settle_from s (S c) cs) as [rest' o'] eqn:E. cbn [fst snd] in IH.
    destruct IH as [IH1 [IH2 IH3]].
    destruct (c_open cn0 && negb (has_pending s c)) eqn:G; cbn [fst snd length].
    + apply andb_true_iff in G. destruct G as [G1 G2]. split; [congruence|]. split.
      * intros [|i] cn cn' H H'; cbn in H, H'.
        -- inversion H; inversion H'; subst. right. auto.
        -- replace (c + S i) with (S c + i) by lia. eapply IH2; eassumption.
      * intros ob Hin. apply in_app_or in Hin. destruct Hin as [Hin | [<- | Hin]].
        -- apply in_map_iff in Hin. destruct Hin as [f [<- _]]. left. eauto.
        -- right. eauto.
        -- auto.
    + split; [congruence|]. split; [|exact IH3].
      intros [|i] cn cn' H H'; cbn in H, H'.
      * inversion H; inversion H'; subst. left. split; [reflexivity|]. intro Ho. rewrite Ho in G. cbn in G.
        rewrite Nat.add_0_r. destruct (has_pending s c); [reflexivity | discriminate].
      * replace (c + S i) with (S c + i) by lia. eapply IH2; eassumption.
Qed.

Lemma c_end_rel : forall cn, conn_rel cn (c_end cn).
Proof.
  intro cn. repeat split; auto; try discriminate. exists []. split; [|intros ? []]. unfold sent, c_end. cbn. rewrite !app_nil_r. reflexivity.
Qed.

Lemma settle_inv : forall s o, Inv s -> InvO s o ->
  Inv (fst (settle s)) /\ InvO (fst (settle s)) (o ++ snd (settle s)) /\ Mono s (fst (settle s)) /\ inv_stop (fst (settle s)).
Proof.
  intros s o I IO. unfold settle. destruct (stopped s) eqn:Est.
  - destruct (settle_from_spec s (conns s) 0) as [S1 [S2 S3]]. destruct (settle_from s 0 (conns s)) as [cs o2] eqn:E.
    cbn [fst snd] in *.
    assert (R : conns_rel (conns s) cs).
    { split; [assumption|]. intros c cn cn' H H'. destruct (S2 _ _ _ H H') as [[-> _] | [-> _]]; [apply conn_rel_refl | apply c_end_rel]. }
    assert (Q : obs_quiet s o2).
    { split.
      - intro h2. apply log_of_none. intros h k x ok Hin. apply S3 in Hin. destruct Hin as [[? [? Hx]] | [? Hx]]; discriminate.
      - intros h k x ok Hin. apply S3 in Hin. destruct Hin as [[? [? Hx]] | [? Hx]]; discriminate. }
    destruct (conns_inv s o cs o2 I IO R Q) as [I2 [IO2 M2]].
    split; [exact I2|]. split; [exact IO2|]. split; [exact M2|]. unfold inv_stop.
    intros _ c cn' Hc Ho. cbn in Hc. destruct (nth_error (conns s) c) as [cn|] eqn:Hc0.
    + destruct (S2 _ _ _ Hc0 Hc) as [[-> Hp] | [-> _]]; [|discriminate]. exact (Hp Ho).
    + apply nth_error_None in Hc0. assert (c < length cs) by (apply nth_error_Some; congruence). lia.
  - cbn [fst snd]. rewrite app_nil_r. split; [exact I|]. split; [exact IO|]. split; [apply Mono_refl|].
    intro H. congruence.
Qed.

Lemma step_inv : forall s o a, Inv s -> InvO s o ->
  Inv (fst (step s a)) /\ InvO (fst (step s a)) (o ++ snd (step s a)) /\ Mono s (fst (step s a)) /\ inv_stop (fst (step s a)).
Proof.
  intros s o a I IO. unfold step, step_gen.
  destruct (step_core_inv s o a I IO) as [I1 [IO1 M1]]. destruct (step_core false s a) as [s1 o1]. cbn [fst snd] in *.
  destruct (settle_inv s1 (o ++ o1) I1 IO1) as [I2 [IO2 [M2 St]]]. destruct (settle s1) as [s2 o2]. cbn [fst snd] in *.
  rewrite <- app_assoc in IO2. split; [exact I2|]. split; [exact IO2|]. split; [exact (Mono_trans _ _ _ M1 M2) | exact St].
Qed.

(* ------------------------------------------------------------------ every trace *)
Lemma init_inv : forall caps base meth, Inv (init caps base meth) /\ InvO (init caps base meth) [] /\ inv_stop (init caps base meth).
Proof.
  intros caps base meth. split; [|split].
  - constructor; unfold init; cbn [subs conns table id_base notif_meth].
    + intros [|h] b H; discriminate.
    + intro k. split; [intros [] | intros [[|h] [b [H _]]]; discriminate].
    + intros c cn H. rewrite nth_error_map' in H. destruct (nth_error caps c); [|discriminate]. inversion H. cbn. unfold count_on. cbn. lia.
    + intros c cn f H Hf. rewrite nth_error_map' in H. destruct (nth_error caps c); [|discriminate]. inversion H; subst. destruct Hf.
    + intros [|h] b H; discriminate.
    + intros c cn H. rewrite nth_error_map' in H. destruct (nth_error caps c); [|discriminate]. inversion H; subst.
      intros pre f post E. cbn in E. destruct pre; discriminate.
    + intros [|h] b cn H; discriminate.
  - constructor; cbn.
    + intros [|h] b cn H; discriminate.
    + intros ? ? ? ? [].
    + intros [|h] b H; discriminate.
  - intro H. discriminate.
Qed.

Lemma run_snoc : forall stp s tr a, run_gen stp s (tr ++ [a]) = run_step stp (run_gen stp s tr) a.
Proof. intros. unfold run_gen. rewrite fold_left_app. reflexivity. Qed.

Definition reach (caps : list nat) (base meth : N) (tr : list act) : st * list obs := run (init caps base meth) tr.

Lemma run_inv_from : forall s0 o0 tr, Inv s0 -> InvO s0 o0 -> inv_stop s0 ->
  let r := fold_left (run_step step) tr (s0, o0) in Inv (fst r) /\ InvO (fst r) (snd r) /\ inv_stop (fst r) /\ Mono s0 (fst r).
Proof.
  intros s0 o0 tr. revert s0 o0. induction tr as [|a tr IH]; intros s0 o0 I IO St; cbn [fold_left].
  - cbn. split; [exact I|]. split; [exact IO|]. split; [exact St | apply Mono_refl].
  - assert (E : run_step step (s0, o0) a = (fst (step s0 a), o0 ++ snd (step s0 a))).
    { unfold run_step. cbn [fst snd]. destruct (step s0 a). reflexivity. }
    rewrite E. destruct (step_inv s0 o0 a I IO) as [I1 [IO1 [M1 St1]]].
    destruct (IH _ _ I1 IO1 St1) as [I2 [IO2 [St2 M2]]].
    split; [exact I2|]. split; [exact IO2|]. split; [exact St2 | exact (Mono_trans _ _ _ M1 M2)].
Qed.

Lemma reach_inv : forall caps base meth tr,
  Inv (fst (reach caps base meth tr)) /\ InvO (fst (reach caps base meth tr)) (snd (reach caps base meth tr)) /\
  inv_stop (fst (reach caps base meth tr)).
Proof.
  intros. destruct (init_inv caps base meth) as [I [IO St]].
  destruct (run_inv_from _ _ tr I IO St) as [I2 [IO2 [St2 _]]]. auto.
Qed.

(* ------------------------------------------------------------------ C04: lemmas behind the theorems *)
Lemma settle_subs : forall s, subs (fst (settle s)) = subs s /\ table (fst (settle s)) = table s /\ stopped (fst (settle s)) = stopped s.
Proof. intro s. unfold settle. destruct (stopped s) eqn:E; [destruct (settle_from s 0 (conns s)) | ]; cbn; auto. Qed.

Lemma settle_from_id : forall s cs c,
  (forall i cn, nth_error cs i = Some cn -> c_open cn = true -> has_pending s (c + i) = true) ->
  settle_from s c cs = (cs, []).
Proof.
  intros s cs. induction cs as [|cn cs IH]; intros c H; cbn [settle_from]; [reflexivity|].
  rewrite IH by (intros i cn' Hi Ho; replace (S c + i) with (c + S i) by lia; apply (H (S i) cn'); assumption).
  assert (G : c_open cn && negb (has_pending s c) = false).
  { destruct (c_open cn) eqn:Eo; [|reflexivity]. cbn. specialize (H 0 cn eq_refl Eo). rewrite Nat.add_0_r in H. rewrite H. reflexivity. }
  rewrite G. reflexivity.
Qed.

Lemma settle_id : forall s, inv_stop s -> settle s = (s, []).
Proof.
  intros s St. unfold settle. destruct (stopped s) eqn:E; [|reflexivity].
  rewrite settle_from_id; [destruct s; reflexivity|]. intros i cn Hi Ho. cbn. exact (St E i cn Hi Ho).
Qed.

Lemma reach_app : forall caps base meth tr1 tr2,
  reach caps base meth (tr1 ++ tr2) = fold_left (run_step step) tr2 (reach caps base meth tr1).
Proof. intros. unfold reach, run, run_gen. apply fold_left_app. Qed.

Lemma reach_snoc : forall caps base meth tr a,
  reach caps base meth (tr ++ [a]) =
  (fst (step (fst (reach caps base meth tr)) a), snd (reach caps base meth tr) ++ snd (step (fst (reach caps base meth tr)) a)).
Proof. intros. rewrite reach_app. cbn. unfold run_step. destruct (step _ a). reflexivity. Qed.

Lemma own_id_and_method : forall caps base meth tr c cn f,
  let s := fst (reach caps base meth tr) in
  nth_error (conns s) c = Some cn -> In f (sent cn) -> is_notif f = true ->
  exists h b, nth_error (subs s) h = Some b /\ s_conn b = c /\ frame_sid f = s_id b /\ frame_meth f = s_meth b /\
              s_meth b = notif_meth s /\ s_id b = (id_base s + N.of_nat h)%N /\ s_state b = SActive.
Proof.
  intros caps base meth tr c cn f s Hc Hf Hn. destruct (reach_inv caps base meth tr) as [I _].
  destruct (inv_frames _ I _ _ _ Hc Hf Hn) as [h [b [Hb [E1 [E2 [E3 E4]]]]]].
  destruct (inv_sub _ I _ _ Hb) as [A1 [A2 _]]. exists h, b. repeat split; auto.
Qed.

Lemma naa_prefix : forall l1 l2, notif_after_accept (l1 ++ l2) -> notif_after_accept l1.
Proof. intros l1 l2 H pre f post E Hn. apply (H pre f (post ++ l2)); [|assumption]. rewrite E, <- app_assoc. reflexivity. Qed.

Lemma after_accept : forall caps base meth tr c cn,
  nth_error (conns (fst (reach caps base meth tr))) c = Some cn ->
  notif_after_accept (sent cn) /\ notif_after_accept (c_wire cn).
Proof.
  intros caps base meth tr c cn Hc. destruct (reach_inv caps base meth tr) as [I _].
  pose proof (inv_order _ I _ _ Hc) as H. split; [assumption | eapply naa_prefix; exact H].
Qed.

Lemma fifo_per_subscription : forall caps base meth tr h b cn,
  let s := fst (reach caps base meth tr) in
  nth_error (subs s) h = Some b -> nth_error (conns s) (s_conn b) = Some cn ->
  filter_map (plain_item (s_id b)) (sent cn) = log_of h (snd (reach caps base meth tr)) /\
  exists pending, log_of h (snd (reach caps base meth tr)) = filter_map (plain_item (s_id b)) (c_wire cn) ++ pending.
Proof.
  intros caps base meth tr h b cn s Hb Hc. destruct (reach_inv caps base meth tr) as [_ [IO _]].
  pose proof (io_fifo _ _ IO _ _ _ Hb Hc) as E. split; [assumption|].
  exists (filter_map (plain_item (s_id b)) (c_queue cn)). rewrite <- E. unfold sent. apply filter_map_app.
Qed.

Lemma rejected_is_silent : forall caps base meth tr h b,
  let s := fst (reach caps base meth tr) in
  nth_error (subs s) h = Some b -> ~ accepted b ->
  (forall c cn f, nth_error (conns s) c = Some cn -> In f (sent cn) -> is_notif f = true -> frame_sid f <> s_id b) /\
  s_ret b = None.
Proof.
  intros caps base meth tr h b s Hb Na. destruct (reach_inv caps base meth tr) as [I _]. split.
  - intros c cn f Hc Hf Hn E. destruct (inv_frames _ I _ _ _ Hc Hf Hn) as [h0 [b0 [H0 [_ [E2 [_ E4]]]]]].
    assert (h0 = h) by (eapply ids_inj; eauto; congruence). subst h0. fold s in H0. rewrite Hb in H0. inversion H0; subst b0.
    apply Na. right. assumption.
  - destruct (inv_sub _ I _ _ Hb) as [_ [_ [_ [_ [A5 _]]]]]. apply A5. intro E. apply Na. right. assumption.
Qed.

Lemma count_closing_ex : forall sid l, 1 <= count_closing sid l -> exists f, In f l /\ closing_of sid f = true.
Proof.
  intros sid l. unfold count_closing. induction l as [|f l IH]; cbn; [lia|].
  destruct (closing_of sid f) eqn:E; [intros _; exists f; auto|]. intro H. destruct (IH H) as [g [Hg Eg]]. exists g. auto.
Qed.

Lemma close_notification_once : forall caps base meth tr h b cn,
  let s := fst (reach caps base meth tr) in
  nth_error (subs s) h = Some b -> nth_error (conns s) (s_conn b) = Some cn ->
  count_closing (s_id b) (sent cn) <= 1 /\
  (1 <= count_closing (s_id b) (sent cn) -> s_state b = SActive /\ s_returned b = true) /\
  (forall c2 cn2, c2 <> s_conn b -> nth_error (conns s) c2 = Some cn2 -> count_closing (s_id b) (sent cn2) = 0).
Proof.
  intros caps base meth tr h b cn s Hb Hc. destruct (reach_inv caps base meth tr) as [I _]. fold s in I.
  destruct (inv_closing _ I _ _ _ Hb Hc) as [C1 C2].
  assert (Own : forall c2 cn2 f, nth_error (conns s) c2 = Some cn2 -> In f (sent cn2) -> is_notif f = true -> frame_sid f = s_id b ->
            c2 = s_conn b /\ s_state b = SActive).
  { intros c2 cn2 f H2 Hf Hn E. destruct (inv_frames _ I _ _ _ H2 Hf Hn) as [h0 [b0 [H0 [E1 [E2 [_ E4]]]]]].
    assert (h0 = h) by (eapply ids_inj; eauto; congruence). subst h0. rewrite Hb in H0. inversion H0; subst b0. auto. }
  split; [lia|]. split.
  - intro Hge. split; [|auto]. destruct (count_closing_ex _ _ Hge) as [f [Hf Ef]]. unfold closing_of in Ef.
    apply andb_true_iff in Ef. destruct Ef as [Ef E3]. apply andb_true_iff in Ef. destruct Ef as [E1 _]. apply N.eqb_eq in E3.
    eapply Own; eauto.
  - intros c2 cn2 Ne H2. apply count_closing_zero. intros f Hf Hn E. destruct (Own _ _ _ H2 Hf Hn E). contradiction.
Qed.

(* what closes a subscription: a successful unsubscribe naming it, the end of its connection, the server stopping
   (at once when the connection has no unanswered subscribe call) *)
Definition closes (s : st) (a : act) (b : sub) : Prop :=
  (exists req, a = UnsubscribeCall (s_conn b) req (s_id b) /\ In (OUnsubAnswer (s_conn b) req (s_id b) true) (snd (step s a)))
  \/ a = ConnDrop (s_conn b)
  \/ (a = ServerStop /\ has_pending s (s_conn b) = false).

Lemma closes_closed : forall s o a h b, Inv s -> InvO s o -> inv_stop s ->
  nth_error (subs s) h = Some b -> s_state b = SActive -> closes s a b ->
  exists b1, nth_error (subs (fst (step s a))) h = Some b1 /\ s_state b1 = SActive /\ sink_closed (fst (step s a)) b1 = true.
Proof.
  intros s o a h b I IO St Hb Ha Hcl.
  destruct (step_inv s o a I IO) as [I1 [_ [[M1 M2] St1]]].
  destruct (M2 _ _ Hb) as [b1 [Hb1 [[S1 [S2 _]] Hact]]]. destruct (Hact Ha) as [Ha1 Hu1].
  exists b1. split; [assumption|]. split; [assumption|]. unfold sink_closed. rewrite S1.
  destruct Hcl as [[req [-> Hobs]] | [-> | [-> Hnp]]].
  - (* successful unsubscribe: the liveness channel of b is closed in that step *)
    apply orb_true_iff. right.
    unfold step, step_gen in Hb1, Hobs. cbn [step_core step_core_g when_performed] in Hb1, Hobs.
    destruct (nth_error (conns s) (s_conn b)) as [cn|] eqn:Hc; [|rewrite (settle_id s St) in Hobs; destruct Hobs].
    destruct (c_open cn && negb (stopped s)); [|rewrite (settle_id s St) in Hobs; destruct Hobs].
    match type of Hb1 with context [settle ?x] => pose proof (settle_subs x) as [Es _]; destruct (settle x) as [s2 o2] end.
    cbn [fst snd] in *. rewrite Es in Hb1. cbn in Hb1. rewrite nth_error_map', Hb in Hb1. cbn in Hb1. inversion Hb1.
    unfold key_of. rewrite (proj2 (key_eqb_eq (s_conn b, s_id b) (s_conn b, s_id b)) eq_refl), Ha. reflexivity.
  - (* the connection ended *)
    apply orb_true_iff. left. apply negb_true_iff. destruct (conn_open (fst (step s (ConnDrop (s_conn b)))) (s_conn b)) eqn:E; [|reflexivity].
    exfalso. unfold step, step_gen in E. cbn [step_core step_core_g when_performed] in E.
    destruct (nth_error (conns s) (s_conn b)) as [cn|] eqn:Hc.
    + destruct (c_open cn) eqn:Eo.
      * match type of E with context [settle ?x] =>
          assert (Ix : Inv x /\ InvO x (o ++ [OAck]) /\ Mono s x) end.
        { pose proof (step_core_inv s o (ConnDrop (s_conn b)) I IO) as P. cbn [step_core step_core_g when_performed] in P. rewrite Hc, Eo in P. exact P. }
        destruct Ix as [Ix [IOx _]]. destruct (settle_inv _ _ Ix IOx) as [_ [_ [[Mx _] _]]].
        match type of E with context [settle ?x] => destruct (settle x) as [s2 o2] end. cbn [fst snd] in *.
        apply Mx in E. unfold conn_open, upd_conn in E. cbn in E. rewrite nth_error_upd_same with (b := cn) in E by assumption. discriminate.
      * rewrite (settle_id s St) in E. cbn in E. unfold conn_open in E. rewrite Hc in E. congruence.
    + rewrite (settle_id s St) in E. cbn in E. unfold conn_open in E. rewrite Hc in E. discriminate.
  - (* server stop on a connection without unanswered subscribe call *)
    apply orb_true_iff. left. apply negb_true_iff. destruct (conn_open (fst (step s ServerStop)) (s_conn b)) eqn:E; [|reflexivity].
    exfalso. unfold conn_open in E. destruct (nth_error (conns (fst (step s ServerStop))) (s_conn b)) as [cn1|] eqn:Hc1; [|discriminate].
    assert (Hs : stopped (fst (step s ServerStop)) = true /\ subs (fst (step s ServerStop)) = subs s).
    { unfold step, step_gen. cbn [step_core step_core_g when_performed]. destruct (stopped s) eqn:Est.
      - rewrite (settle_id s St). cbn. auto.
      - destruct (settle_subs (set_stopped s)) as [Es [_ Est2]]. destruct (settle (set_stopped s)) as [s2 o2]. cbn [fst snd] in *. auto. }
    destruct Hs as [Hs1 Hs2]. pose proof (St1 Hs1 _ _ Hc1 E) as Hp. unfold has_pending in Hp, Hnp. rewrite Hs2 in Hp. congruence.
Qed.

Lemma closed_fails : forall s h b k x, inv_stop s -> nth_error (subs s) h = Some b -> sink_closed s b = true -> In k (s_sinks b) ->
  step s (IsClosed h k) = (s, [OClosed h k true]) /\
  (~ In k (map fst (s_inflight b)) -> step s (SendCheck h k x) = (s, [OSendResult h k x false])).
Proof.
  intros s h b k x St Hb Hc Hk. apply memN_In in Hk. split.
  - unfold step, step_gen. cbn [step_core step_core_g when_performed]. rewrite Hb, Hk, Hc, (settle_id s St). reflexivity.
  - intro Hn. assert (E : memN k (map fst (s_inflight b)) = false).
    { destruct (memN k (map fst (s_inflight b))) eqn:E; [apply memN_In in E; contradiction | reflexivity]. }
    unfold step, step_gen. cbn [step_core step_core_g when_performed]. rewrite Hb, Hk, E. cbn [andb negb]. rewrite Hc, (settle_id s St). reflexivity.
Qed.

Lemma send_after_close_fails : forall caps base meth tr1 a tr2 h b,
  let s0 := fst (reach caps base meth tr1) in
  let s2 := fst (reach caps base meth (tr1 ++ a :: tr2)) in
  nth_error (subs s0) h = Some b -> s_state b = SActive -> closes s0 a b ->
  exists b2, nth_error (subs s2) h = Some b2 /\ s_state b2 = SActive /\ sink_closed s2 b2 = true /\
    forall k x, In k (s_sinks b2) ->
      step s2 (IsClosed h k) = (s2, [OClosed h k true]) /\
      (~ In k (map fst (s_inflight b2)) -> step s2 (SendCheck h k x) = (s2, [OSendResult h k x false])).
Proof.
  intros caps base meth tr1 a tr2 h b s0 s2 Hb Ha Hcl.
  destruct (reach_inv caps base meth tr1) as [I [IO St]]. fold s0 in I, St.
  destruct (closes_closed s0 _ a h b I IO St Hb Ha Hcl) as [b1 [Hb1 [Ha1 Hc1]]].
  destruct (step_inv s0 _ a I IO) as [I1 [IO1 [_ St1]]].
  assert (E : reach caps base meth (tr1 ++ a :: tr2) =
              fold_left (run_step step) tr2 (fst (step s0 a), snd (reach caps base meth tr1) ++ snd (step s0 a))).
  { replace (tr1 ++ a :: tr2) with ((tr1 ++ [a]) ++ tr2) by (rewrite <- app_assoc; reflexivity).
    rewrite reach_app, reach_snoc. reflexivity. }
  destruct (run_inv_from _ _ tr2 I1 IO1 St1) as [_ [_ [St2 [M2a M2b]]]]. rewrite <- E in St2, M2a, M2b. fold s2 in St2, M2a, M2b.
  destruct (M2b _ _ Hb1) as [b2 [Hb2 [[S1 _] Hact]]]. destruct (Hact Ha1) as [Ha2 Hu2].
  assert (Hc2 : sink_closed s2 b2 = true).
  { unfold sink_closed in *. rewrite S1. apply orb_true_iff in Hc1. apply orb_true_iff. destruct Hc1 as [Hc1 | Hc1].
    - left. apply negb_true_iff in Hc1. apply negb_true_iff. destruct (conn_open s2 (s_conn b1)) eqn:Eo; [|reflexivity].
      apply M2a in Eo. congruence.
    - right. auto. }
  exists b2. split; [assumption|]. split; [assumption|]. split; [assumption|].
  intros k x Hk. eapply closed_fails; eassumption.
Qed.

Lemma stop_closes_idle : forall caps base meth tr, inv_stop (fst (reach caps base meth tr)).
Proof. intros. apply reach_inv. Qed.

(* ------------------------------------------------------------------ C06: lemmas behind the theorems *)
(* subscriptions of connection c that exist: pending, being accepted, or active with a sink still held *)
Definition live_on (c : nat) (b : sub) : bool := Nat.eqb (s_conn b) c && live b.
Definition count_live (s : st) (c : nat) : nat := length (filter (live_on c) (subs s)).

(* (c, t) names a subscription that is currently active on connection c *)
Definition active_here (s : st) (c : nat) (t : N) : Prop :=
  exists h b, nth_error (subs s) h = Some b /\ s_conn b = c /\ s_id b = t /\ s_state b = SActive /\
              s_unsubscribed b = false /\ s_sinks b <> [].

Lemma filter_ext_in_len : forall A (p q : A -> bool) l, (forall a, In a l -> p a = q a) -> length (filter p l) = length (filter q l).
Proof.
  intros A p q l H. induction l as [|a l IH]; cbn; [reflexivity|]. rewrite (H a (or_introl eq_refl)).
  destruct (q a); cbn; rewrite IH; auto; intros; apply H; right; assumption.
Qed.

Lemma count_live_on : forall s c, Inv s -> count_live s c = count_on s c.
Proof.
  intros s c I. unfold count_live, count_on. apply filter_ext_in_len. intros b Hin.
  apply In_nth_error in Hin. destruct Hin as [h Hb]. destruct (inv_sub s I _ _ Hb) as [_ [_ [_ [E _]]]].
  unfold live_on, holds_on. rewrite E. reflexivity.
Qed.

Lemma table_active : forall s c t, Inv s -> (In (c, t) (table s) <-> active_here s c t).
Proof.
  intros s c t I. rewrite (inv_table s I). split.
  - intros [h [b [Hb K]]]. apply akey_key in K. destruct K as [K [Ha Hu]]. unfold key_of in K. inversion K.
    exists h, b. repeat split; auto. intro Hs. destruct (inv_sub s I _ _ Hb) as [_ [_ [_ [_ [_ [_ [A7 _]]]]]]].
    rewrite (A7 Ha Hs) in Hu. discriminate.
  - intros [h [b [Hb [E1 [E2 [Ha [Hu _]]]]]]]. exists h, b. split; [assumption|]. unfold akey, key_of. rewrite Ha, Hu, E1, E2. reflexivity.
Qed.

Lemma unsubscribe_truth_table : forall caps base meth tr c cn req t,
  let s := fst (reach caps base meth tr) in
  nth_error (conns s) c = Some cn -> c_open cn = true -> stopped s = false ->
  exists r, snd (step s (UnsubscribeCall c req t)) = [OUnsubAnswer c req t r] /\
            (r = true <-> active_here s c t) /\
            (exists cn', nth_error (conns (fst (step s (UnsubscribeCall c req t)))) c = Some cn' /\ sent cn' = sent cn ++ [FUnsub req r]).
Proof.
  intros caps base meth tr c cn req t s Hc Ho Hst. destruct (reach_inv caps base meth tr) as [I _]. fold s in I.
  exists (mem_key (c, t) (table s)).
  assert (E : step s (UnsubscribeCall c req t) = (fst (step_core false s (UnsubscribeCall c req t)), [OUnsubAnswer c req t (mem_key (c, t) (table s))])).
  { unfold step, step_gen. cbn [step_core step_core_g when_performed]. rewrite Hc, Ho, Hst. cbn [andb negb].
    unfold settle. cbn [stopped upd_conn set_conns set_subs set_table]. rewrite Hst. reflexivity. }
  rewrite E. cbn [fst snd]. split; [reflexivity|]. split.
  - rewrite <- (table_active s c t I). split; intro H; [apply mem_key_In | apply mem_key_In in H]; assumption.
  - cbn [step_core step_core_g when_performed]. rewrite Hc, Ho, Hst. cbn [andb negb fst]. exists (c_enq (FUnsub req (mem_key (c, t) (table s))) cn).
    split; [unfold upd_conn; cbn; apply nth_error_upd_same; assumption|]. unfold sent, c_enq. cbn. rewrite app_assoc. reflexivity.
Qed.

Lemma cap_respected : forall caps base meth tr c cn,
  let s := fst (reach caps base meth tr) in
  nth_error (conns s) c = Some cn ->
  count_live s c + c_permits cn = c_cap cn /\ count_live s c <= c_cap cn.
Proof.
  intros caps base meth tr c cn s Hc. destruct (reach_inv caps base meth tr) as [I _]. fold s in I.
  pose proof (inv_count s I _ _ Hc). rewrite (count_live_on s c I). lia.
Qed.

Lemma subscribe_decision : forall caps base meth tr c cn req,
  let s := fst (reach caps base meth tr) in
  nth_error (conns s) c = Some cn -> c_open cn = true -> stopped s = false ->
  (count_live s c = c_cap cn ->
     snd (step s (SubscribeCall c req)) = [ORefused c req] /\ subs (fst (step s (SubscribeCall c req))) = subs s /\
     exists cn', nth_error (conns (fst (step s (SubscribeCall c req)))) c = Some cn' /\ sent cn' = sent cn ++ [FErr req ETooMany]) /\
  (count_live s c < c_cap cn -> snd (step s (SubscribeCall c req)) = [OHandler (length (subs s)) c req]).
Proof.
  intros caps base meth tr c cn req s Hc Ho Hst. destruct (cap_respected caps base meth tr c cn Hc) as [E _]. fold s in E.
  unfold step, step_gen. cbn [step_core step_core_g when_performed]. rewrite Hc, Ho, Hst. cbn [andb negb]. split; intro H.
  - assert (Hp : c_permits cn = 0) by lia. rewrite Hp. unfold settle, push. cbn [stopped upd_conn set_conns]. rewrite Hst. cbn [fst snd].
    split; [reflexivity|]. split; [reflexivity|]. exists (c_push (FErr req ETooMany) cn).
    split; [apply nth_error_upd_same; assumption|]. unfold c_push. rewrite Ho. unfold sent, c_enq. cbn. rewrite app_assoc. reflexivity.
  - destruct (c_permits cn) as [|p] eqn:Hp; [lia|]. unfold settle. cbn [stopped upd_conn set_conns set_subs]. rewrite Hst. reflexivity.
Qed.

(* a connection with p free permits starts p new subscriptions *)
Fixpoint handler_obs (h c : nat) (reqs : list N) : list obs :=
  match reqs with [] => [] | r :: rs => OHandler h c r :: handler_obs (S h) c rs end.

Lemma restart : forall reqs s c cn, nth_error (conns s) c = Some cn -> c_open cn = true -> stopped s = false ->
  length reqs <= c_permits cn ->
  snd (run s (map (SubscribeCall c) reqs)) = handler_obs (length (subs s)) c reqs.
Proof.
  intros reqs. unfold run, run_gen.
  assert (G : forall s o c cn, nth_error (conns s) c = Some cn -> c_open cn = true -> stopped s = false -> length reqs <= c_permits cn ->
            snd (fold_left (run_step step) (map (SubscribeCall c) reqs) (s, o)) = o ++ handler_obs (length (subs s)) c reqs).
  { induction reqs as [|req reqs IH]; intros s o c cn Hc Ho Hst Hl; cbn [map fold_left handler_obs].
    - cbn. rewrite app_nil_r. reflexivity.
    - cbn [length] in Hl. destruct (c_permits cn) as [|p] eqn:Hp; [lia|].
      assert (E : run_step step (s, o) (SubscribeCall c req) =
                  (upd_conn (set_subs s (subs s ++ [mkSub c (id_base s + N.of_nat (length (subs s)))%N req (notif_meth s) SPending [] [] true false false None])) c (c_set_permits p),
                   o ++ [OHandler (length (subs s)) c req])).
      { unfold run_step, step, step_gen. cbn [step_core step_core_g when_performed fst snd]. rewrite Hc, Ho, Hst, Hp. cbn [andb negb].
        unfold settle. cbn [stopped upd_conn set_conns set_subs]. rewrite Hst. reflexivity. }
      rewrite E. erewrite IH with (cn := c_set_permits p cn).
      + cbn [subs upd_conn set_conns set_subs]. rewrite app_length. cbn [length]. rewrite <- app_assoc. cbn [app].
        rewrite Nat.add_1_r. reflexivity.
      + cbn. apply nth_error_upd_same. assumption.
      + assumption.
      + assumption.
      + cbn. lia. }
  intros s c cn Hc Ho Hst Hl. rewrite (G s [] c cn Hc Ho Hst Hl). reflexivity.
Qed.

Lemma slot_returns : forall caps base meth tr c cn reqs,
  let s := fst (reach caps base meth tr) in
  nth_error (conns s) c = Some cn ->
  (c_permits cn = c_cap cn - count_live s c) /\
  (c_open cn = true -> stopped s = false -> length reqs = c_cap cn - count_live s c ->
     snd (run s (map (SubscribeCall c) reqs)) = handler_obs (length (subs s)) c reqs).
Proof.
  intros caps base meth tr c cn reqs s Hc. destruct (cap_respected caps base meth tr c cn Hc) as [E _]. fold s in E.
  split; [lia|]. intros Ho Hst Hl. eapply restart; eauto. lia.
Qed.

Lemma stays_active : forall caps base meth tr h b cn,
  let s := fst (reach caps base meth tr) in
  let o := snd (reach caps base meth tr) in
  nth_error (subs s) h = Some b -> s_state b = SActive -> s_sinks b <> [] ->
  nth_error (conns s) (s_conn b) = Some cn -> c_open cn = true ->
  (forall req, ~ In (OUnsubAnswer (s_conn b) req (s_id b) true) o) ->
  In (s_conn b, s_id b) (table s) /\
  forall k, In k (s_sinks b) -> step s (IsClosed h k) = (s, [OClosed h k false]).
Proof.
  intros caps base meth tr h b cn s o Hb Ha Hs Hc Ho Hn. destruct (reach_inv caps base meth tr) as [I [IO St]]. fold s in I, IO, St. fold o in IO.
  assert (Hu : s_unsubscribed b = false).
  { destruct (s_unsubscribed b) eqn:E; [|reflexivity]. destruct (io_unsub s o IO _ _ Hb Ha E Hs) as [req Hr]. exfalso. exact (Hn req Hr). }
  split.
  - apply (inv_table s I). exists h, b. split; [assumption|]. unfold akey. rewrite Ha, Hu. reflexivity.
  - intros k Hk. apply memN_In in Hk. unfold step, step_gen. cbn [step_core step_core_g when_performed]. rewrite Hb, Hk, (settle_id s St).
    unfold sink_closed. rewrite (conn_open_eq _ _ _ Hc), Ho, Hu. reflexivity.
Qed.

(* the unrepaired Drop breaks it: after `clone; drop the clone` the surviving sink reports closed and the entry is gone *)
Definition old_witness : list act :=
  [SubscribeCall 0 1; Accept1 0; Accept2 0; CloneSink 0 0 1; DropSink 0 1].

Lemma stays_active_refuted_old :
  let s := fst (run_old (init [2] 1000 0) old_witness) in
  let o := snd (run_old (init [2] 1000 0) old_witness) in
  exists h b cn, nth_error (subs s) h = Some b /\ s_state b = SActive /\ s_sinks b <> [] /\
    nth_error (conns s) (s_conn b) = Some cn /\ c_open cn = true /\
    (forall req, ~ In (OUnsubAnswer (s_conn b) req (s_id b) true) o) /\
    ~ In (s_conn b, s_id b) (table s) /\
    exists k, In k (s_sinks b) /\ step_old s (IsClosed h k) = (s, [OClosed h k true]).
Proof.
  vm_compute. eexists 0, _, _. split; [reflexivity|]. split; [reflexivity|]. split; [discriminate|].
  split; [reflexivity|]. split; [reflexivity|]. split.
  - intros req H. repeat (destruct H as [H | H]; [discriminate H|]). exact H.
  - split; [intros []|]. exists 0%N. split; [left; reflexivity | reflexivity].
Qed.

(* ------------------------------------------------------------------ C06: accept() that FAILS (abandoned subscribe call, closed connection) *)
(* Everything below is about the order of accept()'s steps that Gen/AcceptOrderGen.accept_steps has NOW: the equations
   accept_phase1_now / accept_phase2_now and accept_failure_keeps_table are computed on that constant. *)
Lemma settle_obs_shape : forall s ob, In ob (snd (settle s)) -> (exists c f, ob = OFrameOut c f) \/ (exists c, ob = OConnEnd c).
Proof.
  intros s ob. unfold settle. destruct (stopped s); [|intros []].
  destruct (settle_from_spec s (conns s) 0) as [_ [_ S3]]. destruct (settle_from s 0 (conns s)); cbn in *. auto.
Qed.

Lemma settle_conn : forall s c cn', nth_error (conns (fst (settle s))) c = Some cn' ->
  exists cn, nth_error (conns s) c = Some cn /\ c_permits cn' = c_permits cn /\ c_cap cn' = c_cap cn.
Proof.
  intros s c cn'. unfold settle. destruct (stopped s); [|cbn; intro H; exists cn'; auto].
  destruct (settle_from_spec s (conns s) 0) as [S1 [S2 _]]. destruct (settle_from s 0 (conns s)) as [cs o]; cbn in *.
  intro H. destruct (nth_error (conns s) c) as [cn|] eqn:E.
  - exists cn. split; [reflexivity|]. destruct (S2 _ _ _ E H) as [[-> _] | [-> _]]; auto.
  - apply nth_error_None in E. assert (c < length cs) by (apply nth_error_Some; congruence). lia.
Qed.

(* Accept1 on a live pending sink, for the order now: the three outcomes *)
Lemma accept1_core : forall old s h b cn, nth_error (subs s) h = Some b -> nth_error (conns s) (s_conn b) = Some cn ->
  holds_pending (s_state b) = true ->
  step_core old s (Accept1 h) =
    if c_open cn then
      if call_waiting (s_state b)
      then (apply s h b (sb_state SAccepting) (c_enq (FSubOk (s_req b) (s_id b))) (table s), [OAck])
      else (apply s h b (sb_fail SDone (s_has_permit b))
              (fun x => rel_conn (s_has_permit b) (c_enq (FSubOk (s_req b) (s_id b)) x)) (table s), [OAccept h false])
    else (apply s h b (sb_fail SDone (s_has_permit b)) (rel_conn (s_has_permit b)) (table s), [OAccept h false]).
Proof.
  intros old s h b cn Hb Hcn Hp. cbn [step_core step_core_g when_performed]. rewrite Hb, Hp, accept_phase1_now. cbn [accept_run].
  rewrite (conn_open_eq _ _ _ Hcn). destruct (c_open cn); [destruct (call_waiting (s_state b))|]; reflexivity.
Qed.

(* a subscription that ended without ever being active stays ended *)
Definition keeps (f : sub -> sub) : Prop := forall x, same_static x (f x) /\ s_state (f x) = s_state x.

Lemma keeps_setters : forall r l i p u o,
  keeps (rel_sub r) /\ keeps (sb_sinks l) /\ keeps (sb_inflight i) /\ keeps (sb_permit p) /\ keeps (sb_unsub u) /\
  keeps (sb_returned o) /\ keeps (sb_ret o).
Proof. intros. unfold keeps, rel_sub, same_static. repeat split; destruct r; reflexivity. Qed.

Lemma apply_done : forall s h0 b0 fs fc t h b, nth_error (subs s) h = Some b -> s_state b = SDone ->
  nth_error (subs s) h0 = Some b0 -> (s_state b0 = SDone -> same_static b0 (fs b0) /\ s_state (fs b0) = SDone) ->
  exists b', nth_error (subs (apply s h0 b0 fs fc t)) h = Some b' /\ same_static b b' /\ s_state b' = SDone.
Proof.
  intros s h0 b0 fs fc t h b Hb Hd Hb0 Hf. unfold apply. cbn [subs]. destruct (Nat.eq_dec h h0) as [->|Ne].
  - rewrite Hb in Hb0. inversion Hb0; subst b0. exists (fs b). split; [apply nth_error_upd_same; assumption | auto].
  - exists b. split; [rewrite nth_error_upd_other; assumption|]. split; [repeat split | assumption].
Qed.

Lemma step_core_done : forall old s a h b, nth_error (subs s) h = Some b -> s_state b = SDone ->
  exists b', nth_error (subs (fst (step_core old s a))) h = Some b' /\ same_static b b' /\ s_state b' = SDone.
Proof.
  intros old s a h b Hb Hd.
  assert (Same : exists b', nth_error (subs s) h = Some b' /\ same_static b b' /\ s_state b' = SDone).
  { exists b. split; [assumption|]. split; [repeat split | assumption]. }
  assert (K : forall f, keeps f -> forall b0, s_state b0 = SDone -> same_static b0 (f b0) /\ s_state (f b0) = SDone).
  { intros f Hf b0 E. destruct (Hf b0) as [A B]. split; [assumption | congruence]. }
  destruct a; cbn [step_core step_core_g when_performed].
  - (* SubscribeCall *)
    destruct (nth_error (conns s) c) as [cn|]; [|exact Same]. destruct (c_open cn && negb (stopped s)); [|exact Same].
    destruct (c_permits cn); cbn [fst]; [exact Same|].
    exists b. unfold upd_conn, set_conns, set_subs. cbn [subs]. split; [|split; [repeat split | assumption]].
    rewrite nth_error_app1; [assumption | apply nth_error_Some; congruence].
  - (* Accept1 *)
    destruct (nth_error (subs s) h0) as [b0|] eqn:Hb0; [|exact Same].
    destruct (holds_pending (s_state b0)) eqn:Hp; [|exact Same].
    match goal with |- context [ar_ok ?r] => destruct (ar_ok r) end; cbn [fst];
      (eapply apply_done; eauto; intro E; rewrite E in Hp; discriminate Hp).
  - (* Accept2 *)
    destruct (nth_error (subs s) h0) as [b0|] eqn:Hb0; [|exact Same].
    destruct (s_state b0) eqn:Es; try exact Same. cbn [fst]. eapply apply_done; eauto. intro; congruence.
  - (* Reject *)
    destruct (nth_error (subs s) h0) as [b0|] eqn:Hb0; [|exact Same].
    destruct (holds_pending (s_state b0)) eqn:Hp; [|exact Same]. cbn [fst].
    eapply apply_done; eauto. intro E; rewrite E in Hp; discriminate Hp.
  - (* AbandonCall *)
    destruct (nth_error (subs s) h0) as [b0|] eqn:Hb0; [|exact Same].
    destruct (s_state b0) eqn:Es; try exact Same. destruct keep; cbn [fst]; (eapply apply_done; eauto; intro; congruence).
  - (* DropPending *)
    destruct (nth_error (subs s) h0) as [b0|] eqn:Hb0; [|exact Same].
    destruct (s_state b0) eqn:Es; try exact Same; cbn [fst]; (eapply apply_done; eauto; intro; congruence).
  - (* CloneSink *)
    destruct (nth_error (subs s) h0) as [b0|] eqn:Hb0; [|exact Same].
    destruct (memN src (s_sinks b0) && negb (memN k (s_sinks b0))); [|exact Same]. cbn [fst].
    eapply apply_done; eauto. apply K. apply (keeps_setters false (k :: s_sinks b0) [] false false None).
  - (* DropSink *)
    destruct (nth_error (subs s) h0) as [b0|] eqn:Hb0; [|exact Same].
    destruct (memN k (s_sinks b0) && negb (memN k (map fst (s_inflight b0)))); [|exact Same]. cbn [fst].
    destruct old; unfold drop_sink, drop_sink_old; (eapply apply_done; eauto); intro E;
      unfold rel_sub, same_static;
      repeat match goal with |- context [if ?c then _ else _] => destruct c end; cbn; auto.
  - (* SendCheck *)
    destruct (nth_error (subs s) h0) as [b0|] eqn:Hb0; [|exact Same].
    destruct (memN k (s_sinks b0) && negb (memN k (map fst (s_inflight b0)))); [|exact Same].
    destruct (sink_closed s b0); cbn [fst]; [exact Same|].
    eapply apply_done; eauto. apply K. apply (keeps_setters false [] ((k, item) :: s_inflight b0) false false None).
  - (* SendEnqueue *)
    destruct (nth_error (subs s) h0) as [b0|] eqn:Hb0; [|exact Same].
    destruct (inflight_of k (s_inflight b0)); [|exact Same]. cbn [fst].
    eapply apply_done; eauto. apply K. apply (keeps_setters false [] (remove_inflight k (s_inflight b0)) false false None).
  - (* IsClosed *)
    destruct (nth_error (subs s) h0) as [b0|]; [|exact Same]. destruct (memN k (s_sinks b0)); exact Same.
  - (* HandlerReturn *)
    destruct (nth_error (subs s) h0) as [b0|] eqn:Hb0; [|exact Same].
    destruct (s_returned b0); [exact Same|].
    destruct (s_state b0) eqn:Es; cbn [fst]; try exact Same;
      (eapply apply_done; eauto; intro; try congruence).
    apply K; [|assumption]. apply (keeps_setters false [] [] false false None).
  - (* CloseNotify *)
    destruct (nth_error (subs s) h0) as [b0|] eqn:Hb0; [|exact Same].
    destruct (s_ret b0); [|exact Same]. cbn [fst].
    eapply apply_done; eauto. apply K. apply (keeps_setters false [] [] false false None).
  - (* UnsubscribeCall *)
    destruct (nth_error (conns s) c) as [cn|]; [|exact Same]. destruct (c_open cn && negb (stopped s)); [|exact Same].
    cbn [fst]. unfold upd_conn, set_conns, set_subs, set_table. cbn [subs].
    exists (unsub_map (c, target) b). split; [fold (unsub_map (c, target)); rewrite nth_error_map', Hb; reflexivity|].
    destruct (unsub_map_facts (c, target) b) as [S [Es _]]. split; [assumption | congruence].
  - (* WriterStep *)
    destruct (nth_error (conns s) c) as [cn|]; [|exact Same]. destruct (c_open cn); [|exact Same].
    destruct (c_queue cn); exact Same.
  - (* ConnDrop *)
    destruct (nth_error (conns s) c) as [cn|]; [|exact Same]. destruct (c_open cn); exact Same.
  - (* ServerStop *)
    destruct (stopped s); exact Same.
Qed.

Lemma same_static_trans : forall a b c, same_static a b -> same_static b c -> same_static a c.
Proof. unfold same_static. intros a b c [A1 [A2 [A3 A4]]] [B1 [B2 [B3 B4]]]. repeat split; congruence. Qed.

Lemma step_done : forall s a h b, nth_error (subs s) h = Some b -> s_state b = SDone ->
  exists b', nth_error (subs (fst (step s a))) h = Some b' /\ same_static b b' /\ s_state b' = SDone.
Proof.
  intros s a h b Hb Hd. unfold step, step_gen. destruct (step_core_done false s a h b Hb Hd) as [b' R].
  destruct (step_core false s a) as [s1 o1]. cbn [fst] in R. destruct (settle_subs s1) as [E _].
  destruct (settle s1) as [s2 o2]. cbn [fst] in *. rewrite E. exists b'. exact R.
Qed.

Lemma fold_done : forall tr s o h b, nth_error (subs s) h = Some b -> s_state b = SDone ->
  exists b', nth_error (subs (fst (fold_left (run_step step) tr (s, o)))) h = Some b' /\ same_static b b' /\ s_state b' = SDone.
Proof.
  induction tr as [|a tr IH]; intros s o h b Hb Hd; cbn [fold_left].
  - exists b. split; [assumption|]. split; [repeat split | assumption].
  - assert (E : run_step step (s, o) a = (fst (step s a), o ++ snd (step s a))).
    { unfold run_step. cbn [fst snd]. destruct (step s a). reflexivity. }
    rewrite E. destruct (step_done s a h b Hb Hd) as [b1 [Hb1 [S1 Hd1]]].
    destruct (IH _ (o ++ snd (step s a)) h b1 Hb1 Hd1) as [b2 [Hb2 [S2 Hd2]]].
    exists b2. split; [assumption|]. split; [eapply same_static_trans; eassumption | assumption].
Qed.

Lemma not_active_here : forall s h b, Inv s -> nth_error (subs s) h = Some b -> s_state b <> SActive ->
  ~ active_here s (s_conn b) (s_id b).
Proof.
  intros s h b I Hb Hn [h' [b' [Hb' [_ [Ei [Ha _]]]]]].
  assert (h' = h) by (eapply ids_inj; eauto). subst h'. rewrite Hb in Hb'. inversion Hb'; subst b'. contradiction.
Qed.

Lemma step_fst : forall s a, fst (step s a) = fst (settle (fst (step_core false s a))).
Proof. intros. unfold step, step_gen. destruct (step_core false s a) as [s1 o1]. cbn [fst]. destruct (settle s1). reflexivity. Qed.

Lemma step_snd : forall s a, snd (step s a) = snd (step_core false s a) ++ snd (settle (fst (step_core false s a))).
Proof. intros. unfold step, step_gen. destruct (step_core false s a) as [s1 o1]. cbn [fst snd]. destruct (settle s1). reflexivity. Qed.

(* the failing accept, seen through `step` *)
Lemma accept1_step : forall s h b cn, nth_error (subs s) h = Some b -> nth_error (conns s) (s_conn b) = Some cn ->
  holds_pending (s_state b) = true ->
  (In (OAccept h false) (snd (step s (Accept1 h))) <-> (s_state b = SAbandoned \/ conn_open s (s_conn b) = false)) /\
  (In (OAccept h false) (snd (step s (Accept1 h))) ->
     table (fst (step s (Accept1 h))) = table s /\
     (exists b1, nth_error (subs (fst (step s (Accept1 h)))) h = Some b1 /\ same_static b b1 /\ s_state b1 = SDone) /\
     (forall cn1, nth_error (conns (fst (step s (Accept1 h)))) (s_conn b) = Some cn1 ->
        c_permits cn1 = c_permits cn + b2n (s_has_permit b) /\ c_cap cn1 = c_cap cn)).
Proof.
  intros s h b cn Hb Hcn Hp.
  assert (NoAcc : forall s1 o1, In (OAccept h false) (o1 ++ snd (settle s1)) -> In (OAccept h false) o1).
  { intros s1 o1 Hin. apply in_app_or in Hin. destruct Hin as [Hin | Hin]; [assumption|].
    apply settle_obs_shape in Hin. destruct Hin as [[? [? E]] | [? E]]; discriminate E. }
  assert (Post : forall fs fc, (forall x, same_static x (fs x) /\ s_state (fs x) = SDone) ->
            (forall x, c_permits (fc x) = c_permits x + b2n (s_has_permit b) /\ c_cap (fc x) = c_cap x) ->
            let s1 := apply s h b fs fc (table s) in
            table (fst (settle s1)) = table s /\
            (exists b1, nth_error (subs (fst (settle s1))) h = Some b1 /\ same_static b b1 /\ s_state b1 = SDone) /\
            (forall cn1, nth_error (conns (fst (settle s1))) (s_conn b) = Some cn1 ->
               c_permits cn1 = c_permits cn + b2n (s_has_permit b) /\ c_cap cn1 = c_cap cn)).
  { intros fs fc Hfs Hfc s1. destruct (settle_subs s1) as [E1 [E2 _]]. split; [rewrite E2; reflexivity|]. split.
    - rewrite E1. exists (fs b). split; [apply nth_error_upd_same; assumption | apply Hfs].
    - intros cn1 H1. destruct (settle_conn _ _ _ H1) as [cn0 [H0 [P C]]].
      unfold s1, apply in H0. cbn [conns] in H0. rewrite nth_error_upd_same with (b := cn) in H0 by assumption.
      inversion H0; subst cn0. rewrite P, C. apply Hfc. }
  assert (Ffs : forall x, same_static x (sb_fail SDone (s_has_permit b) x) /\ s_state (sb_fail SDone (s_has_permit b) x) = SDone).
  { intro x. unfold sb_fail, rel_sub, same_static. destruct (s_has_permit b); cbn; auto. }
  rewrite step_fst, step_snd, (accept1_core false s h b cn Hb Hcn Hp), (conn_open_eq _ _ _ Hcn).
  destruct (c_open cn) eqn:Ho; [destruct (call_waiting (s_state b)) eqn:Hw|]; cbn [fst snd].
  - (* succeeds *)
    assert (N : forall s1, ~ In (OAccept h false) ([OAck] ++ snd (settle s1))).
    { intros s1 Hin. apply NoAcc in Hin. destruct Hin as [Hin | []]. discriminate Hin. }
    split; [|intro Hin; destruct (N _ Hin)]. split; [intro Hin; destruct (N _ Hin)|].
    intros [Ea | Ec]; [rewrite Ea in Hw; discriminate Hw | discriminate Ec].
  - (* the call is gone *)
    split.
    + split; [intros _ | intros _; left; reflexivity].
      left. destruct (s_state b); try discriminate Hp; try discriminate Hw. reflexivity.
    + intros _. apply (Post (sb_fail SDone (s_has_permit b)) (fun x => rel_conn (s_has_permit b) (c_enq (FSubOk (s_req b) (s_id b)) x))); [exact Ffs|].
      intro x. unfold rel_conn, b2n. destruct (s_has_permit b); cbn; split; auto; lia.
  - (* the connection is closed *)
    split.
    + split; [intros _; right; reflexivity | intros _; left; reflexivity].
    + intros _. apply (Post (sb_fail SDone (s_has_permit b)) (rel_conn (s_has_permit b))); [exact Ffs|].
      intro x. unfold rel_conn, b2n. destruct (s_has_permit b); cbn; split; auto; lia.
Qed.

Lemma reach_cons : forall caps base meth tr a tr2,
  reach caps base meth (tr ++ a :: tr2) =
  fold_left (run_step step) tr2 (fst (step (fst (reach caps base meth tr)) a),
                                 snd (reach caps base meth tr) ++ snd (step (fst (reach caps base meth tr)) a)).
Proof.
  intros. replace (tr ++ a :: tr2) with ((tr ++ [a]) ++ tr2) by (rewrite <- app_assoc; reflexivity).
  rewrite reach_app, reach_snoc. reflexivity.
Qed.

Lemma pending_cases_holds : forall x, x = SPending \/ x = SAbandoned -> holds_pending x = true.
Proof. intros x [-> | ->]; reflexivity. Qed.

Lemma failed_accept_leaves_no_entry : forall caps base meth tr h b,
  let s := fst (reach caps base meth tr) in
  nth_error (subs s) h = Some b -> (s_state b = SPending \/ s_state b = SAbandoned) ->
  (forall op call fs fc t, ar_ok (accept_run op call b accept_steps fs fc t) = false ->
                           ar_table (accept_run op call b accept_steps fs fc t) = t) /\
  (In (OAccept h false) (snd (step s (Accept1 h))) <-> (s_state b = SAbandoned \/ conn_open s (s_conn b) = false)) /\
  (In (OAccept h false) (snd (step s (Accept1 h))) ->
     table (fst (step s (Accept1 h))) = table s /\
     forall tr2 cn req, let s2 := fst (reach caps base meth (tr ++ Accept1 h :: tr2)) in
       ~ In (s_conn b, s_id b) (table s2) /\
       (nth_error (conns s2) (s_conn b) = Some cn -> c_open cn = true -> stopped s2 = false ->
        snd (step s2 (UnsubscribeCall (s_conn b) req (s_id b))) = [OUnsubAnswer (s_conn b) req (s_id b) false])).
Proof.
  intros caps base meth tr h b s Hb Hp. destruct (reach_inv caps base meth tr) as [I _]. fold s in I.
  destruct (conn_of_sub s h b I Hb) as [cn0 Hcn0].
  destruct (accept1_step s h b cn0 Hb Hcn0 (pending_cases_holds _ Hp)) as [Iff Post].
  split; [intros; apply accept_failure_keeps_table; assumption|]. split; [exact Iff|].
  intro Hfail. destruct (Post Hfail) as [Et [[b1 [Hb1 [S1 Hd1]]] _]]. split; [exact Et|].
  intros tr2 cn req s2.
  assert (E2 : exists b2, nth_error (subs s2) h = Some b2 /\ same_static b b2 /\ s_state b2 = SDone).
  { unfold s2. rewrite reach_cons. fold s.
    destruct (fold_done tr2 _ (snd (reach caps base meth tr) ++ snd (step s (Accept1 h))) h b1 Hb1 Hd1) as [b2 [Hb2 [S2 Hd2]]].
    exists b2. split; [assumption|]. split; [eapply same_static_trans; eassumption | assumption]. }
  destruct E2 as [b2 [Hb2 [[Ec [Ei _]] Hd2]]].
  destruct (reach_inv caps base meth (tr ++ Accept1 h :: tr2)) as [I2 _]. fold s2 in I2.
  assert (NA : ~ active_here s2 (s_conn b) (s_id b)).
  { rewrite <- Ec, <- Ei. eapply not_active_here; eauto. congruence. }
  split.
  - intro Hin. apply NA. apply (table_active s2 _ _ I2). assumption.
  - intros Hc Ho Hst.
    destruct (unsubscribe_truth_table caps base meth (tr ++ Accept1 h :: tr2) (s_conn b) cn req (s_id b) Hc Ho Hst) as [r [Er [Hr _]]].
    fold s2 in Er, Hr. rewrite Er. destruct r; [|reflexivity]. exfalso. apply NA. apply Hr. reflexivity.
Qed.

Lemma failed_accept_frees_slot : forall caps base meth tr h b cn,
  let s := fst (reach caps base meth tr) in
  nth_error (subs s) h = Some b -> (s_state b = SPending \/ s_state b = SAbandoned) ->
  nth_error (conns s) (s_conn b) = Some cn ->
  In (OAccept h false) (snd (step s (Accept1 h))) ->
  let s1 := fst (step s (Accept1 h)) in
  count_live s1 (s_conn b) + 1 = count_live s (s_conn b) /\
  exists cn1, nth_error (conns s1) (s_conn b) = Some cn1 /\ c_permits cn1 = c_permits cn + 1 /\ c_cap cn1 = c_cap cn.
Proof.
  intros caps base meth tr h b cn s Hb Hp Hcn Hfail s1. destruct (reach_inv caps base meth tr) as [I _]. fold s in I.
  destruct (accept1_step s h b cn Hb Hcn (pending_cases_holds _ Hp)) as [_ Post].
  destruct (Post Hfail) as [_ [[b1 [Hb1 [[Ec _] _]]] Hperm]]. fold s1 in Hb1, Hperm.
  assert (Es1 : s1 = fst (reach caps base meth (tr ++ [Accept1 h]))) by (rewrite reach_snoc; reflexivity).
  destruct (reach_inv caps base meth (tr ++ [Accept1 h])) as [I1 _]. rewrite <- Es1 in I1.
  destruct (conn_of_sub s1 h b1 I1 Hb1) as [cn1 Hcn1]. rewrite Ec in Hcn1.
  destruct (Hperm cn1 Hcn1) as [P C].
  assert (Hl : s_has_permit b = true).
  { destruct (inv_sub s I _ _ Hb) as [_ [_ [_ [E _]]]]. rewrite E. unfold live. destruct Hp as [-> | ->]; reflexivity. }
  rewrite Hl in P. cbn [b2n] in P.
  pose proof (cap_respected caps base meth tr (s_conn b) cn Hcn) as [A _]. fold s in A.
  pose proof (cap_respected caps base meth (tr ++ [Accept1 h]) (s_conn b) cn1) as B. rewrite <- Es1 in B. destruct (B Hcn1) as [B1 _].
  split; [lia|]. exists cn1. auto.
Qed.

Lemma upd_snoc_last : forall A (f : A -> A) l x, upd (length l) f (l ++ [x]) = l ++ [f x].
Proof. induction l as [|a l IH]; intro x; cbn; [reflexivity | rewrite IH; reflexivity]. Qed.

Lemma failed_accept_returns_slot : forall caps base meth tr c cn req mid,
  let s0 := fst (reach caps base meth tr) in
  let h := length (subs s0) in
  nth_error (conns s0) c = Some cn -> c_open cn = true -> stopped s0 = false -> count_live s0 c < c_cap cn ->
  (mid = [AbandonCall h true] \/ mid = [ConnDrop c]) ->
  let s2 := fst (reach caps base meth (tr ++ SubscribeCall c req :: mid)) in
  count_live s2 c = count_live s0 c + 1 /\
  In (OAccept h false) (snd (step s2 (Accept1 h))) /\
  count_live (fst (step s2 (Accept1 h))) c = count_live s0 c.
Proof.
  intros caps base meth tr c cn req mid s0 h Hc Ho Hst Hlt Hmid s2.
  destruct (cap_respected caps base meth tr c cn Hc) as [Hcap _]. fold s0 in Hcap.
  destruct (c_permits cn) as [|p] eqn:Hp; [lia|].
  set (bnew := mkSub c (id_base s0 + N.of_nat h)%N req (notif_meth s0) SPending [] [] true false false None).
  set (s1 := upd_conn (set_subs s0 (subs s0 ++ [bnew])) c (c_set_permits p)).
  assert (E1 : step s0 (SubscribeCall c req) = (s1, [OHandler h c req])).
  { unfold step, step_gen. cbn [step_core step_core_g when_performed]. rewrite Hc, Ho, Hst, Hp. cbn [andb negb].
    unfold settle. cbn [stopped upd_conn set_conns set_subs]. rewrite Hst. reflexivity. }
  assert (Hst1 : stopped s1 = false) by exact Hst.
  assert (Hb1 : nth_error (subs s1) h = Some bnew).
  { unfold s1, upd_conn, set_conns, set_subs. cbn [subs]. rewrite nth_error_app2 by (unfold h; lia).
    unfold h. rewrite Nat.sub_diag. reflexivity. }
  assert (Hc1 : nth_error (conns s1) c = Some (c_set_permits p cn)).
  { unfold s1, upd_conn, set_conns, set_subs. cbn [conns]. apply nth_error_upd_same. assumption. }
  assert (Hlive1 : count_live s1 c = count_live s0 c + 1).
  { unfold count_live, s1, upd_conn, set_conns, set_subs. cbn [subs]. rewrite filter_app, app_length. cbn [filter].
    unfold live_on at 2. cbn [s_conn bnew]. rewrite Nat.eqb_refl. reflexivity. }
  (* the state after `mid`, its subscription h and its connection c *)
  assert (M : exists b2, nth_error (subs s2) h = Some b2 /\ s_conn b2 = c /\ count_live s2 c = count_live s0 c + 1 /\
                (s_state b2 = SAbandoned \/ (s_state b2 = SPending /\ conn_open s2 c = false))).
  { unfold s2. rewrite reach_cons. fold s0. rewrite E1. cbn [fst snd].
    destruct Hmid as [-> | ->]; cbn [fold_left]; unfold run_step; cbn [fst snd].
    - (* the call is abandoned, the pending sink lives on *)
      assert (E2 : step s1 (AbandonCall h true) =
                   (apply s1 h bnew (fun x => sb_returned None (sb_state SAbandoned x)) (c_push (FErr (s_req bnew) EAbandoned)) (table s1), [OAck])).
      { unfold step, step_gen. cbn [step_core step_core_g when_performed]. rewrite Hb1. cbn [s_state bnew].
        unfold settle. cbn [stopped apply]. rewrite Hst1. reflexivity. }
      rewrite E2. cbn [fst].
      exists (sb_returned None (sb_state SAbandoned bnew)). split; [|split; [reflexivity | split; [|left; reflexivity]]].
      + unfold apply. cbn [subs]. exact (nth_error_upd_same _ (fun x => sb_returned None (sb_state SAbandoned x)) _ _ _ Hb1).
      + rewrite <- Hlive1. unfold count_live, apply. cbn [subs].
        pose proof (filter_length_upd _ (live_on c) (fun x => sb_returned None (sb_state SAbandoned x)) _ _ _ Hb1) as FL.
        replace (live_on c bnew) with true in FL by (unfold live_on; cbn; rewrite Nat.eqb_refl; reflexivity).
        replace (live_on c (sb_returned None (sb_state SAbandoned bnew))) with true in FL by (unfold live_on; cbn; rewrite Nat.eqb_refl; reflexivity).
        lia.
    - (* the client drops the connection *)
      assert (E2 : step s1 (ConnDrop c) = (upd_conn s1 c c_close, [OAck])).
      { unfold step, step_gen. cbn [step_core step_core_g when_performed]. rewrite Hc1. cbn [c_open c_set_permits]. rewrite Ho.
        unfold settle. cbn [stopped upd_conn set_conns]. rewrite Hst1. reflexivity. }
      rewrite E2. cbn [fst].
      exists bnew. split; [exact Hb1|]. split; [reflexivity|]. split; [exact Hlive1|]. right. split; [reflexivity|].
      unfold conn_open, upd_conn, set_conns. cbn [conns]. rewrite nth_error_upd_same with (b := c_set_permits p cn) by assumption.
      reflexivity. }
  destruct M as [b2 [Hb2 [Ec2 [Hl2 Hs2]]]].
  assert (Hp2 : s_state b2 = SPending \/ s_state b2 = SAbandoned) by (destruct Hs2 as [? | [? _]]; auto).
  destruct (reach_inv caps base meth (tr ++ SubscribeCall c req :: mid)) as [I2 _]. fold s2 in I2.
  destruct (conn_of_sub s2 h b2 I2 Hb2) as [cn2 Hcn2].
  destruct (accept1_step s2 h b2 cn2 Hb2 Hcn2 (pending_cases_holds _ Hp2)) as [Iff _].
  assert (Hfail : In (OAccept h false) (snd (step s2 (Accept1 h)))).
  { apply Iff. rewrite Ec2. destruct Hs2 as [? | [_ ?]]; auto. }
  split; [exact Hl2|]. split; [exact Hfail|].
  destruct (failed_accept_frees_slot caps base meth (tr ++ SubscribeCall c req :: mid) h b2 cn2 Hb2 Hp2 Hcn2 Hfail) as [F _].
  fold s2 in F. rewrite Ec2 in F. lia.
Qed.
