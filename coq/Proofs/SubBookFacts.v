(* C04 / C06: invariants of the subscription LTS (Model/SubBook.v), proved for every trace by induction over
   `fold_left`, and the lemmas the property theorems in Props/C04.v, Props/C06.v are closed with. *)
From Coq Require Import List NArith ZArith Bool Arith Lia.
From JV Require Import Model.SubBook.
Import ListNotations.
Arguments N.add : simpl never.
Arguments N.eqb : simpl never.

(* ------------------------------------------------------------------ list helpers *)
Lemma nth_error_upd : forall A (f : A -> A) l n m,
  nth_error (upd n f l) m = if Nat.eqb m n then option_map f (nth_error l n) else nth_error l m.
Proof.
  induction l as [|a l IH]; intros n m.
  - cbn. destruct m, n; cbn; try reflexivity; destruct (Nat.eqb m n); reflexivity.
  - destruct n, m; cbn; try reflexivity. apply IH.
Qed.

Lemma nth_error_upd_same : forall A (f : A -> A) l n b, nth_error l n = Some b -> nth_error (upd n f l) n = Some (f b).
Proof. intros. rewrite nth_error_upd, Nat.eqb_refl, H. reflexivity. Qed.

Lemma nth_error_upd_other : forall A (f : A -> A) l n m, m <> n -> nth_error (upd n f l) m = nth_error l m.
Proof. intros. rewrite nth_error_upd. destruct (Nat.eqb_spec m n); [contradiction | reflexivity]. Qed.

Lemma length_upd : forall A (f : A -> A) l n, length (upd n f l) = length l.
Proof. induction l; intros [|n]; cbn; auto. Qed.

Lemma upd_none : forall A (f : A -> A) l n, nth_error l n = None -> upd n f l = l.
Proof. induction l; intros [|n] H; cbn in *; try reflexivity; try discriminate. f_equal. auto. Qed.

Lemma nth_error_snoc : forall A (l : list A) x n,
  nth_error (l ++ [x]) n = if Nat.ltb n (length l) then nth_error l n else if Nat.eqb n (length l) then Some x else None.
Proof.
  intros. destruct (Nat.ltb_spec n (length l)).
  - apply nth_error_app1; assumption.
  - rewrite nth_error_app2 by assumption. destruct (Nat.eqb_spec n (length l)).
    + subst. rewrite Nat.sub_diag. reflexivity.
    + destruct (n - length l) eqn:E; [lia|]. cbn. destruct n1; reflexivity.
Qed.

Lemma nth_error_map' : forall A B (g : A -> B) l n, nth_error (map g l) n = option_map g (nth_error l n).
Proof. induction l; intros [|n]; cbn; auto. Qed.

Lemma memN_In : forall k l, memN k l = true <-> In k l.
Proof.
  intros. unfold memN. rewrite existsb_exists. split.
  - intros [x [Hx E]]. apply N.eqb_eq in E. subst. assumption.
  - intro. exists k. split; [assumption | apply N.eqb_refl].
Qed.

Lemma removeN_In : forall k l x, In x (removeN k l) <-> In x l /\ x <> k.
Proof.
  intros. unfold removeN. rewrite filter_In. split; intros [H1 H2]; split; auto.
  - intro. subst. rewrite N.eqb_refl in H2. discriminate.
  - apply negb_true_iff. apply N.eqb_neq. assumption.
Qed.

Lemma key_eqb_eq : forall a b, key_eqb a b = true <-> a = b.
Proof.
  intros [a1 a2] [b1 b2]. unfold key_eqb. cbn. rewrite andb_true_iff, Nat.eqb_eq, N.eqb_eq. split.
  - intros [-> ->]. reflexivity.
  - intro H. inversion H. auto.
Qed.

Lemma mem_key_In : forall k t, mem_key k t = true <-> In k t.
Proof.
  intros. unfold mem_key. rewrite existsb_exists. split.
  - intros [x [Hx E]]. apply key_eqb_eq in E. subst. assumption.
  - intro. exists k. split; [assumption | apply key_eqb_eq; reflexivity].
Qed.

Lemma remove_key_In : forall k t x, In x (remove_key k t) <-> In x t /\ x <> k.
Proof.
  intros. unfold remove_key. rewrite filter_In. split; intros [H1 H2]; split; auto.
  - intro. subst. rewrite (proj2 (key_eqb_eq k k) eq_refl) in H2. discriminate.
  - apply negb_true_iff. destruct (key_eqb x k) eqn:E; [|reflexivity]. apply key_eqb_eq in E. contradiction.
Qed.

Lemma filter_map_app : forall A B (f : A -> option B) l1 l2, filter_map f (l1 ++ l2) = filter_map f l1 ++ filter_map f l2.
Proof. induction l1; intros; cbn; [reflexivity|]. destruct (f a); cbn; rewrite IHl1; reflexivity. Qed.

Lemma filter_length_upd : forall A (p : A -> bool) (f : A -> A) l h b, nth_error l h = Some b ->
  length (filter p (upd h f l)) + (if p b then 1 else 0) = length (filter p l) + (if p (f b) then 1 else 0).
Proof.
  induction l as [|a l IH]; intros [|h] b H; cbn in *; try discriminate.
  - inversion H; subst. destruct (p b), (p (f b)); cbn; lia.
  - specialize (IH h b H). destruct (p a); cbn; lia.
Qed.

Lemma inflight_of_In : forall k l x, inflight_of k l = Some x -> In (k, x) l.
Proof.
  intros k l x. unfold inflight_of. destruct (find _ l) as [[k' x']|] eqn:E; [|discriminate].
  intro H. inversion H; subst. apply find_some in E. destruct E as [E1 E2]. cbn in E2. apply N.eqb_eq in E2. subst. assumption.
Qed.

Lemma remove_inflight_In : forall k l p, In p (remove_inflight k l) -> In p l /\ fst p <> k.
Proof.
  intros k l p. unfold remove_inflight. rewrite filter_In. intros [H1 H2]. split; [assumption|].
  intro. subst. rewrite N.eqb_refl in H2. discriminate.
Qed.

(* ------------------------------------------------------------------ invariants *)
(* a subscription occupies a slot of its connection while its pending sink or at least one clone is alive *)
Definition live (b : sub) : bool :=
  match s_state b with
  | SPending | SAccepting => true
  | SActive => match s_sinks b with [] => false | _ => true end
  | _ => false
  end.

Definition sub_ok (base meth : N) (nconns h : nat) (b : sub) : Prop :=
  s_id b = (base + N.of_nat h)%N /\ s_meth b = meth /\ s_conn b < nconns /\
  s_has_permit b = live b /\
  (s_state b <> SActive -> s_sinks b = [] /\ s_inflight b = [] /\ s_ret b = None /\ s_unsubscribed b = false) /\
  (forall k x, In (k, x) (s_inflight b) -> In k (s_sinks b)) /\
  (s_state b = SActive -> s_sinks b = [] -> s_unsubscribed b = true) /\
  (forall v, s_ret b = Some v -> s_returned b = true /\ v <> CNone) /\
  (s_state b = SRejected \/ s_state b = SDone -> s_returned b = true).

(* the key under which an active, not yet unsubscribed subscription sits in the table *)
Definition akey (b : sub) : option (nat * N) :=
  match s_state b with SActive => if s_unsubscribed b then None else Some (key_of b) | _ => None end.

Definition holds_on (c : nat) (b : sub) : bool := Nat.eqb (s_conn b) c && s_has_permit b.
Definition count_on (s : st) (c : nat) : nat := length (filter (holds_on c) (subs s)).

Definition accepted (b : sub) : Prop := s_state b = SAccepting \/ s_state b = SActive.

(* every notification is preceded, on the same connection, by a response that accepted its subscription id *)
Definition notif_after_accept (l : list frame) : Prop :=
  forall pre f post, l = pre ++ f :: post -> is_notif f = true -> exists req, In (FSubOk req (frame_sid f)) pre.

Definition closing_of (sid : N) (f : frame) : bool := is_notif f && is_closing f && N.eqb (frame_sid f) sid.
Definition count_closing (sid : N) (l : list frame) : nat := length (filter (closing_of sid) l).
Definition ret_pending (b : sub) : nat := match s_ret b with Some _ => 1 | None => 0 end.
