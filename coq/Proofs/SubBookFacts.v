(* C04 / C06: invariants of the subscription LTS (Model/SubBook.v), proved for every trace by induction over
   `fold_left`, and the lemmas the property theorems in Props/C04.v, Props/C06.v are closed with. *)
From Coq Require Import List NArith ZArith Bool Arith Lia.
From JV Require Import Model.SubBook.
Import ListNotations.
Arguments N.add : simpl never.
Arguments N.eqb : simpl never.

(* ------------------------------------------------------------------ list helpers *)
Lemma nth_error_upd : forall A (f : A -> A) l n m,
  nth_error (upd n f l) m = if Nat.eqb m n then option_map f (nth_error l n) else nth_error l m.
Proof.
  induction l as [|a l IH]; intros n m.
  - cbn. destruct m, n; cbn; try reflexivity; destruct (Nat.eqb m n); reflexivity.
  - destruct n, m; cbn; try reflexivity. apply IH.
Qed.

Lemma nth_error_upd_same : forall A (f : A -> A) l n b, nth_error l n = Some b -> nth_error (upd n f l) n = Some (f b).
Proof. intros. rewrite nth_error_upd, Nat.eqb_refl, H. reflexivity. Qed.

Lemma nth_error_upd_other : forall A (f : A -> A) l n m, m <> n -> nth_error (upd n f l) m = nth_error l m.
Proof. intros. rewrite nth_error_upd. destruct (Nat.eqb_spec m n); [contradiction | reflexivity]. Qed.

Lemma length_upd : forall A (f : A -> A) l n, length (upd n f l) = length l.
Proof. induction l; intros [|n]; cbn; auto. Qed.

Lemma upd_none : forall A (f : A -> A) l n, nth_error l n = None -> upd n f l = l.
Proof. induction l; intros [|n] H; cbn in *; try reflexivity; try discriminate. f_equal. auto. Qed.

Lemma nth_error_snoc : forall A (l : list A) x n,
  nth_error (l ++ [x]) n = if Nat.ltb n (length l) then nth_error l n else if Nat.eqb n (length l) then Some x else None.
Proof.
  intros. destruct (Nat.ltb_spec n (length l)).
  - apply nth_error_app1; assumption.
  - rewrite nth_error_app2 by assumption. destruct (Nat.eqb_spec n (length l)).
    + subst. rewrite Nat.sub_diag. reflexivity.
    + destruct (n - length l) eqn:E; [lia|]. cbn. destruct n1; reflexivity.
Qed.

Lemma nth_error_map' : forall A B (g : A -> B) l n, nth_error (map g l) n = option_map g (nth_error l n).
Proof. induction l; intros [|n]; cbn; auto. Qed.

Lemma memN_In : forall k l, memN k l = true <-> In k l.
Proof.
  intros. unfold memN. rewrite existsb_exists. split.
  - intros [x [Hx E]]. apply N.eqb_eq in E. subst. assumption.
  - intro. exists k. split; [assumption | apply N.eqb_refl].
Qed.

Lemma removeN_In : forall k l x, In x (removeN k l) <-> In x l /\ x <> k.
Proof.
  intros. unfold removeN. rewrite filter_In. split; intros [H1 H2]; split; auto.
  - intro. subst. rewrite N.eqb_refl in H2. discriminate.
  - apply negb_true_iff. apply N.eqb_neq. assumption.
Qed.

Lemma key_eqb_eq : forall a b, key_eqb a b = true <-> a = b.
Proof.
  intros [a1 a2] [b1 b2]. unfold key_eqb. cbn. rewrite andb_true_iff, Nat.eqb_eq, N.eqb_eq. split.
  - intros [-> ->]. reflexivity.
  - intro H. inversion H. auto.
Qed.

Lemma mem_key_In : forall k t, mem_key k t = true <-> In k t.
Proof.
  intros. unfold mem_key. rewrite existsb_exists. split.
  - intros [x [Hx E]]. apply key_eqb_eq in E. subst. assumption.
  - intro. exists k. split; [assumption | apply key_eqb_eq; reflexivity].
Qed.

Lemma remove_key_In : forall k t x, In x (remove_key k t) <-> In x t /\ x <> k.
Proof.
  intros. unfold remove_key. rewrite filter_In. split; intros [H1 H2]; split; auto.
  - intro. subst. rewrite (proj2 (key_eqb_eq k k) eq_refl) in H2. discriminate.
  - apply negb_true_iff. destruct (key_eqb x k) eqn:E; [|reflexivity]. apply key_eqb_eq in E. contradiction.
Qed.

Lemma filter_map_app : forall A B (f : A -> option B) l1 l2, filter_map f (l1 ++ l2) = filter_map f l1 ++ filter_map f l2.
Proof. induction l1; intros; cbn; [reflexivity|]. destruct (f a); cbn; rewrite IHl1; reflexivity. Qed.

Lemma filter_length_upd : forall A (p : A -> bool) (f : A -> A) l h b, nth_error l h = Some b ->
  length (filter p (upd h f l)) + (if p b then 1 else 0) = length (filter p l) + (if p (f b) then 1 else 0).
Proof.
  induction l as [|a l IH]; intros [|h] b H; cbn in *; try discriminate.
  - inversion H; subst. destruct (p b), (p (f b)); cbn; lia.
  - specialize (IH h b H). destruct (p a); cbn; lia.
Qed.

Lemma inflight_of_In : forall k l x, inflight_of k l = Some x -> In (k, x) l.
Proof.
  intros k l x. unfold inflight_of. destruct (find _ l) as [[k' x']|] eqn:E; [|discriminate].
  intro H. inversion H; subst. apply find_some in E. destruct E as [E1 E2]. cbn in E2. apply N.eqb_eq in E2. subst. assumption.
Qed.

Lemma remove_inflight_In : forall k l p, In p (remove_inflight k l) -> In p l /\ fst p <> k.
Proof.
  intros k l p. unfold remove_inflight. rewrite filter_In. intros [H1 H2]. split; [assumption|].
  intro. subst. rewrite N.eqb_refl in H2. discriminate.
Qed.

(* ------------------------------------------------------------------ invariants *)
(* a subscription occupies a slot of its connection while its pending sink or at least one clone is alive *)
Definition live (b : sub) : bool :=
  match s_state b with
  | SPending | SAccepting => true
  | SActive => match s_sinks b with [] => false | _ => true end
  | _ => false
  end.

Definition sub_ok (base meth : N) (nconns h : nat) (b : sub) : Prop :=
  s_id b = (base + N.of_nat h)%N /\ s_meth b = meth /\ s_conn b < nconns /\
  s_has_permit b = live b /\
  (s_state b <> SActive -> s_sinks b = [] /\ s_inflight b = [] /\ s_ret b = None /\ s_unsubscribed b = false) /\
  (forall k x, In (k, x) (s_inflight b) -> In k (s_sinks b)) /\
  (s_state b = SActive -> s_sinks b = [] -> s_unsubscribed b = true) /\
  (forall v, s_ret b = Some v -> s_returned b = true /\ v <> CNone) /\
  (s_state b = SRejected \/ s_state b = SDone -> s_returned b = true).

(* the key under which an active, not yet unsubscribed subscription sits in the table *)
Definition akey (b : sub) : option (nat * N) :=
  match s_state b with SActive => if s_unsubscribed b then None else Some (key_of b) | _ => None end.

Definition holds_on (c : nat) (b : sub) : bool := Nat.eqb (s_conn b) c && s_has_permit b.
Definition count_on (s : st) (c : nat) : nat := length (filter (holds_on c) (subs s)).

Definition accepted (b : sub) : Prop := s_state b = SAccepting \/ s_state b = SActive.

(* every notification is preceded, on the same connection, by a response that accepted its subscription id *)
Definition notif_after_accept (l : list frame) : Prop :=
  forall pre f post, l = pre ++ f :: post -> is_notif f = true -> exists req, In (FSubOk req (frame_sid f)) pre.

Definition closing_of (sid : N) (f : frame) : bool := is_notif f && is_closing f && N.eqb (frame_sid f) sid.
Definition count_closing (sid : N) (l : list frame) : nat := length (filter (closing_of sid) l).
Definition ret_pending (b : sub) : nat := match s_ret b with Some _ => 1 | None => 0 end.

Definition b2n (b : bool) : nat := if b then 1 else 0.

Record Inv (s : st) : Prop := mkInv {
  inv_sub : forall h b, nth_error (subs s) h = Some b -> sub_ok (id_base s) (notif_meth s) (length (conns s)) h b;
  inv_table : forall k, In k (table s) <-> exists h b, nth_error (subs s) h = Some b /\ akey b = Some k;
  inv_count : forall c cn, nth_error (conns s) c = Some cn -> c_permits cn + count_on s c = c_cap cn;
  inv_frames : forall c cn f, nth_error (conns s) c = Some cn -> In f (sent cn) -> is_notif f = true ->
      exists h b, nth_error (subs s) h = Some b /\ s_conn b = c /\ s_id b = frame_sid f /\ s_meth b = frame_meth f /\
                  s_state b = SActive;
  inv_accepted : forall h b, nth_error (subs s) h = Some b -> accepted b ->
      exists cn, nth_error (conns s) (s_conn b) = Some cn /\ In (FSubOk (s_req b) (s_id b)) (sent cn);
  inv_order : forall c cn, nth_error (conns s) c = Some cn -> notif_after_accept (sent cn);
  inv_closing : forall h b cn, nth_error (subs s) h = Some b -> nth_error (conns s) (s_conn b) = Some cn ->
      count_closing (s_id b) (sent cn) + ret_pending b <= 1 /\
      (1 <= count_closing (s_id b) (sent cn) -> s_returned b = true) }.

(* what the handler produced for handle h: the items of its sends that returned Ok, in order *)
Definition log_item (h : nat) (ob : obs) : option N :=
  match ob with OSendResult h' _ x true => if Nat.eqb h' h then Some x else None | _ => None end.
Definition log_of (h : nat) (o : list obs) : list N := filter_map (log_item h) o.

Record InvO (s : st) (o : list obs) : Prop := mkInvO {
  io_fifo : forall h b cn, nth_error (subs s) h = Some b -> nth_error (conns s) (s_conn b) = Some cn ->
      filter_map (plain_item (s_id b)) (sent cn) = log_of h o;
  io_bound : forall h k x ok, In (OSendResult h k x ok) o -> h < length (subs s);
  io_unsub : forall h b, nth_error (subs s) h = Some b -> s_state b = SActive -> s_unsubscribed b = true ->
      s_sinks b <> [] -> exists req, In (OUnsubAnswer (s_conn b) req (s_id b) true) o }.

(* monotone facts of one step, used for "once closed, stays closed" *)
Definition same_static (b b' : sub) : Prop :=
  s_conn b' = s_conn b /\ s_id b' = s_id b /\ s_req b' = s_req b /\ s_meth b' = s_meth b.
Definition Mono (s s' : st) : Prop :=
  (forall c, conn_open s' c = true -> conn_open s c = true) /\
  (forall h b, nth_error (subs s) h = Some b ->
     exists b', nth_error (subs s') h = Some b' /\ same_static b b' /\
                (s_state b = SActive -> s_state b' = SActive /\ (s_unsubscribed b = true -> s_unsubscribed b' = true))).

Lemma Mono_refl : forall s, Mono s s.
Proof. intro s. split; [auto|]. intros h b H. exists b. repeat split; auto. Qed.

Lemma Mono_trans : forall s1 s2 s3, Mono s1 s2 -> Mono s2 s3 -> Mono s1 s3.
Proof.
  intros s1 s2 s3 [A1 B1] [A2 B2]. split; [auto|].
  intros h b H. destruct (B1 _ _ H) as [b2 [H2 [[S1 [S2 [S3 S4]]] M2]]]. destruct (B2 _ _ H2) as [b3 [H3 [[T1 [T2 [T3 T4]]] M3]]].
  exists b3. split; [assumption|]. split; [unfold same_static; repeat split; congruence|].
  intro Ha. destruct (M2 Ha) as [Ha2 U2]. destruct (M3 Ha2) as [Ha3 U3]. split; auto.
Qed.

Lemma akey_key : forall b k, akey b = Some k -> k = key_of b /\ s_state b = SActive /\ s_unsubscribed b = false.
Proof.
  intros b k. unfold akey. destruct (s_state b); try discriminate. destruct (s_unsubscribed b); try discriminate.
  intro H. inversion H. auto.
Qed.

Lemma ids_inj : forall s h1 h2 b1 b2, Inv s -> nth_error (subs s) h1 = Some b1 -> nth_error (subs s) h2 = Some b2 ->
  s_id b1 = s_id b2 -> h1 = h2.
Proof.
  intros s h1 h2 b1 b2 I H1 H2 E.
  destruct (inv_sub s I _ _ H1) as [E1 _]. destruct (inv_sub s I _ _ H2) as [E2 _].
  rewrite E1, E2 in E. apply N.add_cancel_l in E. apply Nat2N.inj in E. assumption.
Qed.

Lemma filter_map_none : forall A B (f : A -> option B) l, (forall a, In a l -> f a = None) -> filter_map f l = [].
Proof.
  induction l as [|a l IH]; intro H; cbn; [reflexivity|]. rewrite (H a (or_introl eq_refl)). apply IH. intros. apply H. right. assumption.
Qed.

Lemma log_of_app : forall h o1 o2, log_of h (o1 ++ o2) = log_of h o1 ++ log_of h o2.
Proof. intros. apply filter_map_app. Qed.

Lemma count_closing_app : forall sid l1 l2, count_closing sid (l1 ++ l2) = count_closing sid l1 + count_closing sid l2.
Proof. intros. unfold count_closing. rewrite filter_app, app_length. reflexivity. Qed.

Lemma count_closing_zero : forall sid l, (forall f, In f l -> is_notif f = true -> frame_sid f <> sid) -> count_closing sid l = 0.
Proof.
  intros sid l H. unfold count_closing. induction l as [|f l IH]; cbn; [reflexivity|].
  assert (E : closing_of sid f = false).
  { unfold closing_of. destruct (is_notif f) eqn:En; cbn; [|reflexivity]. destruct (is_closing f); cbn; [|reflexivity].
    apply N.eqb_neq. apply H; [left; reflexivity | assumption]. }
  rewrite E. apply IH. intros. apply H; [right|]; assumption.
Qed.

Lemma plain_item_some : forall sid f x, plain_item sid f = Some x -> is_notif f = true /\ frame_sid f = sid.
Proof.
  intros sid f x. destruct f; cbn; try discriminate. destruct closing; try discriminate.
  destruct (N.eqb_spec sid0 sid); try discriminate. intros _. auto.
Qed.

Lemma plain_none : forall sid l, (forall f, In f l -> is_notif f = true -> frame_sid f <> sid) -> filter_map (plain_item sid) l = [].
Proof.
  intros sid l H. apply filter_map_none. intros f Hf. destruct (plain_item sid f) eqn:E; [|reflexivity].
  apply plain_item_some in E. destruct E as [E1 E2]. exfalso. exact (H f Hf E1 E2).
Qed.

Lemma app_snoc_split : forall A (l : list A) g pre f post, l ++ [g] = pre ++ f :: post ->
  (post = [] /\ pre = l /\ f = g) \/ (exists post', post = post' ++ [g] /\ l = pre ++ f :: post').
Proof.
  intros A l g pre f post H.
  assert (C : post = [] \/ exists post' z, post = post' ++ [z]).
  { destruct post as [|p post]; [left; reflexivity|]. right.
    destruct (exists_last (l := p :: post)) as [q [z Hq]]; [discriminate|]. exists q, z. assumption. }
  destruct C as [-> | [post' [z ->]]].
  - left. apply app_inj_tail in H. destruct H. subst. auto.
  - right. change (pre ++ f :: post' ++ [z]) with (pre ++ (f :: post') ++ [z]) in H. rewrite app_assoc in H.
    apply app_inj_tail in H. destruct H. subst. exists post'. auto.
Qed.

Lemma naa_app : forall l extra, notif_after_accept l ->
  (forall f, In f extra -> is_notif f = true -> exists req, In (FSubOk req (frame_sid f)) l) ->
  notif_after_accept (l ++ extra).
Proof.
  intros l extra. revert l. induction extra as [|g extra IH]; intros l Hl Hx.
  - rewrite app_nil_r. assumption.
  - replace (l ++ g :: extra) with ((l ++ [g]) ++ extra) by (rewrite <- app_assoc; reflexivity).
    apply IH.
    + intros pre f post E Hn. apply app_snoc_split in E. destruct E as [[-> [-> ->]] | [post' [-> ->]]].
      * apply Hx; [left; reflexivity | assumption].
      * eapply Hl; [reflexivity | assumption].
    + intros f Hf Hn. destruct (Hx f (or_intror Hf) Hn) as [req Hr]. exists req. apply in_or_app. left. assumption.
Qed.

(* ------------------------------------------------------------------ the generic handler-side step *)
Lemma upd_lookup : forall A (f : A -> A) l n x m y, nth_error l n = Some x -> nth_error (upd n f l) m = Some y ->
  (m = n /\ y = f x) \/ (m <> n /\ nth_error l m = Some y).
Proof.
  intros A f l n x m y Hx H. rewrite nth_error_upd in H. destruct (Nat.eqb_spec m n).
  - left. subst. rewrite Hx in H. cbn in H. inversion H. auto.
  - right. auto.
Qed.

(* local conditions under which replacing subscription h (b -> b') and its connection (cn -> cn'), with table t',
   observations o1 and appended frames `extra`, keeps every invariant *)
Record local_ok (base meth : N) (n h : nat) (b b' : sub) (cn cn' : conn) (t t' : list (nat * N))
                (o1 : list obs) (extra : list frame) : Prop := mkLocal {
  lo_static : same_static b b';
  lo_subok : sub_ok base meth n h b';
  lo_active : s_state b = SActive -> s_state b' = SActive /\ (s_unsubscribed b = true -> s_unsubscribed b' = true);
  lo_accepted : accepted b -> accepted b';
  lo_conn : c_open cn' = c_open cn /\ c_cap cn' = c_cap cn /\ sent cn' = sent cn ++ extra;
  lo_permits : c_permits cn' + b2n (s_has_permit b') = c_permits cn + b2n (s_has_permit b);
  lo_table : (forall k, In k t' <-> (k <> key_of b /\ In k t) \/ akey b' = Some k) \/ (t' = t /\ akey b' = akey b);
  lo_notif : forall f, In f extra -> is_notif f = true ->
      frame_sid f = s_id b /\ frame_meth f = s_meth b /\ s_state b' = SActive /\ In (FSubOk (s_req b) (s_id b)) (sent cn);
  lo_newacc : accepted b' -> accepted b \/ In (FSubOk (s_req b) (s_id b)) (sent cn ++ extra);
  lo_closing : (count_closing (s_id b) extra + ret_pending b' <= ret_pending b \/
                (s_returned b = false /\ count_closing (s_id b) extra = 0)) /\
               (s_returned b = true -> s_returned b' = true) /\
               (1 <= count_closing (s_id b) extra -> s_returned b' = true);
  lo_fifo : forall h2, log_of h2 o1 = if Nat.eqb h2 h then filter_map (plain_item (s_id b)) extra else [];
  lo_obs : forall h' k x ok, In (OSendResult h' k x ok) o1 -> h' = h;
  lo_unsub : s_state b' = SActive -> s_unsubscribed b' = true -> s_sinks b' <> [] ->
      s_state b = SActive /\ s_unsubscribed b = true /\ s_sinks b <> [] }.

Lemma ret_pending_le : forall b, ret_pending b <= 1.
Proof. intro b. unfold ret_pending. destruct (s_ret b); lia. Qed.

Lemma apply_inv : forall s o h b cn fs fc t' o1 extra,
  Inv s -> InvO s o -> nth_error (subs s) h = Some b -> nth_error (conns s) (s_conn b) = Some cn ->
  local_ok (id_base s) (notif_meth s) (length (conns s)) h b (fs b) cn (fc cn) (table s) t' o1 extra ->
  Inv (apply s h b fs fc t') /\ InvO (apply s h b fs fc t') (o ++ o1) /\ Mono s (apply s h b fs fc t').
Proof.
  intros s o h b cn fs fc t' o1 extra I IO Hb Hcn L.
  destruct (lo_static _ _ _ _ _ _ _ _ _ _ _ _ L) as [St1 [St2 [St3 St4]]].
  destruct (lo_conn _ _ _ _ _ _ _ _ _ _ _ _ L) as [Co1 [Co2 Co3]].
  (* old subscription -> new subscription *)
  assert (T : forall h2 b2, nth_error (subs s) h2 = Some b2 ->
            exists b2', nth_error (upd h fs (subs s)) h2 = Some b2' /\ same_static b2 b2' /\
              (s_state b2 = SActive -> s_state b2' = SActive /\ (s_unsubscribed b2 = true -> s_unsubscribed b2' = true)) /\
              (accepted b2 -> accepted b2')).
  { intros h2 b2 H2. destruct (Nat.eq_dec h2 h) as [->|Ne].
    - rewrite Hb in H2. inversion H2; subst b2. exists (fs b). split; [apply nth_error_upd_same; assumption|].
      split; [exact (lo_static _ _ _ _ _ _ _ _ _ _ _ _ L)|]. split; [exact (lo_active _ _ _ _ _ _ _ _ _ _ _ _ L) | exact (lo_accepted _ _ _ _ _ _ _ _ _ _ _ _ L)].
    - exists b2. split; [rewrite nth_error_upd_other; assumption|]. unfold same_static. auto. }
  (* every frame that was sent stays sent *)
  assert (S : forall c2 cn2, nth_error (conns s) c2 = Some cn2 ->
            exists cn2', nth_error (upd (s_conn b) fc (conns s)) c2 = Some cn2' /\ (forall f, In f (sent cn2) -> In f (sent cn2'))).
  { intros c2 cn2 H2. destruct (Nat.eq_dec c2 (s_conn b)) as [->|Ne].
    - rewrite Hcn in H2. inversion H2; subst cn2. exists (fc cn). split; [apply nth_error_upd_same; assumption|].
      intros f Hf. rewrite Co3. apply in_or_app. left. assumption.
    - exists cn2. split; [rewrite nth_error_upd_other; assumption | auto]. }
  (* notifications among the appended frames carry b's own id, which no other subscription has *)
  assert (X : forall h2 b2, h2 <> h -> nth_error (subs s) h2 = Some b2 ->
            forall f, In f extra -> is_notif f = true -> frame_sid f <> s_id b2).
  { intros h2 b2 Ne H2 f Hf Hn E. destruct (lo_notif _ _ _ _ _ _ _ _ _ _ _ _ L f Hf Hn) as [E1 _].
    apply Ne. eapply ids_inj; eauto. congruence. }
  split; [|split].
  - constructor; unfold apply; cbn [subs conns table id_base notif_meth].
    + (* inv_sub *)
      intros h2 b2 H2. rewrite length_upd. destruct (upd_lookup _ _ _ _ _ _ _ Hb H2) as [[-> ->] | [Ne H2']].
      * exact (lo_subok _ _ _ _ _ _ _ _ _ _ _ _ L).
      * exact (inv_sub s I _ _ H2').
    + (* inv_table *)
      intro k. destruct (lo_table _ _ _ _ _ _ _ _ _ _ _ _ L) as [LT | [LT1 LT2]].
      * rewrite LT. split.
        -- intros [[Nk Hk] | Hk].
           ++ apply (inv_table s I) in Hk. destruct Hk as [h2 [b2 [H2 K2]]].
              assert (h2 <> h). { intro. subst h2. rewrite Hb in H2. inversion H2; subst b2. apply akey_key in K2. tauto. }
              exists h2, b2. rewrite nth_error_upd_other by assumption. auto.
           ++ exists h, (fs b). split; [apply nth_error_upd_same; assumption | assumption].
        -- intros [h2 [b2 [H2 K2]]]. destruct (upd_lookup _ _ _ _ _ _ _ Hb H2) as [[-> ->] | [Ne H2']].
           ++ right. assumption.
           ++ left. split.
              ** intro Ek. apply akey_key in K2. destruct K2 as [K2 _]. rewrite K2 in Ek. unfold key_of in Ek. inversion Ek.
                 apply Ne. eapply ids_inj; eauto.
              ** apply (inv_table s I). exists h2, b2. auto.
      * rewrite LT1, (inv_table s I). split.
        -- intros [h2 [b2 [H2 K2]]]. destruct (Nat.eq_dec h2 h) as [->|Ne].
           ++ rewrite Hb in H2. inversion H2; subst b2. exists h, (fs b). split; [apply nth_error_upd_same; assumption | congruence].
           ++ exists h2, b2. rewrite nth_error_upd_other by assumption. auto.
        -- intros [h2 [b2 [H2 K2]]]. destruct (upd_lookup _ _ _ _ _ _ _ Hb H2) as [[-> ->] | [Ne H2']].
           ++ exists h, b. split; [assumption | congruence].
           ++ exists h2, b2. auto.
    + (* inv_count *)
      intros c2 cn2 H2. unfold count_on. cbn [subs].
      pose proof (filter_length_upd _ (holds_on c2) fs _ _ _ Hb) as FL.
      destruct (upd_lookup _ _ _ _ _ _ _ Hcn H2) as [[-> ->] | [Ne H2']].
      * pose proof (inv_count s I _ _ Hcn) as IC. unfold count_on in IC.
        pose proof (lo_permits _ _ _ _ _ _ _ _ _ _ _ _ L) as LP.
        unfold holds_on in FL. rewrite St1, Nat.eqb_refl in FL. cbn [andb] in FL. unfold b2n in LP.
        rewrite Co2. unfold holds_on in *. destruct (s_has_permit b), (s_has_permit (fs b)); lia.
      * pose proof (inv_count s I _ _ H2') as IC. unfold count_on in IC.
        unfold holds_on in FL. rewrite St1 in FL. destruct (Nat.eqb_spec (s_conn b) c2); [congruence|]. cbn [andb] in FL.
        unfold holds_on in *. lia.
    + (* inv_frames *)
      intros c2 cn2 f H2 Hf Hn.
      assert (Old : In f (sent cn2) -> nth_error (conns s) c2 = Some cn2 -> exists h0 b0,
                nth_error (upd h fs (subs s)) h0 = Some b0 /\ s_conn b0 = c2 /\ s_id b0 = frame_sid f /\ s_meth b0 = frame_meth f /\ s_state b0 = SActive).
      { intros Hf' H2'. destruct (inv_frames s I _ _ _ H2' Hf' Hn) as [h0 [b0 [H0 [E1 [E2 [E3 E4]]]]]].
        destruct (T _ _ H0) as [b0' [H0' [[S1 [S2 [S3 S4]]] [Ac _]]]]. exists h0, b0'. destruct (Ac E4). repeat split; congruence. }
      destruct (upd_lookup _ _ _ _ _ _ _ Hcn H2) as [[-> ->] | [Ne H2']].
      * rewrite Co3 in Hf. apply in_app_or in Hf. destruct Hf as [Hf | Hf].
        -- destruct (inv_frames s I _ _ _ Hcn Hf Hn) as [h0 [b0 [H0 [E1 [E2 [E3 E4]]]]]].
           destruct (T _ _ H0) as [b0' [H0' [[S1 [S2 [S3 S4]]] [Ac _]]]]. exists h0, b0'. destruct (Ac E4). repeat split; congruence.
        -- destruct (lo_notif _ _ _ _ _ _ _ _ _ _ _ _ L f Hf Hn) as [E1 [E2 [E3 _]]].
           exists h, (fs b). split; [apply nth_error_upd_same; assumption|]. repeat split; congruence.
      * apply Old; assumption.
    + (* inv_accepted *)
      intros h2 b2 H2 Ha. destruct (upd_lookup _ _ _ _ _ _ _ Hb H2) as [[-> ->] | [Ne H2']].
      * rewrite St1, St2, St3. exists (fc cn). split; [apply nth_error_upd_same; assumption|]. rewrite Co3.
        destruct (lo_newacc _ _ _ _ _ _ _ _ _ _ _ _ L Ha) as [Ha' | Hin]; [|assumption].
        destruct (inv_accepted s I _ _ Hb Ha') as [cn0 [Hc0 Hin]]. rewrite Hcn in Hc0. inversion Hc0; subst cn0.
        apply in_or_app. left. assumption.
      * destruct (inv_accepted s I _ _ H2' Ha) as [cn0 [Hc0 Hin]]. destruct (S _ _ Hc0) as [cn0' [Hc0' Sub]].
        exists cn0'. auto.
    + (* inv_order *)
      intros c2 cn2 H2. destruct (upd_lookup _ _ _ _ _ _ _ Hcn H2) as [[-> ->] | [Ne H2']].
      * rewrite Co3. apply naa_app; [exact (inv_order s I _ _ Hcn)|].
        intros f Hf Hn. destruct (lo_notif _ _ _ _ _ _ _ _ _ _ _ _ L f Hf Hn) as [E1 [_ [_ E4]]]. exists (s_req b). rewrite E1. assumption.
      * exact (inv_order s I _ _ H2').
    + (* inv_closing *)
      intros h2 b2 cn2 H2 Hc2. destruct (upd_lookup _ _ _ _ _ _ _ Hb H2) as [[-> ->] | [Ne H2']].
      * rewrite St1 in Hc2. rewrite nth_error_upd_same with (b := cn) in Hc2 by assumption. inversion Hc2; subst cn2.
        rewrite St2, Co3, count_closing_app.
        destruct (inv_closing s I _ _ _ Hb Hcn) as [C1 C2].
        destruct (lo_closing _ _ _ _ _ _ _ _ _ _ _ _ L) as [[D1 | [D1 D1']] [D2 D3]].
        -- split; [lia|]. intro Hge. destruct (Nat.eq_dec (count_closing (s_id b) extra) 0) as [Z|NZ].
           ++ apply D2. apply C2. lia.
           ++ apply D3. lia.
        -- assert (count_closing (s_id b) (sent cn) = 0).
           { destruct (count_closing (s_id b) (sent cn)) eqn:E; [reflexivity|]. rewrite C2 in D1 by lia. discriminate. }
           pose proof (ret_pending_le (fs b)). split; [lia|]. intro. lia.
      * destruct (upd_lookup _ _ _ _ _ _ _ Hcn Hc2) as [[Ec ->] | [Nc Hc2']].
        -- rewrite Co3, count_closing_app.
           rewrite (count_closing_zero (s_id b2) extra) by (eapply X; eauto). rewrite Nat.add_0_r.
           rewrite <- Ec in Hcn. exact (inv_closing s I _ _ _ H2' Hcn).
        -- exact (inv_closing s I _ _ _ H2' Hc2').
  - constructor; unfold apply; cbn [subs conns table id_base notif_meth].
    + (* io_fifo *)
      intros h2 b2 cn2 H2 Hc2. rewrite log_of_app, (lo_fifo _ _ _ _ _ _ _ _ _ _ _ _ L).
      destruct (upd_lookup _ _ _ _ _ _ _ Hb H2) as [[-> ->] | [Ne H2']].
      * rewrite St1 in Hc2. rewrite nth_error_upd_same with (b := cn) in Hc2 by assumption. inversion Hc2; subst cn2.
        rewrite Nat.eqb_refl, St2, Co3, filter_map_app. f_equal. exact (io_fifo s o IO _ _ _ Hb Hcn).
      * destruct (Nat.eqb_spec h2 h); [contradiction|]. rewrite app_nil_r.
        destruct (upd_lookup _ _ _ _ _ _ _ Hcn Hc2) as [[Ec ->] | [Nc Hc2']].
        -- rewrite Co3, filter_map_app. rewrite (plain_none (s_id b2) extra) by (eapply X; eauto). rewrite app_nil_r.
           rewrite <- Ec in Hcn. exact (io_fifo s o IO _ _ _ H2' Hcn).
        -- exact (io_fifo s o IO _ _ _ H2' Hc2').
    + (* io_bound *)
      intros h2 k x ok Hin. rewrite length_upd. apply in_app_or in Hin. destruct Hin as [Hin | Hin].
      * exact (io_bound s o IO _ _ _ _ Hin).
      * apply (lo_obs _ _ _ _ _ _ _ _ _ _ _ _ L) in Hin. subst. apply nth_error_Some. congruence.
    + (* io_unsub *)
      intros h2 b2 H2 Ha Hu Hs. destruct (upd_lookup _ _ _ _ _ _ _ Hb H2) as [[-> ->] | [Ne H2']].
      * destruct (lo_unsub _ _ _ _ _ _ _ _ _ _ _ _ L Ha Hu Hs) as [Ha' [Hu' Hs']].
        destruct (io_unsub s o IO _ _ Hb Ha' Hu' Hs') as [req Hr]. exists req. rewrite St1, St2. apply in_or_app. left. assumption.
      * destruct (io_unsub s o IO _ _ H2' Ha Hu Hs) as [req Hr]. exists req. apply in_or_app. left. assumption.
  - split.
    + intros c2. unfold conn_open, apply. cbn [conns]. rewrite nth_error_upd. destruct (Nat.eqb_spec c2 (s_conn b)) as [->|].
      * rewrite Hcn. cbn. rewrite Co1. auto.
      * auto.
    + intros h2 b2 H2. destruct (T _ _ H2) as [b2' [H2' [Ss [Ac _]]]]. exists b2'. auto.
Qed.
