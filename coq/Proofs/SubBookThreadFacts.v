(* C06: REAL threads on the shared subscriber table -- the lemmas behind C06_table_ops_unconditional and friends.
   Kept apart from Proofs/SubBookFacts.v because they depend on HOW the source takes the table's mutex
   (Gen/TableOpsGen.table_ops_gen): with a try_lock at any site this file stops building, the single-thread facts do not. *)
From Coq Require Import List NArith ZArith Bool Arith Lia.
From JV Require Import Model.AcceptSteps Gen.AcceptOrderGen Model.TableOps Gen.TableOpsGen Model.SubBook Proofs.SubBookFacts.
Import ListNotations.
Arguments N.add : simpl never.
Arguments N.eqb : simpl never.

(* ------------------------------------------------------------------ C06: thread-level contention on the subscriber table
   Events carry a `contended` bit (Model/SubBook.v: step_x / run_x / step_c / run_c); how each site takes the table's
   mutex is the generated record Gen/TableOpsGen.table_ops_gen.  When every site takes it with a blocking `lock()` the bit
   changes nothing: a contended event waits and then does exactly what the uncontended one does. *)
Lemma when_performed_blocking : forall A c a (x y : A), blocking a = true -> when_performed c a x y = x.
Proof. intros A c a x y H. unfold when_performed. rewrite H. destruct c; reflexivity. Qed.

Lemma all_blocking_sites : forall ops, all_blocking ops = true ->
  blocking (at_accept ops) = true /\ blocking (at_unsubscribe ops) = true /\ blocking (at_guard_drop ops) = true.
Proof.
  intros ops H. unfold all_blocking, sites_of in H. cbn [forallb] in H.
  apply andb_true_iff in H. destruct H as [H1 H]. apply andb_true_iff in H. destruct H as [H2 H].
  apply andb_true_iff in H. destruct H as [H3 _]. auto.
Qed.

Lemma step_core_g_blocking : forall ops old c s a, all_blocking ops = true ->
  step_core_g ops old c s a = step_core_g ops old false s a.
Proof.
  intros ops old c s a H. destruct (all_blocking_sites ops H) as [H1 [H2 H3]].
  destruct a; try reflexivity; cbn [step_core_g].
  - (* Accept1 *)
    destruct (nth_error (subs s) h) as [b|]; [|reflexivity].
    destruct (holds_pending (s_state b)); [|reflexivity].
    rewrite !(when_performed_blocking _ c _ _ _ H1), !(when_performed_blocking _ false _ _ _ H1). reflexivity.
  - (* Accept2 *)
    destruct (nth_error (subs s) h) as [b|]; [|reflexivity].
    destruct (s_state b); try reflexivity.
    rewrite !(when_performed_blocking _ c _ _ _ H1), !(when_performed_blocking _ false _ _ _ H1). reflexivity.
  - (* DropSink *)
    destruct (nth_error (subs s) h) as [b|]; [|reflexivity].
    rewrite !(when_performed_blocking _ c _ _ _ H3), !(when_performed_blocking _ false _ _ _ H3). reflexivity.
  - (* UnsubscribeCall *)
    destruct (nth_error (conns s) c0) as [cn|]; [|reflexivity].
    rewrite !(when_performed_blocking _ c _ _ _ H2), !(when_performed_blocking _ false _ _ _ H2). reflexivity.
Qed.

Lemma step_x_blocking : forall ops c s a, all_blocking ops = true -> step_x ops c s a = step_x ops false s a.
Proof. intros ops c s a H. unfold step_x. rewrite (step_core_g_blocking ops false c s a H). reflexivity. Qed.

Lemma step_x_gen_uncontended : forall s a, step_x table_ops_gen false s a = step s a.
Proof. reflexivity. Qed.

(* the generated record, COMPUTED: this is where the proofs depend on what the source does now *)
Lemma table_ops_now : table_ops_gen = table_ops_locked.
Proof. reflexivity. Qed.

Lemma table_ops_gen_blocking : all_blocking table_ops_gen = true.
Proof. reflexivity. Qed.

Lemma step_c_erase : forall s e, step_c s e = step s (fst e).
Proof.
  intros s [a c]. unfold step_c. cbn [fst snd].
  rewrite (step_x_blocking table_ops_gen c s a table_ops_gen_blocking). apply step_x_gen_uncontended.
Qed.

Lemma run_c_erase_from : forall tr so,
  fold_left (fun so e => let '(s', o') := step_x table_ops_gen (snd e) (fst so) (fst e) in (s', snd so ++ o')) tr so =
  fold_left (run_step step) (map fst tr) so.
Proof.
  induction tr as [|e tr IH]; intro so; cbn [fold_left map]; [reflexivity|].
  rewrite <- IH. f_equal. unfold run_step. change (step_x table_ops_gen (snd e) (fst so) (fst e)) with (step_c (fst so) e).
  rewrite step_c_erase. reflexivity.
Qed.

Definition reach_c (caps : list nat) (base meth : N) (tr : list cact) : st * list obs := run_c (init caps base meth) tr.

(* every thread-level trace reaches what its single-thread shadow reaches: all theorems about `reach` carry over *)
Lemma contended_erasure : forall caps base meth tr, reach_c caps base meth tr = reach caps base meth (map fst tr).
Proof. intros. unfold reach_c, run_c, run_x, reach, run, run_gen. apply run_c_erase_from. Qed.

Lemma unsubscribe_truth_table_contended : forall caps base meth (tr : list cact) contended c cn req t,
  let s := fst (reach_c caps base meth tr) in
  nth_error (conns s) c = Some cn -> c_open cn = true -> stopped s = false ->
  exists r, snd (step_c s (UnsubscribeCall c req t, contended)) = [OUnsubAnswer c req t r] /\
            (r = true <-> active_here s c t) /\
            (exists cn', nth_error (conns (fst (step_c s (UnsubscribeCall c req t, contended)))) c = Some cn' /\ sent cn' = sent cn ++ [FUnsub req r]).
Proof.
  intros caps base meth tr contended c cn req t. cbv zeta. rewrite contended_erasure, step_c_erase. cbn [fst].
  apply unsubscribe_truth_table.
Qed.

Lemma table_ops_unconditional :
  (table_ops_gen = table_ops_locked /\ Forall (fun a => exists op, a = TLockThen op) (sites_of table_ops_gen)) /\
  (forall caps base meth (tr : list cact), reach_c caps base meth tr = reach caps base meth (map fst tr)) /\
  (forall caps base meth (tr : list cact) contended c cn req t,
     let s := fst (reach_c caps base meth tr) in
     nth_error (conns s) c = Some cn -> c_open cn = true -> stopped s = false ->
     exists r, snd (step_c s (UnsubscribeCall c req t, contended)) = [OUnsubAnswer c req t r] /\
               (r = true <-> active_here s c t) /\
               (exists cn', nth_error (conns (fst (step_c s (UnsubscribeCall c req t, contended)))) c = Some cn' /\ sent cn' = sent cn ++ [FUnsub req r])).
Proof.
  split; [split; [exact table_ops_now | repeat constructor; eexists; reflexivity] |].
  split; [exact contended_erasure | exact unsubscribe_truth_table_contended].
Qed.

(* slots under contention: the accounting of C06_cap, over thread-level traces *)
Lemma cap_respected_contended : forall caps base meth (tr : list cact) c cn,
  let s := fst (reach_c caps base meth tr) in
  nth_error (conns s) c = Some cn -> count_live s c + c_permits cn = c_cap cn /\ count_live s c <= c_cap cn.
Proof. intros caps base meth tr c cn. cbv zeta. rewrite contended_erasure. apply cap_respected. Qed.

(* What the bit is for.  With a guard that only TRIES the lock (table_ops_trylock_guard), one contended drop of the last
   sink leaves the entry behind: the unsubscribe of that id on the still-open connection answers true although no
   subscription is active there, while the slot itself is back. *)
Definition trylock_witness : list cact :=
  [(SubscribeCall 0 1, false); (Accept1 0, false); (Accept2 0, false); (DropSink 0 0, true)].

Lemma trylock_guard_refuted :
  let s := fst (run_x table_ops_trylock_guard (init [1] 1000 0) trylock_witness) in
  (exists cn, nth_error (conns s) 0 = Some cn /\ c_open cn = true /\ c_permits cn = c_cap cn) /\ stopped s = false /\
  snd (step_x table_ops_trylock_guard false s (UnsubscribeCall 0 2 1000)) = [OUnsubAnswer 0 2 1000 true] /\
  ~ active_here s 0 1000 /\ count_live s 0 = 0 /\ table s = [(0, 1000%N)] /\
  fst (run_x table_ops_locked (init [1] 1000 0) trylock_witness) = fst (run (init [1] 1000 0) (map fst trylock_witness)) /\
  snd (step_x table_ops_locked false (fst (run_x table_ops_locked (init [1] 1000 0) trylock_witness)) (UnsubscribeCall 0 2 1000)) = [OUnsubAnswer 0 2 1000 false].
Proof.
  cbv zeta. split; [eexists; vm_compute; repeat split|]. split; [reflexivity|]. split; [vm_compute; reflexivity|].
  split.
  - intros [h [b [Hb [_ [_ [_ [_ Hs]]]]]]]. destruct h as [|h].
    + vm_compute in Hb. inversion Hb. subst b. apply Hs. reflexivity.
    + vm_compute in Hb. destruct h; discriminate.
  - vm_compute. repeat split.
Qed.
