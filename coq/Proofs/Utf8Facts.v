(* UTF-8 validity is closed under concatenation; ASCII prefixes are transparent. *)
From JV Require Import Base.Bytes Base.Utf8 Proofs.BytesFacts.
Local Open Scope N_scope.
Arguments N.add : simpl never.
Arguments N.sub : simpl never.
Arguments N.mul : simpl never.
Arguments N.div : simpl never.
Arguments N.modulo : simpl never.
Arguments N.ltb : simpl never.
Arguments N.leb : simpl never.
Arguments N.eqb : simpl never.

Definition ascii (c : byte) : bool := bN c <? 128.

Lemma utf8_valid_cons a s1 :
  utf8_valid (a :: s1) =
    let n := bN a in
    if n <? 128 then utf8_valid s1
    else if (194 <=? n) && (n <=? 223) then
      match s1 with b :: s2 => is_cont b && utf8_valid s2 | _ => false end
    else if n =? 224 then
      match s1 with b :: c :: s3 => in_range 160 191 b && is_cont c && utf8_valid s3 | _ => false end
    else if ((225 <=? n) && (n <=? 236)) || (n =? 238) || (n =? 239) then
      match s1 with b :: c :: s3 => is_cont b && is_cont c && utf8_valid s3 | _ => false end
    else if n =? 237 then
      match s1 with b :: c :: s3 => in_range 128 159 b && is_cont c && utf8_valid s3 | _ => false end
    else if n =? 240 then
      match s1 with b :: c :: d :: s4 => in_range 144 191 b && is_cont c && is_cont d && utf8_valid s4 | _ => false end
    else if (241 <=? n) && (n <=? 243) then
      match s1 with b :: c :: d :: s4 => is_cont b && is_cont c && is_cont d && utf8_valid s4 | _ => false end
    else if n =? 244 then
      match s1 with b :: c :: d :: s4 => in_range 128 143 b && is_cont c && is_cont d && utf8_valid s4 | _ => false end
    else false.
Proof. reflexivity. Qed.

Lemma utf8_valid_ascii_cons c s : ascii c = true -> utf8_valid (c :: s) = utf8_valid s.
Proof. intro H. rewrite utf8_valid_cons. cbv zeta. unfold ascii in H. rewrite H. reflexivity. Qed.

Lemma utf8_valid_ascii_app a b : forallb ascii a = true -> utf8_valid (a ++ b) = utf8_valid b.
Proof.
  induction a as [|c a IH]; cbn [app forallb]; intro H; [reflexivity|].
  apply andb_true_iff in H as [H1 H2]. rewrite utf8_valid_ascii_cons by exact H1. apply IH, H2.
Qed.

Lemma utf8_valid_ascii a : forallb ascii a = true -> utf8_valid a = true.
Proof. intro H. rewrite <- (app_nil_r a). rewrite utf8_valid_ascii_app by exact H. reflexivity. Qed.

Ltac utf8_case Ha IH Hb :=
  try (match type of Ha with match ?a with _ => _ end = true => destruct a as [|? ?]; [discriminate Ha|] end);
  try (match type of Ha with match ?a with _ => _ end = true => destruct a as [|? ?]; [discriminate Ha|] end);
  try (match type of Ha with match ?a with _ => _ end = true => destruct a as [|? ?]; [discriminate Ha|] end);
  cbn [app];
  let HP := fresh "HP" in let HV := fresh "HV" in
  apply andb_true_iff in Ha as [HP HV]; rewrite HP; cbn [andb];
  apply IH; [cbn [length]; lia | exact HV | exact Hb].

Lemma utf8_valid_app a : forall b,
  utf8_valid a = true -> utf8_valid b = true -> utf8_valid (a ++ b) = true.
Proof.
  induction a as [a IH] using bytes_len_ind. intros b Ha Hb.
  destruct a as [|x a]; [exact Hb|].
  cbn [app]. rewrite utf8_valid_cons in Ha |- *. cbv zeta in Ha |- *.
  destruct (bN x <? 128). { apply IH; [cbn [length]; lia | exact Ha | exact Hb]. }
  destruct ((194 <=? bN x) && (bN x <=? 223)). { utf8_case Ha IH Hb. }
  destruct (bN x =? 224). { utf8_case Ha IH Hb. }
  destruct ((225 <=? bN x) && (bN x <=? 236) || (bN x =? 238) || (bN x =? 239)). { utf8_case Ha IH Hb. }
  destruct (bN x =? 237). { utf8_case Ha IH Hb. }
  destruct (bN x =? 240). { utf8_case Ha IH Hb. }
  destruct ((241 <=? bN x) && (bN x <=? 243)). { utf8_case Ha IH Hb. }
  destruct (bN x =? 244). { utf8_case Ha IH Hb. }
  discriminate Ha.
Qed.
