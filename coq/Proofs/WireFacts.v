(* C15: round trips of the jsonrpsee wire types (Model/Wire.v) through their serialisers and parsers,
   validity of emitted responses, and the exact acceptance condition of the response parser.
   Payloads (params / result / data) are raw JSON texts.  All statements are for all values. *)
From JV Require Import Base.Bytes Base.Dec Base.Utf8 Json.Json Json.JsonSer Json.JsonParse Json.JsonWf Model.Wire.
From JV Require Import Proofs.JsonFacts.
Local Open Scope N_scope.
Arguments N.add : simpl never.
Arguments N.sub : simpl never.
Arguments N.mul : simpl never.
Arguments N.ltb : simpl never.
Arguments N.leb : simpl never.
Arguments N.eqb : simpl never.

(* ---------- well-formedness of the values that are serialised ---------- *)

(* Id::Number is a u64, Id::Str a Rust string *)
Definition wf_id (i : id) : Prop :=
  match i with IdNum n => n <= u64_max | IdStr s => utf8_valid s = true | IdNull => True end.
Definition wf_subid (i : subid) : Prop :=
  match i with SubNum n => n <= u64_max | SubStr s => utf8_valid s = true end.

(* a raw JSON text as Box<RawValue> holds it: one complete value, a Rust str, no leading whitespace *)
Definition raw_payload (t : bytes) : Prop := raw_ok t /\ utf8_valid t = true /\ skip_ws t = t.
(* Option<RawValue>: the text `null` reads back as None *)
Definition nonnull (t : bytes) : Prop := is_null_span t = false.

(* what the member scanner needs of a value text (no UTF-8 requirement) *)
Definition span_ok (t : bytes) : Prop := raw_ok t /\ skip_ws t = t.

Lemma raw_payload_span t : raw_payload t -> span_ok t.
Proof. intros (R & _ & W). split; assumption. Qed.

Lemma span_ok_ser v : wf v = true -> span_ok (ser v).
Proof. intro W. split; [apply raw_ok_ser, W | apply skip_ws_ser, W]. Qed.

Lemma raw_payload_ser v : wf v = true -> raw_payload (ser v).
Proof. intro W. split; [apply raw_ok_ser, W | split; [apply ser_utf8, W | apply skip_ws_ser, W]]. Qed.

Lemma span_ok_follow t X : span_ok t -> ok_follow X = true ->
  skip_ws (t ++ X) = t ++ X /\ forall f, (length t <= f)%nat -> skip_value f (t ++ X) = Some (t, X).
Proof.
  intros [R W] HX. destruct (raw_ok_trim t X R HX) as [E1 E2]. rewrite W in E1, E2. split; assumption.
Qed.

(* ---------- objects assembled from (key, value text) pairs ---------- *)

(* the members after the opening brace, closing brace included *)
Fixpoint ser_mems (ms : members) : bytes :=
  match ms with
  | [] => [x7d]
  | (k, v) :: ms' => ser_str k ++ x3a :: v ++ match ms' with [] => [x7d] | _ :: _ => x2c :: ser_mems ms' end
  end.
Definition ser_object (ms : members) : bytes := x7b :: ser_mems ms.

Lemma ser_mems_one k v : ser_mems [(k, v)] = ser_str k ++ x3a :: v ++ [x7d].
Proof. reflexivity. Qed.
Lemma ser_mems_cons k v kv ms : ser_mems ((k, v) :: kv :: ms) = ser_str k ++ x3a :: v ++ x2c :: ser_mems (kv :: ms).
Proof. reflexivity. Qed.

Definition mem_ok (kv : bytes * bytes) : Prop := utf8_valid (fst kv) = true /\ span_ok (snd kv).

Lemma members_loop_S f s : members_loop (S f) s =
    match skip_ws s with
    | q :: s1 =>
      if beqb q x22 then
        match scan_str_valid s1 with
        | Some (k, r0) =>
          match skip_ws r0 with
          | col :: r1 =>
            if beqb col x3a then
              let r1' := skip_ws r1 in
              match skip_value (S (length r1')) r1' with
              | Some (span, r) =>
                match skip_ws r with
                | c :: r2 =>
                  if beqb c x2c then
                    match members_loop f r2 with Some (ms, r3) => Some ((k, span) :: ms, r3) | None => None end
                  else if beqb c x7d then Some ([(k, span)], r2)
                  else None
                | [] => None
                end
              | None => None
              end
            else None
          | [] => None
          end
        | None => None
        end
      else None
    | [] => None
    end.
Proof. reflexivity. Qed.

Lemma members_loop_last f k v rest : utf8_valid k = true -> span_ok v ->
  members_loop (S f) (ser_str k ++ x3a :: v ++ x7d :: rest) = Some ([(k, v)], rest).
Proof.
  intros Uk Sv. rewrite members_loop_S, ser_str_app, (skip_ws_cons_nws x22) by reflexivity.
  cbv beta iota. rewrite (beqb_refl x22), (scan_str_valid_escape k _ Uk), (skip_ws_cons_nws x3a) by reflexivity.
  cbv beta iota zeta. rewrite (beqb_refl x3a).
  destruct (span_ok_follow v (x7d :: rest) Sv eq_refl) as [E1 E2].
  rewrite E1, E2 by (rewrite app_length; lia).
  rewrite (skip_ws_cons_nws x7d) by reflexivity. reflexivity.
Qed.

Lemma members_loop_more f k v r1 ms r2 : utf8_valid k = true -> span_ok v ->
  members_loop f r1 = Some (ms, r2) ->
  members_loop (S f) (ser_str k ++ x3a :: v ++ x2c :: r1) = Some ((k, v) :: ms, r2).
Proof.
  intros Uk Sv H. rewrite members_loop_S, ser_str_app, (skip_ws_cons_nws x22) by reflexivity.
  cbv beta iota. rewrite (beqb_refl x22), (scan_str_valid_escape k _ Uk), (skip_ws_cons_nws x3a) by reflexivity.
  cbv beta iota zeta. rewrite (beqb_refl x3a).
  destruct (span_ok_follow v (x2c :: r1) Sv eq_refl) as [E1 E2].
  rewrite E1, E2 by (rewrite app_length; lia).
  rewrite (skip_ws_cons_nws x2c) by reflexivity. cbv beta iota. rewrite (beqb_refl x2c), H. reflexivity.
Qed.

(* the core lemma: the member scanner recovers exactly the pairs the text was assembled from *)
Lemma members_loop_ser ms : ms <> [] -> Forall mem_ok ms ->
  forall rest f, (length ms <= f)%nat -> members_loop f (ser_mems ms ++ rest) = Some (ms, rest).
Proof.
  intros Hne HF. induction HF as [|[k v] ms [Uk Sv] HF IH]; [congruence|]. intros rest f Hf.
  cbn [fst snd] in Uk, Sv.
  destruct f as [|f]; [cbn in Hf; lia|].
  destruct ms as [|kv ms].
  - rewrite ser_mems_one. rewrite <- !app_assoc. cbn [app]. rewrite <- app_assoc. cbn [app].
    apply members_loop_last; assumption.
  - rewrite ser_mems_cons. rewrite <- !app_assoc. cbn [app]. rewrite <- app_assoc. cbn [app].
    apply members_loop_more; [assumption | assumption |].
    apply IH; [discriminate | cbn [length] in Hf |- *; lia].
Qed.

Lemma ser_mems_head k v ms : exists tl, ser_mems ((k, v) :: ms) = x22 :: tl.
Proof. eexists. cbn [ser_mems]. unfold ser_str. cbn [app]. reflexivity. Qed.

Lemma ser_mems_length ms : (length ms <= length (ser_mems ms))%nat.
Proof.
  induction ms as [|[k v] ms IH]; [cbn; lia|].
  destruct ms as [|kv ms]; [rewrite ser_mems_one | rewrite ser_mems_cons];
    rewrite !app_length; cbn [length] in *; rewrite ?app_length; cbn [length]; lia.
Qed.

Theorem object_members_ser ms : Forall mem_ok ms -> object_members (ser_object ms) = Some ms.
Proof.
  intro HF. destruct ms as [|[k v] ms]; [reflexivity|].
  unfold object_members, ser_object. rewrite (skip_ws_cons_nws x7b) by reflexivity.
  cbv beta iota. rewrite (beqb_refl x7b).
  destruct (ser_mems_head k v ms) as [tl E].
  rewrite E at 1. rewrite (skip_ws_cons_nws x22) by reflexivity. cbv beta iota.
  change (beqb x22 x7d) with false. cbv beta iota.
  rewrite <- (app_nil_r (ser_mems ((k, v) :: ms))) at 2.
  rewrite (members_loop_ser _ (fun H => nil_cons (eq_sym H)) HF [] _
             (le_S _ _ (ser_mems_length ((k, v) :: ms)))).
  reflexivity.
Qed.

(* ---- the same text under the lenient scanner: an assembled object is a raw value ---- *)

Lemma ws_prefix_cons_nws c s : is_json_ws c = false -> ws_prefix (c :: s) = [].
Proof. intro H. unfold ws_prefix. cbn [take_while]. rewrite H. reflexivity. Qed.

Lemma skip_members_last f k v rest : span_ok v -> (length v <= f)%nat ->
  skip_members (S f) (ser_str k ++ x3a :: v ++ x7d :: rest) = Some (ser_str k ++ x3a :: v ++ [x7d], rest).
Proof.
  intros Sv Hf. rewrite skip_members_S, ser_str_app, (skip_ws_cons_nws x22), (ws_prefix_cons_nws x22) by reflexivity.
  cbv beta iota. rewrite (beqb_refl x22), skip_str_escape, (skip_ws_cons_nws x3a), (ws_prefix_cons_nws x3a) by reflexivity.
  cbv beta iota. rewrite (beqb_refl x3a).
  destruct (span_ok_follow v (x7d :: rest) Sv eq_refl) as [_ E2]. rewrite E2 by exact Hf.
  rewrite (skip_ws_cons_nws x7d), (ws_prefix_cons_nws x7d) by reflexivity. cbv beta iota zeta.
  change (beqb x7d x2c) with false. cbv beta iota. rewrite (beqb_refl x7d).
  f_equal. f_equal. unfold ser_str. list_solve.
Qed.

Lemma skip_members_more f k v r1 t2 r2 : span_ok v -> (length v <= f)%nat ->
  skip_members f r1 = Some (t2, r2) ->
  skip_members (S f) (ser_str k ++ x3a :: v ++ x2c :: r1) = Some (ser_str k ++ x3a :: v ++ x2c :: t2, r2).
Proof.
  intros Sv Hf H. rewrite skip_members_S, ser_str_app, (skip_ws_cons_nws x22), (ws_prefix_cons_nws x22) by reflexivity.
  cbv beta iota. rewrite (beqb_refl x22), skip_str_escape, (skip_ws_cons_nws x3a), (ws_prefix_cons_nws x3a) by reflexivity.
  cbv beta iota. rewrite (beqb_refl x3a).
  destruct (span_ok_follow v (x2c :: r1) Sv eq_refl) as [_ E2]. rewrite E2 by exact Hf.
  rewrite (skip_ws_cons_nws x2c), (ws_prefix_cons_nws x2c) by reflexivity. cbv beta iota zeta.
  rewrite (beqb_refl x2c), H.
  f_equal. f_equal. unfold ser_str. list_solve.
Qed.

Lemma skip_members_ser ms : ms <> [] -> Forall mem_ok ms ->
  forall rest f, (length (ser_mems ms) <= f)%nat ->
    skip_members f (ser_mems ms ++ rest) = Some (ser_mems ms, rest).
Proof.
  intros Hne HF. induction HF as [|[k v] ms [Uk Sv] HF IH]; [congruence|]. intros rest f Hf.
  cbn [fst snd] in Uk, Sv.
  destruct f as [|f]; [destruct (ser_mems_head k v ms) as [tl E]; rewrite E in Hf; cbn in Hf; lia|].
  destruct ms as [|kv ms].
  - rewrite ser_mems_one in Hf |- *. rewrite <- !app_assoc. cbn [app]. rewrite <- app_assoc. cbn [app].
    apply skip_members_last; [assumption | len_solve].
  - rewrite ser_mems_cons in Hf |- *. rewrite <- !app_assoc. cbn [app]. rewrite <- app_assoc. cbn [app].
    apply skip_members_more; [assumption | len_solve |].
    apply IH; [discriminate | len_solve].
Qed.

Theorem raw_ok_object ms : Forall mem_ok ms -> raw_ok (ser_object ms).
Proof.
  intro HF. destruct ms as [|[k v] ms].
  - change (ser_object []) with (ser (JObj [])). apply raw_ok_ser. reflexivity.
  - intros rest _. unfold ser_object. cbn [app]. rewrite skip_value_S. cbv zeta.
    rewrite (skip_ws_cons_nws x7b), (ws_prefix_cons_nws x7b) by reflexivity. cbv beta iota.
    change (beqb x7b x6e) with false. change (beqb x7b x74) with false. change (beqb x7b x66) with false.
    change (beqb x7b x22) with false. change (is_num_start x7b) with false. change (beqb x7b x5b) with false.
    cbv beta iota. rewrite (beqb_refl x7b).
    destruct (ser_mems_head k v ms) as [tl E].
    rewrite E at 1. cbn [app]. rewrite (skip_ws_cons_nws x22) by reflexivity. cbv beta iota.
    change (beqb x22 x7d) with false. cbv beta iota.
    rewrite skip_members_ser; [reflexivity | discriminate | exact HF | cbn [length]; rewrite app_length; lia].
Qed.

Corollary span_ok_object ms : Forall mem_ok ms -> span_ok (ser_object ms).
Proof. intro HF. split; [apply raw_ok_object, HF | reflexivity]. Qed.

(* an assembled object is UTF-8 when its keys and value texts are *)
Definition mem_utf8 (kv : bytes * bytes) : Prop := utf8_valid (fst kv) = true /\ utf8_valid (snd kv) = true.

Lemma ser_mems_utf8 ms : Forall mem_utf8 ms -> utf8_valid (ser_mems ms) = true.
Proof.
  induction 1 as [|[k v] ms [Uk Uv] HF IH]; [reflexivity|]. cbn [fst snd] in Uk, Uv.
  destruct ms as [|kv ms]; [rewrite ser_mems_one | rewrite ser_mems_cons].
  - apply utf8_valid_app; [apply ser_str_utf8, Uk|]. rewrite utf8_valid_ascii_cons by reflexivity.
    apply utf8_valid_app; [exact Uv | reflexivity].
  - apply utf8_valid_app; [apply ser_str_utf8, Uk|]. rewrite utf8_valid_ascii_cons by reflexivity.
    apply utf8_valid_app; [exact Uv|]. rewrite utf8_valid_ascii_cons by reflexivity. exact IH.
Qed.

Lemma ser_object_utf8 ms : Forall mem_utf8 ms -> utf8_valid (ser_object ms) = true.
Proof. intro HF. unfold ser_object. rewrite utf8_valid_ascii_cons by reflexivity. apply ser_mems_utf8, HF. Qed.

Theorem raw_payload_object ms : Forall mem_ok ms -> Forall mem_utf8 ms -> raw_payload (ser_object ms).
Proof. intros H1 H2. split; [apply raw_ok_object, H1 | split; [apply ser_object_utf8, H2 | reflexivity]]. Qed.

(* ---------- the struct dispatch (de_struct): map form on '{', sequence form on '[' ---------- *)

Lemma object_members_head t m : object_members t = Some m -> exists s1, skip_ws t = x7b :: s1.
Proof.
  unfold object_members. destruct (skip_ws t) as [|c s1]; [discriminate|].
  destruct (beqb c x7b) eqn:E; [|discriminate]. apply beqb_true in E. subst c. intros _. exists s1. reflexivity.
Qed.

Lemma array_elems_head t els : array_elems t = Some els -> exists s1, skip_ws t = x5b :: s1.
Proof.
  unfold array_elems, array_elems_fuel. destruct (skip_ws t) as [|c s1]; [discriminate|].
  destruct (beqb c x5b) eqn:E; [|discriminate]. apply beqb_true in E. subst c. intros _. exists s1. reflexivity.
Qed.

Lemma de_struct_object {A : Type} (f : members -> option A) g t m : object_members t = Some m -> de_struct f g t = f m.
Proof.
  intro H. unfold de_struct. destruct (object_members_head t m H) as [s1 ->].
  change (beqb x7b x7b) with true. cbv beta iota. rewrite H. reflexivity.
Qed.

Lemma de_struct_array {A : Type} (f : members -> option A) g t els : array_elems t = Some els -> de_struct f g t = g els.
Proof.
  intro H. unfold de_struct. destruct (array_elems_head t els H) as [s1 ->].
  change (beqb x5b x7b) with false. change (beqb x5b x5b) with true. cbv beta iota. rewrite H. reflexivity.
Qed.

(* on a text whose first non-whitespace byte is '{' only the map reader is tried *)
Lemma de_struct_some_object {A : Type} (f : members -> option A) g t s1 x :
  skip_ws t = x7b :: s1 -> de_struct f g t = Some x -> exists m, object_members t = Some m /\ f m = Some x.
Proof.
  intros E. unfold de_struct. rewrite E. change (beqb x7b x7b) with true. cbv beta iota.
  destruct (object_members t) as [m|]; [intro H; exists m; split; [reflexivity | exact H] | discriminate].
Qed.

(* neither an object nor an array text: rejected *)
Lemma de_struct_none {A : Type} (f : members -> option A) g t :
  object_members t = None -> array_elems t = None -> de_struct f g t = None.
Proof.
  intros H1 H2. unfold de_struct. destruct (skip_ws t) as [|c s1]; [reflexivity|].
  rewrite H1, H2. destruct (beqb c x7b), (beqb c x5b); reflexivity.
Qed.

(* a visitor without visit_seq (the hand-written Response visitor) is just the map reader *)
Lemma de_struct_map_only {A : Type} (f : members -> option A) t :
  de_struct f (fun _ => None) t = match object_members t with Some m => f m | None => None end.
Proof.
  destruct (object_members t) as [m|] eqn:E; [apply (de_struct_object _ _ _ _ E)|].
  unfold de_struct. destruct (skip_ws t) as [|c s1]; [reflexivity|]. rewrite E.
  destruct (beqb c x7b); [reflexivity|]. destruct (beqb c x5b); [|reflexivity]. destruct (array_elems t); reflexivity.
Qed.

(* a sequence-form text is never read by the map reader and vice versa *)
Lemma array_not_object t els : array_elems t = Some els -> object_members t = None.
Proof.
  intro H. destruct (array_elems_head t els H) as [s1 E]. unfold object_members. rewrite E. reflexivity.
Qed.

Lemma de_struct_ser_object {A : Type} (f : members -> option A) g ms :
  Forall mem_ok ms -> de_struct f g (ser_object ms) = f ms.
Proof. intro HF. apply de_struct_object, object_members_ser, HF. Qed.

(* ---- arrays assembled from element texts: the splitter recovers exactly the elements ---- *)

Definition ser_array (ts : list bytes) : bytes := x5b :: join [x2c] ts ++ [x5d].

Lemma array_elems_fuel_eq f s : array_elems_fuel f s = split_elems f s.
Proof. reflexivity. Qed.

Lemma join_length_ge (rs : list bytes) :
  (forall r, In r rs -> (1 <= length r)%nat) -> (length rs <= length (join [x2c] rs))%nat.
Proof.
  induction rs as [|r rs IH]; intro H; [cbn; lia|]. destruct rs as [|r2 rs].
  - cbn [join length]. apply H. left. reflexivity.
  - rewrite join_cons2, !app_length. cbn [length].
    pose proof (H r (or_introl eq_refl)). assert (length (r2 :: rs) <= length (join [x2c] (r2 :: rs)))%nat.
    { apply IH. intros r' Hr'. apply H. right. exact Hr'. }
    cbn [length] in *. lia.
Qed.

Theorem array_elems_ser ts : ts <> [] -> Forall span_ok ts -> array_elems (ser_array ts) = Some ts.
Proof.
  intros Hne HF. unfold array_elems. rewrite array_elems_fuel_eq. unfold ser_array.
  assert (HR : Forall raw_ok ts) by (eapply Forall_impl; [|exact HF]; intros r [R _]; exact R).
  rewrite (proj2 (skip_array_join ts Hne HR)).
  - f_equal. induction HF as [|r rs [_ W] _ IH]; [reflexivity|]. cbn [map]. rewrite W. f_equal.
    destruct rs as [|r2 rs]; [reflexivity|]. apply IH; [discriminate|]. inversion HR. assumption.
  - cbn [length]. rewrite app_length. cbn [length].
    assert (length ts <= length (join [x2c] ts))%nat; [|lia].
    apply join_length_ge. intros r Hr. rewrite Forall_forall in HR. apply raw_ok_nonempty, HR, Hr.
Qed.

Lemma de_struct_ser_array {A : Type} (f : members -> option A) g ts :
  ts <> [] -> Forall span_ok ts -> de_struct f g (ser_array ts) = g ts.
Proof. intros Hne HF. apply de_struct_array, array_elems_ser; assumption. Qed.

Lemma span_ok_array ts : ts <> [] -> Forall span_ok ts -> span_ok (ser_array ts).
Proof.
  intros Hne HF. split; [|reflexivity]. apply raw_ok_array; [exact Hne|].
  eapply Forall_impl; [|exact HF]. intros r [R _]. exact R.
Qed.

(* ---------- scalars in value position ---------- *)

Lemma depth0 v : jdepth v = 0%nat -> (jdepth v < depth_limit)%nat.
Proof. intro H. rewrite H. unfold depth_limit. lia. Qed.

Lemma wf_json_of_id i : wf_id i -> wf (json_of_id i) = true.
Proof.
  destruct i as [|n|s]; cbn [wf_id json_of_id wf wf_num]; intro H;
    [reflexivity | apply N.leb_le, H | exact H].
Qed.
Lemma wf_json_of_subid i : wf_subid i -> wf (json_of_subid i) = true.
Proof.
  destruct i as [n|s]; cbn [wf_subid json_of_subid wf wf_num]; intro H; [apply N.leb_le, H | exact H].
Qed.

Theorem id_roundtrip i : wf_id i -> parse_id (ser_id i) = Some i.
Proof.
  intro W. unfold parse_id, ser_id.
  rewrite parse_text_ser by (apply wf_json_of_id, W || (apply depth0; destruct i; reflexivity)).
  destruct i; reflexivity.
Qed.

Theorem subid_roundtrip i : wf_subid i -> parse_subid (ser_subid i) = Some i.
Proof.
  intro W. unfold parse_subid, ser_subid.
  rewrite parse_text_ser by (apply wf_json_of_subid, W || (apply depth0; destruct i; reflexivity)).
  destruct i; reflexivity.
Qed.

Lemma span_ok_id i : wf_id i -> span_ok (ser_id i).
Proof. intro W. apply span_ok_ser, wf_json_of_id, W. Qed.
Lemma span_ok_subid i : wf_subid i -> span_ok (ser_subid i).
Proof. intro W. apply span_ok_ser, wf_json_of_subid, W. Qed.
Lemma utf8_id i : wf_id i -> utf8_valid (ser_id i) = true.
Proof. intro W. apply ser_utf8, wf_json_of_id, W. Qed.
Lemma utf8_subid i : wf_subid i -> utf8_valid (ser_subid i) = true.
Proof. intro W. apply ser_utf8, wf_json_of_subid, W. Qed.

Lemma span_ok_str s : utf8_valid s = true -> span_ok (ser_str s).
Proof. intro U. apply (span_ok_ser (JStr s)). exact U. Qed.

Lemma as_str_ser s : utf8_valid s = true -> as_str (ser_str s) = Some s.
Proof.
  intro U. unfold as_str. change (ser_str s) with (ser (JStr s)).
  rewrite parse_text_ser; [reflexivity | exact U | apply depth0; reflexivity].
Qed.

Lemma is_two_two : is_two (ser_str v_two) = true.
Proof. vm_compute. reflexivity. Qed.
Lemma two_not_null : is_null_span (ser_str v_two) = false.
Proof. vm_compute. reflexivity. Qed.
Lemma span_ok_two : span_ok (ser_str v_two).
Proof. apply span_ok_str. reflexivity. Qed.

Lemma as_opt_raw_payload p : raw_payload p -> nonnull p -> as_opt_raw p = Some (Some p).
Proof. intros (_ & U & _) N. unfold as_opt_raw. unfold nonnull in N. rewrite N, U. reflexivity. Qed.

(* the i32 code *)
Definition json_of_code (z : Z) : json :=
  match z with Z0 => JNum (NPos 0) | Zpos p => JNum (NPos (Npos p)) | Zneg p => JNum (NNeg (Npos p)) end.
Definition i32_range (z : Z) : Prop := (-2147483648 <= z < 2147483648)%Z.

Lemma print_Z_ser z : print_Z z = ser (json_of_code z).
Proof. destruct z; reflexivity. Qed.

Lemma wf_json_of_code z : i32_range z -> wf (json_of_code z) = true.
Proof.
  unfold i32_range. destruct z as [|p|p]; intro H; cbn [json_of_code wf wf_num].
  - reflexivity.
  - apply N.leb_le. unfold u64_max. lia.
  - apply andb_true_iff. split; [reflexivity | apply N.leb_le; unfold i64_min_abs; lia].
Qed.

Lemma i32_of_code z : i32_range z -> i32_of_json (json_of_code z) = Some z.
Proof.
  unfold i32_range. destruct z as [|p|p]; intro H; cbn [json_of_code i32_of_json].
  - reflexivity.
  - replace (N.pos p <=? 2147483647) with true by (symmetry; apply N.leb_le; lia). reflexivity.
  - replace (N.pos p <=? 2147483648) with true by (symmetry; apply N.leb_le; lia). reflexivity.
Qed.

Lemma parse_text_code z : i32_range z -> parse_text (print_Z z) = Some (json_of_code z).
Proof.
  intro H. rewrite print_Z_ser. apply parse_text_ser; [apply wf_json_of_code, H | apply depth0; destruct z; reflexivity].
Qed.
Lemma span_ok_code z : i32_range z -> span_ok (print_Z z).
Proof. intro H. rewrite print_Z_ser. apply span_ok_ser, wf_json_of_code, H. Qed.
Lemma utf8_code z : i32_range z -> utf8_valid (print_Z z) = true.
Proof. intro H. rewrite print_Z_ser. apply ser_utf8, wf_json_of_code, H. Qed.

(* ---------- ErrorObject ---------- *)

Definition opt_member (k : bytes) (o : option bytes) : members :=
  match o with Some d => [(k, d)] | None => [] end.

Definition errobj_members (e : errobj) : members :=
  (k_code, print_Z (e_code e)) :: (k_message, ser_str (e_message e)) :: opt_member k_data (e_data e).

Lemma ser_errobj_eq e : ser_errobj e = ser_object (errobj_members e).
Proof.
  unfold ser_errobj, ser_object, errobj_members, opt_member.
  destruct (e_data e); cbn [ser_mems]; list_solve.
Qed.

Definition wf_errobj (e : errobj) : Prop :=
  i32_range (e_code e) /\ utf8_valid (e_message e) = true /\
  match e_data e with Some d => raw_payload d /\ nonnull d | None => True end.

Lemma errobj_members_ok e : wf_errobj e -> Forall mem_ok (errobj_members e) /\ Forall mem_utf8 (errobj_members e).
Proof.
  intros (Hc & Um & Hd). unfold errobj_members, opt_member. split.
  - constructor; [split; [reflexivity | apply span_ok_code, Hc]|].
    constructor; [split; [reflexivity | apply span_ok_str, Um]|].
    destruct (e_data e) as [d|]; [|constructor].
    constructor; [|constructor]. split; [reflexivity | apply raw_payload_span, Hd].
  - constructor; [split; [reflexivity | apply utf8_code, Hc]|].
    constructor; [split; [reflexivity | apply ser_str_utf8, Um]|].
    destruct (e_data e) as [d|]; [|constructor].
    constructor; [|constructor]. split; [reflexivity | apply Hd].
Qed.

Lemma parse_errobj_members_eq ct mt od :
  parse_errobj_members ((k_code, ct) :: (k_message, mt) :: opt_member k_data od) =
    match parse_text ct, as_str mt with
    | Some cv, Some ms =>
      match i32_of_json cv with
      | Some code =>
        match od with
        | None => Some {| e_code := code; e_message := ms; e_data := None |}
        | Some d => match as_opt_raw d with
                    | Some od' => Some {| e_code := code; e_message := ms; e_data := od' |}
                    | None => None end
        end
      | None => None
      end
    | _, _ => None
    end.
Proof. destruct od; reflexivity. Qed.

Lemma errobj_roundtrip_wf e : wf_errobj e -> parse_errobj (ser_errobj e) = Some e.
Proof.
  intro W. unfold parse_errobj. rewrite ser_errobj_eq, de_struct_ser_object by apply (errobj_members_ok e W).
  destruct W as (Hc & Um & Hd). unfold errobj_members. rewrite parse_errobj_members_eq.
  rewrite (parse_text_code _ Hc), (as_str_ser _ Um), (i32_of_code _ Hc).
  destruct e as [c m [d|]]; cbn [e_code e_message e_data] in *; [|reflexivity].
  rewrite (as_opt_raw_payload d) by apply Hd. reflexivity.
Qed.

Theorem errobj_roundtrip e :
  (-2147483648 <= e_code e < 2147483648)%Z -> utf8_valid (e_message e) = true ->
  match e_data e with Some d => raw_payload d /\ nonnull d | None => True end ->
  parse_errobj (ser_errobj e) = Some e.
Proof. intros H1 H2 H3. apply errobj_roundtrip_wf. repeat split; assumption || apply H1. Qed.

(* Option<RawValue> cannot carry the text `null`: it reads back as None *)
Theorem errobj_data_null_refuted :
  exists e, (-2147483648 <= e_code e < 2147483648)%Z /\ utf8_valid (e_message e) = true /\
            match e_data e with Some d => raw_payload d | None => True end /\
            parse_errobj (ser_errobj e) <> Some e.
Proof.
  exists {| e_code := (-32000)%Z; e_message := b#"x"; e_data := Some b#"null" |}. cbn [e_code e_message e_data].
  split; [lia|]. split; [reflexivity|]. split; [apply (raw_payload_ser JNull); reflexivity|].
  vm_compute. discriminate.
Qed.

Lemma span_ok_errobj e : wf_errobj e -> span_ok (ser_errobj e).
Proof. intro W. rewrite ser_errobj_eq. apply span_ok_object, (errobj_members_ok e W). Qed.
Lemma raw_payload_errobj e : wf_errobj e -> raw_payload (ser_errobj e).
Proof. intro W. rewrite ser_errobj_eq. apply raw_payload_object; apply (errobj_members_ok e W). Qed.

(* ---------- Request / Notification ---------- *)

Definition request_members (r : request) : members :=
  (k_jsonrpc, ser_str v_two) :: (k_id, ser_id (rq_id r)) :: (k_method, ser_str (rq_method r)) ::
  opt_member k_params (rq_params r).

Lemma ser_request_eq r : ser_request r = ser_object (request_members r).
Proof.
  unfold ser_request, ser_object, request_members, opt_member.
  destruct (rq_params r); cbn [ser_mems]; list_solve.
Qed.

Lemma as_request_eq jt it mt op :
  as_request ((k_jsonrpc, jt) :: (k_id, it) :: (k_method, mt) :: opt_member k_params op) =
    if is_two jt then
      match parse_id it, as_str mt, (match op with Some p => as_opt_raw p | None => Some None end) with
      | Some i', Some me', Some p => Some {| rq_id := i'; rq_method := me'; rq_params := p |}
      | _, _, _ => None
      end
    else None.
Proof. destruct op; reflexivity. Qed.

Definition wf_opt_payload (o : option bytes) : Prop :=
  match o with Some p => raw_payload p /\ nonnull p | None => True end.

Lemma opt_member_ok k o : utf8_valid k = true -> wf_opt_payload o ->
  Forall mem_ok (opt_member k o) /\ Forall mem_utf8 (opt_member k o).
Proof.
  intros Uk H. destruct o as [p|]; cbn [opt_member]; [|split; constructor].
  split; (constructor; [|constructor]); split; try exact Uk; [apply raw_payload_span, H | apply H].
Qed.

Theorem request_roundtrip r :
  wf_id (rq_id r) -> utf8_valid (rq_method r) = true ->
  match rq_params r with Some p => raw_payload p /\ nonnull p | None => True end ->
  parse_request (ser_request r) = Some r.
Proof.
  intros Wi Um Hp. unfold parse_request. rewrite ser_request_eq, de_struct_ser_object.
  - unfold request_members. rewrite as_request_eq, is_two_two, (id_roundtrip _ Wi), (as_str_ser _ Um).
    destruct r as [i m [p|]]; cbn [rq_id rq_method rq_params] in *; [|reflexivity].
    rewrite (as_opt_raw_payload p) by apply Hp. reflexivity.
  - unfold request_members.
    constructor; [split; [reflexivity | apply span_ok_two]|].
    constructor; [split; [reflexivity | apply span_ok_id, Wi]|].
    constructor; [split; [reflexivity | apply span_ok_str, Um]|].
    apply (opt_member_ok k_params (rq_params r) eq_refl Hp).
Qed.

Definition notif_param_text (p : option bytes) : bytes := match p with Some p' => p' | None => b#"null" end.
Definition notification_members (me : bytes) (p : option bytes) : members :=
  [(k_jsonrpc, ser_str v_two); (k_method, ser_str me); (k_params, notif_param_text p)].

Lemma ser_notification_eq me p : ser_notification me p = ser_object (notification_members me p).
Proof. unfold ser_notification, ser_object, notification_members, notif_param_text. cbn [ser_mems]. list_solve. Qed.

Lemma as_notification_eq jt mt pt :
  as_notification [(k_jsonrpc, jt); (k_method, mt); (k_params, pt)] =
    if is_two jt then
      match as_str mt, as_opt_raw pt with
      | Some me', Some p => Some (me', p)
      | _, _ => None
      end
    else None.
Proof. reflexivity. Qed.

Theorem notification_roundtrip me p :
  utf8_valid me = true ->
  match p with Some p' => raw_payload p' /\ nonnull p' | None => True end ->
  parse_notification (ser_notification me p) = Some (me, p).
Proof.
  intros Um Hp. unfold parse_notification. rewrite ser_notification_eq, de_struct_ser_object.
  - unfold notification_members. rewrite as_notification_eq, is_two_two, (as_str_ser _ Um).
    destruct p as [p|]; cbn [notif_param_text]; [|reflexivity].
    rewrite (as_opt_raw_payload p) by apply Hp. reflexivity.
  - unfold notification_members.
    constructor; [split; [reflexivity | apply span_ok_two]|].
    constructor; [split; [reflexivity | apply span_ok_str, Um]|].
    constructor; [|constructor]. split; [reflexivity|]. cbn [snd].
    destruct p as [p|]; cbn [notif_param_text]; [apply raw_payload_span, Hp | apply (span_ok_ser JNull); reflexivity].
Qed.

(* ---------- Response ---------- *)

Definition wf_payload (p : payload) : Prop :=
  match p with
  | PResult raw => raw_payload raw
  | PError e =>
    (-2147483648 <= e_code e < 2147483648)%Z /\ utf8_valid (e_message e) = true /\
    match e_data e with Some d => raw_payload d /\ nonnull d | None => True end
  end.

Definition payload_member (p : payload) : bytes * bytes :=
  match p with PResult raw => (k_result, raw) | PError e => (k_error, ser_errobj e) end.

Definition response_members (r : response) : members :=
  (if rs_jsonrpc r then [(k_jsonrpc, ser_str v_two)] else []) ++
  [(k_id, ser_id (rs_id r)); payload_member (rs_payload r)].

Lemma ser_response_eq r : ser_response r = ser_object (response_members r).
Proof.
  unfold ser_response, ser_object, response_members, payload_member.
  destruct (rs_jsonrpc r), (rs_payload r); cbn [ser_mems app]; list_solve.
Qed.

Lemma wf_payload_errobj e : wf_payload (PError e) -> wf_errobj e.
Proof. intro H. exact H. Qed.

Lemma response_members_ok r : wf_id (rs_id r) -> wf_payload (rs_payload r) ->
  Forall mem_ok (response_members r) /\ Forall mem_utf8 (response_members r).
Proof.
  intros Wi Wp. unfold response_members.
  assert (P : mem_ok (payload_member (rs_payload r)) /\ mem_utf8 (payload_member (rs_payload r))).
  { destruct (rs_payload r) as [raw|e]; cbn [payload_member].
    - split; (split; [reflexivity|]); [apply raw_payload_span, Wp | apply Wp].
    - split; (split; [reflexivity|]); [apply span_ok_errobj, Wp | apply raw_payload_errobj, Wp]. }
  destruct P as [P1 P2].
  split; apply Forall_app; split.
  - destruct (rs_jsonrpc r); constructor; [split; [reflexivity | apply span_ok_two] | constructor].
  - constructor; [split; [reflexivity | apply span_ok_id, Wi]|]. constructor; [exact P1 | constructor].
  - destruct (rs_jsonrpc r); constructor; [split; reflexivity | constructor].
  - constructor; [split; [reflexivity | apply utf8_id, Wi]|]. constructor; [exact P2 | constructor].
Qed.

Lemma parse_response_members_eq (j : bool) it pm :
  parse_response_members ((if j then [(k_jsonrpc, ser_str v_two)] else []) ++ [(k_id, it); payload_member pm]) =
    match parse_id it with
    | Some i' =>
      match pm with
      | PResult raw =>
        match as_raw raw with Some r' => Some {| rs_jsonrpc := j; rs_payload := PResult r'; rs_id := i' |} | None => None end
      | PError e =>
        match parse_errobj (ser_errobj e) with
        | Some e' => Some {| rs_jsonrpc := j; rs_payload := PError e'; rs_id := i' |} | None => None end
      end
    | None => None
    end.
Proof.
  destruct j, pm; reflexivity.
Qed.

Theorem response_roundtrip r :
  wf_id (rs_id r) ->
  match rs_payload r with
  | PResult raw => raw_payload raw
  | PError e =>
    (-2147483648 <= e_code e < 2147483648)%Z /\ utf8_valid (e_message e) = true /\
    match e_data e with Some d => raw_payload d /\ nonnull d | None => True end
  end ->
  parse_response (ser_response r) = Some r.
Proof.
  intros Wi Wp. change (wf_payload (rs_payload r)) in Wp.
  unfold parse_response. rewrite ser_response_eq, object_members_ser by apply (response_members_ok r Wi Wp).
  unfold response_members. rewrite parse_response_members_eq, (id_roundtrip _ Wi).
  destruct r as [j [raw|e] i]; cbn [rs_jsonrpc rs_payload rs_id] in *.
  - unfold as_raw. destruct Wp as (_ & U & _). rewrite U. reflexivity.
  - rewrite (errobj_roundtrip_wf e Wp). reflexivity.
Qed.

(* parse . ser = id gives ser . parse . ser = ser: re-serialising what was read yields the same bytes *)
Corollary response_reser_same_bytes r :
  wf_id (rs_id r) ->
  match rs_payload r with
  | PResult raw => raw_payload raw
  | PError e =>
    (-2147483648 <= e_code e < 2147483648)%Z /\ utf8_valid (e_message e) = true /\
    match e_data e with Some d => raw_payload d /\ nonnull d | None => True end
  end ->
  option_map ser_response (parse_response (ser_response r)) = Some (ser_response r).
Proof. intros Wi Wp. rewrite (response_roundtrip r Wi Wp). reflexivity. Qed.

Corollary request_reser_same_bytes r :
  wf_id (rq_id r) -> utf8_valid (rq_method r) = true ->
  match rq_params r with Some p => raw_payload p /\ nonnull p | None => True end ->
  option_map ser_request (parse_request (ser_request r)) = Some (ser_request r).
Proof. intros H1 H2 H3. rewrite (request_roundtrip r H1 H2 H3). reflexivity. Qed.

Corollary errobj_reser_same_bytes e :
  (-2147483648 <= e_code e < 2147483648)%Z -> utf8_valid (e_message e) = true ->
  match e_data e with Some d => raw_payload d /\ nonnull d | None => True end ->
  option_map ser_errobj (parse_errobj (ser_errobj e)) = Some (ser_errobj e).
Proof. intros H1 H2 H3. rewrite (errobj_roundtrip e H1 H2 H3). reflexivity. Qed.

Corollary id_reser_same_bytes i : wf_id i -> option_map ser_id (parse_id (ser_id i)) = Some (ser_id i).
Proof. intro W. rewrite (id_roundtrip i W). reflexivity. Qed.

(* an emitted response is one complete UTF-8 JSON value (for either setting of the jsonrpc flag) *)
Theorem emitted_response_is_json r :
  wf_id (rs_id r) -> wf_payload (rs_payload r) -> raw_payload (ser_response r).
Proof.
  intros Wi Wp. rewrite ser_response_eq. apply raw_payload_object; apply (response_members_ok r Wi Wp).
Qed.

Lemma response_fields it pm :
  let m := [(k_jsonrpc, ser_str v_two); (k_id, it); payload_member pm] in
  field_of k_jsonrpc m = FOne (ser_str v_two) /\ field_of k_id m = FOne it /\
  match pm with
  | PResult raw => field_of k_result m = FOne raw /\ field_of k_error m = FAbsent
  | PError e => field_of k_error m = FOne (ser_errobj e) /\ field_of k_result m = FAbsent
  end.
Proof. destruct pm; repeat split; reflexivity. Qed.

(* what the server emits (jsonrpc present) is a JSON-RPC 2.0 response object:
   jsonrpc = "2.0", the id, and exactly one of result / error *)
Theorem emitted_response_valid r :
  wf_id (rs_id r) ->
  match rs_payload r with
  | PResult raw => raw_payload raw
  | PError e =>
    (-2147483648 <= e_code e < 2147483648)%Z /\ utf8_valid (e_message e) = true /\
    match e_data e with Some d => raw_payload d /\ nonnull d | None => True end
  end ->
  rs_jsonrpc r = true ->
  exists m, object_members (ser_response r) = Some m /\
    field_of k_jsonrpc m = FOne (ser_str v_two) /\ is_two (ser_str v_two) = true /\
    field_of k_id m = FOne (ser_id (rs_id r)) /\ parse_id (ser_id (rs_id r)) = Some (rs_id r) /\
    match rs_payload r with
    | PResult raw => field_of k_result m = FOne raw /\ field_of k_error m = FAbsent
    | PError e => field_of k_error m = FOne (ser_errobj e) /\ field_of k_result m = FAbsent /\
                  parse_errobj (ser_errobj e) = Some e
    end.
Proof.
  intros Wi Wp Hj. change (wf_payload (rs_payload r)) in Wp.
  exists (response_members r).
  split; [rewrite ser_response_eq; apply object_members_ser, (response_members_ok r Wi Wp)|].
  unfold response_members. rewrite Hj. cbn [app].
  destruct (response_fields (ser_id (rs_id r)) (rs_payload r)) as (F1 & F2 & F3).
  split; [exact F1|]. split; [exact is_two_two|]. split; [exact F2|]. split; [apply id_roundtrip, Wi|].
  destruct (rs_payload r) as [raw|e]; [exact F3|].
  destruct F3 as [F3 F4]. split; [exact F3|]. split; [exact F4|]. apply errobj_roundtrip_wf, Wp.
Qed.

(* ---------- the response parser accepts exactly ... ---------- *)

Theorem response_accept_iff (m : members) :
  parse_response_members m <> None <->
  (exists i, field_of k_id m = FOne i /\ parse_id i <> None) /\
  (field_of k_jsonrpc m = FAbsent \/
   exists s, field_of k_jsonrpc m = FOne s /\ (is_null_span s = true \/ is_two s = true)) /\
  ((exists r, field_of k_result m = FOne r /\ utf8_valid r = true /\ field_of k_error m = FAbsent) \/
   (exists e, field_of k_error m = FOne e /\ parse_errobj e <> None /\ field_of k_result m = FAbsent)).
Proof.
  unfold parse_response_members, as_opt_two, as_raw. split.
  - intro H.
    destruct (field_of k_id m) as [|i|]; try (exfalso; apply H; reflexivity).
    destruct (parse_id i) as [i'|] eqn:Ei; try (exfalso; apply H; reflexivity).
    split; [exists i; split; [reflexivity | congruence]|].
    cbv zeta in H. split.
    + destruct (field_of k_jsonrpc m) as [|s|]; [left; reflexivity | | exfalso; apply H; reflexivity].
      right. exists s. split; [reflexivity|].
      destruct (is_null_span s); [left; reflexivity|].
      destruct (is_two s); [right; reflexivity|]. exfalso; apply H; reflexivity.
    + match type of H with (match ?j with Some _ => _ | None => _ end) <> None => destruct j as [jv|] end;
        [|exfalso; apply H; reflexivity].
      destruct (field_of k_result m) as [|r|], (field_of k_error m) as [|e|];
        try (exfalso; apply H; reflexivity).
      * right. exists e. split; [reflexivity|]. split; [|reflexivity].
        destruct (parse_errobj e); [discriminate | exfalso; apply H; reflexivity].
      * left. exists r. split; [reflexivity|]. split; [|reflexivity].
        destruct (utf8_valid r); [reflexivity | exfalso; apply H; reflexivity].
  - intros ((i & Ei & Pi) & J & P). rewrite Ei.
    destruct (parse_id i) as [i'|]; [|congruence]. cbv zeta.
    assert (EJ : exists jv, match field_of k_jsonrpc m with
                            | FAbsent => Some false
                            | FOne s => if is_null_span s then Some false else if is_two s then Some true else None
                            | FDup => None end = Some jv).
    { destruct J as [-> | (s & -> & [N | T])];
        [eexists; reflexivity | rewrite N; eexists; reflexivity |
         rewrite T; destruct (is_null_span s); eexists; reflexivity]. }
    destruct EJ as [jv ->].
    destruct P as [(r & -> & U & ->) | (e & -> & Pe & ->)]; cbv beta iota.
    + rewrite U. discriminate.
    + destruct (parse_errobj e); [discriminate | congruence].
Qed.

(* the same, from the text *)
Corollary response_text_accept_iff (t : bytes) :
  parse_response t <> None <->
  exists m, object_members t = Some m /\ parse_response_members m <> None.
Proof.
  unfold parse_response. destruct (object_members t) as [m|].
  - split; [intro H; exists m; split; [reflexivity | exact H] | intros (m' & E & H); congruence].
  - split; [congruence | intros (m' & E & _); discriminate].
Qed.

(* a known member that occurs twice is rejected *)
Corollary response_dup_rejected (m : members) k :
  In k [k_jsonrpc; k_id; k_result; k_error] -> field_of k m = FDup -> parse_response_members m = None.
Proof.
  intros Hk Hd. destruct (parse_response_members m) eqn:E; [|reflexivity]. exfalso.
  assert (H : parse_response_members m <> None) by congruence.
  apply response_accept_iff in H as ((i & Ei & _) & J & P).
  cbn [In] in Hk. destruct Hk as [<- | [<- | [<- | [<- | []]]]].
  - destruct J as [J | (s & J & _)]; congruence.
  - congruence.
  - destruct P as [(r0 & A & _ & B) | (e & A & _ & B)]; congruence.
  - destruct P as [(r0 & A & _ & B) | (e & A & _ & B)]; congruence.
Qed.

Lemma get_all_app k m1 m2 : get_all k (m1 ++ m2) = get_all k m1 ++ get_all k m2.
Proof.
  induction m1 as [|[k' v] m1 IH]; [reflexivity|]. cbn [app get_all].
  destruct (bytes_eqb k k'); [cbn [app]; f_equal|]; exact IH.
Qed.

Lemma field_of_insert k k' v m1 m2 : k' <> k -> field_of k (m1 ++ (k', v) :: m2) = field_of k (m1 ++ m2).
Proof.
  intro N. unfold field_of. rewrite !get_all_app. cbn [get_all].
  destruct (bytes_eqb k k') eqn:E; [|reflexivity]. apply bytes_eqb_eq in E. congruence.
Qed.

(* members with other keys are ignored, wherever they stand *)
Theorem unknown_members_ignored m1 k v m2 :
  ~ In k [k_jsonrpc; k_id; k_result; k_error] ->
  parse_response_members (m1 ++ (k, v) :: m2) = parse_response_members (m1 ++ m2).
Proof.
  intro N. cbn [In] in N. unfold parse_response_members.
  rewrite !(field_of_insert _ k v m1 m2) by (intro; apply N; subst k; tauto). reflexivity.
Qed.

Corollary unknown_members_ignored_text m1 k v m2 :
  ~ In k [k_jsonrpc; k_id; k_result; k_error] -> Forall mem_ok (m1 ++ (k, v) :: m2) ->
  parse_response (ser_object (m1 ++ (k, v) :: m2)) = parse_response (ser_object (m1 ++ m2)).
Proof.
  intros N HF. unfold parse_response.
  assert (HF' : Forall mem_ok (m1 ++ m2)).
  { apply Forall_app in HF as [H1 H2]. apply Forall_app. split; [exact H1 | inversion H2; assumption]. }
  rewrite !object_members_ser by assumption. apply unknown_members_ignored, N.
Qed.

(* ---------- subscription notifications ---------- *)

Definition sub_key (is_err : bool) : bytes := if is_err then k_error else k_result.
Definition sub_payload_members (sid : subid) (is_err : bool) (raw : bytes) : members :=
  [(k_subscription, ser_subid sid); (sub_key is_err, raw)].
Definition sub_notif_members (me : bytes) (sid : subid) (is_err : bool) (raw : bytes) : members :=
  [(k_jsonrpc, ser_str v_two); (k_method, ser_str me); (k_params, ser_object (sub_payload_members sid is_err raw))].

Lemma ser_sub_notif_eq me sid is_err raw :
  ser_sub_notif me sid is_err raw = ser_object (sub_notif_members me sid is_err raw).
Proof.
  unfold ser_sub_notif, sub_notif_members, sub_payload_members, sub_key, ser_object.
  destruct is_err; cbn [ser_mems]; list_solve.
Qed.

Lemma sub_payload_members_ok sid is_err raw : wf_subid sid -> raw_payload raw ->
  Forall mem_ok (sub_payload_members sid is_err raw).
Proof.
  intros Ws Hr. unfold sub_payload_members.
  constructor; [split; [reflexivity | apply span_ok_subid, Ws]|].
  constructor; [|constructor]. split; [destruct is_err; reflexivity | apply raw_payload_span, Hr].
Qed.

Lemma sub_payload_fields st is_err raw :
  let m := [(k_subscription, st); (sub_key is_err, raw)] in
  field_of k_subscription m = FOne st /\ field_of (sub_key is_err) m = FOne raw /\
  field_of (sub_key (negb is_err)) m = FAbsent.
Proof. destruct is_err; repeat split; reflexivity. Qed.

Lemma parse_sub_payload_ser sid is_err raw : wf_subid sid -> raw_payload raw ->
  parse_sub_payload (sub_key is_err) (ser_object (sub_payload_members sid is_err raw)) = Some (sid, raw) /\
  parse_sub_payload (sub_key (negb is_err)) (ser_object (sub_payload_members sid is_err raw)) = None.
Proof.
  intros Ws Hr. unfold parse_sub_payload.
  rewrite !de_struct_ser_object by (apply sub_payload_members_ok; assumption).
  unfold as_sub_payload, sub_payload_members.
  destruct (sub_payload_fields (ser_subid sid) is_err raw) as (F1 & F2 & F3). rewrite F1, F2, F3.
  split; [|reflexivity].
  rewrite (subid_roundtrip _ Ws). unfold as_raw. destruct Hr as (_ & U & _). rewrite U. reflexivity.
Qed.

Lemma sub_notif_fields mt pt :
  let m := [(k_jsonrpc, ser_str v_two); (k_method, mt); (k_params, pt)] in
  field_of k_jsonrpc m = FOne (ser_str v_two) /\ field_of k_method m = FOne mt /\ field_of k_params m = FOne pt.
Proof. repeat split; reflexivity. Qed.

Lemma sub_notif_members_ok me sid is_err raw : utf8_valid me = true -> wf_subid sid -> raw_payload raw ->
  Forall mem_ok (sub_notif_members me sid is_err raw).
Proof.
  intros Um Ws Hr. unfold sub_notif_members.
  constructor; [split; [reflexivity | apply span_ok_two]|].
  constructor; [split; [reflexivity | apply span_ok_str, Um]|].
  constructor; [|constructor]. split; [reflexivity|].
  apply span_ok_object, sub_payload_members_ok; assumption.
Qed.

Theorem sub_notif_roundtrip me sid (is_err : bool) raw :
  utf8_valid me = true -> wf_subid sid -> raw_payload raw ->
  parse_sub_notif (if is_err then k_error else k_result) (ser_sub_notif me sid is_err raw) = Some (me, sid, raw).
Proof.
  intros Um Ws Hr.
  destruct (parse_sub_payload_ser sid is_err raw Ws Hr) as [P _].
  unfold parse_sub_notif. rewrite ser_sub_notif_eq, de_struct_ser_object by (apply sub_notif_members_ok; assumption).
  unfold as_sub_notif, sub_notif_members.
  destruct (sub_notif_fields (ser_str me) (ser_object (sub_payload_members sid is_err raw))) as (F1 & F2 & F3).
  rewrite F1, F2, F3, is_two_two, (as_str_ser _ Um).
  destruct is_err; cbv [sub_key] in P; rewrite P; reflexivity.
Qed.

(* an item is never read as an error notification and vice versa *)
Theorem sub_notif_kind_distinguished me sid (is_err : bool) raw :
  utf8_valid me = true -> wf_subid sid -> raw_payload raw ->
  parse_sub_notif (if is_err then k_result else k_error) (ser_sub_notif me sid is_err raw) = None.
Proof.
  intros Um Ws Hr.
  destruct (parse_sub_payload_ser sid is_err raw Ws Hr) as [_ P].
  unfold parse_sub_notif. rewrite ser_sub_notif_eq, de_struct_ser_object by (apply sub_notif_members_ok; assumption).
  unfold as_sub_notif, sub_notif_members.
  destruct (sub_notif_fields (ser_str me) (ser_object (sub_payload_members sid is_err raw))) as (F1 & F2 & F3).
  rewrite F1, F2, F3, is_two_two, (as_str_ser _ Um).
  destruct is_err; cbv [sub_key negb] in P; rewrite P; reflexivity.
Qed.

(* ---------- sequence forms of the derived structs ---------- *)

(* Response: deserialize_struct with a visitor that implements visit_map only *)
Lemma parse_response_de_struct t : parse_response t = de_struct parse_response_members (fun _ => None) t.
Proof. unfold parse_response. symmetry. apply de_struct_map_only. Qed.

(* for ALL field texts: the array [c, m, d] is read exactly as the object {"code":c,"message":m,"data":d} *)
Theorem seq_form_errobj_fields c m d : span_ok c -> span_ok m -> span_ok d ->
  parse_errobj (ser_array [c; m; d]) = parse_errobj (ser_object [(k_code, c); (k_message, m); (k_data, d)]).
Proof.
  intros Hc Hm Hd. unfold parse_errobj.
  rewrite de_struct_ser_array; [|discriminate|repeat (constructor; try assumption)].
  rewrite de_struct_ser_object; [reflexivity|].
  repeat (constructor; [split; [reflexivity | assumption]|]). constructor.
Qed.

Definition opt_text (o : option bytes) : bytes := match o with Some d => d | None => b#"null" end.

Lemma span_ok_null : span_ok b#"null".
Proof. apply (span_ok_ser JNull). reflexivity. Qed.

Lemma span_ok_opt_text o : wf_opt_payload o -> span_ok (opt_text o).
Proof. destruct o as [d|]; cbn [opt_text wf_opt_payload]; [intro H; apply raw_payload_span, H | intros _; exact span_ok_null]. Qed.

Lemma as_opt_raw_opt_text o : wf_opt_payload o -> as_opt_raw (opt_text o) = Some o.
Proof. destruct o as [d|]; cbn [opt_text wf_opt_payload]; [intro H; apply as_opt_raw_payload; apply H | reflexivity]. Qed.

Definition errobj_seq_fields (e : errobj) : list bytes := [print_Z (e_code e); ser_str (e_message e); opt_text (e_data e)].

Lemma errobj_seq_fields_ok e : wf_errobj e -> Forall span_ok (errobj_seq_fields e).
Proof.
  intros (Hc & Um & Hd). unfold errobj_seq_fields.
  constructor; [apply span_ok_code, Hc|]. constructor; [apply span_ok_str, Um|].
  constructor; [apply span_ok_opt_text, Hd | constructor].
Qed.

Lemma seq_errobj_fields e : wf_errobj e -> seq_errobj (errobj_seq_fields e) = Some e.
Proof.
  intros (Hc & Um & Hd). unfold errobj_seq_fields, seq_errobj.
  rewrite (parse_text_code _ Hc), (as_str_ser _ Um), (i32_of_code _ Hc), (as_opt_raw_opt_text _ Hd).
  destruct e; reflexivity.
Qed.

(* [code,"message",data-or-null] is read as the same error object as the object form the library writes *)
Theorem seq_form_errobj e :
  (-2147483648 <= e_code e < 2147483648)%Z -> utf8_valid (e_message e) = true ->
  match e_data e with Some d => raw_payload d /\ nonnull d | None => True end ->
  parse_errobj (ser_array [print_Z (e_code e); ser_str (e_message e); match e_data e with Some d => d | None => b#"null" end])
    = Some e /\
  parse_errobj (ser_array [print_Z (e_code e); ser_str (e_message e); match e_data e with Some d => d | None => b#"null" end])
    = parse_errobj (ser_errobj e).
Proof.
  intros H1 H2 H3. assert (W : wf_errobj e) by (repeat split; assumption || apply H1).
  assert (E : parse_errobj (ser_array (errobj_seq_fields e)) = Some e).
  { unfold parse_errobj. rewrite de_struct_ser_array; [apply seq_errobj_fields, W | discriminate | apply errobj_seq_fields_ok, W]. }
  rewrite (errobj_roundtrip_wf e W). split; exact E.
Qed.

(* an array text is read through visit_seq only, and visit_seq + end_seq demand the exact number of fields;
   the hand-written Response visitor has no visit_seq at all *)
Theorem seq_form_exact_length t els : array_elems t = Some els ->
  (length els <> 3%nat -> parse_errobj t = None) /\
  (length els <> 4%nat -> parse_request t = None) /\
  (length els <> 3%nat -> parse_notification t = None) /\
  (length els <> 1%nat -> parse_invalid t = None) /\
  (forall key, length els <> 2%nat -> parse_sub_payload key t = None) /\
  (forall key, length els <> 3%nat -> parse_sub_notif key t = None) /\
  parse_response t = None.
Proof.
  intro H. unfold parse_errobj, parse_request, parse_notification, parse_invalid, parse_sub_payload, parse_sub_notif.
  rewrite !(de_struct_array _ _ _ _ H).
  split; [|split; [|split; [|split; [|split; [|split]]]]].
  - intro L. destruct els as [|e1 [|e2 [|e3 [|e4 els]]]]; try reflexivity. exfalso; apply L; reflexivity.
  - intro L. destruct els as [|e1 [|e2 [|e3 [|e4 [|e5 els]]]]]; try reflexivity. exfalso; apply L; reflexivity.
  - intro L. destruct els as [|e1 [|e2 [|e3 [|e4 els]]]]; try reflexivity. exfalso; apply L; reflexivity.
  - intro L. destruct els as [|e1 [|e2 els]]; try reflexivity. exfalso; apply L; reflexivity.
  - intros key L. rewrite (de_struct_array _ _ _ _ H).
    destruct els as [|e1 [|e2 [|e3 els]]]; try reflexivity. exfalso; apply L; reflexivity.
  - intros key L. rewrite (de_struct_array _ _ _ _ H).
    destruct els as [|e1 [|e2 [|e3 [|e4 els]]]]; try reflexivity. exfalso; apply L; reflexivity.
  - unfold parse_response. rewrite (array_not_object _ _ H). reflexivity.
Qed.

(* the sequence form at the right length reads exactly the positional fields *)
Theorem seq_form_positional t :
  (forall c m d, array_elems t = Some [c; m; d] -> parse_errobj t = seq_errobj [c; m; d]) /\
  (forall j i me p, array_elems t = Some [j; i; me; p] -> parse_request t = seq_request [j; i; me; p]) /\
  (forall j me p, array_elems t = Some [j; me; p] -> parse_notification t = seq_notification [j; me; p]) /\
  (forall i, array_elems t = Some [i] -> parse_invalid t = parse_id i).
Proof.
  repeat split; intros; unfold parse_errobj, parse_request, parse_notification, parse_invalid;
    rewrite (de_struct_array _ _ _ _ H); reflexivity.
Qed.

Theorem seq_form_request r :
  wf_id (rq_id r) -> utf8_valid (rq_method r) = true ->
  match rq_params r with Some p => raw_payload p /\ nonnull p | None => True end ->
  parse_request (ser_array [ser_str v_two; ser_id (rq_id r); ser_str (rq_method r);
                            match rq_params r with Some p => p | None => b#"null" end]) = Some r.
Proof.
  intros Wi Um Hp. change (match rq_params r with Some p => p | None => b#"null" end) with (opt_text (rq_params r)).
  unfold parse_request. rewrite de_struct_ser_array.
  - unfold seq_request. rewrite is_two_two, (id_roundtrip _ Wi), (as_str_ser _ Um), (as_opt_raw_opt_text _ Hp).
    destruct r; reflexivity.
  - discriminate.
  - constructor; [apply span_ok_two|]. constructor; [apply span_ok_id, Wi|]. constructor; [apply span_ok_str, Um|].
    constructor; [apply span_ok_opt_text, Hp | constructor].
Qed.

Theorem seq_form_notification me p :
  utf8_valid me = true ->
  match p with Some p' => raw_payload p' /\ nonnull p' | None => True end ->
  parse_notification (ser_array [ser_str v_two; ser_str me; match p with Some p' => p' | None => b#"null" end]) = Some (me, p).
Proof.
  intros Um Hp. change (match p with Some p' => p' | None => b#"null" end) with (opt_text p).
  unfold parse_notification. rewrite de_struct_ser_array.
  - unfold seq_notification. rewrite is_two_two, (as_str_ser _ Um), (as_opt_raw_opt_text _ Hp). reflexivity.
  - discriminate.
  - constructor; [apply span_ok_two|]. constructor; [apply span_ok_str, Um|].
    constructor; [apply span_ok_opt_text, Hp | constructor].
Qed.

Theorem seq_form_invalid i : wf_id i -> parse_invalid (ser_array [ser_id i]) = Some i.
Proof.
  intro Wi. unfold parse_invalid. rewrite de_struct_ser_array.
  - cbn [seq_invalid]. apply id_roundtrip, Wi.
  - discriminate.
  - constructor; [apply span_ok_id, Wi | constructor].
Qed.

(* the payload in sequence form [subscription, value]: the member name is gone, so it is read under EITHER key *)
Lemma parse_sub_payload_seq key sid raw : wf_subid sid -> raw_payload raw ->
  parse_sub_payload key (ser_array [ser_subid sid; raw]) = Some (sid, raw).
Proof.
  intros Ws Hr. unfold parse_sub_payload. rewrite de_struct_ser_array.
  - unfold seq_sub_payload. rewrite (subid_roundtrip _ Ws). unfold as_raw. destruct Hr as (_ & U & _). rewrite U. reflexivity.
  - discriminate.
  - constructor; [apply span_ok_subid, Ws|]. constructor; [apply raw_payload_span, Hr | constructor].
Qed.

Lemma span_ok_sub_payload_seq sid raw : wf_subid sid -> raw_payload raw -> span_ok (ser_array [ser_subid sid; raw]).
Proof.
  intros Ws Hr. apply span_ok_array; [discriminate|].
  constructor; [apply span_ok_subid, Ws|]. constructor; [apply raw_payload_span, Hr | constructor].
Qed.

Lemma parse_sub_notif_outer_obj key me pt x : utf8_valid me = true -> span_ok pt ->
  parse_sub_payload key pt = Some x ->
  parse_sub_notif key (ser_object [(k_jsonrpc, ser_str v_two); (k_method, ser_str me); (k_params, pt)]) = Some (me, fst x, snd x).
Proof.
  intros Um Sp P. unfold parse_sub_notif. rewrite de_struct_ser_object.
  - unfold as_sub_notif. destruct (sub_notif_fields (ser_str me) pt) as (F1 & F2 & F3).
    rewrite F1, F2, F3, is_two_two, (as_str_ser _ Um), P. destruct x; reflexivity.
  - constructor; [split; [reflexivity | apply span_ok_two]|].
    constructor; [split; [reflexivity | apply span_ok_str, Um]|].
    constructor; [split; [reflexivity | exact Sp] | constructor].
Qed.

Lemma parse_sub_notif_outer_seq key me pt x : utf8_valid me = true -> span_ok pt ->
  parse_sub_payload key pt = Some x ->
  parse_sub_notif key (ser_array [ser_str v_two; ser_str me; pt]) = Some (me, fst x, snd x).
Proof.
  intros Um Sp P. unfold parse_sub_notif. rewrite de_struct_ser_array.
  - unfold seq_sub_notif. rewrite is_two_two, (as_str_ser _ Um), P. destruct x; reflexivity.
  - discriminate.
  - constructor; [apply span_ok_two|]. constructor; [apply span_ok_str, Um|]. constructor; [exact Sp | constructor].
Qed.

(* a subscription notification with the sequence form at either or both levels is read as the same
   (method, subscription id, payload) as the object form the library writes *)
Theorem seq_form_sub_notif me sid (is_err : bool) raw :
  utf8_valid me = true -> wf_subid sid -> raw_payload raw ->
  let key := if is_err then k_error else k_result in
  let pay_obj := ser_object [(k_subscription, ser_subid sid); (key, raw)] in
  let pay_seq := ser_array [ser_subid sid; raw] in
  let outer_obj := fun p => ser_object [(k_jsonrpc, ser_str v_two); (k_method, ser_str me); (k_params, p)] in
  let outer_seq := fun p => ser_array [ser_str v_two; ser_str me; p] in
  outer_obj pay_obj = ser_sub_notif me sid is_err raw /\
  parse_sub_notif key (outer_obj pay_obj) = Some (me, sid, raw) /\
  parse_sub_notif key (outer_obj pay_seq) = Some (me, sid, raw) /\
  parse_sub_notif key (outer_seq pay_obj) = Some (me, sid, raw) /\
  parse_sub_notif key (outer_seq pay_seq) = Some (me, sid, raw).
Proof.
  intros Um Ws Hr. cbv zeta.
  assert (E : ser_object [(k_jsonrpc, ser_str v_two); (k_method, ser_str me);
                          (k_params, ser_object [(k_subscription, ser_subid sid); (if is_err then k_error else k_result, raw)])]
              = ser_sub_notif me sid is_err raw) by (symmetry; apply ser_sub_notif_eq).
  destruct (parse_sub_payload_ser sid is_err raw Ws Hr) as [Po _].
  change (sub_key is_err) with (if is_err then k_error else k_result) in Po. unfold sub_payload_members, sub_key in Po.
  pose proof (parse_sub_payload_seq (if is_err then k_error else k_result) sid raw Ws Hr) as Ps.
  assert (So : span_ok (ser_object [(k_subscription, ser_subid sid); (if is_err then k_error else k_result, raw)])).
  { apply (span_ok_object _ (sub_payload_members_ok sid is_err raw Ws Hr)). }
  pose proof (span_ok_sub_payload_seq sid raw Ws Hr) as Ss.
  split; [exact E|]. split; [rewrite E; apply sub_notif_roundtrip; assumption|].
  split; [apply (parse_sub_notif_outer_obj _ me _ (sid, raw) Um Ss Ps)|].
  split; [apply (parse_sub_notif_outer_seq _ me _ (sid, raw) Um So Po) | apply (parse_sub_notif_outer_seq _ me _ (sid, raw) Um Ss Ps)].
Qed.

(* ... and with the payload in sequence form the item / error distinction is lost: the same text is accepted by the
   SubscriptionResponse reader AND by the SubscriptionError reader (the client tries the former first) *)
Theorem seq_form_sub_kind_lost me sid raw key1 key2 :
  utf8_valid me = true -> wf_subid sid -> raw_payload raw ->
  let t := ser_object [(k_jsonrpc, ser_str v_two); (k_method, ser_str me); (k_params, ser_array [ser_subid sid; raw])] in
  parse_sub_notif key1 t = Some (me, sid, raw) /\ parse_sub_notif key2 t = Some (me, sid, raw).
Proof.
  intros Um Ws Hr. cbv zeta. pose proof (span_ok_sub_payload_seq sid raw Ws Hr) as Ss.
  split; [apply (parse_sub_notif_outer_obj key1 me _ (sid, raw) Um Ss (parse_sub_payload_seq key1 sid raw Ws Hr))
         | apply (parse_sub_notif_outer_obj key2 me _ (sid, raw) Um Ss (parse_sub_payload_seq key2 sid raw Ws Hr))].
Qed.

(* ---------- non-vacuity: concrete values satisfying the hypotheses ---------- *)

Ltac raw_ser v := change (raw_payload (ser v)); apply raw_payload_ser; reflexivity.

Definition ex_obj : json := JObj [(b#"a", JArr [JNum (NPos 1); JBool true; JNull; JStr b#"x\y"])].
Definition ex_arr : json := JArr [JNum (NNeg 5); JStr b#"two"; JObj []].

Example raw_payload_nonvacuous :
  raw_payload b#"{""a"":[1,true,null,""x\\y""]}" /\ nonnull b#"{""a"":[1,true,null,""x\\y""]}" /\
  raw_payload b#"null" /\ ~ nonnull b#"null" /\ ~ raw_payload b#" 1".
Proof.
  split; [raw_ser ex_obj|]. split; [reflexivity|]. split; [raw_ser JNull|].
  split; [discriminate|]. intros (_ & _ & H). discriminate H.
Qed.

(* ids: the u64 boundary, a string with an escape, a multi-byte character and a control byte; one past u64 does not round-trip *)
Example id_roundtrip_nonvacuous :
  wf_id (IdNum 18446744073709551615) /\ wf_id (IdStr [x61; x22; xc3; xa9; x0a]) /\ wf_id IdNull /\
  ser_id (IdStr [x61; x22; xc3; xa9; x0a]) = [x22; x61; x5c; x22; xc3; xa9; x5c; x6e; x22] /\
  parse_id (ser_id (IdNum 18446744073709551616)) = None /\ parse_id (ser_id (IdStr [xff])) = None.
Proof. repeat split; try reflexivity. vm_compute. discriminate. Qed.

Example subid_roundtrip_nonvacuous :
  wf_subid (SubNum 0) /\ wf_subid (SubStr b#"0xcafe") /\ ser_subid (SubStr b#"0xcafe") = b#"""0xcafe""".
Proof. repeat split; try reflexivity. vm_compute. discriminate. Qed.

Definition ex_err : errobj :=
  {| e_code := (-32602)%Z; e_message := b#"Invalid ""params"""; e_data := Some b#"{""a"":[1,true,null,""x\\y""]}" |}.

Lemma ex_err_wf : wf_errobj ex_err.
Proof.
  split; [unfold i32_range; cbn; lia|]. split; [reflexivity|]. cbn [e_data ex_err].
  split; [raw_ser ex_obj | reflexivity].
Qed.

Example errobj_roundtrip_nonvacuous :
  (-2147483648 <= e_code ex_err < 2147483648)%Z /\ utf8_valid (e_message ex_err) = true /\
  match e_data ex_err with Some d => raw_payload d /\ nonnull d | None => True end /\
  ser_errobj ex_err = b#"{""code"":-32602,""message"":""Invalid \""params\"""",""data"":{""a"":[1,true,null,""x\\y""]}}".
Proof. destruct ex_err_wf as (H1 & H2 & H3). repeat split; try assumption; try apply H1; try apply H3. Qed.

Definition ex_req : request := {| rq_id := IdStr b#"id-7"; rq_method := b#"say_hello"; rq_params := Some b#"[-5,""two"",{}]" |}.

Example request_roundtrip_nonvacuous :
  wf_id (rq_id ex_req) /\ utf8_valid (rq_method ex_req) = true /\
  match rq_params ex_req with Some p => raw_payload p /\ nonnull p | None => True end /\
  ser_request ex_req = b#"{""jsonrpc"":""2.0"",""id"":""id-7"",""method"":""say_hello"",""params"":[-5,""two"",{}]}".
Proof. split; [reflexivity|]. split; [reflexivity|]. split; [split; [raw_ser ex_arr | reflexivity] | reflexivity]. Qed.

Example notification_roundtrip_nonvacuous :
  utf8_valid b#"tick" = true /\ (raw_payload b#"[-5,""two"",{}]" /\ nonnull b#"[-5,""two"",{}]") /\
  ser_notification b#"tick" (Some b#"[-5,""two"",{}]") = b#"{""jsonrpc"":""2.0"",""method"":""tick"",""params"":[-5,""two"",{}]}" /\
  ser_notification b#"tick" None = b#"{""jsonrpc"":""2.0"",""method"":""tick"",""params"":null}".
Proof. split; [reflexivity|]. split; [split; [raw_ser ex_arr | reflexivity]|]. split; reflexivity. Qed.

Definition ex_resp_ok : response := {| rs_jsonrpc := true; rs_payload := PResult b#"null"; rs_id := IdNum 42 |}.
Definition ex_resp_err : response := {| rs_jsonrpc := true; rs_payload := PError ex_err; rs_id := IdNull |}.
Definition ex_resp_bare : response := {| rs_jsonrpc := false; rs_payload := PResult b#"[-5,""two"",{}]"; rs_id := IdStr b#"a" |}.

Example response_roundtrip_nonvacuous :
  (wf_id (rs_id ex_resp_ok) /\ wf_payload (rs_payload ex_resp_ok)) /\
  (wf_id (rs_id ex_resp_err) /\ wf_payload (rs_payload ex_resp_err)) /\
  (wf_id (rs_id ex_resp_bare) /\ wf_payload (rs_payload ex_resp_bare)) /\
  ser_response ex_resp_ok = b#"{""jsonrpc"":""2.0"",""id"":42,""result"":null}" /\
  ser_response ex_resp_err =
    b#"{""jsonrpc"":""2.0"",""id"":null,""error"":{""code"":-32602,""message"":""Invalid \""params\"""",""data"":{""a"":[1,true,null,""x\\y""]}}}" /\
  ser_response ex_resp_bare = b#"{""id"":""a"",""result"":[-5,""two"",{}]}".
Proof.
  split; [split; [vm_compute; discriminate | raw_ser JNull]|].
  split; [split; [exact I | exact ex_err_wf]|].
  split; [split; [reflexivity | raw_ser ex_arr]|].
  repeat split; reflexivity.
Qed.

(* the acceptance condition on concrete member lists / texts: accepted with an unknown member, jsonrpc null and
   members in any order; rejected for a duplicate id, for result together with error, for jsonrpc "1.0",
   for a missing id, for an id outside the id domain, for an error object with an unknown member *)
Example response_accept_nonvacuous :
  parse_response b#"{ ""result"" : 2, ""x"":[], ""jsonrpc"":null, ""id"":1 }" <> None /\
  parse_response b#"{""id"":1,""error"":{""message"":""m"",""code"":-1}}" <> None /\
  parse_response b#"{""id"":1,""id"":1,""result"":2}" = None /\
  parse_response b#"{""id"":1,""result"":2,""error"":{""code"":-1,""message"":""m""}}" = None /\
  parse_response b#"{""jsonrpc"":""1.0"",""id"":1,""result"":2}" = None /\
  parse_response b#"{""jsonrpc"":""2.0"",""result"":2}" = None /\
  parse_response b#"{""id"":1.5,""result"":2}" = None /\
  parse_response b#"{""id"":1,""error"":{""code"":-1,""message"":""m"",""extra"":0}}" = None.
Proof. repeat split; vm_compute; (reflexivity || discriminate). Qed.

Example sub_notif_roundtrip_nonvacuous :
  utf8_valid b#"sub" = true /\ wf_subid (SubStr b#"0xcafe") /\ raw_payload b#"[-5,""two"",{}]" /\
  ser_sub_notif b#"sub" (SubStr b#"0xcafe") false b#"[-5,""two"",{}]" =
    b#"{""jsonrpc"":""2.0"",""method"":""sub"",""params"":{""subscription"":""0xcafe"",""result"":[-5,""two"",{}]}}".
Proof. split; [reflexivity|]. split; [reflexivity|]. split; [raw_ser ex_arr | reflexivity]. Qed.
