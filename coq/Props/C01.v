(* C01 -- server: every message gets at most one well-formed reply carrying its own id.
   Property theorems only; each is closed by `exact <lemma>` (proofs in Proofs/ServerFacts.v over Model/Server.v);
   statements are pinned in tools/pinned/C01.statements.

   Vocabulary (Proofs/ServerFacts.v, Model/Server.v):
     handle reg h t c b        the outcome (frames / HTTP status / handler log) of delivering the bytes b as ONE message over t
     replies t o               what the peer receives as replies (HTTP: the body, unless it is the acknowledgement `null`)
     sniff t b                 Some (true, body) single / Some (false, body) batch / None: neither '{' nor '[' within the window
     is_batch_msg t b          the message is sniffed as a batch (C02's domain)
     classify body             Call r | Notif | Invalid id | ParseErr, exactly as the code tries Request, Notification, InvalidRequest
     is_response f i p         f reads back (with the library's own object scanner) as exactly jsonrpc:"2.0", id:i, result|error:p
     handlers_wf h             handlers emit JSON texts / UTF-8 messages / i32 codes
     panics_only_blocking      a handler panics only inside register_blocking_method (the only place a panic is answered) *)
From JV Require Import Base.Bytes Base.Dec Base.Utf8 Json.Json Json.JsonSer Json.JsonParse Json.JsonWf Model.Wire Model.RespSize
  Model.Server Proofs.JsonFacts Proofs.WireFacts Proofs.ServerFacts.
Local Open Scope N_scope.

Theorem C01_reply_wellformed : forall reg h t c b, handlers_wf h -> panics_only_blocking reg h -> is_batch_msg t b = false -> (length (replies t (handle reg h t c b)) <= 1)%nat /\ Forall wellformed_response (replies t (handle reg h t c b)).
Proof. exact c01_reply_wellformed. Qed.
Print Assumptions C01_reply_wellformed.

Theorem C01_silent_iff_notification : forall reg h t c b, is_batch_msg t b = false -> (replies t (handle reg h t c b) = [] <-> exists body, sniff t b = Some (true, body) /\ classify body = Notif).
Proof. exact c01_silent_iff_notification. Qed.
Print Assumptions C01_silent_iff_notification.

Theorem C01_notification_characterised : forall body, classify body = Notif <-> exists m, object_members body = Some m /\ as_notification m <> None /\ match field_of k_id m with FOne sp => parse_id sp = None | _ => True end.
Proof. exact classify_notif_iff. Qed.
Print Assumptions C01_notification_characterised.

Theorem C01_duplicate_id_is_notification : forall body m, object_members body = Some m -> as_notification m <> None -> field_of k_id m = FDup -> classify body = Notif.
Proof. exact c01_duplicate_id. Qed.
Print Assumptions C01_duplicate_id_is_notification.

Theorem C01_http_acknowledges_notification : forall reg h c b body, sniff Http b = Some (true, body) -> classify body = Notif -> o_status (handle reg h Http c b) = Some 200 /\ o_frames (handle reg h Http c b) = [null_text].
Proof. exact http_notification_ack. Qed.
Print Assumptions C01_http_acknowledges_notification.

Theorem C01_call_answered_with_own_id_and_result : forall reg h t c b body r, handlers_wf h -> panics_only_blocking reg h -> sniff t b = Some (true, body) -> classify body = Call r -> exists f p, replies t (handle reg h t c b) = [f] /\ is_response f (rq_id r) p /\ (reg (rq_method r) = None -> p = PError method_not_found) /\ (forall k, reg (rq_method r) = Some k -> served k t = false -> p = PError internal_err) /\ (forall k, reg (rq_method r) = Some k -> served k t = true -> let too_big q := sc_max_response c < blen (mk_response (rq_id r) q) /\ p = PError (oversized_response_error (sc_max_response c)) in match h (rq_method r) (rq_params r) with HOk raw => p = PResult raw \/ too_big (PResult raw) | HErr code msg d => p = PError (mk_err code msg d) \/ too_big (PError (mk_err code msg d)) | HBadParams d => p = PError (invalid_params d) \/ too_big (PError (invalid_params d)) | HPanic => p = PError internal_err end).
Proof. exact c01_call_answered. Qed.
Print Assumptions C01_call_answered_with_own_id_and_result.

Theorem C01_not_json_is_parse_error : forall reg h t c b, sniff t b = None \/ (exists body, sniff t b = Some (true, body) /\ lenient_json body = false) -> replies t (handle reg h t c b) = [mk_response IdNull (PError parse_error)] /\ o_log (handle reg h t c b) = [].
Proof. exact c01_not_json_lenient. Qed.
Print Assumptions C01_not_json_is_parse_error.

Theorem C01_not_an_object_is_parse_error : forall reg h t c b, sniff t b = None \/ (exists body, sniff t b = Some (true, body) /\ object_members body = None) -> replies t (handle reg h t c b) = [mk_response IdNull (PError parse_error)] /\ o_log (handle reg h t c b) = [].
Proof. exact c01_not_json. Qed.
Print Assumptions C01_not_an_object_is_parse_error.

Theorem C01_not_request_is_invalid_or_parse_error : forall reg h t c b body m, sniff t b = Some (true, body) -> object_members body = Some m -> as_request m = None -> as_notification m = None -> o_log (handle reg h t c b) = [] /\ match as_invalid m with Some i => replies t (handle reg h t c b) = [mk_response i (PError invalid_request)] | None => replies t (handle reg h t c b) = [mk_response IdNull (PError parse_error)] end.
Proof. exact c01_not_request. Qed.
Print Assumptions C01_not_request_is_invalid_or_parse_error.

Theorem C01_id_recoverable_iff : forall m i, as_invalid m = Some i <-> exists sp, field_of k_id m = FOne sp /\ parse_id sp = Some i.
Proof. exact as_invalid_iff. Qed.
Print Assumptions C01_id_recoverable_iff.

Theorem C01_ws_http_agree : forall reg h c b, is_batch_msg Ws b = false -> (forall body r, sniff Ws b = Some (true, body) -> classify body = Call r -> reg (rq_method r) <> Some KSub /\ reg (rq_method r) <> Some KUnsub) -> replies Ws (handle reg h Ws c b) = replies Http (handle reg h Http c b) /\ o_log (handle reg h Ws c b) = o_log (handle reg h Http c b).
Proof. exact c01_ws_http_agree. Qed.
Print Assumptions C01_ws_http_agree.

Theorem C01_handler_runs_only_for_its_valid_call : forall reg h t c b, is_batch_msg t b = false -> forall m p, (o_log (handle reg h t c b) = [(m, p)] <-> exists body r k, sniff t b = Some (true, body) /\ classify body = Call r /\ rq_method r = m /\ rq_params r = p /\ reg m = Some k /\ runs_handler k t = true) /\ (o_log (handle reg h t c b) = [] \/ exists m' p', o_log (handle reg h t c b) = [(m', p')]).
Proof. exact c01_handler_log. Qed.
Print Assumptions C01_handler_runs_only_for_its_valid_call.

Theorem C01_connection_continues : forall reg h t c msgs, serve reg h t c true msgs = map (handle reg h t c) msgs.
Proof. exact c01_connection_continues. Qed.
Print Assumptions C01_connection_continues.

(* ---------- non-vacuity ---------- *)
Example C01_hypotheses_nonvacuous : handlers_wf (fun _ _ => HOk b#"7") /\ handlers_wf (fun _ _ => HErr 42 b#"boom" (Some b#"[1]")) /\ panics_only_blocking ex_reg ex_h.
Proof.
  split; [|split].
  - intros m p. cbn [hres_ok]. apply (span_ok_ser (JNum (NPos 7))). reflexivity.
  - intros m p. cbn [hres_ok]. split; [unfold i32_range; lia|]. split; [reflexivity|].
    apply (span_ok_ser (JArr [JNum (NPos 1)])). reflexivity.
  - intros m p. unfold ex_h, ex_reg. destruct (bytes_eqb m b#"sub"); [discriminate|].
    destruct (bytes_eqb m b#"boom"); [reflexivity | discriminate].
Qed.

Example C01_call_example : replies Http (handle ex_reg ex_h Http ex_cfg b#" {""jsonrpc"":""2.0"",""method"":""echo"",""params"":[1, 2],""id"":""ab""}") = [b#"{""jsonrpc"":""2.0"",""id"":""ab"",""result"":[1, 2]}"] /\ o_log (handle ex_reg ex_h Ws ex_cfg b#"{""jsonrpc"":""2.0"",""method"":""echo"",""params"":[1, 2],""id"":7}") = [(b#"echo", Some b#"[1, 2]")].
Proof. split; vm_compute; reflexivity. Qed.

Example C01_classes_example : replies Ws (handle ex_reg ex_h Ws ex_cfg b#"{""jsonrpc"":""2.0"",""method"":""echo"",""id"":1.5}") = [] /\ replies Http (handle ex_reg ex_h Http ex_cfg b#"{""jsonrpc"":""2.0"",""method"":""echo"",""id"":1,""id"":2}") = [] /\ replies Ws (handle ex_reg ex_h Ws ex_cfg b#"{""id"":""x"",""method"":1}") = [b#"{""jsonrpc"":""2.0"",""id"":""x"",""error"":{""code"":-32600,""message"":""Invalid request""}}"] /\ replies Http (handle ex_reg ex_h Http ex_cfg b#"{]") = [b#"{""jsonrpc"":""2.0"",""id"":null,""error"":{""code"":-32700,""message"":""Parse error""}}"] /\ replies Ws (handle ex_reg ex_h Ws ex_cfg b#"{""jsonrpc"":""2.0"",""method"":""boom"",""id"":9}") = [b#"{""jsonrpc"":""2.0"",""id"":9,""error"":{""code"":-32603,""message"":""Internal error""}}"] /\ replies Ws (handle ex_reg ex_h Ws ex_cfg b#"{""jsonrpc"":""2.0"",""method"":""nope"",""id"":9}") = [b#"{""jsonrpc"":""2.0"",""id"":9,""error"":{""code"":-32601,""message"":""Method not found""}}"].
Proof. repeat split; vm_compute; reflexivity. Qed.

(* ---- end to end with the client's serialisers (Proofs/EndToEnd.v, via the C15 round trips) ---- *)
From JV Require Import Base.Utf8 Proofs.WireFacts Proofs.EndToEnd.

Theorem C01_client_request_is_a_call : forall r : request,
  wf_id (rq_id r) -> utf8_valid (rq_method r) = true ->
  match rq_params r with Some p => raw_payload p /\ nonnull p | None => True end ->
  classify (ser_request r) = Call r.
Proof. exact client_request_is_a_call. Qed.
Print Assumptions C01_client_request_is_a_call.

Theorem C01_client_notification_is_a_notification : forall (me : bytes) (p : option bytes),
  utf8_valid me = true -> match p with Some p' => raw_payload p' /\ nonnull p' | None => True end ->
  classify (ser_notification me p) = Notif.
Proof. exact client_notification_is_a_notification. Qed.
Print Assumptions C01_client_notification_is_a_notification.
