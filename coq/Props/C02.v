(* C02 -- server: a batch is answered by one array with exactly one reply per call entry.
   Property theorems only; each is closed by `exact <lemma>` (proofs in Proofs/ServerFacts.v over Model/Server.v);
   statements are pinned in tools/pinned/C02.statements.

   Vocabulary (Proofs/ServerFacts.v, Model/Server.v):
     sniff t b = Some (false, body)   the message is sniffed as a batch
     batch_elems body                 the entries (raw spans) as serde_json::from_slice::<Vec<&RawValue>> yields them
     admitted c body es               batching enabled, the entries are es, es <> [], not longer than the limit
     entry_response t c e             the response of entry e (None: a notification); entry_responses: those of all entries, in order
     entry_directs t c es             frames the entries' callbacks write to the connection themselves
     array_of rs                      '[' r1 ',' ... ',' rk ']'
     KnownClass_C02_sub reg t es      KNOWN FINDING ws-batch-entry-calls-subscription-method: WebSocket and some entry is a valid
                                      call to a subscription method *)
From JV Require Import Base.Bytes Base.Dec Base.Utf8 Json.Json Json.JsonSer Json.JsonParse Json.JsonWf Model.Wire Model.RespSize
  Model.Server Gen.BatchGateGen Proofs.JsonFacts Proofs.WireFacts Proofs.ServerFacts.
Local Open Scope N_scope.

Theorem C02_gate : forall reg h t c b body, sniff t b = Some (false, body) -> (sc_batch c = BDisabled -> o_frames (handle reg h t c b) = [mk_response IdNull (PError batches_not_supported)] /\ o_log (handle reg h t c b) = []) /\ (forall n es, sc_batch c = BLimit n -> batch_elems body = Some es -> n < N.of_nat (length es) -> o_frames (handle reg h t c b) = [mk_response IdNull (PError (too_big_batch_request n))] /\ o_log (handle reg h t c b) = []) /\ (sc_batch c <> BDisabled -> batch_elems body = Some [] -> o_frames (handle reg h t c b) = [mk_response IdNull (PError invalid_request)] /\ o_log (handle reg h t c b) = []) /\ (sc_batch c <> BDisabled -> batch_elems body = None -> o_frames (handle reg h t c b) = [mk_response IdNull (PError parse_error)] /\ o_log (handle reg h t c b) = []).
Proof. exact c02_gate. Qed.
Print Assumptions C02_gate.

Theorem C02_array_shape : forall reg h t c b body es, sniff t b = Some (false, body) -> admitted c body es -> let rs := entry_responses reg h t c es in (rs = [] -> replies t (handle reg h t c b) = [] /\ (t = Http -> o_status (handle reg h t c b) = Some 200 /\ o_frames (handle reg h t c b) = [null_text])) /\ (rs <> [] -> blen (array_of rs) <= sc_max_response c -> o_frames (handle reg h t c b) = entry_directs reg h t c es ++ [array_of rs] /\ o_log (handle reg h t c b) = entry_logs reg h t c es).
Proof. exact c02_array_shape. Qed.
Print Assumptions C02_array_shape.

Theorem C02_array_reads_back : forall reg h t c es, handlers_wf h -> panics_only_blocking reg h -> let rs := entry_responses reg h t c es in rs <> [] -> array_elems (array_of rs) = Some rs /\ Forall wellformed_response rs.
Proof. exact c02_array_reads_back. Qed.
Print Assumptions C02_array_reads_back.

Theorem C02_entries_classified_as_singles : forall e, (is_object_text e = true -> classify_entry e = entry_of_class (classify e)) /\ (is_object_text e = false -> classify_entry e = EInvalid IdNull).
Proof. exact c02_entries_classified. Qed.
Print Assumptions C02_entries_classified_as_singles.

Theorem C02_entry_equals_single : forall reg h t c e, is_object_text e = true -> (forall r, classify e = Call r -> entry_response reg h t c e = Some (mk_response (rq_id r) (call_payload reg h t c r)) /\ replies t (handle reg h t c e) = [mk_response (rq_id r) (call_payload reg h t c r)]) /\ (forall i, classify e = Invalid i -> entry_response reg h t c e = Some (mk_response i (PError invalid_request)) /\ replies t (handle reg h t c e) = [mk_response i (PError invalid_request)]) /\ (classify e = Notif -> entry_response reg h t c e = None /\ replies t (handle reg h t c e) = []).
Proof. exact c02_entry_equals_single. Qed.
Print Assumptions C02_entry_equals_single.

(* exactly one response for each call-or-invalid entry, none for a notification, in entry order *)
Theorem C02_one_response_per_entry : forall reg h t c es, (length (entry_responses reg h t c es) = length (filter answered es) /\ (forall es1 e es2, es = es1 ++ e :: es2 -> entry_responses reg h t c es = entry_responses reg h t c es1 ++ opt_list (entry_response reg h t c e) ++ entry_responses reg h t c es2)) /\ (forall e, (entry_response reg h t c e = None <-> classify_entry e = ENotif) /\ (answered e = false <-> classify_entry e = ENotif)).
Proof. exact (fun reg h t c es => conj (c02_response_count reg h t c es) (fun e => conj (entry_response_none_iff reg h t c e) (answered_false_iff e))). Qed.
Print Assumptions C02_one_response_per_entry.

Theorem C02_only_size_limit_replaces_array : forall reg h t c b body es, sniff t b = Some (false, body) -> admitted c body es -> let rs := entry_responses reg h t c es in rs <> [] -> let own := m_json (rpc_batch reg h t c body) in In own (o_frames (handle reg h t c b)) /\ ((own = array_of rs /\ blen (array_of rs) <= sc_max_response c) \/ (own = too_big_batch (sc_max_response c) /\ sc_max_response c < blen (array_of rs))).
Proof. exact c02_only_size_limit. Qed.
Print Assumptions C02_only_size_limit_replaces_array.

Theorem C02_nothing_outside_array : forall reg h t c b body, sniff t b = Some (false, body) -> (forall es, batch_elems body = Some es -> ~ KnownClass_C02_sub reg t es) -> (length (o_frames (handle reg h t c b)) <= 1)%nat /\ o_frames (handle reg h t c b) = match t with Ws => ws_own (rpc_batch reg h t c body) | Http => [m_json (rpc_batch reg h t c body)] end.
Proof. exact c02_nothing_outside. Qed.
Print Assumptions C02_nothing_outside_array.

Theorem C02_sub_refuted : exists reg h c b body es, sniff Ws b = Some (false, body) /\ batch_elems body = Some es /\ KnownClass_C02_sub reg Ws es /\ o_frames (handle reg h Ws c b) = [ex_sub_resp; array_of [ex_sub_resp]].
Proof. exact c02_sub_refuted. Qed.
Print Assumptions C02_sub_refuted.

Theorem C02_seq_refuted_old : exists e r, is_object_text e = false /\ classify_entry_old e = ECall r /\ rq_method r = b#"echo" /\ KnownClass_C02_seq [e] /\ classify_entry e = EInvalid IdNull.
Proof. exact c02_seq_refuted_old. Qed.
Print Assumptions C02_seq_refuted_old.

(* the batch prologue / epilogue are INTERPRETED lists read from handle_rpc_call, RpcService::batch and
   BatchResponseBuilder::finish on every check (tools/translators/batch_gate.py, Gen/BatchGateGen.v): the order-sensitive
   facts the theorems above rest on, stated on the generated lists themselves *)
Theorem C02_gate_order : forall bc body, (bc = BDisabled -> run_gate batch_gate bc body = GReject batches_not_supported) /\ (bc <> BDisabled -> batch_elems body = None -> run_gate batch_gate bc body = GReject parse_error) /\ (forall n es, bc = BLimit n -> batch_elems body = Some es -> n < N.of_nat (length es) -> run_gate batch_gate bc body = GReject (too_big_batch_request n)) /\ (forall es, bc <> BDisabled -> batch_elems body = Some es -> (forall n, bc = BLimit n -> N.of_nat (length es) <= n) -> run_gate batch_gate bc body = GAdmit es) /\ (forall buf got_notification, run_epilogue batch_epilogue buf got_notification = if (Nat.leb (length buf) 1) && got_notification then Some FinSilent else Some (FinJson (match buf with [_] => mk_response IdNull (PError invalid_request) | _ => removelast buf ++ [x5d] end))).
Proof. exact c02_gate_order. Qed.
Print Assumptions C02_gate_order.

(* ---------- non-vacuity ---------- *)
Example C02_batch_example : o_frames (handle ex_reg ex_h Http ex_cfg b#"[{""jsonrpc"":""2.0"",""id"":1,""method"":""echo"",""params"":[1]}, {""jsonrpc"":""2.0"",""method"":""echo""}, 7, {""id"":""x""}, [""2.0"",5,""echo"",[1]]]") = [b#"[{""jsonrpc"":""2.0"",""id"":1,""result"":[1]},{""jsonrpc"":""2.0"",""id"":null,""error"":{""code"":-32600,""message"":""Invalid request""}},{""jsonrpc"":""2.0"",""id"":""x"",""error"":{""code"":-32600,""message"":""Invalid request""}},{""jsonrpc"":""2.0"",""id"":null,""error"":{""code"":-32600,""message"":""Invalid request""}}]"] /\ o_log (handle ex_reg ex_h Http ex_cfg b#"[{""jsonrpc"":""2.0"",""id"":1,""method"":""echo"",""params"":[1]}, {""jsonrpc"":""2.0"",""method"":""echo""}, 7]") = [(b#"echo", Some b#"[1]")].
Proof. split; vm_compute; reflexivity. Qed.

Example C02_gates_example : o_frames (handle ex_reg ex_h Ws {| sc_max_response := 10485760; sc_batch := BLimit 1 |} b#"[1,2]") = [b#"{""jsonrpc"":""2.0"",""id"":null,""error"":{""code"":-32010,""message"":""The batch request was too large"",""data"":""Exceeded max limit of 1""}}"] /\ o_frames (handle ex_reg ex_h Ws {| sc_max_response := 10485760; sc_batch := BDisabled |} b#"[1,2]") = [b#"{""jsonrpc"":""2.0"",""id"":null,""error"":{""code"":-32005,""message"":""Batched requests are not supported by this server""}}"] /\ o_frames (handle ex_reg ex_h Ws ex_cfg b#"[ ]") = [b#"{""jsonrpc"":""2.0"",""id"":null,""error"":{""code"":-32600,""message"":""Invalid request""}}"] /\ o_frames (handle ex_reg ex_h Ws ex_cfg b#"[{""jsonrpc"":""2.0"",""method"":""echo""}]") = [] /\ o_frames (handle ex_reg ex_h Ws {| sc_max_response := 50; sc_batch := BUnlimited |} b#"[{""jsonrpc"":""2.0"",""id"":1,""method"":""echo""},{""jsonrpc"":""2.0"",""id"":2,""method"":""echo""}]") = [b#"{""jsonrpc"":""2.0"",""id"":null,""error"":{""code"":-32011,""message"":""The batch response was too large"",""data"":""Exceeded max limit of 50""}}"].
Proof. repeat split; vm_compute; reflexivity. Qed.

Example C02_admitted_nonvacuous : admitted ex_cfg ex_sub_batch [ex_sub_call] /\ ~ KnownClass_C02_sub ex_reg Http [ex_sub_call].
Proof.
  split.
  - split; [discriminate|]. split; [vm_compute; reflexivity|]. split; [discriminate | reflexivity].
  - intros [H _]. discriminate H.
Qed.
